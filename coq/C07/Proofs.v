(* C07 — the tree cleaner's idioms keep the visible words (pure tree level).
   Model: C05/Heap.v (heap API, words_t), C05/TreeOps.v (t_find, t_replace, t_insert).
   1a words_t is a function of the preorder id list; 1b heap ops never change text / class;
   1c dissolve idiom; 1d adjacent move (_fix_paragraphs); 1e copy-and-split (_fix_nesting). *)
From Coq Require Import List NArith Bool Arith Lia.
From MW Require Import C05.Heap C05.TreeOps.
From MW Require C05.ProofsApi.
Import ListNotations.

(* ================================================================ 0. induction, forests *)
Lemma tree_ind' : forall P : tree -> Prop,
  (forall i ts, Forall P ts -> P (T i ts)) -> forall t, P t.
Proof.
  intros P H. fix IH 1. intros [i ts]. apply H.
  induction ts as [|t ts IHts].
  - constructor.
  - constructor.
    + apply IH.
    + exact IHts.
Qed.

Definition idsl (ts : list tree) : list N := flat_map ids ts.

Fixpoint f_find (c : N) (l : list tree) : option tree :=
  match l with
  | [] => None
  | x :: r => match t_find c x with Some s => Some s | None => f_find c r end
  end.

Definition rep (c : N) (news : list tree) (ts : list tree) : list tree :=
  flat_map (fun x => if N.eqb (tid x) c then news else [t_replace c news x]) ts.

Definition ins (tgt : N) (b : bool) (s : tree) (ts : list tree) : list tree :=
  flat_map (fun x => if N.eqb (tid x) tgt
                     then (if b then [s; x] else [x; s])
                     else [t_insert tgt b s x]) ts.

Lemma t_find_eq : forall c i ts,
  t_find c (T i ts) = if N.eqb i c then Some (T i ts) else f_find c ts.
Proof.
  intros. simpl. destruct (N.eqb i c); [reflexivity|].
  induction ts as [|x r IH]; [reflexivity|].
  simpl. destruct (t_find c x); [reflexivity | exact IH].
Qed.

Lemma t_replace_eq : forall c news i ts, t_replace c news (T i ts) = T i (rep c news ts).
Proof. reflexivity. Qed.

Lemma t_insert_eq : forall tgt b s i ts, t_insert tgt b s (T i ts) = T i (ins tgt b s ts).
Proof. reflexivity. Qed.

Lemma ids_eq : forall i ts, ids (T i ts) = i :: idsl ts.
Proof. reflexivity. Qed.

Lemma idsl_cons : forall x r, idsl (x :: r) = ids x ++ idsl r.
Proof. reflexivity. Qed.

Lemma idsl_app : forall a b, idsl (a ++ b) = idsl a ++ idsl b.
Proof. intros. unfold idsl. apply flat_map_app. Qed.

Lemma tid_in_ids : forall t, In (tid t) (ids t).
Proof. intros [i ts]. simpl. auto. Qed.

Lemma tid_replace : forall c news t, tid (t_replace c news t) = tid t.
Proof. intros c news [i ts]. reflexivity. Qed.

Lemma tid_insert : forall tgt b s t, tid (t_insert tgt b s t) = tid t.
Proof. intros tgt b s [i ts]. reflexivity. Qed.

Lemma ids_hd : forall t, ids t = tid t :: idsl (tkids t).
Proof. intros [i ts]. reflexivity. Qed.

(* ---------------------------------------------------------------- t_find *)
Lemma t_find_root : forall t, t_find (tid t) t = Some t.
Proof. intros [i ts]. rewrite t_find_eq. simpl. rewrite N.eqb_refl. reflexivity. Qed.

Lemma t_find_some : forall c t s, t_find c t = Some s -> tid s = c /\ incl (ids s) (ids t).
Proof.
  intros c t. induction t as [i ts IH] using tree_ind'. intros s H.
  rewrite t_find_eq in H. destruct (N.eqb i c) eqn:E.
  - apply N.eqb_eq in E. inversion H; subst. split; [reflexivity | apply incl_refl].
  - assert (tid s = c /\ incl (ids s) (idsl ts)) as [H1 H2].
    { clear E. induction ts as [|x r IHr]; simpl in H; [discriminate|].
      inversion IH as [|? ? Hx Hr]; subst.
      destruct (t_find c x) eqn:F.
      - inversion H; subst. destruct (Hx _ eq_refl) as [A B]. split; auto.
        rewrite idsl_cons. apply incl_appl. exact B.
      - destruct (IHr Hr H) as [A B]. split; auto.
        rewrite idsl_cons. apply incl_appr. exact B. }
    split; auto. rewrite ids_eq. apply incl_tl. exact H2.
Qed.

Lemma t_find_in : forall c t s, t_find c t = Some s -> In c (ids t).
Proof.
  intros c t s H. destruct (t_find_some _ _ _ H) as [A B]. apply B. subst c. apply tid_in_ids.
Qed.

Lemma t_find_none : forall c t, ~ In c (ids t) -> t_find c t = None.
Proof.
  intros c t. induction t as [i ts IH] using tree_ind'. intros H.
  rewrite t_find_eq. rewrite ids_eq in H. destruct (N.eqb i c) eqn:E.
  - apply N.eqb_eq in E. subst. exfalso. apply H. left. reflexivity.
  - assert (Hn : ~ In c (idsl ts)) by (intro; apply H; right; assumption).
    clear H E. induction ts as [|x r IHr]; simpl; [reflexivity|].
    inversion IH as [|? ? Hx Hr]; subst. rewrite idsl_cons in Hn.
    rewrite Hx by (intro; apply Hn; apply in_or_app; left; assumption).
    apply IHr; auto. intro; apply Hn; apply in_or_app; right; assumption.
Qed.

Lemma t_find_none_inv : forall c t, t_find c t = None -> ~ In c (ids t).
Proof.
  intros c t. induction t as [i ts IH] using tree_ind'. intros H.
  rewrite t_find_eq in H. rewrite ids_eq. destruct (N.eqb i c) eqn:E; [discriminate|].
  apply N.eqb_neq in E. intros [K|K]; [congruence|].
  induction ts as [|x r IHr]; simpl in *; [contradiction|].
  inversion IH as [|? ? Hx Hr]; subst.
  destruct (t_find c x) eqn:F; [discriminate|].
  apply in_app_or in K. destruct K as [K|K].
  - apply (Hx eq_refl K).
  - apply IHr; auto.
Qed.

Lemma f_find_none : forall c ts, ~ In c (idsl ts) -> f_find c ts = None.
Proof.
  induction ts as [|x r IH]; intros H; [reflexivity|].
  rewrite idsl_cons in H. simpl.
  rewrite t_find_none by (intro; apply H; apply in_or_app; left; assumption).
  apply IH. intro; apply H; apply in_or_app; right; assumption.
Qed.

(* ---------------------------------------------------------------- ops on trees without the id *)
Lemma t_replace_notin : forall c news t, ~ In c (ids t) -> t_replace c news t = t.
Proof.
  intros c news t. induction t as [i ts IH] using tree_ind'. intros H.
  rewrite t_replace_eq. f_equal. rewrite ids_eq in H.
  assert (Hn : ~ In c (idsl ts)) by (intro; apply H; right; assumption). clear H.
  induction ts as [|x r IHr]; [reflexivity|].
  inversion IH as [|? ? Hx Hr]; subst. rewrite idsl_cons in Hn.
  unfold rep in *. simpl.
  assert (Hx' : ~ In c (ids x)) by (intro; apply Hn; apply in_or_app; left; assumption).
  destruct (N.eqb (tid x) c) eqn:E.
  - apply N.eqb_eq in E. exfalso. apply Hx'. subst c. apply tid_in_ids.
  - rewrite Hx by assumption. simpl. f_equal. apply IHr; auto.
    intro; apply Hn; apply in_or_app; right; assumption.
Qed.

Lemma rep_notin : forall c news ts, ~ In c (idsl ts) -> rep c news ts = ts.
Proof.
  intros c news ts H.
  assert (K : t_replace c news (T c ts) = T c ts -> rep c news ts = ts)
    by (rewrite t_replace_eq; intros E; inversion E as [E']; rewrite E'; exact E').
  clear K. induction ts as [|x r IH]; [reflexivity|].
  rewrite idsl_cons in H. unfold rep in *. simpl.
  assert (Hx' : ~ In c (ids x)) by (intro; apply H; apply in_or_app; left; assumption).
  destruct (N.eqb (tid x) c) eqn:E.
  - apply N.eqb_eq in E. exfalso. apply Hx'. subst c. apply tid_in_ids.
  - rewrite t_replace_notin by assumption. simpl. f_equal. apply IH.
    intro; apply H; apply in_or_app; right; assumption.
Qed.

Lemma t_insert_notin : forall tgt b s t, ~ In tgt (ids t) -> t_insert tgt b s t = t.
Proof.
  intros c b s t. induction t as [i ts IH] using tree_ind'. intros H.
  rewrite t_insert_eq. f_equal. rewrite ids_eq in H.
  assert (Hn : ~ In c (idsl ts)) by (intro; apply H; right; assumption). clear H.
  induction ts as [|x r IHr]; [reflexivity|].
  inversion IH as [|? ? Hx Hr]; subst. rewrite idsl_cons in Hn.
  unfold ins in *. simpl.
  assert (Hx' : ~ In c (ids x)) by (intro; apply Hn; apply in_or_app; left; assumption).
  destruct (N.eqb (tid x) c) eqn:E.
  - apply N.eqb_eq in E. exfalso. apply Hx'. subst c. apply tid_in_ids.
  - rewrite Hx by assumption. simpl. f_equal. apply IHr; auto.
    intro; apply Hn; apply in_or_app; right; assumption.
Qed.

Lemma ins_notin : forall tgt b s ts, ~ In tgt (idsl ts) -> ins tgt b s ts = ts.
Proof.
  intros c b s ts H. induction ts as [|x r IH]; [reflexivity|].
  rewrite idsl_cons in H. unfold ins in *. simpl.
  assert (Hx' : ~ In c (ids x)) by (intro; apply H; apply in_or_app; left; assumption).
  destruct (N.eqb (tid x) c) eqn:E.
  - apply N.eqb_eq in E. exfalso. apply Hx'. subst c. apply tid_in_ids.
  - rewrite t_insert_notin by assumption. simpl. f_equal. apply IH.
    intro; apply H; apply in_or_app; right; assumption.
Qed.

Lemma rep_cons : forall c news x r,
  rep c news (x :: r) = (if N.eqb (tid x) c then news else [t_replace c news x]) ++ rep c news r.
Proof. reflexivity. Qed.

Lemma ins_cons : forall tgt b s x r,
  ins tgt b s (x :: r) = (if N.eqb (tid x) tgt then (if b then [s; x] else [x; s])
                          else [t_insert tgt b s x]) ++ ins tgt b s r.
Proof. reflexivity. Qed.

Lemma rep_app : forall c news a b, rep c news (a ++ b) = rep c news a ++ rep c news b.
Proof. intros. unfold rep. apply flat_map_app. Qed.

Lemma ins_app : forall tgt b s a c, ins tgt b s (a ++ c) = ins tgt b s a ++ ins tgt b s c.
Proof. intros. unfold ins. apply flat_map_app. Qed.

(* ---------------------------------------------------------------- NoDup helpers *)
Lemma NoDup_app_l {A} : forall (a b : list A), NoDup (a ++ b) -> NoDup a.
Proof.
  induction a as [|x a IH]; intros b H; [constructor|].
  simpl in H. inversion H; subst. constructor.
  - intro K. apply H2. apply in_or_app. left. exact K.
  - eapply IH. eassumption.
Qed.

Lemma NoDup_app_r {A} : forall (a b : list A), NoDup (a ++ b) -> NoDup b.
Proof.
  induction a as [|x a IH]; intros b H; [exact H|].
  simpl in H. inversion H; subst. apply IH. assumption.
Qed.

Lemma NoDup_app_disj {A} : forall (a b : list A) x, NoDup (a ++ b) -> In x a -> ~ In x b.
Proof.
  induction a as [|y a IH]; intros b x H Hx; [contradiction|].
  simpl in H. inversion H; subst. destruct Hx as [->|Hx].
  - intro K. apply H2. apply in_or_app. right. exact K.
  - eapply IH; eassumption.
Qed.

Lemma NoDup_app_del {A} : forall (a m b : list A), NoDup (a ++ m ++ b) -> NoDup (a ++ b).
Proof.
  intros a m. revert a. induction m as [|x m IH]; intros a b H; [exact H|].
  simpl in H. apply NoDup_remove_1 in H. apply IH. exact H.
Qed.

Lemma nodup_split_unique {A} : forall (a a' r r' : list A) n,
  NoDup (a ++ n :: r) -> a ++ n :: r = a' ++ n :: r' -> a = a' /\ r = r'.
Proof.
  induction a as [|x a IH]; intros a' r r' n Hnd E.
  - destruct a' as [|y a']; simpl in *.
    + inversion E; auto.
    + inversion E; subst. inversion Hnd; subst. exfalso. apply H1.
      apply in_or_app. right. left. reflexivity.
  - destruct a' as [|y a']; simpl in *.
    + inversion E; subst. inversion Hnd; subst. exfalso. apply H1.
      apply in_or_app. right. left. reflexivity.
    + inversion E; subst. inversion Hnd; subst.
      destruct (IH _ _ _ _ H3 H1) as [-> ->]. auto.
Qed.

(* ================================================================ 1a. words_t and ids *)
Lemma words_t_ids : forall h t, words_t h t = flat_map (textof h) (ids t).
Proof.
  intros h t. induction t as [i ts IH] using tree_ind'.
  simpl. f_equal.
  induction ts as [|x r IHr]; [reflexivity|].
  inversion IH as [|? ? Hx Hr]; subst. simpl.
  rewrite flat_map_app. rewrite Hx. f_equal. apply IHr. exact Hr.
Qed.

Lemma words_t_ext : forall h h' t,
  (forall i, textof h' i = textof h i) -> words_t h' t = words_t h t.
Proof.
  intros h h' t H. rewrite !words_t_ids.
  induction (ids t) as [|x l IH]; [reflexivity|]. simpl. rewrite H, IH. reflexivity.
Qed.

Lemma words_t_ids_eq : forall h t t', ids t' = ids t -> words_t h t' = words_t h t.
Proof. intros h t t' H. rewrite !words_t_ids, H. reflexivity. Qed.

(* ================================================================ 1b. text / class are frame *)
Definition same_tc (h h' : heap) : Prop :=
  forall i, textof h' i = textof h i /\ clsof h' i = clsof h i.

Lemma same_tc_refl : forall h, same_tc h h.
Proof. intros h i. auto. Qed.

Lemma same_tc_trans : forall a b c, same_tc a b -> same_tc b c -> same_tc a c.
Proof.
  intros a b c H1 H2 i. destruct (H1 i) as [A B], (H2 i) as [C D].
  split; congruence.
Qed.

Lemma same_tc_set_parent : forall h i p, same_tc h (set_parent h i p).
Proof.
  intros h i p j. unfold set_parent, textof, clsof.
  destruct (get h i) eqn:E; [|auto]. unfold set. simpl.
  destruct (N.eqb j i) eqn:Eq; [|auto]. apply N.eqb_eq in Eq. subst.
  rewrite E. auto.
Qed.

Lemma same_tc_set_kids : forall h i l, same_tc h (set_kids h i l).
Proof.
  intros h i p j. unfold set_kids, textof, clsof.
  destruct (get h i) eqn:E; [|auto]. unfold set. simpl.
  destruct (N.eqb j i) eqn:Eq; [|auto]. apply N.eqb_eq in Eq. subst.
  rewrite E. auto.
Qed.

Lemma same_tc_fold_parent : forall p news h,
  same_tc h (fold_left (fun hh n => set_parent hh n (Some p)) news h).
Proof.
  intros p news. induction news as [|x l IH]; intros h; simpl.
  - apply same_tc_refl.
  - eapply same_tc_trans; [apply same_tc_set_parent | apply IH].
Qed.

Lemma same_tc_append_child : forall h p c, same_tc h (append_child h p c).
Proof.
  intros. unfold append_child.
  eapply same_tc_trans; [apply same_tc_set_kids | apply same_tc_set_parent].
Qed.

Lemma same_tc_replace_child : forall h p c news h',
  replace_child h p c news = Ok h' -> same_tc h h'.
Proof.
  intros h p c news h' H. unfold replace_child in H.
  destruct (index_of c (kids h p)); [|discriminate]. inversion H; subst.
  eapply same_tc_trans; [apply same_tc_set_kids|].
  eapply same_tc_trans; [apply same_tc_set_parent|]. apply same_tc_fold_parent.
Qed.

Lemma same_tc_remove_child : forall h p c h', remove_child h p c = Ok h' -> same_tc h h'.
Proof. intros h p c h'. apply same_tc_replace_child. Qed.

Lemma same_tc_move_to : forall h n tgt b h', move_to h n tgt b = Ok h' -> same_tc h h'.
Proof.
  intros h n tgt b h' H. unfold move_to in H.
  destruct (match par h n with Some p => remove_child h p n | None => Ok h end) as [h1|] eqn:E1;
    [|discriminate].
  assert (S1 : same_tc h h1).
  { destruct (par h n); [eapply same_tc_remove_child; eassumption|].
    inversion E1; subst. apply same_tc_refl. }
  destruct (par h1 tgt); [|discriminate].
  destruct (index_of tgt (kids h1 n0)); [|discriminate]. inversion H; subst.
  eapply same_tc_trans; [exact S1|].
  eapply same_tc_trans; [apply same_tc_set_kids | apply same_tc_set_parent].
Qed.

(* the statements in the form asked for *)
Lemma textof_append_child : forall h p c i, textof (append_child h p c) i = textof h i.
Proof. intros. apply same_tc_append_child. Qed.
Lemma clsof_append_child : forall h p c i, clsof (append_child h p c) i = clsof h i.
Proof. intros. apply same_tc_append_child. Qed.
Lemma replace_child_frame : forall h p c news h' i,
  replace_child h p c news = Ok h' -> textof h' i = textof h i /\ clsof h' i = clsof h i.
Proof. intros. eapply same_tc_replace_child; eassumption. Qed.
Lemma remove_child_frame : forall h p c h' i,
  remove_child h p c = Ok h' -> textof h' i = textof h i /\ clsof h' i = clsof h i.
Proof. intros. eapply same_tc_remove_child; eassumption. Qed.
Lemma move_to_frame : forall h n tgt b h' i,
  move_to h n tgt b = Ok h' -> textof h' i = textof h i /\ clsof h' i = clsof h i.
Proof. intros. eapply same_tc_move_to; eassumption. Qed.

Lemma words_t_same_tc : forall h h' t, same_tc h h' -> words_t h' t = words_t h t.
Proof. intros h h' t H. apply words_t_ext. intro i. apply H. Qed.

(* ================================================================ 1c. the dissolve idiom
   node.parent.replace_child(node, node.children)  ==  t_replace c (children of c) *)
Lemma idsl_dissolve : forall c cs ts,
  Forall (fun t => NoDup (ids t) -> c <> tid t -> t_find c t = Some (T c cs) ->
                   ids (t_replace c cs t) = remove N.eq_dec c (ids t)) ts ->
  NoDup (idsl ts) -> f_find c ts = Some (T c cs) ->
  idsl (rep c cs ts) = remove N.eq_dec c (idsl ts).
Proof.
  induction ts as [|x r IHr]; intros IH Hnd Hf; [discriminate|].
  inversion IH as [|? ? Hx Hr]; subst. rewrite idsl_cons in *.
  rewrite rep_cons, idsl_app, remove_app.
  simpl in Hf. destruct (t_find c x) as [s'|] eqn:F.
  - inversion Hf; subst s'.
    assert (Hc : In c (ids x)) by (eapply t_find_in; eauto).
    assert (Hnr : ~ In c (idsl r)) by (eapply NoDup_app_disj; eauto).
    rewrite (rep_notin _ _ _ Hnr). rewrite (notin_remove _ _ _ Hnr). f_equal.
    destruct (N.eqb (tid x) c) eqn:E.
    + destruct x as [xi xs]. simpl in E. apply N.eqb_eq in E. subst xi.
      rewrite t_find_eq, N.eqb_refl in F. inversion F; subst xs.
      rewrite ids_eq, remove_cons. symmetry. apply notin_remove.
      apply NoDup_app_l in Hnd. rewrite ids_eq in Hnd. inversion Hnd; assumption.
    + apply N.eqb_neq in E.
      change (idsl [t_replace c cs x]) with (ids (t_replace c cs x) ++ []).
      rewrite app_nil_r. apply Hx; auto. eapply NoDup_app_l; eassumption.
  - assert (Hc : ~ In c (ids x)) by (apply t_find_none_inv; assumption).
    assert (E : N.eqb (tid x) c = false).
    { apply N.eqb_neq. intro K. apply Hc. subst c. apply tid_in_ids. }
    rewrite E, (t_replace_notin _ _ _ Hc), (notin_remove _ _ _ Hc).
    change (idsl [x]) with (ids x ++ []). rewrite app_nil_r. f_equal.
    apply IHr; auto. eapply NoDup_app_r; eassumption.
Qed.

Lemma ids_dissolve : forall t c cs,
  NoDup (ids t) -> c <> tid t -> t_find c t = Some (T c cs) ->
  ids (t_replace c cs t) = remove N.eq_dec c (ids t).
Proof.
  intros t c cs. induction t as [i ts IH] using tree_ind'. intros Hnd Hc Hf.
  simpl in Hc. rewrite t_find_eq in Hf.
  destruct (N.eqb i c) eqn:E; [apply N.eqb_eq in E; congruence|].
  rewrite t_replace_eq, !ids_eq. simpl.
  destruct (N.eq_dec c i) as [K|_]; [congruence|]. f_equal.
  rewrite ids_eq in Hnd. inversion Hnd; subst.
  apply idsl_dissolve; auto.
Qed.

Lemma flat_map_remove_nil {B} : forall (f : N -> list B) c l,
  f c = [] -> flat_map f (remove N.eq_dec c l) = flat_map f l.
Proof.
  intros f c l H. induction l as [|x l IH]; [reflexivity|]. simpl.
  destruct (N.eq_dec c x) as [->|K].
  - rewrite H, IH. reflexivity.
  - simpl. rewrite IH. reflexivity.
Qed.

Lemma words_dissolve : forall h t c cs,
  NoDup (ids t) -> c <> tid t -> t_find c t = Some (T c cs) -> textof h c = [] ->
  words_t h (t_replace c cs t) = words_t h t.
Proof.
  intros h t c cs Hnd Hc Hf Ht. rewrite !words_t_ids, (ids_dissolve _ _ _ Hnd Hc Hf).
  apply flat_map_remove_nil. exact Ht.
Qed.

(* ================================================================ 1d. the adjacent move *)
(* removing the subtree s rooted at n deletes the contiguous block ids s *)
Lemma idsl_remove_block : forall n s ts,
  Forall (fun t => NoDup (ids t) -> n <> tid t -> t_find n t = Some s ->
            exists A B, ids t = A ++ ids s ++ B /\ ids (t_replace n [] t) = A ++ B) ts ->
  NoDup (idsl ts) -> f_find n ts = Some s ->
  exists A B, idsl ts = A ++ ids s ++ B /\ idsl (rep n [] ts) = A ++ B.
Proof.
  induction ts as [|x r IHr]; intros IH Hnd Hf; [discriminate|].
  inversion IH as [|? ? Hx Hr]; subst. rewrite idsl_cons in *.
  rewrite rep_cons, idsl_app.
  simpl in Hf. destruct (t_find n x) as [s'|] eqn:F.
  - inversion Hf; subst s'.
    assert (Hc : In n (ids x)) by (eapply t_find_in; eauto).
    assert (Hnr : ~ In n (idsl r)) by (eapply NoDup_app_disj; eauto).
    rewrite (rep_notin _ _ _ Hnr).
    destruct (N.eqb (tid x) n) eqn:E.
    + destruct x as [xi xs]. simpl in E. apply N.eqb_eq in E. subst xi.
      rewrite t_find_eq, N.eqb_refl in F. inversion F; subst s.
      exists [], (idsl r). split; reflexivity.
    + apply N.eqb_neq in E.
      destruct (Hx (NoDup_app_l _ _ Hnd) (not_eq_sym E) eq_refl) as (A & B & E1 & E2).
      exists A, (B ++ idsl r). rewrite E1. split.
      * rewrite <- !app_assoc. reflexivity.
      * change (idsl [t_replace n [] x]) with (ids (t_replace n [] x) ++ []).
        rewrite app_nil_r, E2, <- app_assoc. reflexivity.
  - assert (Hc : ~ In n (ids x)) by (apply t_find_none_inv; assumption).
    assert (E : N.eqb (tid x) n = false).
    { apply N.eqb_neq. intro K. apply Hc. subst n. apply tid_in_ids. }
    rewrite E, (t_replace_notin _ _ _ Hc).
    destruct (IHr Hr (NoDup_app_r _ _ Hnd) Hf) as (A & B & E1 & E2).
    exists (ids x ++ A), B. rewrite E1. split.
    + rewrite <- !app_assoc. reflexivity.
    + change (idsl [x]) with (ids x ++ []). rewrite app_nil_r, E2, <- app_assoc. reflexivity.
Qed.

Lemma ids_remove_block : forall t n s,
  NoDup (ids t) -> n <> tid t -> t_find n t = Some s ->
  exists A B, ids t = A ++ ids s ++ B /\ ids (t_replace n [] t) = A ++ B.
Proof.
  intros t n s. induction t as [i ts IH] using tree_ind'. intros Hnd Hc Hf.
  simpl in Hc. rewrite t_find_eq in Hf.
  destruct (N.eqb i n) eqn:E; [apply N.eqb_eq in E; congruence|].
  rewrite ids_eq in Hnd. inversion Hnd; subst.
  destruct (idsl_remove_block n s ts IH H2 Hf) as (A & B & E1 & E2).
  exists (i :: A), B. rewrite t_replace_eq, !ids_eq, E1, E2. split; reflexivity.
Qed.

(* inserting s right behind tgt puts the block ids s right behind the block of tgt's subtree *)
Lemma idsl_insert_block : forall tgt s l ts,
  Forall (fun u => NoDup (ids u) -> tgt <> tid u -> t_find tgt u = Some l ->
            exists A B, ids u = A ++ ids l ++ B /\
                        ids (t_insert tgt false s u) = A ++ ids l ++ ids s ++ B) ts ->
  NoDup (idsl ts) -> f_find tgt ts = Some l ->
  exists A B, idsl ts = A ++ ids l ++ B /\
              idsl (ins tgt false s ts) = A ++ ids l ++ ids s ++ B.
Proof.
  induction ts as [|x r IHr]; intros IH Hnd Hf; [discriminate|].
  inversion IH as [|? ? Hx Hr]; subst. rewrite idsl_cons in *.
  rewrite ins_cons, idsl_app.
  simpl in Hf. destruct (t_find tgt x) as [s'|] eqn:F.
  - inversion Hf; subst s'.
    assert (Hc : In tgt (ids x)) by (eapply t_find_in; eauto).
    assert (Hnr : ~ In tgt (idsl r)) by (eapply NoDup_app_disj; eauto).
    rewrite (ins_notin _ _ _ _ Hnr).
    destruct (N.eqb (tid x) tgt) eqn:E.
    + destruct x as [xi xs]. simpl in E. apply N.eqb_eq in E. subst xi.
      rewrite t_find_eq, N.eqb_refl in F. inversion F; subst l.
      exists [], (idsl r). split; [reflexivity|].
      change (idsl [T tgt xs; s]) with (ids (T tgt xs) ++ ids s ++ []).
      rewrite app_nil_r. simpl. rewrite <- !app_assoc. reflexivity.
    + apply N.eqb_neq in E.
      destruct (Hx (NoDup_app_l _ _ Hnd) (not_eq_sym E) eq_refl) as (A & B & E1 & E2).
      exists A, (B ++ idsl r). rewrite E1. split.
      * rewrite <- !app_assoc. reflexivity.
      * change (idsl [t_insert tgt false s x]) with (ids (t_insert tgt false s x) ++ []).
        rewrite app_nil_r, E2, <- !app_assoc. reflexivity.
  - assert (Hc : ~ In tgt (ids x)) by (apply t_find_none_inv; assumption).
    assert (E : N.eqb (tid x) tgt = false).
    { apply N.eqb_neq. intro K. apply Hc. subst tgt. apply tid_in_ids. }
    rewrite E, (t_insert_notin _ _ _ _ Hc).
    destruct (IHr Hr (NoDup_app_r _ _ Hnd) Hf) as (A & B & E1 & E2).
    exists (ids x ++ A), B. rewrite E1. split.
    + rewrite <- !app_assoc. reflexivity.
    + change (idsl [x]) with (ids x ++ []). rewrite app_nil_r, E2, <- !app_assoc. reflexivity.
Qed.

Lemma ids_insert_block : forall u tgt s l,
  NoDup (ids u) -> tgt <> tid u -> t_find tgt u = Some l ->
  exists A B, ids u = A ++ ids l ++ B /\
              ids (t_insert tgt false s u) = A ++ ids l ++ ids s ++ B.
Proof.
  intros t n s l. induction t as [i ts IH] using tree_ind'. intros Hnd Hc Hf.
  simpl in Hc. rewrite t_find_eq in Hf.
  destruct (N.eqb i n) eqn:E; [apply N.eqb_eq in E; congruence|].
  rewrite ids_eq in Hnd. inversion Hnd; subst.
  destruct (idsl_insert_block n s l ts IH H2 Hf) as (A & B & E1 & E2).
  exists (i :: A), B. rewrite t_insert_eq, !ids_eq, E1, E2. split; reflexivity.
Qed.

(* t_replace n [] never adds ids *)
Lemma ids_replace_nil_incl : forall n t, incl (ids (t_replace n [] t)) (ids t).
Proof.
  intros n t. induction t as [i ts IH] using tree_ind'.
  rewrite t_replace_eq, !ids_eq. apply incl_cons; [left; reflexivity|]. apply incl_tl.
  induction ts as [|x r IHr]; [apply incl_refl|].
  inversion IH as [|? ? Hx Hr]; subst.
  rewrite rep_cons, idsl_app, idsl_cons. apply incl_app.
  - destruct (N.eqb (tid x) n); [intros a []|].
    change (idsl [t_replace n [] x]) with (ids (t_replace n [] x) ++ []).
    rewrite app_nil_r. apply incl_appl. exact Hx.
  - apply incl_appr. apply IHr. exact Hr.
Qed.

(* after removing the subtree at n, a subtree l disjoint from it is still found *)
Lemma f_find_replace_other : forall n tgt s l, ~ In tgt (ids s) -> ~ In n (ids l) ->
  forall ts,
  Forall (fun t => NoDup (ids t) -> t_find n t = Some s -> t_find tgt t = Some l ->
                   t_find tgt (t_replace n [] t) = Some l) ts ->
  NoDup (idsl ts) -> f_find n ts = Some s -> f_find tgt ts = Some l ->
  f_find tgt (rep n [] ts) = Some l.
Proof.
  intros n tgt s l Hts Hnl.
  induction ts as [|x r IHr]; intros IH Hnd Hfn Hft; [discriminate|].
  inversion IH as [|? ? Hx Hr]; subst. rewrite idsl_cons in Hnd.
  rewrite rep_cons. simpl in Hfn, Hft.
  destruct (t_find n x) as [s'|] eqn:Fn.
  - inversion Hfn; subst s'.
    assert (Hc : In n (ids x)) by (eapply t_find_in; eauto).
    assert (Hnr : ~ In n (idsl r)) by (eapply NoDup_app_disj; eauto).
    rewrite (rep_notin _ _ _ Hnr).
    destruct (N.eqb (tid x) n) eqn:E.
    + destruct x as [xi xs]. simpl in E. apply N.eqb_eq in E. subst xi.
      rewrite t_find_eq, N.eqb_refl in Fn. inversion Fn; subst s.
      destruct (t_find tgt (T n xs)) as [l'|] eqn:Ft.
      * exfalso. apply Hts. eapply t_find_in; eassumption.
      * simpl. exact Hft.
    + destruct (t_find tgt x) as [l'|] eqn:Ft.
      * inversion Hft; subst l'. simpl.
        rewrite (Hx (NoDup_app_l _ _ Hnd) eq_refl eq_refl). reflexivity.
      * simpl. rewrite t_find_none; [exact Hft|].
        intro K. apply ids_replace_nil_incl in K.
        apply (t_find_none_inv _ _ Ft K).
  - assert (Hc : ~ In n (ids x)) by (apply t_find_none_inv; assumption).
    assert (E : N.eqb (tid x) n = false).
    { apply N.eqb_neq. intro K. apply Hc. subst n. apply tid_in_ids. }
    rewrite E, (t_replace_notin _ _ _ Hc). simpl.
    destruct (t_find tgt x) as [l'|] eqn:Ft; [exact Hft|].
    apply IHr; auto. eapply NoDup_app_r; eassumption.
Qed.

Lemma t_find_replace_other : forall n tgt s l, ~ In tgt (ids s) -> ~ In n (ids l) ->
  forall t, NoDup (ids t) -> t_find n t = Some s -> t_find tgt t = Some l ->
  t_find tgt (t_replace n [] t) = Some l.
Proof.
  intros n tgt s l Hts Hnl t. induction t as [i ts IH] using tree_ind'.
  intros Hnd Hfn Hft.
  pose proof (t_find_in _ _ _ Hfn) as In1. pose proof (t_find_in _ _ _ Hft) as In2.
  rewrite t_find_eq in Hfn, Hft. rewrite t_replace_eq, t_find_eq.
  destruct (N.eqb i n) eqn:E1.
  { inversion Hfn; subst s. contradiction. }
  destruct (N.eqb i tgt) eqn:E2.
  { inversion Hft; subst l. contradiction. }
  rewrite ids_eq in Hnd. inversion Hnd; subst.
  apply f_find_replace_other with (s := s); auto.
Qed.

Lemma ids_move_adjacent : forall t n tgt s l,
  NoDup (ids t) -> n <> tid t -> tgt <> tid t ->
  t_find n t = Some s -> t_find tgt t = Some l ->
  (exists A B, ids t = A ++ ids l ++ ids s ++ B) ->
  ids (t_insert tgt false s (t_replace n [] t)) = ids t.
Proof.
  intros t n tgt s l Hnd Hn Htg Hfn Hft (A & B & Eq).
  destruct (t_find_some _ _ _ Hfn) as [Hs _]. destruct (t_find_some _ _ _ Hft) as [Hl _].
  assert (Hnd' : NoDup (A ++ ids l ++ ids s ++ B)) by (rewrite <- Eq; exact Hnd).
  assert (Hls : NoDup (ids l ++ ids s)).
  { apply NoDup_app_r in Hnd'. rewrite app_assoc in Hnd'. eapply NoDup_app_l; eassumption. }
  assert (D1 : ~ In tgt (ids s)).
  { eapply NoDup_app_disj; [exact Hls|]. rewrite <- Hl. apply tid_in_ids. }
  assert (D2 : ~ In n (ids l)).
  { intro K. eapply NoDup_app_disj; [exact Hls| exact K |]. rewrite <- Hs. apply tid_in_ids. }
  destruct (ids_remove_block _ _ _ Hnd Hn Hfn) as (A1 & B1 & E1 & E2).
  (* uniqueness of the position of the block ids s *)
  assert (Is : ids s = n :: idsl (tkids s)) by (rewrite ids_hd, Hs; reflexivity).
  assert (Il : ids l = tgt :: idsl (tkids l)) by (rewrite ids_hd, Hl; reflexivity).
  assert (U : A1 = A ++ ids l /\ B1 = B).
  { assert (X : A1 ++ n :: (idsl (tkids s) ++ B1) = (A ++ ids l) ++ n :: (idsl (tkids s) ++ B)).
    { transitivity (ids t).
      - rewrite E1, Is. reflexivity.
      - rewrite Eq, Is, <- app_assoc. reflexivity. }
    apply nodup_split_unique in X.
    - destruct X as [X1 X2]. split; [exact X1|]. eapply app_inv_head; eassumption.
    - rewrite E1, Is in Hnd. exact Hnd. }
  destruct U as [-> ->].
  set (u := t_replace n [] t) in *.
  assert (Hndu : NoDup (ids u)).
  { rewrite E2. apply NoDup_app_del with (m := ids s). rewrite <- app_assoc. exact Hnd'. }
  assert (Hfu : t_find tgt u = Some l) by (apply t_find_replace_other with (s := s); auto).
  assert (Htu : tgt <> tid u) by (unfold u; rewrite tid_replace; exact Htg).
  destruct (ids_insert_block u tgt s l Hndu Htu Hfu) as (A2 & B2 & E3 & E4).
  assert (U : A2 = A /\ B2 = B).
  { assert (X : A2 ++ tgt :: (idsl (tkids l) ++ B2) = A ++ tgt :: (idsl (tkids l) ++ B)).
    { transitivity (ids u).
      - rewrite E3, Il. reflexivity.
      - rewrite E2, Il, <- app_assoc. reflexivity. }
    apply nodup_split_unique in X.
    - destruct X as [X1 X2]. split; [exact X1|]. eapply app_inv_head; eassumption.
    - rewrite E3, Il in Hndu. exact Hndu. }
  destruct U as [-> ->]. rewrite E4, Eq. reflexivity.
Qed.

Lemma words_move_adjacent : forall h t n tgt s l,
  NoDup (ids t) -> n <> tid t -> tgt <> tid t ->
  t_find n t = Some s -> t_find tgt t = Some l ->
  (exists A B, ids t = A ++ ids l ++ ids s ++ B) ->
  words_t h (t_insert tgt false s (t_replace n [] t)) = words_t h t.
Proof.
  intros. apply words_t_ids_eq. eapply ids_move_adjacent; eassumption.
Qed.

(* ================================================================ 1e. copy-and-split (_fix_nesting)
   treecleaner.py:850-900: below the "bad parent" B the path down to the problem node N is cut
   out; three trees are made from (copies of) B:
     top    = B with everything right of the path, and N itself, filtered out,
     middle = the path only (N with its whole subtree); its single child is what is spliced in,
     bottom = B with everything left of the path, and N itself, filtered out. *)
Fixpoint split3 (x : N) (ts : list tree) : option (list tree * tree * list tree) :=
  match ts with
  | [] => None
  | y :: r => if N.eqb (tid y) x then Some ([], y, r)
              else match split3 x r with
                   | Some (l, X, rr) => Some (y :: l, X, rr)
                   | None => None
                   end
  end.

Fixpoint split_top (path : list N) (t : tree) {struct path} : tree :=
  let 'T i ts := t in
  match path with
  | [] => t
  | x :: rest =>
      match split3 x ts with
      | None => t
      | Some (lefts, X, rights) =>
          match rest with
          | [] => T i lefts
          | _ => T i (lefts ++ [split_top rest X])
          end
      end
  end.

Fixpoint split_mid (path : list N) (t : tree) {struct path} : tree :=
  let 'T i ts := t in
  match path with
  | [] => T i []
  | x :: rest =>
      match split3 x ts with
      | None => T i []
      | Some (lefts, X, rights) =>
          match rest with
          | [] => T i [X]
          | _ => T i [split_mid rest X]
          end
      end
  end.

Fixpoint split_bot (path : list N) (t : tree) {struct path} : tree :=
  let 'T i ts := t in
  match path with
  | [] => T i []
  | x :: rest =>
      match split3 x ts with
      | None => T i []
      | Some (lefts, X, rights) =>
          match rest with
          | [] => T i rights
          | _ => T i (split_bot rest X :: rights)
          end
      end
  end.

(* every path element is found *)
Fixpoint path_ok (path : list N) (t : tree) {struct path} : Prop :=
  match path with
  | [] => True
  | x :: rest => match split3 x (tkids t) with
                 | Some (_, X, _) => path_ok rest X
                 | None => False
                 end
  end.

(* the bad parent b and the path nodes strictly above the problem node carry no text of their own *)
Definition own_text_empty (h : heap) (path : list N) (b : N) : Prop :=
  textof h b = [] /\ forall x, In x (removelast path) -> textof h x = [].

Lemma split3_spec : forall x ts l X r, split3 x ts = Some (l, X, r) ->
  ts = l ++ X :: r /\ tid X = x.
Proof.
  intros x ts. induction ts as [|y ts IH]; intros l X r H; [discriminate|].
  simpl in H. destruct (N.eqb (tid y) x) eqn:E.
  - inversion H; subst. apply N.eqb_eq in E. auto.
  - destruct (split3 x ts) as [[[l' X'] r']|]; [|discriminate].
    inversion H; subst. destruct (IH _ _ _ eq_refl) as [-> A]. auto.
Qed.

Lemma words_t_hd : forall h t, words_t h t = textof h (tid t) ++ flat_map (words_t h) (tkids t).
Proof. intros h [i ts]. reflexivity. Qed.

Lemma tid_split_mid : forall path t, tid (split_mid path t) = tid t.
Proof.
  intros path [i ts]. destruct path as [|x rest]; [reflexivity|]. simpl.
  destruct (split3 x ts) as [[[l X] r]|]; [|reflexivity]. destruct rest; reflexivity.
Qed.

Lemma words_split : forall h path t,
  path_ok path t -> path <> [] -> own_text_empty h path (tid t) ->
  words_t h (split_top path t) ++ flat_map (words_t h) (tkids (split_mid path t))
    ++ words_t h (split_bot path t) = words_t h t.
Proof.
  intros h path. induction path as [|x rest IH]; intros [i ts] Hok Hne [Hb Hp]; [congruence|].
  simpl in Hok, Hb. simpl split_top. simpl split_mid. simpl split_bot.
  destruct (split3 x ts) as [[[l X] r]|] eqn:E; [|contradiction].
  destruct (split3_spec _ _ _ _ _ E) as [-> HX].
  destruct rest as [|y rest'].
  - simpl. rewrite Hb, flat_map_app. simpl. rewrite app_nil_r. reflexivity.
  - assert (Hx : textof h x = []) by (apply Hp; left; reflexivity).
    assert (IHX : words_t h (split_top (y :: rest') X)
                  ++ flat_map (words_t h) (tkids (split_mid (y :: rest') X))
                  ++ words_t h (split_bot (y :: rest') X) = words_t h X).
    { apply IH; [exact Hok | discriminate |]. split; [rewrite HX; exact Hx|].
      intros z Hz. apply Hp. right. exact Hz. }
    set (TOP := split_top (y :: rest') X) in *.
    set (MID := split_mid (y :: rest') X) in *.
    set (BOT := split_bot (y :: rest') X) in *.
    assert (HM : words_t h MID = flat_map (words_t h) (tkids MID)).
    { rewrite words_t_hd. unfold MID. rewrite tid_split_mid, HX, Hx. reflexivity. }
    change (words_t h (T i (l ++ [TOP]))) with (textof h i ++ flat_map (words_t h) (l ++ [TOP])).
    change (words_t h (T i (BOT :: r)))
      with (textof h i ++ words_t h BOT ++ flat_map (words_t h) r).
    change (words_t h (T i (l ++ X :: r)))
      with (textof h i ++ flat_map (words_t h) (l ++ X :: r)).
    change (tkids (T i [MID])) with [MID].
    rewrite Hb, !flat_map_app. simpl. rewrite !app_nil_r, HM, <- IHX, <- !app_assoc.
    reflexivity.
Qed.

(* ================================================================ heap-level corollary of 1c
   node.parent.replace_child(node, node.children) on a proper tree, for a node without text of
   its own: succeeds, keeps the tree proper, keeps the visible words. *)
Theorem dissolve_keeps_words : forall h t p c cs,
  repr h None t -> NoDup (ids t) -> In p (ids t) -> In c (kids h p) ->
  t_find c t = Some (T c cs) -> textof h c = [] ->
  exists h', replace_child h p c (kids h c) = Ok h' /\ WF h' (tid t) /\
             words h' (tid t) = words h (tid t).
Proof.
  intros h t p c cs Hr Hnd Hp Hc Hf Ht.
  destruct (ProofsApi.child_setup h t p c Hr Hnd Hp Hc)
    as (s & idx & _ & _ & _ & _ & _ & _ & _ & _ & _ & Hne & _ & _).
  destruct (ProofsApi.dissolve_repr h t p c cs Hr Hnd Hp Hc Hf) as (h' & R1 & R2 & R3).
  exists h'. split; [exact R1|]. split.
  - exists (t_replace c cs t). rewrite tid_replace. auto.
  - unfold words. rewrite <- (tid_replace c cs t) at 1.
    rewrite (ProofsApi.build_complete _ _ _ R2 R3), (ProofsApi.build_complete _ _ _ Hr Hnd).
    rewrite (words_t_same_tc h h') by (eapply same_tc_replace_child; eassumption).
    apply words_dissolve; auto.
Qed.
