(* C07 — property theorems only.  The cleaner's restructuring idioms keep the visible words, on the heap
   model of C05 (words h r = in-order words of the tree below r); whole passes built only from these idioms
   (generic edit passes, fix_paragraphs, the remove_breaking_returns loop, fix_nesting) and any sequence of
   them keep well-formedness and the words.  NOT proved: that the composition of ALL ~58 real passes is
   lossless (passes iterating over a live child list, passes creating nodes, the table passes are not
   modelled) - decided by the verified monitor (extracted cwords before/after clean_all). *)
From Coq Require Import List NArith Bool.
From MW Require Import C05.Heap C05.TreeOps C06.Model C06.ModelNesting.
From MW Require C05.ProofsApi C07.Proofs C07.ProofsExtra C06.Proofs.
From MW Require C06.ProofsNesting C06.ProofsNestingExtra.
From MW Require C06.ModelNav C07.ModelPasses C07.ProofsPasses C07.ProofsPassesExtra.
Import ListNotations.

(* the visible words of a tree are the concatenation of its nodes' own words in preorder: an operation
   that keeps the preorder sequence of ids keeps the words *)
Theorem C07_words_are_preorder : forall h t, words_t h t = flat_map (textof h) (ids t).
Proof. exact C07.Proofs.words_t_ids. Qed.
Print Assumptions C07_words_are_preorder.

(* idiom 1: node.parent.replace_child(node, node.children) on a node without words of its own
   (treecleaner.py:451, 587, 1121, 1165, 1182, 1731, 1753 ...): succeeds, tree stays proper, words unchanged *)
Theorem C07_dissolve_preserves_words : forall h t p c cs,
  repr h None t -> NoDup (ids t) -> In p (ids t) -> In c (kids h p) ->
  t_find c t = Some (T c cs) -> textof h c = [] ->
  exists h', replace_child h p c (kids h c) = Ok h' /\ WF h' (tid t) /\ words h' (tid t) = words h (tid t).
Proof. exact C07.Proofs.dissolve_keeps_words. Qed.
Print Assumptions C07_dissolve_preserves_words.

(* idiom 2: adjacent move_to (the moved subtree directly follows the target's subtree in reading order,
   as when _fix_paragraphs moves a paragraph behind the last child of the preceding section) *)
Theorem C07_adjacent_move_preserves_words : forall h t n tgt s l,
  NoDup (ids t) -> n <> tid t -> tgt <> tid t ->
  t_find n t = Some s -> t_find tgt t = Some l ->
  (exists A B, ids t = A ++ ids l ++ ids s ++ B) ->
  words_t h (t_insert tgt false s (t_replace n [] t)) = words_t h t.
Proof. exact C07.Proofs.words_move_adjacent. Qed.
Print Assumptions C07_adjacent_move_preserves_words.

(* ... hence the whole fix_paragraphs loop (heap level, any number of iterations) *)
Theorem C07_fix_paragraphs_preserves_words : forall k h r h', WF h r ->
  fix_paragraphs k h r = Done h' -> words h' r = words h r.
Proof. exact C06.Proofs.fix_paragraphs_keeps_words. Qed.
Print Assumptions C07_fix_paragraphs_preserves_words.

(* idiom 3: copy-and-split of _fix_nesting: copy() yields a detached proper tree with the same words ... *)
Theorem C07_copy_preserves_words : forall h r t n,
  tid t = r -> repr h None t -> NoDup (ids t) -> In n (ids t) ->
  exists h' k, copy h n = Some (h', k) /\ WF h' r /\ WFsub h' None k /\ words h' k = words h n.
Proof. exact C05.ProofsApi.copy_preserves_WF. Qed.
Print Assumptions C07_copy_preserves_words.

(* ... and the three filtered copies (top, the spliced child of middle, bottom) carry the words of the bad
   parent exactly once, in order, when the nodes on the path have no words of their own *)
Theorem C07_split_preserves_words : forall h path t,
  C07.Proofs.path_ok path t -> path <> [] -> C07.Proofs.own_text_empty h path (tid t) ->
  words_t h (C07.Proofs.split_top path t) ++ flat_map (words_t h) (tkids (C07.Proofs.split_mid path t))
    ++ words_t h (C07.Proofs.split_bot path t) = words_t h t.
Proof. exact C07.Proofs.words_split. Qed.
Print Assumptions C07_split_preserves_words.

(* the API never changes a node's words or class *)
Theorem C07_api_keeps_text : forall h n tgt b h' i,
  move_to h n tgt b = Ok h' -> textof h' i = textof h i /\ clsof h' i = clsof h i.
Proof. exact C07.Proofs.move_to_frame. Qed.
Print Assumptions C07_api_keeps_text.

Example C07_dissolve_example :
  WF ProofsExtra.hd 1 /\
  exists h', replace_child ProofsExtra.hd 2 3 (kids ProofsExtra.hd 3) = Ok h' /\ kids h' 2 = [4; 5; 6]%N /\
             wfb h' 1 = true /\ words h' 1 = [5; 6; 7]%N /\ words ProofsExtra.hd 1 = [5; 6; 7]%N.
Proof. exact ProofsExtra.dissolve_example. Qed.
Print Assumptions C07_dissolve_example.

(* dropping instead of dissolving loses the words (what the monitor reports) *)
Example C07_drop_loses_words :
  exists h', remove_child ProofsExtra.hd 2 3 = Ok h' /\ wfb h' 1 = true /\ words h' 1 = [7]%N.
Proof. exact ProofsExtra.drop_example. Qed.
Print Assumptions C07_drop_loses_words.

(* ---- idiom 3, the whole of it: fix_nesting (treecleaner.py:850-904; model C06/ModelNesting.v, labelled trees,
   identity-based marks = the behaviour since fix commit 09d8eb0, any forbidden/invisible tables).
   Every iteration, and hence the loop, keeps the in-order words when words sit on childless nodes only
   (leafwords: true of the harness' tokenisation) and the node identities are distinct *)
Theorem C07_fix_nesting_step_preserves_words : forall forb invis t t', NoDup (lids t) -> leafwords t = true ->
  nest_step forb invis eq_id t = NMoved t' -> lwords t' = lwords t.
Proof. exact ProofsNesting.nest_step_keeps_words. Qed.
Print Assumptions C07_fix_nesting_step_preserves_words.

Theorem C07_fix_nesting_preserves_words : forall forb invis fuel t t', NoDup (lids t) -> leafwords t = true ->
  fix_nesting forb invis eq_id fuel t = NDone t' -> lwords t' = lwords t.
Proof. exact ProofsNesting.fix_nesting_keeps_words. Qed.
Print Assumptions C07_fix_nesting_preserves_words.

(* the labelled tree read off a heap has exactly the heap's words (connection with words_t of C05/Heap.v) *)
Theorem C07_labelled_tree_words : forall h exc t, lwords (lt_of h exc t) = words_t h t.
Proof. exact ProofsNesting.lwords_lt_of. Qed.
Print Assumptions C07_labelled_tree_words.

(* REFUTED for the code as it was before 09d8eb0: _mark_nodes compared with Node.__eq__ (structural); one iteration
   on Article[Code[x, Pre[a], z, Pre[a], y]] drops the second `a` (words 101 102 103 102 104 -> 101 102 103 104) *)
Theorem C07_fix_nesting_structural_eq_refuted :
  exists t, NoDup (lids t) /\ leafwords t = true /\
    (exists t', nest_step forb_real invis_real eq_struct t = NMoved t' /\
                lwords t = [101; 102; 103; 102; 104]%N /\ lwords t' = [101; 102; 103; 104]%N) /\
    (exists t', nest_step forb_real invis_real eq_id t = NMoved t' /\ lwords t' = lwords t).
Proof. exact ProofsNestingExtra.fix_nesting_structural_eq_refuted. Qed.
Print Assumptions C07_fix_nesting_structural_eq_refuted.

(* ---- whole passes.  Generic model C07/ModelPasses.v: preorder traversal over a COPY of node.children that,
   where `act` says so and node.parent exists, dissolves the visited node (replace_child(node, node.children),
   with or without `return`) or removes it (remove_child + return).  Instances in treecleaner.py:
   remove_list_only_paragraphs, remove_textless_styles, remove_invisible_links (remove_empty_sections and
   the else-branch of remove_no_print_nodes are instances of the model but drop words by design); passes
   iterating over the live list are NOT covered (list with reasons in C07/ProofsPasses.v).
   For EVERY act such that dissolved nodes have no own words and pruned nodes no words below them (under an
   invariant I about classes/own words): on a proper tree the pass terminates with fuel = number of nodes,
   raises nothing, leaves a proper tree with the same root and the same visible words. *)
Theorem C07_edit_pass_preserves_words : forall act ret (I : heap -> Prop), C07.ProofsPasses.tc_closed I ->
  (forall h n, I h -> act h n = C07.ModelPasses.ADissolve -> textof h n = []) ->
  (forall h n, I h -> act h n = C07.ModelPasses.APrune -> words h n = []) ->
  forall h r, I h -> WF h r ->
  exists h', C07.ModelPasses.edit_pass act ret h r = Done h' /\ I h' /\ WF h' r /\
             words h' r = words h r /\ C07.Proofs.same_tc h h'.
Proof. exact C07.ProofsPasses.edit_pass_ok. Qed.
Print Assumptions C07_edit_pass_preserves_words.

Theorem C07_dissolve_pass_preserves_words : forall sel ret (I : heap -> Prop), C07.ProofsPasses.tc_closed I ->
  (forall h n, I h -> sel h n = true -> textof h n = []) ->
  forall h r, I h -> WF h r ->
  exists h', C07.ModelPasses.dissolve_pass sel ret h r = Done h' /\ I h' /\ WF h' r /\ words h' r = words h r.
Proof. exact C07.ProofsPasses.dissolve_pass_ok. Qed.
Print Assumptions C07_dissolve_pass_preserves_words.

Theorem C07_prune_pass_preserves_words : forall sel (I : heap -> Prop), C07.ProofsPasses.tc_closed I ->
  (forall h n, I h -> sel h n = true -> words h n = []) ->
  forall h r, I h -> WF h r ->
  exists h', C07.ModelPasses.prune_pass sel h r = Done h' /\ I h' /\ WF h' r /\ words h' r = words h r.
Proof. exact C07.ProofsPasses.prune_pass_ok. Qed.
Print Assumptions C07_prune_pass_preserves_words.

(* composition: ANY list of safe passes run one after the other stops, and a normal return leaves a proper
   tree with the same visible words (induction over the list); edit passes, fix_paragraphs and the
   remove_breaking_returns loop at the root are safe *)
Theorem C07_run_passes_preserves_words : forall (I : heap -> Prop) ps,
  Forall (C07.ProofsPasses.safe_pass I) ps -> forall h r, I h -> WF h r ->
  C07.ModelPasses.run_passes ps h r <> OutOfFuel /\
  (forall h', C07.ModelPasses.run_passes ps h r = Done h' -> I h' /\ WF h' r /\ words h' r = words h r).
Proof. exact C07.ProofsPasses.run_passes_safe. Qed.
Print Assumptions C07_run_passes_preserves_words.

Theorem C07_edit_pass_safe : forall act ret (I : heap -> Prop), C07.ProofsPasses.tc_closed I ->
  (forall h n, I h -> act h n = C07.ModelPasses.ADissolve -> textof h n = []) ->
  (forall h n, I h -> act h n = C07.ModelPasses.APrune -> words h n = []) ->
  C07.ProofsPasses.safe_pass I (C07.ModelPasses.edit_pass act ret).
Proof. exact C07.ProofsPasses.edit_pass_safe. Qed.
Print Assumptions C07_edit_pass_safe.

Theorem C07_fix_paragraphs_safe : forall (I : heap -> Prop), C07.ProofsPasses.tc_closed I ->
  C07.ProofsPasses.safe_pass I (fun h r => fix_paragraphs (fp_fuel h r) h r).
Proof. exact C07.ProofsPasses.fix_paragraphs_safe. Qed.
Print Assumptions C07_fix_paragraphs_safe.

(* removal of wordless leaves: the `while changed` loop of remove_breaking_returns, for ANY candidate function,
   when BreakingReturns are childless and carry no words *)
Theorem C07_breaking_returns_preserves_words : forall (cand : heap -> N -> list N) r k h node h',
  WF h r -> C06.ModelNav.br_leaf h -> br_loop cand k h node = Done h' ->
  WF h' r /\ C06.ModelNav.br_leaf h' /\ words h' r = words h r.
Proof. exact C07.ProofsPasses.br_loop_keeps_words. Qed.
Print Assumptions C07_breaking_returns_preserves_words.

Theorem C07_br_root_loop_safe : forall is_block blank,
  C07.ProofsPasses.safe_pass C06.ModelNav.br_leaf
    (fun h r => if N.eqb (clsof h r) c_BR then Done h
                else br_loop (C06.ModelNav.cand_real is_block blank) (S (count_br h r)) h r).
Proof. exact C07.ProofsPasses.br_root_loop_safe. Qed.
Print Assumptions C07_br_root_loop_safe.

Example C07_dissolve_pass_example :
  WF ProofsPassesExtra.hx 1 /\
  exists h', C07.ModelPasses.dissolve_pass ProofsPassesExtra.sel_div false ProofsPassesExtra.hx 1 = Done h' /\
             kids h' 2 = [4; 5; 7; 8]%N /\ wfb h' 1 = true /\ words h' 1 = [5; 6; 7]%N /\
             words ProofsPassesExtra.hx 1 = [5; 6; 7]%N.
Proof. exact ProofsPassesExtra.dissolve_pass_example. Qed.
Print Assumptions C07_dissolve_pass_example.

Example C07_run_passes_example :
  exists h', C07.ModelPasses.run_passes [C07.ModelPasses.dissolve_pass ProofsPassesExtra.sel_div false;
                                         C07.ModelPasses.prune_pass ProofsPassesExtra.sel_br]
                                        ProofsPassesExtra.hx 1 = Done h' /\
             kids h' 2 = [4; 7; 8]%N /\ wfb h' 1 = true /\ words h' 1 = words ProofsPassesExtra.hx 1.
Proof. exact ProofsPassesExtra.run_passes_example. Qed.
Print Assumptions C07_run_passes_example.

Example C07_run_passes_example_safe :
  Forall (C07.ProofsPasses.safe_pass ProofsPassesExtra.inv)
         [C07.ModelPasses.dissolve_pass ProofsPassesExtra.sel_div false;
          C07.ModelPasses.prune_pass ProofsPassesExtra.sel_br].
Proof. exact ProofsPassesExtra.run_passes_example_safe. Qed.
Print Assumptions C07_run_passes_example_safe.

(* ---- whole passes, second generic shape.  Model C07/ModelPasses2.v: the visited node edits selected CHILDREN
   (node.replace_child(c, c.children) or node.remove_child(c), targets fixed when the node is visited), then
   returns or descends into its children list as it is after the edits.  Instances in treecleaner.py:
   remove_leading_para_in_list 1479-1488, restrict_children 1153-1162 (drops words by design),
   remove_empty_training_table_rows 1508-1515.  For EVERY selection of children such that dissolved children
   have no own words and removed children no words below them (under an invariant I about classes / own
   words): on a proper tree the pass terminates with fuel = number of nodes, raises nothing, leaves a proper
   tree with the same root and the same visible words; it is a safe pass, so C07_run_passes_preserves_words
   composes it with the passes above.  Classification of all cleaner methods: C07/ProofsPasses2.v. *)
From MW Require C07.ModelPasses2 C07.ProofsPasses2.

Theorem C07_child_pass_preserves_words : forall (tgt : heap -> N -> list N) (dis stop : heap -> N -> bool)
    (I : heap -> Prop), C07.ProofsPasses.tc_closed I ->
  (forall h n, I h -> incl (tgt h n) (kids h n)) ->
  (forall h n, I h -> NoDup (kids h n) -> NoDup (tgt h n)) ->
  (forall h n c, I h -> dis h n = true -> In c (tgt h n) -> textof h c = []) ->
  (forall h n c, I h -> dis h n = false -> In c (tgt h n) -> words h c = []) ->
  forall h r, I h -> WF h r ->
  exists h', C07.ModelPasses2.child_pass tgt dis stop h r = Done h' /\ I h' /\ WF h' r /\
             words h' r = words h r /\ C07.Proofs.same_tc h h'.
Proof. exact C07.ProofsPasses2.child_pass_ok. Qed.
Print Assumptions C07_child_pass_preserves_words.

Theorem C07_child_pass_safe : forall (tgt : heap -> N -> list N) (dis stop : heap -> N -> bool)
    (I : heap -> Prop), C07.ProofsPasses.tc_closed I ->
  (forall h n, I h -> incl (tgt h n) (kids h n)) ->
  (forall h n, I h -> NoDup (kids h n) -> NoDup (tgt h n)) ->
  (forall h n c, I h -> dis h n = true -> In c (tgt h n) -> textof h c = []) ->
  (forall h n c, I h -> dis h n = false -> In c (tgt h n) -> words h c = []) ->
  C07.ProofsPasses.safe_pass I (C07.ModelPasses2.child_pass tgt dis stop).
Proof. exact C07.ProofsPasses2.child_pass_safe. Qed.
Print Assumptions C07_child_pass_safe.

(* real passes as corollaries; invariant: Paragraphs carry no words of their own *)
Theorem C07_remove_leading_para_in_list_safe :
  C07.ProofsPasses.safe_pass C07.ProofsPasses2.para_textless C07.ModelPasses2.remove_leading_para_in_list.
Proof. exact C07.ProofsPasses2.remove_leading_para_in_list_safe. Qed.
Print Assumptions C07_remove_leading_para_in_list_safe.

Theorem C07_remove_list_only_paragraphs_safe :
  C07.ProofsPasses.safe_pass C07.ProofsPasses2.para_textless C07.ModelPasses2.remove_list_only_paragraphs.
Proof. exact C07.ProofsPasses2.remove_list_only_paragraphs_safe. Qed.
Print Assumptions C07_remove_list_only_paragraphs_safe.

(* restrict_children drops children with their words by design: safe exactly where the dropped children are wordless *)
Theorem C07_restrict_children_safe : forall (restricted : N -> bool) (allowed : N -> N -> bool)
    (I : heap -> Prop), C07.ProofsPasses.tc_closed I ->
  (forall h n c, I h -> restricted (clsof h n) = true -> In c (kids h n) ->
                 allowed (clsof h n) (clsof h c) = false -> words h c = []) ->
  C07.ProofsPasses.safe_pass I (C07.ModelPasses2.restrict_children restricted allowed).
Proof. exact C07.ProofsPasses2.restrict_children_safe. Qed.
Print Assumptions C07_restrict_children_safe.

Theorem C07_remove_empty_trailing_rows_safe : forall (I : heap -> Prop), C07.ProofsPasses.tc_closed I ->
  (forall h n c, I h -> clsof h n = c_Table -> In c (kids h n) ->
                 C07.ModelPasses2.empty_row h c = true -> words h c = []) ->
  C07.ProofsPasses.safe_pass I C07.ModelPasses2.remove_empty_trailing_rows.
Proof. exact C07.ProofsPasses2.remove_empty_trailing_rows_safe. Qed.
Print Assumptions C07_remove_empty_trailing_rows_safe.

(* blank h n = "node.get_all_display_text().strip() is empty"; assumption: such a node has no visible words *)
Theorem C07_remove_textless_styles_safe : forall (is_style : N -> bool) (blank : heap -> N -> bool)
    (I : heap -> Prop), C07.ProofsPasses.tc_closed I ->
  (forall h n, I h -> blank h n = true -> textof h n = [] /\ words h n = []) ->
  C07.ProofsPasses.safe_pass I (C07.ModelPasses2.remove_textless_styles is_style blank).
Proof. exact C07.ProofsPasses2.remove_textless_styles_safe. Qed.
Print Assumptions C07_remove_textless_styles_safe.

(* `if sel(node) and node.parent: node.parent.remove_child(node); return` (remove_invisible_links, ...) *)
Theorem C07_remove_selected_safe : forall sel (I : heap -> Prop), C07.ProofsPasses.tc_closed I ->
  (forall h n, I h -> sel h n = true -> words h n = []) ->
  C07.ProofsPasses.safe_pass I (C07.ModelPasses2.remove_selected sel).
Proof. exact C07.ProofsPasses2.remove_selected_safe. Qed.
Print Assumptions C07_remove_selected_safe.

(* passes that only write attributes (clean_vlist, mark_infoboxes, mark_short_paragraph, fix_math_dir) *)
Theorem C07_attr_only_pass_safe : forall (I : heap -> Prop), C07.ProofsPasses.tc_closed I ->
  C07.ProofsPasses.safe_pass I C07.ModelPasses2.attr_only_pass.
Proof. exact C07.ProofsPasses2.attr_only_pass_safe. Qed.
Print Assumptions C07_attr_only_pass_safe.

Theorem C07_attr_only_pass_id : forall h r, WF h r -> C07.ModelPasses2.attr_only_pass h r = Done h.
Proof. exact C07.ProofsPasses2.attr_only_pass_id. Qed.
Print Assumptions C07_attr_only_pass_id.

Example C07_leading_para_example :
  WF ProofsPasses2.hy 1 /\ C07.ProofsPasses2.para_textless ProofsPasses2.hy /\
  exists h', C07.ModelPasses2.remove_leading_para_in_list ProofsPasses2.hy 1 = Done h' /\
             kids h' 3 = [5; 6; 7]%N /\ wfb h' 1 = true /\ words h' 1 = [5; 6; 7]%N /\
             words ProofsPasses2.hy 1 = [5; 6; 7]%N.
Proof. exact ProofsPasses2.leading_para_example. Qed.
Print Assumptions C07_leading_para_example.

Example C07_empty_rows_example :
  WF ProofsPasses2.hz 1 /\ C07.ModelPasses2.er_tgt ProofsPasses2.hz 2 = [8; 6]%N /\
  exists h', C07.ModelPasses2.remove_empty_trailing_rows ProofsPasses2.hz 1 = Done h' /\
             kids h' 2 = [3]%N /\ wfb h' 1 = true /\ words h' 1 = [5]%N /\ words ProofsPasses2.hz 1 = [5]%N.
Proof. exact ProofsPasses2.empty_rows_example. Qed.
Print Assumptions C07_empty_rows_example.

Example C07_restrict_children_example :
  WF ProofsPasses2.hw 1 /\
  exists h', C07.ModelPasses2.restrict_children ProofsPasses2.restricted_real ProofsPasses2.allowed_real
                                               ProofsPasses2.hw 1 = Done h' /\
             kids h' 2 = [3; 5]%N /\ wfb h' 1 = true /\ words h' 1 = [9]%N /\ words ProofsPasses2.hw 1 = [9]%N.
Proof. exact ProofsPasses2.restrict_children_example. Qed.
Print Assumptions C07_restrict_children_example.

Example C07_run_passes2_example_safe :
  Forall (C07.ProofsPasses.safe_pass C07.ProofsPasses2.para_textless)
         [C07.ModelPasses2.remove_list_only_paragraphs; C07.ModelPasses2.remove_leading_para_in_list;
          C07.ModelPasses2.attr_only_pass].
Proof. exact ProofsPasses2.run_passes2_example_safe. Qed.
Print Assumptions C07_run_passes2_example_safe.

Example C07_run_passes2_example :
  exists h', C07.ModelPasses.run_passes
               [C07.ModelPasses2.remove_list_only_paragraphs; C07.ModelPasses2.remove_leading_para_in_list;
                C07.ModelPasses2.attr_only_pass] ProofsPasses2.hy 1 = Done h' /\
             kids h' 3 = [5; 6; 7]%N /\ wfb h' 1 = true /\ words h' 1 = words ProofsPasses2.hy 1.
Proof. exact ProofsPasses2.run_passes2_example. Qed.
Print Assumptions C07_run_passes2_example.
