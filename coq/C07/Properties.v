(* C07 — property theorems only.  The cleaner's restructuring idioms keep the visible words, on the heap
   model of C05 (words h r = in-order words of the tree below r).  NOT proved: that the composition of the
   ~58 passes is lossless - decided by the verified monitor (extracted cwords before/after clean_all). *)
From Coq Require Import List NArith Bool.
From MW Require Import C05.Heap C05.TreeOps C06.Model.
From MW Require C05.ProofsApi C07.Proofs C07.ProofsExtra C06.Proofs.
Import ListNotations.

(* the visible words of a tree are the concatenation of its nodes' own words in preorder: an operation
   that keeps the preorder sequence of ids keeps the words *)
Theorem C07_words_are_preorder : forall h t, words_t h t = flat_map (textof h) (ids t).
Proof. exact C07.Proofs.words_t_ids. Qed.
Print Assumptions C07_words_are_preorder.

(* idiom 1: node.parent.replace_child(node, node.children) on a node without words of its own
   (treecleaner.py:451, 587, 1121, 1165, 1182, 1731, 1753 ...): succeeds, tree stays proper, words unchanged *)
Theorem C07_dissolve_preserves_words : forall h t p c cs,
  repr h None t -> NoDup (ids t) -> In p (ids t) -> In c (kids h p) ->
  t_find c t = Some (T c cs) -> textof h c = [] ->
  exists h', replace_child h p c (kids h c) = Ok h' /\ WF h' (tid t) /\ words h' (tid t) = words h (tid t).
Proof. exact C07.Proofs.dissolve_keeps_words. Qed.
Print Assumptions C07_dissolve_preserves_words.

(* idiom 2: adjacent move_to (the moved subtree directly follows the target's subtree in reading order,
   as when _fix_paragraphs moves a paragraph behind the last child of the preceding section) *)
Theorem C07_adjacent_move_preserves_words : forall h t n tgt s l,
  NoDup (ids t) -> n <> tid t -> tgt <> tid t ->
  t_find n t = Some s -> t_find tgt t = Some l ->
  (exists A B, ids t = A ++ ids l ++ ids s ++ B) ->
  words_t h (t_insert tgt false s (t_replace n [] t)) = words_t h t.
Proof. exact C07.Proofs.words_move_adjacent. Qed.
Print Assumptions C07_adjacent_move_preserves_words.

(* ... hence the whole fix_paragraphs loop (heap level, any number of iterations) *)
Theorem C07_fix_paragraphs_preserves_words : forall k h r h', WF h r ->
  fix_paragraphs k h r = Done h' -> words h' r = words h r.
Proof. exact C06.Proofs.fix_paragraphs_keeps_words. Qed.
Print Assumptions C07_fix_paragraphs_preserves_words.

(* idiom 3: copy-and-split of _fix_nesting: copy() yields a detached proper tree with the same words ... *)
Theorem C07_copy_preserves_words : forall h r t n,
  tid t = r -> repr h None t -> NoDup (ids t) -> In n (ids t) ->
  exists h' k, copy h n = Some (h', k) /\ WF h' r /\ WFsub h' None k /\ words h' k = words h n.
Proof. exact C05.ProofsApi.copy_preserves_WF. Qed.
Print Assumptions C07_copy_preserves_words.

(* ... and the three filtered copies (top, the spliced child of middle, bottom) carry the words of the bad
   parent exactly once, in order, when the nodes on the path have no words of their own *)
Theorem C07_split_preserves_words : forall h path t,
  C07.Proofs.path_ok path t -> path <> [] -> C07.Proofs.own_text_empty h path (tid t) ->
  words_t h (C07.Proofs.split_top path t) ++ flat_map (words_t h) (tkids (C07.Proofs.split_mid path t))
    ++ words_t h (C07.Proofs.split_bot path t) = words_t h t.
Proof. exact C07.Proofs.words_split. Qed.
Print Assumptions C07_split_preserves_words.

(* the API never changes a node's words or class *)
Theorem C07_api_keeps_text : forall h n tgt b h' i,
  move_to h n tgt b = Ok h' -> textof h' i = textof h i /\ clsof h' i = clsof h i.
Proof. exact C07.Proofs.move_to_frame. Qed.
Print Assumptions C07_api_keeps_text.

Example C07_dissolve_example :
  WF ProofsExtra.hd 1 /\
  exists h', replace_child ProofsExtra.hd 2 3 (kids ProofsExtra.hd 3) = Ok h' /\ kids h' 2 = [4; 5; 6]%N /\
             wfb h' 1 = true /\ words h' 1 = [5; 6; 7]%N /\ words ProofsExtra.hd 1 = [5; 6; 7]%N.
Proof. exact ProofsExtra.dissolve_example. Qed.
Print Assumptions C07_dissolve_example.

(* dropping instead of dissolving loses the words (what the monitor reports) *)
Example C07_drop_loses_words :
  exists h', remove_child ProofsExtra.hd 2 3 = Ok h' /\ wfb h' 1 = true /\ words h' 1 = [7]%N.
Proof. exact ProofsExtra.drop_example. Qed.
Print Assumptions C07_drop_loses_words.
