(* C07 — concrete runs of the generic passes (non-vacuity) *)
From Coq Require Import List NArith Bool.
From MW Require Import C05.Heap C05.TreeOps C06.Model C07.ModelPasses.
From MW Require C05.ProofsWf C07.Proofs C07.ProofsPasses.
Import ListNotations.

(* Article[ Paragraph[ Div[Text 5, BR, Div[Text 6]], Text 7 ] ]  (20 Article, 10 Paragraph, 24 Div, 11 BR) *)
Definition hx : heap :=
  [(1, mkNode 20 None [2] []); (2, mkNode 10 (Some 1) [3; 8] []); (3, mkNode 24 (Some 2) [4; 5; 6] []);
   (4, mkNode 1 (Some 3) [] [5]); (5, mkNode 11 (Some 3) [] []); (6, mkNode 24 (Some 3) [7] []);
   (7, mkNode 1 (Some 6) [] [6]); (8, mkNode 1 (Some 2) [] [7])]%N.

Definition sel_div (h : heap) (n : N) : bool := N.eqb (clsof h n) 24.
Definition sel_br (h : heap) (n : N) : bool := N.eqb (clsof h n) c_BR && is_nil (kids h n).

(* "Divs and BreakingReturns carry no words of their own" - a fact about classes and own words only *)
Definition inv (h : heap) : Prop :=
  forall n, (clsof h n = 24%N \/ clsof h n = c_BR) -> textof h n = [].

Lemma inv_closed : ProofsPasses.tc_closed inv.
Proof.
  intros h h' S Hi n Hc. destruct (S n) as [Et Ec]. rewrite Et. apply Hi. rewrite <- Ec. exact Hc.
Qed.

Lemma inv_hx : inv hx.
Proof.
  intros n Hc. unfold textof, clsof in *. simpl in *.
  repeat match goal with
         | |- context [N.eqb n ?k] => destruct (N.eqb n k) eqn:?; simpl in *
         end; try reflexivity; destruct Hc; discriminate.
Qed.

(* the hypotheses of the generic theorems hold for these two selections *)
Lemma sel_div_ok : forall h n, inv h -> sel_div h n = true -> textof h n = [].
Proof. intros h n Hi H. apply Hi. left. apply N.eqb_eq. exact H. Qed.

Lemma sel_br_ok : forall h n, inv h -> sel_br h n = true -> words h n = [].
Proof.
  intros h n Hi H. unfold sel_br in H. apply andb_prop in H. destruct H as [H1 H2].
  apply C06.ProofsNav.words_leaf.
  - destruct (kids h n); [reflexivity|discriminate].
  - apply Hi. right. apply N.eqb_eq. exact H1.
Qed.

(* one dissolve pass (no `return`: the nested Div is dissolved too) *)
Lemma dissolve_pass_example :
  WF hx 1 /\ exists h', dissolve_pass sel_div false hx 1 = Done h' /\ kids h' 2 = [4; 5; 7; 8]%N /\
                        wfb h' 1 = true /\ words h' 1 = [5; 6; 7]%N /\ words hx 1 = [5; 6; 7]%N.
Proof.
  split; [apply ProofsWf.wfb_spec; vm_compute; reflexivity|]. eexists. vm_compute. repeat split.
Qed.

(* with `return` after the dissolve the children of the dissolved node are NOT visited: the inner Div stays *)
Lemma dissolve_pass_ret_example :
  exists h', dissolve_pass sel_div true hx 1 = Done h' /\ kids h' 2 = [4; 5; 6; 8]%N /\
             wfb h' 1 = true /\ words h' 1 = [5; 6; 7]%N.
Proof. eexists. vm_compute. repeat split. Qed.

(* a list of passes: dissolve the Divs, then prune the BreakingReturns *)
Lemma run_passes_example :
  exists h', run_passes [dissolve_pass sel_div false; prune_pass sel_br] hx 1 = Done h' /\
             kids h' 2 = [4; 7; 8]%N /\ wfb h' 1 = true /\ words h' 1 = words hx 1.
Proof. eexists. vm_compute. repeat split. Qed.

(* ... and the general theorems apply to exactly this list *)
Lemma run_passes_example_safe :
  Forall (ProofsPasses.safe_pass inv) [dissolve_pass sel_div false; prune_pass sel_br].
Proof.
  constructor; [|constructor; [|constructor]].
  - apply ProofsPasses.edit_pass_safe; [exact inv_closed | |].
    + intros h n Hi Ha. apply sel_div_ok; [exact Hi|]. destruct (sel_div h n); [reflexivity|discriminate].
    + intros h n _ Ha. destruct (sel_div h n); discriminate.
  - apply ProofsPasses.edit_pass_safe; [exact inv_closed | |].
    + intros h n _ Ha. destruct (sel_br h n); discriminate.
    + intros h n Hi Ha. apply sel_br_ok; [exact Hi|]. destruct (sel_br h n); [reflexivity|discriminate].
Qed.
