(* C06 — fuel sufficiency of the navigation recursions of C06/ModelNav.v.
   On a proper tree (WF h r) and for a start node n of the tree, none of
     first_leaf / last_leaf / get_next_skip / get_prev_skip  run with fuel nav_fuel h = S (length h)
   returns NFuel: cand_real drops nothing but genuine Nones, so the model of the four candidates is
   faithful to get_first_leaf / get_last_leaf / _get_next / _get_prev on every proper tree.
   - first_leaf descends into a child at every step: fuel > size of the subtree suffices;
   - _get_next moves to the next sibling or to the parent's next sibling: strictly LATER in the
     preorder list ids t;  _get_prev moves to the previous sibling or the parent: strictly EARLIER;
     ids t has no duplicates and at most length h elements. *)
From Coq Require Import List NArith Bool Arith Lia.
From MW Require Import C05.Heap C05.TreeOps C06.Model C06.ModelNav C07.Proofs C06.Proofs C06.ProofsNav.
From MW Require C05.ProofsApi.
Import ListNotations.

(* ================================================================ 1. first_leaf / last_leaf *)
Lemma first_leaf_fuel : forall f h s q self, repr h q s -> tsize s <= f ->
  first_leaf f h self (tid s) <> NFuel.
Proof.
  induction f as [|f IH]; intros h s q self Hr Hsz.
  { pose proof (tsize_pos s). lia. }
  destruct s as [n ts]. pose proof (kids_repr _ _ _ _ Hr) as Hk.
  apply repr_inv in Hr. destruct Hr as (nd & _ & _ & _ & _ & Hf).
  rewrite tsize_eq in Hsz. simpl tid. cbn [first_leaf]. rewrite Hk.
  destruct ts as [|x0 rest]; [simpl; discriminate|].
  cbn [map]. inversion Hf as [|? ? Hx0 Hrest]; subst. rewrite fsize_cons in Hsz.
  destruct (N.eqb (clsof h n) c_Section).
  - destruct rest as [|x1 rest']; [discriminate|]. cbn [map].
    inversion Hrest as [|? ? Hx1 _]; subst. rewrite fsize_cons in Hsz.
    eapply IH; [exact Hx1 | lia].
  - eapply IH; [exact Hx0 | lia].
Qed.

Lemma ids_le_heap : forall h t q, repr h q t -> NoDup (ids t) -> length (ids t) <= length h.
Proof.
  intros h t q Hr Hnd. rewrite <- (map_length fst h).
  apply NoDup_incl_length; [exact Hnd|]. eapply repr_ids_in_keys; eassumption.
Qed.

(* from ANY node of a proper tree, with either value of caller_is_self *)
Lemma first_leaf_nav_fuel : forall h t c self, repr h None t -> NoDup (ids t) -> In c (ids t) ->
  first_leaf (nav_fuel h) h self c <> NFuel.
Proof.
  intros h t c self Hr Hnd Hc.
  destruct (ProofsApi.t_find_ex _ _ Hc) as [s Hs].
  destruct (ProofsApi.t_find_repr _ _ _ _ _ Hr Hs) as [q Hq].
  destruct (t_find_some _ _ _ Hs) as [E Hincl]. rewrite <- E.
  eapply first_leaf_fuel; [exact Hq|].
  pose proof (ProofsApi.t_find_NoDup _ _ _ Hnd Hs) as Hnds.
  rewrite tsize_ids. unfold nav_fuel.
  pose proof (NoDup_incl_length Hnds Hincl). pose proof (ids_le_heap _ _ _ Hr Hnd). lia.
Qed.

Lemma last_leaf_nav_fuel : forall h t n, repr h None t -> NoDup (ids t) -> In n (ids t) ->
  last_leaf (nav_fuel h) h n <> NFuel.
Proof.
  intros h t n Hr Hnd Hn. unfold last_leaf.
  destruct (last_opt (kids h n)) as [c|] eqn:L; [|discriminate].
  eapply first_leaf_nav_fuel; [exact Hr | exact Hnd |].
  eapply kids_in_ids; [exact Hr | exact Hn | apply last_opt_in; exact L].
Qed.

(* ================================================================ 2. siblings as list positions *)
Lemma index_zero : forall n l, index_of n l = Some O -> exists post, l = n :: post.
Proof.
  intros n [|a l] H; [discriminate|]. simpl in H. destruct (N.eqb n a) eqn:E.
  - apply N.eqb_eq in E. subst a. eauto.
  - destruct (index_of n l); discriminate.
Qed.

Lemma index_nth_next : forall n x l k, index_of n l = Some k -> nth_error l (S k) = Some x ->
  exists pre post, l = pre ++ n :: x :: post.
Proof.
  intros n x. induction l as [|a l IH]; intros k Hi Hn; [discriminate|].
  simpl in Hi. destruct (N.eqb n a) eqn:E.
  - apply N.eqb_eq in E. subst a. inversion Hi; subst k. simpl in Hn.
    destruct l as [|y l']; [discriminate|]. simpl in Hn. inversion Hn; subst y.
    exists [], l'. reflexivity.
  - destruct (index_of n l) as [k'|] eqn:Hi'; [|discriminate]. inversion Hi; subst k.
    simpl in Hn. destruct (IH k' eq_refl Hn) as (pre & post & ->).
    exists (a :: pre), post. reflexivity.
Qed.

Lemma index_nth_prev : forall n x l k, index_of n l = Some (S k) -> nth_error l k = Some x ->
  exists pre post, l = pre ++ x :: n :: post.
Proof.
  intros n x. induction l as [|a l IH]; intros k Hi Hn; [discriminate|].
  simpl in Hi. destruct (N.eqb n a) eqn:E; [discriminate|].
  destruct (index_of n l) as [k'|] eqn:Hi'; [|discriminate]. inversion Hi; subst k'.
  destruct k as [|k].
  - simpl in Hn. inversion Hn; subst a. destruct (index_zero _ _ Hi') as [post ->].
    exists [], post. reflexivity.
  - simpl in Hn. destruct (IH k eq_refl Hn) as (pre & post & ->).
    exists (a :: pre), post. reflexivity.
Qed.

(* ================================================================ 3. preorder positions *)
Lemma find_block : forall t c s, NoDup (ids t) -> t_find c t = Some s ->
  exists X Y, ids t = X ++ ids s ++ Y.
Proof.
  intros t c s Hnd F. destruct (N.eq_dec c (tid t)) as [E|E].
  - subst c. rewrite t_find_root in F. inversion F; subst s.
    exists [], []. rewrite app_nil_r. reflexivity.
  - destruct (ids_remove_block t c s Hnd E F) as (A & B & E1 & _). eauto.
Qed.

(* consecutive children a, b of a node p: the whole subtree of a, then b *)
Lemma sib_order : forall h t p pre a b post, repr h None t -> NoDup (ids t) -> In p (ids t) ->
  kids h p = pre ++ a :: b :: post ->
  exists l1 A l3, ids t = l1 ++ ids A ++ b :: l3 /\ tid A = a /\ repr h (Some p) A.
Proof.
  intros h t p pre a b post Hr Hnd Hp Hk.
  destruct (ProofsApi.find_node _ _ _ _ Hr Hp) as (q' & ts & F & Hq).
  destruct (find_block _ _ _ Hnd F) as (X & Y & EX).
  rewrite (kids_repr _ _ _ _ Hq) in Hk.
  apply map_eq_app in Hk. destruct Hk as (l1' & l2' & -> & _ & Hk).
  apply map_eq_cons in Hk. destruct Hk as (A & tl & -> & HA & Hk).
  apply map_eq_cons in Hk. destruct Hk as (B & tl' & -> & HB & _).
  exists (X ++ p :: idsl l1'), A, (idsl (tkids B) ++ idsl tl' ++ Y).
  split; [|split; [exact HA|]].
  - rewrite EX, ids_eq, idsl_app, !idsl_cons, (ids_hd B), HB.
    simpl. rewrite <- !app_assoc. simpl. rewrite <- !app_assoc. reflexivity.
  - eapply ProofsApi.repr_child; [exact Hq|]. apply in_or_app. right. left. reflexivity.
Qed.

(* a node comes before its children *)
Lemma parent_before : forall h t p n, repr h None t -> NoDup (ids t) -> In p (ids t) ->
  In n (kids h p) -> exists l1 l2 l3, ids t = l1 ++ p :: l2 ++ n :: l3.
Proof.
  intros h t p n Hr Hnd Hp Hn.
  destruct (ProofsApi.find_node _ _ _ _ Hr Hp) as (q' & ts & F & Hq).
  destruct (find_block _ _ _ Hnd F) as (X & Y & EX).
  rewrite (kids_repr _ _ _ _ Hq) in Hn. apply in_map_iff in Hn. destruct Hn as (x & <- & Hx).
  assert (Hin : In (tid x) (idsl ts)).
  { unfold idsl. apply in_flat_map. exists x. split; [exact Hx | apply tid_in_ids]. }
  apply in_split in Hin. destruct Hin as (u & v & Euv).
  exists X, u, (v ++ Y). rewrite EX, ids_eq, Euv. simpl. rewrite <- !app_assoc. reflexivity.
Qed.

(* node.next or node.parent.next *)
Definition next_node (h : heap) (n : N) : option N :=
  match get_next h n with
  | Some x => Some x
  | None => match par h n with Some p => get_next h p | None => None end
  end.
(* node.previous or node.parent *)
Definition prev_node (h : heap) (n : N) : option N :=
  match get_previous h n with Some x => Some x | None => par h n end.

Lemma get_next_pos : forall h t n x, repr h None t -> NoDup (ids t) -> In n (ids t) ->
  get_next h n = Some x ->
  exists l1 A l3, ids t = l1 ++ ids A ++ x :: l3 /\ tid A = n /\ (exists q, repr h q A).
Proof.
  intros h t n x Hr Hnd Hn H. unfold get_next, siblings in H.
  destruct (par h n) as [p|] eqn:Hp; [|discriminate].
  destruct (index_of n (kids h p)) as [k|] eqn:Hi; [|discriminate].
  destruct (index_nth_next _ _ _ _ Hi H) as (pre & post & Hk).
  destruct (par_in_tree _ _ _ _ Hr Hn Hp) as [Hpt _].
  destruct (sib_order h t p pre n x post Hr Hnd Hpt Hk) as (l1 & A & l3 & E & HA & HrA).
  exists l1, A, l3. eauto.
Qed.

Lemma next_later : forall h t n x, repr h None t -> NoDup (ids t) -> In n (ids t) ->
  next_node h n = Some x -> exists l1 l2 l3, ids t = l1 ++ n :: l2 ++ x :: l3.
Proof.
  intros h t n x Hr Hnd Hn H. unfold next_node in H.
  destruct (get_next h n) as [y|] eqn:G.
  - inversion H; subst y.
    destruct (get_next_pos _ _ _ _ Hr Hnd Hn G) as (l1 & A & l3 & E & HA & _).
    exists l1, (idsl (tkids A)), l3. rewrite E, (ids_hd A), HA. simpl. reflexivity.
  - destruct (par h n) as [p|] eqn:Hp; [|discriminate].
    destruct (par_in_tree _ _ _ _ Hr Hn Hp) as [Hpt Hnk].
    destruct (get_next_pos _ _ _ _ Hr Hnd Hpt H) as (l1 & A & l3 & E & HA & q & HrA).
    assert (HnA : In n (ids A)).
    { rewrite <- HA in Hnk. eapply kids_in_ids; [exact HrA | apply tid_in_ids | exact Hnk]. }
    apply in_split in HnA. destruct HnA as (u & v & Euv).
    exists (l1 ++ u), v, l3. rewrite E, Euv, <- !app_assoc. simpl. reflexivity.
Qed.

Lemma prev_earlier : forall h t n x, repr h None t -> NoDup (ids t) -> In n (ids t) ->
  prev_node h n = Some x -> exists l1 l2 l3, ids t = l1 ++ x :: l2 ++ n :: l3.
Proof.
  intros h t n x Hr Hnd Hn H. unfold prev_node in H.
  destruct (get_previous h n) as [y|] eqn:G.
  - inversion H; subst y. unfold get_previous, siblings in G.
    destruct (par h n) as [p|] eqn:Hp; [|discriminate].
    destruct (index_of n (kids h p)) as [[|k]|] eqn:Hi; try discriminate.
    destruct (index_nth_prev _ _ _ _ Hi G) as (pre & post & Hk).
    destruct (par_in_tree _ _ _ _ Hr Hn Hp) as [Hpt _].
    destruct (sib_order h t p pre x n post Hr Hnd Hpt Hk) as (l1 & A & l3 & E & HA & _).
    exists l1, (idsl (tkids A)), l3. rewrite E, (ids_hd A), HA. simpl. reflexivity.
  - destruct (par_in_tree _ _ _ _ Hr Hn H) as [Hpt Hnk].
    eapply parent_before; eassumption.
Qed.

(* ================================================================ 4. the two skipping recursions *)
Section SkipFuel.
  Variable is_block blank : heap -> N -> bool.

  Lemma get_next_skip_unfold : forall f h n,
    get_next_skip is_block blank (S f) h n =
    match next_node h n with
    | None => NRes None
    | Some x => if skip is_block blank h x then get_next_skip is_block blank f h x else NRes (Some x)
    end.
  Proof.
    intros f h n. cbn [get_next_skip]. unfold next_node.
    destruct (get_next h n) as [y|]; [reflexivity|].
    destruct (par h n) as [p|]; reflexivity.
  Qed.

  Lemma get_prev_skip_unfold : forall f h n,
    get_prev_skip is_block blank (S f) h n =
    match prev_node h n with
    | None => NRes None
    | Some x => if skip is_block blank h x then get_prev_skip is_block blank f h x else NRes (Some x)
    end.
  Proof. reflexivity. Qed.

  Lemma get_next_skip_fuel : forall h t, repr h None t -> NoDup (ids t) ->
    forall f n l1 l3, ids t = l1 ++ n :: l3 -> length l3 < f ->
    get_next_skip is_block blank f h n <> NFuel.
  Proof.
    intros h t Hr Hnd. induction f as [|f IH]; intros n l1 l3 E Hlen; [lia|].
    rewrite get_next_skip_unfold.
    destruct (next_node h n) as [x|] eqn:Hx; [|discriminate].
    destruct (skip is_block blank h x); [|discriminate].
    assert (Hn : In n (ids t)) by (rewrite E; apply in_elt).
    destruct (next_later _ _ _ _ Hr Hnd Hn Hx) as (a & b & c & E2).
    assert (U : l1 = a /\ l3 = b ++ x :: c).
    { eapply nodup_split_unique; [rewrite <- E; exact Hnd | rewrite <- E; exact E2]. }
    destruct U as [-> ->].
    apply (IH x (a ++ n :: b) c).
    - rewrite E2, <- app_assoc. reflexivity.
    - rewrite app_length in Hlen. simpl in Hlen. lia.
  Qed.

  Lemma get_prev_skip_fuel : forall h t, repr h None t -> NoDup (ids t) ->
    forall f n l1 l3, ids t = l1 ++ n :: l3 -> length l1 < f ->
    get_prev_skip is_block blank f h n <> NFuel.
  Proof.
    intros h t Hr Hnd. induction f as [|f IH]; intros n l1 l3 E Hlen; [lia|].
    rewrite get_prev_skip_unfold.
    destruct (prev_node h n) as [x|] eqn:Hx; [|discriminate].
    destruct (skip is_block blank h x); [|discriminate].
    assert (Hn : In n (ids t)) by (rewrite E; apply in_elt).
    destruct (prev_earlier _ _ _ _ Hr Hnd Hn Hx) as (a & b & c & E2).
    assert (U : l1 = a ++ x :: b /\ l3 = c).
    { eapply nodup_split_unique; [rewrite <- E; exact Hnd |].
      rewrite <- E, E2, <- app_assoc. reflexivity. }
    destruct U as [-> ->].
    apply (IH x a (b ++ n :: c)).
    - exact E2.
    - rewrite app_length in Hlen. simpl in Hlen. lia.
  Qed.

  (* THE RESULT: with fuel nav_fuel h = S (length h) none of the four navigation results is NFuel *)
  Theorem nav_fuel_ok : forall h r n, WF h r ->
    (forall t, tid t = r -> repr h None t -> In n (ids t)) ->
    forall x, In x (nav_list is_block blank h n) -> x <> NFuel.
  Proof.
    intros h r n (t & Ht & Hr & Hnd) Hn x Hx. specialize (Hn t Ht Hr).
    pose proof (ids_le_heap _ _ _ Hr Hnd) as Hle.
    destruct (in_split _ _ Hn) as (l1 & l3 & E).
    assert (Hlen : length l1 + S (length l3) <= length h).
    { rewrite E, app_length in Hle. simpl in Hle. exact Hle. }
    unfold nav_list in Hx. destruct Hx as [<-|[<-|[<-|[<-|[]]]]].
    - eapply first_leaf_nav_fuel; eassumption.
    - eapply last_leaf_nav_fuel; eassumption.
    - eapply get_next_skip_fuel; [exact Hr | exact Hnd | exact E | unfold nav_fuel; lia].
    - eapply get_prev_skip_fuel; [exact Hr | exact Hnd | exact E | unfold nav_fuel; lia].
  Qed.

  (* hence: every navigation result is a genuine Python value (a node or None), and cand_real is exactly the
     list of the non-None results: nothing is dropped because of fuel *)
  Theorem cand_real_faithful : forall h r n, WF h r ->
    (forall t, tid t = r -> repr h None t -> In n (ids t)) ->
    (forall x, In x (nav_list is_block blank h n) -> exists o, x = NRes o) /\
    (forall c, In c (cand_real is_block blank h n) <->
               In (NRes (Some c)) (nav_list is_block blank h n)).
  Proof.
    intros h r n Hwf Hn. split.
    - intros x Hx. pose proof (nav_fuel_ok h r n Hwf Hn x Hx) as K.
      destruct x as [|o]; [congruence | eauto].
    - intros c. unfold cand_real, nav_nodes. rewrite in_flat_map. split.
      + intros (x & Hx & Hc). destruct x as [|[c'|]]; try contradiction.
        destruct Hc as [->|[]]. exact Hx.
      + intros Hx. exists (NRes (Some c)). split; [exact Hx | left; reflexivity].
  Qed.
End SkipFuel.

(* non-vacuity: on Article[Paragraph[BR,Text,BR],BR] (ProofsNav.h_ok) from the Paragraph all four results are
   genuine: first leaf = the first BR, last leaf (as written) = the last BR, next = the BR behind, prev = root *)
Lemma nav_fuel_example :
  nav_list nb nb h_ok 2 = [NRes (Some 3%N); NRes (Some 5%N); NRes (Some 6%N); NRes (Some 1%N)].
Proof. vm_compute. reflexivity. Qed.
