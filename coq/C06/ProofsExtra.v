(* C06 — concrete runs of the loop models (non-vacuity) *)
From Coq Require Import List NArith Bool.
From MW Require Import C05.Heap C05.TreeOps C06.Model.
From MW Require C05.ProofsWf.
Import ListNotations.

(* Article[ Section[Node[Text]], Paragraph[Text "7"] ]  (the shape "<table>\n== h ==\n</table>\npara" parses to) *)
Definition hp : heap :=
  [(1, mkNode 20 None [2; 5] []); (2, mkNode 8 (Some 1) [3] []); (3, mkNode 21 (Some 2) [4] []);
   (4, mkNode 1 (Some 3) [] [9]); (5, mkNode 10 (Some 1) [6] []); (6, mkNode 1 (Some 5) [] [7])]%N.

Lemma fix_paragraphs_example :
  WF hp 1 /\
  exists h', fix_paragraphs (fp_fuel hp 1) hp 1 = Done h' /\ kids h' 1 = [2]%N /\ kids h' 2 = [3; 5]%N /\
             wfb h' 1 = true /\ words h' 1 = words hp 1.
Proof.
  split; [apply ProofsWf.wfb_spec; vm_compute; reflexivity|].
  eexists. vm_compute. repeat split.
Qed.

(* a childless Section before the paragraph: get_last_child() is None and move_to raises *)
Definition hq : heap :=
  [(1, mkNode 20 None [2; 5] []); (2, mkNode 8 (Some 1) [] []); (5, mkNode 10 (Some 1) [] [])]%N.
Lemma fix_paragraphs_raises_example : WF hq 1 /\ fix_paragraphs (fp_fuel hq 1) hq 1 = Raised.
Proof. split; [apply ProofsWf.wfb_spec; vm_compute; reflexivity | vm_compute; reflexivity]. Qed.

(* breaking returns: candidates = the children of the node; Paragraph[BR, Text, BR] *)
Definition hb : heap :=
  [(1, mkNode 10 None [2; 3; 4] []); (2, mkNode 11 (Some 1) [] []); (3, mkNode 1 (Some 1) [] [5]);
   (4, mkNode 11 (Some 1) [] [])]%N.
Lemma breaking_returns_example :
  WF hb 1 /\ count_br hb 1 = 2 /\
  exists h', br_loop (fun h n => kids h n) (S (count_br hb 1)) hb 1 = Done h' /\ kids h' 1 = [3]%N /\ wfb h' 1 = true.
Proof.
  split; [apply ProofsWf.wfb_spec; vm_compute; reflexivity|]. split; [vm_compute; reflexivity|].
  eexists. vm_compute. repeat split.
Qed.

(* the hypothesis of C06_breaking_returns_terminates is satisfiable *)
Lemma cand_hyp_satisfiable : forall r : N,
  forall h node c, WF h r -> In c ((fun (_ : heap) (_ : N) => @nil N) h node) -> clsof h c = c_BR ->
     (forall t, tid t = r -> repr h None t -> In c (ids t)) /\ c <> r.
Proof. intros r h node c _ [] . Qed.
