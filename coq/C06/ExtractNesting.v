From Coq Require Import Extraction ExtrOcamlBasic.
From MW Require Import C06.ModelNesting.
Extraction "../ocaml/c06n/c06n_model.ml" fix_nesting nest_step nest_fuel npairs nest_ok forb_real invis_real
  eq_id eq_struct lids lwords leafwords.
