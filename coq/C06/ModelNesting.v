(* C06/C07 — executable model of TreeCleaner.fix_nesting, "loose" strictness (definitions only; the
   lemmas are in C06/ProofsNesting.v, concrete runs in C06/ProofsNestingExtra.v).

   LEVEL: labelled finite trees (`ltree`): every node carries its object identity, its class code
   (vt/harness/c05_snap.py CLS), the outcome of TreeCleaner._is_exception on it and the visible words it
   contributes itself (vt/harness/c05_snap.py visible_words; Heap.v `text`).  `lt_of h exc t` reads such a
   tree off a heap of C05/Heap.v along a represented `tree` (repr h None t), `erase` forgets the labels.
   The heap operations copy()/remove_child/replace_child are NOT re-played cell by cell here: a fresh
   deepcopy is a relabelling of the identities (lmap), _filter_tree's remove_child calls are the removal
   of sub-trees, parent.replace_child(bad_parent, new_tree) is the splice into the children list.

   The code (treecleaner.py):
     789-810  _nesting_broken(node): parents nearest first, cut at the first parent whose class is in
              outside_parents_invisible (that one excluded); 774-779 (loose): the first = nearest of these
              whose class is in forbidden_parents[node.__class__]
     812-827  _mark_nodes(bad_parent, divide, problem_node)
     835-840  _filter_tree(copy, [marks to drop])
     842-848  _is_exception(node): node.vlist["style"]["direction"] exists
     850-900  _fix_nesting(node): exception -> return None (children NOT visited); not broken ->
              any(_fix_nesting(c) for c in children) (stops at the first True); broken -> repair, True
     902-904  fix_nesting(node): while self._fix_nesting(node): pass

   DEFECT / FIX.  _mark_nodes tests `child in divide` and `child == problem_node` with Node.__eq__
   (nodes.py:28-33: same class, same caption, equal children lists: STRUCTURAL).  A sibling that is
   structurally equal to the problem node is marked "problem" too and disappears from all three copies.
   The proposed patch /verif/fixes/C07-fix-nesting-identity.diff uses identity.  The model is parametric
   in that test (`eqn`): `eq_id` (identity = equal ids: the FIXED behaviour, used by all positive
   theorems) and `eq_struct` (Node.__eq__; the caption is abstracted to the node's own word list, the
   class to its code: used by the _refuted witness). *)
From Coq Require Import List NArith Bool Arith.
From MW Require Import C05.Heap C05.TreeOps.
Import ListNotations.

Record lab := mkLab { l_id : N; l_cls : N; l_exc : bool; l_words : list N }.
Inductive ltree := L : lab -> list ltree -> ltree.

Definition llab (t : ltree) : lab := let 'L a _ := t in a.
Definition lkids (t : ltree) : list ltree := let 'L _ ts := t in ts.
Definition lid (t : ltree) : N := l_id (llab t).
Definition lcls (t : ltree) : N := l_cls (llab t).
Fixpoint lids (t : ltree) : list N := let 'L a ts := t in l_id a :: flat_map lids ts.
Fixpoint lwords (t : ltree) : list N := let 'L a ts := t in l_words a ++ flat_map lwords ts.
Fixpoint lsize (t : ltree) : nat := let 'L _ ts := t in S (list_sum (map lsize ts)).

(* a deepcopy: same shape and labels, new identities *)
Definition relab (f : N -> N) (a : lab) : lab := mkLab (f (l_id a)) (l_cls a) (l_exc a) (l_words a).
Fixpoint lmap (f : N -> N) (t : ltree) : ltree := let 'L a ts := t in L (relab f a) (map (lmap f) ts).

(* connection with C05/Heap.v *)
Fixpoint erase (t : ltree) : tree := let 'L a ts := t in T (l_id a) (map erase ts).
Fixpoint lt_of (h : heap) (exc : N -> bool) (t : tree) : ltree :=
  let 'T i ts := t in L (mkLab i (clsof h i) (exc i) (textof h i)) (map (lt_of h exc) ts).

(* words only on childless nodes (true of the harness' tokenisation: Text/Math/URL leaves, links and
   named URLs WITHOUT children) *)
Fixpoint leafwords (t : ltree) : bool :=
  let 'L a ts := t in (is_nil (l_words a) || is_nil ts) && forallb leafwords ts.

(* ---------------------------------------------------------------- the two membership tests *)
Definition eq_id (a b : ltree) : bool := N.eqb (lid a) (lid b).          (* `a is b` *)

Fixpoint list_eqb (l1 l2 : list N) : bool :=
  match l1, l2 with
  | [], [] => true
  | x :: r1, y :: r2 => N.eqb x y && list_eqb r1 r2
  | _, _ => false
  end.
(* Node.__eq__ (nodes.py:28-33); structural recursion on the first tree, no fuel needed *)
Fixpoint eq_struct (a b : ltree) : bool :=
  let 'L la ta := a in
  let 'L lb tb := b in
  N.eqb (l_cls la) (l_cls lb) && list_eqb (l_words la) (l_words lb) &&
  (fix go (l1 l2 : list ltree) : bool :=
     match l1, l2 with
     | [], [] => true
     | x :: r1, y :: r2 => eq_struct x y && go r1 r2
     | _, _ => false
     end) ta tb.

(* ---------------------------------------------------------------- marks (treecleaner.py:812-840) *)
Inductive mark := MNone | MTop | MBot | MProb.
Inductive mtree := MT : mark -> lab -> list mtree -> mtree.
Definition mmark (t : mtree) : mark := let 'MT m _ _ := t in m.

(* the first loop of _mark_nodes over node.children when node itself carries no mark *)
Definition mark_kids (indiv isprob : ltree -> bool) (mk : mark -> ltree -> mtree)
  : bool -> list ltree -> list mtree :=
  fix go (got : bool) (l : list ltree) : list mtree :=
    match l with
    | [] => []
    | c :: r =>
        if indiv c                                            (* child in divide *)
        then mk (if isprob c then MProb else MNone) c :: go true r
        else mk (if got then MBot else MTop) c :: go got r
    end.

Section Marks.
  Variable eqn : ltree -> ltree -> bool.
  Variable divide : list ltree.          (* node.get_parents() + [node] *)
  Variable prob : ltree.

  (* mark_t m t: t got mark m from the loop over its parent's children; a marked node hands its mark down
     to all children (814-816), an unmarked one runs the divide logic (817-825) *)
  Fixpoint mark_t (m : mark) (t : ltree) : mtree :=
    let 'L a ts := t in
    MT m a (match m with
            | MNone => mark_kids (fun c => existsb (eqn c) divide) (fun c => eqn c prob) mark_t false ts
            | _ => map (mark_t m) ts
            end).
End Marks.

(* _filter_tree(root of a copy, flt): the root itself carries no mark; a marked child is removed with its
   whole subtree, the others are filtered recursively *)
Fixpoint filt (flt : mark -> bool) (t : mtree) : ltree :=
  let 'MT _ a ts := t in
  L a (flat_map (fun c => if flt (mmark c) then [] else [filt flt c]) ts).

Definition ftop (m : mark) : bool := match m with MBot | MProb => true | _ => false end.   (* 872 *)
Definition fmid (m : mark) : bool := match m with MTop | MBot => true | _ => false end.    (* 874 *)
Definition fbot (m : mark) : bool := match m with MTop | MProb => true | _ => false end.   (* 877 *)

(* treecleaner.py:868-878; None = middle_tree.children[0] raises IndexError *)
Definition pieces (eqn : ltree -> ltree -> bool) (divide : list ltree) (prob B : ltree)
  : option (ltree * ltree * ltree) :=
  let mt := mark_t eqn divide prob MNone B in
  match lkids (filt fmid mt) with
  | [] => None
  | m :: _ => Some (filt ftop mt, m, filt fbot mt)
  end.

(* identities of the three deepcopies: injective, pairwise disjoint, all >= 3*nx *)
Definition fresh_id (nx : N) (j : N) (i : N) : N := (3 * (nx + i) + j)%N.
Definition lfresh (t : ltree) : N := N.succ (fold_left N.max (lids t) 0%N).

Section Nesting.
  Variable forb : N -> N -> bool.        (* forb child_class parent_class: forbidden_parents (236-251) *)
  Variable invis : N -> bool.            (* outside_parents_invisible (257) *)
  Variable eqn : ltree -> ltree -> bool.

  (* anc = classes of the ancestors, nearest first.  visible = clean_parents of _nesting_broken *)
  Fixpoint visible (anc : list N) : list N :=
    match anc with
    | [] => []
    | a :: r => if invis a then [] else a :: visible r
    end.
  Fixpoint first_forb (k : N) (vis : list N) : option nat :=
    match vis with
    | [] => None
    | a :: r => if forb k a then Some O
                else match first_forb k r with Some d => Some (S d) | None => None end
    end.
  (* _nesting_broken: Some d = the bad parent is the ancestor number d (0 = the parent) *)
  Definition bad_idx (anc : list N) (k : N) : option nat := first_forb k (visible anc).

  (* the measure: number of (node, forbidden visible ancestor) pairs *)
  Definition nbad (anc : list N) (k : N) : nat := length (filter (forb k) (visible anc)).
  Fixpoint npairs (anc : list N) (t : ltree) : nat :=
    let 'L a ts := t in nbad anc (l_cls a) + list_sum (map (npairs (l_cls a :: anc)) ts).

  (* the postcondition: outside exception sub-trees no node has a forbidden visible ancestor *)
  Fixpoint nest_ok (anc : list N) (t : ltree) : bool :=
    let 'L a ts := t in
    l_exc a || (match bad_idx anc (l_cls a) with None => true | Some _ => false end
                && forallb (nest_ok (l_cls a :: anc)) ts).

  (* result of _fix_nesting(node), seen from the caller:
     VNo            falsy, nothing changed below
     VChanged t'    True; the repair happened strictly below, t' is the node afterwards
     VPending d div p   the problem node p was found; div = the nodes from here down to p; the bad parent
                    is d levels above this node (the repair is done when the recursion is back there)
     VSplice news   this node WAS the bad parent: the caller's children list gets news in its place
     VRaise         IndexError on middle_tree.children[0] *)
  Inductive vres :=
  | VNo | VChanged (t : ltree) | VPending (d : nat) (div : list ltree) (p : ltree)
  | VSplice (news : list ltree) | VRaise.
  Inductive lres :=
  | LNo | LChanged (l : list ltree) | LPending (d : nat) (div : list ltree) (p : ltree) | LRaise.

  (* any(self._fix_nesting(c) for c in node.children) *)
  Definition visit_kids (vis : ltree -> vres) : list ltree -> lres :=
    fix go (l : list ltree) : lres :=
      match l with
      | [] => LNo
      | c :: r =>
          match vis c with
          | VNo => match go r with LChanged r' => LChanged (c :: r') | o => o end
          | VChanged c' => LChanged (c' :: r)
          | VSplice news => LChanged (news ++ r)
          | VPending d div p => LPending d div p
          | VRaise => LRaise
          end
      end.

  Fixpoint visit (nx : N) (anc : list N) (t : ltree) : vres :=
    let 'L a ts := t in
    if l_exc a then VNo                                           (* 870-871 *)
    else match bad_idx anc (l_cls a) with
         | Some d => VPending d [L a ts] (L a ts)                 (* 873: bad_parent found *)
         | None =>
             match visit_kids (visit nx (l_cls a :: anc)) ts with (* 875 *)
             | LNo => VNo
             | LChanged ts' => VChanged (L a ts')
             | LPending (S d) div p => VPending d (L a ts :: div) p
             | LPending O div p =>                                (* this node is bad_parent: 877-898 *)
                 match pieces eqn (L a ts :: div) p (L a ts) with
                 | Some (tp, md, bt) =>
                     VSplice [lmap (fresh_id nx 0) tp; lmap (fresh_id nx 1) md; lmap (fresh_id nx 2) bt]
                 | None => VRaise
                 end
             | LRaise => VRaise
             end
         end.

  (* one evaluation of the loop condition self._fix_nesting(root) *)
  Inductive nstep := NStop | NRaise | NMoved (t : ltree).
  Definition nest_step (t : ltree) : nstep :=
    match visit (lfresh t) [] t with
    | VNo => NStop
    | VChanged t' => NMoved t'
    | VSplice _ => NRaise          (* the root is the bad parent: bad_parent.parent is None, AttributeError *)
    | VPending _ _ _ => NRaise     (* impossible (no ancestors) *)
    | VRaise => NRaise
    end.

  Inductive noutcome := NDone (t : ltree) | NRaised | NOutOfFuel.
  Fixpoint fix_nesting (fuel : nat) (t : ltree) : noutcome :=
    match fuel with
    | O => NOutOfFuel
    | S f => match nest_step t with
             | NStop => NDone t
             | NRaise => NRaised
             | NMoved t' => fix_nesting f t'
             end
    end.

  Definition nest_fuel (t : ltree) : nat := S (npairs [] t).
End Nesting.

(* ---------------------------------------------------------------- the real tables *)
Definition c_Center : N := 26.  Definition c_ImageLink : N := 28.  Definition c_PreFormatted : N := 32.
Definition c_DefinitionList : N := 33.  Definition c_DefinitionTerm : N := 34.
Definition c_DefinitionDescription : N := 35.  Definition c_Blockquote : N := 36.
Definition c_Emphasized : N := 37.  Definition c_Strong : N := 38.  Definition c_Gallery : N := 39.
Definition c_Source : N := 41.  Definition c_Code : N := 42.  Definition c_Small : N := 43.
Definition c_Big : N := 44.  Definition c_Sub : N := 45.  Definition c_Sup : N := 46.
Definition c_Strike : N := 57.  Definition c_Underline : N := 58.  Definition c_Overline : N := 59.
Definition c_Cite : N := 60.  Definition c_Var : N := 61.  Definition c_Teletyped : N := 62.
Definition c_Italic : N := 64.  Definition c_Deleted : N := 66.  Definition c_Inserted : N := 67.
Definition c_Article : N := 20.

(* treecleaner.py:211-229 *)
Definition inline_style_nodes : list N :=
  [c_Big; c_Center; c_Cite; c_Code; c_Deleted; c_Emphasized; c_Inserted; c_Italic; c_Overline; c_Small;
   c_Strike; c_Strong; c_Sub; c_Sup; c_Teletyped; c_Underline; c_Var].

(* treecleaner.py:236-252 *)
Definition forbidden_parents : list (N * list N) :=
  [ (c_ImageLink, [c_PreFormatted]); (c_ItemList, [c_PreFormatted]);
    (c_Source, inline_style_nodes ++ [c_PreFormatted]);
    (c_DefinitionList, [c_Paragraph]); (c_Blockquote, [c_PreFormatted]); (c_Center, [c_PreFormatted]);
    (c_Paragraph, [c_PreFormatted]); (c_Section, [c_PreFormatted]);
    (c_Gallery, [c_PreFormatted; c_DefinitionDescription; c_DefinitionList; c_DefinitionTerm]);
    (c_Table, [c_DefinitionList; c_DefinitionDescription]);
    (c_PreFormatted, [c_Code]) ].

Definition forb_real (child parent : N) : bool :=
  existsb (fun e => N.eqb (fst e) child && memb parent (snd e)) forbidden_parents.
(* treecleaner.py:257 *)
Definition invis_real (k : N) : bool := N.eqb k c_Table || N.eqb k c_Section || N.eqb k c_Reference.
