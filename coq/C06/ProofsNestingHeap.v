(* C05/C06 — the heap-level replay of one _fix_nesting repair keeps the document a proper tree
   (model: C06/ModelNestingHeap.v; API lemmas: C05/ProofsApi.v). *)
From Coq Require Import List NArith Bool Arith Lia.
From MW Require Import C05.Heap C05.TreeOps C05.ProofsApi C06.ModelNestingHeap.
From MW Require C05.ProofsWf.
Import ListNotations.

(* ================================================================ 1. tfilter *)
Lemma tid_tfilter : forall d t, tid (tfilter d t) = tid t.
Proof. intros d [i ts]. reflexivity. Qed.

Lemma cnt_tfilter : forall d x t, cnt x (ids (tfilter d t)) <= cnt x (ids t).
Proof.
  intros d x. induction t as [i ts IH] using tree_ind'.
  cbn [tfilter ids]. rewrite !cnt_cons.
  enough (cnt x (flat_map ids (flat_map (fun c => if d (tid c) then [] else [tfilter d c]) ts))
          <= cnt x (flat_map ids ts)) by lia.
  induction ts as [|y r IHr]; [simpl; lia|].
  inversion IH as [|? ? Py Pr]; subst. specialize (IHr Pr).
  cbn [flat_map]. rewrite flat_map_app, !cnt_app.
  destruct (d (tid y)); cbn [flat_map]; [rewrite cnt_nil | rewrite app_nil_r]; lia.
Qed.

Lemma tfilter_incl : forall d t, incl (ids (tfilter d t)) (ids t).
Proof.
  intros d t x Hx. apply In_cnt. apply In_cnt in Hx. pose proof (cnt_tfilter d x t). lia.
Qed.

Lemma tfilter_NoDup : forall d t, NoDup (ids t) -> NoDup (ids (tfilter d t)).
Proof.
  intros d t H. rewrite NoDup_cnt in *. intro x. pose proof (cnt_tfilter d x t). specialize (H x). lia.
Qed.

(* ================================================================ 2. lists *)
Lemma index_of_app_notin : forall c A B, ~ In c A -> index_of c (A ++ c :: B) = Some (length A).
Proof.
  induction A as [|a A IH]; intros B H; simpl.
  - rewrite N.eqb_refl. reflexivity.
  - destruct (N.eqb_spec c a) as [E|E]; [exfalso; apply H; simpl; auto|].
    rewrite IH; auto. intro F. apply H. simpl. auto.
Qed.

Lemma skipn_S_app : forall (A : list N) c B, skipn (S (length A)) (A ++ c :: B) = B.
Proof. induction A as [|a A IH]; intros c B; [reflexivity|]. cbn [length app]. rewrite skipn_cons. apply IH. Qed.

Lemma firstn_len_app : forall (A B : list N), firstn (length A) (A ++ B) = A.
Proof. induction A as [|a A IH]; intros; simpl; [reflexivity | rewrite IH; reflexivity]. Qed.

Lemma splice_app : forall (A : list N) c B news, splice (A ++ c :: B) (length A) news = A ++ news ++ B.
Proof. intros. unfold splice. rewrite firstn_len_app, skipn_S_app. reflexivity. Qed.

Lemma nodup_split3 : forall i (A B : list N), NoDup (i :: A ++ B) ->
  ~ In i A /\ ~ In i B /\ NoDup A /\ NoDup B /\ (forall x, In x A -> ~ In x B) /\ NoDup (i :: B).
Proof.
  intros i A B H. rewrite NoDup_cnt in H.
  assert (H' : forall x, (if N.eqb i x then 1 else 0) + cnt x A + cnt x B <= 1).
  { intro x. specialize (H x). rewrite cnt_cons, cnt_app in H. lia. }
  split. { apply notIn_cnt. specialize (H' i). rewrite N.eqb_refl in H'. lia. }
  split. { apply notIn_cnt. specialize (H' i). rewrite N.eqb_refl in H'. lia. }
  split. { apply NoDup_cnt. intro x. specialize (H' x). destruct (N.eqb i x); lia. }
  split. { apply NoDup_cnt. intro x. specialize (H' x). destruct (N.eqb i x); lia. }
  split. { intros x Hx. apply notIn_cnt. apply In_cnt in Hx. specialize (H' x). destruct (N.eqb i x); lia. }
  apply NoDup_cnt. intro x. rewrite cnt_cons. specialize (H' x). destruct (N.eqb i x); lia.
Qed.

Lemma floop_cons : forall v h c r,
  floop v h (c :: r) = match v h c with Ok h1 => floop v h1 r | Err => Err end.
Proof. reflexivity. Qed.

Lemma hfilter_S : forall f d h n,
  hfilter (S f) d h n = if d n then match par h n with Some p => remove_child h p n | None => Err end
                        else floop (hfilter f d) h (kids h n).
Proof. reflexivity. Qed.

(* ================================================================ 3. _filter_tree on the heap *)
Section Filter.
  Variable drop : N -> bool.

  Definition F (l : list tree) : list tree :=
    flat_map (fun c => if drop (tid c) then [] else [tfilter drop c]) l.

  Definition filter_ok (f : nat) : Prop := forall h q s,
    repr h q s -> NoDup (ids s) -> drop (tid s) = false -> tsize s <= f ->
    exists h', hfilter f drop h (tid s) = Ok h' /\ repr h' q (tfilter drop s) /\
               (forall j, ~ In j (ids s) -> get h' j = get h j).

  (* the loop over the snapshot of node i's children: `done` = what the already visited children have become *)
  Lemma floop_inv : forall f i q, filter_ok f ->
    forall rest done h nd,
    get h i = Some nd -> parent nd = q -> children nd = map tid done ++ map tid rest ->
    (cls nd = c_Text -> rest = [] /\ done = []) ->
    Forall (repr h (Some i)) done -> Forall (repr h (Some i)) rest ->
    NoDup (i :: flat_map ids rest) ->
    (forall x, In x (flat_map ids done) -> x <> i /\ ~ In x (flat_map ids rest)) ->
    list_sum (map tsize rest) <= f ->
    exists h', floop (hfilter f drop) h (map tid rest) = Ok h' /\
               repr h' q (T i (done ++ F rest)) /\
               (forall j, j <> i -> ~ In j (flat_map ids rest) -> get h' j = get h j).
  Proof.
    intros f i q Hok. induction rest as [|c rest' IH]; intros done h nd Hg Hp Hc Ht Hfd Hfr Hnd Hdone Hsum.
    - exists h. split; [reflexivity|]. split; [|auto].
      unfold F. cbn [flat_map map] in *. rewrite app_nil_r in *.
      eapply repr_T with (nd := nd); auto. intro Hcls. destruct (Ht Hcls); auto.
    - destruct c as [k ks].
      change (flat_map ids (T k ks :: rest')) with (ids (T k ks) ++ flat_map ids rest') in *.
      destruct (nodup_split3 _ _ _ Hnd) as (Hi_c & Hi_r & Hnd_c & Hnd_r & Hdisj & Hnd').
      pose proof (Forall_inv Hfr) as Hrc. pose proof (Forall_inv_tail Hfr) as Hrr.
      assert (Hkc : In k (ids (T k ks))) by (simpl; auto).
      assert (Hki : k <> i) by (intro E; subst; contradiction).
      assert (Hsz : tsize (T k ks) <= f /\ list_sum (map tsize rest') <= f).
      { change (list_sum (map tsize (T k ks :: rest'))) with (tsize (T k ks) + list_sum (map tsize rest')) in Hsum.
        split; lia. }
      destruct Hsz as [Hsz Hsum'].
      cbn [map tid]. rewrite floop_cons.
      destruct (drop k) eqn:Hdk.
      + (* the child is dropped: node.parent.remove_child(node) *)
        destruct f as [|f']; [simpl in Hsz; lia|].
        rewrite hfilter_S, Hdk.
        pose proof (repr_root_par _ _ _ Hrc) as Hpk. cbn [tid] in Hpk. rewrite Hpk.
        assert (Hk : kids h i = map tid done ++ k :: map tid rest').
        { unfold kids. rewrite Hg. exact Hc. }
        assert (Hknot : ~ In k (map tid done)).
        { intro Fk. apply tids_incl in Fk. destruct (Hdone k Fk) as [_ N']. apply N'. apply in_or_app. auto. }
        destruct (replace_child_spec h i k [] (length (map tid done))) as (h1 & Hrc1 & Gp & Gc & Gn & Go).
        { rewrite Hk. apply index_of_app_notin. exact Hknot. }
        { auto. } { simpl. auto. } { simpl. auto. }
        unfold remove_child. rewrite Hrc1.
        destruct (IH done h1 (wk (map tid done ++ map tid rest') nd)) as (h' & E & R & Fr).
        * rewrite Gp, Hg. cbn [option_map]. rewrite Hk, splice_app. reflexivity.
        * exact Hp.
        * reflexivity.
        * intro Hcls. cbn in Hcls. destruct (Ht Hcls) as [E _]. discriminate.
        * rewrite Forall_forall in *. intros d Hd. apply repr_frame with (h := h); auto.
          intros j Hj. assert (Hjd : In j (flat_map ids done)) by (apply in_flat_map; eauto).
          destruct (Hdone j Hjd) as [A1 A2]. apply Go; auto.
          intro E. subst j. apply A2. apply in_or_app. auto.
        * rewrite Forall_forall in *. intros d Hd. apply repr_frame with (h := h); auto.
          intros j Hj. assert (Hjr : In j (flat_map ids rest')) by (apply in_flat_map; eauto).
          apply Go; auto.
          -- intro E. subst j. contradiction.
          -- intro E. subst j. exact (Hdisj k Hkc Hjr).
        * exact Hnd'.
        * intros x Hx. destruct (Hdone x Hx) as [A1 A2]. split; auto.
          intro Fx. apply A2. apply in_or_app. auto.
        * exact Hsum'.
        * exists h'. split; [exact E|]. split.
          -- assert (EF : F (T k ks :: rest') = F rest').
             { unfold F. cbn [flat_map tid]. rewrite Hdk. reflexivity. }
             rewrite EF. exact R.
          -- intros j Hji Hjr. rewrite Fr; auto.
             ++ apply Go; auto. intro E'. subst j. apply Hjr. apply in_or_app. auto.
             ++ intro Fj. apply Hjr. apply in_or_app. auto.
      + (* the child is kept and filtered recursively *)
        destruct (Hok h (Some i) (T k ks) Hrc Hnd_c Hdk Hsz) as (h1 & E1 & R1 & Fr1).
        cbn [tid] in E1. rewrite E1.
        destruct (IH (done ++ [tfilter drop (T k ks)]) h1 nd) as (h' & E & R & Fr).
        * rewrite Fr1; auto.
        * exact Hp.
        * rewrite Hc, map_app, <- app_assoc. reflexivity.
        * intro Hcls. destruct (Ht Hcls) as [E _]. discriminate.
        * apply Forall_app. split.
          -- rewrite Forall_forall in *. intros d Hd. apply repr_frame with (h := h); auto.
             intros j Hj. assert (Hjd : In j (flat_map ids done)) by (apply in_flat_map; eauto).
             destruct (Hdone j Hjd) as [A1 A2]. apply Fr1.
             intro Fj. apply A2. apply in_or_app. auto.
          -- constructor; [exact R1 | constructor].
        * rewrite Forall_forall in *. intros d Hd. apply repr_frame with (h := h); auto.
          intros j Hj. assert (Hjr : In j (flat_map ids rest')) by (apply in_flat_map; eauto).
          apply Fr1. intro Fj. exact (Hdisj j Fj Hjr).
        * exact Hnd'.
        * intros x Hx. rewrite flat_map_app in Hx. apply in_app_or in Hx. destruct Hx as [Hx|Hx].
          -- destruct (Hdone x Hx) as [A1 A2]. split; auto. intro Fx. apply A2. apply in_or_app. auto.
          -- cbn [flat_map] in Hx. rewrite app_nil_r in Hx. apply tfilter_incl in Hx. split.
             ++ intro E'. subst x. contradiction.
             ++ exact (Hdisj x Hx).
        * exact Hsum'.
        * exists h'. split; [exact E|]. split.
          -- assert (EF : F (T k ks :: rest') = tfilter drop (T k ks) :: F rest').
             { unfold F. cbn [flat_map tid]. rewrite Hdk. reflexivity. }
             rewrite EF. rewrite <- app_assoc in R. exact R.
          -- intros j Hji Hjr. rewrite Fr; auto.
             ++ apply Fr1. intro Fj. apply Hjr. apply in_or_app. auto.
             ++ intro Fj. apply Hjr. apply in_or_app. auto.
  Qed.

  Lemma hfilter_repr : forall f, filter_ok f.
  Proof.
    induction f as [|f IHf]; intros h q s Hr Hnd Hd Hsz.
    - destruct s; simpl in Hsz; lia.
    - destruct s as [i ts]. cbn [tid] in *. rewrite hfilter_S, Hd.
      pose proof (repr_kids _ _ _ _ Hr) as Hk.
      apply repr_inv in Hr. destruct Hr as (nd & Hg & Hp & Hc & Ht & Hf).
      destruct (floop_inv f i q IHf ts [] h nd) as (h' & E & R & Fr).
      + exact Hg.
      + exact Hp.
      + exact Hc.
      + intro Hcls. split; auto.
      + constructor.
      + exact Hf.
      + exact Hnd.
      + intros x Hx. destruct Hx.
      + change (tsize (T i ts)) with (S (list_sum (map tsize ts))) in Hsz. lia.
      + exists h'. rewrite Hk. split; [exact E|]. split; [exact R|].
        intros j Hj. apply Fr.
        * intro E'. subst j. apply Hj. simpl. auto.
        * intro Fj. apply Hj. simpl. auto.
  Qed.
End Filter.

Lemma tsize_le_heap : forall h q s, repr h q s -> NoDup (ids s) -> tsize s <= length h.
Proof.
  intros h q s Hr Hnd. rewrite tsize_ids. rewrite <- (map_length fst h).
  apply NoDup_incl_length; auto.
  intros j Hj. destruct (repr_get _ _ _ _ Hr Hj) as [nd Hg]. eapply get_In_keys; eauto.
Qed.

(* _filter_tree on a tree of the heap whose root is not marked: never raises, the heap then represents the
   filtered tree, nothing outside the tree is touched *)
Lemma hfilter_tree : forall drop h q s,
  repr h q s -> NoDup (ids s) -> drop (tid s) = false ->
  exists h', hfilter (S (length h)) drop h (tid s) = Ok h' /\ repr h' q (tfilter drop s) /\
             NoDup (ids (tfilter drop s)) /\ incl (ids (tfilter drop s)) (ids s) /\
             (forall j, ~ In j (ids s) -> get h' j = get h j).
Proof.
  intros drop h q s Hr Hnd Hd.
  destruct (hfilter_repr drop (S (length h)) h q s Hr Hnd Hd) as (h' & E & R & Fr).
  - pose proof (tsize_le_heap _ _ _ Hr Hnd). lia.
  - exists h'. split; auto. split; auto. split; [apply tfilter_NoDup; auto|]. split; [apply tfilter_incl|auto].
Qed.

(* ================================================================ 4. copy, with what a forest of trees needs *)
Definition stable (h h' : heap) : Prop := forall j nd, get h j = Some nd -> get h' j = Some nd.

Lemma repr_stable : forall h h' p t, stable h h' -> repr h p t -> repr h' p t.
Proof.
  intros h h' p t Hs Hr. apply repr_frame with (h := h); auto.
  intros j Hj. destruct (repr_get _ _ _ _ Hr Hj) as [nd Hg]. rewrite Hg. apply Hs. exact Hg.
Qed.

Lemma repr_new_disj : forall h p u (l : list N), repr h p u -> (forall j, In j l -> get h j = None) -> disj (ids u) l.
Proof.
  intros h p u l Hr Hn j Hj Fj. destruct (repr_get _ _ _ _ Hr Hj) as [nd Hg]. rewrite (Hn j Fj) in Hg. discriminate.
Qed.

(* copy(): old cells untouched; the copy is a detached proper tree made of cells that did not exist *)
Lemma copy_repr_gen : forall h t n s, repr h None t -> NoDup (ids t) -> t_find n t = Some s ->
  exists h' k, copy h n = Some (h', k) /\ stable h h' /\ k = fresh h /\
    exists s', s' = t_map (ren (ids s) k) s /\
               tid s' = k /\ repr h' None s' /\ NoDup (ids s') /\ (forall j, In j (ids s') -> get h j = None).
Proof.
  intros h t n s Hr Hnd Hfs.
  destruct (t_find_repr _ _ _ _ _ Hr Hfs) as [q Hrs].
  destruct (t_find_some _ _ _ Hfs) as [Ets _].
  pose proof (t_find_NoDup _ _ _ Hnd Hfs) as Hnds.
  pose proof (repr_root_par _ _ _ Hrs) as Hq. rewrite Ets in Hq.
  pose proof (build_complete _ _ _ Hrs Hnds) as Hb. rewrite Ets in Hb.
  exists (copy_cells h (ids s) (fresh h) n), (fresh h).
  split.
  { unfold copy. rewrite Hb, (nodupb_true _ Hnds), Hq, (checkp_true _ _ _ Hrs). reflexivity. }
  set (l := ids s). set (h' := copy_cells h l (fresh h) n). set (r := ren l (fresh h)).
  split.
  { intros j nd Hg. unfold h'. rewrite (copy_cells_get_old h l n j nd Hg). exact Hg. }
  split; [reflexivity|].
  exists (t_map r s). split; [reflexivity|]. destruct s as [n' ts]. simpl in Ets. subst n'.
  assert (Hnl : In n l) by (unfold l; simpl; auto).
  assert (Hrn : r n = fresh h).
  { unfold r, ren, l. simpl. rewrite N.eqb_refl. simpl. lia. }
  split; [rewrite tid_t_map; exact Hrn|]. split; [|split].
  - pose proof (repr_kids _ _ _ _ Hrs) as Hk.
    apply repr_inv in Hrs. destruct Hrs as (nd & Hg & Hpar & Hcd & Htx & Hf).
    rewrite Forall_forall in Hf. simpl in Hnds. apply NoDup_cons_iff in Hnds. destruct Hnds as [Hn0 _].
    simpl. eapply repr_T with (nd := ccell h l (fresh h) n n).
    + apply copy_cells_get_new; auto.
    + simpl. rewrite N.eqb_refl. reflexivity.
    + simpl. rewrite Hk, !map_map. apply map_ext. intros. rewrite tid_t_map. reflexivity.
    + simpl. intro Hc. unfold clsof in Hc. rewrite Hg in Hc. rewrite (Htx Hc). reflexivity.
    + rewrite Forall_forall. intros x' Hx'. apply in_map_iff in Hx'. destruct Hx' as (x & <- & Hx).
      apply copy_sub; auto.
      * intros j Hj. unfold l. simpl. right. apply in_flat_map. eauto.
      * intro F. apply Hn0. apply in_flat_map. eauto.
  - rewrite ids_t_map. apply NoDup_map_inj_in; auto.
    intros a b Ha Hb'. apply ren_inj; auto.
  - intros j Hj. rewrite ids_t_map in Hj. apply in_map_iff in Hj. destruct Hj as (i & E & Hi).
    destruct (get h j) as [nd|] eqn:Hg; [|reflexivity]. exfalso.
    pose proof (fresh_gt _ _ _ Hg). pose proof (ren_ge l (fresh h) i Hi). unfold r in E. lia.
Qed.

Lemma unroot_root : forall k d, unroot k d k = false.
Proof. intros. unfold unroot. rewrite N.eqb_refl. reflexivity. Qed.

(* copy + _filter_tree of the copy: the document and every other tree of the heap stay what they are, the
   filtered copy is a new detached proper tree disjoint from all of them *)
Lemma copy_filter_step : forall d h t B sB,
  repr h None t -> NoDup (ids t) -> t_find B t = Some sB ->
  exists h1 k h1' u,
    copy h B = Some (h1, k) /\ hfilter (S (length h1)) (unroot k d) h1 k = Ok h1' /\
    u = tfilter (unroot k d) (t_map (ren (ids sB) k) sB) /\
    tid u = k /\ repr h1' None u /\ NoDup (ids u) /\
    (forall j, In j (ids u) -> get h j = None) /\
    (forall p x, repr h p x -> repr h1' p x).
Proof.
  intros d h t B sB Hr Hnd Hfs.
  destruct (copy_repr_gen h t B sB Hr Hnd Hfs) as (h1 & k & Hc & Hst & _ & u0 & Eu0 & Eu & Ru & Nu & Newu).
  assert (Hd0 : unroot k d (tid u0) = false) by (rewrite Eu; apply unroot_root).
  destruct (hfilter_tree (unroot k d) h1 None u0 Ru Nu Hd0) as (h1' & Hf & Rf & Nf & If & Fr).
  rewrite Eu in Hf.
  exists h1, k, h1', (tfilter (unroot k d) u0).
  split; [exact Hc|]. split; [exact Hf|]. split; [rewrite Eu0; reflexivity|]. split; [rewrite tid_tfilter; exact Eu|].
  split; [exact Rf|]. split; [exact Nf|]. split.
  - intros j Hj. apply Newu. apply If. exact Hj.
  - intros p x Hx. apply repr_frame with (h := h1).
    + intros j Hj. apply Fr. intro Fj. destruct (repr_get _ _ _ _ Hx Hj) as [nd Hg].
      rewrite (Newu j Fj) in Hg. discriminate.
    + eapply repr_stable; eauto.
Qed.

(* ================================================================ 5. the whole repair *)
Lemma repr_par_eq : forall h h' t q, repr h q t -> repr h' q t -> forall n, In n (ids t) -> par h n = par h' n.
Proof.
  intros h h'. induction t as [i ts IH] using tree_ind'. intros q H1 H2 n Hn.
  simpl in Hn. destruct Hn as [<-|Hn].
  - pose proof (repr_root_par _ _ _ H1) as A1. pose proof (repr_root_par _ _ _ H2) as A2.
    cbn [tid] in A1, A2. rewrite A1, A2. reflexivity.
  - apply in_flat_map in Hn. destruct Hn as (x & Hx & Hn). rewrite Forall_forall in IH.
    apply (IH x Hx (Some i)); auto; eapply repr_child; eauto.
Qed.

Lemma three_disj_cnt : forall (a b c : list N), NoDup a -> NoDup b -> NoDup c ->
  disj a b -> disj a c -> disj b c -> NoDup (a ++ b ++ c ++ []).
Proof.
  intros a b c Na Nb Nc Dab Dac Dbc. apply NoDup_cnt. intro x. rewrite !cnt_app, cnt_nil.
  pose proof (disj_cnt _ _ Na Nb Dab x). pose proof (disj_cnt _ _ Na Nc Dac x). pose proof (disj_cnt _ _ Nb Nc Dbc x).
  lia.
Qed.

(* the specification of one repair at the level of trees: the heap afterwards represents the document in which the
   subtree sB of the bad parent is replaced by  top copy, first child of the middle copy, bottom copy  (filtered renamed
   copies of sB); after an exception it still represents the unchanged document *)
Theorem repair_spec : forall d1 d2 d3 h r t B sB,
  tid t = r -> repr h None t -> NoDup (ids t) -> t_find B t = Some sB ->
  match repair d1 d2 d3 h B with
  | ROk h' => exists k1 k2 k3 sm rest,
      tkids (fcopy sB k2 d2) = sm :: rest /\
      repr h' None (t_replace B [fcopy sB k1 d1; sm; fcopy sB k3 d3] t) /\
      NoDup (ids (t_replace B [fcopy sB k1 d1; sm; fcopy sB k3 d3] t))
  | RIndexError h' => repr h' None t /\ exists k2, tkids (fcopy sB k2 d2) = []
  | RNoParent h' => repr h' None t /\ par h B = None
  | RErr => False
  end.
Proof.
  intros d1 d2 d3 h r t B sB Er Hr Hnd Hfs.
  assert (HB : In B (ids t)).
  { destruct (t_find_some _ _ _ Hfs) as [Ets _]. apply (t_find_incl _ _ _ Hfs). rewrite <- Ets. apply tid_in_ids. }
  (* top copy *)
  destruct (copy_filter_step d1 h t B sB Hr Hnd Hfs) as (h1 & k1 & h1' & u1 & Hc1 & Hf1 & Du1 & Eu1 & Ru1 & Nu1 & New1 & T1).
  unfold repair. rewrite Hc1, Hf1.
  pose proof (T1 _ _ Hr) as Hr1.
  (* middle copy *)
  destruct (copy_filter_step d2 h1' t B sB Hr1 Hnd Hfs) as (h2 & k2 & h2' & u2 & Hc2 & Hf2 & Du2 & Eu2 & Ru2 & Nu2 & New2 & T2).
  rewrite Hc2, Hf2.
  pose proof (T2 _ _ Hr1) as Hr2. pose proof (T2 _ _ Ru1) as Ru1_2.
  destruct u2 as [k2' ts2]. cbn [tid] in Eu2. subst k2'.
  rewrite (repr_kids _ _ _ _ Ru2).
  destruct ts2 as [|[m ks] ts2'].
  { split; [exact Hr2|]. exists k2. unfold fcopy. rewrite <- Du2. reflexivity. }
  cbn [map tid]. set (sm := T m ks) in *.
  assert (Rsm2 : repr h2' (Some k2) sm) by (eapply repr_child; [exact Ru2 | simpl; auto]).
  (* bottom copy *)
  destruct (copy_filter_step d3 h2' t B sB Hr2 Hnd Hfs) as (h3 & k3 & h3' & u3 & Hc3 & Hf3 & Du3 & Eu3 & Ru3 & Nu3 & New3 & T3).
  rewrite Hc3, Hf3.
  pose proof (T3 _ _ Hr2) as Hr3. pose proof (T3 _ _ Ru1_2) as Ru1_3. pose proof (T3 _ _ Rsm2) as Rsm3.
  pose proof (repr_par_eq _ _ _ _ Hr Hr3 B HB) as Epar.
  destruct (par h3' B) as [P|] eqn:HP3; [|split; [exact Hr3 | exact Epar]].
  (* disjointness *)
  assert (Hsm_u2 : incl (ids sm) (ids (T k2 (sm :: ts2')))).
  { intros j Hj. change (ids (T k2 (sm :: ts2'))) with (k2 :: ids sm ++ flat_map ids ts2').
    right. apply in_or_app. left. exact Hj. }
  assert (Dt1 : disj (ids t) (ids u1)) by exact (repr_new_disj _ _ _ _ Hr New1).
  assert (Dt2 : disj (ids t) (ids sm)).
  { intros j Hj Fj. exact (repr_new_disj _ _ _ _ Hr1 New2 j Hj (Hsm_u2 j Fj)). }
  assert (Dt3 : disj (ids t) (ids u3)) by exact (repr_new_disj _ _ _ _ Hr2 New3).
  assert (D12 : disj (ids u1) (ids sm)).
  { intros j Hj Fj. exact (repr_new_disj _ _ _ _ Ru1 New2 j Hj (Hsm_u2 j Fj)). }
  assert (D13 : disj (ids u1) (ids u3)) by exact (repr_new_disj _ _ _ _ Ru1_2 New3).
  assert (D23 : disj (ids sm) (ids u3)).
  { intros j Hj Fj. exact (repr_new_disj _ _ _ _ Ru2 New3 j (Hsm_u2 j Hj) Fj). }
  (* the three new trees are proper and pairwise disjoint *)
  assert (Nsm : NoDup (ids sm)).
  { change (ids (T k2 (sm :: ts2'))) with (k2 :: ids sm ++ flat_map ids ts2') in Nu2.
    destruct (nodup_split3 _ _ _ Nu2) as (_ & _ & A & _). exact A. }
  assert (Nns : NoDup (flat_map ids [u1; sm; u3])).
  { cbn [flat_map]. apply three_disj_cnt; auto. }
  assert (Dtn : disj (ids t) (flat_map ids [u1; sm; u3])).
  { intros j Hj Fj. cbn [flat_map] in Fj. rewrite app_nil_r in Fj.
    apply in_app_or in Fj. destruct Fj as [Fj|Fj]; [exact (Dt1 j Hj Fj)|].
    apply in_app_or in Fj. destruct Fj as [Fj|Fj]; [exact (Dt2 j Hj Fj) | exact (Dt3 j Hj Fj)]. }
  (* the bad parent and its parent in the final heap *)
  assert (HBr : B <> tid t).
  { intro E. pose proof (repr_root_par _ _ _ Hr3) as A. rewrite <- E in A. congruence. }
  destruct (repr_par_in _ _ _ B Hr3 HB HBr) as (pn & Hpn & HPt & HBk).
  assert (Epn : pn = P) by congruence.
  subst pn.
  assert (Hm_sm : In m (ids sm)) by (unfold sm; simpl; auto).
  assert (Hm_t : ~ In m (ids t)) by (intro Fm; exact (Dt2 m Fm Hm_sm)).
  assert (Hm_1 : ~ In m (ids u1)) by (intro Fm; exact (D12 m Fm Hm_sm)).
  assert (Hm_3 : ~ In m (ids u3)) by (intro Fm; exact (D23 m Hm_sm Fm)).
  assert (HPm : P <> m) by (intro E; rewrite E in HPt; exact (Hm_t HPt)).
  assert (HBm : B <> m) by (intro E; rewrite E in HB; exact (Hm_t HB)).
  assert (Hk1 : In k1 (ids u1)) by (rewrite <- Eu1; apply tid_in_ids).
  assert (Hk3 : In k3 (ids u3)) by (rewrite <- Eu3; apply tid_in_ids).
  (* middle_tree.children[0] still has its parent link to the (garbage) middle copy; replace_child overwrites
     it.  Detour through the heap hB in which that link is None (the API lemma wants detached new children);
     replace_child yields cell-wise the same heap from both. *)
  set (hB := set_parent h3' m None).
  assert (GB : forall j, j <> m -> get hB j = get h3' j).
  { intros j Hj. unfold hB. rewrite get_set_parent. destruct (N.eqb_spec j m); [contradiction|reflexivity]. }
  assert (GBm : get hB m = option_map (wp None) (get h3' m)).
  { unfold hB. rewrite get_set_parent, N.eqb_refl. reflexivity. }
  assert (FB : forall p x, ~ In m (ids x) -> repr h3' p x -> repr hB p x).
  { intros p x Hx Hrx. apply repr_frame with (h := h3'); auto.
    intros j Hj. apply GB. intro E. subst j. contradiction. }
  assert (RtB : repr hB None t) by (apply FB; auto).
  assert (R1B : repr hB None u1) by (apply FB; auto).
  assert (R3B : repr hB None u3) by (apply FB; auto).
  assert (RsB : repr hB None sm).
  { unfold sm. eapply repr_reroot with (h := h3') (q := Some k2); [exact Rsm3 | exact GBm |].
    intros j Hj. apply GB. intro E. subst j. unfold sm in Nsm. simpl in Nsm. inversion Nsm; contradiction. }
  assert (HkB : kids hB P = kids h3' P) by (unfold kids; rewrite GB; auto).
  assert (HBkB : In B (kids hB P)) by (rewrite HkB; exact HBk).
  destruct (replace_child_repr hB t P B [u1; sm; u3] RtB Hnd HPt HBkB) as (hB' & HrcB & RtB' & NtB' & _).
  { repeat constructor; auto. }
  { exact Nns. }
  { exact Dtn. }
  cbn [map] in HrcB. rewrite Eu1, Eu3 in HrcB. change (tid sm) with m in HrcB.
  destruct (child_setup _ _ _ _ Hr3 Hnd HPt HBk) as (s0 & idx & Hidx & _ & _ & _ & _ & _ & _ & HPB & _).
  assert (HPn : ~ In P [k1; m; k3]).
  { intro Fp. simpl in Fp. destruct Fp as [Fp|[Fp|[Fp|[]]]].
    - rewrite <- Fp in HPt. exact (Dt1 _ HPt Hk1).
    - exact (HPm (eq_sym Fp)).
    - rewrite <- Fp in HPt. exact (Dt3 _ HPt Hk3). }
  assert (HBn : ~ In B [k1; m; k3]).
  { intro Fp. simpl in Fp. destruct Fp as [Fp|[Fp|[Fp|[]]]].
    - rewrite <- Fp in HB. exact (Dt1 _ HB Hk1).
    - exact (HBm (eq_sym Fp)).
    - rewrite <- Fp in HB. exact (Dt3 _ HB Hk3). }
  destruct (replace_child_spec h3' P B [k1; m; k3] idx Hidx HPB HPn HBn) as (hA' & HrcA & GpA & GcA & GnA & GoA).
  assert (HidxB : index_of B (kids hB P) = Some idx) by (rewrite HkB; exact Hidx).
  destruct (replace_child_spec hB P B [k1; m; k3] idx HidxB HPB HPn HBn) as (hB'' & HrcB2 & GpB & GcB & GnB & GoB).
  assert (EhB : hB'' = hB') by congruence. subst hB''.
  rewrite HrcA.
  assert (Hext : forall j, get hA' j = get hB' j).
  { intro j. destruct (N.eq_dec j P) as [->|HjP].
    - rewrite GpA, GpB, HkB, (GB P HPm). reflexivity.
    - destruct (N.eq_dec j B) as [->|HjB].
      + rewrite GcA, GcB, (GB B HBm). reflexivity.
      + destruct (in_dec N.eq_dec j [k1; m; k3]) as [Hin|Hnin].
        * rewrite (GnA j Hin), (GnB j Hin). destruct (N.eq_dec j m) as [->|Hjm].
          -- rewrite GBm, wp_wp. reflexivity.
          -- rewrite (GB j Hjm). reflexivity.
        * rewrite (GoA j HjP HjB Hnin), (GoB j HjP HjB Hnin). symmetry. apply GB.
          intro E. subst j. apply Hnin. simpl. auto. }
  exists k1, k2, k3, sm, ts2'. unfold fcopy. rewrite <- Du1, <- Du2, <- Du3.
  split; [reflexivity|]. split.
  - apply repr_frame with (h := hB'); auto.
  - exact NtB'.
Qed.

Theorem repair_preserves_WF : forall d1 d2 d3 h r t B,
  tid t = r -> repr h None t -> NoDup (ids t) -> In B (ids t) ->
  match repair d1 d2 d3 h B with
  | ROk h' => WF h' r
  | RIndexError h' => WF h' r
  | RNoParent h' => WF h' r /\ par h B = None
  | RErr => False
  end.
Proof.
  intros d1 d2 d3 h r t B Er Hr Hnd HB.
  destruct (t_find_ex _ _ HB) as [sB Hfs].
  pose proof (repair_spec d1 d2 d3 h r t B sB Er Hr Hnd Hfs) as H.
  destruct (repair d1 d2 d3 h B) as [h'|h'|h'|]; auto.
  - destruct H as (k1 & k2 & k3 & sm & rest & _ & R & Nd).
    exists (t_replace B [fcopy sB k1 d1; sm; fcopy sB k3 d3] t). rewrite tid_t_replace. auto.
  - destruct H as [R _]. exists t. auto.
  - destruct H as [R E]. split; auto. exists t. auto.
Qed.

(* ================================================================ 6. any number of repairs *)
(* one iteration of `while self._fix_nesting(node)` that repairs something: SOME node B of the document that has
   a parent is split, under SOME marking (whatever _nesting_broken / _mark_nodes compute) *)
Definition repair_step (r : N) (h h' : heap) : Prop :=
  exists d1 d2 d3 t B, tid t = r /\ repr h None t /\ NoDup (ids t) /\ In B (ids t) /\
                       repair d1 d2 d3 h B = ROk h'.

Inductive repair_steps (r : N) : heap -> heap -> Prop :=
| rs_refl : forall h, repair_steps r h h
| rs_step : forall h h1 h2, repair_step r h h1 -> repair_steps r h1 h2 -> repair_steps r h h2.

Lemma repair_step_WF : forall r h h', repair_step r h h' -> WF h' r.
Proof.
  intros r h h' (d1 & d2 & d3 & t & B & Er & Hr & Hnd & HB & E).
  pose proof (repair_preserves_WF d1 d2 d3 h r t B Er Hr Hnd HB) as H. rewrite E in H. exact H.
Qed.

Theorem repair_steps_WF : forall r h h', WF h r -> repair_steps r h h' -> WF h' r.
Proof.
  intros r h h' Hwf Hs. induction Hs as [h|h h1 h2 H1 _ IH]; auto. apply IH. eapply repair_step_WF; eauto.
Qed.

(* ... and when the LAST repair raises (the catch-all of TreeCleaner.clean then hands the tree on) *)
Theorem repair_steps_then_raise_WF : forall r h h1 d1 d2 d3 t B h',
  WF h r -> repair_steps r h h1 ->
  tid t = r -> repr h1 None t -> NoDup (ids t) -> In B (ids t) ->
  (repair d1 d2 d3 h1 B = RIndexError h' \/ repair d1 d2 d3 h1 B = RNoParent h') -> WF h' r.
Proof.
  intros r h h1 d1 d2 d3 t B h' _ _ Er Hr Hnd HB E.
  pose proof (repair_preserves_WF d1 d2 d3 h1 r t B Er Hr Hnd HB) as H.
  destruct E as [E|E]; rewrite E in H; [exact H | exact (proj1 H)].
Qed.

(* ================================================================ 7. a concrete run *)
(* Article 1 [ PreFormatted 2 [ Text 3 "5", ImageLink 4, Text 5 "6" ] ]: marks 3 = top, 4 = problem, 5 = bottom;
   the copies get the identities 6-9, 10-13, 14-17 (preorder) *)
Definition hx : heap :=
  [(1, mkNode 20 None [2] []); (2, mkNode 32 (Some 1) [3; 4; 5] []); (3, mkNode 1 (Some 2) [] [5]);
   (4, mkNode 28 (Some 2) [] []); (5, mkNode 1 (Some 2) [] [6])]%N.
Definition dx1 (j : N) : bool := N.eqb j 8 || N.eqb j 9.       (* problem, bottom in the first copy *)
Definition dx2 (j : N) : bool := N.eqb j 11 || N.eqb j 13.     (* top, bottom in the second copy *)
Definition dx3 (j : N) : bool := N.eqb j 15 || N.eqb j 16.     (* top, problem in the third copy *)

Lemma repair_example :
  C05.Heap.WF hx 1 /\ par hx 2 = Some 1%N /\
  exists h', repair dx1 dx2 dx3 hx 2 = ROk h' /\ kids h' 1 = [6; 12; 14]%N /\ kids h' 6 = [7]%N /\
             kids h' 14 = [17]%N /\ par h' 12 = Some 1%N /\ wfb h' 1 = true /\ words h' 1 = words hx 1.
Proof.
  split; [apply ProofsWf.wfb_spec; vm_compute; reflexivity|]. split; [reflexivity|].
  eexists. vm_compute. repeat split.
Qed.

(* everything marked in the middle copy: middle_tree.children[0] raises IndexError *)
Lemma repair_index_error_example :
  exists h', repair dx1 (fun _ => true) dx3 hx 2 = RIndexError h' /\ wfb h' 1 = true /\ kids h' 1 = [2]%N.
Proof. eexists. vm_compute. repeat split. Qed.

(* the root is the bad parent: AttributeError, the document is untouched *)
Lemma repair_no_parent_example :
  exists h', repair (fun _ => false) (fun _ => false) (fun _ => false) hx 1 = RNoParent h' /\ wfb h' 1 = true /\
             words h' 1 = words hx 1.
Proof. eexists. vm_compute. repeat split. Qed.
