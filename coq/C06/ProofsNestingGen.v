(* C06/C07 — the tables of the fix_nesting model ARE the tables of /repo's TreeCleaner.__init__:
   C06/Gen_nesting.v is regenerated from mwlib/parser/treecleaner.py on every run (vt/gen/c06_nesting.py);
   this file stops compiling when forbidden_parents / outside_parents_invisible change in the source. *)
From Coq Require Import List NArith Bool.
From MW Require Import C05.Heap C06.ModelNesting C06.Gen_nesting.
Import ListNotations.

(* the lookup the model performs, on an arbitrary table *)
Definition forb_of (tbl : list (N * list N)) (child parent : N) : bool :=
  existsb (fun e => N.eqb (fst e) child && memb parent (snd e)) tbl.

Lemma forbidden_parents_generated : forbidden_parents = gen_forbidden_parents.
Proof. vm_compute. reflexivity. Qed.

Lemma gen_tables_agree :
  forbidden_parents = gen_forbidden_parents /\
  (forall c p, forb_real c p = forb_of gen_forbidden_parents c p) /\
  (forall k, invis_real k = memb k gen_invisible).
Proof.
  split; [exact forbidden_parents_generated|]. split.
  - intros c p. unfold forb_real, forb_of. rewrite forbidden_parents_generated. reflexivity.
  - intro k. unfold invis_real.
    change gen_invisible with [c_Table; c_Section; c_Reference]. simpl memb.
    rewrite orb_false_r, orb_assoc. reflexivity.
Qed.
