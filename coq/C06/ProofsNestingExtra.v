(* C06/C07 — fix_nesting: concrete runs of the model (C06/ModelNesting.v) with the REAL tables
   forbidden_parents / outside_parents_invisible (treecleaner.py:236-257), closed by vm_compute:
   non-vacuity of the theorems of C06/ProofsNesting.v and the witness against structural `==`. *)
From Coq Require Import List NArith Bool Arith.
From MW Require Import C05.Heap C05.TreeOps C06.ModelNesting.
From MW Require C05.ProofsApi C06.ProofsNesting.
Import ListNotations.
Open Scope N_scope.

Definition nd (i k : N) (w : list N) (ts : list ltree) : ltree := L (mkLab i k false w) ts.
Definition ndx (i k : N) (w : list N) (ts : list ltree) : ltree := L (mkLab i k true w) ts.

(* <code>x <pre>a</pre> z <pre>a</pre> y</code> : Code[Text x, Pre[Text a], Text z, Pre[Text a], Text y];
   words: x=101 a=102 z=103 y=104 *)
Definition t_code : ltree :=
  nd 1 c_Article []
     [nd 2 c_Code [] [nd 3 c_Text [101] []; nd 4 c_PreFormatted [] [nd 5 c_Text [102] []];
                      nd 6 c_Text [103] []; nd 7 c_PreFormatted [] [nd 8 c_Text [102] []];
                      nd 9 c_Text [104] []]].

(* Node.__eq__ in _mark_nodes: ONE iteration of the loop loses the second <pre>a</pre> (marked "problem"
   like the first one, filtered from the bottom copy too); with identity nothing is lost *)
Theorem fix_nesting_structural_eq_refuted :
  exists t, NoDup (lids t) /\ leafwords t = true /\
    (exists t', nest_step forb_real invis_real eq_struct t = NMoved t' /\
                lwords t = [101; 102; 103; 102; 104] /\ lwords t' = [101; 102; 103; 104]) /\
    (exists t', nest_step forb_real invis_real eq_id t = NMoved t' /\ lwords t' = lwords t).
Proof.
  exists t_code. split; [apply ProofsApi.nodupb_NoDup; vm_compute; reflexivity|].
  split; [vm_compute; reflexivity|]. split.
  - eexists. split; [vm_compute; reflexivity|]. split; vm_compute; reflexivity.
  - eexists. split; [vm_compute; reflexivity|]. vm_compute. reflexivity.
Qed.

(* ... and the whole loop with the structural test ends with the word gone *)
Example fix_nesting_structural_eq_loop :
  exists t', fix_nesting forb_real invis_real eq_struct 10 t_code = NDone t' /\
             lwords t' = [101; 102; 103; 104].
Proof. eexists. split; vm_compute; reflexivity. Qed.

(* Article[Pre[Text, Strong[Text, Paragraph[ImageLink[Text], Text], Text], Text]]: the Paragraph is two
   levels below the bad parent (k = 2: the spliced middle tree is the copy of Strong holding only the
   Paragraph); the ImageLink leaves the Pre with it: 2 pairs -> 0 in one iteration *)
Definition t_deep : ltree :=
  nd 1 c_Article []
     [nd 2 c_PreFormatted []
         [nd 3 c_Text [1] [];
          nd 4 c_Strong [] [nd 5 c_Text [2] [];
                            nd 6 c_Paragraph [] [nd 7 c_ImageLink [] [nd 8 c_Text [3] []]; nd 9 c_Text [4] []];
                            nd 10 c_Text [5] []];
          nd 11 c_Text [6] []]].

Example fix_nesting_example :
  NoDup (lids t_deep) /\ leafwords t_deep = true /\ nest_fuel forb_real invis_real t_deep = 3%nat /\
  exists t', fix_nesting forb_real invis_real eq_id (nest_fuel forb_real invis_real t_deep) t_deep = NDone t' /\
             lwords t' = [1; 2; 3; 4; 5; 6] /\ nest_ok forb_real invis_real [] t' = true /\
             map lcls (lkids t') = [c_PreFormatted; c_Strong; c_PreFormatted] /\
             npairs forb_real invis_real [] t' = 0%nat.
Proof.
  split; [apply ProofsApi.nodupb_NoDup; vm_compute; reflexivity|].
  split; [vm_compute; reflexivity|]. split; [vm_compute; reflexivity|].
  eexists. split; [vm_compute; reflexivity|]. repeat split; vm_compute; reflexivity.
Qed.

(* several iterations: a definition list holding a table and a gallery, inside a paragraph *)
Definition t_multi : ltree :=
  nd 1 c_Article []
     [nd 2 c_Paragraph []
         [nd 3 c_Text [1] [];
          nd 4 c_DefinitionList []
             [nd 5 c_DefinitionDescription []
                 [nd 6 c_Text [2] []; nd 7 c_Gallery [] [nd 8 c_ImageLink [] []]; nd 9 c_Text [3] []];
              nd 10 c_DefinitionDescription [] [nd 11 c_Table [] [nd 12 c_Row [] [nd 13 c_Cell [] [nd 14 c_Text [4] []]]]]];
          nd 15 c_Text [5] []]].

Example fix_nesting_example_multi :
  NoDup (lids t_multi) /\ npairs forb_real invis_real [] t_multi = 5%nat /\
  exists t', fix_nesting forb_real invis_real eq_id (nest_fuel forb_real invis_real t_multi) t_multi = NDone t' /\
             fix_nesting forb_real invis_real eq_id 3 t_multi = NOutOfFuel /\
             lwords t' = [1; 2; 3; 4; 5] /\ nest_ok forb_real invis_real [] t' = true /\
             ProofsApi.cnt 0 (lids t') = 0%nat /\ nodupb (lids t') = true.
Proof.
  split; [apply ProofsApi.nodupb_NoDup; vm_compute; reflexivity|]. split; [vm_compute; reflexivity|].
  eexists. split; [vm_compute; reflexivity|]. repeat split; vm_compute; reflexivity.
Qed.

(* an exception node (style="direction:..") shields its subtree: the broken Paragraph stays, the loop stops
   at once; nest_ok holds because it only speaks about nodes outside exception sub-trees *)
Definition t_exc : ltree :=
  nd 1 c_Article [] [ndx 2 c_PreFormatted [] [nd 3 c_Paragraph [] [nd 4 c_Text [1] []]]].
Example fix_nesting_exception_example :
  nest_step forb_real invis_real eq_id t_exc = NStop /\ npairs forb_real invis_real [] t_exc = 1%nat /\
  nest_ok forb_real invis_real [] t_exc = true.
Proof. repeat split; vm_compute; reflexivity. Qed.

(* a Table hides the outer PreFormatted from the Paragraph in its cell: not broken *)
Definition t_invis : ltree :=
  nd 1 c_Article [] [nd 2 c_PreFormatted [] [nd 3 c_Table [] [nd 4 c_Row [] [nd 5 c_Cell [] [nd 6 c_Paragraph [] []]]]]].
Example fix_nesting_invisible_example :
  nest_step forb_real invis_real eq_id t_invis = NStop /\ npairs forb_real invis_real [] t_invis = 0%nat.
Proof. repeat split; vm_compute; reflexivity. Qed.

(* the bad parent is the root: bad_parent.parent is None, `parent.replace_child` raises AttributeError *)
Definition t_root : ltree := nd 1 c_PreFormatted [] [nd 2 c_Paragraph [] [nd 3 c_Text [1] []]].
Example fix_nesting_root_raises_example :
  fix_nesting forb_real invis_real eq_id (nest_fuel forb_real invis_real t_root) t_root = NRaised.
Proof. vm_compute. reflexivity. Qed.

(* the heap reading: lt_of on a two-cell heap *)
Example lt_of_example :
  let h := [(1, mkNode c_Paragraph None [2] []); (2, mkNode c_Text (Some 1) [] [7; 8])] in
  lt_of h (fun _ => false) (T 1 [T 2 []]) = nd 1 c_Paragraph [] [nd 2 c_Text [7; 8] []].
Proof. vm_compute. reflexivity. Qed.
