(* C06 — the four navigation functions that compute the candidates of remove_breaking_returns
   (definitions only; lemmas in C06/ProofsNav.v).

   Real code (read line by line):
     advtree.py:189-193  get_all_siblings : `if self.parent: return self.parent.children` else []
     advtree.py:199-209  get_previous     : idx = _id_index(siblings, self) (ValueError -> None);
                                            idx-1 < 0 -> None else siblings[idx-1]
     advtree.py:211-221  get_next         : idx+1 >= len(siblings) -> None else siblings[idx+1]
     advtree.py:352-354  next = property(get_next); previous = property(get_previous)
     advtree.py:245-258  get_first_leaf(caller_is_self=True): a Section's first child is its caption, so
                         it descends into children[1] (None when the Section has exactly 1 child)
     advtree.py:260-266  get_last_leaf(caller_is_self=True): AS WRITTEN it calls
                         `self.children[-1].get_first_leaf(caller_is_self=False)`, i.e. the FIRST leaf of
                         the last child, not the last leaf
     treecleaner.py:698-704  _get_next ; treecleaner.py:706-712  _get_prev
     treecleaner.py:73-76    try_remove_node: no-op when node.parent is None (Model.br_cands)
     treecleaner.py:722-738  the `while changed` loop (Model.br_loop)

   Python truthiness: neither Node nor Token nor AdvancedNode defines __bool__/__len__
   (grep over mwlib/parser: only mwscan.py:73 `__len__` of the unrelated token list class and
   templ/evaluate.pyx:80), so `node.next or node.parent`, `if self.parent:`, `while node:` test
   "is not None" - a childless node is still truthy.  (Checked on the running code:
   bool(Text('')) == bool(Paragraph()) == True.)

   is_block_node (a class attribute) and "get_all_display_text().strip() is empty" are abstract boolean
   functions of (heap, node): nothing proved below depends on them.

   The recursions of _get_next/_get_prev/get_first_leaf carry explicit fuel; NFuel = fuel exhausted.
   ProofsNavFuel.nav_fuel_ok: on a proper tree, fuel S (length h) always suffices. *)
From Coq Require Import List NArith Bool Arith.
From MW Require Import C05.Heap C05.TreeOps C06.Model.
Import ListNotations.

Inductive nav := NFuel | NRes (o : option N).

(* get_all_siblings *)
Definition siblings (h : heap) (n : N) : list N :=
  match par h n with Some p => kids h p | None => [] end.

(* get_next / get_previous (identity search by _id_index = index_of) *)
Definition get_next (h : heap) (n : N) : option N :=
  match index_of n (siblings h n) with
  | None => None                                       (* ValueError caught *)
  | Some k => nth_error (siblings h n) (S k)           (* None when k+1 >= len *)
  end.

Definition get_previous (h : heap) (n : N) : option N :=
  match index_of n (siblings h n) with
  | None => None
  | Some O => None                                     (* idx - 1 < 0 *)
  | Some (S k) => nth_error (siblings h n) k
  end.

(* get_first_leaf *)
Fixpoint first_leaf (fuel : nat) (h : heap) (caller_is_self : bool) (n : N) : nav :=
  match fuel with
  | O => NFuel
  | S f =>
      match kids h n with
      | [] => NRes (if caller_is_self then None else Some n)
      | c0 :: rest =>
          if N.eqb (clsof h n) c_Section
          then match rest with
               | [] => NRes None                        (* len(children) == 1 *)
               | c1 :: _ => first_leaf f h false c1
               end
          else first_leaf f h false c0
      end
  end.

(* get_last_leaf, as written: FIRST leaf of the last child *)
Definition last_leaf (fuel : nat) (h : heap) (n : N) : nav :=
  match last_opt (kids h n) with
  | None => NRes None                                   (* no children, caller_is_self *)
  | Some c => first_leaf fuel h false c
  end.

Section Nav.
  Variable is_block : heap -> N -> bool.                (* node.is_block_node *)
  Variable blank : heap -> N -> bool.                   (* not node.get_all_display_text().strip() *)

  Definition skip (h : heap) (x : N) : bool := negb (is_block h x) && blank h x.

  (* _get_next *)
  Fixpoint get_next_skip (fuel : nat) (h : heap) (n : N) : nav :=
    match fuel with
    | O => NFuel
    | S f =>
        match get_next h n, par h n with
        | None, None => NRes None                       (* not (node.next or node.parent) *)
        | nx, pa =>
            let next_node := match nx with
                             | Some x => Some x
                             | None => match pa with Some p => get_next h p | None => None end
                             end in
            match next_node with
            | None => NRes None
            | Some x => if skip h x then get_next_skip f h x else NRes (Some x)
            end
        end
    end.

  (* _get_prev *)
  Fixpoint get_prev_skip (fuel : nat) (h : heap) (n : N) : nav :=
    match fuel with
    | O => NFuel
    | S f =>
        let prev := match get_previous h n with Some x => Some x | None => par h n end in
        match prev with
        | None => NRes None                             (* not (node.previous or node.parent) *)
        | Some x => if skip h x then get_prev_skip f h x else NRes (Some x)
        end
    end.

  Definition nav_fuel (h : heap) : nat := S (length h).

  Definition nav_list (h : heap) (n : N) : list nav :=
    [first_leaf (nav_fuel h) h true n; last_leaf (nav_fuel h) h n;
     get_next_skip (nav_fuel h) h n; get_prev_skip (nav_fuel h) h n].

  Definition nav_nodes (l : list nav) : list N :=
    flat_map (fun r => match r with NRes (Some c) => [c] | _ => [] end) l.

  (* check_node of remove_breaking_returns; a None entry has __class__ NoneType, never BreakingReturn,
     so dropping the Nones does not change the loop *)
  Definition cand_real (h : heap) (n : N) : list N := nav_nodes (nav_list h n).
End Nav.

(* the parent chain of n: n, n.parent, n.parent.parent, ... *)
Inductive upchain (h : heap) (n : N) : N -> Prop :=
| up_refl : upchain h n n
| up_step : forall a b, upchain h n a -> par h a = Some b -> upchain h n b.

(* no node on the parent chain of n (n included) is a BreakingReturn.  In the real code n itself is a
   block node (the loop is guarded by `if node.is_block_node`, BreakingReturn.is_block_node is False). *)
Definition chain_no_br (h : heap) (n : N) : Prop :=
  forall a, upchain h n a -> clsof h a <> c_BR.

(* BreakingReturn nodes are childless and carry no words *)
Definition br_leaf (h : heap) : Prop :=
  forall c, clsof h c = c_BR -> textof h c = [] /\ kids h c = [].
