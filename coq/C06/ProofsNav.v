(* C06 — the candidates of remove_breaking_returns computed by the REAL navigation functions
   (C06/ModelNav.v) satisfy the hypothesis of Proofs.C06_breaking_returns_terminates on a proper tree
   whose root is no BreakingReturn; the loop with these candidates terminates when no node on the parent
   chain of the start node is a BreakingReturn; without that it can spin forever (refuted by a run). *)
From Coq Require Import List NArith Bool Arith Lia.
From MW Require Import C05.Heap C05.TreeOps C06.Model C06.ModelNav C07.Proofs C06.Proofs.
From MW Require C05.ProofsApi C05.ProofsWf.
Import ListNotations.

(* ================================================================ 1. every candidate is a tree node *)
Lemma par_in_tree : forall h t n p, repr h None t -> In n (ids t) -> par h n = Some p ->
  In p (ids t) /\ In n (kids h p).
Proof.
  intros h t n p Hr Hn Hp. destruct (N.eq_dec n (tid t)) as [E|E].
  - subst n. rewrite (repr_root_par _ _ _ Hr) in Hp. discriminate.
  - destruct (tree_parent _ _ _ _ Hr Hn E) as (p' & P1 & P2 & P3).
    rewrite Hp in P1. inversion P1; subst p'. auto.
Qed.

Lemma siblings_in : forall h t n x, repr h None t -> In n (ids t) -> In x (siblings h n) ->
  In x (ids t).
Proof.
  intros h t n x Hr Hn Hx. unfold siblings in Hx. destruct (par h n) as [p|] eqn:Hp; [|contradiction].
  destruct (par_in_tree _ _ _ _ Hr Hn Hp) as [Hpt _]. eapply kids_in_ids; eassumption.
Qed.

Lemma get_next_sib : forall h n x, get_next h n = Some x -> In x (siblings h n).
Proof.
  intros h n x H. unfold get_next in H. destruct (index_of n (siblings h n)); [|discriminate].
  eapply nth_error_In; eassumption.
Qed.

Lemma get_previous_sib : forall h n x, get_previous h n = Some x -> In x (siblings h n).
Proof.
  intros h n x H. unfold get_previous in H. destruct (index_of n (siblings h n)) as [[|k]|]; try discriminate.
  eapply nth_error_In; eassumption.
Qed.

Lemma get_next_in : forall h t n x, repr h None t -> In n (ids t) -> get_next h n = Some x -> In x (ids t).
Proof. intros h t n x Hr Hn H. eapply siblings_in; eauto using get_next_sib. Qed.

Lemma get_previous_in : forall h t n x, repr h None t -> In n (ids t) -> get_previous h n = Some x ->
  In x (ids t).
Proof. intros h t n x Hr Hn H. eapply siblings_in; eauto using get_previous_sib. Qed.

Lemma first_leaf_in : forall h t, repr h None t -> forall f self n c,
  In n (ids t) -> first_leaf f h self n = NRes (Some c) -> In c (ids t).
Proof.
  intros h t Hr. induction f as [|f IH]; intros self n c Hn H; [discriminate|].
  simpl in H. destruct (kids h n) as [|c0 rest] eqn:Hk.
  - destruct self; inversion H; subst. exact Hn.
  - assert (K : forall x, In x (c0 :: rest) -> In x (ids t)).
    { intros x Hx. rewrite <- Hk in Hx. eapply kids_in_ids; eassumption. }
    destruct (N.eqb (clsof h n) c_Section).
    + destruct rest as [|c1 rest']; [discriminate|].
      eapply IH; [|exact H]. apply K. right. left. reflexivity.
    + eapply IH; [|exact H]. apply K. left. reflexivity.
Qed.

Lemma last_opt_in {A} : forall (l : list A) x, last_opt l = Some x -> In x l.
Proof.
  intros l x H. destruct (last_opt_spec _ _ H) as [ks ->]. apply in_or_app. right. left. reflexivity.
Qed.

Lemma last_leaf_in : forall h t f n c, repr h None t ->
  In n (ids t) -> last_leaf f h n = NRes (Some c) -> In c (ids t).
Proof.
  intros h t f n c Hr Hn H. unfold last_leaf in H.
  destruct (last_opt (kids h n)) as [l|] eqn:L; [|discriminate].
  eapply first_leaf_in; [exact Hr| |exact H].
  eapply kids_in_ids; [exact Hr|exact Hn|]. apply last_opt_in. exact L.
Qed.

Section NavIn.
  Variable is_block blank : heap -> N -> bool.

  Lemma get_next_skip_in : forall h t, repr h None t -> forall f n c,
    In n (ids t) -> get_next_skip is_block blank f h n = NRes (Some c) -> In c (ids t).
  Proof.
    intros h t Hr. induction f as [|f IH]; intros n c Hn H; [discriminate|].
    simpl in H.
    assert (K : forall x,
      match get_next h n with
      | Some x => Some x
      | None => match par h n with Some p => get_next h p | None => None end
      end = Some x -> In x (ids t)).
    { intros x Hx. destruct (get_next h n) as [y|] eqn:G.
      - inversion Hx; subst y. eapply get_next_in; eassumption.
      - destruct (par h n) as [p|] eqn:Hp; [|discriminate].
        destruct (par_in_tree _ _ _ _ Hr Hn Hp) as [Hpt _]. eapply get_next_in; eassumption. }
    destruct (get_next h n) as [y|] eqn:G.
    - specialize (K y eq_refl). destruct (skip is_block blank h y).
      + eapply IH; eassumption.
      + inversion H; subst. exact K.
    - destruct (par h n) as [p|] eqn:Hp; [|discriminate].
      destruct (get_next h p) as [y|] eqn:G2; [|discriminate].
      specialize (K y eq_refl). destruct (skip is_block blank h y).
      + eapply IH; eassumption.
      + inversion H; subst. exact K.
  Qed.

  Lemma get_prev_skip_in : forall h t, repr h None t -> forall f n c,
    In n (ids t) -> get_prev_skip is_block blank f h n = NRes (Some c) -> In c (ids t).
  Proof.
    intros h t Hr. induction f as [|f IH]; intros n c Hn H; [discriminate|].
    simpl in H.
    destruct (get_previous h n) as [y|] eqn:G.
    - assert (K : In y (ids t)) by (eapply get_previous_in; eassumption).
      destruct (skip is_block blank h y).
      + eapply IH; eassumption.
      + inversion H; subst. exact K.
    - destruct (par h n) as [p|] eqn:Hp; [|discriminate].
      destruct (par_in_tree _ _ _ _ Hr Hn Hp) as [K _].
      destruct (skip is_block blank h p).
      + eapply IH; eassumption.
      + inversion H; subst. exact K.
  Qed.

  (* all four candidates are nodes of the tree *)
  Lemma cand_real_in_tree : forall h t n c, repr h None t -> In n (ids t) ->
    In c (cand_real is_block blank h n) -> In c (ids t).
  Proof.
    intros h t n c Hr Hn Hc. unfold cand_real, nav_nodes, nav_list in Hc.
    apply in_flat_map in Hc. destruct Hc as (res & Hres & Hc).
    destruct res as [|[c'|]]; try contradiction. destruct Hc as [->|[]].
    destruct Hres as [E|[E|[E|[E|[]]]]].
    - eapply first_leaf_in; [exact Hr | exact Hn | exact E].
    - eapply last_leaf_in; [exact Hr | exact Hn | exact E].
    - eapply get_next_skip_in; [exact Hr | exact Hn | exact E].
    - eapply get_prev_skip_in; [exact Hr | exact Hn | exact E].
  Qed.

  (* THE HYPOTHESIS of Proofs.C06_breaking_returns_terminates, for the real candidates, at every start
     node of the tree; weakest precondition on the heap: the root is no BreakingReturn
     (see cand_root_br_refuted: with a BreakingReturn root, _get_prev of its first child IS the root). *)
  Theorem cand_real_attached : forall h r n c, WF h r ->
    (forall t, tid t = r -> repr h None t -> In n (ids t)) -> clsof h r <> c_BR ->
    In c (cand_real is_block blank h n) ->
    (forall t, tid t = r -> repr h None t -> In c (ids t)) /\ (clsof h c = c_BR -> c <> r).
  Proof.
    intros h r n c Hwf Hn Hroot Hc. split.
    - intros t Ht Hr. eapply cand_real_in_tree; [exact Hr | apply Hn; assumption | exact Hc].
    - intros Hcls E. subst c. contradiction.
  Qed.
End NavIn.

(* ================================================================ 2. the parent chain and removals *)
Lemma par_set_kids : forall h i l x, par (set_kids h i l) x = par h x.
Proof.
  intros h i l x. unfold set_kids. destruct (get h i) as [nd|] eqn:E; [|reflexivity].
  unfold par, set. simpl. destruct (N.eqb x i) eqn:Ex; [|reflexivity].
  apply N.eqb_eq in Ex. subst x. rewrite E. reflexivity.
Qed.

Lemma par_set_parent_other : forall h i q x, x <> i -> par (set_parent h i q) x = par h x.
Proof. intros h i q x Hn. unfold par. rewrite get_set_parent_other by exact Hn. reflexivity. Qed.

Lemma kids_set_parent : forall h i q x, kids (set_parent h i q) x = kids h x.
Proof.
  intros h i q x. unfold set_parent. destruct (get h i) as [nd|] eqn:E; [|reflexivity].
  unfold kids, set. simpl. destruct (N.eqb x i) eqn:Ex; [|reflexivity].
  apply N.eqb_eq in Ex. subst x. rewrite E. reflexivity.
Qed.

Lemma kids_set_kids_other : forall h i l x, x <> i -> kids (set_kids h i l) x = kids h x.
Proof. intros h i l x Hn. unfold kids. rewrite get_set_kids_other by exact Hn. reflexivity. Qed.

Lemma par_remove_child : forall h p c h1 x, remove_child h p c = Ok h1 -> x <> c ->
  par h1 x = par h x.
Proof.
  intros h p c h1 x H Hn. unfold remove_child, replace_child in H.
  destruct (index_of c (kids h p)); [|discriminate]. inversion H; subst h1. simpl.
  rewrite par_set_parent_other by exact Hn. apply par_set_kids.
Qed.

Lemma kids_remove_child_other : forall h p c h1 x, remove_child h p c = Ok h1 -> x <> p ->
  kids h1 x = kids h x.
Proof.
  intros h p c h1 x H Hn. unfold remove_child, replace_child in H.
  destruct (index_of c (kids h p)); [|discriminate]. inversion H; subst h1. simpl.
  rewrite kids_set_parent. apply kids_set_kids_other. exact Hn.
Qed.

Lemma upchain_of_subtree : forall h s q n, repr h q s -> In n (ids s) -> upchain h n (tid s).
Proof.
  intros h s. induction s as [i ts IH] using tree_ind'. intros q n Hr Hn.
  apply repr_inv in Hr. destruct Hr as (nd & Hg & Hp & Hch & _ & Hf).
  rewrite ids_eq in Hn. destruct Hn as [->|Hn]; [apply up_refl|].
  unfold idsl in Hn. apply in_flat_map in Hn. destruct Hn as (x & Hx & Hnx).
  rewrite Forall_forall in IH, Hf.
  apply up_step with (a := tid x).
  - eapply IH; eauto.
  - apply (repr_root_par h (Some i) x). apply Hf. exact Hx.
Qed.

Lemma upchain_remove : forall h p c h1 n, remove_child h p c = Ok h1 -> clsof h c = c_BR ->
  chain_no_br h n -> forall a, upchain h1 n a -> upchain h n a.
Proof.
  intros h p c h1 n Hrm Hc Hch a Hu. induction Hu as [|a b Hu IH Hp]; [apply up_refl|].
  apply up_step with (a := a); [exact IH|].
  rewrite <- Hp. symmetry. eapply par_remove_child; [exact Hrm|].
  intro E. subst a. apply (Hch c IH). exact Hc.
Qed.

Lemma chain_no_br_remove : forall h p c h1 n, remove_child h p c = Ok h1 -> clsof h c = c_BR ->
  chain_no_br h n -> chain_no_br h1 n.
Proof.
  intros h p c h1 n Hrm Hc Hch a Hu.
  destruct (same_tc_remove_child _ _ _ _ Hrm a) as [_ E]. rewrite E.
  apply Hch. eapply upchain_remove; eassumption.
Qed.

Lemma words_leaf : forall h n, kids h n = [] -> textof h n = [] -> words h n = [].
Proof.
  intros h n Hk Ht. unfold words. rewrite ProofsApi.build_S. unfold kids in Hk.
  destruct (get h n) as [nd|] eqn:E; [|reflexivity].
  rewrite Hk. cbn [map_opt words_t flat_map]. rewrite Ht. reflexivity.
Qed.

(* one successful try_remove_node(c) with c.parent = p: what it does to the represented tree *)
Lemma remove_step2 : forall h t p c h1,
  repr h None t -> NoDup (ids t) -> par h c = Some p -> remove_child h p c = Ok h1 ->
  exists t1, repr h1 None t1 /\ NoDup (ids t1) /\ tid t1 = tid t /\
             incl (ids t1) (ids t) /\ (In c (ids t) -> ~ In c (ids t1)) /\
             (forall x, In x (ids t) -> ~ upchain h x c -> In x (ids t1)) /\
             (words h c = [] -> words_t h t1 = words_t h t).
Proof.
  intros h t p c h1 Hr Hnd Hp Hrm.
  destruct (in_dec N.eq_dec c (ids t)) as [Hc|Hc].
  - assert (Hne : c <> tid t).
    { intro K. subst c. rewrite (repr_root_par _ _ _ Hr) in Hp. discriminate. }
    destruct (tree_parent _ _ _ _ Hr Hc Hne) as (p' & P1 & P2 & P3).
    rewrite Hp in P1. inversion P1; subst p'.
    destruct (ProofsApi.remove_child_repr h t p c Hr Hnd P2 P3) as (h' & R1 & R2 & R3 & R4).
    rewrite Hrm in R1. inversion R1; subst h'.
    destruct (t_find c t) as [s|] eqn:F; [|exfalso; apply (t_find_none_inv _ _ F Hc)].
    destruct (t_find_some _ _ _ F) as [Hs _].
    destruct (ProofsApi.t_find_repr h c t None s Hr F) as [q' Hrs].
    pose proof (ProofsApi.t_find_NoDup c t s Hnd F) as Hnds.
    destruct (ids_remove_block t c s Hnd Hne F) as (A & B & E1 & E2).
    exists (t_replace c [] t). split; [exact R2|]. split; [exact R3|].
    split; [apply tid_replace|]. split; [apply ids_replace_nil_incl|].
    split; [|split].
    + intros _. destruct (R4 s eq_refl) as [_ D]. intro K. apply (D _ K).
      rewrite <- Hs. apply tid_in_ids.
    + intros x Hx Hup. rewrite E2. rewrite E1 in Hx.
      apply in_app_or in Hx. destruct Hx as [Hx|Hx]; [apply in_or_app; left; exact Hx|].
      apply in_app_or in Hx. destruct Hx as [Hx|Hx]; [|apply in_or_app; right; exact Hx].
      exfalso. apply Hup. rewrite <- Hs. eapply upchain_of_subtree; eassumption.
    + intros Hw. unfold words in Hw. rewrite <- Hs in Hw.
      rewrite (ProofsApi.build_complete h q' s Hrs Hnds) in Hw.
      rewrite !words_t_ids, E1, E2, !flat_map_app. rewrite words_t_ids in Hw. rewrite Hw.
      reflexivity.
  - destruct (remove_child_frame_get _ _ _ _ Hrm) as [Hck Hfr].
    assert (Hpn : ~ In p (ids t)).
    { intro K. apply Hc. eapply kids_in_ids; eassumption. }
    exists t. split.
    + eapply repr_frame; [exact Hr|]. intros i Hi. apply Hfr; intro K; subst i; contradiction.
    + split; [exact Hnd|]. split; [reflexivity|]. split; [apply incl_refl|].
      split; [intros K; contradiction|]. split; [intros x Hx _; exact Hx | reflexivity].
Qed.

(* ================================================================ 3. the loop with the real candidates *)
Lemma br_cands_inv2 : forall cs h t changed n,
  repr h None t -> NoDup (ids t) -> In n (ids t) -> chain_no_br h n ->
  (changed = false -> forall c, In c cs -> clsof h c = c_BR -> In c (ids t) /\ c <> tid t) ->
  match br_cands h changed cs with
  | PRaised => True
  | POk h' ch' =>
      exists t', repr h' None t' /\ NoDup (ids t') /\ tid t' = tid t /\ same_tc h h' /\
                 In n (ids t') /\ chain_no_br h' n /\
                 count_cls h c_BR t' <= count_cls h c_BR t /\
                 (changed = false -> ch' = true -> count_cls h c_BR t' < count_cls h c_BR t)
  end.
Proof.
  induction cs as [|c cs IH]; intros h t changed n Hr Hnd Hn Hch Hcs.
  - simpl. exists t. split; [exact Hr|]. split; [exact Hnd|]. split; [reflexivity|].
    split; [apply same_tc_refl|]. split; [exact Hn|]. split; [exact Hch|].
    split; [lia|]. intros -> K. discriminate.
  - simpl. destruct (N.eqb (clsof h c) c_BR) eqn:E.
    + apply N.eqb_eq in E.
      destruct (par h c) as [p|] eqn:Hp.
      * destruct (remove_child h p c) as [h1|] eqn:Hrm; [|exact I].
        destruct (remove_step2 h t p c h1 Hr Hnd Hp Hrm) as (t1 & R1 & R2 & R3 & R4 & R5 & R6 & _).
        pose proof (same_tc_remove_child _ _ _ _ Hrm) as S1.
        assert (Hn1 : In n (ids t1)).
        { apply R6; [exact Hn|]. intro K. apply (Hch c K). exact E. }
        pose proof (chain_no_br_remove _ _ _ _ n Hrm E Hch) as Hch1.
        specialize (IH h1 t1 true n R1 R2 Hn1 Hch1).
        destruct (br_cands h1 true cs) as [|h' ch']; [exact I|].
        destruct IH as (t' & Q1 & Q2 & Q3 & Q4 & Q5 & Q6 & Q7 & _); [intros K; discriminate|].
        rewrite !(count_cls_same_tc h h1) in Q7 by exact S1.
        pose proof (count_le h c_BR t1 t R4 R2) as Le.
        exists t'. split; [exact Q1|]. split; [exact Q2|]. split; [congruence|].
        split; [eapply same_tc_trans; eassumption|]. split; [exact Q5|]. split; [exact Q6|].
        split; [lia|].
        intros Hc' _. destruct (Hcs Hc' c (or_introl eq_refl) E) as [Hc _].
        pose proof (count_lt h c_BR t1 t c R4 R2 Hc (R5 Hc) E). lia.
      * destruct changed.
        -- specialize (IH h t true n Hr Hnd Hn Hch).
           destruct (br_cands h true cs) as [|h' ch']; [exact I|].
           destruct IH as (t' & Q1 & Q2 & Q3 & Q4 & Q5 & Q6 & Q7 & _); [intros K; discriminate|].
           exists t'. repeat (split; [assumption|]). intros K. discriminate.
        -- exfalso. destruct (Hcs eq_refl c (or_introl eq_refl) E) as [Hc Hne].
           destruct (tree_parent _ _ _ _ Hr Hc Hne) as (p' & P1 & _). congruence.
    + specialize (IH h t changed n Hr Hnd Hn Hch).
      destruct (br_cands h changed cs) as [|h' ch']; [exact I|].
      apply IH. intros Hc' c' Hin. apply Hcs; [exact Hc' | right; exact Hin].
Qed.

Section RealLoop.
  Variable is_block blank : heap -> N -> bool.
  Let cand := cand_real is_block blank.

  Lemma br_loop_real_gen : forall r n k h, WF h r ->
    (forall t, tid t = r -> repr h None t -> In n (ids t)) -> chain_no_br h n ->
    count_br h r < k ->
    br_loop cand k h n <> OutOfFuel /\ (forall h', br_loop cand k h n = Done h' -> WF h' r).
  Proof.
    intros r n. induction k as [|k IH]; intros h Hwf Hn Hch Hk; [lia|].
    destruct Hwf as (t & Ht & Hr & Hnd).
    pose proof (Hn t Ht Hr) as Hnt.
    simpl. unfold br_pass.
    pose proof (br_cands_inv2 (cand h n) h t false n Hr Hnd Hnt Hch) as Inv.
    destruct (br_cands h false (cand h n)) as [|h' ch'].
    - split; [discriminate|]. intros ? K. discriminate.
    - destruct Inv as (t' & Q1 & Q2 & Q3 & Q4 & Q5 & Q6 & Q7 & Q8).
      { intros _ c Hc Hcls. split.
        - eapply cand_real_in_tree; eassumption.
        - intro K. subst c. apply (Hch (tid t)); [|exact Hcls].
          eapply upchain_of_subtree; eassumption. }
      assert (Hwf' : WF h' r) by (exists t'; split; [congruence|]; split; assumption).
      destruct ch'.
      + apply IH; [exact Hwf' | | exact Q6 |].
        * intros t2 Ht2 Hr2.
          assert (t2 = t') by (eapply ProofsApi.repr_inj; [exact Hr2 | exact Q1 | congruence]).
          subst t2. exact Q5.
        * assert (E1 : count_br h' r = count_cls h c_BR t').
          { rewrite <- Ht, <- Q3, (count_br_eq h' t' Q1 Q2). apply count_cls_same_tc. exact Q4. }
          assert (E2 : count_br h r = count_cls h c_BR t).
          { rewrite <- Ht. apply count_br_eq; assumption. }
          specialize (Q8 eq_refl eq_refl). lia.
      + split; [discriminate|]. intros h'' K. inversion K; subst h''. exact Hwf'.
  Qed.

  (* remove_breaking_returns' `while changed` loop with the candidates computed by the real
     get_first_leaf / get_last_leaf / _get_next / _get_prev: terminates within (#BreakingReturn)+1
     iterations and keeps the tree proper, from every start node n of a proper tree such that no node
     on the parent chain of n (n and the root included) is a BreakingReturn. *)
  Theorem breaking_returns_terminates_real : forall h r n, WF h r ->
    (forall t, tid t = r -> repr h None t -> In n (ids t)) -> chain_no_br h n ->
    br_loop cand (S (count_br h r)) h n <> OutOfFuel /\
    (forall h', br_loop cand (S (count_br h r)) h n = Done h' -> WF h' r).
  Proof. intros h r n Hwf Hn Hch. apply br_loop_real_gen; auto. Qed.

  (* when BreakingReturns are childless (what the parser produces: <br/> is a leaf), the chain condition
     reduces to "the start node is no BreakingReturn" - which the real code guarantees by entering the loop
     only for block nodes *)
  Lemma chain_no_br_of_leaf : forall h t n, repr h None t -> In n (ids t) ->
    (forall c, clsof h c = c_BR -> kids h c = []) -> clsof h n <> c_BR -> chain_no_br h n.
  Proof.
    intros h t n Hr Hn Hleaf Hcn a Hu.
    assert (G : In a (ids t) /\ (a = n \/ kids h a <> [])).
    { induction Hu as [|a b Hu IH Hp]; [auto|]. destruct IH as [Ha _].
      destruct (par_in_tree _ _ _ _ Hr Ha Hp) as [Hb Hk]. split; [exact Hb|].
      right. intro K. rewrite K in Hk. contradiction. }
    destruct G as [_ [->|G]]; [exact Hcn|]. intro K. apply G. apply Hleaf. exact K.
  Qed.

  Theorem breaking_returns_terminates_real_leaf : forall h r n, WF h r ->
    (forall t, tid t = r -> repr h None t -> In n (ids t)) ->
    (forall c, clsof h c = c_BR -> kids h c = []) -> clsof h n <> c_BR ->
    br_loop cand (S (count_br h r)) h n <> OutOfFuel /\
    (forall h', br_loop cand (S (count_br h r)) h n = Done h' -> WF h' r).
  Proof.
    intros h r n Hwf Hn Hleaf Hcn. apply breaking_returns_terminates_real; auto.
    destruct Hwf as (t & Ht & Hr & Hnd). eapply chain_no_br_of_leaf; eauto.
  Qed.
End RealLoop.

(* ================================================================ 4. the preconditions are needed *)
Lemma br_spin : forall cand h n, br_pass cand h n = POk h true ->
  forall k, br_loop cand k h n = OutOfFuel.
Proof. intros cand h n H. induction k as [|k IH]; [reflexivity|]. simpl. rewrite H. exact IH. Qed.

Definition nb : heap -> N -> bool := fun _ _ => false.

(* BreakingReturn[ Div ] : _get_prev(Div) = Div.parent = the root, a BreakingReturn without parent:
   try_remove_node does nothing, `changed` is set, the real loop never ends. *)
Definition h_rootbr : heap :=
  [(1, mkNode 11 None [2] []); (2, mkNode 24 (Some 1) [] [])]%N.

Lemma cand_root_br_refuted :
  WF h_rootbr 1 /\ In 2%N (ids (T 1 [T 2 []]))%N /\ repr h_rootbr None (T 1 [T 2 []])%N /\
  In 1%N (cand_real nb nb h_rootbr 2) /\ clsof h_rootbr 1 = c_BR /\
  forall k, br_loop (cand_real nb nb) k h_rootbr 2 = OutOfFuel.
Proof.
  split; [apply ProofsWf.wfb_spec; vm_compute; reflexivity|].
  split; [vm_compute; auto|].
  split; [apply (ProofsWf.build_sound 3 h_rootbr 1%N); vm_compute; reflexivity|].
  split; [vm_compute; auto|]. split; [reflexivity|].
  apply br_spin. vm_compute. reflexivity.
Qed.

(* Article[ BreakingReturn[ Div ] ] : the root is fine, but _get_prev(Div) is the BreakingReturn ABOVE the
   start node; it is removed together with the start node, and from then on it is a BreakingReturn
   candidate without parent: the loop spins.  Hence chain_no_br in breaking_returns_terminates_real. *)
Definition h_above : heap :=
  [(1, mkNode 20 None [2] []); (2, mkNode 11 (Some 1) [3] []); (3, mkNode 24 (Some 2) [] [])]%N.
Definition h_above1 : heap :=
  match br_pass (cand_real nb nb) h_above 3 with POk h' _ => h' | PRaised => h_above end.

Lemma cand_detached_refuted :
  WF h_above 1 /\ clsof h_above 1 <> c_BR /\ In 3%N (ids (T 1 [T 2 [T 3 []]]))%N /\
  repr h_above None (T 1 [T 2 [T 3 []]])%N /\
  forall k, br_loop (cand_real nb nb) k h_above 3 = OutOfFuel.
Proof.
  split; [apply ProofsWf.wfb_spec; vm_compute; reflexivity|].
  split; [vm_compute; discriminate|]. split; [vm_compute; auto|].
  split; [apply (ProofsWf.build_sound 4 h_above 1%N); vm_compute; reflexivity|].
  assert (E : br_pass (cand_real nb nb) h_above 3 = POk h_above1 true) by (vm_compute; reflexivity).
  intros [|k]; [reflexivity|]. cbn [br_loop]. rewrite E. apply br_spin. vm_compute. reflexivity.
Qed.

(* non-vacuity of the positive theorem: Article[ Paragraph[BR, Text, BR], BR ] from the Paragraph *)
Definition h_ok : heap :=
  [(1, mkNode 20 None [2; 6] []); (2, mkNode 10 (Some 1) [3; 4; 5] []); (3, mkNode 11 (Some 2) [] []);
   (4, mkNode 1 (Some 2) [] [7]); (5, mkNode 11 (Some 2) [] []); (6, mkNode 11 (Some 1) [] [])]%N.

Lemma breaking_returns_real_example :
  WF h_ok 1 /\ (forall c, clsof h_ok c = c_BR -> kids h_ok c = []) /\ clsof h_ok 2 <> c_BR /\
  exists h', br_loop (cand_real nb nb) (S (count_br h_ok 1)) h_ok 2 = Done h' /\
             kids h' 1 = [2]%N /\ kids h' 2 = [4]%N /\ wfb h' 1 = true.
Proof.
  split; [apply ProofsWf.wfb_spec; vm_compute; reflexivity|].
  split.
  { intros c Hc. unfold kids, clsof in *. simpl in *.
    repeat match goal with
           | |- context [N.eqb c ?k] => destruct (N.eqb c k) eqn:?; simpl in *
           end; try reflexivity; try discriminate. }
  split; [vm_compute; discriminate|].
  eexists. vm_compute. repeat split.
Qed.
