(* C05/C06 — heap-level model of ONE repair of TreeCleaner._fix_nesting (treecleaner.py:877-899): the call
   sequence  copy / _filter_tree (remove_child ...) / copy / _filter_tree / children[0] / copy / _filter_tree /
   parent.replace_child(bad_parent, [top, middle, bottom])  replayed cell by cell on the node heap of
   C05/Heap.v (definitions only; lemmas in C06/ProofsNestingHeap.v).

     835-840  def _filter_tree(self, node, nesting_filter=[]):
                  if getattr(node, "nesting_pos", None) in nesting_filter:
                      node.parent.remove_child(node)           # node.parent None -> AttributeError
                      return
                  for child in node.children[:]:               # iteration over a COPY of the list
                      self._filter_tree(child, nesting_filter=nesting_filter)

   `drop i` = "the nesting_pos mark of node i is in nesting_filter".  The marks are attributes of the ORIGINAL
   nodes that copy.deepcopy carries over to the copies; here they are arbitrary predicates on the identities of
   the copies (so every marking is covered, in particular the one _mark_nodes computes).  The root of a copy
   is the copy of bad_parent, which carries no mark (_mark_nodes marks descendants only and _clean_up_marks
   removes all marks below bad_parent.parent after every repair): `unroot`. *)
From Coq Require Import List NArith Bool Arith.
From MW Require Import C05.Heap C05.TreeOps.
Import ListNotations.

(* for child in <snapshot l>: v(child) *)
Fixpoint floop (v : heap -> N -> res) (h : heap) (l : list N) : res :=
  match l with
  | [] => Ok h
  | c :: r => match v h c with Ok h1 => floop v h1 r | Err => Err end
  end.

(* _filter_tree; fuel bounds the recursion depth (Err when exhausted: excluded by the theorems) *)
Fixpoint hfilter (fuel : nat) (drop : N -> bool) (h : heap) (n : N) : res :=
  match fuel with
  | O => Err
  | S f => if drop n
           then match par h n with Some p => remove_child h p n | None => Err end
           else floop (hfilter f drop) h (kids h n)
  end.

(* what _filter_tree leaves of a tree whose root is not dropped *)
Fixpoint tfilter (drop : N -> bool) (t : tree) : tree :=
  let 'T i ts := t in T i (flat_map (fun c => if drop (tid c) then [] else [tfilter drop c]) ts).

Definition unroot (k : N) (d : N -> bool) : N -> bool := fun j => negb (N.eqb j k) && d j.

(* the tree a filtered deepcopy of the subtree s represents: s renamed to the fresh identities k, k+1, ... (preorder,
   Heap.v `ren`), then filtered *)
Definition fcopy (s : tree) (k : N) (d : N -> bool) : tree := tfilter (unroot k d) (t_map (ren (ids s) k) s).

(* outcome of one repair; the heap is the state in which the cleaner (or, after an exception, the catch-all of
   TreeCleaner.clean) goes on *)
Inductive rres :=
| ROk (h : heap)                (* normal return *)
| RIndexError (h : heap)        (* middle_tree.children[0] on an empty list *)
| RNoParent (h : heap)          (* bad_parent.parent is None: None.replace_child -> AttributeError *)
| RErr.                         (* any other exception / fuel: excluded by the theorem *)

(* treecleaner.py:877-899 with bad_parent = B;
   d1 = marks in ["bottom","problem"], d2 = marks in ["top","bottom"], d3 = marks in ["top","problem"] *)
Definition repair (d1 d2 d3 : N -> bool) (h : heap) (B : N) : rres :=
  match copy h B with
  | None => RErr
  | Some (h1, k1) =>
    match hfilter (S (length h1)) (unroot k1 d1) h1 k1 with
    | Err => RErr
    | Ok h1' =>
      match copy h1' B with
      | None => RErr
      | Some (h2, k2) =>
        match hfilter (S (length h2)) (unroot k2 d2) h2 k2 with
        | Err => RErr
        | Ok h2' =>
          match kids h2' k2 with
          | [] => RIndexError h2'
          | m :: _ =>
            match copy h2' B with
            | None => RErr
            | Some (h3, k3) =>
              match hfilter (S (length h3)) (unroot k3 d3) h3 k3 with
              | Err => RErr
              | Ok h3' =>
                match par h3' B with                              (* parent = bad_parent.parent *)
                | None => RNoParent h3'
                | Some P =>
                  match replace_child h3' P B [k1; m; k3] with    (* parent.replace_child(bad_parent, new_tree) *)
                  | Ok h' => ROk h'
                  | Err => RErr
                  end
                end
              end
            end
          end
        end
      end
    end
  end.
