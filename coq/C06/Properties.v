(* C06 — property theorems only (each closed by `exact`, followed by Print Assumptions).
   Static part: every attribute name the cleaner reads/calls exists (generated from /repo on every run).
   Termination part: the three fixed-point loops (fix_paragraphs, remove_breaking_returns with the real
   navigation functions, fix_nesting) with explicit measures, on the heap model (C05/Heap.v + C06/Model.v)
   resp. on labelled trees (C06/ModelNesting.v).  NOT proved: absence of exceptions other than missing
   attributes in the other passes - decided by the search (each pass called directly on the real tree under
   a time limit). *)
From Coq Require Import List String NArith Bool.
From MW Require Import C05.Heap C05.TreeOps C06.Model C06.ModelNesting.
From MW Require C06.Gen_api C06.ProofsGen C06.Proofs C06.ProofsExtra C07.Proofs.
From MW Require C06.ProofsNesting C06.ProofsNestingExtra C06.ModelNav C06.ProofsNav C06.ProofsNavFuel.
From MW Require C06.Gen_nesting C06.ProofsNestingGen.
From MW Require C06.ModelNestingHeap C06.ProofsNestingHeap C06.ProofsNestingLink.
Import ListNotations.

(* every attribute name used on a non-module receiver in treecleaner.py / treecleanerhelper.py is defined by
   the node classes, their mixins, Token, TreeCleaner, stored by the cleaner/parser, or is an attribute of a
   builtin type (fixed allow-list).  The four camelCase leftovers of the rename break exactly this. *)
Theorem C06_api_closed : incl Gen_api.used (Gen_api.defined ++ Gen_api.builtin).
Proof. exact ProofsGen.api_closed. Qed.
Print Assumptions C06_api_closed.

(* every name of the documented pass order is a method of TreeCleaner (clean() would `raise "..."`) *)
Theorem C06_cleaner_methods_exist : incl Gen_api.cleaner_methods Gen_api.tc_methods.
Proof. exact ProofsGen.cleaner_methods_exist. Qed.
Print Assumptions C06_cleaner_methods_exist.

Example C06_gen_nonempty : Gen_api.cleaner_methods <> [] /\ Gen_api.used <> [].
Proof. exact ProofsGen.cleaner_methods_nonempty. Qed.
Print Assumptions C06_gen_nonempty.

(* fix_paragraphs (treecleaner.py:747-769): on every proper tree the while loop stops within
   tsize^2 iterations (it returns, or raises on a childless Section), and a normal return leaves a
   proper tree without a Paragraph-behind-Section.  Measure: tsize^2 - (sum of node depths). *)
Theorem C06_fix_paragraphs_terminates : forall h r, WF h r ->
  fix_paragraphs (fp_fuel h r) h r <> OutOfFuel /\
  (forall h', fix_paragraphs (fp_fuel h r) h r = Done h' -> WF h' r /\ Proofs.no_trigger h' r).
Proof. exact Proofs.C06_fix_paragraphs_terminates. Qed.
Print Assumptions C06_fix_paragraphs_terminates.

Theorem C06_fix_paragraphs_measure : forall h t p s l,
  repr h None t -> NoDup (ids t) ->
  find_trig h None t = Some (p, s) -> last_opt (kids h s) = Some l ->
  exists h' t', move_to h p l false = Ok h' /\ repr h' None t' /\ NoDup (ids t') /\
                tid t' = tid t /\ fp_measure t' < fp_measure t.
Proof. exact Proofs.C06_fix_paragraphs_measure. Qed.
Print Assumptions C06_fix_paragraphs_measure.

(* ... and it does not raise when every Section of the tree has a child (its caption) *)
Theorem C06_fix_paragraphs_no_raise : forall h r, WF h r ->
  (forall t, tid t = r -> repr h None t ->
     forall i, In i (ids t) -> clsof h i = c_Section -> kids h i <> []) ->
  exists h', fix_paragraphs (fp_fuel h r) h r = Done h'.
Proof. exact Proofs.C06_fix_paragraphs_no_raise. Qed.
Print Assumptions C06_fix_paragraphs_no_raise.

Example C06_fix_paragraphs_example :
  WF ProofsExtra.hp 1 /\
  exists h', fix_paragraphs (fp_fuel ProofsExtra.hp 1) ProofsExtra.hp 1 = Done h' /\ kids h' 1 = [2]%N /\
             kids h' 2 = [3; 5]%N /\ wfb h' 1 = true /\ words h' 1 = words ProofsExtra.hp 1.
Proof. exact ProofsExtra.fix_paragraphs_example. Qed.
Print Assumptions C06_fix_paragraphs_example.

Example C06_fix_paragraphs_raises_example :
  WF ProofsExtra.hq 1 /\ fix_paragraphs (fp_fuel ProofsExtra.hq 1) ProofsExtra.hq 1 = Raised.
Proof. exact ProofsExtra.fix_paragraphs_raises_example. Qed.
Print Assumptions C06_fix_paragraphs_raises_example.

(* the `while changed` loop of remove_breaking_returns (treecleaner.py:720-745), for ANY way of computing
   the four candidates, provided a BreakingReturn candidate is an attached node of the document (true of
   first/last leaf, next/previous sibling-or-parent of a node of a proper tree whose root is no
   BreakingReturn): stops within (number of BreakingReturn nodes)+1 iterations and keeps the tree proper.
   Measure: number of BreakingReturn nodes of the tree.  (A BreakingReturn candidate WITHOUT parent would
   make the real loop spin forever: try_remove_node does nothing but `changed` is set.) *)
Theorem C06_breaking_returns_terminates : forall (cand : heap -> N -> list N) (r : N),
  (forall h node c, WF h r -> In c (cand h node) -> clsof h c = c_BR ->
     (forall t, tid t = r -> repr h None t -> In c (ids t)) /\ c <> r) ->
  forall h node, WF h r ->
  br_loop cand (S (count_br h r)) h node <> OutOfFuel /\
  (forall h', br_loop cand (S (count_br h r)) h node = Done h' -> WF h' r).
Proof. exact Proofs.C06_breaking_returns_terminates. Qed.
Print Assumptions C06_breaking_returns_terminates.

Example C06_breaking_returns_example :
  WF ProofsExtra.hb 1 /\ count_br ProofsExtra.hb 1 = 2 /\
  exists h', br_loop (fun h n => kids h n) (S (count_br ProofsExtra.hb 1)) ProofsExtra.hb 1 = Done h' /\
             kids h' 1 = [3]%N /\ wfb h' 1 = true.
Proof. exact ProofsExtra.breaking_returns_example. Qed.
Print Assumptions C06_breaking_returns_example.

Example C06_cand_hypothesis_satisfiable : forall r : N,
  forall h node c, WF h r -> In c ((fun (_ : heap) (_ : N) => @nil N) h node) -> clsof h c = c_BR ->
     (forall t, tid t = r -> repr h None t -> In c (ids t)) /\ c <> r.
Proof. exact ProofsExtra.cand_hyp_satisfiable. Qed.
Print Assumptions C06_cand_hypothesis_satisfiable.

(* fix_nesting (treecleaner.py:850-904): one structural fact about ONE iteration on the `tree` type of C05: the
   three trees made from the bad parent (top / the spliced middle child / bottom) together carry exactly the bad
   parent's words.  The full termination / postcondition / word results follow below (theorems C06_fix_nesting_terminates etc.). *)
Theorem C06_fix_nesting_partial : forall h path t,
  C07.Proofs.path_ok path t -> path <> [] -> C07.Proofs.own_text_empty h path (tid t) ->
  words_t h (C07.Proofs.split_top path t) ++ flat_map (words_t h) (tkids (C07.Proofs.split_mid path t))
    ++ words_t h (C07.Proofs.split_bot path t) = words_t h t.
Proof. exact C07.Proofs.words_split. Qed.
Print Assumptions C06_fix_nesting_partial.

(* ---- the candidates of remove_breaking_returns computed by the REAL navigation functions (C06/ModelNav.v:
   get_first_leaf incl. the Section special case, get_last_leaf as written, _get_next, _get_prev; is_block_node
   and "display text is blank" abstract).  On a proper tree whose root is no BreakingReturn every candidate of
   every start node n of the tree is a node of the tree, and a BreakingReturn candidate is not the root:
   the hypothesis of C06_breaking_returns_terminates holds at (h, n). *)
Theorem C06_cand_real_attached : forall is_block blank h r n c, WF h r ->
  (forall t, tid t = r -> repr h None t -> In n (ids t)) -> clsof h r <> c_BR ->
  In c (C06.ModelNav.cand_real is_block blank h n) ->
  (forall t, tid t = r -> repr h None t -> In c (ids t)) /\ (clsof h c = c_BR -> c <> r).
Proof. exact C06.ProofsNav.cand_real_attached. Qed.
Print Assumptions C06_cand_real_attached.

(* the loop with the real candidates terminates within (#BreakingReturn)+1 iterations and keeps the tree
   proper, from every start node n of the tree such that no node on the parent chain of n (n and the root
   included) is a BreakingReturn ... *)
Theorem C06_breaking_returns_terminates_real : forall is_block blank h r n, WF h r ->
  (forall t, tid t = r -> repr h None t -> In n (ids t)) -> C06.ModelNav.chain_no_br h n ->
  br_loop (C06.ModelNav.cand_real is_block blank) (S (count_br h r)) h n <> OutOfFuel /\
  (forall h', br_loop (C06.ModelNav.cand_real is_block blank) (S (count_br h r)) h n = Done h' -> WF h' r).
Proof. exact C06.ProofsNav.breaking_returns_terminates_real. Qed.
Print Assumptions C06_breaking_returns_terminates_real.

(* ... in particular when BreakingReturns are childless (<br/> is a leaf) and the start node is none (the real
   loop is guarded by node.is_block_node) *)
Theorem C06_breaking_returns_terminates_real_leaf : forall is_block blank h r n, WF h r ->
  (forall t, tid t = r -> repr h None t -> In n (ids t)) ->
  (forall c, clsof h c = c_BR -> kids h c = []) -> clsof h n <> c_BR ->
  br_loop (C06.ModelNav.cand_real is_block blank) (S (count_br h r)) h n <> OutOfFuel /\
  (forall h', br_loop (C06.ModelNav.cand_real is_block blank) (S (count_br h r)) h n = Done h' -> WF h' r).
Proof. exact C06.ProofsNav.breaking_returns_terminates_real_leaf. Qed.
Print Assumptions C06_breaking_returns_terminates_real_leaf.

(* REFUTED without the preconditions (model runs): BreakingReturn[Div]: _get_prev(Div) is the root, a
   BreakingReturn without parent - try_remove_node does nothing, `changed` is set, the loop never ends ... *)
Example C06_cand_root_br_refuted :
  WF C06.ProofsNav.h_rootbr 1 /\ In 2%N (ids (T 1 [T 2 []]))%N /\
  repr C06.ProofsNav.h_rootbr None (T 1 [T 2 []])%N /\
  In 1%N (C06.ModelNav.cand_real C06.ProofsNav.nb C06.ProofsNav.nb C06.ProofsNav.h_rootbr 2) /\
  clsof C06.ProofsNav.h_rootbr 1 = c_BR /\
  forall k, br_loop (C06.ModelNav.cand_real C06.ProofsNav.nb C06.ProofsNav.nb) k C06.ProofsNav.h_rootbr 2 = OutOfFuel.
Proof. exact C06.ProofsNav.cand_root_br_refuted. Qed.
Print Assumptions C06_cand_root_br_refuted.

(* ... and Article[BreakingReturn[Div]] (root fine): _get_prev(Div) is the BreakingReturn ABOVE the start node; it
   is removed with the start node inside and is from then on a parentless BreakingReturn candidate: the loop spins
   (needs a BreakingReturn WITH a block-node descendant, which the parser does not produce: <br> is a leaf) *)
Example C06_cand_detached_refuted :
  WF C06.ProofsNav.h_above 1 /\ clsof C06.ProofsNav.h_above 1 <> c_BR /\
  In 3%N (ids (T 1 [T 2 [T 3 []]]))%N /\ repr C06.ProofsNav.h_above None (T 1 [T 2 [T 3 []]])%N /\
  forall k, br_loop (C06.ModelNav.cand_real C06.ProofsNav.nb C06.ProofsNav.nb) k C06.ProofsNav.h_above 3 = OutOfFuel.
Proof. exact C06.ProofsNav.cand_detached_refuted. Qed.
Print Assumptions C06_cand_detached_refuted.

Example C06_breaking_returns_real_example :
  WF C06.ProofsNav.h_ok 1 /\ (forall c, clsof C06.ProofsNav.h_ok c = c_BR -> kids C06.ProofsNav.h_ok c = []) /\
  clsof C06.ProofsNav.h_ok 2 <> c_BR /\
  exists h', br_loop (C06.ModelNav.cand_real C06.ProofsNav.nb C06.ProofsNav.nb)
                     (S (count_br C06.ProofsNav.h_ok 1)) C06.ProofsNav.h_ok 2 = Done h' /\
             kids h' 1 = [2]%N /\ kids h' 2 = [4]%N /\ wfb h' 1 = true.
Proof. exact C06.ProofsNav.breaking_returns_real_example. Qed.
Print Assumptions C06_breaking_returns_real_example.

(* ---- fuel sufficiency of the navigation model (C06/ProofsNavFuel.v): on a proper tree and for a start node n
   of the tree, none of first_leaf / last_leaf / _get_next / _get_prev run with fuel S (length h) runs out of
   fuel (first_leaf: fuel > subtree size; _get_next/_get_prev: each step moves strictly later / earlier in the
   duplicate-free preorder list of the tree, which has at most length h elements) ... *)
Theorem C06_nav_fuel_ok : forall is_block blank h r n, WF h r ->
  (forall t, tid t = r -> repr h None t -> In n (ids t)) ->
  forall x, In x (C06.ModelNav.nav_list is_block blank h n) -> x <> C06.ModelNav.NFuel.
Proof. exact C06.ProofsNavFuel.nav_fuel_ok. Qed.
Print Assumptions C06_nav_fuel_ok.

(* ... so every navigation result is a genuine Python value (a node or None) and cand_real is exactly the list of
   the non-None results: the candidate model drops nothing because of fuel *)
Theorem C06_cand_real_faithful : forall is_block blank h r n, WF h r ->
  (forall t, tid t = r -> repr h None t -> In n (ids t)) ->
  (forall x, In x (C06.ModelNav.nav_list is_block blank h n) -> exists o, x = C06.ModelNav.NRes o) /\
  (forall c, In c (C06.ModelNav.cand_real is_block blank h n) <->
             In (C06.ModelNav.NRes (Some c)) (C06.ModelNav.nav_list is_block blank h n)).
Proof. exact C06.ProofsNavFuel.cand_real_faithful. Qed.
Print Assumptions C06_cand_real_faithful.

Example C06_nav_fuel_example :
  C06.ModelNav.nav_list C06.ProofsNav.nb C06.ProofsNav.nb C06.ProofsNav.h_ok 2 =
  [C06.ModelNav.NRes (Some 3%N); C06.ModelNav.NRes (Some 5%N); C06.ModelNav.NRes (Some 6%N);
   C06.ModelNav.NRes (Some 1%N)].
Proof. exact C06.ProofsNavFuel.nav_fuel_example. Qed.
Print Assumptions C06_nav_fuel_example.

(* ---- fix_nesting (treecleaner.py:850-904, "loose"), model C06/ModelNesting.v: labelled trees, identity-based
   marks (the behaviour since fix commit 09d8eb0 = /verif/fixes/C07-fix-nesting-identity.diff), ANY
   forbidden_parents table `forb` and ANY outside_parents_invisible set `invis`.  On every tree with distinct
   node identities the `while self._fix_nesting(node): pass` loop evaluates its condition at most
   (number of (node, forbidden visible ancestor) pairs) + 1 times: it returns, or raises AttributeError when
   the ROOT is the bad parent (NRaised).  The pair count strictly decreases because the preorder search
   repairs the FIRST broken node: all its ancestors (hence every node that is copied three times) have no
   forbidden visible ancestor. *)
Theorem C06_fix_nesting_terminates : forall (forb : N -> N -> bool) (invis : N -> bool) (t : ltree),
  NoDup (lids t) -> fix_nesting forb invis eq_id (nest_fuel forb invis t) t <> NOutOfFuel.
Proof. exact ProofsNesting.fix_nesting_terminates. Qed.
Print Assumptions C06_fix_nesting_terminates.

(* the same for a document of the heap model (C05/Heap.v) read along its represented tree *)
Theorem C06_fix_nesting_terminates_heap : forall forb invis (h : heap) (exc : N -> bool) (t : tree),
  repr h None t -> NoDup (ids t) ->
  fix_nesting forb invis eq_id (nest_fuel forb invis (lt_of h exc t)) (lt_of h exc t) <> NOutOfFuel.
Proof. exact ProofsNesting.fix_nesting_terminates_heap. Qed.
Print Assumptions C06_fix_nesting_terminates_heap.

(* the measure: one iteration that changes the tree strictly decreases the pair count, keeps the identities
   distinct and (words only on childless nodes) keeps the in-order words *)
Theorem C06_fix_nesting_measure : forall forb invis t t', NoDup (lids t) ->
  nest_step forb invis eq_id t = NMoved t' ->
  npairs forb invis [] t' < npairs forb invis [] t /\ NoDup (lids t') /\
  (leafwords t = true -> lwords t' = lwords t /\ leafwords t' = true).
Proof. exact ProofsNesting.nest_step_moved. Qed.
Print Assumptions C06_fix_nesting_measure.

(* on a normal return: identities still distinct, no node outside exception sub-trees (_is_exception) has a
   forbidden visible ancestor, the words are unchanged *)
Theorem C06_fix_nesting_postcondition : forall forb invis fuel t t', NoDup (lids t) ->
  fix_nesting forb invis eq_id fuel t = NDone t' ->
  NoDup (lids t') /\ nest_ok forb invis [] t' = true /\ npairs forb invis [] t' <= npairs forb invis [] t /\
  (leafwords t = true -> lwords t' = lwords t /\ leafwords t' = true).
Proof. exact ProofsNesting.fix_nesting_done. Qed.
Print Assumptions C06_fix_nesting_postcondition.

(* with identity marks `middle_tree.children[0]` never raises IndexError: the only exception of an iteration
   is the root being the bad parent *)
Theorem C06_fix_nesting_raise_only_at_root : forall forb invis t, NoDup (lids t) ->
  nest_step forb invis eq_id t = NRaise ->
  exists news, visit forb invis eq_id (lfresh t) [] t = VSplice news.
Proof. exact ProofsNesting.nest_step_raise. Qed.
Print Assumptions C06_fix_nesting_raise_only_at_root.

Example C06_fix_nesting_example :
  NoDup (lids ProofsNestingExtra.t_deep) /\ leafwords ProofsNestingExtra.t_deep = true /\
  nest_fuel forb_real invis_real ProofsNestingExtra.t_deep = 3%nat /\
  exists t', fix_nesting forb_real invis_real eq_id (nest_fuel forb_real invis_real ProofsNestingExtra.t_deep)
                         ProofsNestingExtra.t_deep = NDone t' /\
             lwords t' = [1; 2; 3; 4; 5; 6]%N /\ nest_ok forb_real invis_real [] t' = true /\
             map lcls (lkids t') = [c_PreFormatted; c_Strong; c_PreFormatted] /\
             npairs forb_real invis_real [] t' = 0%nat.
Proof. exact ProofsNestingExtra.fix_nesting_example. Qed.
Print Assumptions C06_fix_nesting_example.

Example C06_fix_nesting_root_raises_example :
  fix_nesting forb_real invis_real eq_id (nest_fuel forb_real invis_real ProofsNestingExtra.t_root)
              ProofsNestingExtra.t_root = NRaised.
Proof. exact ProofsNestingExtra.fix_nesting_root_raises_example. Qed.
Print Assumptions C06_fix_nesting_root_raises_example.

(* REFUTED for the code as it was before 09d8eb0 (Node.__eq__ in _mark_nodes, nodes.py:28-33): one iteration on
   Article[Code[x, Pre[a], z, Pre[a], y]] loses the second `a`; with identity it does not *)
Theorem C06_fix_nesting_structural_eq_refuted :
  exists t, NoDup (lids t) /\ leafwords t = true /\
    (exists t', nest_step forb_real invis_real eq_struct t = NMoved t' /\
                lwords t = [101; 102; 103; 102; 104]%N /\ lwords t' = [101; 102; 103; 104]%N) /\
    (exists t', nest_step forb_real invis_real eq_id t = NMoved t' /\ lwords t' = lwords t).
Proof. exact ProofsNestingExtra.fix_nesting_structural_eq_refuted. Qed.
Print Assumptions C06_fix_nesting_structural_eq_refuted.

(* the tables of the fix_nesting model are the tables of /repo's TreeCleaner.__init__: C06/Gen_nesting.v is
   regenerated from mwlib/parser/treecleaner.py on every run (vt/gen/c06_nesting.py, which also checks that
   _mark_nodes compares by identity and that _fix_nesting / _filter_tree have the modelled shape) *)
Theorem C06_nesting_tables_generated :
  forbidden_parents = Gen_nesting.gen_forbidden_parents /\
  (forall c p, forb_real c p = ProofsNestingGen.forb_of Gen_nesting.gen_forbidden_parents c p) /\
  (forall k, invis_real k = memb k Gen_nesting.gen_invisible).
Proof. exact ProofsNestingGen.gen_tables_agree. Qed.
Print Assumptions C06_nesting_tables_generated.

(* ---- fix_nesting on the HEAP (C06/ModelNestingHeap.v): the call sequence of one repair (treecleaner.py:877-899)
   copy / _filter_tree / copy / _filter_tree / children[0] / copy / _filter_tree / parent.replace_child(bad_parent,
   [top, middle, bottom]) replayed cell by cell with the API of C05/Heap.v.
   _filter_tree (835-840, recursion over a snapshot of the children, remove_child of every marked node) on a
   tree of the heap whose root is not marked, for ANY marking `drop`: never raises (fuel = number of heap cells + 1
   suffices), afterwards the heap represents the filtered tree (still duplicate-free, a subset of the old nodes) under
   the same parent, and no cell outside the tree has changed *)
Theorem C06_filter_tree_heap : forall drop h q s,
  repr h q s -> NoDup (ids s) -> drop (tid s) = false ->
  exists h', C06.ModelNestingHeap.hfilter (S (List.length h)) drop h (tid s) = Ok h' /\
             repr h' q (C06.ModelNestingHeap.tfilter drop s) /\
             NoDup (ids (C06.ModelNestingHeap.tfilter drop s)) /\
             incl (ids (C06.ModelNestingHeap.tfilter drop s)) (ids s) /\
             (forall j, ~ In j (ids s) -> get h' j = get h j).
Proof. exact C06.ProofsNestingHeap.hfilter_tree. Qed.
Print Assumptions C06_filter_tree_heap.

(* the tree-level specification of one repair (ANY node B of a proper document, ANY three markings): after a normal
   return the heap represents the document in which B's subtree sB is replaced by [top copy; first child of the middle
   copy; bottom copy], where `fcopy sB k d` = sB renamed to fresh identities k, k+1, ... (preorder) and filtered by d;
   after one of the two possible exceptions it represents the unchanged document; nothing else can happen *)
Theorem C06_fix_nesting_repair_heap_spec : forall d1 d2 d3 h r t B sB,
  tid t = r -> repr h None t -> NoDup (ids t) -> t_find B t = Some sB ->
  match C06.ModelNestingHeap.repair d1 d2 d3 h B with
  | C06.ModelNestingHeap.ROk h' => exists k1 k2 k3 sm rest,
      tkids (C06.ModelNestingHeap.fcopy sB k2 d2) = sm :: rest /\
      repr h' None (t_replace B [C06.ModelNestingHeap.fcopy sB k1 d1; sm; C06.ModelNestingHeap.fcopy sB k3 d3] t) /\
      NoDup (ids (t_replace B [C06.ModelNestingHeap.fcopy sB k1 d1; sm; C06.ModelNestingHeap.fcopy sB k3 d3] t))
  | C06.ModelNestingHeap.RIndexError h' =>
      repr h' None t /\ exists k2, tkids (C06.ModelNestingHeap.fcopy sB k2 d2) = []
  | C06.ModelNestingHeap.RNoParent h' => repr h' None t /\ par h B = None
  | C06.ModelNestingHeap.RErr => False
  end.
Proof. exact C06.ProofsNestingHeap.repair_spec. Qed.
Print Assumptions C06_fix_nesting_repair_heap_spec.

(* one repair, for ANY node B of a proper document and ANY three markings of the three copies (in particular those
   _mark_nodes computes).  Outcomes: normal return; IndexError of middle_tree.children[0]; AttributeError because
   bad_parent.parent is None (only when B is the root) - nothing else is possible (RErr), and in ALL three cases the
   heap the cleaner (or the catch-all of TreeCleaner.clean) goes on with is a proper tree (WF of C05: every node once,
   parent links = listing node, no cycles).  The middle child still carries its parent link to the discarded middle
   copy when replace_child is called - replace_child overwrites it. *)
Theorem C06_fix_nesting_repair_heap_WF : forall d1 d2 d3 h r t B,
  tid t = r -> repr h None t -> NoDup (ids t) -> In B (ids t) ->
  match C06.ModelNestingHeap.repair d1 d2 d3 h B with
  | C06.ModelNestingHeap.ROk h' => WF h' r
  | C06.ModelNestingHeap.RIndexError h' => WF h' r
  | C06.ModelNestingHeap.RNoParent h' => WF h' r /\ par h B = None
  | C06.ModelNestingHeap.RErr => False
  end.
Proof. exact C06.ProofsNestingHeap.repair_preserves_WF. Qed.
Print Assumptions C06_fix_nesting_repair_heap_WF.

(* ... hence after any number of iterations of `while self._fix_nesting(node)`, whatever bad parents and marks
   the search picks, the document is a proper tree ... *)
Theorem C06_fix_nesting_heap_preserves_WF : forall r h h',
  WF h r -> C06.ProofsNestingHeap.repair_steps r h h' -> WF h' r.
Proof. exact C06.ProofsNestingHeap.repair_steps_WF. Qed.
Print Assumptions C06_fix_nesting_heap_preserves_WF.

(* ... also when the last iteration raises *)
Theorem C06_fix_nesting_heap_raise_preserves_WF : forall r h h1 d1 d2 d3 t B h',
  WF h r -> C06.ProofsNestingHeap.repair_steps r h h1 ->
  tid t = r -> repr h1 None t -> NoDup (ids t) -> In B (ids t) ->
  (C06.ModelNestingHeap.repair d1 d2 d3 h1 B = C06.ModelNestingHeap.RIndexError h' \/
   C06.ModelNestingHeap.repair d1 d2 d3 h1 B = C06.ModelNestingHeap.RNoParent h') -> WF h' r.
Proof. exact C06.ProofsNestingHeap.repair_steps_then_raise_WF. Qed.
Print Assumptions C06_fix_nesting_heap_raise_preserves_WF.

Example C06_fix_nesting_repair_heap_example :
  WF C06.ProofsNestingHeap.hx 1 /\ par C06.ProofsNestingHeap.hx 2 = Some 1%N /\
  exists h', C06.ModelNestingHeap.repair C06.ProofsNestingHeap.dx1 C06.ProofsNestingHeap.dx2 C06.ProofsNestingHeap.dx3
                                         C06.ProofsNestingHeap.hx 2 = C06.ModelNestingHeap.ROk h' /\
             kids h' 1 = [6; 12; 14]%N /\ kids h' 6 = [7]%N /\ kids h' 14 = [17]%N /\ par h' 12 = Some 1%N /\
             wfb h' 1 = true /\ words h' 1 = words C06.ProofsNestingHeap.hx 1.
Proof. exact C06.ProofsNestingHeap.repair_example. Qed.
Print Assumptions C06_fix_nesting_repair_heap_example.

Example C06_fix_nesting_repair_heap_index_error_example :
  exists h', C06.ModelNestingHeap.repair C06.ProofsNestingHeap.dx1 (fun _ => true) C06.ProofsNestingHeap.dx3
                                         C06.ProofsNestingHeap.hx 2 = C06.ModelNestingHeap.RIndexError h' /\
             wfb h' 1 = true /\ kids h' 1 = [2]%N.
Proof. exact C06.ProofsNestingHeap.repair_index_error_example. Qed.
Print Assumptions C06_fix_nesting_repair_heap_index_error_example.

Example C06_fix_nesting_repair_heap_no_parent_example :
  exists h', C06.ModelNestingHeap.repair (fun _ => false) (fun _ => false) (fun _ => false)
                                         C06.ProofsNestingHeap.hx 1 = C06.ModelNestingHeap.RNoParent h' /\
             wfb h' 1 = true /\ words h' 1 = words C06.ProofsNestingHeap.hx 1.
Proof. exact C06.ProofsNestingHeap.repair_no_parent_example. Qed.
Print Assumptions C06_fix_nesting_repair_heap_no_parent_example.

(* ---- the two models of _filter_tree agree: `filt` of the labelled model (used by the termination and word theorems
   above) is `tfilter` - what the heap-level replay provably leaves (C06_filter_tree_heap) - under the marking
   drop j := "the mark of node j is in the filter", on every marked tree with distinct identities ... *)
Theorem C06_filter_models_agree : forall flt mt, NoDup (ids (C06.ProofsNestingLink.merase mt)) ->
  erase (filt flt mt) =
  C06.ModelNestingHeap.tfilter (fun j => flt (C06.ProofsNestingLink.mark_at (C06.ProofsNestingLink.mmarks mt) j))
                               (C06.ProofsNestingLink.merase mt).
Proof. exact C06.ProofsNestingLink.filt_tfilter. Qed.
Print Assumptions C06_filter_models_agree.

(* ... in particular for the marked tree _mark_nodes builds from the bad parent B (any membership test, any divide
   path): each of the three pieces of ModelNesting.pieces is tfilter of B's tree.  (What is still NOT proved: that
   copy()'s renaming `ren` and the labelled model's `fresh_id` renaming yield the same document up to a bijection of
   the fresh identities - the last step of a full refinement heap model <-> labelled model.) *)
Theorem C06_fix_nesting_pieces_are_tfilter : forall eqn divide prob B flt, NoDup (lids B) ->
  erase (filt flt (mark_t eqn divide prob MNone B)) =
  C06.ModelNestingHeap.tfilter
    (fun j => flt (C06.ProofsNestingLink.mark_at (C06.ProofsNestingLink.mmarks (mark_t eqn divide prob MNone B)) j))
    (erase B).
Proof. exact C06.ProofsNestingLink.pieces_tfilter. Qed.
Print Assumptions C06_fix_nesting_pieces_are_tfilter.
