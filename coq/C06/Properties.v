(* C06 — property theorems only (each closed by `exact`, followed by Print Assumptions).
   Static part: every attribute name the cleaner reads/calls exists (generated from /repo on every run).
   Termination part: the two fixed-point loops that can be given an explicit measure, on the heap model
   (C05/Heap.v + C06/Model.v).  NOT proved: termination of fix_nesting (see C06_fix_nesting_partial), and
   absence of exceptions other than missing attributes - those are decided by the search (each pass called
   directly on the real tree under a time limit). *)
From Coq Require Import List String NArith Bool.
From MW Require Import C05.Heap C05.TreeOps C06.Model.
From MW Require C06.Gen_api C06.ProofsGen C06.Proofs C06.ProofsExtra C07.Proofs.
Import ListNotations.

(* every attribute name used on a non-module receiver in treecleaner.py / treecleanerhelper.py is defined by
   the node classes, their mixins, Token, TreeCleaner, stored by the cleaner/parser, or is an attribute of a
   builtin type (fixed allow-list).  The four camelCase leftovers of the rename break exactly this. *)
Theorem C06_api_closed : incl Gen_api.used (Gen_api.defined ++ Gen_api.builtin).
Proof. exact ProofsGen.api_closed. Qed.
Print Assumptions C06_api_closed.

(* every name of the documented pass order is a method of TreeCleaner (clean() would `raise "..."`) *)
Theorem C06_cleaner_methods_exist : incl Gen_api.cleaner_methods Gen_api.tc_methods.
Proof. exact ProofsGen.cleaner_methods_exist. Qed.
Print Assumptions C06_cleaner_methods_exist.

Example C06_gen_nonempty : Gen_api.cleaner_methods <> [] /\ Gen_api.used <> [].
Proof. exact ProofsGen.cleaner_methods_nonempty. Qed.
Print Assumptions C06_gen_nonempty.

(* fix_paragraphs (treecleaner.py:747-769): on every proper tree the while loop stops within
   tsize^2 iterations (it returns, or raises on a childless Section), and a normal return leaves a
   proper tree without a Paragraph-behind-Section.  Measure: tsize^2 - (sum of node depths). *)
Theorem C06_fix_paragraphs_terminates : forall h r, WF h r ->
  fix_paragraphs (fp_fuel h r) h r <> OutOfFuel /\
  (forall h', fix_paragraphs (fp_fuel h r) h r = Done h' -> WF h' r /\ Proofs.no_trigger h' r).
Proof. exact Proofs.C06_fix_paragraphs_terminates. Qed.
Print Assumptions C06_fix_paragraphs_terminates.

Theorem C06_fix_paragraphs_measure : forall h t p s l,
  repr h None t -> NoDup (ids t) ->
  find_trig h None t = Some (p, s) -> last_opt (kids h s) = Some l ->
  exists h' t', move_to h p l false = Ok h' /\ repr h' None t' /\ NoDup (ids t') /\
                tid t' = tid t /\ fp_measure t' < fp_measure t.
Proof. exact Proofs.C06_fix_paragraphs_measure. Qed.
Print Assumptions C06_fix_paragraphs_measure.

(* ... and it does not raise when every Section of the tree has a child (its caption) *)
Theorem C06_fix_paragraphs_no_raise : forall h r, WF h r ->
  (forall t, tid t = r -> repr h None t ->
     forall i, In i (ids t) -> clsof h i = c_Section -> kids h i <> []) ->
  exists h', fix_paragraphs (fp_fuel h r) h r = Done h'.
Proof. exact Proofs.C06_fix_paragraphs_no_raise. Qed.
Print Assumptions C06_fix_paragraphs_no_raise.

Example C06_fix_paragraphs_example :
  WF ProofsExtra.hp 1 /\
  exists h', fix_paragraphs (fp_fuel ProofsExtra.hp 1) ProofsExtra.hp 1 = Done h' /\ kids h' 1 = [2]%N /\
             kids h' 2 = [3; 5]%N /\ wfb h' 1 = true /\ words h' 1 = words ProofsExtra.hp 1.
Proof. exact ProofsExtra.fix_paragraphs_example. Qed.
Print Assumptions C06_fix_paragraphs_example.

Example C06_fix_paragraphs_raises_example :
  WF ProofsExtra.hq 1 /\ fix_paragraphs (fp_fuel ProofsExtra.hq 1) ProofsExtra.hq 1 = Raised.
Proof. exact ProofsExtra.fix_paragraphs_raises_example. Qed.
Print Assumptions C06_fix_paragraphs_raises_example.

(* the `while changed` loop of remove_breaking_returns (treecleaner.py:720-745), for ANY way of computing
   the four candidates, provided a BreakingReturn candidate is an attached node of the document (true of
   first/last leaf, next/previous sibling-or-parent of a node of a proper tree whose root is no
   BreakingReturn): stops within (number of BreakingReturn nodes)+1 iterations and keeps the tree proper.
   Measure: number of BreakingReturn nodes of the tree.  (A BreakingReturn candidate WITHOUT parent would
   make the real loop spin forever: try_remove_node does nothing but `changed` is set.) *)
Theorem C06_breaking_returns_terminates : forall (cand : heap -> N -> list N) (r : N),
  (forall h node c, WF h r -> In c (cand h node) -> clsof h c = c_BR ->
     (forall t, tid t = r -> repr h None t -> In c (ids t)) /\ c <> r) ->
  forall h node, WF h r ->
  br_loop cand (S (count_br h r)) h node <> OutOfFuel /\
  (forall h', br_loop cand (S (count_br h r)) h node = Done h' -> WF h' r).
Proof. exact Proofs.C06_breaking_returns_terminates. Qed.
Print Assumptions C06_breaking_returns_terminates.

Example C06_breaking_returns_example :
  WF ProofsExtra.hb 1 /\ count_br ProofsExtra.hb 1 = 2 /\
  exists h', br_loop (fun h n => kids h n) (S (count_br ProofsExtra.hb 1)) ProofsExtra.hb 1 = Done h' /\
             kids h' 1 = [3]%N /\ wfb h' 1 = true.
Proof. exact ProofsExtra.breaking_returns_example. Qed.
Print Assumptions C06_breaking_returns_example.

Example C06_cand_hypothesis_satisfiable : forall r : N,
  forall h node c, WF h r -> In c ((fun (_ : heap) (_ : N) => @nil N) h node) -> clsof h c = c_BR ->
     (forall t, tid t = r -> repr h None t -> In c (ids t)) /\ c <> r.
Proof. exact ProofsExtra.cand_hyp_satisfiable. Qed.
Print Assumptions C06_cand_hypothesis_satisfiable.

(* fix_nesting (treecleaner.py:850-904).  FULL STATEMENT (not proved):
     forall h r, WF h r -> exists k, fix_nesting_loop k h r <> OutOfFuel
   with measure "number of (node, forbidden visible ancestor) pairs".  What is proved is the structural
   fact about ONE iteration: the three trees made from the bad parent (top / the spliced middle child /
   bottom) together carry exactly the bad parent's words, i.e. the iteration re-arranges and loses nothing.
   MISSING: a model of _nesting_broken / _mark_nodes and the proof that the pair count decreases; the case
   that resists is _mark_nodes testing `child in divide` with structural == : a left sibling EQUAL to a path
   node is taken for the path, is kept in all three copies, and `middle.children[0]` then is that sibling
   and not the problem node.  The search is pointed at that shape (equal siblings next to a mis-nested node,
   nested forbidden pairs such as tables in definition lists in preformatted text). *)
Theorem C06_fix_nesting_partial : forall h path t,
  C07.Proofs.path_ok path t -> path <> [] -> C07.Proofs.own_text_empty h path (tid t) ->
  words_t h (C07.Proofs.split_top path t) ++ flat_map (words_t h) (tkids (C07.Proofs.split_mid path t))
    ++ words_t h (C07.Proofs.split_bot path t) = words_t h t.
Proof. exact C07.Proofs.words_split. Qed.
Print Assumptions C06_fix_nesting_partial.
