(* C06 — the tree cleaner's fixpoint loops terminate.
   Model: C06/Model.v (over C05/Heap.v, C05/TreeOps.v); tree lemmas reused from C07/Proofs.v.
   The characterisations of the heap API (C05/ProofsApi.v: move_to_repr, remove_child_repr) enter
   as Section hypotheses with exactly the statements proved there. *)
From Coq Require Import List NArith Bool Arith Lia.
From MW Require Import C05.Heap C05.TreeOps C06.Model C07.Proofs.
Import ListNotations.

(* ================================================================ 1. build is complete *)
Definition fsize (ts : list tree) : nat := list_sum (map tsize ts).
Definition fdepth (d : nat) (ts : list tree) : nat := list_sum (map (sdepth d) ts).

Lemma tsize_eq : forall i ts, tsize (T i ts) = S (fsize ts).
Proof. reflexivity. Qed.
Lemma fsize_nil : fsize [] = 0.
Proof. reflexivity. Qed.
Lemma fsize_cons : forall x r, fsize (x :: r) = tsize x + fsize r.
Proof. reflexivity. Qed.
Lemma fsize_app : forall a b, fsize (a ++ b) = fsize a + fsize b.
Proof. intros. unfold fsize. rewrite map_app, list_sum_app. reflexivity. Qed.
Lemma sdepth_eq : forall d i ts, sdepth d (T i ts) = d + fdepth (S d) ts.
Proof. reflexivity. Qed.
Lemma fdepth_nil : forall d, fdepth d [] = 0.
Proof. reflexivity. Qed.
Lemma fdepth_cons : forall d x r, fdepth d (x :: r) = sdepth d x + fdepth d r.
Proof. reflexivity. Qed.
Lemma fdepth_app : forall d a b, fdepth d (a ++ b) = fdepth d a + fdepth d b.
Proof. intros. unfold fdepth. rewrite map_app, list_sum_app. reflexivity. Qed.
#[local] Hint Rewrite tsize_eq fsize_nil fsize_cons fsize_app
                      sdepth_eq fdepth_nil fdepth_cons fdepth_app : sz.

Lemma tsize_pos : forall t, 1 <= tsize t.
Proof. intros [i ts]. rewrite tsize_eq. lia. Qed.

Lemma tsize_ids : forall t, tsize t = length (ids t).
Proof.
  intros t. induction t as [i ts IH] using tree_ind'.
  rewrite tsize_eq, ids_eq. simpl. f_equal.
  induction ts as [|x r IHr]; [reflexivity|].
  inversion IH as [|? ? Hx Hr]; subst.
  rewrite fsize_cons, idsl_cons, app_length, Hx, IHr; auto.
Qed.

Lemma repr_inv : forall h p i ts, repr h p (T i ts) ->
  exists nd, get h i = Some nd /\ parent nd = p /\ children nd = map tid ts /\
             (cls nd = c_Text -> ts = []) /\ Forall (repr h (Some i)) ts.
Proof.
  intros h p i ts H. inversion H as [p' i' ts' nd Hg Hp Hc Htx Hf]; subst.
  exists nd. repeat split; auto.
Qed.

Lemma kids_repr : forall h p i ts, repr h p (T i ts) -> kids h i = map tid ts.
Proof.
  intros h p i ts H. apply repr_inv in H. destruct H as (nd & Hg & _ & Hc & _).
  unfold kids. rewrite Hg. exact Hc.
Qed.

Lemma get_in_keys : forall h i nd, get h i = Some nd -> In i (map fst h).
Proof.
  induction h as [|[j n] h IH]; intros i nd Hg; simpl in *.
  - discriminate.
  - destruct (N.eqb i j) eqn:E.
    + apply N.eqb_eq in E. left. auto.
    + right. eapply IH; eauto.
Qed.

Lemma repr_ids_in_keys : forall h t p, repr h p t -> incl (ids t) (map fst h).
Proof.
  intros h t. induction t as [i ts IH] using tree_ind'. intros p H.
  apply repr_inv in H. destruct H as (nd & Hg & _ & _ & _ & Hf).
  rewrite ids_eq. apply incl_cons; [eapply get_in_keys; eassumption|].
  clear Hg. induction ts as [|x r IHr]; [intros a []|].
  inversion IH as [|? ? Hx Hr]; subst. inversion Hf; subst.
  rewrite idsl_cons. apply incl_app; [eapply Hx; eassumption | apply IHr; assumption].
Qed.

Lemma build_repr_fuel : forall h t p f, repr h p t -> tsize t <= f -> build f h (tid t) = Some t.
Proof.
  intros h t. induction t as [i ts IH] using tree_ind'. intros p f H Hf.
  apply repr_inv in H. destruct H as (nd & Hg & _ & Hc & _ & Hfa).
  destruct f as [|f]; [rewrite tsize_eq in Hf; lia|].
  simpl. rewrite Hg, Hc. rewrite tsize_eq in Hf. apply le_S_n in Hf.
  assert (E : map_opt (build f h) (map tid ts) = Some ts).
  { clear Hg Hc. induction ts as [|x r IHr]; [reflexivity|].
    inversion IH as [|? ? Hx Hr]; subst. inversion Hfa; subst.
    rewrite fsize_cons in Hf. simpl.
    rewrite (Hx (Some i) f) by (auto; lia).
    change ((fix go (l : list N) : option (list tree) :=
             match l with
             | [] => Some []
             | x0 :: r0 => match build f h x0 with
                           | Some y => match go r0 with Some ys => Some (y :: ys) | None => None end
                           | None => None
                           end
             end) (map tid r)) with (map_opt (build f h) (map tid r)).
    rewrite IHr by (auto; lia). reflexivity. }
  rewrite E. reflexivity.
Qed.

Lemma build_complete : forall h t, repr h None t -> NoDup (ids t) ->
  build (S (length h)) h (tid t) = Some t.
Proof.
  intros h t H Hnd. apply build_repr_fuel with (p := None); [exact H|].
  rewrite tsize_ids. apply le_S.
  rewrite <- (map_length fst h). apply NoDup_incl_length; [exact Hnd|].
  eapply repr_ids_in_keys; eassumption.
Qed.

(* ================================================================ 2. size and depth sum *)
Lemma sdepth_S : forall s d, sdepth (S d) s = sdepth d s + tsize s.
Proof.
  intros s. induction s as [i ts IH] using tree_ind'. intros d.
  rewrite !sdepth_eq, tsize_eq.
  assert (E : fdepth (S (S d)) ts = fdepth (S d) ts + fsize ts).
  { induction ts as [|x r IHr]; [reflexivity|].
    inversion IH as [|? ? Hx Hr]; subst.
    rewrite !fdepth_cons, fsize_cons, (Hx (S d)), (IHr Hr). lia. }
  lia.
Qed.

Lemma fdepth_bound : forall d ts,
  Forall (fun t => forall d, sdepth d t + tsize t <= tsize t * (d + tsize t)) ts ->
  fdepth d ts + fsize ts <= fsize ts * (d + fsize ts).
Proof.
  intros d ts H. induction ts as [|x r IHr]; [rewrite fdepth_nil, fsize_nil; lia|].
  inversion H as [|? ? Hx Hr]; subst. specialize (IHr Hr). specialize (Hx d).
  rewrite fdepth_cons, fsize_cons.
  set (a := tsize x) in *. set (b := fsize r) in *.
  set (u := sdepth d x) in *. set (v := fdepth d r) in *.
  nia.
Qed.

Lemma sdepth_bound : forall t d, sdepth d t + tsize t <= tsize t * (d + tsize t).
Proof.
  intros t. induction t as [i ts IH] using tree_ind'. intros d.
  pose proof (fdepth_bound (S d) ts IH) as B.
  rewrite sdepth_eq, tsize_eq.
  set (m := fsize ts) in *. set (v := fdepth (S d) ts) in *.
  nia.
Qed.

Lemma sdepth0_le : forall t, sdepth 0 t <= tsize t * tsize t.
Proof. intros t. pose proof (sdepth_bound t 0). simpl in H. lia. Qed.
