(* C06 — the tree cleaner's fixpoint loops terminate.
   Model: C06/Model.v (over C05/Heap.v, C05/TreeOps.v); tree lemmas reused from C07/Proofs.v.
   The characterisations of the heap API (C05/ProofsApi.v: move_to_repr, remove_child_repr) enter
   as Section hypotheses with exactly the statements proved there. *)
From Coq Require Import List NArith Bool Arith Lia.
From MW Require Import C05.Heap C05.TreeOps C06.Model C07.Proofs.
From MW Require C05.ProofsApi.
Import ListNotations.

(* ================================================================ 1. build is complete *)
Definition fsize (ts : list tree) : nat := list_sum (map tsize ts).
Definition fdepth (d : nat) (ts : list tree) : nat := list_sum (map (sdepth d) ts).

Lemma tsize_eq : forall i ts, tsize (T i ts) = S (fsize ts).
Proof. reflexivity. Qed.
Lemma fsize_nil : fsize [] = 0.
Proof. reflexivity. Qed.
Lemma fsize_cons : forall x r, fsize (x :: r) = tsize x + fsize r.
Proof. reflexivity. Qed.
Lemma fsize_app : forall a b, fsize (a ++ b) = fsize a + fsize b.
Proof. intros. unfold fsize. rewrite map_app, list_sum_app. reflexivity. Qed.
Lemma sdepth_eq : forall d i ts, sdepth d (T i ts) = d + fdepth (S d) ts.
Proof. reflexivity. Qed.
Lemma fdepth_nil : forall d, fdepth d [] = 0.
Proof. reflexivity. Qed.
Lemma fdepth_cons : forall d x r, fdepth d (x :: r) = sdepth d x + fdepth d r.
Proof. reflexivity. Qed.
Lemma fdepth_app : forall d a b, fdepth d (a ++ b) = fdepth d a + fdepth d b.
Proof. intros. unfold fdepth. rewrite map_app, list_sum_app. reflexivity. Qed.
#[local] Hint Rewrite tsize_eq fsize_nil fsize_cons fsize_app
                      sdepth_eq fdepth_nil fdepth_cons fdepth_app : sz.

Lemma tsize_pos : forall t, 1 <= tsize t.
Proof. intros [i ts]. rewrite tsize_eq. lia. Qed.

Lemma tsize_ids : forall t, tsize t = length (ids t).
Proof.
  intros t. induction t as [i ts IH] using tree_ind'.
  rewrite tsize_eq, ids_eq. simpl. f_equal.
  induction ts as [|x r IHr]; [reflexivity|].
  inversion IH as [|? ? Hx Hr]; subst.
  rewrite fsize_cons, idsl_cons, app_length, Hx, IHr; auto.
Qed.

Lemma repr_inv : forall h p i ts, repr h p (T i ts) ->
  exists nd, get h i = Some nd /\ parent nd = p /\ children nd = map tid ts /\
             (cls nd = c_Text -> ts = []) /\ Forall (repr h (Some i)) ts.
Proof.
  intros h p i ts H. inversion H as [p' i' ts' nd Hg Hp Hc Htx Hf]; subst.
  exists nd. repeat split; auto.
Qed.

Lemma kids_repr : forall h p i ts, repr h p (T i ts) -> kids h i = map tid ts.
Proof.
  intros h p i ts H. apply repr_inv in H. destruct H as (nd & Hg & _ & Hc & _).
  unfold kids. rewrite Hg. exact Hc.
Qed.

Lemma get_in_keys : forall h i nd, get h i = Some nd -> In i (map fst h).
Proof.
  induction h as [|[j n] h IH]; intros i nd Hg; simpl in *.
  - discriminate.
  - destruct (N.eqb i j) eqn:E.
    + apply N.eqb_eq in E. left. auto.
    + right. eapply IH; eauto.
Qed.

Lemma repr_ids_in_keys : forall h t p, repr h p t -> incl (ids t) (map fst h).
Proof.
  intros h t. induction t as [i ts IH] using tree_ind'. intros p H.
  apply repr_inv in H. destruct H as (nd & Hg & _ & _ & _ & Hf).
  rewrite ids_eq. apply incl_cons; [eapply get_in_keys; eassumption|].
  clear Hg. induction ts as [|x r IHr]; [intros a []|].
  inversion IH as [|? ? Hx Hr]; subst. inversion Hf; subst.
  rewrite idsl_cons. apply incl_app; [eapply Hx; eassumption | apply IHr; assumption].
Qed.

Lemma build_repr_fuel : forall h t p f, repr h p t -> tsize t <= f -> build f h (tid t) = Some t.
Proof.
  intros h t. induction t as [i ts IH] using tree_ind'. intros p f H Hf.
  apply repr_inv in H. destruct H as (nd & Hg & _ & Hc & _ & Hfa).
  destruct f as [|f]; [rewrite tsize_eq in Hf; lia|].
  simpl. rewrite Hg, Hc. rewrite tsize_eq in Hf. apply le_S_n in Hf.
  assert (E : map_opt (build f h) (map tid ts) = Some ts).
  { clear Hg Hc. induction ts as [|x r IHr]; [reflexivity|].
    inversion IH as [|? ? Hx Hr]; subst. inversion Hfa; subst.
    rewrite fsize_cons in Hf. simpl.
    rewrite (Hx (Some i) f) by (auto; lia).
    change ((fix go (l : list N) : option (list tree) :=
             match l with
             | [] => Some []
             | x0 :: r0 => match build f h x0 with
                           | Some y => match go r0 with Some ys => Some (y :: ys) | None => None end
                           | None => None
                           end
             end) (map tid r)) with (map_opt (build f h) (map tid r)).
    rewrite IHr by (auto; lia). reflexivity. }
  rewrite E. reflexivity.
Qed.

Lemma build_complete : forall h t, repr h None t -> NoDup (ids t) ->
  build (S (length h)) h (tid t) = Some t.
Proof.
  intros h t H Hnd. apply build_repr_fuel with (p := None); [exact H|].
  rewrite tsize_ids. apply le_S.
  rewrite <- (map_length fst h). apply NoDup_incl_length; [exact Hnd|].
  eapply repr_ids_in_keys; eassumption.
Qed.

(* ================================================================ 2. size and depth sum *)
Lemma sdepth_S : forall s d, sdepth (S d) s = sdepth d s + tsize s.
Proof.
  intros s. induction s as [i ts IH] using tree_ind'. intros d.
  rewrite !sdepth_eq, tsize_eq.
  assert (E : fdepth (S (S d)) ts = fdepth (S d) ts + fsize ts).
  { induction ts as [|x r IHr]; [reflexivity|].
    inversion IH as [|? ? Hx Hr]; subst.
    rewrite !fdepth_cons, fsize_cons, (Hx (S d)), (IHr Hr). lia. }
  lia.
Qed.

Lemma fdepth_bound : forall d ts,
  Forall (fun t => forall d, sdepth d t + tsize t <= tsize t * (d + tsize t)) ts ->
  fdepth d ts + fsize ts <= fsize ts * (d + fsize ts).
Proof.
  intros d ts H. induction ts as [|x r IHr]; [rewrite fdepth_nil, fsize_nil; lia|].
  inversion H as [|? ? Hx Hr]; subst. specialize (IHr Hr). specialize (Hx d).
  rewrite fdepth_cons, fsize_cons.
  set (a := tsize x) in *. set (b := fsize r) in *.
  set (u := sdepth d x) in *. set (v := fdepth d r) in *.
  nia.
Qed.

Lemma sdepth_bound : forall t d, sdepth d t + tsize t <= tsize t * (d + tsize t).
Proof.
  intros t. induction t as [i ts IH] using tree_ind'. intros d.
  pose proof (fdepth_bound (S d) ts IH) as B.
  rewrite sdepth_eq, tsize_eq.
  set (m := fsize ts) in *. set (v := fdepth (S d) ts) in *.
  nia.
Qed.

Lemma sdepth0_le : forall t, sdepth 0 t <= tsize t * tsize t.
Proof. intros t. pose proof (sdepth_bound t 0). simpl in H. lia. Qed.

(* ================================================================ 3. the adjacent move, structurally
   adjm n tgt P t t' : somewhere in t there are consecutive siblings S, P (tid P = n) and the last
   child of S is L (tid L = tgt); t' is t with P moved behind L (new last child of S). *)
Inductive adjm (n tgt : N) (P : tree) : tree -> tree -> Prop :=
| adjm_here : forall i pre sid ks L post, tid P = n -> tid L = tgt ->
    adjm n tgt P (T i (pre ++ T sid (ks ++ [L]) :: P :: post))
                 (T i (pre ++ T sid (ks ++ [L; P]) :: post))
| adjm_in : forall i pre x x' post, adjm n tgt P x x' ->
    adjm n tgt P (T i (pre ++ x :: post)) (T i (pre ++ x' :: post)).

Lemma adjm_tid : forall n tgt P t t', adjm n tgt P t t' -> tid t' = tid t.
Proof. intros n tgt P t t' H. destruct H; reflexivity. Qed.

Lemma adjm_tsize : forall n tgt P t t', adjm n tgt P t t' -> tsize t' = tsize t.
Proof.
  intros n tgt P t t' H. induction H.
  - autorewrite with sz. lia.
  - autorewrite with sz. lia.
Qed.

Lemma adjm_sdepth : forall n tgt P t t', adjm n tgt P t t' ->
  forall d, sdepth d t' = sdepth d t + tsize P.
Proof.
  intros n tgt P t t' H. induction H; intros d.
  - autorewrite with sz. rewrite (sdepth_S P (S d)). lia.
  - autorewrite with sz. rewrite IHadjm. lia.
Qed.

Lemma adjm_ids : forall n tgt P t t', adjm n tgt P t t' -> ids t' = ids t.
Proof.
  intros n tgt P t t' H. induction H.
  - rewrite !ids_eq, !idsl_app, !idsl_cons, !ids_eq, !idsl_app, !idsl_cons.
    change (idsl []) with (@nil N). rewrite !app_nil_r.
    simpl. rewrite <- !app_assoc. reflexivity.
  - rewrite !ids_eq, !idsl_app, !idsl_cons, IHadjm. reflexivity.
Qed.

Lemma NoDup_app_iff {A} : forall (a b : list A),
  NoDup (a ++ b) <-> NoDup a /\ NoDup b /\ (forall x, In x a -> ~ In x b).
Proof.
  intros a b. split.
  - intros H. split; [eapply NoDup_app_l; eassumption|].
    split; [eapply NoDup_app_r; eassumption|].
    intros x. apply NoDup_app_disj. exact H.
  - intros (Ha & Hb & D). induction a as [|x a IH]; [exact Hb|].
    simpl. inversion Ha; subst. constructor.
    + intro K. apply in_app_or in K. destruct K as [K|K]; [contradiction|].
      apply (D x); [left; reflexivity | exact K].
    + apply IH; auto. intros y Hy. apply D. right. exact Hy.
Qed.

Lemma f_find_cons : forall c x r,
  f_find c (x :: r) = match t_find c x with Some s => Some s | None => f_find c r end.
Proof. reflexivity. Qed.

Lemma f_find_app_none : forall c a b, ~ In c (idsl a) -> f_find c (a ++ b) = f_find c b.
Proof.
  induction a as [|x a IH]; intros b H; [reflexivity|].
  rewrite idsl_cons in H. simpl.
  rewrite t_find_none by (intro; apply H; apply in_or_app; left; assumption).
  apply IH. intro; apply H; apply in_or_app; right; assumption.
Qed.

(* what the structural move knows about t (NoDup ids) *)
Lemma adjm_facts : forall n tgt P t t', adjm n tgt P t t' -> NoDup (ids t) ->
  In n (ids t) /\ In tgt (ids t) /\ n <> tid t /\ tgt <> tid t /\
  t_find n t = Some P /\ ~ In tgt (ids P).
Proof.
  intros n tgt P t t' H. induction H as [i pre sid ks L post HP HL | i pre x x' post H IH];
    intros Hnd.
  - rewrite ids_eq in Hnd. inversion Hnd as [|? ? Hi Hnd']; subst.
    rewrite idsl_app, !idsl_cons, ids_eq, idsl_app, idsl_cons in Hnd'.
    rewrite idsl_app, !idsl_cons, ids_eq, idsl_app, idsl_cons in Hi.
    change (idsl []) with (@nil N) in *. rewrite app_nil_r in *.
    pose proof (tid_in_ids P) as InP. pose proof (tid_in_ids L) as InL.
    apply NoDup_app_iff in Hnd'. destruct Hnd' as (N1 & N2 & D1).
    apply NoDup_app_iff in N2. destruct N2 as (N2 & N3 & D2).
    apply NoDup_app_iff in N3. destruct N3 as (N3 & N4 & D3).
    assert (InLS : In (tid L) (sid :: idsl ks ++ ids L))
      by (right; apply in_or_app; right; exact InL).
    assert (F1 : ~ In (tid P) (idsl pre)).
    { intro K. apply (D1 _ K). apply in_or_app. right. apply in_or_app. left. exact InP. }
    assert (F2 : ~ In (tid P) (sid :: idsl ks ++ ids L)).
    { intro K. apply (D2 _ K). apply in_or_app. left. exact InP. }
    rewrite ids_eq, idsl_app, !idsl_cons, ids_eq, idsl_app, idsl_cons.
    change (idsl []) with (@nil N). rewrite app_nil_r. simpl tid.
    split; [|split; [|split; [|split; [|split]]]].
    + right. apply in_or_app. right. apply in_or_app. right. apply in_or_app. left. exact InP.
    + right. apply in_or_app. right. apply in_or_app. left. exact InLS.
    + intro K. apply Hi. rewrite <- K.
      apply in_or_app. right. apply in_or_app. right. apply in_or_app. left. exact InP.
    + intro K. apply Hi. rewrite <- K.
      apply in_or_app. right. apply in_or_app. left. exact InLS.
    + rewrite t_find_eq.
      assert (E : N.eqb i (tid P) = false).
      { apply N.eqb_neq. intro K. apply Hi. rewrite K.
        apply in_or_app. right. apply in_or_app. right. apply in_or_app. left. exact InP. }
      rewrite E, (f_find_app_none _ _ _ F1), f_find_cons.
      rewrite (t_find_none (tid P) (T sid (ks ++ [L]))).
      * rewrite f_find_cons, t_find_root. reflexivity.
      * rewrite ids_eq, idsl_app, idsl_cons. change (idsl []) with (@nil N).
        rewrite app_nil_r. exact F2.
    + intro K. apply (D2 _ InLS). apply in_or_app. left. exact K.
  - rewrite ids_eq in Hnd. inversion Hnd as [|? ? Hi Hnd']; subst.
    rewrite idsl_app, idsl_cons in Hnd', Hi.
    apply NoDup_app_iff in Hnd'. destruct Hnd' as (N1 & N2 & D1).
    apply NoDup_app_iff in N2. destruct N2 as (N2 & N3 & D2).
    destruct (IH N2) as (I1 & I2 & I3 & I4 & I5 & I6).
    assert (F1 : ~ In n (idsl pre)).
    { intro K. apply (D1 _ K). apply in_or_app. left. exact I1. }
    rewrite ids_eq, idsl_app, idsl_cons. simpl tid.
    split; [|split; [|split; [|split; [|split]]]].
    + right. apply in_or_app. right. apply in_or_app. left. exact I1.
    + right. apply in_or_app. right. apply in_or_app. left. exact I2.
    + intro K. apply Hi. rewrite <- K. apply in_or_app. right. apply in_or_app. left. exact I1.
    + intro K. apply Hi. rewrite <- K. apply in_or_app. right. apply in_or_app. left. exact I2.
    + rewrite t_find_eq.
      assert (E : N.eqb i n = false).
      { apply N.eqb_neq. intro K. apply Hi. rewrite K.
        apply in_or_app. right. apply in_or_app. left. exact I1. }
      rewrite E, (f_find_app_none _ _ _ F1), f_find_cons, I5. reflexivity.
    + exact I6.
Qed.

(* the structural move is what the tree-level operations compute *)
Lemma adjm_ops : forall n tgt P t t', adjm n tgt P t t' -> NoDup (ids t) ->
  t_insert tgt false P (t_replace n [] t) = t'.
Proof.
  intros n tgt P t t' H. induction H as [i pre sid ks L post HP HL | i pre x x' post H IH];
    intros Hnd.
  - rewrite ids_eq in Hnd. inversion Hnd as [|? ? Hi Hnd']; subst.
    rewrite idsl_app, !idsl_cons, ids_eq, idsl_app, idsl_cons in Hnd'.
    change (idsl []) with (@nil N) in *. rewrite app_nil_r in *.
    pose proof (tid_in_ids P) as InP. pose proof (tid_in_ids L) as InL.
    apply NoDup_app_iff in Hnd'. destruct Hnd' as (N1 & N2 & D1).
    apply NoDup_app_iff in N2. destruct N2 as (N2 & N3 & D2).
    apply NoDup_app_iff in N3. destruct N3 as (N3 & N4 & D3).
    assert (InLS : In (tid L) (sid :: idsl ks ++ ids L))
      by (right; apply in_or_app; right; exact InL).
    assert (F1 : ~ In (tid P) (idsl pre)).
    { intro K. apply (D1 _ K). apply in_or_app. right. apply in_or_app. left. exact InP. }
    assert (F2 : ~ In (tid P) (ids (T sid (ks ++ [L])))).
    { rewrite ids_eq, idsl_app, idsl_cons. change (idsl []) with (@nil N). rewrite app_nil_r.
      intro K. apply (D2 _ K). apply in_or_app. left. exact InP. }
    assert (F3 : ~ In (tid P) (idsl post)).
    { intro K. apply (D3 _ InP K). }
    assert (G1 : ~ In (tid L) (idsl pre)).
    { intro K. apply (D1 _ K). apply in_or_app. left. exact InLS. }
    assert (G3 : ~ In (tid L) (idsl post)).
    { intro K. apply (D2 _ InLS). apply in_or_app. right. exact K. }
    assert (G4 : sid <> tid L /\ ~ In (tid L) (idsl ks)).
    { inversion N2 as [|? ? Hs N2']; subst. apply NoDup_app_iff in N2'.
      destruct N2' as (_ & _ & D4). split.
      - intro K. apply Hs. rewrite K. apply in_or_app. right. exact InL.
      - intro K. apply (D4 _ K InL). }
    destruct G4 as [G4 G5].
    rewrite t_replace_eq, rep_app, !rep_cons, (rep_notin _ _ _ F1), (rep_notin _ _ _ F3).
    rewrite (t_replace_notin _ _ _ F2), N.eqb_refl.
    change (tid (T sid (ks ++ [L]))) with sid.
    assert (E1 : N.eqb sid (tid P) = false).
    { apply N.eqb_neq. intro K. apply F2. rewrite <- K. left. reflexivity. }
    rewrite E1. simpl app.
    rewrite t_insert_eq, ins_app, ins_cons, (ins_notin _ _ _ _ G1), (ins_notin _ _ _ _ G3).
    change (tid (T sid (ks ++ [L]))) with sid.
    assert (E2 : N.eqb sid (tid L) = false) by (apply N.eqb_neq; exact G4).
    rewrite E2, t_insert_eq, ins_app, ins_cons, (ins_notin _ _ _ _ G5), N.eqb_refl.
    reflexivity.
  - destruct (adjm_facts _ _ _ _ _ H) as (I1 & I2 & I3 & I4 & I5 & I6).
    { rewrite ids_eq, idsl_app, idsl_cons in Hnd. inversion Hnd as [|? ? Hi Hnd']; subst.
      apply NoDup_app_r in Hnd'. eapply NoDup_app_l; eassumption. }
    rewrite ids_eq in Hnd. inversion Hnd as [|? ? Hi Hnd']; subst.
    rewrite idsl_app, idsl_cons in Hnd'.
    apply NoDup_app_iff in Hnd'. destruct Hnd' as (N1 & N2 & D1).
    apply NoDup_app_iff in N2. destruct N2 as (N2 & N3 & D2).
    assert (F1 : ~ In n (idsl pre)).
    { intro K. apply (D1 _ K). apply in_or_app. left. exact I1. }
    assert (F3 : ~ In n (idsl post)) by (intro K; apply (D2 _ I1 K)).
    assert (G1 : ~ In tgt (idsl pre)).
    { intro K. apply (D1 _ K). apply in_or_app. left. exact I2. }
    assert (G3 : ~ In tgt (idsl post)) by (intro K; apply (D2 _ I2 K)).
    rewrite t_replace_eq, rep_app, rep_cons, (rep_notin _ _ _ F1), (rep_notin _ _ _ F3).
    assert (E1 : N.eqb (tid x) n = false) by (apply N.eqb_neq; auto).
    rewrite E1. simpl app.
    rewrite t_insert_eq, ins_app, ins_cons, (ins_notin _ _ _ _ G1), (ins_notin _ _ _ _ G3).
    rewrite tid_replace.
    assert (E2 : N.eqb (tid x) tgt = false) by (apply N.eqb_neq; auto).
    rewrite E2, (IH N2). reflexivity.
Qed.

(* ================================================================ 4. what find_trig finds *)
Fixpoint f_trig (h : heap) (pv : option N) (l : list tree) : option (N * N) :=
  match l with
  | [] => None
  | x :: r => match find_trig h pv x with
              | Some q => Some q
              | None => f_trig h (Some (tid x)) r
              end
  end.

Lemma find_trig_eq : forall h pv i ts,
  find_trig h pv (T i ts) =
  match is_trig h pv i with Some q => Some q | None => f_trig h None ts end.
Proof.
  intros. simpl. destruct (is_trig h pv i); [reflexivity|].
  generalize (@None N). induction ts as [|x r IH]; intros o; [reflexivity|].
  simpl. destruct (find_trig h o x); [reflexivity | apply IH].
Qed.

Lemma is_trig_spec : forall h pv i p s, is_trig h pv i = Some (p, s) ->
  pv = Some s /\ p = i /\ clsof h i = c_Paragraph /\ clsof h s = c_Section.
Proof.
  intros h pv i p s H. unfold is_trig in H. destruct pv as [s0|]; [|discriminate].
  destruct (N.eqb (clsof h i) c_Paragraph) eqn:E1; [|discriminate].
  destruct (N.eqb (clsof h s0) c_Section) eqn:E2; [|discriminate].
  simpl in H. inversion H; subst. apply N.eqb_eq in E1, E2. auto.
Qed.

(* S and P are consecutive siblings somewhere in the tree *)
Inductive sib (S P : tree) : tree -> Prop :=
| sib_here : forall i pre post, sib S P (T i (pre ++ S :: P :: post))
| sib_in : forall i pre x post, sib S P x -> sib S P (T i (pre ++ x :: post)).

Definition trig_spec (h : heap) (p s : N) (pv : option N) (t : tree) : Prop :=
  (pv = Some s /\ p = tid t) \/ (exists S P, tid S = s /\ tid P = p /\ sib S P t).

Lemma f_trig_sib : forall h p s ts,
  Forall (fun t => forall pv, find_trig h pv t = Some (p, s) -> trig_spec h p s pv t) ts ->
  forall pv, f_trig h pv ts = Some (p, s) ->
  (exists P post, pv = Some s /\ ts = P :: post /\ tid P = p) \/
  (exists pre S P post, ts = pre ++ S :: P :: post /\ tid S = s /\ tid P = p) \/
  (exists pre x post S P, ts = pre ++ x :: post /\ sib S P x /\ tid S = s /\ tid P = p).
Proof.
  intros h p s ts. induction ts as [|x r IHr]; intros IH pv H; [discriminate|].
  inversion IH as [|? ? Hx Hr]; subst. simpl in H.
  destruct (find_trig h pv x) as [q|] eqn:F.
  - inversion H; subst q. destruct (Hx pv F) as [[A B]|(S & P & A & B & C)].
    + left. exists x, r. auto.
    + right. right. exists [], x, r, S, P. auto.
  - destruct (IHr Hr _ H) as [(P & post & A & B & C)|[(pre & S & P & post & A & B & C)|
                                (pre & y & post & S & P & A & B & C & D)]].
    + right. left. inversion A; subst. exists [], x, P, post. auto.
    + right. left. subst r. exists (x :: pre), S, P, post. auto.
    + right. right. subst r. exists (x :: pre), y, post, S, P. auto.
Qed.

Lemma find_trig_sib : forall h p s t pv,
  find_trig h pv t = Some (p, s) -> trig_spec h p s pv t.
Proof.
  intros h p s t. induction t as [i ts IH] using tree_ind'. intros pv H.
  rewrite find_trig_eq in H. destruct (is_trig h pv i) as [q|] eqn:E.
  - inversion H; subst q. apply is_trig_spec in E. left. simpl. tauto.
  - right. destruct (f_trig_sib h p s ts IH None H)
      as [(P & post & A & B & C)|[(pre & S & P & post & A & B & C)|
                                  (pre & y & post & S & P & A & B & C & D)]].
    + discriminate.
    + subst ts. exists S, P. split; [auto|]. split; [auto|]. apply sib_here.
    + subst ts. exists S, P. split; [auto|]. split; [auto|]. apply sib_in. exact B.
Qed.

Lemma find_trig_cls : forall h p s t pv,
  find_trig h pv t = Some (p, s) -> clsof h p = c_Paragraph /\ clsof h s = c_Section.
Proof.
  intros h p s t. induction t as [i ts IH] using tree_ind'. intros pv H.
  rewrite find_trig_eq in H. destruct (is_trig h pv i) as [q|] eqn:E.
  - inversion H; subst q. apply is_trig_spec in E. destruct E as (_ & -> & A & B). auto.
  - clear E. revert H. generalize (@None N).
    induction ts as [|x r IHr]; intros o H; [discriminate|].
    inversion IH as [|? ? Hx Hr]; subst. simpl in H.
    destruct (find_trig h o x) as [q|] eqn:F.
    + inversion H; subst q. eapply Hx; eassumption.
    + eapply IHr; eassumption.
Qed.

Lemma sib_adjm : forall S P t, sib S P t -> forall ks L, tkids S = ks ++ [L] ->
  exists t', adjm (tid P) (tid L) P t t'.
Proof.
  intros S P t H. induction H as [i pre post | i pre x post H IH]; intros ks L E.
  - destruct S as [sid kk]. simpl in E. subst kk.
    eexists. apply adjm_here; reflexivity.
  - destruct (IH _ _ E) as [x' Hx]. eexists. apply adjm_in. exact Hx.
Qed.

Lemma sib_repr : forall S P t, sib S P t -> forall h q, repr h q t -> exists q', repr h q' S.
Proof.
  intros S P t H. induction H as [i pre post | i pre x post H IH]; intros h q Hr.
  - apply repr_inv in Hr. destruct Hr as (nd & _ & _ & _ & _ & Hf).
    rewrite Forall_forall in Hf. exists (Some i). apply Hf. apply in_elt.
  - apply repr_inv in Hr. destruct Hr as (nd & _ & _ & _ & _ & Hf).
    rewrite Forall_forall in Hf. apply (IH h (Some i)). apply Hf. apply in_elt.
Qed.

Lemma sib_in_ids : forall S P t, sib S P t -> In (tid S) (ids t).
Proof.
  intros S P t H. induction H as [i pre post | i pre x post H IH].
  - rewrite ids_eq, idsl_app, idsl_cons. right. apply in_or_app. right.
    apply in_or_app. left. apply tid_in_ids.
  - rewrite ids_eq, idsl_app, idsl_cons. right. apply in_or_app. right.
    apply in_or_app. left. exact IH.
Qed.

Lemma last_opt_spec {A} : forall (l : list A) x, last_opt l = Some x -> exists ks, l = ks ++ [x].
Proof.
  intros l x H. unfold last_opt in H. destruct (rev l) as [|y r] eqn:E; [discriminate|].
  inversion H; subst y. exists (rev r). rewrite <- (rev_involutive l), E. reflexivity.
Qed.

Lemma last_opt_none {A} : forall (l : list A), last_opt l = None -> l = [].
Proof.
  intros l H. unfold last_opt in H. destruct (rev l) as [|y r] eqn:E; [|discriminate].
  rewrite <- (rev_involutive l), E. reflexivity.
Qed.

Lemma map_tid_snoc : forall ts ks l, map tid ts = ks ++ [l] ->
  exists ks' L, ts = ks' ++ [L] /\ tid L = l.
Proof.
  intros ts. induction ts as [|x ts' _] using rev_ind; intros ks l H.
  - simpl in H. destruct ks; discriminate.
  - rewrite map_app in H. simpl in H. apply app_inj_tail in H. destruct H as [_ H].
    exists ts', x. auto.
Qed.

(* ---------------------------------------------------------------- sections with children
   (for the no-raise refinement: get_last_child() of a Section with children is not None) *)
Inductive sec_ok (h : heap) : tree -> Prop :=
| sec_ok_T : forall i ts, (clsof h i = c_Section -> ts <> []) -> Forall (sec_ok h) ts ->
    sec_ok h (T i ts).

Lemma sec_ok_inv : forall h i ts, sec_ok h (T i ts) ->
  (clsof h i = c_Section -> ts <> []) /\ Forall (sec_ok h) ts.
Proof. intros h i ts H. inversion H; subst. auto. Qed.

Lemma sec_ok_same_tc : forall h h' t, same_tc h h' -> sec_ok h t -> sec_ok h' t.
Proof.
  intros h h' t Hs. induction t as [i ts IH] using tree_ind'. intros H.
  apply sec_ok_inv in H. destruct H as [H1 H2]. constructor.
  - destruct (Hs i) as [_ E]. rewrite E. exact H1.
  - rewrite Forall_forall in *. intros x Hx. apply IH; auto.
Qed.

Lemma sec_ok_of_heap : forall h t q, repr h q t ->
  (forall i, In i (ids t) -> clsof h i = c_Section -> kids h i <> []) -> sec_ok h t.
Proof.
  intros h t. induction t as [i ts IH] using tree_ind'. intros q Hr H.
  pose proof (kids_repr _ _ _ _ Hr) as Hk.
  apply repr_inv in Hr. destruct Hr as (nd & _ & _ & _ & _ & Hf).
  constructor.
  - intros Hc E. subst ts. apply (H i); [left; reflexivity | exact Hc | exact Hk].
  - rewrite Forall_forall in *. intros x Hx. apply (IH x Hx (Some i)); [apply Hf; exact Hx|].
    intros j Hj. apply H. rewrite ids_eq. right. unfold idsl. apply in_flat_map.
    exists x. auto.
Qed.

Lemma adjm_sec_ok : forall h n tgt P t t', adjm n tgt P t t' -> sec_ok h t -> sec_ok h t'.
Proof.
  intros h n tgt P t t' H. induction H as [i pre sid ks L post HP HL | i pre x x' post H IH];
    intros Hok.
  - apply sec_ok_inv in Hok. destruct Hok as [_ F].
    apply Forall_app in F. destruct F as [F1 F2].
    inversion F2 as [|? ? FS F3]; subst. inversion F3 as [|? ? FP F4]; subst.
    apply sec_ok_inv in FS. destruct FS as [_ FS].
    apply Forall_app in FS. destruct FS as [G1 G2]. inversion G2 as [|? ? GL _]; subst.
    constructor.
    + intros _ K. destruct pre; discriminate.
    + apply Forall_app. split; [exact F1|]. constructor; [|exact F4].
      constructor.
      * intros _ K. destruct ks; discriminate.
      * apply Forall_app. split; [exact G1|]. repeat constructor; assumption.
  - apply sec_ok_inv in Hok. destruct Hok as [_ F].
    apply Forall_app in F. destruct F as [F1 F2]. inversion F2 as [|? ? Fx F3]; subst.
    constructor.
    + intros _ K. destruct pre; discriminate.
    + apply Forall_app. split; [exact F1|]. constructor; [apply IH; exact Fx | exact F3].
Qed.

Lemma sib_sec_ok : forall h S P t, sib S P t -> sec_ok h t -> sec_ok h S.
Proof.
  intros h S P t H. induction H as [i pre post | i pre x post H IH]; intros Hok.
  - apply sec_ok_inv in Hok. destruct Hok as [_ F]. rewrite Forall_forall in F.
    apply F. apply in_elt.
  - apply sec_ok_inv in Hok. destruct Hok as [_ F]. rewrite Forall_forall in F.
    apply IH. apply F. apply in_elt.
Qed.

(* with all Sections non-empty, get_last_child() of the found Section is a node *)
Lemma trig_has_last : forall h t p s, repr h None t -> sec_ok h t ->
  find_trig h None t = Some (p, s) -> last_opt (kids h s) <> None.
Proof.
  intros h t p s Hr Hok Hf K.
  destruct (find_trig_cls _ _ _ _ _ Hf) as [_ Hc].
  destruct (find_trig_sib _ _ _ _ _ Hf) as [[A _]|(S & P & HS & HP & Hsib)]; [discriminate|].
  destruct (sib_repr _ _ _ Hsib _ _ Hr) as [q' HrS].
  pose proof (sib_sec_ok _ _ _ _ Hsib Hok) as HokS.
  destruct S as [sid kk]. simpl in HS. subst sid.
  apply kids_repr in HrS. rewrite HrS in K. apply last_opt_none in K.
  apply sec_ok_inv in HokS. destruct HokS as [H1 _].
  apply (H1 Hc). destruct kk; [reflexivity | discriminate].
Qed.

(* ================================================================ 5. termination of fix_paragraphs *)
Definition no_trigger (h : heap) (r : N) : Prop :=
  exists t, build (S (length h)) h r = Some t /\ find_trig h None t = None.

Section WithApi.
  (* C05/ProofsApi.v, lemma move_to_repr, verbatim *)
  Hypothesis move_to_repr : forall h t n tgt b s,
    repr h None t -> NoDup (ids t) -> In n (ids t) -> n <> tid t ->
    In tgt (ids t) -> tgt <> tid t -> t_find n t = Some s -> ~ In tgt (ids s) ->
    exists h', move_to h n tgt b = Ok h' /\
               repr h' None (t_insert tgt b s (t_replace n [] t)) /\
               NoDup (ids (t_insert tgt b s (t_replace n [] t))).

  (* one successful test of _fix_paragraphs: the move succeeds, the heap still represents a tree
     with the same root and the same number of nodes, and the depth sum grows *)
  Lemma fix_step_moves : forall h t p s l,
    repr h None t -> NoDup (ids t) ->
    find_trig h None t = Some (p, s) -> last_opt (kids h s) = Some l ->
    exists h' t', move_to h p l false = Ok h' /\ repr h' None t' /\ NoDup (ids t') /\
                  tid t' = tid t /\ tsize t' = tsize t /\ sdepth 0 t < sdepth 0 t' /\
                  (sec_ok h t -> sec_ok h' t') /\ ids t' = ids t.
  Proof.
    intros h t p s l Hr Hnd Hf Hl.
    destruct (find_trig_sib _ _ _ _ _ Hf) as [[A _]|(S & P & HS & HP & Hsib)]; [discriminate|].
    destruct (sib_repr _ _ _ Hsib _ _ Hr) as [q' HrS].
    destruct S as [sid kk]. simpl in HS. subst sid.
    apply kids_repr in HrS. rewrite HrS in Hl.
    destruct (last_opt_spec _ _ Hl) as [ks Hks].
    destruct (map_tid_snoc _ _ _ Hks) as (ks' & L & Ekk & HL).
    destruct (sib_adjm _ _ _ Hsib ks' L Ekk) as [t' Hadj].
    rewrite HP, HL in Hadj.
    destruct (adjm_facts _ _ _ _ _ Hadj Hnd) as (I1 & I2 & I3 & I4 & I5 & I6).
    destruct (move_to_repr h t p l false P Hr Hnd I1 I3 I2 I4 I5 I6) as (h' & M1 & M2 & M3).
    rewrite (adjm_ops _ _ _ _ _ Hadj Hnd) in M2, M3.
    exists h', t'. split; [exact M1|]. split; [exact M2|]. split; [exact M3|].
    split; [eapply adjm_tid; eassumption|]. split; [eapply adjm_tsize; eassumption|].
    split; [rewrite (adjm_sdepth _ _ _ _ _ Hadj 0); pose proof (tsize_pos P); lia|].
    split; [|eapply adjm_ids; eassumption].
    intros Hok. apply (sec_ok_same_tc h h'); [eapply same_tc_move_to; eassumption|].
    eapply adjm_sec_ok; eassumption.
  Qed.

  Lemma fix_paragraphs_gen : forall k h t,
    repr h None t -> NoDup (ids t) -> fp_measure t < k ->
    fix_paragraphs k h (tid t) <> OutOfFuel /\
    (forall h', fix_paragraphs k h (tid t) = Done h' -> WF h' (tid t) /\ no_trigger h' (tid t)).
  Proof.
    induction k as [|k IH]; intros h t Hr Hnd Hm; [lia|].
    simpl. unfold fix_step. rewrite (build_complete h t Hr Hnd).
    destruct (find_trig h None t) as [[p s]|] eqn:F.
    - destruct (last_opt (kids h s)) as [l|] eqn:L.
      + destruct (fix_step_moves h t p s l Hr Hnd F L) as (h1 & t1 & M & R1 & N1 & E1 & E2 & E3 & _ & _).
        rewrite M. rewrite <- E1. apply IH; auto.
        unfold fp_measure in *. rewrite E2. pose proof (sdepth0_le t1) as B. rewrite E2 in B.
        lia.
      + split; [discriminate|]. intros h' K. discriminate.
    - split; [discriminate|]. intros h' K. inversion K; subst h'. split.
      + exists t. auto.
      + exists t. split; [apply build_complete; assumption | exact F].
  Qed.

  (* refinement: if every Section of the tree has a child, nothing is raised *)
  Lemma fix_paragraphs_gen_no_raise : forall k h t,
    repr h None t -> NoDup (ids t) -> fp_measure t < k -> sec_ok h t ->
    exists h', fix_paragraphs k h (tid t) = Done h'.
  Proof.
    induction k as [|k IH]; intros h t Hr Hnd Hm Hok; [lia|].
    simpl. unfold fix_step. rewrite (build_complete h t Hr Hnd).
    destruct (find_trig h None t) as [[p s]|] eqn:F.
    - destruct (last_opt (kids h s)) as [l|] eqn:L.
      + destruct (fix_step_moves h t p s l Hr Hnd F L)
          as (h1 & t1 & M & R1 & N1 & E1 & E2 & E3 & E4 & _).
        rewrite M. rewrite <- E1. apply IH; auto.
        unfold fp_measure in *. rewrite E2. pose proof (sdepth0_le t1) as B. rewrite E2 in B.
        lia.
      + exfalso. eapply trig_has_last; eassumption.
    - exists h. reflexivity.
  Qed.

  Theorem fix_paragraphs_no_raise_H : forall h r, WF h r ->
    (forall t, tid t = r -> repr h None t ->
       forall i, In i (ids t) -> clsof h i = c_Section -> kids h i <> []) ->
    exists h', fix_paragraphs (fp_fuel h r) h r = Done h'.
  Proof.
    intros h r (t & Ht & Hr & Hnd) Hsec. subst r.
    unfold fp_fuel. rewrite (build_complete h t Hr Hnd).
    apply fix_paragraphs_gen_no_raise; auto; [unfold fp_measure; lia|].
    eapply sec_ok_of_heap; [exact Hr|]. apply Hsec; auto.
  Qed.

  (* C07 for this loop: the visible words do not change *)
  Lemma words_of_repr : forall h t, repr h None t -> NoDup (ids t) ->
    words h (tid t) = words_t h t.
  Proof. intros h t Hr Hnd. unfold words. rewrite (build_complete h t Hr Hnd). reflexivity. Qed.

  Lemma fix_paragraphs_gen_words : forall k h t h',
    repr h None t -> NoDup (ids t) ->
    fix_paragraphs k h (tid t) = Done h' -> words h' (tid t) = words h (tid t).
  Proof.
    induction k as [|k IH]; intros h t h' Hr Hnd; [discriminate|].
    simpl. unfold fix_step. rewrite (build_complete h t Hr Hnd).
    destruct (find_trig h None t) as [[p s]|] eqn:F.
    - destruct (last_opt (kids h s)) as [l|] eqn:L; [|discriminate].
      destruct (fix_step_moves h t p s l Hr Hnd F L)
        as (h1 & t1 & M & R1 & N1 & E1 & E2 & E3 & E4 & E5).
      rewrite M. intros K. rewrite <- E1 in K. rewrite <- E1 at 1.
      rewrite (IH h1 t1 h' R1 N1 K).
      rewrite (words_of_repr h1 t1 R1 N1), (words_of_repr h t Hr Hnd).
      rewrite (words_t_same_tc h h1 t1) by (eapply same_tc_move_to; eassumption).
      apply words_t_ids_eq. exact E5.
    - intros K. inversion K; subst h'. reflexivity.
  Qed.

  Theorem fix_paragraphs_terminates_H : forall h r, WF h r ->
    fix_paragraphs (fp_fuel h r) h r <> OutOfFuel /\
    (forall h', fix_paragraphs (fp_fuel h r) h r = Done h' -> WF h' r /\ no_trigger h' r).
  Proof.
    intros h r (t & Ht & Hr & Hnd). subst r.
    unfold fp_fuel. rewrite (build_complete h t Hr Hnd).
    apply fix_paragraphs_gen; auto. unfold fp_measure. lia.
  Qed.
End WithApi.

(* ================================================================ 6. remove_breaking_returns:
   the `while changed` loop terminates; the measure is the number of BreakingReturn nodes. *)
Lemma repr_root_par : forall h q t, repr h q t -> par h (tid t) = q.
Proof.
  intros h q [i ts] H. apply repr_inv in H. destruct H as (nd & Hg & Hp & _).
  unfold par. simpl. rewrite Hg. exact Hp.
Qed.

Lemma tree_parent : forall h t q c, repr h q t -> In c (ids t) -> c <> tid t ->
  exists p, par h c = Some p /\ In p (ids t) /\ In c (kids h p).
Proof.
  intros h t. induction t as [i ts IH] using tree_ind'. intros q c Hr Hc Hne.
  pose proof (kids_repr _ _ _ _ Hr) as Hk.
  apply repr_inv in Hr. destruct Hr as (nd & Hg & Hp & Hch & _ & Hf).
  rewrite ids_eq in Hc. destruct Hc as [->|Hc]; [simpl in Hne; congruence|].
  unfold idsl in Hc. apply in_flat_map in Hc. destruct Hc as (x & Hx & Hcx).
  rewrite Forall_forall in IH, Hf.
  destruct (N.eq_dec c (tid x)) as [->|Hn].
  - exists i. split; [apply repr_root_par; apply Hf; exact Hx|].
    split; [left; reflexivity|]. rewrite Hk. apply in_map. exact Hx.
  - destruct (IH x Hx (Some i) c (Hf x Hx) Hcx Hn) as (p & P1 & P2 & P3).
    exists p. split; [exact P1|]. split; [|exact P3].
    rewrite ids_eq. right. unfold idsl. apply in_flat_map. exists x. auto.
Qed.

Lemma kids_in_ids : forall h t q p c, repr h q t -> In p (ids t) -> In c (kids h p) ->
  In c (ids t).
Proof.
  intros h t. induction t as [i ts IH] using tree_ind'. intros q p c Hr Hp Hc.
  pose proof (kids_repr _ _ _ _ Hr) as Hk.
  apply repr_inv in Hr. destruct Hr as (nd & Hg & _ & Hch & _ & Hf).
  rewrite Forall_forall in IH, Hf.
  rewrite ids_eq in *. right. unfold idsl in *. apply in_flat_map.
  destruct Hp as [->|Hp].
  - rewrite Hk in Hc. apply in_map_iff in Hc. destruct Hc as (x & <- & Hx).
    exists x. split; [exact Hx | apply tid_in_ids].
  - apply in_flat_map in Hp. destruct Hp as (x & Hx & Hpx).
    exists x. split; [exact Hx|]. eapply IH; eauto.
Qed.

Lemma repr_frame : forall h h' t q, repr h q t ->
  (forall i, In i (ids t) -> get h' i = get h i) -> repr h' q t.
Proof.
  intros h h' t. induction t as [i ts IH] using tree_ind'. intros q Hr Hfr.
  apply repr_inv in Hr. destruct Hr as (nd & Hg & Hp & Hch & Htx & Hf).
  apply repr_T with (nd := nd); auto.
  - rewrite Hfr; [exact Hg | left; reflexivity].
  - rewrite Forall_forall in *. intros x Hx. apply IH; auto.
    intros j Hj. apply Hfr. rewrite ids_eq. right. unfold idsl. apply in_flat_map.
    exists x. auto.
Qed.

Lemma get_set_parent_other : forall h i q j, j <> i -> get (set_parent h i q) j = get h j.
Proof.
  intros h i q j Hn. unfold set_parent. destruct (get h i); [|reflexivity].
  unfold set. simpl. apply N.eqb_neq in Hn. rewrite Hn. reflexivity.
Qed.

Lemma get_set_kids_other : forall h i l j, j <> i -> get (set_kids h i l) j = get h j.
Proof.
  intros h i l j Hn. unfold set_kids. destruct (get h i); [|reflexivity].
  unfold set. simpl. apply N.eqb_neq in Hn. rewrite Hn. reflexivity.
Qed.

Lemma index_of_in : forall c l k, index_of c l = Some k -> In c l.
Proof.
  intros c l. induction l as [|x l IH]; intros k H; [discriminate|].
  simpl in H. destruct (N.eqb c x) eqn:E.
  - apply N.eqb_eq in E. left. auto.
  - destruct (index_of c l); [|discriminate]. right. eapply IH. reflexivity.
Qed.

Lemma remove_child_frame_get : forall h p c h1, remove_child h p c = Ok h1 ->
  In c (kids h p) /\ forall i, i <> p -> i <> c -> get h1 i = get h i.
Proof.
  intros h p c h1 H. unfold remove_child, replace_child in H.
  destruct (index_of c (kids h p)) as [k|] eqn:E; [|discriminate].
  inversion H; subst h1. split; [eapply index_of_in; eassumption|].
  intros i Hp Hc. simpl.
  rewrite get_set_parent_other by assumption. apply get_set_kids_other. assumption.
Qed.

Lemma count_le : forall h k t1 t, incl (ids t1) (ids t) -> NoDup (ids t1) ->
  count_cls h k t1 <= count_cls h k t.
Proof.
  intros h k t1 t Hi Hnd. unfold count_cls.
  apply NoDup_incl_length; [apply NoDup_filter; exact Hnd|].
  intros x Hx. apply filter_In in Hx. apply filter_In. destruct Hx. split; auto.
Qed.

Lemma count_lt : forall h k t1 t c, incl (ids t1) (ids t) -> NoDup (ids t1) ->
  In c (ids t) -> ~ In c (ids t1) -> clsof h c = k ->
  count_cls h k t1 < count_cls h k t.
Proof.
  intros h k t1 t c Hi Hnd Hc Hn Hk. unfold count_cls.
  apply (NoDup_incl_length (l := c :: filter (fun i => N.eqb (clsof h i) k) (ids t1))).
  - constructor; [|apply NoDup_filter; exact Hnd].
    intro K. apply filter_In in K. tauto.
  - intros x [<-|Hx].
    + apply filter_In. split; [exact Hc|]. apply N.eqb_eq. exact Hk.
    + apply filter_In in Hx. apply filter_In. destruct Hx. split; auto.
Qed.

Lemma count_cls_same_tc : forall h h' k t, same_tc h h' -> count_cls h' k t = count_cls h k t.
Proof.
  intros h h' k t H. unfold count_cls. f_equal. apply filter_ext.
  intros a. destruct (H a) as [_ ->]. reflexivity.
Qed.

Lemma count_br_eq : forall h t, repr h None t -> NoDup (ids t) ->
  count_br h (tid t) = count_cls h c_BR t.
Proof. intros h t Hr Hnd. unfold count_br. rewrite (build_complete h t Hr Hnd). reflexivity. Qed.

Section BRLoop.
  Variable cand : heap -> N -> list N.
  Variable r : N.

  (* C05/ProofsApi.v, lemma remove_child_repr, verbatim (disj unfolded) *)
  Hypothesis remove_child_repr : forall h t p c,
    repr h None t -> NoDup (ids t) -> In p (ids t) -> In c (kids h p) ->
    exists h', remove_child h p c = Ok h' /\
               repr h' None (t_replace c [] t) /\ NoDup (ids (t_replace c [] t)) /\
               (forall s, t_find c t = Some s ->
                          repr h' None s /\
                          (forall x, In x (ids (t_replace c [] t)) -> ~ In x (ids s))).

  (* the candidates computed on a proper tree (first/last leaf below node, the node before/after
     it) that are BreakingReturns are attached nodes of the tree below r, and not its root *)
  Hypothesis cand_attached : forall h node c, WF h r -> In c (cand h node) ->
    clsof h c = c_BR ->
    (forall t, tid t = r -> repr h None t -> In c (ids t)) /\ c <> r.

  (* one successful try_remove_node(c) with c.parent = p *)
  Lemma remove_step : forall h t p c h1,
    repr h None t -> NoDup (ids t) -> par h c = Some p -> remove_child h p c = Ok h1 ->
    exists t1, repr h1 None t1 /\ NoDup (ids t1) /\ tid t1 = tid t /\
               incl (ids t1) (ids t) /\ (In c (ids t) -> ~ In c (ids t1)).
  Proof.
    intros h t p c h1 Hr Hnd Hp Hrm.
    destruct (in_dec N.eq_dec c (ids t)) as [Hc|Hc].
    - assert (Hne : c <> tid t).
      { intro K. subst c. rewrite (repr_root_par _ _ _ Hr) in Hp. discriminate. }
      destruct (tree_parent _ _ _ _ Hr Hc Hne) as (p' & P1 & P2 & P3).
      rewrite Hp in P1. inversion P1; subst p'.
      destruct (remove_child_repr h t p c Hr Hnd P2 P3) as (h' & R1 & R2 & R3 & R4).
      rewrite Hrm in R1. inversion R1; subst h'.
      exists (t_replace c [] t). split; [exact R2|]. split; [exact R3|].
      split; [apply tid_replace|]. split; [apply ids_replace_nil_incl|].
      intros _. destruct (t_find c t) as [s|] eqn:F.
      + destruct (R4 s eq_refl) as [_ D]. intro K. apply (D _ K).
        destruct (t_find_some _ _ _ F) as [<- _]. apply tid_in_ids.
      + exfalso. apply (t_find_none_inv _ _ F Hc).
    - destruct (remove_child_frame_get _ _ _ _ Hrm) as [Hck Hfr].
      assert (Hpn : ~ In p (ids t)).
      { intro K. apply Hc. eapply kids_in_ids; eassumption. }
      exists t. split.
      + eapply repr_frame; [exact Hr|]. intros i Hi. apply Hfr; intro K; subst i; contradiction.
      + split; [exact Hnd|]. split; [reflexivity|]. split; [apply incl_refl|].
        intros K. contradiction.
  Qed.

  (* the for-loop over the candidates *)
  Lemma br_cands_inv : forall cs h t changed,
    repr h None t -> NoDup (ids t) ->
    (changed = false -> forall c, In c cs -> clsof h c = c_BR -> In c (ids t) /\ c <> tid t) ->
    match br_cands h changed cs with
    | PRaised => True
    | POk h' ch' =>
        exists t', repr h' None t' /\ NoDup (ids t') /\ tid t' = tid t /\ same_tc h h' /\
                   count_cls h c_BR t' <= count_cls h c_BR t /\
                   (changed = false -> ch' = true -> count_cls h c_BR t' < count_cls h c_BR t)
    end.
  Proof.
    induction cs as [|c cs IH]; intros h t changed Hr Hnd Hcs.
    - simpl. exists t. split; [exact Hr|]. split; [exact Hnd|]. split; [reflexivity|].
      split; [apply same_tc_refl|]. split; [lia|]. intros -> K. discriminate.
    - simpl. destruct (N.eqb (clsof h c) c_BR) eqn:E.
      + apply N.eqb_eq in E.
        destruct (par h c) as [p|] eqn:Hp.
        * destruct (remove_child h p c) as [h1|] eqn:Hrm; [|exact I].
          destruct (remove_step h t p c h1 Hr Hnd Hp Hrm) as (t1 & R1 & R2 & R3 & R4 & R5).
          pose proof (same_tc_remove_child _ _ _ _ Hrm) as S1.
          specialize (IH h1 t1 true R1 R2).
          destruct (br_cands h1 true cs) as [|h' ch']; [exact I|].
          destruct IH as (t' & Q1 & Q2 & Q3 & Q4 & Q5 & _); [intros K; discriminate|].
          rewrite !(count_cls_same_tc h h1) in Q5 by exact S1.
          pose proof (count_le h c_BR t1 t R4 R2) as Le.
          exists t'. split; [exact Q1|]. split; [exact Q2|]. split; [congruence|].
          split; [eapply same_tc_trans; eassumption|]. split; [lia|].
          intros Hch _. destruct (Hcs Hch c (or_introl eq_refl) E) as [Hc _].
          pose proof (count_lt h c_BR t1 t c R4 R2 Hc (R5 Hc) E). lia.
        * destruct changed.
          -- specialize (IH h t true Hr Hnd).
             destruct (br_cands h true cs) as [|h' ch']; [exact I|].
             destruct IH as (t' & Q1 & Q2 & Q3 & Q4 & Q5 & _); [intros K; discriminate|].
             exists t'. repeat (split; [assumption|]). intros K. discriminate.
          -- exfalso. destruct (Hcs eq_refl c (or_introl eq_refl) E) as [Hc Hne].
             destruct (tree_parent _ _ _ _ Hr Hc Hne) as (p' & P1 & _). congruence.
      + specialize (IH h t changed Hr Hnd).
        destruct (br_cands h changed cs) as [|h' ch']; [exact I|].
        apply IH. intros Hch c' Hc'. apply Hcs; [exact Hch | right; exact Hc'].
  Qed.

  Lemma br_loop_gen : forall node k h, WF h r -> count_br h r < k ->
    br_loop cand k h node <> OutOfFuel /\
    (forall h', br_loop cand k h node = Done h' -> WF h' r).
  Proof.
    intros node. induction k as [|k IH]; intros h Hwf Hk; [lia|].
    destruct Hwf as (t & Ht & Hr & Hnd).
    simpl. unfold br_pass.
    pose proof (br_cands_inv (cand h node) h t false Hr Hnd) as Inv.
    destruct (br_cands h false (cand h node)) as [|h' ch'].
    - split; [discriminate|]. intros ? K. discriminate.
    - destruct Inv as (t' & Q1 & Q2 & Q3 & Q4 & Q5 & Q6).
      { intros _ c Hc Hcls. rewrite Ht.
        destruct (cand_attached h node c (ex_intro _ t (conj Ht (conj Hr Hnd))) Hc Hcls) as [A B].
        split; [apply A; assumption | exact B]. }
      assert (Hwf' : WF h' r) by (exists t'; split; [congruence|]; split; assumption).
      destruct ch'.
      + apply IH; [exact Hwf'|].
        assert (E1 : count_br h' r = count_cls h c_BR t').
        { rewrite <- Ht, <- Q3, (count_br_eq h' t' Q1 Q2). apply count_cls_same_tc. exact Q4. }
        assert (E2 : count_br h r = count_cls h c_BR t).
        { rewrite <- Ht. apply count_br_eq; assumption. }
        specialize (Q6 eq_refl eq_refl). lia.
      + split; [discriminate|]. intros h'' K. inversion K; subst h''. exact Hwf'.
  Qed.

  Theorem breaking_returns_terminates_H : forall h node, WF h r ->
    br_loop cand (S (count_br h r)) h node <> OutOfFuel /\
    (forall h', br_loop cand (S (count_br h r)) h node = Done h' -> WF h' r).
  Proof. intros h node Hwf. apply br_loop_gen; [exact Hwf | lia]. Qed.
End BRLoop.

(* ================================================================ 7. closed statements
   (the Section hypotheses instantiated with the lemmas of C05/ProofsApi.v) *)
Theorem C06_fix_paragraphs_terminates : forall h r, WF h r ->
  fix_paragraphs (fp_fuel h r) h r <> OutOfFuel /\
  (forall h', fix_paragraphs (fp_fuel h r) h r = Done h' -> WF h' r /\ no_trigger h' r).
Proof. exact (fix_paragraphs_terminates_H ProofsApi.move_to_repr). Qed.

(* each step strictly decreases the explicit measure fp_measure (tree level) *)
Theorem C06_fix_paragraphs_measure : forall h t p s l,
  repr h None t -> NoDup (ids t) ->
  find_trig h None t = Some (p, s) -> last_opt (kids h s) = Some l ->
  exists h' t', move_to h p l false = Ok h' /\ repr h' None t' /\ NoDup (ids t') /\
                tid t' = tid t /\ fp_measure t' < fp_measure t.
Proof.
  intros h t p s l Hr Hnd Hf Hl.
  destruct (fix_step_moves ProofsApi.move_to_repr h t p s l Hr Hnd Hf Hl)
    as (h' & t' & M & R & N' & E1 & E2 & E3 & _ & _).
  exists h', t'. repeat (split; [assumption|]).
  unfold fp_measure. rewrite E2. pose proof (sdepth0_le t') as B. rewrite E2 in B. lia.
Qed.

Theorem C06_breaking_returns_terminates : forall (cand : heap -> N -> list N) (r : N),
  (forall h node c, WF h r -> In c (cand h node) -> clsof h c = c_BR ->
     (forall t, tid t = r -> repr h None t -> In c (ids t)) /\ c <> r) ->
  forall h node, WF h r ->
  br_loop cand (S (count_br h r)) h node <> OutOfFuel /\
  (forall h', br_loop cand (S (count_br h r)) h node = Done h' -> WF h' r).
Proof.
  intros cand r Hc. exact (breaking_returns_terminates_H cand r ProofsApi.remove_child_repr Hc).
Qed.

Theorem C06_fix_paragraphs_no_raise : forall h r, WF h r ->
  (forall t, tid t = r -> repr h None t ->
     forall i, In i (ids t) -> clsof h i = c_Section -> kids h i <> []) ->
  exists h', fix_paragraphs (fp_fuel h r) h r = Done h'.
Proof. exact (fix_paragraphs_no_raise_H ProofsApi.move_to_repr). Qed.

(* C07 for fix_paragraphs: whatever the fuel, a finished run has not changed the visible words *)
Theorem fix_paragraphs_keeps_words : forall k h r h', WF h r ->
  fix_paragraphs k h r = Done h' -> words h' r = words h r.
Proof.
  intros k h r h' (t & Ht & Hr & Hnd) K. subst r.
  eapply (fix_paragraphs_gen_words ProofsApi.move_to_repr); eassumption.
Qed.
