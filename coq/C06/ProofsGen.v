(* C06 — the generated static obligation: every attribute the cleaner uses exists. *)
From Coq Require Import List String Bool.
From MW Require Import C06.Gen_api.
Import ListNotations.

Fixpoint mem_s (x : string) (l : list string) : bool :=
  match l with [] => false | y :: r => String.eqb x y || mem_s x r end.
Definition inclb (a b : list string) : bool := forallb (fun x => mem_s x b) a.

Lemma mem_s_In : forall x l, mem_s x l = true -> In x l.
Proof.
  induction l as [|y r IH]; simpl; [discriminate|].
  intro H. apply orb_true_iff in H. destruct H as [H|H].
  - left. apply String.eqb_eq in H. congruence.
  - right. auto.
Qed.

Lemma inclb_incl : forall a b, inclb a b = true -> incl a b.
Proof.
  intros a b H x Hx. unfold inclb in H. rewrite forallb_forall in H. apply mem_s_In. auto.
Qed.

(* attribute names used by the cleaner that nothing defines (empty on a healthy tree) *)
Definition missing_attrs : list string := filter (fun x => negb (mem_s x (defined ++ builtin))) used.

Lemma api_closed : incl used (defined ++ builtin).
Proof. apply inclb_incl. vm_compute. reflexivity. Qed.

Lemma cleaner_methods_exist : incl cleaner_methods tc_methods.
Proof. apply inclb_incl. vm_compute. reflexivity. Qed.

Lemma cleaner_methods_nonempty : cleaner_methods <> [] /\ used <> [].
Proof. split; vm_compute; discriminate. Qed.
