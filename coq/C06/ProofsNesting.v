(* C06/C07 — fix_nesting (treecleaner.py:850-904, "loose"): termination with the explicit bound
   "number of (node, forbidden visible ancestor) pairs", preservation of the in-order words and of
   distinct identities by every iteration, and the postcondition.  Model: C06/ModelNesting.v (labelled
   trees; identity-based marks = the behaviour after /verif/fixes/C07-fix-nesting-identity.diff).
   All statements hold for ANY forbidden_parents table `forb` and ANY outside_parents_invisible set
   `invis`.

   Why the pair count decreases although the path is copied three times: _fix_nesting visits in
   preorder and repairs the FIRST broken node n; every ancestor of n (the bad parent B and the path
   B > p1 > .. > n in particular) was visited before and found NOT broken, i.e. has no forbidden visible
   ancestor.  The copies of B / p_j hang under the same classes (top, bottom) or under the same classes
   minus B (middle; B is not an "invisible" class because n saw it), so they still contribute 0 pairs.
   Nodes left / right of the path exist once, under ancestors of the same classes.  The nodes below n
   lose the ancestor B: none gains a pair and n loses the pair (n, B). *)
From Coq Require Import List NArith Bool Arith Lia.
From MW Require Import C05.Heap C05.TreeOps C06.ModelNesting.
From MW Require C05.ProofsApi.
Import ListNotations.
Import C05.ProofsApi.

Lemma ltree_ind' (P : ltree -> Prop) :
  (forall a ts, Forall P ts -> P (L a ts)) -> forall t, P t.
Proof.
  intros H. fix IH 1. intros [a ts]. apply H.
  induction ts as [|x r IHr]; constructor; [apply IH | exact IHr].
Qed.

(* ================================================================ 0. lists, sums, counts *)
Lemma list_sum_app' : forall l1 l2, list_sum (l1 ++ l2) = list_sum l1 + list_sum l2.
Proof. induction l1 as [|a l1 IH]; intros; simpl; [reflexivity|]. rewrite IH. lia. Qed.

Lemma list_sum_map_le : forall {A} (f g : A -> nat) l,
  Forall (fun x => f x <= g x) l -> list_sum (map f l) <= list_sum (map g l).
Proof.
  intros A f g l H. induction H as [|x l Hx Hl IH]; simpl; [apply Nat.le_refl|]. lia.
Qed.

Lemma list_sum_map_eq : forall {A} (f g : A -> nat) l,
  Forall (fun x => f x = g x) l -> list_sum (map f l) = list_sum (map g l).
Proof.
  intros A f g l H. induction H as [|x l Hx Hl IH]; simpl; [reflexivity|]. lia.
Qed.

Definition nsum (f : ltree -> nat) (l : list ltree) : nat := list_sum (map f l).
Lemma nsum_app : forall f l1 l2, nsum f (l1 ++ l2) = nsum f l1 + nsum f l2.
Proof. intros. unfold nsum. rewrite map_app. apply list_sum_app'. Qed.
Lemma nsum_cons : forall f x l, nsum f (x :: l) = f x + nsum f l.
Proof. reflexivity. Qed.
Lemma nsum_nil : forall f, nsum f [] = 0.
Proof. reflexivity. Qed.

Lemma lids_eq : forall a ts, lids (L a ts) = l_id a :: flat_map lids ts.
Proof. reflexivity. Qed.
Lemma lwords_eq : forall a ts, lwords (L a ts) = l_words a ++ flat_map lwords ts.
Proof. reflexivity. Qed.
Lemma lid_in_lids : forall t, In (lid t) (lids t).
Proof. intros [a ts]. left. reflexivity. Qed.

Lemma cnt_lids : forall i a ts,
  cnt i (lids (L a ts)) = (if N.eqb (l_id a) i then 1 else 0) + cnt i (flat_map lids ts).
Proof. intros. rewrite lids_eq. apply cnt_cons. Qed.

Lemma cnt_in_pos : forall i l, In i l -> 1 <= cnt i l.
Proof. intros i l H. apply In_cnt in H. lia. Qed.
Lemma cnt_pos_in : forall i l, 1 <= cnt i l -> In i l.
Proof. intros i l H. apply In_cnt. lia. Qed.

(* a child's ids are among the parent's *)
Lemma cnt_kid_le : forall i (y : ltree) l, In y l -> cnt i (lids y) <= cnt i (flat_map lids l).
Proof. intros. apply cnt_flat_map_in. assumption. Qed.

(* ================================================================ 1. relabelling *)
Lemma lids_lmap : forall f t, lids (lmap f t) = map f (lids t).
Proof.
  intros f. induction t as [a ts IH] using ltree_ind'. simpl. f_equal.
  induction IH as [|x r Hx Hr IHr]; simpl; [reflexivity|]. rewrite map_app, Hx, IHr. reflexivity.
Qed.

Lemma lwords_lmap : forall f t, lwords (lmap f t) = lwords t.
Proof.
  intros f. induction t as [a ts IH] using ltree_ind'. simpl. f_equal.
  induction IH as [|x r Hx Hr IHr]; simpl; [reflexivity|]. rewrite Hx, IHr. reflexivity.
Qed.

Lemma leafwords_lmap : forall f t, leafwords (lmap f t) = leafwords t.
Proof.
  intros f. induction t as [a ts IH] using ltree_ind'. simpl. f_equal.
  - destruct ts; reflexivity.
  - induction IH as [|x r Hx Hr IHr]; simpl; [reflexivity|]. rewrite Hx, IHr. reflexivity.
Qed.

Lemma lwords_erase : forall h exc t, lwords (lt_of h exc t) = words_t h t.
Proof.
  intros h exc. fix IH 1. intros [i ts]. simpl. f_equal.
  induction ts as [|x r IHr]; simpl; [reflexivity|]. rewrite IH, IHr. reflexivity.
Qed.

Lemma erase_lt_of : forall h exc t, erase (lt_of h exc t) = t.
Proof.
  intros h exc. fix IH 1. intros [i ts]. simpl. f_equal.
  induction ts as [|x r IHr]; simpl; [reflexivity|]. rewrite IH, IHr. reflexivity.
Qed.

Lemma lids_erase : forall t, ids (erase t) = lids t.
Proof.
  induction t as [a ts IH] using ltree_ind'. simpl. f_equal.
  induction IH as [|x r Hx Hr IHr]; simpl; [reflexivity|]. rewrite Hx, IHr. reflexivity.
Qed.

(* ================================================================ 2. ancestors, visibility, the measure *)
(* remove the ancestor number d *)
Fixpoint rm (d : nat) (l : list N) : list N :=
  match l, d with
  | [], _ => []
  | _ :: r, O => r
  | a :: r, S d' => a :: rm d' r
  end.

Section Nest.
  Variable forb : N -> N -> bool.
  Variable invis : N -> bool.

  Notation visible := (visible invis).
  Notation bad_idx := (bad_idx forb invis).
  Notation nbad := (nbad forb invis).
  Notation npairs := (npairs forb invis).
  Notation nest_ok := (nest_ok forb invis).

  (* the ancestor number d, if any, is not of an "invisible" class *)
  Definition vis_at (d : nat) (anc : list N) : Prop := forall b, nth_error anc d = Some b -> invis b = false.

  Lemma nbad_nil : forall k, nbad [] k = 0.
  Proof. reflexivity. Qed.
  Lemma nbad_cons : forall a r k,
    nbad (a :: r) k = if invis a then 0 else (if forb k a then 1 else 0) + nbad r k.
  Proof.
    intros. unfold ModelNesting.nbad. simpl. destruct (invis a); [reflexivity|]. simpl.
    destruct (forb k a); reflexivity.
  Qed.

  Lemma bad_idx_nil : forall k, bad_idx [] k = None.
  Proof. reflexivity. Qed.
  Lemma bad_idx_cons : forall a r k,
    bad_idx (a :: r) k = if invis a then None
                         else if forb k a then Some O
                              else match bad_idx r k with Some d => Some (S d) | None => None end.
  Proof. intros. unfold ModelNesting.bad_idx. simpl. destruct (invis a); reflexivity. Qed.

  Lemma bad_idx_none : forall anc k, bad_idx anc k = None <-> nbad anc k = 0.
  Proof.
    induction anc as [|a r IH]; intros k.
    - rewrite bad_idx_nil, nbad_nil. tauto.
    - rewrite bad_idx_cons, nbad_cons. destruct (invis a); [tauto|].
      destruct (forb k a).
      + split; [discriminate | lia].
      + specialize (IH k). destruct (bad_idx r k).
        * split; [discriminate|]. intro H. simpl in H. apply IH in H. discriminate.
        * simpl. tauto.
  Qed.

  Lemma bad_idx_some : forall anc k d, bad_idx anc k = Some d ->
    vis_at d anc /\ nbad (rm d anc) k + 1 <= nbad anc k.
  Proof.
    induction anc as [|a r IH]; intros k d H.
    - rewrite bad_idx_nil in H. discriminate.
    - rewrite bad_idx_cons in H. destruct (invis a) eqn:Ei; [discriminate|].
      destruct (forb k a) eqn:Ef.
      + inversion H; subst d. split.
        * intros b Hb. simpl in Hb. inversion Hb; subst. exact Ei.
        * simpl rm. rewrite nbad_cons, Ei, Ef. lia.
      + destruct (bad_idx r k) as [d'|] eqn:Eb; [|discriminate]. inversion H; subst d.
        destruct (IH k d' Eb) as [Hv Hn]. split.
        * intros b Hb. simpl in Hb. apply Hv. exact Hb.
        * simpl rm. rewrite !nbad_cons, Ei, Ef. lia.
  Qed.

  Lemma nbad_rm_le : forall anc d k, vis_at d anc -> nbad (rm d anc) k <= nbad anc k.
  Proof.
    induction anc as [|a r IH]; intros d k Hv.
    - destruct d; apply Nat.le_refl.
    - destruct d as [|d'].
      + simpl rm. rewrite nbad_cons. rewrite (Hv a eq_refl). lia.
      + simpl rm. rewrite !nbad_cons. destruct (invis a); [lia|].
        assert (Hv' : vis_at d' r) by (intros b Hb; apply Hv; exact Hb).
        specialize (IH d' k Hv'). lia.
  Qed.

  Lemma npairs_eq : forall anc a ts,
    npairs anc (L a ts) = nbad anc (l_cls a) + nsum (npairs (l_cls a :: anc)) ts.
  Proof. reflexivity. Qed.

  Lemma npairs_rm_le : forall t d anc, vis_at d anc -> npairs (rm d anc) t <= npairs anc t.
  Proof.
    induction t as [a ts IH] using ltree_ind'. intros d anc Hv. rewrite !npairs_eq.
    pose proof (nbad_rm_le anc d (l_cls a) Hv) as H1.
    assert (H2 : nsum (npairs (l_cls a :: rm d anc)) ts <= nsum (npairs (l_cls a :: anc)) ts).
    { unfold nsum. apply list_sum_map_le. rewrite Forall_forall in *. intros x Hx.
      change (l_cls a :: rm d anc) with (rm (S d) (l_cls a :: anc)). apply IH; [exact Hx|].
      intros b Hb. apply Hv. exact Hb. }
    lia.
  Qed.

  Lemma npairs_lmap : forall f t anc, npairs anc (lmap f t) = npairs anc t.
  Proof.
    intros f. induction t as [a ts IH] using ltree_ind'. intros anc. simpl lmap. rewrite !npairs_eq.
    simpl l_cls. f_equal. unfold nsum. rewrite map_map. apply list_sum_map_eq.
    rewrite Forall_forall in *. intros x Hx. apply IH. exact Hx.
  Qed.
End Nest.

(* ================================================================ 3. marks and filters *)
Definition keepl (flt : mark -> bool) (ms : list mtree) : list ltree :=
  flat_map (fun c => if flt (mmark c) then [] else [filt flt c]) ms.

Lemma filt_eq : forall flt m a ms, filt flt (MT m a ms) = L a (keepl flt ms).
Proof. reflexivity. Qed.
Lemma keepl_app : forall flt l1 l2, keepl flt (l1 ++ l2) = keepl flt l1 ++ keepl flt l2.
Proof. intros. unfold keepl. apply flat_map_app. Qed.
Lemma keepl_cons : forall flt c l,
  keepl flt (c :: l) = (if flt (mmark c) then [] else [filt flt c]) ++ keepl flt l.
Proof. reflexivity. Qed.

Lemma mark_kids_none : forall indiv isprob mk r,
  Forall (fun y => indiv y = false) r ->
  forall got, mark_kids indiv isprob mk got r = map (mk (if got then MBot else MTop)) r.
Proof.
  intros indiv isprob mk r H. induction H as [|y r Hy Hr IH]; intros got; [reflexivity|].
  simpl. rewrite Hy, IH. reflexivity.
Qed.

(* _mark_nodes on the children of an unmarked node exactly one of which is `in divide` *)
Lemma mark_kids_split : forall indiv isprob mk l c r,
  Forall (fun y => indiv y = false) l -> indiv c = true -> Forall (fun y => indiv y = false) r ->
  mark_kids indiv isprob mk false (l ++ c :: r)
  = map (mk MTop) l ++ mk (if isprob c then MProb else MNone) c :: map (mk MBot) r.
Proof.
  intros indiv isprob mk l c r Hl Hc Hr. induction Hl as [|y l Hy Hl IH].
  - simpl. rewrite Hc. f_equal. apply (mark_kids_none indiv isprob mk r Hr true).
  - simpl. rewrite Hy. f_equal. exact IH.
Qed.

Section MarkFacts.
  Variable eqn : ltree -> ltree -> bool.
  Variable divide : list ltree.
  Variable prob : ltree.
  Notation mark_t := (mark_t eqn divide prob).

  Lemma mark_t_eq : forall m a ts,
    mark_t m (L a ts)
    = MT m a (match m with
              | MNone => mark_kids (fun c => existsb (eqn c) divide) (fun c => eqn c prob) mark_t false ts
              | _ => map (mark_t m) ts
              end).
  Proof. intros. destruct m; reflexivity. Qed.

  Lemma mmark_mark_t : forall m t, mmark (mark_t m t) = m.
  Proof. intros m [a ts]. rewrite mark_t_eq. reflexivity. Qed.

  (* a marked subtree whose mark is not filtered is kept entirely ... *)
  Lemma filt_keep : forall flt m, m <> MNone -> flt m = false ->
    forall t, filt flt (mark_t m t) = t.
  Proof.
    intros flt m Hm Hf. induction t as [a ts IH] using ltree_ind'.
    rewrite mark_t_eq, filt_eq. f_equal.
    assert (E : keepl flt (map (mark_t m) ts) = ts).
    { induction IH as [|x r Hx Hr IHr]; [reflexivity|].
      simpl map. rewrite keepl_cons, mmark_mark_t, Hf, Hx, IHr. reflexivity. }
    destruct m; [congruence | exact E | exact E | exact E].
  Qed.

  Lemma keepl_keep : forall flt m, m <> MNone -> flt m = false ->
    forall l, keepl flt (map (mark_t m) l) = l.
  Proof.
    intros flt m Hm Hf. induction l as [|x r IH]; [reflexivity|].
    simpl map. rewrite keepl_cons, mmark_mark_t, Hf, (filt_keep flt m Hm Hf), IH. reflexivity.
  Qed.

  (* ... and one whose mark is filtered disappears *)
  Lemma keepl_drop : forall flt m, flt m = true -> forall l, keepl flt (map (mark_t m) l) = [].
  Proof.
    intros flt m Hf. induction l as [|x r IH]; [reflexivity|].
    simpl map. rewrite keepl_cons, mmark_mark_t, Hf, IH. reflexivity.
  Qed.

  (* what one filtered copy keeps of a child that got mark m *)
  Definition keep (flt : mark -> bool) (m : mark) (c : ltree) : list ltree :=
    if flt m then [] else [filt flt (mark_t m c)].

  (* the three filtered copies of a path node: everything left of the path child goes to the top copy,
     everything right of it to the bottom copy, the middle copy keeps the path child only *)
  Lemma filt_path_node : forall a l c r,
    Forall (fun y => existsb (eqn y) divide = false) l -> existsb (eqn c) divide = true ->
    Forall (fun y => existsb (eqn y) divide = false) r ->
    let mc := if eqn c prob then MProb else MNone in
    filt ftop (mark_t MNone (L a (l ++ c :: r))) = L a (l ++ keep ftop mc c) /\
    filt fmid (mark_t MNone (L a (l ++ c :: r))) = L a (keep fmid mc c) /\
    filt fbot (mark_t MNone (L a (l ++ c :: r))) = L a (keep fbot mc c ++ r).
  Proof.
    intros a l c r Hl Hc Hr mc. rewrite mark_t_eq.
    rewrite (mark_kids_split _ _ mark_t l c r Hl Hc Hr). fold mc. rewrite !filt_eq.
    rewrite !keepl_app, !keepl_cons, !mmark_mark_t. unfold keep.
    rewrite (keepl_keep ftop MTop), (keepl_drop ftop MBot), (keepl_drop fmid MTop), (keepl_drop fmid MBot),
            (keepl_drop fbot MTop), (keepl_keep fbot MBot); try reflexivity; try discriminate.
    rewrite !app_nil_r. simpl. auto.
  Qed.
End MarkFacts.

(* ================================================================ 4. distinct identities *)
Lemma nodup_kid_nodup : forall a l c r, NoDup (lids (L a (l ++ c :: r))) -> NoDup (lids c).
Proof.
  intros a l c r H. rewrite NoDup_cnt in *. intro i. specialize (H i).
  rewrite cnt_lids, cnt_flat_map_app, cnt_flat_map_cons in H. lia.
Qed.

Lemma nodup_root_fresh : forall a ts i, NoDup (lids (L a ts)) -> In i (flat_map lids ts) -> i <> l_id a.
Proof.
  intros a ts i H Hi E. subst i. rewrite NoDup_cnt in H. specialize (H (l_id a)).
  rewrite cnt_lids, N.eqb_refl in H. apply cnt_in_pos in Hi. lia.
Qed.

Lemma nodup_kid_disj : forall a l c r y i, NoDup (lids (L a (l ++ c :: r))) ->
  In y (l ++ r) -> In i (lids y) -> In i (lids c) -> False.
Proof.
  intros a l c r y i H Hy Hiy Hic. rewrite NoDup_cnt in H. specialize (H i).
  rewrite cnt_lids, cnt_flat_map_app, cnt_flat_map_cons in H.
  apply cnt_in_pos in Hiy. apply cnt_in_pos in Hic. apply in_app_or in Hy. destruct Hy as [Hy|Hy].
  - pose proof (cnt_kid_le i y l Hy). lia.
  - pose proof (cnt_kid_le i y r Hy). lia.
Qed.

Lemma in_kid_lids : forall a l c r i, In i (lids c) -> In i (lids (L a (l ++ c :: r))).
Proof.
  intros a l c r i H. rewrite lids_eq. right. apply in_flat_map. exists c. split; [|exact H].
  apply in_or_app. right. left. reflexivity.
Qed.

Lemma existsb_eq_id : forall y DIV, existsb (eq_id y) DIV = true <-> In (lid y) (map lid DIV).
Proof.
  intros y DIV. rewrite existsb_exists, in_map_iff. split.
  - intros (q & Hq & E). unfold eq_id in E. apply N.eqb_eq in E. exists q. auto.
  - intros (q & E & Hq). exists q. split; [exact Hq|]. unfold eq_id. apply N.eqb_eq. auto.
Qed.

Lemma existsb_eq_id_false : forall y DIV, ~ In (lid y) (map lid DIV) -> existsb (eq_id y) DIV = false.
Proof.
  intros y DIV H. destruct (existsb (eq_id y) DIV) eqn:E; [|reflexivity].
  apply existsb_eq_id in E. contradiction.
Qed.

(* ================================================================ 5. the path and the split *)
Section Nest2.
  Variable forb : N -> N -> bool.
  Variable invis : N -> bool.

  Notation bad_idx := (bad_idx forb invis).
  Notation nbad := (nbad forb invis).
  Notation npairs := (npairs forb invis).
  Notation nest_ok := (nest_ok forb invis).
  Notation vis_at := (vis_at invis).

  (* pchain anc c div p d: below c (whose ancestors have classes anc) the preorder search stopped at the
     problem node p; div = the nodes from c down to p; no node of div but p is an exception or broken;
     p's bad parent is the ancestor number d of c *)
  Inductive pchain : list N -> ltree -> list ltree -> ltree -> nat -> Prop :=
  | pc_here : forall anc a ts d, l_exc a = false -> bad_idx anc (l_cls a) = Some d ->
      pchain anc (L a ts) [L a ts] (L a ts) d
  | pc_down : forall anc a l c r div p d, l_exc a = false -> bad_idx anc (l_cls a) = None ->
      pchain (l_cls a :: anc) c div p (S d) ->
      pchain anc (L a (l ++ c :: r)) (L a (l ++ c :: r) :: div) p d.

  (* psplit anc c d tl ml bl: what the top / middle / bottom copy keep of the path node c
     (tl, bl: nothing for the problem node itself, else one tree; ml: one tree) *)
  Inductive psplit : list N -> ltree -> nat -> list ltree -> list ltree -> list ltree -> Prop :=
  | ps_here : forall anc a ts d, bad_idx anc (l_cls a) = Some d ->
      psplit anc (L a ts) d [] [L a ts] []
  | ps_down : forall anc a l c r d tl ml bl, bad_idx anc (l_cls a) = None ->
      psplit (l_cls a :: anc) c (S d) tl ml bl ->
      psplit anc (L a (l ++ c :: r)) d [L a (l ++ tl)] [L a ml] [L a (bl ++ r)].

  Lemma pchain_facts : forall anc c div p d, pchain anc c div p d ->
    (exists rest, div = c :: rest) /\ (forall q, In q div -> In (lid q) (lids c)) /\ In (lid p) (lids c).
  Proof.
    intros anc c div p d H. induction H as [anc a ts d He Hb | anc a l c r div p d He Hb Hc IH].
    - split; [exists []; reflexivity|]. split.
      + intros q [<-|[]]. apply lid_in_lids.
      + apply lid_in_lids.
    - destruct IH as ((rest & ->) & Hq & Hp). split; [eexists; reflexivity|]. split.
      + intros q [<-|Hin]; [apply lid_in_lids|]. apply in_kid_lids. apply Hq. exact Hin.
      + apply in_kid_lids. exact Hp.
  Qed.

  (* one level of the path: under distinct identities exactly the path child is `in divide` *)
  Lemma path_level : forall DIV a l c r anc div p d, pchain anc c div p d ->
    NoDup (lids (L a (l ++ c :: r))) ->
    (forall q, In q div -> In (lid q) (map lid DIV)) ->
    (forall i, In i (map lid DIV) -> In i (lids (L a (l ++ c :: r))) ->
               In i (map lid (L a (l ++ c :: r) :: div))) ->
    Forall (fun y => existsb (eq_id y) DIV = false) l /\ existsb (eq_id c) DIV = true /\
    Forall (fun y => existsb (eq_id y) DIV = false) r /\ eq_id (L a (l ++ c :: r)) p = false /\
    (forall i, In i (map lid DIV) -> In i (lids c) -> In i (map lid div)).
  Proof.
    intros DIV a l c r anc div p d Hc Hnd H1 H2.
    destruct (pchain_facts _ _ _ _ _ Hc) as ((rest & Ediv) & Fq & Fp).
    assert (Hside : forall y, In y (l ++ r) -> existsb (eq_id y) DIV = false).
    { intros y Hy. apply existsb_eq_id_false. intro Hin.
      assert (Hyk : In (lid y) (flat_map lids (l ++ c :: r))).
      { apply in_flat_map. exists y. split; [|apply lid_in_lids].
        apply in_app_or in Hy. apply in_or_app. destruct Hy as [Hy|Hy]; [left; exact Hy|right; right; exact Hy]. }
      assert (Hyx : In (lid y) (lids (L a (l ++ c :: r)))) by (rewrite lids_eq; right; exact Hyk).
      specialize (H2 _ Hin Hyx). simpl in H2. destruct H2 as [E|Hd].
      - eapply (nodup_root_fresh a (l ++ c :: r) (lid y)); [exact Hnd|exact Hyk|symmetry; exact E].
      - apply in_map_iff in Hd. destruct Hd as (q & Eq & Hq).
        apply (nodup_kid_disj a l c r y (lid y) Hnd Hy (lid_in_lids y)). rewrite <- Eq. apply Fq. exact Hq. }
    split; [|split; [|split; [|split]]].
    - apply Forall_forall. intros y Hy. apply Hside. apply in_or_app. left. exact Hy.
    - apply existsb_eq_id. apply H1. rewrite Ediv. left. reflexivity.
    - apply Forall_forall. intros y Hy. apply Hside. apply in_or_app. right. exact Hy.
    - unfold eq_id. apply N.eqb_neq. intro E. unfold lid in E. simpl in E.
      eapply (nodup_root_fresh a (l ++ c :: r) (lid p)); [exact Hnd| |symmetry; exact E].
      apply in_flat_map. exists c. split; [apply in_or_app; right; left; reflexivity | exact Fp].
    - intros i Hi Hic. specialize (H2 i Hi (in_kid_lids a l c r i Hic)). simpl in H2.
      destruct H2 as [E|Hd]; [|exact Hd]. exfalso.
      eapply (nodup_root_fresh a (l ++ c :: r) i); [exact Hnd| |symmetry; exact E].
      apply in_flat_map. exists c. split; [apply in_or_app; right; left; reflexivity | exact Hic].
  Qed.

  (* with identity marks and distinct identities, _mark_nodes + _filter_tree compute the split *)
  Lemma pchain_psplit : forall DIV anc c div p d, pchain anc c div p d ->
    NoDup (lids c) ->
    (forall q, In q div -> In (lid q) (map lid DIV)) ->
    (forall i, In i (map lid DIV) -> In i (lids c) -> In i (map lid div)) ->
    let mc := if eq_id c p then MProb else MNone in
    psplit anc c d (keep eq_id DIV p ftop mc c) (keep eq_id DIV p fmid mc c) (keep eq_id DIV p fbot mc c).
  Proof.
    intros DIV anc c div p d H.
    induction H as [anc a ts d He Hb | anc a l c r div p d He Hb Hc IH]; intros Hnd H1 H2 mc.
    - unfold mc, eq_id. rewrite N.eqb_refl. unfold keep.
      change (ftop MProb) with true. change (fbot MProb) with true. change (fmid MProb) with false.
      cbv iota. rewrite filt_keep; [|discriminate|reflexivity]. apply ps_here. exact Hb.
    - assert (H1' : forall q, In q div -> In (lid q) (map lid DIV)) by (intros q Hq; apply H1; right; exact Hq).
      destruct (path_level DIV a l c r _ _ _ _ Hc Hnd H1' H2) as (Hl & Hc_in & Hr & Hxp & H2').
      unfold mc. rewrite Hxp. unfold keep.
      change (ftop MNone) with false. change (fbot MNone) with false. change (fmid MNone) with false.
      cbv iota.
      destruct (filt_path_node eq_id DIV p a l c r Hl Hc_in Hr) as (E1 & E2 & E3).
      rewrite E1, E2, E3.
      apply ps_down; [exact Hb|]. apply IH; [eapply nodup_kid_nodup; exact Hnd | exact H1' | exact H2'].
  Qed.

  Lemma psplit_vis : forall anc c d tl ml bl, psplit anc c d tl ml bl -> vis_at d anc.
  Proof.
    intros anc c d tl ml bl H. induction H as [anc a ts d Hb | anc a l c r d tl ml bl Hb Hs IH].
    - apply (bad_idx_some forb invis anc (l_cls a) d Hb).
    - intros b Hn. apply IH. exact Hn.
  Qed.

  Lemma psplit_mid_single : forall anc c d tl ml bl, psplit anc c d tl ml bl -> exists m, ml = [m].
  Proof. intros anc c d tl ml bl H. destruct H; eexists; reflexivity. Qed.

  (* the pair count of the three parts, the middle one read WITHOUT the bad parent among its ancestors,
     is smaller than the pair count of the path node *)
  Lemma psplit_measure : forall anc c d tl ml bl, psplit anc c d tl ml bl ->
    nsum (npairs anc) tl + nsum (npairs (rm d anc)) ml + nsum (npairs anc) bl + 1 <= npairs anc c.
  Proof.
    intros anc c d tl ml bl H. induction H as [anc a ts d Hb | anc a l c r d tl ml bl Hb Hs IH].
    - rewrite nsum_nil, nsum_cons, nsum_nil, !npairs_eq.
      destruct (bad_idx_some forb invis anc (l_cls a) d Hb) as [Hv Hn].
      assert (H2 : nsum (npairs (l_cls a :: rm d anc)) ts <= nsum (npairs (l_cls a :: anc)) ts).
      { unfold nsum. apply list_sum_map_le. apply Forall_forall. intros x Hx.
        change (l_cls a :: rm d anc) with (rm (S d) (l_cls a :: anc)). apply npairs_rm_le.
        intros b Hn'. apply Hv. exact Hn'. }
      lia.
    - pose proof (psplit_vis _ _ _ _ _ _ Hs) as Hv.
      assert (Hv' : vis_at d anc) by (intros b Hn; apply Hv; exact Hn).
      pose proof (nbad_rm_le forb invis anc d (l_cls a) Hv') as Hle.
      apply bad_idx_none in Hb.
      change (rm (S d) (l_cls a :: anc)) with (l_cls a :: rm d anc) in IH.
      rewrite !nsum_cons, !nsum_nil, !npairs_eq, !nsum_app, nsum_cons.
      clear Hv Hv' Hs. lia.
  Qed.

  Lemma forallb_app' : forall {A} (f : A -> bool) l1 l2, forallb f (l1 ++ l2) = forallb f l1 && forallb f l2.
  Proof. intros. induction l1 as [|x l1 IH]; simpl; [reflexivity|]. rewrite IH, andb_assoc. reflexivity. Qed.

  Lemma leafwords_inner : forall a ts, ts <> [] -> leafwords (L a ts) = true ->
    l_words a = [] /\ forallb leafwords ts = true.
  Proof.
    intros a ts Hne H. simpl in H. apply andb_true_iff in H. destruct H as [H1 H2]. split; [|exact H2].
    destruct ts; [congruence|]. destruct (l_words a); [reflexivity|discriminate].
  Qed.

  Lemma leafwords_mk : forall a ts, l_words a = [] -> forallb leafwords ts = true -> leafwords (L a ts) = true.
  Proof. intros a ts H1 H2. simpl. rewrite H1, H2. reflexivity. Qed.

  (* the three parts carry the words of the path node exactly once, in order *)
  Lemma psplit_words : forall anc c d tl ml bl, psplit anc c d tl ml bl -> leafwords c = true ->
    flat_map lwords tl ++ flat_map lwords ml ++ flat_map lwords bl = lwords c /\
    forallb leafwords tl = true /\ forallb leafwords ml = true /\ forallb leafwords bl = true.
  Proof.
    intros anc c d tl ml bl H. induction H as [anc a ts d Hb | anc a l c r d tl ml bl Hb Hs IH]; intros Hlw.
    - simpl flat_map. rewrite !app_nil_r. simpl forallb. rewrite andb_true_r. auto.
    - assert (Hne : l ++ c :: r <> []) by (destruct l; discriminate).
      destruct (leafwords_inner _ _ Hne Hlw) as [Hw Hk].
      rewrite !forallb_app' in Hk. simpl in Hk. apply andb_true_iff in Hk. destruct Hk as [Hkl Hk].
      apply andb_true_iff in Hk. destruct Hk as [Hkc Hkr].
      destruct (IH Hkc) as (Ew & Lt & Lm & Lb). split; [|split; [|split]].
      + simpl flat_map. rewrite !app_nil_r, !lwords_eq, Hw, !flat_map_app. simpl.
        rewrite <- Ew, <- !app_assoc. reflexivity.
      + simpl. rewrite andb_true_r. rewrite Hw, forallb_app', Hkl, Lt. reflexivity.
      + simpl. rewrite andb_true_r. rewrite Hw, Lm. reflexivity.
      + simpl. rewrite andb_true_r. rewrite Hw, forallb_app', Hkr, Lb. reflexivity.
  Qed.

  (* no part contains an identity more often than the path node *)
  Lemma psplit_cnt : forall anc c d tl ml bl, psplit anc c d tl ml bl -> forall i,
    cnt i (flat_map lids tl) <= cnt i (lids c) /\ cnt i (flat_map lids ml) <= cnt i (lids c) /\
    cnt i (flat_map lids bl) <= cnt i (lids c).
  Proof.
    intros anc c d tl ml bl H. induction H as [anc a ts d Hb | anc a l c r d tl ml bl Hb Hs IH]; intros i.
    - rewrite !cnt_flat_map_cons. change (flat_map lids []) with (@nil N). rewrite !cnt_nil. lia.
    - destruct (IH i) as (I1 & I2 & I3). rewrite !cnt_flat_map_cons.
      change (flat_map lids []) with (@nil N). rewrite !cnt_nil, !cnt_lids.
      rewrite !cnt_flat_map_app, cnt_flat_map_cons. clear IH Hs. lia.
  Qed.

  (* ================================================================ 6. one call of _fix_nesting *)
  Lemma vk_no : forall vis ts, visit_kids vis ts = LNo -> Forall (fun y => vis y = VNo) ts.
  Proof.
    intros vis. induction ts as [|c r IH]; intros H; [constructor|].
    simpl in H. destruct (vis c) eqn:Ec; try discriminate.
    destruct (visit_kids vis r) eqn:Er; try discriminate. constructor; [exact Ec | apply IH; reflexivity].
  Qed.

  Lemma vk_pending : forall vis ts d div p, visit_kids vis ts = LPending d div p ->
    exists l c r, ts = l ++ c :: r /\ vis c = VPending d div p.
  Proof.
    intros vis. induction ts as [|c r IH]; intros d div p H; [discriminate|].
    simpl in H. destruct (vis c) eqn:Ec; try discriminate.
    - destruct (visit_kids vis r) eqn:Er; try discriminate. inversion H; subst.
      destruct (IH _ _ _ eq_refl) as (l & c' & r' & -> & E). exists (c :: l), c', r'. auto.
    - inversion H; subst. exists [], c, r. auto.
  Qed.

  Lemma vk_changed : forall vis ts ts', visit_kids vis ts = LChanged ts' ->
    exists l c r news, ts = l ++ c :: r /\ ts' = l ++ news ++ r /\
                       (vis c = VChanged (hd c news) /\ news = [hd c news] \/ vis c = VSplice news).
  Proof.
    intros vis. induction ts as [|c r IH]; intros ts' H; [discriminate|].
    simpl in H. destruct (vis c) eqn:Ec; try discriminate.
    - destruct (visit_kids vis r) eqn:Er; try discriminate. inversion H; subst.
      destruct (IH _ eq_refl) as (l0 & c' & r' & news & -> & -> & E). exists (c :: l0), c', r', news. auto.
    - inversion H; subst. exists [], c, r, [t]. simpl. auto.
    - inversion H; subst. exists [], c, r, news. auto.
  Qed.

  Lemma vk_raise : forall vis ts, visit_kids vis ts = LRaise -> exists c, In c ts /\ vis c = VRaise.
  Proof.
    intros vis. induction ts as [|c r IH]; intros H; [discriminate|].
    simpl in H. destruct (vis c) eqn:Ec; try discriminate.
    - destruct (visit_kids vis r) eqn:Er; try discriminate.
      destruct (IH eq_refl) as (c' & Hin & E). exists c'. split; [right; exact Hin | exact E].
    - exists c. split; [left; reflexivity | exact Ec].
  Qed.

  Section Visit.
    Variable eqn : ltree -> ltree -> bool.
    Variable nx : N.
    Notation visit := (visit forb invis eqn nx).

    Lemma visit_eq : forall anc a ts,
      visit anc (L a ts) =
      if l_exc a then VNo
      else match bad_idx anc (l_cls a) with
           | Some d => VPending d [L a ts] (L a ts)
           | None =>
               match visit_kids (visit (l_cls a :: anc)) ts with
               | LNo => VNo
               | LChanged ts' => VChanged (L a ts')
               | LPending (S d) div p => VPending d (L a ts :: div) p
               | LPending O div p =>
                   match pieces eqn (L a ts :: div) p (L a ts) with
                   | Some (tp, md, bt) =>
                       VSplice [lmap (fresh_id nx 0) tp; lmap (fresh_id nx 1) md; lmap (fresh_id nx 2) bt]
                   | None => VRaise
                   end
               | LRaise => VRaise
               end
           end.
    Proof. reflexivity. Qed.

    (* T3: a falsy return means: nothing is broken outside exception sub-trees (for either membership test) *)
    Lemma visit_no : forall t anc, visit anc t = VNo -> nest_ok anc t = true.
    Proof.
      induction t as [a ts IH] using ltree_ind'. intros anc H. rewrite visit_eq in H. simpl.
      destruct (l_exc a); [reflexivity|]. simpl.
      destruct (bad_idx anc (l_cls a)) as [d|]; [discriminate|].
      destruct (visit_kids (visit (l_cls a :: anc)) ts) as [|ts'|d div p|] eqn:Ek; try discriminate.
      - apply vk_no in Ek. simpl. apply forallb_forall. intros x Hx.
        rewrite Forall_forall in IH, Ek. apply IH; [exact Hx | apply Ek; exact Hx].
      - destruct d; [|discriminate].
        destruct (pieces eqn (L a ts :: div) p (L a ts)) as [[[tp md] bt]|]; discriminate.
    Qed.

    Lemma visit_pending : forall t anc d div p, visit anc t = VPending d div p -> pchain anc t div p d.
    Proof.
      induction t as [a ts IH] using ltree_ind'. intros anc d div p H. rewrite visit_eq in H.
      destruct (l_exc a) eqn:He; [discriminate|].
      destruct (bad_idx anc (l_cls a)) as [d0|] eqn:Hb.
      - inversion H; subst. apply pc_here; assumption.
      - destruct (visit_kids (visit (l_cls a :: anc)) ts) as [|ts'|d1 div1 p1|] eqn:Ek; try discriminate.
        destruct d1 as [|d1].
        + destruct (pieces eqn (L a ts :: div1) p1 (L a ts)) as [[[tp md] bt]|]; discriminate.
        + inversion H; subst. apply vk_pending in Ek. destruct Ek as (l & c & r & -> & Ec).
          apply pc_down; [exact He | exact Hb |]. rewrite Forall_forall in IH. apply IH; [|exact Ec].
          apply in_or_app. right. left. reflexivity.
    Qed.
  End Visit.

  (* ================================================================ 7. what one repair achieves *)
  Definition bounded (nx : N) (l : list N) : Prop := forall i, In i l -> (i < nx)%N.

  (* the trees `new` replace the trees `old` (same position, ancestors' classes anc) *)
  Definition good (nx : N) (anc : list N) (old new : list ltree) : Prop :=
    nsum (npairs anc) new + 1 <= nsum (npairs anc) old /\
    (forallb leafwords old = true ->
       flat_map lwords new = flat_map lwords old /\ forallb leafwords new = true) /\
    NoDup (flat_map lids new) /\
    (forall i, In i (flat_map lids new) -> In i (flat_map lids old) \/ (nx <= i)%N).

  Lemma nodup_app_intro : forall (a b : list N), NoDup a -> NoDup b ->
    (forall x, In x a -> In x b -> False) -> NoDup (a ++ b).
  Proof.
    induction a as [|x a IH]; intros b Ha Hb Hd; [exact Hb|].
    inversion Ha as [|? ? Hnin Ha']; subst. simpl. constructor.
    - rewrite in_app_iff. intros [H|H]; [contradiction|]. apply (Hd x); [left; reflexivity | exact H].
    - apply IH; [exact Ha' | exact Hb |]. intros y Hy. apply Hd. right. exact Hy.
  Qed.

  Lemma fresh_id_inj : forall nx j i1 i2, fresh_id nx j i1 = fresh_id nx j i2 -> i1 = i2.
  Proof. intros nx j i1 i2. unfold fresh_id. lia. Qed.

  Lemma nodup_map_fresh : forall nx j l, NoDup l -> NoDup (map (fresh_id nx j) l).
  Proof.
    intros nx j l H. induction H as [|x l Hnin Hnd IH]; simpl; constructor; [|exact IH].
    intro Hin. apply in_map_iff in Hin. destruct Hin as (y & E & Hy). apply fresh_id_inj in E. subst y.
    contradiction.
  Qed.

  Lemma fresh_three_nodup : forall nx A B C, NoDup A -> NoDup B -> NoDup C ->
    NoDup (map (fresh_id nx 0) A ++ map (fresh_id nx 1) B ++ map (fresh_id nx 2) C).
  Proof.
    intros nx A B C HA HB HC. apply nodup_app_intro; [apply nodup_map_fresh; exact HA | |].
    - apply nodup_app_intro; [apply nodup_map_fresh; exact HB | apply nodup_map_fresh; exact HC |].
      intros x H1 H2. apply in_map_iff in H1. apply in_map_iff in H2.
      destruct H1 as (y1 & E1 & _). destruct H2 as (y2 & E2 & _). unfold fresh_id in *. lia.
    - intros x H1 H2. apply in_map_iff in H1. destruct H1 as (y1 & E1 & _).
      apply in_app_or in H2. destruct H2 as [H2|H2]; apply in_map_iff in H2;
        destruct H2 as (y2 & E2 & _); unfold fresh_id in *; lia.
  Qed.

  (* a change below the child c of a node, seen from that node *)
  Lemma good_up : forall nx anc a l c r news,
    NoDup (lids (L a (l ++ c :: r))) -> bounded nx (lids (L a (l ++ c :: r))) ->
    good nx (l_cls a :: anc) [c] news ->
    good nx anc [L a (l ++ c :: r)] [L a (l ++ news ++ r)].
  Proof.
    intros nx anc a l c r news Hnd Hbd (G1 & G2 & G3 & G4). unfold good.
    rewrite !nsum_cons, !nsum_nil in *. split; [|split; [|split]].
    - rewrite !npairs_eq, !nsum_app, nsum_cons. lia.
    - intro Hlw. simpl in Hlw. rewrite andb_true_r in Hlw.
      assert (Hne : l ++ c :: r <> []) by (destruct l; discriminate).
      destruct (leafwords_inner _ _ Hne Hlw) as [Hw Hk].
      rewrite !forallb_app' in Hk. simpl in Hk. apply andb_true_iff in Hk. destruct Hk as [Hkl Hk].
      apply andb_true_iff in Hk. destruct Hk as [Hkc Hkr].
      assert (Hc1 : forallb leafwords [c] = true) by (simpl; rewrite Hkc; reflexivity).
      destruct (G2 Hc1) as [Ew Lw]. simpl in Ew. rewrite app_nil_r in Ew. split.
      + simpl. rewrite !app_nil_r, Hw, !flat_map_app, Ew. simpl. reflexivity.
      + simpl. rewrite andb_true_r, Hw, !forallb_app', Hkl, Lw, Hkr. reflexivity.
    - simpl. rewrite app_nil_r. change (l_id a :: flat_map lids (l ++ news ++ r)) with (lids (L a (l ++ news ++ r))).
      apply NoDup_cnt. intro i. rewrite NoDup_cnt in Hnd. specialize (Hnd i).
      rewrite cnt_lids, !cnt_flat_map_app in *. rewrite cnt_flat_map_cons in Hnd.
      rewrite NoDup_cnt in G3. specialize (G3 i).
      destruct (in_dec N.eq_dec i (flat_map lids news)) as [Hin|Hnin].
      + destruct (G4 i Hin) as [Hold|Hnew].
        * simpl in Hold. rewrite app_nil_r in Hold. apply cnt_in_pos in Hold. lia.
        * assert (Z1 : cnt i (flat_map lids l) = 0).
          { apply notIn_cnt. intro Hi. assert (Hlt : (i < nx)%N); [|lia]. apply Hbd. rewrite lids_eq. right.
            rewrite flat_map_app. apply in_or_app. left. exact Hi. }
          assert (Z2 : cnt i (flat_map lids r) = 0).
          { apply notIn_cnt. intro Hi. assert (Hlt : (i < nx)%N); [|lia]. apply Hbd. rewrite lids_eq. right.
            rewrite flat_map_app. apply in_or_app. right. simpl. apply in_or_app. right. exact Hi. }
          assert (Z3 : N.eqb (l_id a) i = false).
          { apply N.eqb_neq. intro E. assert (Hlt : (i < nx)%N); [|lia]. apply Hbd. rewrite lids_eq. left. exact E. }
          rewrite Z3. lia.
      + apply notIn_cnt in Hnin. lia.
    - intros i Hi. simpl in Hi. rewrite app_nil_r in Hi. simpl. rewrite app_nil_r.
      destruct Hi as [E|Hi]; [left; left; exact E|].
      rewrite !flat_map_app in Hi. apply in_app_or in Hi. destruct Hi as [Hi|Hi].
      + left. right. rewrite flat_map_app. apply in_or_app. left. exact Hi.
      + apply in_app_or in Hi. destruct Hi as [Hi|Hi].
        * destruct (G4 i Hi) as [Hold|Hnew]; [|right; exact Hnew].
          simpl in Hold. rewrite app_nil_r in Hold. left. right. rewrite flat_map_app. apply in_or_app.
          right. simpl. apply in_or_app. left. exact Hold.
        * left. right. rewrite flat_map_app. apply in_or_app. right. simpl. apply in_or_app. right. exact Hi.
  Qed.

  (* the repair itself: the bad parent B = L a (l ++ c :: r) is replaced by
     [copy of top; copy of middle.children[0]; copy of bottom] *)
  Lemma good_splice : forall nx anc a l c r tl m bl,
    psplit (l_cls a :: anc) c 0 tl [m] bl -> bad_idx anc (l_cls a) = None ->
    NoDup (lids (L a (l ++ c :: r))) ->
    good nx anc [L a (l ++ c :: r)]
         [lmap (fresh_id nx 0) (L a (l ++ tl)); lmap (fresh_id nx 1) m; lmap (fresh_id nx 2) (L a (bl ++ r))].
  Proof.
    intros nx anc a l c r tl m bl Hs Hb Hnd. unfold good. split; [|split; [|split]].
    - pose proof (psplit_measure _ _ _ _ _ _ Hs) as Hm. change (rm 0 (l_cls a :: anc)) with anc in Hm.
      apply bad_idx_none in Hb.
      rewrite !nsum_cons, !nsum_nil, !npairs_lmap, !npairs_eq, !nsum_app, nsum_cons in *.
      clear Hs. lia.
    - intro Hlw. simpl in Hlw. rewrite andb_true_r in Hlw.
      assert (Hne : l ++ c :: r <> []) by (destruct l; discriminate).
      destruct (leafwords_inner _ _ Hne Hlw) as [Hw Hk].
      rewrite !forallb_app' in Hk. simpl in Hk. apply andb_true_iff in Hk. destruct Hk as [Hkl Hk].
      apply andb_true_iff in Hk. destruct Hk as [Hkc Hkr].
      destruct (psplit_words _ _ _ _ _ _ Hs Hkc) as (Ew & Lt & Lm & Lb).
      simpl in Ew. rewrite app_nil_r in Ew. simpl in Lm. rewrite andb_true_r in Lm. split.
      + cbn [flat_map]. rewrite !app_nil_r, !lwords_lmap, !lwords_eq, Hw, !flat_map_app. cbn [flat_map app].
        rewrite <- Ew, <- !app_assoc. reflexivity.
      + cbn [forallb]. rewrite !leafwords_lmap, Lm.
        rewrite (leafwords_mk a (l ++ tl) Hw), (leafwords_mk a (bl ++ r) Hw); [reflexivity| |].
        * rewrite forallb_app', Lb, Hkr. reflexivity.
        * rewrite forallb_app', Hkl, Lt. reflexivity.
    - cbn [flat_map]. rewrite !lids_lmap, app_nil_r.
      assert (Hc : forall i, cnt i (lids (L a (l ++ tl))) <= 1 /\ cnt i (lids m) <= 1 /\
                             cnt i (lids (L a (bl ++ r))) <= 1).
      { intro i. rewrite NoDup_cnt in Hnd. specialize (Hnd i).
        destruct (psplit_cnt _ _ _ _ _ _ Hs i) as (I1 & I2 & I3).
        rewrite cnt_flat_map_cons in I2. change (flat_map lids []) with (@nil N) in I2. rewrite cnt_nil in I2.
        rewrite !cnt_lids, !cnt_flat_map_app in *. rewrite cnt_flat_map_cons in Hnd. clear Hs. lia. }
      apply fresh_three_nodup; apply NoDup_cnt; intro i; apply (Hc i).
    - intros i Hi. right. cbn [flat_map] in Hi. rewrite !lids_lmap, app_nil_r in Hi.
      apply in_app_or in Hi. destruct Hi as [Hi|Hi]; [|apply in_app_or in Hi; destruct Hi as [Hi|Hi]];
        apply in_map_iff in Hi; destruct Hi as (y & E & _); unfold fresh_id in E; lia.
  Qed.

  Section VisitId.
    Variable nx : N.
    Notation visit := (visit forb invis eq_id nx).

    (* with identity marks, on a tree with distinct identities all below nx: a truthy return replaces the
       node by node(s) with fewer pairs, the same words, distinct identities; IndexError cannot happen *)
    Lemma visit_good : forall t anc, NoDup (lids t) -> bounded nx (lids t) ->
      match visit anc t with
      | VChanged t' => good nx anc [t] [t']
      | VSplice news => good nx anc [t] news
      | VRaise => False
      | _ => True
      end.
    Proof.
      induction t as [a ts IH] using ltree_ind'. intros anc Hnd Hbd. rewrite visit_eq.
      destruct (l_exc a) eqn:He; [exact I|].
      destruct (bad_idx anc (l_cls a)) as [d0|] eqn:Hb; [exact I|].
      destruct (visit_kids (visit (l_cls a :: anc)) ts) as [|ts'|d1 div1 p1|] eqn:Ek; [exact I| | |].
      - (* the change happened below *)
        apply vk_changed in Ek. destruct Ek as (l & c & r & news & -> & -> & Ec).
        apply good_up; [exact Hnd | exact Hbd |].
        assert (Hin : In c (l ++ c :: r)) by (apply in_or_app; right; left; reflexivity).
        rewrite Forall_forall in IH.
        assert (Hndc : NoDup (lids c)) by (eapply nodup_kid_nodup; exact Hnd).
        assert (Hbdc : bounded nx (lids c)) by (intros i Hi; apply Hbd; apply in_kid_lids; exact Hi).
        pose proof (IH c Hin (l_cls a :: anc) Hndc Hbdc) as IHc.
        destruct Ec as [[Ec En]|Ec]; rewrite Ec in IHc; [rewrite En; exact IHc | exact IHc].
      - destruct d1 as [|d1]; [|exact I].
        (* this node is the bad parent *)
        pose proof Ek as Ek'. apply vk_pending in Ek'. destruct Ek' as (l & c & r & -> & Ec).
        apply visit_pending in Ec.
        set (B := L a (l ++ c :: r)) in *.
        assert (H1 : forall q, In q div1 -> In (lid q) (map lid (B :: div1))).
        { intros q Hq. right. apply in_map. exact Hq. }
        assert (H2 : forall i, In i (map lid (B :: div1)) -> In i (lids B) -> In i (map lid (B :: div1))).
        { intros i Hi _. exact Hi. }
        destruct (path_level (B :: div1) a l c r _ _ _ _ Ec Hnd H1 H2) as (Hl & Hc_in & Hr & Hxp & H2').
        pose proof (pchain_psplit (B :: div1) _ _ _ _ _ Ec (nodup_kid_nodup a l c r Hnd) H1 H2') as Hs.
        cbv zeta in Hs.
        destruct (filt_path_node eq_id (B :: div1) p1 a l c r Hl Hc_in Hr) as (E1 & E2 & E3).
        destruct (psplit_mid_single _ _ _ _ _ _ Hs) as (m & Em).
        unfold pieces. fold B in E1, E2, E3. rewrite E1, E2, E3. rewrite Em in *. simpl lkids. cbv iota.
        apply good_splice; [exact Hs | exact Hb | exact Hnd].
      - apply vk_raise in Ek. destruct Ek as (c & Hin & Ec). rewrite Forall_forall in IH.
        apply in_split in Hin. destruct Hin as (l & r & ->).
        assert (Hin : In c (l ++ c :: r)) by (apply in_or_app; right; left; reflexivity).
        assert (Hndc : NoDup (lids c)) by (eapply nodup_kid_nodup; exact Hnd).
        assert (Hbdc : bounded nx (lids c)) by (intros i Hi; apply Hbd; apply in_kid_lids; exact Hi).
        pose proof (IH c Hin (l_cls a :: anc) Hndc Hbdc) as IHc. rewrite Ec in IHc. exact IHc.
    Qed.
  End VisitId.

  (* ================================================================ 8. the loop *)
  Lemma fold_max_le : forall l acc,
    (acc <= fold_left N.max l acc)%N /\ forall i, In i l -> (i <= fold_left N.max l acc)%N.
  Proof.
    induction l as [|x l IH]; intros acc; simpl.
    - split; [lia | intros i []].
    - destruct (IH (N.max acc x)) as [H1 H2]. split; [lia|].
      intros i [E|Hi]; [subst; lia | apply H2; exact Hi].
  Qed.

  Lemma lfresh_bounded : forall t, bounded (lfresh t) (lids t).
  Proof.
    intros t i Hi. unfold lfresh. destruct (fold_max_le (lids t) 0%N) as [_ H]. specialize (H i Hi). lia.
  Qed.

  Notation nest_step := (nest_step forb invis).
  Notation fix_nesting := (fix_nesting forb invis).

  (* one iteration that changes the tree (identity marks) *)
  Lemma nest_step_moved : forall t t', NoDup (lids t) -> nest_step eq_id t = NMoved t' ->
    npairs [] t' < npairs [] t /\ NoDup (lids t') /\
    (leafwords t = true -> lwords t' = lwords t /\ leafwords t' = true).
  Proof.
    intros t t' Hnd H. unfold ModelNesting.nest_step in H.
    pose proof (visit_good (lfresh t) t [] Hnd (lfresh_bounded t)) as G.
    destruct (visit forb invis eq_id (lfresh t) [] t) as [|t1|d div p|news|]; try discriminate.
    inversion H; subst t1. destruct G as (G1 & G2 & G3 & _).
    rewrite !nsum_cons, !nsum_nil in G1. cbn [flat_map] in G2, G3. rewrite !app_nil_r in *.
    split; [lia|]. split; [exact G3|]. intro Hlw. cbn [forallb] in G2. rewrite !andb_true_r in G2.
    apply G2. exact Hlw.
  Qed.

  (* T3 *)
  Lemma nest_step_stop : forall eqn t, nest_step eqn t = NStop -> nest_ok [] t = true.
  Proof.
    intros eqn t H. unfold ModelNesting.nest_step in H.
    destruct (visit forb invis eqn (lfresh t) [] t) as [|t1|d div p|news|] eqn:E; try discriminate.
    eapply visit_no. exact E.
  Qed.

  Lemma bad_idx_lt : forall anc k d, bad_idx anc k = Some d -> d < length anc.
  Proof.
    induction anc as [|a r IH]; intros k d H.
    - rewrite bad_idx_nil in H. discriminate.
    - rewrite bad_idx_cons in H. destruct (invis a); [discriminate|]. destruct (forb k a).
      + inversion H. simpl. lia.
      + destruct (bad_idx r k) as [d'|] eqn:E; [|discriminate]. inversion H. specialize (IH _ _ E). simpl. lia.
  Qed.

  Lemma pchain_lt : forall anc c div p d, pchain anc c div p d -> d < length anc.
  Proof.
    intros anc c div p d H. induction H as [anc a ts d He Hb | anc a l c r div p d He Hb Hc IH].
    - eapply bad_idx_lt. exact Hb.
    - simpl in IH. lia.
  Qed.

  (* with identity marks the only exception is the AttributeError of `bad_parent.parent.replace_child`
     when the root itself is the bad parent: IndexError on middle_tree.children[0] cannot happen *)
  Lemma nest_step_raise : forall t, NoDup (lids t) -> nest_step eq_id t = NRaise ->
    exists news, visit forb invis eq_id (lfresh t) [] t = VSplice news.
  Proof.
    intros t Hnd H. unfold ModelNesting.nest_step in H.
    pose proof (visit_good (lfresh t) t [] Hnd (lfresh_bounded t)) as G.
    pose proof (visit_pending eq_id (lfresh t) t []) as P.
    destruct (visit forb invis eq_id (lfresh t) [] t) as [|t1|d div p|news|]; try discriminate.
    - specialize (P _ _ _ eq_refl). apply pchain_lt in P. simpl in P. lia.
    - eexists. reflexivity.
    - contradiction.
  Qed.

  (* T1 (general fuel) *)
  Lemma fix_nesting_fuel : forall fuel t, NoDup (lids t) -> npairs [] t < fuel ->
    fix_nesting eq_id fuel t <> NOutOfFuel.
  Proof.
    induction fuel as [|f IH]; intros t Hnd Hlt; [lia|].
    simpl. destruct (nest_step eq_id t) as [| |t'] eqn:E; try discriminate.
    destruct (nest_step_moved t t' Hnd E) as (H1 & H2 & _). apply IH; [exact H2 | lia].
  Qed.

  (* T1: the loop stops within (number of (node, forbidden visible ancestor) pairs) + 1 evaluations of its
     condition *)
  Theorem fix_nesting_terminates : forall t, NoDup (lids t) ->
    fix_nesting eq_id (nest_fuel forb invis t) t <> NOutOfFuel.
  Proof. intros t Hnd. apply fix_nesting_fuel; [exact Hnd | unfold nest_fuel; lia]. Qed.

  (* T2 + T3 for the whole loop, any number of iterations *)
  Theorem fix_nesting_done : forall fuel t t', NoDup (lids t) -> fix_nesting eq_id fuel t = NDone t' ->
    NoDup (lids t') /\ nest_ok [] t' = true /\ npairs [] t' <= npairs [] t /\
    (leafwords t = true -> lwords t' = lwords t /\ leafwords t' = true).
  Proof.
    induction fuel as [|f IH]; intros t t' Hnd H; [discriminate|].
    simpl in H. destruct (nest_step eq_id t) as [| |t1] eqn:E; try discriminate.
    - inversion H; subst t'. split; [exact Hnd|]. split; [eapply nest_step_stop; exact E|].
      split; [lia|]. auto.
    - destruct (nest_step_moved t t1 Hnd E) as (H1 & H2 & H3).
      destruct (IH t1 t' H2 H) as (I1 & I2 & I3 & I4). split; [exact I1|]. split; [exact I2|].
      split; [lia|]. intro Hlw. destruct (H3 Hlw) as [W1 W2]. destruct (I4 W2) as [W3 W4].
      split; [congruence | exact W4].
  Qed.

  (* the postcondition, spelled out: a node outside exception sub-trees has no forbidden visible ancestor *)
  Lemma nest_ok_spec : forall t anc, nest_ok anc t = true ->
    l_exc (llab t) = false ->
    nbad anc (lcls t) = 0 /\ forallb (nest_ok (lcls t :: anc)) (lkids t) = true.
  Proof.
    intros [a ts] anc H He. unfold lcls, llab, lkids in *.
    change (l_exc a || (match bad_idx anc (l_cls a) with None => true | Some _ => false end
                        && forallb (nest_ok (l_cls a :: anc)) ts) = true) in H.
    rewrite He in H. cbn [orb] in H. apply andb_true_iff in H.
    destruct H as [H1 H2]. split; [|exact H2]. apply bad_idx_none.
    destruct (bad_idx anc (l_cls a)); [discriminate|reflexivity].
  Qed.
End Nest2.

(* ================================================================ 9. connection with the heap model *)
(* the labelled tree read off a heap along a represented tree has the heap's words and identities *)
Lemma lwords_lt_of : forall h exc t, lwords (lt_of h exc t) = words_t h t.
Proof. exact lwords_erase. Qed.
Lemma lids_lt_of : forall h exc t, lids (lt_of h exc t) = ids t.
Proof. intros. rewrite <- lids_erase, erase_lt_of. reflexivity. Qed.

(* T1 for a document of the heap model: WF h r gives a represented tree with distinct identities *)
Theorem fix_nesting_terminates_heap : forall forb invis h exc t,
  repr h None t -> NoDup (ids t) ->
  fix_nesting forb invis eq_id (nest_fuel forb invis (lt_of h exc t)) (lt_of h exc t) <> NOutOfFuel.
Proof.
  intros forb invis h exc t _ Hnd. apply fix_nesting_terminates. rewrite lids_lt_of. exact Hnd.
Qed.

(* ================================================================ 10. C07 corollaries *)
Corollary nest_step_keeps_words : forall forb invis t t', NoDup (lids t) -> leafwords t = true ->
  nest_step forb invis eq_id t = NMoved t' -> lwords t' = lwords t.
Proof.
  intros forb invis t t' Hnd Hlw H. destruct (nest_step_moved forb invis t t' Hnd H) as (_ & _ & H3).
  apply H3. exact Hlw.
Qed.

Corollary fix_nesting_keeps_words : forall forb invis fuel t t', NoDup (lids t) -> leafwords t = true ->
  fix_nesting forb invis eq_id fuel t = NDone t' -> lwords t' = lwords t.
Proof.
  intros forb invis fuel t t' Hnd Hlw H.
  destruct (fix_nesting_done forb invis fuel t t' Hnd H) as (_ & _ & _ & H4). apply H4. exact Hlw.
Qed.
