(* C06 — termination of the tree cleaner's fixpoint loops (definitions only).
   Shared heap model: C05/Heap.v; tree-level operations: C05/TreeOps.v.

   1. fix_paragraphs (treecleaner.py:747-769):
        def _fix_paragraphs(self, node):
            if isinstance(node, Paragraph) and isinstance(node.previous, Section)
               and node.previous is not node.parent:
                prev = node.previous; target = prev.get_last_child()
                node.move_to(target); return True
            else:
                for child in node.children[:]:
                    if self._fix_paragraphs(child): return True
            return False
        def fix_paragraphs(self, node):
            while self._fix_paragraphs(node): pass
      node.previous is the previous sibling (None for a first child and for the root);
      get_last_child() is None for a childless Section, and then move_to raises: Raised.

   2. the `while changed` loop of remove_breaking_returns (treecleaner.py:720-745). *)
From Coq Require Import List NArith Bool Arith.
From MW Require Import C05.Heap C05.TreeOps.
Import ListNotations.

Inductive outcome := Done (h : heap) | Raised | OutOfFuel.

(* ---------------------------------------------------------------- fix_paragraphs *)
(* the test of _fix_paragraphs on node i whose previous sibling is prev *)
Definition is_trig (h : heap) (prev : option N) (i : N) : option (N * N) :=
  match prev with
  | Some s => if N.eqb (clsof h i) c_Paragraph && N.eqb (clsof h s) c_Section
              then Some (i, s) else None
  | None => None
  end.

(* first node in preorder (node first, then its children left to right) on which the test
   succeeds, with its previous sibling *)
Fixpoint find_trig (h : heap) (prev : option N) (t : tree) : option (N * N) :=
  let 'T i ts := t in
  match is_trig h prev i with
  | Some q => Some q
  | None =>
      (fix go (pv : option N) (l : list tree) : option (N * N) :=
         match l with
         | [] => None
         | x :: r => match find_trig h pv x with
                     | Some q => Some q
                     | None => go (Some (tid x)) r
                     end
         end) None ts
  end.

Definition last_opt {A} (l : list A) : option A :=
  match rev l with [] => None | x :: _ => Some x end.

(* one call of _fix_paragraphs(root) *)
Inductive step := SStop | SRaised | SMoved (h : heap).

Definition fix_step (h : heap) (r : N) : step :=
  match build (S (length h)) h r with
  | None => SRaised                       (* not a finite tree: outside the model *)
  | Some t =>
      match find_trig h None t with
      | None => SStop                                     (* returns False *)
      | Some (p, s) =>
          match last_opt (kids h s) with
          | None => SRaised                               (* target is None: AttributeError *)
          | Some l => match move_to h p l false with
                      | Ok h' => SMoved h'                (* returns True *)
                      | Err => SRaised
                      end
          end
      end
  end.

Fixpoint fix_paragraphs (fuel : nat) (h : heap) (r : N) : outcome :=
  match fuel with
  | O => OutOfFuel
  | S f => match fix_step h r with
           | SStop => Done h
           | SRaised => Raised
           | SMoved h' => fix_paragraphs f h' r
           end
  end.

Definition fp_fuel (h : heap) (r : N) : nat :=
  match build (S (length h)) h r with
  | Some t => S (tsize t * tsize t)
  | None => 1
  end.

(* the explicit measure: it strictly decreases with every move *)
Definition fp_measure (t : tree) : nat := tsize t * tsize t - sdepth 0 t.

(* ---------------------------------------------------------------- remove_breaking_returns *)
(*   while changed:
         cands = [first_leaf(node), last_leaf(node), _get_next(node), _get_prev(node)]
         changed = False
         for c in cands:
             if c.__class__ == BreakingReturn: try_remove_node(c); changed = True
     try_remove_node(c): if c.parent is not None: c.parent.remove_child(c)
     The computation of the candidates is abstract. *)
Inductive pass_res := PRaised | POk (h : heap) (changed : bool).

Definition count_cls (h : heap) (k : N) (t : tree) : nat :=
  length (filter (fun i => N.eqb (clsof h i) k) (ids t)).

(* the explicit measure: number of BreakingReturn nodes of the tree below r *)
Definition count_br (h : heap) (r : N) : nat :=
  match build (S (length h)) h r with
  | Some t => count_cls h c_BR t
  | None => O
  end.

Section BR.
  Variable cand : heap -> N -> list N.

  Fixpoint br_cands (h : heap) (changed : bool) (cs : list N) : pass_res :=
    match cs with
    | [] => POk h changed
    | c :: r =>
        if N.eqb (clsof h c) c_BR
        then match par h c with
             | Some p => match remove_child h p c with
                         | Ok h' => br_cands h' true r
                         | Err => PRaised
                         end
             | None => br_cands h true r
             end
        else br_cands h changed r
    end.

  Definition br_pass (h : heap) (node : N) : pass_res := br_cands h false (cand h node).

  Fixpoint br_loop (fuel : nat) (h : heap) (node : N) : outcome :=
    match fuel with
    | O => OutOfFuel
    | S f => match br_pass h node with
             | PRaised => Raised
             | POk h' false => Done h'
             | POk h' true => br_loop f h' node
             end
    end.
End BR.
