(* C06 — link between the two models of TreeCleaner._filter_tree:
     C06/ModelNesting.v      filt flt mt      (labelled trees with marks; used by the termination / word proofs)
     C06/ModelNestingHeap.v  tfilter drop t   (what the heap-level replay hfilter provably leaves: C06_filter_tree_heap)
   With drop j := "the mark of node j is in the filter" they compute the same tree. *)
From Coq Require Import List NArith Bool Arith Lia.
From MW Require Import C05.Heap C05.TreeOps C05.ProofsApi C06.ModelNesting C06.ModelNestingHeap.
From MW Require C06.ProofsNesting.
Import ListNotations.

Fixpoint merase (t : mtree) : tree := let 'MT _ a ts := t in T (l_id a) (map merase ts).
Fixpoint mmarks (t : mtree) : list (N * mark) := let 'MT m a ts := t in (l_id a, m) :: flat_map mmarks ts.
Definition mark_at (l : list (N * mark)) (j : N) : mark :=
  match find (fun e => N.eqb (fst e) j) l with Some e => snd e | None => MNone end.

Lemma mtree_ind' (P : mtree -> Prop) :
  (forall m a ts, Forall P ts -> P (MT m a ts)) -> forall t, P t.
Proof.
  intros H. fix IH 1. intros [m a ts]. apply H.
  induction ts as [|x r IHr]; constructor; [apply IH | exact IHr].
Qed.

Lemma mmarks_root : forall t, In (tid (merase t), mmark t) (mmarks t).
Proof. intros [m a ts]. simpl. auto. Qed.

Lemma filt_tfilter_gen : forall flt l mt,
  (forall i m, In (i, m) (mmarks mt) -> mark_at l i = m) ->
  erase (filt flt mt) = tfilter (fun j => flt (mark_at l j)) (merase mt).
Proof.
  intros flt l. induction mt as [m a ts IH] using mtree_ind'. intros Hl.
  cbn [filt erase merase tfilter]. f_equal.
  assert (Hsub : forall c, In c ts -> forall i m', In (i, m') (mmarks c) -> mark_at l i = m').
  { intros c Hc i m' Hi. apply Hl. simpl. right. apply in_flat_map. eauto. }
  clear Hl. induction ts as [|c r IHr]; [reflexivity|].
  inversion IH as [|? ? Pc Pr]; subst.
  cbn [flat_map map]. rewrite map_app.
  assert (Ec : mark_at l (tid (merase c)) = mmark c).
  { apply (Hsub c); [simpl; auto | apply mmarks_root]. }
  rewrite Ec. rewrite IHr; auto.
  - destruct (flt (mmark c)); cbn [map app]; [reflexivity|]. rewrite Pc; auto.
    intros i m' Hi. apply (Hsub c); simpl; auto.
  - intros c' Hc'. apply Hsub. simpl. auto.
Qed.

Lemma ids_merase : forall t, ids (merase t) = map fst (mmarks t).
Proof.
  induction t as [m a ts IH] using mtree_ind'. cbn [merase ids mmarks map fst]. f_equal.
  induction ts as [|c r IHr]; [reflexivity|]. inversion IH as [|? ? Pc Pr]; subst.
  cbn [map flat_map]. rewrite map_app, Pc, IHr; auto.
Qed.

Lemma mark_at_nodup : forall l i m, NoDup (map fst l) -> In (i, m) l -> mark_at l i = m.
Proof.
  unfold mark_at. induction l as [|[k v] l IH]; intros i m Hnd Hin; [destruct Hin|].
  cbn [map fst] in Hnd. inversion Hnd as [|? ? Hk Hnd']; subst. cbn [find fst].
  destruct Hin as [E|Hin].
  - inversion E; subst. rewrite N.eqb_refl. reflexivity.
  - destruct (N.eqb_spec k i) as [->|Hne].
    + exfalso. apply Hk. apply in_map_iff. exists (i, m). auto.
    + apply IH; auto.
Qed.

(* the two filter models agree on every marked tree with distinct node identities *)
Theorem filt_tfilter : forall flt mt, NoDup (ids (merase mt)) ->
  erase (filt flt mt) = tfilter (fun j => flt (mark_at (mmarks mt) j)) (merase mt).
Proof.
  intros flt mt Hnd. apply filt_tfilter_gen. intros i m Hi. apply mark_at_nodup; auto.
  rewrite <- ids_merase. exact Hnd.
Qed.

(* the marked tree _mark_nodes builds has the identities and the shape of the bad parent *)
Lemma merase_mark_t : forall eqn divide prob m t, merase (mark_t eqn divide prob m t) = erase t.
Proof.
  intros eqn divide prob m t. revert m.
  induction t as [a ts IH] using C06.ProofsNesting.ltree_ind'. intros m.
  cbn [mark_t merase erase]. f_equal.
  destruct m.
  - (* MNone: the divide logic *)
    generalize false as got.
    induction ts as [|c r IHr]; intros got; [reflexivity|].
    inversion IH as [|? ? Pc Pr]; subst.
    cbn [mark_kids map]. destruct (existsb (eqn c) divide); cbn [map]; rewrite Pc, (IHr Pr); reflexivity.
  - rewrite map_map. apply map_ext_in. intros c Hc. rewrite Forall_forall in IH. apply IH; auto.
  - rewrite map_map. apply map_ext_in. intros c Hc. rewrite Forall_forall in IH. apply IH; auto.
  - rewrite map_map. apply map_ext_in. intros c Hc. rewrite Forall_forall in IH. apply IH; auto.
Qed.

(* ... so the three pieces the labelled model takes (ModelNesting.pieces: filt ftop / fmid / fbot of the marked bad
   parent) are tfilter of the bad parent's tree under "mark in the filter" *)
Corollary pieces_tfilter : forall eqn divide prob B flt, NoDup (lids B) ->
  erase (filt flt (mark_t eqn divide prob MNone B)) =
  tfilter (fun j => flt (mark_at (mmarks (mark_t eqn divide prob MNone B)) j)) (erase B).
Proof.
  intros eqn divide prob B flt Hnd.
  rewrite <- (merase_mark_t eqn divide prob MNone B). apply filt_tfilter.
  rewrite merase_mark_t. 
  assert (E : ids (erase B) = lids B).
  { clear Hnd. induction B as [a ts IH] using C06.ProofsNesting.ltree_ind'. cbn [erase ids lids]. f_equal.
    induction ts as [|c r IHr]; [reflexivity|]. inversion IH as [|? ? Pc Pr]; subst.
    cbn [map flat_map]. rewrite Pc, IHr; auto. }
  rewrite E. exact Hnd.
Qed.
