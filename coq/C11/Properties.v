(* C11 — property theorems only.  Each is closed by `exact <lemma>` and followed by Print Assumptions;
   the check re-compiles this file on every run.

   W: static abstract wiki, M: metabook (title, optional revision id), L: API batch size (any nat; L = 0 is
   treated as 1), fi: fetch images (false = the no-images option), sched: ANY sequence of scheduling decisions
   (which pending call completes next, whether the dispatcher finds the API idle).  The model is that of the
   Fetcher as of the C11 fix commits in /repo (4906af9 8808eaf 8d69ad3 3ee1a3d = /verif/fixes/C11-*.diff). *)
From Coq Require Import List NArith Bool.
From MW Require Import C11.Model C11.Proofs C11.Proofs2 C11.Proofs3 C11.ProofsFuel.
From MW Require Import C11.ModelContinue C11.Gen_continue C11.ProofsContinue C11.ModelSliced C11.ProofsSliced.
From MW Require Import C11.ModelMerge C11.ProofsMerge.
Import ListNotations.

(* Termination with an explicit measure: every scheduling decision on a non-final state strictly decreases
   `measure` (weights of the pending calls + 8 per queued image + 3 per queued description page) ... *)
Theorem C11_measure_decreases : forall W L fi s o, pending s <> [] -> measure W (step W L fi s o) < measure W s.
Proof. exact step_measure. Qed.
Print Assumptions C11_measure_decreases.

(* ... hence any schedule at least as long as the initial measure ends in a final state (nothing pending,
   nothing queued). *)
Theorem C11_terminates : forall W M L fi sched,
  measure W (init W L fi M) <= length sched -> final (run W L fi sched (init W L fi M)) = true.
Proof. exact terminates_final. Qed.
Print Assumptions C11_terminates.

(* For every wiki, metabook, batch size and EVERY schedule: the final archive holds exactly `fetched W fi M`,
   a function of the wiki and the metabook only. *)
Theorem C11_complete_and_faithful : forall W M L fi sched,
  final (run W L fi sched (init W L fi M)) = true ->
  forall x, In x (stored (run W L fi sched (init W L fi M))) <-> In x (fetched W fi M).
Proof. exact complete_and_faithful_final. Qed.
Print Assumptions C11_complete_and_faithful.

(* complete: everything the property asks for (`needed`: served texts of listed articles with redirects
   resolved, their images through nested templates with info, file, description page, contributors with bots
   out and anonymous counted) is in the archive ... *)
Theorem C11_needed_in_archive : forall W M L fi sched,
  final (run W L fi sched (init W L fi M)) = true ->
  forall x, In x (needed W fi M) -> In x (stored (run W L fi sched (init W L fi M))).
Proof. exact needed_in_archive. Qed.
Print Assumptions C11_needed_in_archive.

(* ... and what is there beyond `needed` are only images of the CURRENT revision of a page that is listed
   with a pinned revision (prop=images of a revid describes the current revision). *)
Theorem C11_nothing_else_but_current_revision_images : forall W M L fi sched,
  final (run W L fi sched (init W L fi M)) = true ->
  forall x, In x (stored (run W L fi sched (init W L fi M))) -> ~ In x (needed W fi M) ->
  fi = true /\ exists rv p r i, In rv (mb_revids M) /\ find_rev W rv = Some (p, r) /\
     In i (match current p with Some c => rendered W c | None => [] end) /\ In x (img_items W i).
Proof. exact archive_only_extra_images. Qed.
Print Assumptions C11_nothing_else_but_current_revision_images.

(* faithful + missing skipped: a page record in the archive is either title t (listed, or the target of a
   listed redirect revision) holding the text of the revision the wiki serves for t after resolving the whole
   redirect chain — so a missing title, a dead end or a circle leaves NO record — or a listed revision id
   holding that revision's own text. *)
Theorem C11_missing_skipped : forall W M L fi sched,
  final (run W L fi sched (init W L fi M)) = true ->
  forall t r src, In (IArt t r src) (stored (run W L fi sched (init W L fi M))) ->
  (r = None /\ In t (title_roots W M) /\ exists rv, final_rev W t = Some rv /\ src = r_id rv) \/
  (exists rid p rr, r = Some rid /\ In rid (mb_revids M) /\ find_rev W rid = Some (p, rr) /\
                    t = p_title p /\ r_id rr = src /\ r = Some src).
Proof. exact missing_skipped. Qed.
Print Assumptions C11_missing_skipped.

(* the archive does not depend on the schedule nor on the batch size *)
Theorem C11_schedule_and_batch_independent : forall W M L L' fi sched sched',
  final (run W L fi sched (init W L fi M)) = true ->
  final (run W L' fi sched' (init W L' fi M)) = true ->
  forall x, In x (stored (run W L fi sched (init W L fi M))) <-> In x (stored (run W L' fi sched' (init W L' fi M))).
Proof. exact schedule_independent. Qed.
Print Assumptions C11_schedule_and_batch_independent.

(* the tree as it is: the contributor loop iterates a list nothing fills, so no lookup stores anything *)
Theorem C11_contributors_refuted : forall W asked, lookup_contributors_unfixed W [] asked = [].
Proof. exact contributors_unfixed_nothing. Qed.
Print Assumptions C11_contributors_refuted.

(* Non-vacuity.  Wiki: article 1 (old revision 10 uses image 7, current revision 11 uses template 5),
   page 2 = redirect to 3, page 3 = redirect to 1 (a chain), page 4 = redirect to 4 (a circle),
   template 5 uses image 6, images 6 and 7 exist; user 2 is a bot.  Metabook: 2, 4, 9 (missing), 1@10.
   L = 1, a schedule of 60 decisions. *)
Example C11_example :
  let s := run ex_W 1 true ex_sched (init ex_W 1 true ex_M) in
  Nat.leb (measure ex_W (init ex_W 1 true ex_M)) 60 = true /\ final s = true /\
  In (IArt 2 None 11)%N (stored s) /\ In (IArt 1 (Some 10) 10)%N (stored s) /\
  In (IFile 6)%N (stored s) /\ In (IFile 7)%N (stored s) /\ In (IDesc 6)%N (stored s) /\
  In (IAuth 2 [1] 2)%N (stored s) /\ In (IAuth 6 [3] 1)%N (stored s) /\
  (forall src, ~ In (IArt 4 None src)%N (stored s)) /\ (forall src, ~ In (IArt 9 None src)%N (stored s)).
Proof. exact example_run. Qed.
Print Assumptions C11_example.

(* ------------------------------------------------------------------ the fuels of the model are sufficient
   (`resolve` and `rendered` are shared by the specification and the Fetcher model; the theorems below show
   that their recursion bounds never cut a result short and give both a fuel-free reading) *)

(* every fuel of at least |W|+1 gives the result of `resolve` (whose own fuel is |W|+1) *)
Theorem C11_resolve_fuel_sufficient : forall W t f, S (length W) <= f -> resolve_aux W f t [t] = resolve W t.
Proof. exact resolve_fuel_sufficient. Qed.
Print Assumptions C11_resolve_fuel_sufficient.

(* `resolve_aux_m` is `resolve_aux` with the out-of-fuel branch made visible (None): it agrees with
   resolve_aux whenever it answers ... *)
Theorem C11_resolve_marker_agrees : forall W f t seen x,
  resolve_aux_m W f t seen = Some x -> resolve_aux W f t seen = x.
Proof. exact resolve_aux_m_agrees. Qed.
Print Assumptions C11_resolve_marker_agrees.

(* ... and with the fuel of `resolve` it always answers: the out-of-fuel branch is never taken. *)
Theorem C11_resolve_never_out_of_fuel : forall W t, resolve_aux_m W (S (length W)) t [t] <> None.
Proof. exact resolve_never_out_of_fuel. Qed.
Print Assumptions C11_resolve_never_out_of_fuel.

(* fuel-free: resolve answers (h, Some f) exactly when h is the chain of current-revision redirect hops
   from t to f and f is a missing page or a page whose current revision is no redirect ... *)
Theorem C11_resolve_is_redirect_chain : forall W t h f,
  resolve W t = (h, Some f) <-> redir_path W t h f /\ terminal W f.
Proof. exact resolve_some_iff. Qed.
Print Assumptions C11_resolve_is_redirect_chain.

(* ... and yields no page exactly when the chain from t runs into a circle; *)
Theorem C11_resolve_none_is_circle : forall W t,
  snd (resolve W t) = None <-> exists h1 b c, redir_path W t h1 b /\ c <> [] /\ redir_path W b c b.
Proof. exact resolve_none_iff. Qed.
Print Assumptions C11_resolve_none_is_circle.

(* then all hops are reported up to and including the one that closes the circle. *)
Theorem C11_resolve_circle_hops : forall W t h, resolve W t = (h, None) ->
  exists h0 a b, h = h0 ++ [(a, b)] /\ redir_path W t h b /\ In b (t :: map snd h0).
Proof. exact resolve_none_shape. Qed.
Print Assumptions C11_resolve_circle_hops.

(* a successful chain visits no title twice *)
Theorem C11_resolve_chain_nodup : forall W t h f, resolve W t = (h, Some f) -> NoDup (t :: map snd h).
Proof. exact resolve_path_nodup. Qed.
Print Assumptions C11_resolve_chain_nodup.

(* the served revision does not depend on the fuel, and is the current, non-redirect revision at the end of the chain *)
Theorem C11_final_rev_fuel_irrelevant : forall W fuel t,
  S (length W) <= fuel -> final_rev_fuel W fuel t = final_rev W t.
Proof. exact final_rev_fuel_irrelevant. Qed.
Print Assumptions C11_final_rev_fuel_irrelevant.

Theorem C11_final_rev_is_chain_end : forall W t r,
  final_rev W t = Some r <-> exists h f, redir_path W t h f /\ cur_of W f = Some r /\ r_redirect r = None.
Proof. exact final_rev_iff. Qed.
Print Assumptions C11_final_rev_is_chain_end.

(* template graphs may be circular: every fuel of at least |W| yields the same SET of images as `rendered`
   (whose own fuel is |W|); more fuel only repeats images *)
Theorem C11_rendered_fuel_sufficient : forall W r f i,
  length W <= f -> (In i (imgs_of W f r) <-> In i (rendered W r)).
Proof. exact imgs_fuel_sufficient. Qed.
Print Assumptions C11_rendered_fuel_sufficient.

(* fuel-free: the rendered images are those of the revisions reachable through current template revisions *)
Theorem C11_rendered_is_reachability : forall W r i,
  In i (rendered W r) <-> exists r', treach W r r' /\ In i (r_imgs r').
Proof. exact rendered_is_reachability. Qed.
Print Assumptions C11_rendered_is_reachability.

(* the image answer for a list of titles, without any fuel *)
Theorem C11_used_titles_imgs_fuel_free : forall W ts i,
  In i (used_titles_imgs W ts) <->
  exists t h f r r', In t ts /\ redir_path W t h f /\ cur_of W f = Some r /\ r_redirect r = None /\
                     treach W r r' /\ In i (r_imgs r').
Proof. exact used_titles_imgs_iff. Qed.
Print Assumptions C11_used_titles_imgs_fuel_free.

(* non-vacuity: a redirect chain 2 -> 3 -> 1, a circle 4 -> 8 -> 4, a missing title, a fuel that IS too small,
   templates 5 <-> 6 that include each other *)
Example C11_fuel_example :
  resolve fx_W 2%N = ([(2, 3); (3, 1)]%N, Some 1%N) /\
  resolve fx_W 4%N = ([(4, 8); (8, 4)]%N, None) /\
  resolve fx_W 99%N = ([], Some 99%N) /\
  resolve_aux fx_W 2 2%N [2%N] <> resolve fx_W 2%N /\
  rendered fx_W (mkRev 10 None [5] [7])%N = [7; 9; 11; 9; 11; 9; 11; 9]%N /\
  imgs_of fx_W 1 (mkRev 10 None [5] [7])%N = [7; 9]%N.
Proof. exact fuel_example. Qed.
Print Assumptions C11_fuel_example.

(* ------------------------------------------------------------------------------------------------------------
   Query continuation is PER QUERY (coq/C11/ModelContinue.v: merge_data, _handle_query_continue, _do_request of
   sapi.py; `gen_stop` is the `if` test of _handle_query_continue, translated from the source on every run by
   vt/gen/c11_sapi.py, which also pins the statements of the three functions and every write to `qccount`). *)

(* the translated give-up condition: a query is given up iff the wiki hands out again the continuation value it
   has just been sent - whatever the client's counter of continuation rounds says *)
Theorem C11_continue_stop_only_on_repeat : forall same qccount, gen_stop same qccount = same.
Proof. exact gen_stop_spec. Qed.
Print Assumptions C11_continue_stop_only_on_repeat.

(* one query: when the wiki serves the answer in slices sl along a chain of fresh continuation values, the client
   returns the merge of ALL slices, for every value of its counter, and counts one round per continuation *)
Theorem C11_continue_query_complete : forall srv q sl, Chain srv q None sl ->
  forall fuel n, (length sl <= fuel)%nat ->
  query gen_stop srv fuel n q = ((n + N.of_nat (pred (length sl)))%N, Some (full_answer sl)).
Proof. exact query_complete. Qed.
Print Assumptions C11_continue_query_complete.

(* no cross-query state: for ANY server (also one that repeats values or never ends) and ANY list of queries made
   one after the other on one client, every answer is the one a fresh client gives to that query alone *)
Theorem C11_continue_no_cross_query_state : forall srv fuel qs n,
  snd (run_queries gen_stop srv fuel n qs) = map (fun q => snd (query gen_stop srv fuel 0%N q)) qs.
Proof. exact run_queries_answers. Qed.
Print Assumptions C11_continue_no_cross_query_state.

(* hence in a fetch of any size every query is answered in full *)
Theorem C11_continue_every_query_of_a_fetch_complete : forall srv fuel qs n,
  (forall q, In q qs -> exists sl, Chain srv q None sl /\ (length sl <= fuel)%nat) ->
  forall i q, nth_error qs i = Some q ->
  exists sl, Chain srv q None sl /\
             nth_error (snd (run_queries gen_stop srv fuel n qs)) i = Some (Some (full_answer sl)).
Proof. exact run_queries_complete. Qed.
Print Assumptions C11_continue_every_query_of_a_fetch_complete.

(* non-vacuity: two queries of three slices each, asked 1, 2, 1 on one client: 6 rounds, all answers complete *)
Example C11_continue_example :
  run_queries gen_stop (srv_of ex_script) 5 0%N [1; 2; 1]%N
  = (6, [Some [(7, [1;2;3;4;5]); (8, [9])]; Some [(8, [1;2;3])]; Some [(7, [1;2;3;4;5]); (8, [9])]])%N.
Proof. exact ex_run. Qed.
Print Assumptions C11_continue_example.

(* the hypothesis matters: a give-up condition that looks at the counter (bound 3) makes the answer to a query
   depend on the queries made before it *)
Theorem C11_continue_counting_stop_refuted :
  exists srv fuel qs i, nth_error (snd (run_queries (stop_counting 3%N) srv fuel 0%N qs)) i
                     <> nth_error (map (fun q => snd (query (stop_counting 3%N) srv fuel 0%N q)) qs) i.
Proof. exact counting_stop_is_cross_query. Qed.
Print Assumptions C11_continue_counting_stop_refuted.

(* ------------------------------------------------------------------------------------------------------------
   The API result limit is invisible (quantifier: "result limits from 1 to 50 with continuation" - here ANY
   limit >= 1): `sliced_server limit db` serves the values db q of a query in slices of `limit` values with the
   next offset as continuation value (coq/C11/ModelSliced.v). *)

(* the slices form a chain of fresh continuation values whose merge is the whole list *)
Theorem C11_sliced_answers_chain : forall limit db q, (1 <= limit)%nat ->
  exists sl, Chain (sliced_server limit db) q None sl /\ (length sl <= S (length (db q)))%nat /\
             full_answer sl = [(q, db q)].
Proof. exact sliced_chain. Qed.
Print Assumptions C11_sliced_answers_chain.

(* one query, any limit, any value of the client's counter: all values are returned *)
Theorem C11_result_limit_invisible : forall limit db q fuel n, (1 <= limit)%nat -> (S (length (db q)) <= fuel)%nat ->
  snd (query gen_stop (sliced_server limit db) fuel n q) = Some [(q, db q)].
Proof. exact sliced_query_complete. Qed.
Print Assumptions C11_result_limit_invisible.

(* a fetch of any size (any list of queries on one client), any limit: every answer is the whole list *)
Theorem C11_result_limit_invisible_whole_fetch : forall limit db fuel qs n, (1 <= limit)%nat ->
  (forall q, In q qs -> (S (length (db q)) <= fuel)%nat) ->
  snd (run_queries gen_stop (sliced_server limit db) fuel n qs) = map (fun q => Some [(q, db q)]) qs.
Proof. exact sliced_fetch_complete. Qed.
Print Assumptions C11_result_limit_invisible_whole_fetch.

(* non-vacuity (limit 2, lists of 7 and 3 values, queries 1, 2, 1: 7 continuation rounds, all complete) and the
   same fetch with a give-up condition that counts all rounds (bound 3): the later queries are cut short *)
Example C11_sliced_example :
  run_queries gen_stop (sliced_server 2 ex_db) 8 0%N [1; 2; 1]%N
  = (7%N, [Some [(1, [11; 12; 13; 14; 15; 16; 17])]; Some [(2, [21; 22; 23])]; Some [(1, [11; 12; 13; 14; 15; 16; 17])]]%N) /\
  run_queries (stop_counting 3%N) (sliced_server 2 ex_db) 8 0%N [1; 2; 1]%N
  = (5%N, [Some [(1, [11; 12; 13; 14; 15; 16; 17])]; Some [(2, [21; 22])]; Some [(1, [11; 12])]]%N).
Proof. exact sliced_example. Qed.
Print Assumptions C11_sliced_example.

(* ------------------------------------------------------------------------------------------------------------
   sapi.merge_data on nested JSON values (coq/C11/ModelMerge.v; None = ValueError).  Its statements are pinned by
   vt/gen/c11_sapi.py; it is run against the real function on random nested values on every check. *)

(* lists are extended, atoms are left alone, values of different types do not merge *)
Theorem C11_merge_data_lists_extend : forall d s, merge_val (VList d) (VList s) = Some (VList (d ++ s)).
Proof. exact merge_val_list. Qed.
Print Assumptions C11_merge_data_lists_extend.

Theorem C11_merge_data_type_mismatch : forall dst src,
  match dst, src with
  | VAtom _, VAtom _ | VList _, VList _ | VDict _, VDict _ => True
  | _, _ => merge_val dst src = None
  end.
Proof. exact merge_val_mismatch. Qed.
Print Assumptions C11_merge_data_type_mismatch.

(* a key dst does not have is added at the end; a key it has is merged in place and nothing else moves *)
Theorem C11_merge_data_new_key : forall d k v, ~ In k (map fst d) ->
  merge_val (VDict d) (VDict [(k, v)]) = Some (VDict (d ++ [(k, v)])).
Proof. exact merge_val_new_key. Qed.
Print Assumptions C11_merge_data_new_key.

Theorem C11_merge_data_old_key : forall d1 d2 k x v, ~ In k (map fst d1) ->
  merge_val (VDict (d1 ++ (k, x) :: d2)) (VDict [(k, v)])
  = match merge_val x v with Some y => Some (VDict (d1 ++ (k, y) :: d2)) | None => None end.
Proof. exact merge_val_old_key. Qed.
Print Assumptions C11_merge_data_old_key.

(* the `merge` used by the continuation theorems above is merge_data on dicts of lists (same key order) *)
Theorem C11_merge_data_flat_case : forall a b, merge_val (of_flat a) (of_flat b) = Some (of_flat (merge a b)).
Proof. exact merge_val_flat. Qed.
Print Assumptions C11_merge_data_flat_case.

(* non-vacuity: two slices of a real-shaped answer (pages / page id / title + images); a list met by a dict *)
Example C11_merge_data_example :
  (merge_val (VDict [(1, VDict [(7, VDict [(2, VAtom 100); (3, VList [1; 2])])])])
             (VDict [(1, VDict [(7, VDict [(2, VAtom 100); (3, VList [3])]); (8, VDict [(2, VAtom 101)])])])
   = Some (VDict [(1, VDict [(7, VDict [(2, VAtom 100); (3, VList [1; 2; 3])]); (8, VDict [(2, VAtom 101)])])]) /\
   merge_val (VDict [(1, VList [1])]) (VDict [(1, VDict [])]) = None)%N.
Proof. exact merge_val_example. Qed.
Print Assumptions C11_merge_data_example.
