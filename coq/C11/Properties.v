(* C11 — property theorems only.  Each is closed by `exact <lemma>` and followed by Print Assumptions;
   the check re-compiles this file on every run.

   W: static abstract wiki, M: metabook (title, optional revision id), L: API batch size (any nat; L = 0 is
   treated as 1), fi: fetch images (false = the no-images option), sched: ANY sequence of scheduling decisions
   (which pending call completes next, whether the dispatcher finds the API idle).  The model is that of the
   Fetcher with the proposed fixes /verif/fixes/C11-*.diff. *)
From Coq Require Import List NArith Bool.
From MW Require Import C11.Model C11.Proofs C11.Proofs2 C11.Proofs3.
Import ListNotations.

(* Termination with an explicit measure: every scheduling decision on a non-final state strictly decreases
   `measure` (weights of the pending calls + 8 per queued image + 3 per queued description page) ... *)
Theorem C11_measure_decreases : forall W L fi s o, pending s <> [] -> measure W (step W L fi s o) < measure W s.
Proof. exact step_measure. Qed.
Print Assumptions C11_measure_decreases.

(* ... hence any schedule at least as long as the initial measure ends in a final state (nothing pending,
   nothing queued). *)
Theorem C11_terminates : forall W M L fi sched,
  measure W (init W L fi M) <= length sched -> final (run W L fi sched (init W L fi M)) = true.
Proof. exact terminates_final. Qed.
Print Assumptions C11_terminates.

(* For every wiki, metabook, batch size and EVERY schedule: the final archive holds exactly `fetched W fi M`,
   a function of the wiki and the metabook only. *)
Theorem C11_complete_and_faithful : forall W M L fi sched,
  final (run W L fi sched (init W L fi M)) = true ->
  forall x, In x (stored (run W L fi sched (init W L fi M))) <-> In x (fetched W fi M).
Proof. exact complete_and_faithful_final. Qed.
Print Assumptions C11_complete_and_faithful.

(* complete: everything the property asks for (`needed`: served texts of listed articles with redirects
   resolved, their images through nested templates with info, file, description page, contributors with bots
   out and anonymous counted) is in the archive ... *)
Theorem C11_needed_in_archive : forall W M L fi sched,
  final (run W L fi sched (init W L fi M)) = true ->
  forall x, In x (needed W fi M) -> In x (stored (run W L fi sched (init W L fi M))).
Proof. exact needed_in_archive. Qed.
Print Assumptions C11_needed_in_archive.

(* ... and what is there beyond `needed` are only images of the CURRENT revision of a page that is listed
   with a pinned revision (prop=images of a revid describes the current revision). *)
Theorem C11_nothing_else_but_current_revision_images : forall W M L fi sched,
  final (run W L fi sched (init W L fi M)) = true ->
  forall x, In x (stored (run W L fi sched (init W L fi M))) -> ~ In x (needed W fi M) ->
  fi = true /\ exists rv p r i, In rv (mb_revids M) /\ find_rev W rv = Some (p, r) /\
     In i (match current p with Some c => rendered W c | None => [] end) /\ In x (img_items W i).
Proof. exact archive_only_extra_images. Qed.
Print Assumptions C11_nothing_else_but_current_revision_images.

(* faithful + missing skipped: a page record in the archive is either title t (listed, or the target of a
   listed redirect revision) holding the text of the revision the wiki serves for t after resolving the whole
   redirect chain — so a missing title, a dead end or a circle leaves NO record — or a listed revision id
   holding that revision's own text. *)
Theorem C11_missing_skipped : forall W M L fi sched,
  final (run W L fi sched (init W L fi M)) = true ->
  forall t r src, In (IArt t r src) (stored (run W L fi sched (init W L fi M))) ->
  (r = None /\ In t (title_roots W M) /\ exists rv, final_rev W t = Some rv /\ src = r_id rv) \/
  (exists rid p rr, r = Some rid /\ In rid (mb_revids M) /\ find_rev W rid = Some (p, rr) /\
                    t = p_title p /\ r_id rr = src /\ r = Some src).
Proof. exact missing_skipped. Qed.
Print Assumptions C11_missing_skipped.

(* the archive does not depend on the schedule nor on the batch size *)
Theorem C11_schedule_and_batch_independent : forall W M L L' fi sched sched',
  final (run W L fi sched (init W L fi M)) = true ->
  final (run W L' fi sched' (init W L' fi M)) = true ->
  forall x, In x (stored (run W L fi sched (init W L fi M))) <-> In x (stored (run W L' fi sched' (init W L' fi M))).
Proof. exact schedule_independent. Qed.
Print Assumptions C11_schedule_and_batch_independent.

(* the tree as it is: the contributor loop iterates a list nothing fills, so no lookup stores anything *)
Theorem C11_contributors_refuted : forall W asked, lookup_contributors_unfixed W [] asked = [].
Proof. exact contributors_unfixed_nothing. Qed.
Print Assumptions C11_contributors_refuted.

(* Non-vacuity.  Wiki: article 1 (old revision 10 uses image 7, current revision 11 uses template 5),
   page 2 = redirect to 3, page 3 = redirect to 1 (a chain), page 4 = redirect to 4 (a circle),
   template 5 uses image 6, images 6 and 7 exist; user 2 is a bot.  Metabook: 2, 4, 9 (missing), 1@10.
   L = 1, a schedule of 60 decisions. *)
Example C11_example :
  let s := run ex_W 1 true ex_sched (init ex_W 1 true ex_M) in
  Nat.leb (measure ex_W (init ex_W 1 true ex_M)) 60 = true /\ final s = true /\
  In (IArt 2 None 11)%N (stored s) /\ In (IArt 1 (Some 10) 10)%N (stored s) /\
  In (IFile 6)%N (stored s) /\ In (IFile 7)%N (stored s) /\ In (IDesc 6)%N (stored s) /\
  In (IAuth 2 [1] 2)%N (stored s) /\ In (IAuth 6 [3] 1)%N (stored s) /\
  (forall src, ~ In (IArt 4 None src)%N (stored s)) /\ (forall src, ~ In (IArt 9 None src)%N (stored s)).
Proof. exact example_run. Qed.
Print Assumptions C11_example.
