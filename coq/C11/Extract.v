From Coq Require Import Extraction ExtrOcamlBasic.
From MW Require Import C11.Model.
Extraction "../ocaml/c11/c11_model.ml" init step final stored fetched needed measure.
