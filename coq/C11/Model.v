(* C11 — executable model of mwlib.network.fetch.Fetcher (fetch.py) against an abstract, static wiki.
   No proofs here.  The model describes /repo as it is since the four C11 fix commits 4906af9, 8808eaf,
   8d69ad3, 3ee1a3d (= /verif/fixes/C11-*.diff: contributors stored; redirects resolved / missing pages
   skipped before a title is expanded; images of the rendered revision taken from the parse result; an old
   redirect revision does not enter the redirect map).  A page listed several times with different revisions
   yields one record per listed revision id (IArt t (Some rv) rv) plus one by-title record (IArt t None src):
   FsOutput.write_expanded_page appends every record, whatever was written before for the same title.
   The fuels of `resolve` / `imgs_of` are proved sufficient in ProofsFuel.v.

   Abstraction: wikitext is reduced to its dependency sets; the text the wiki serves for a revision is
   identified with that revision's id (`src` of IArt) — server-side template expansion is a function of the
   static wiki.  A pending call carries nothing but its arguments; what the wiki answers is a function of W. *)
From Coq Require Import List NArith Bool Arith.
Import ListNotations.

Definition title := N.
Definition revid := N.

Record rev := mkRev { r_id : revid; r_redirect : option title; r_tpls : list title; r_imgs : list title }.
(* p_revs: oldest first, the last one is the current revision; p_users: (user, is a bot name) *)
Record page := mkPage { p_title : title; p_file : bool; p_anon : N; p_users : list (N * bool); p_revs : list rev }.
Definition wiki := list page.

(* what ends up in the archive *)
Inductive item :=
| IArt (t : title) (r : option revid) (src : revid)   (* revisions-1.txt: page t [revid r] holds the expansion of revision src *)
| IRedir (a b : title)                               (* redirects.json *)
| IInfo (i : title)                                  (* imageinfo.db *)
| IFile (i : title)                                  (* images/<i> *)
| IDesc (i : title)                                  (* revisions-1.txt: description page of image i (raw text) *)
| IAuth (k : title) (users : list N) (anon : N).     (* authors.db *)

(* ------------------------------------------------------------------ the wiki (what the API answers) *)
Fixpoint find_page (W : wiki) (t : title) : option page :=
  match W with [] => None | p :: W' => if N.eqb (p_title p) t then Some p else find_page W' t end.

Fixpoint last_opt {A} (l : list A) : option A :=
  match l with [] => None | [x] => Some x | _ :: l' => last_opt l' end.

Definition current (p : page) : option rev := last_opt (p_revs p).
Definition cur_of (W : wiki) (t : title) : option rev :=
  match find_page W t with Some p => current p | None => None end.

Fixpoint find_rev_in (rs : list rev) (rv : revid) : option rev :=
  match rs with [] => None | r :: rs' => if N.eqb (r_id r) rv then Some r else find_rev_in rs' rv end.
Fixpoint find_rev (W : wiki) (rv : revid) : option (page * rev) :=
  match W with
  | [] => None
  | p :: W' => match find_rev_in (p_revs p) rv with Some r => Some (p, r) | None => find_rev W' rv end
  end.

Definition memN (x : N) (l : list N) : bool := existsb (N.eqb x) l.

(* titles=..&redirects=1 (ApiPageSet): every hop is reported; a circular chain yields no page; a dead end
   yields the missing target.  c11_wiki.SynthWiki.resolve *)
Fixpoint resolve_aux (W : wiki) (fuel : nat) (t : title) (seen : list title) : list (title * title) * option title :=
  match fuel with
  | O => ([], None)
  | S f => match cur_of W t with
           | Some r => match r_redirect r with
                       | Some t' => if memN t' seen then ([(t, t')], None)
                                    else let '(h, fin) := resolve_aux W f t' (t' :: seen) in ((t, t') :: h, fin)
                       | None => ([], Some t)
                       end
           | None => ([], Some t)
           end
  end.
Definition resolve (W : wiki) (t : title) := resolve_aux W (S (length W)) t [t].

(* the revision whose text is served for title t (redirects resolved); None = missing / dead end / circular *)
Definition final_rev (W : wiki) (t : title) : option rev :=
  match resolve W t with (_, Some f) => cur_of W f | (_, None) => None end.

(* prop=images / parse.images: images of the RENDERED revision, i.e. through all nested templates *)
Fixpoint imgs_of (W : wiki) (fuel : nat) (r : rev) : list title :=
  r_imgs r ++ match fuel with
              | O => []
              | S f => flat_map (fun t => match cur_of W t with Some r' => imgs_of W f r' | None => [] end) (r_tpls r)
              end.
Definition rendered (W : wiki) (r : rev) : list title := imgs_of W (length W) r.

Definition img_ok (W : wiki) (i : title) : bool := match find_page W i with Some p => p_file p | None => false end.
Definition page_exists (W : wiki) (i : title) : bool := match find_page W i with Some _ => true | None => false end.

(* prop=contributors as digested by sapi.get_contributors + authors.get_authors: bots out, anonymous counted *)
Definition authors_of (W : wiki) (t : title) : list N * N :=
  match find_page W t with
  | Some p => (map fst (filter (fun u => negb (snd u)) (p_users p)), p_anon p)
  | None => ([], 0%N)
  end.
(* _lookup_contributors (fixed): stored under the resolved and under the requested title *)
Definition auth_items (W : wiki) (key : title) : list item :=
  match resolve W key with
  | (_, Some f) => let v := authors_of W f in [IAuth f (fst v) (snd v); IAuth key (fst v) (snd v)]
  | (_, None) => [IAuth key [] 0%N]
  end.

(* answers of fetch_used (prop=images [&redirects=1]) and of action=parse *)
Definition used_titles_reds (W : wiki) (ts : list title) : list (title * title) := flat_map (fun t => fst (resolve W t)) ts.
Definition used_titles_imgs (W : wiki) (ts : list title) : list title :=
  flat_map (fun t => match final_rev W t with Some r => rendered W r | None => [] end) ts.
(* revids=: the link tables describe the CURRENT revision of the page the revision belongs to *)
Definition used_revs_imgs (W : wiki) (rvs : list revid) : list title :=
  flat_map (fun rv => match find_rev W rv with
                      | Some (p, _) => match current p with Some r => rendered W r | None => [] end
                      | None => [] end) rvs.
Definition html_rev_imgs (W : wiki) (rv : revid) : list title :=
  match find_rev W rv with Some (_, r) => rendered W r | None => [] end.

(* ------------------------------------------------------------------ Fetcher *)
Inductive call :=
| CEnq (reds : list (title * title)) (imgs : list title)  (* fetch_used_block / fetch_html.fetch after the answer: record redirects, enqueue images *)
| CExpTitle (t : title)                                   (* expand_templates_from_title *)
| CExpRev (rv : revid)                                    (* expand_templates_from_revid *)
| CEdits (k : title)                                      (* get_edits / get_image_edits -> _lookup_contributors *)
| CInfo (block : list title)                              (* fetch_imageinfo *)
| CDownload (i : title)                                   (* _download_image *)
| CHandle                                                 (* handle_new_basepath *)
| CDesc (block : list title).                             (* fetch_image_page *)

Record state := mkState {
  pending : list call;             (* greenlets in self.pool *)
  scheduled : list title;          (* self.scheduled (image titles) *)
  todo : list title;               (* self.imageinfo_todo  (pages_todo / revids_todo never fill: all entry points use expanded=True) *)
  desc_todo : option (list title); (* self.imagedescription_todo[the one base path] *)
  stored : list item }.

(* split_blocks(lst, limit), fetch.py:226 *)
Fixpoint chunks {A} (fuel : nat) (L : nat) (l : list A) : list (list A) :=
  match fuel with
  | O => []
  | S f => match l with [] => [] | _ => firstn L l :: chunks f L (skipn L l) end
  end.
Definition bl (L : nat) : nat := S (Nat.pred L).      (* = L for L >= 1 *)
Definition split_blocks {A} (L : nat) (l : list A) : list (list A) := chunks (length l) (bl L) l.

Definition mk_enq (fi : bool) (reds : list (title * title)) (imgs : list title) : call :=
  CEnq reds (if fi then imgs else []).

(* workflow.enqueue_missing(images, imageinfo_todo, scheduled) *)
Fixpoint enqueue (imgs : list title) (td sch : list title) : list title * list title :=
  match imgs with
  | [] => (td, sch)
  | i :: rest => if memN i sch then enqueue rest td sch else enqueue rest (td ++ [i]) (sch ++ [i])
  end.

Definition is_current (p : page) (r : rev) : bool :=
  match current p with Some c => N.eqb (r_id c) (r_id r) | None => false end.

Definition exp_title_items (W : wiki) (t : title) : list item :=
  map (fun h => IRedir (fst h) (snd h)) (fst (resolve W t)) ++
  match final_rev W t with Some r => [IArt t None (r_id r)] | None => [] end.

Definition exp_rev_items (p : page) (r : rev) : list item :=
  (match r_redirect r with Some x => if is_current p r then [IRedir (p_title p) x] else [] | None => [] end)
  ++ [IArt (p_title p) (Some (r_id r)) (r_id r)].

Definition info_ok (W : wiki) (block : list title) : list title := filter (img_ok W) block.

Definition add (s : state) (its : list item) (cs : list call) : state :=
  mkState (pending s ++ cs) (scheduled s) (todo s) (desc_todo s) (stored s ++ its).

(* completion of one call; `s` no longer has the call in `pending` *)
Definition exec (W : wiki) (L : nat) (fi : bool) (c : call) (s : state) : state :=
  match c with
  | CEnq reds imgs =>
      let '(td, sch) := enqueue imgs (todo s) (scheduled s) in
      mkState (pending s) sch td (desc_todo s) (stored s ++ map (fun h => IRedir (fst h) (snd h)) reds)
  | CExpTitle t =>
      add s (exp_title_items W t) (match final_rev W t with Some _ => [CEdits t] | None => [] end)
  | CExpRev rv =>
      match find_rev W rv with
      | None => s                                                  (* KeyError 'pages' ends the greenlet *)
      | Some (p, r) =>
          add s (exp_rev_items p r)
              ((match r_redirect r with
                | Some x => [CExpTitle x; mk_enq fi (used_titles_reds W [x]) (used_titles_imgs W [x])]
                | None => [] end) ++ [CEdits (p_title p)])
      end
  | CEdits k => add s (auth_items W k) []
  | CInfo block =>
      let ok := info_ok W block in
      let s1 := add s (map IInfo ok) (map CDownload ok) in
      match ok with
      | [] => s1
      | _ => match desc_todo s1 with
             | Some l => mkState (pending s1) (scheduled s1) (todo s1) (Some (l ++ ok)) (stored s1)
             | None => mkState (pending s1 ++ [CHandle]) (scheduled s1) (todo s1) (Some ok) (stored s1)
             end
      end
  | CDownload i => add s [IFile i] []
  | CHandle =>
      match desc_todo s with
      | None => s
      | Some l => mkState (pending s ++ map CDesc (split_blocks L l) ++ map CEdits l)
                          (scheduled s) (todo s) None (stored s)
      end
  | CDesc block => add s (map IDesc (filter (page_exists W) block)) []
  end.

(* dispatch(): drain imageinfo_todo in blocks *)
Definition dispatch (L : nat) (s : state) : state :=
  mkState (pending s ++ map CInfo (split_blocks L (todo s))) (scheduled s) [] (desc_todo s) (stored s).

Fixpoint remove_nth {A} (n : nat) (l : list A) : list A :=
  match l, n with
  | [], _ => []
  | _ :: l', O => l'
  | x :: l', S n' => x :: remove_nth n' l'
  end.

Definition isnil {A} (l : list A) : bool := match l with [] => true | _ => false end.

(* one scheduling decision: which pending call completes next, and whether the dispatcher finds the API
   idle afterwards (it always does when nothing is in flight any more) *)
Definition op := (nat * bool)%type.
Definition step (W : wiki) (L : nat) (fi : bool) (s : state) (o : op) : state :=
  match pending s with
  | [] => s
  | c0 :: _ =>
      let i := Nat.modulo (fst o) (length (pending s)) in
      let c := nth i (pending s) c0 in
      let s1 := exec W L fi c (mkState (remove_nth i (pending s)) (scheduled s) (todo s) (desc_todo s) (stored s)) in
      if snd o || isnil (pending s1) then dispatch L s1 else s1
  end.

Definition run (W : wiki) (L : nat) (fi : bool) (sched : list op) (s : state) : state :=
  fold_left (step W L fi) sched s.

(* ------------------------------------------------------------------ metabook, initial state (Fetcher.__init__) *)
Definition metabook := list (title * option revid).

Fixpoint nodupN (l : list N) : list N :=
  match l with [] => [] | x :: l' => if memN x l' then nodupN l' else x :: nodupN l' end.

Definition mb_titles (M : metabook) : list title :=
  nodupN (flat_map (fun a => match snd a with None => [fst a] | Some _ => [] end) M).
Definition mb_revids (M : metabook) : list revid :=
  nodupN (flat_map (fun a => match snd a with Some rv => [rv] | None => [] end) M).

Definition init_calls (W : wiki) (L : nat) (fi : bool) (M : metabook) : list call :=
  let ts := mb_titles M in
  let rvs := mb_revids M in
  (* fetch_html("page", titles) / ("oldid", revids): one parse per item *)
  map (fun t => mk_enq fi [] (used_titles_imgs W [t])) ts ++
  map (fun rv => mk_enq fi [] (html_rev_imgs W rv)) rvs ++
  (* fetch_used("titles", ..) / ("revids", ..): one request per block *)
  map (fun b => mk_enq fi (used_titles_reds W b) (used_titles_imgs W b)) (split_blocks L ts) ++
  map (fun b => mk_enq fi [] (used_revs_imgs W b)) (split_blocks L rvs) ++
  map CExpTitle ts ++ map CExpRev rvs.

Definition init (W : wiki) (L : nat) (fi : bool) (M : metabook) : state :=
  mkState (init_calls W L fi M) [] [] None [].

(* ------------------------------------------------------------------ specification (no schedule, no batch size) *)
(* titles whose current text must be in the archive: the listed ones and the targets of listed redirect revisions *)
Definition title_roots (W : wiki) (M : metabook) : list title :=
  mb_titles M ++
  flat_map (fun rv => match find_rev W rv with
                      | Some (_, r) => match r_redirect r with Some x => [x] | None => [] end
                      | None => [] end) (mb_revids M).

(* everything the wiki has about an image that exists *)
Definition img_items (W : wiki) (i : title) : list item :=
  if img_ok W i then [IInfo i; IFile i] ++ (if page_exists W i then [IDesc i] else []) ++ auth_items W i else [].

Definition art_title_items (W : wiki) (t : title) : list item :=
  exp_title_items W t ++ match final_rev W t with Some _ => auth_items W t | None => [] end.

Definition art_rev_items (W : wiki) (rv : revid) : list item :=
  match find_rev W rv with
  | Some (p, r) => exp_rev_items p r ++ auth_items W (p_title p)
  | None => []
  end.

(* images the property asks for: those of the texts that are served *)
Definition needed_imgs (W : wiki) (M : metabook) : list title :=
  used_titles_imgs W (title_roots W M) ++ flat_map (html_rev_imgs W) (mb_revids M).
(* images the fetcher additionally takes: prop=images of a revid describes the page's current revision *)
Definition extra_imgs (W : wiki) (M : metabook) : list title := used_revs_imgs W (mb_revids M).

Definition needed (W : wiki) (fi : bool) (M : metabook) : list item :=
  flat_map (art_title_items W) (title_roots W M) ++
  flat_map (art_rev_items W) (mb_revids M) ++
  (if fi then flat_map (img_items W) (needed_imgs W M) else []).

Definition fetched (W : wiki) (fi : bool) (M : metabook) : list item :=
  needed W fi M ++ (if fi then flat_map (img_items W) (extra_imgs W M) else []).

(* ------------------------------------------------------------------ termination measure *)
Definition weight (W : wiki) (c : call) : nat :=
  match c with
  | CEnq _ imgs => 1 + 8 * length imgs
  | CExpTitle _ => 2
  | CExpRev rv => 6 + 8 * match find_rev W rv with
                          | Some (_, r) => match r_redirect r with Some x => length (used_titles_imgs W [x]) | None => 0 end
                          | None => 0 end
  | CEdits _ => 1
  | CInfo b => 1 + 6 * length b
  | CDownload _ => 1
  | CHandle => 1
  | CDesc _ => 1
  end.
Fixpoint sumw (W : wiki) (cs : list call) : nat := match cs with [] => 0 | c :: r => weight W c + sumw W r end.
Definition measure (W : wiki) (s : state) : nat :=
  sumw W (pending s) + 8 * length (todo s) + 3 * match desc_todo s with Some l => length l | None => 0 end.

(* item order-insensitive helpers for the driver *)
Definition final (s : state) : bool := isnil (pending s).
