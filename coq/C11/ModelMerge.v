(* C11 — sapi.merge_data (sapi.py:37-51) on nested JSON values (model only).

     def merge_data(dst, src):
         todo = [(dst, src)]
         while todo:
             dst, src = todo.pop()
             if not isinstance(dst, type(src)): raise ValueError
             if isinstance(dst, list):   dst.extend(src)
             elif isinstance(dst, dict):
                 for k, val in src.items():
                     if k in dst: todo.append((dst[k], val))
                     else:        dst[k] = val

   Values: atoms (JSON strings: page titles, continuation values; one Python type), lists (their elements are
   never looked into: numbers here), dicts in insertion order with unique keys.  The explicit stack of the real
   code visits independent (dst[k], val) pairs, so the order of the visits does not matter: the model recurses
   directly.  None = ValueError (the partially merged dst of the real code is then thrown away with the query).
   ModelContinue.v's `data` / `merge` is the special case "dict of lists" (ProofsMerge.v: merge_val_flat). *)
From Coq Require Import List NArith Bool.
From MW Require Import C11.ModelContinue.
Import ListNotations.
Local Open Scope N_scope.

Inductive val :=
| VAtom (a : N)
| VList (l : list N)
| VDict (d : list (N * val)).

Fixpoint merge_val (dst src : val) {struct src} : option val :=
  match src, dst with
  | VAtom _, VAtom _ => Some dst                              (* neither list nor dict: nothing happens *)
  | VList s, VList d => Some (VList (d ++ s))                 (* dst.extend(src) *)
  | VDict s, VDict d =>
      option_map VDict
        ((fix go (s : list (N * val)) (d : list (N * val)) {struct s} : option (list (N * val)) :=
            match s with
            | [] => Some d
            | (k, v) :: r =>
                match (fix upd (d : list (N * val)) : option (list (N * val)) :=
                         match d with
                         | [] => Some [(k, v)]                                   (* dst[k] = val *)
                         | (k', x) :: d' =>
                             if N.eqb k k'
                             then match merge_val x v with                       (* todo.append((dst[k], val)) *)
                                  | Some y => Some ((k', y) :: d')
                                  | None => None
                                  end
                             else match upd d' with Some d'' => Some ((k', x) :: d'') | None => None end
                         end) d with
                | Some d1 => go r d1
                | None => None
                end
            end) s d)
  | _, _ => None                                              (* not isinstance(dst, type(src)) *)
  end.

Definition of_flat (d : data) : val := VDict (map (fun kl => (fst kl, VList (snd kl))) d).

(* comparison, for the run against the real merge_data *)
Fixpoint val_eqb (a b : val) {struct a} : bool :=
  match a, b with
  | VAtom x, VAtom y => N.eqb x y
  | VList x, VList y => listN_eqb x y
  | VDict x, VDict y =>
      (fix go (x y : list (N * val)) {struct x} : bool :=
         match x, y with
         | [], [] => true
         | (k, v) :: x', (k', v') :: y' => N.eqb k k' && val_eqb v v' && go x' y'
         | _, _ => false
         end) x y
  | _, _ => false
  end.
Definition oval_eqb (a b : option val) : bool :=
  match a, b with Some x, Some y => val_eqb x y | None, None => true | _, _ => false end.
