(* C11 — the work-list closure: the set  stored ∪ future(pending, todo, desc_todo)  is the same in every
   reachable state, whatever call completes next, whatever the batch size. *)
From Coq Require Import List NArith Bool Arith Lia.
From MW Require Import C11.Model C11.Proofs.
Import ListNotations.

Definition redir_items (reds : list (title * title)) : list item := map (fun h => IRedir (fst h) (snd h)) reds.

Definition unsched (sch : list title) (imgs : list title) : list title := filter (fun i => negb (memN i sch)) imgs.

Definition fut_enq (W : wiki) (sch : list title) (reds : list (title * title)) (imgs : list title) : list item :=
  redir_items reds ++ flat_map (img_items W) (unsched sch imgs).

(* what a pending call will still add to the archive (directly or through the calls it starts) *)
Definition fut_call (W : wiki) (fi : bool) (sch : list title) (c : call) : list item :=
  match c with
  | CEnq reds imgs => fut_enq W sch reds imgs
  | CExpTitle t => art_title_items W t
  | CExpRev rv =>
      match find_rev W rv with
      | None => []
      | Some (p, r) =>
          exp_rev_items p r ++ auth_items W (p_title p) ++
          match r_redirect r with
          | Some x => art_title_items W x ++ fut_enq W sch (used_titles_reds W [x]) (if fi then used_titles_imgs W [x] else [])
          | None => []
          end
      end
  | CEdits k => auth_items W k
  | CInfo b => flat_map (img_items W) b
  | CDownload i => [IFile i]
  | CHandle => []
  | CDesc b => map IDesc (filter (page_exists W) b)
  end.

Definition fut_desc (W : wiki) (d : option (list title)) : list item :=
  match d with Some l => map IDesc (filter (page_exists W) l) ++ flat_map (auth_items W) l | None => [] end.

Definition total (W : wiki) (fi : bool) (s : state) : list item :=
  stored s ++ flat_map (fut_call W fi (scheduled s)) (pending s) ++ flat_map (img_items W) (todo s) ++ fut_desc W (desc_todo s).

(* ------------------------------------------------------------------ enqueue *)
Lemma memN_app : forall x a b, memN x (a ++ b) = memN x a || memN x b.
Proof. intros. unfold memN. apply existsb_app. Qed.

Lemma enqueue_spec : forall imgs td sch, exists new,
  enqueue imgs td sch = (td ++ new, sch ++ new) /\
  forall i, In i new <-> (In i imgs /\ ~ In i sch).
Proof.
  intros imgs. induction imgs as [|a rest IH]; intros td sch; cbn [enqueue].
  - exists []. rewrite !app_nil_r. split; [reflexivity|]. intros i. cbn. tauto.
  - destruct (memN a sch) eqn:Hm.
    + destruct (IH td sch) as [new [He Hn]]. exists new. split; [exact He|].
      intros i. rewrite Hn. cbn. apply memN_In in Hm. split.
      * intros [H1 H2]. split; [right; exact H1 | exact H2].
      * intros [[H1|H1] H2]; [subst; contradiction | split; assumption].
    + destruct (IH (td ++ [a]) (sch ++ [a])) as [new [He Hn]]. exists (a :: new).
      split.
      * rewrite He. rewrite <- !app_assoc. reflexivity.
      * intros i. apply memN_false in Hm. cbn. rewrite Hn. rewrite in_app_iff. cbn.
        destruct (N.eq_dec a i) as [E|E].
        -- subst. tauto.
        -- tauto.
Qed.

Lemma unsched_In : forall sch imgs i, In i (unsched sch imgs) <-> In i imgs /\ ~ In i sch.
Proof.
  intros sch imgs i. unfold unsched. rewrite filter_In. rewrite negb_true_iff. rewrite memN_false. tauto.
Qed.

(* futures only shrink when more images are scheduled, and what they lose are exactly the newly scheduled images *)
Lemma fut_enq_split : forall W sch new reds imgs x,
  In x (fut_enq W sch reds imgs) <->
  In x (fut_enq W (sch ++ new) reds imgs) \/ (exists i, In i new /\ In i imgs /\ ~ In i sch /\ In x (img_items W i)).
Proof.
  intros W sch new reds imgs x. unfold fut_enq. rewrite !in_app_iff. rewrite !in_flat_map. split.
  - intros [H|[i [Hi Hx]]]; [left; left; exact H|].
    apply unsched_In in Hi. destruct Hi as [Hi Hs].
    destruct (in_dec N.eq_dec i new) as [Hn|Hn].
    + right. exists i. tauto.
    + left. right. exists i. split; [|exact Hx]. apply unsched_In. split; [exact Hi|].
      rewrite in_app_iff. tauto.
  - intros [[H|[i [Hi Hx]]]|[i [Hn [Hi [Hs Hx]]]]].
    + left. exact H.
    + right. exists i. split; [|exact Hx]. apply unsched_In in Hi. apply unsched_In. rewrite in_app_iff in Hi. tauto.
    + right. exists i. split; [|exact Hx]. apply unsched_In. tauto.
Qed.

Lemma fut_call_split : forall W fi sch new c x,
  In x (fut_call W fi sch c) ->
  In x (fut_call W fi (sch ++ new) c) \/ (exists i, In i new /\ ~ In i sch /\ In x (img_items W i)).
Proof.
  intros W fi sch new c x H. destruct c as [reds imgs|t|rv|k|block|i| |block]; cbn [fut_call] in *; try (left; exact H).
  - apply (fut_enq_split W sch new) in H. destruct H as [H|[i H]]; [left; exact H | right; exists i; tauto].
  - destruct (find_rev W rv) as [[p r]|]; [|left; exact H].
    rewrite !in_app_iff in H. rewrite !in_app_iff.
    destruct H as [H|[H|H]]; [left; tauto | left; tauto |].
    destruct (r_redirect r) as [y|]; [|destruct H].
    rewrite in_app_iff in H. rewrite in_app_iff. destruct H as [H|H]; [left; tauto|].
    apply (fut_enq_split W sch new) in H. destruct H as [H|[i H]]; [left; tauto | right; exists i; tauto].
Qed.

Lemma fut_call_mono : forall W fi sch new c x,
  In x (fut_call W fi (sch ++ new) c) -> In x (fut_call W fi sch c).
Proof.
  intros W fi sch new c x H. destruct c as [reds imgs|t|rv|k|block|i| |block]; cbn [fut_call] in *; try exact H.
  - apply (fut_enq_split W sch new). left. exact H.
  - destruct (find_rev W rv) as [[p r]|]; [|exact H].
    rewrite !in_app_iff in H. rewrite !in_app_iff.
    destruct H as [H|[H|H]]; [tauto | tauto |].
    destruct (r_redirect r) as [y|]; [|destruct H].
    rewrite in_app_iff in H. rewrite in_app_iff. destruct H as [H|H]; [tauto|].
    right. right. right. apply (fut_enq_split W sch new). left. exact H.
Qed.

(* ------------------------------------------------------------------ one completion *)
Lemma total_add : forall W fi s its cs x,
  In x (total W fi (add s its cs)) <->
  In x its \/ In x (flat_map (fut_call W fi (scheduled s)) cs) \/ In x (total W fi s).
Proof.
  intros W fi s its cs x. unfold total, add. cbn [stored pending scheduled todo desc_todo].
  rewrite flat_map_app. rewrite !in_app_iff. tauto.
Qed.

Lemma img_items_ok : forall W i, img_ok W i = true ->
  img_items W i = [IInfo i; IFile i] ++ (if page_exists W i then [IDesc i] else []) ++ auth_items W i.
Proof. intros W i H. unfold img_items. rewrite H. reflexivity. Qed.

Lemma img_items_not_ok : forall W i, img_ok W i = false -> img_items W i = [].
Proof. intros W i H. unfold img_items. rewrite H. reflexivity. Qed.

Lemma img_items_block : forall W block x,
  In x (flat_map (img_items W) block) <->
  In x (map IInfo (info_ok W block)) \/ In x (flat_map (fun i => [IFile i]) (info_ok W block)) \/
  In x (map IDesc (filter (page_exists W) (info_ok W block))) \/ In x (flat_map (auth_items W) (info_ok W block)).
Proof.
  intros W block x. induction block as [|a block IH]; [cbn; tauto|].
  cbn [flat_map]. rewrite in_app_iff. rewrite IH. unfold info_ok. cbn [filter].
  destruct (img_ok W a) eqn:Ha.
  - rewrite (img_items_ok W a Ha). cbn [map flat_map filter]. destruct (page_exists W a); cbn [map app]; rewrite ?in_app_iff; cbn [In]; rewrite ?in_app_iff; tauto.
  - rewrite (img_items_not_ok W a Ha). cbn [In]. tauto.
Qed.

Lemma flat_map_download : forall W fi sch l x,
  In x (flat_map (fut_call W fi sch) (map CDownload l)) <-> In x (flat_map (fun i => [IFile i]) l).
Proof. intros. induction l as [|a l IH]; cbn; [tauto|]. rewrite IH. tauto. Qed.

Lemma flat_map_edits : forall W fi sch l x,
  In x (flat_map (fut_call W fi sch) (map CEdits l)) <-> In x (flat_map (auth_items W) l).
Proof. intros. induction l as [|a l IH]; cbn [map flat_map fut_call]; [tauto|]. rewrite !in_app_iff. rewrite IH. tauto. Qed.

Lemma flat_map_desc_blocks : forall W fi sch L l x,
  In x (flat_map (fut_call W fi sch) (map CDesc (split_blocks L l))) <-> In x (map IDesc (filter (page_exists W) l)).
Proof.
  intros W fi sch L l x. rewrite in_flat_map. rewrite in_map_iff. split.
  - intros [c [Hc Hx]]. apply in_map_iff in Hc. destruct Hc as [b [Hb Hin]]. subst c. cbn [fut_call] in Hx.
    apply in_map_iff in Hx. destruct Hx as [i [Hi Hf]]. exists i. split; [exact Hi|].
    apply filter_In in Hf. apply filter_In. destruct Hf as [Hf1 Hf2]. split; [|exact Hf2].
    apply (split_blocks_In L l i). exists b. split; assumption.
  - intros [i [Hi Hf]]. apply filter_In in Hf. destruct Hf as [Hf1 Hf2].
    apply (split_blocks_In L l i) in Hf1. destruct Hf1 as [b [Hb Hib]].
    exists (CDesc b). split; [apply in_map; exact Hb|]. cbn [fut_call]. apply in_map_iff. exists i. split; [exact Hi|].
    apply filter_In. split; assumption.
Qed.

Lemma flat_map_info_blocks : forall W fi sch L l x,
  In x (flat_map (fut_call W fi sch) (map CInfo (split_blocks L l))) <-> In x (flat_map (img_items W) l).
Proof.
  intros W fi sch L l x. rewrite !in_flat_map. split.
  - intros [c [Hc Hx]]. apply in_map_iff in Hc. destruct Hc as [b [Hb Hin]]. subst c. cbn [fut_call] in Hx.
    apply in_flat_map in Hx. destruct Hx as [i [Hi Hx]]. exists i. split; [|exact Hx].
    apply (split_blocks_In L l i). exists b. split; assumption.
  - intros [i [Hi Hx]]. apply (split_blocks_In L l i) in Hi. destruct Hi as [b [Hb Hib]].
    exists (CInfo b). split; [apply in_map; exact Hb|]. cbn [fut_call]. apply in_flat_map. exists i. split; assumption.
Qed.

Lemma total_set_desc_some : forall W fi s l ok x, desc_todo s = Some l ->
  (In x (total W fi (mkState (pending s) (scheduled s) (todo s) (Some (l ++ ok)) (stored s))) <->
   In x (total W fi s) \/ In x (map IDesc (filter (page_exists W) ok)) \/ In x (flat_map (auth_items W) ok)).
Proof.
  intros W fi s l ok x H. unfold total. cbn [stored pending scheduled todo desc_todo]. rewrite H. cbn [fut_desc].
  rewrite filter_app, map_app, flat_map_app. rewrite !in_app_iff. tauto.
Qed.

Lemma total_set_desc_none : forall W fi s ok x, desc_todo s = None ->
  (In x (total W fi (mkState (pending s ++ [CHandle]) (scheduled s) (todo s) (Some ok) (stored s))) <->
   In x (total W fi s) \/ In x (map IDesc (filter (page_exists W) ok)) \/ In x (flat_map (auth_items W) ok)).
Proof.
  intros W fi s ok x H. unfold total. cbn [stored pending scheduled todo desc_todo]. rewrite H. cbn [fut_desc].
  rewrite flat_map_app. cbn [flat_map fut_call app]. rewrite !in_app_iff. cbn [In]. tauto.
Qed.

Lemma exec_total : forall W L fi c s x,
  In x (total W fi (exec W L fi c s)) <-> In x (fut_call W fi (scheduled s) c) \/ In x (total W fi s).
Proof.
  intros W L fi c s x. destruct c as [reds imgs|t|rv|k|block|i| |block]; cbn [exec].
  - (* CEnq *)
    destruct (enqueue_spec imgs (todo s) (scheduled s)) as [new [He Hn]]. rewrite He.
    unfold total. cbn [stored pending scheduled todo desc_todo fut_call].
    rewrite flat_map_app. rewrite !in_app_iff. fold (redir_items reds).
    split.
    + intros [[H|H]|[H|[[H|H]|H]]].
      * tauto.
      * left. unfold fut_enq. rewrite in_app_iff. tauto.
      * apply in_flat_map in H. destruct H as [c [Hc Hx]]. apply fut_call_mono in Hx.
        right. right. left. apply in_flat_map. exists c. split; assumption.
      * tauto.
      * apply in_flat_map in H. destruct H as [i [Hi Hx]]. apply Hn in Hi.
        left. unfold fut_enq. rewrite in_app_iff. right. apply in_flat_map. exists i. split; [|exact Hx].
        apply unsched_In. exact Hi.
      * tauto.
    + intros [H|[H|[H|[H|H]]]].
      * unfold fut_enq in H. rewrite in_app_iff in H. destruct H as [H|H]; [tauto|].
        apply in_flat_map in H. destruct H as [i [Hi Hx]]. apply unsched_In in Hi. apply Hn in Hi.
        right. right. left. right. apply in_flat_map. exists i. split; assumption.
      * tauto.
      * apply in_flat_map in H. destruct H as [c [Hc Hx]].
        apply (fut_call_split W fi (scheduled s) new) in Hx. destruct Hx as [Hx|[i [Hi [_ Hx]]]].
        -- right. left. apply in_flat_map. exists c. split; assumption.
        -- right. right. left. right. apply in_flat_map. exists i. split; assumption.
      * tauto.
      * tauto.
  - (* CExpTitle *)
    rewrite total_add. cbn [fut_call]. unfold art_title_items. rewrite in_app_iff.
    destruct (final_rev W t); cbn [flat_map fut_call]; rewrite ?app_nil_r; cbn [In]; tauto.
  - (* CExpRev *)
    cbn [fut_call]. destruct (find_rev W rv) as [[p r]|]; [|cbn [In]; tauto].
    rewrite total_add. rewrite !in_app_iff.
    destruct (r_redirect r) as [y|]; cbn [app flat_map fut_call mk_enq]; rewrite ?in_app_iff; rewrite ?app_nil_r; cbn [In]; tauto.
  - (* CEdits *) rewrite total_add. cbn [flat_map fut_call In]. tauto.
  - (* CInfo *)
    cbv zeta. cbn [fut_call]. rewrite img_items_block.
    set (ok := info_ok W block).
    assert (Hs1 : forall y, In y (total W fi (add s (map IInfo ok) (map CDownload ok))) <->
                   In y (map IInfo ok) \/ In y (flat_map (fun i => [IFile i]) ok) \/ In y (total W fi s)).
    { intros y. rewrite total_add. rewrite flat_map_download. tauto. }
    destruct ok as [|o ok'] eqn:Hok.
    + rewrite Hs1. cbn [map flat_map filter In]. tauto.
    + rewrite <- Hok in *. clear Hok. cbn [desc_todo add].
      destruct (desc_todo s) as [l|] eqn:Hd.
      * rewrite (total_set_desc_some W fi (add s (map IInfo ok) (map CDownload ok)) l ok x Hd). rewrite Hs1. tauto.
      * rewrite (total_set_desc_none W fi (add s (map IInfo ok) (map CDownload ok)) ok x Hd). rewrite Hs1. tauto.
  - (* CDownload *) rewrite total_add. cbn [flat_map fut_call In]. tauto.
  - (* CHandle *)
    cbn [fut_call In]. destruct (desc_todo s) as [l|] eqn:Hd; [|tauto].
    unfold total. cbn [stored pending scheduled todo desc_todo fut_desc]. rewrite Hd. cbn [fut_desc].
    rewrite !flat_map_app. rewrite !in_app_iff. rewrite flat_map_desc_blocks. rewrite flat_map_edits. cbn [In]. tauto.
  - (* CDesc *) rewrite total_add. cbn [flat_map fut_call In]. tauto.
Qed.

Lemma dispatch_total : forall W L fi s x, In x (total W fi (dispatch L s)) <-> In x (total W fi s).
Proof.
  intros W L fi s x. unfold total, dispatch. cbn [stored pending scheduled todo desc_todo flat_map].
  rewrite flat_map_app. rewrite !in_app_iff. rewrite flat_map_info_blocks. cbn [In]. tauto.
Qed.

Lemma step_total : forall W L fi s o x, In x (total W fi (step W L fi s o)) <-> In x (total W fi s).
Proof.
  intros W L fi s o x. unfold step. destruct (pending s) as [|c0 rest] eqn:Hp; [tauto|].
  set (i := Nat.modulo (fst o) (length (c0 :: rest))).
  assert (Hi : i < length (c0 :: rest)) by (apply Nat.mod_upper_bound; cbn; lia).
  set (c := nth i (c0 :: rest) c0).
  set (s0 := mkState (remove_nth i (c0 :: rest)) (scheduled s) (todo s) (desc_todo s) (stored s)).
  assert (Hsplit : In x (total W fi s) <-> In x (fut_call W fi (scheduled s) c) \/ In x (total W fi s0)).
  { unfold total, s0. cbn [stored pending scheduled todo desc_todo]. rewrite Hp. rewrite !in_app_iff. rewrite !in_flat_map.
    split.
    - intros [H|[[d [Hd Hx]]|H]]; [tauto| |tauto].
      apply (nth_remove_In (c0 :: rest) i c0 d Hi) in Hd. destruct Hd as [Hd|Hd].
      + subst d. left. exact Hx.
      + right. right. left. exists d. split; assumption.
    - intros [H|[H|[[d [Hd Hx]]|H]]]; [| tauto | | tauto].
      + right. left. exists c. split; [|exact H]. apply (nth_remove_In (c0 :: rest) i c0 c Hi). left. reflexivity.
      + right. left. exists d. split; [|exact Hx]. apply (nth_remove_In (c0 :: rest) i c0 d Hi). right. exact Hd. }
  rewrite Hsplit. change (scheduled s) with (scheduled s0).
  destruct (snd o || isnil (pending (exec W L fi c s0))).
  - rewrite dispatch_total. apply exec_total.
  - apply exec_total.
Qed.

Lemma run_total : forall W L fi sched s x, In x (total W fi (run W L fi sched s)) <-> In x (total W fi s).
Proof.
  intros W L fi sched. induction sched as [|o sched IH]; intros s x; cbn [run fold_left]; [tauto|].
  fold (run W L fi sched (step W L fi s o)). rewrite IH. apply step_total.
Qed.

(* ------------------------------------------------------------------ side invariants *)
Definition inv (s : state) : Prop :=
  (pending s = [] -> todo s = []) /\ (desc_todo s <> None -> In CHandle (pending s)).

Lemma exec_inv_desc : forall W L fi c s,
  (desc_todo s <> None -> In CHandle (pending s) \/ c = CHandle) ->
  (desc_todo (exec W L fi c s) <> None -> In CHandle (pending (exec W L fi c s))).
Proof.
  intros W L fi c s H. destruct c as [reds imgs|t|rv|k|block|i| |block]; cbn [exec].
  - destruct (enqueue imgs (todo s) (scheduled s)) as [td sch]. cbn [desc_todo pending]. intros Hd. destruct (H Hd) as [Hc|Hc]; [exact Hc|discriminate].
  - cbn [add desc_todo pending]. intros Hd. rewrite in_app_iff. destruct (H Hd) as [Hc|Hc]; [tauto|discriminate].
  - destruct (find_rev W rv) as [[p r]|].
    + cbn [add desc_todo pending]. intros Hd. rewrite in_app_iff. destruct (H Hd) as [Hc|Hc]; [tauto|discriminate].
    + intros Hd. destruct (H Hd) as [Hc|Hc]; [tauto|discriminate].
  - cbn [add desc_todo pending]. intros Hd. rewrite in_app_iff. destruct (H Hd) as [Hc|Hc]; [tauto|discriminate].
  - cbv zeta. destruct (info_ok W block) as [|o ok'] eqn:Hok.
    + cbn [add desc_todo pending map]. intros Hd. rewrite in_app_iff. destruct (H Hd) as [Hc|Hc]; [tauto|discriminate].
    + cbn [add desc_todo]. destruct (desc_todo s) as [l|] eqn:Hd0.
      * cbn [add desc_todo pending]. intros _. rewrite in_app_iff. assert (Hx : Some l <> None) by discriminate. destruct (H Hx) as [Hc|Hc]; [tauto|discriminate].
      * cbn [add desc_todo pending]. intros _. rewrite !in_app_iff. cbn [In]. tauto.
  - cbn [add desc_todo pending]. intros Hd. rewrite in_app_iff. destruct (H Hd) as [Hc|Hc]; [tauto|discriminate].
  - destruct (desc_todo s) as [l|] eqn:Hd0.
    + cbn [desc_todo]. intros Hd. congruence.
    + rewrite Hd0. intros Hd. congruence.
  - cbn [add desc_todo pending]. intros Hd. rewrite in_app_iff. destruct (H Hd) as [Hc|Hc]; [tauto|discriminate].
Qed.

Lemma step_inv : forall W L fi s o, inv s -> inv (step W L fi s o).
Proof.
  intros W L fi s o [H1 H2]. unfold step. destruct (pending s) as [|c0 rest] eqn:Hp.
  - split; [intros _; apply H1; reflexivity | intros Hd; destruct (H2 Hd)].
  - set (i := Nat.modulo (fst o) (length (c0 :: rest))).
    assert (Hi : i < length (c0 :: rest)) by (apply Nat.mod_upper_bound; cbn; lia).
    set (c := nth i (c0 :: rest) c0).
    set (s0 := mkState (remove_nth i (c0 :: rest)) (scheduled s) (todo s) (desc_todo s) (stored s)).
    assert (Hd : desc_todo (exec W L fi c s0) <> None -> In CHandle (pending (exec W L fi c s0))).
    { apply exec_inv_desc. unfold s0. cbn [desc_todo pending]. intros Hd. specialize (H2 Hd).
      apply (nth_remove_In (c0 :: rest) i c0 CHandle Hi) in H2. fold c in H2. destruct H2 as [E|E]; [right; symmetry; exact E | left; exact E]. }
    destruct (snd o || isnil (pending (exec W L fi c s0))) eqn:Hb.
    + split.
      * intros _. reflexivity.
      * unfold dispatch. cbn [desc_todo pending]. intros Hx. rewrite in_app_iff. left. apply Hd. exact Hx.
    + split.
      * intros Hn. apply orb_false_iff in Hb. destruct Hb as [_ Hb]. rewrite Hn in Hb. discriminate.
      * exact Hd.
Qed.

Lemma run_inv : forall W L fi sched s, inv s -> inv (run W L fi sched s).
Proof.
  intros W L fi sched. induction sched as [|o sched IH]; intros s H; cbn [run fold_left]; [exact H|].
  apply IH. apply step_inv. exact H.
Qed.

Lemma final_total : forall W fi s x, inv s -> pending s = [] -> (In x (total W fi s) <-> In x (stored s)).
Proof.
  intros W fi s x [H1 H2] Hp. unfold total. rewrite Hp. rewrite (H1 Hp).
  destruct (desc_todo s) as [l|] eqn:Hd.
  - exfalso. assert (Hx : Some l <> None) by discriminate. specialize (H2 Hx). rewrite Hp in H2. exact H2.
  - cbn. rewrite app_nil_r. tauto.
Qed.
