(* C11 — lemmas: list helpers, termination measure. *)
From Coq Require Import List NArith Bool Arith Lia.
From MW Require Import C11.Model.
Import ListNotations.

(* ------------------------------------------------------------------ lists *)
Lemma memN_In : forall x l, memN x l = true <-> In x l.
Proof.
  intros x l. unfold memN. rewrite existsb_exists. split.
  - intros [y [Hy He]]. apply N.eqb_eq in He. subst. exact Hy.
  - intros H. exists x. split; [exact H | apply N.eqb_refl].
Qed.

Lemma memN_false : forall x l, memN x l = false <-> ~ In x l.
Proof.
  intros x l. rewrite <- memN_In. destruct (memN x l).
  - split; intros H; [discriminate | exfalso; apply H; reflexivity].
  - split; intros H; [discriminate | reflexivity].
Qed.

Lemma nth_remove_In : forall {A} (l : list A) i d x, i < length l ->
  (In x l <-> x = nth i l d \/ In x (remove_nth i l)).
Proof.
  intros A l. induction l as [|a l IH]; intros i d x Hi; cbn in Hi; [lia|].
  destruct i as [|i]; cbn [nth remove_nth].
  - cbn. split; intros [H|H]; auto.
  - assert (Hi' : i < length l) by lia. specialize (IH i d x Hi'). cbn. rewrite IH. tauto.
Qed.

Lemma sumw_app : forall W a b, sumw W (a ++ b) = sumw W a + sumw W b.
Proof. intros W a b. induction a as [|c a IH]; cbn; [reflexivity | rewrite IH; lia]. Qed.

Lemma sumw_nth_remove : forall W l i d, i < length l ->
  sumw W l = weight W (nth i l d) + sumw W (remove_nth i l).
Proof.
  intros W l. induction l as [|a l IH]; intros i d Hi; cbn in Hi; [lia|].
  destruct i as [|i]; cbn [nth remove_nth sumw].
  - reflexivity.
  - assert (Hi' : i < length l) by lia. specialize (IH i d Hi'). rewrite IH. lia.
Qed.

Lemma sumw_map_const1 : forall W {A} (f : A -> call) l, (forall a, weight W (f a) = 1) -> sumw W (map f l) = length l.
Proof. intros W A f l H. induction l as [|a l IH]; cbn; [reflexivity|]. rewrite H. rewrite IH. reflexivity. Qed.

(* chunks *)
Lemma chunks_In : forall {A} fuel k (l : list A) x, length l <= fuel ->
  ((exists b, In b (chunks fuel (S k) l) /\ In x b) <-> In x l).
Proof.
  intros A fuel k. induction fuel as [|f IH]; intros l x Hl.
  - destruct l; cbn in Hl; [|lia]. cbn. split; [intros [b [[] _]] | intros []].
  - destruct l as [|a l].
    + cbn. split; [intros [b [[] _]] | intros []].
    + cbn [chunks].
      assert (Hsk : length (skipn (S k) (a :: l)) <= f).
      { rewrite skipn_length. cbn [length] in *. lia. }
      specialize (IH (skipn (S k) (a :: l)) x Hsk).
      split.
      * intros [b [[Hb|Hb] Hx]].
        -- subst b. rewrite <- (firstn_skipn (S k) (a :: l)). apply in_or_app. left. exact Hx.
        -- rewrite <- (firstn_skipn (S k) (a :: l)). apply in_or_app. right. apply IH. exists b. split; assumption.
      * intros Hx. rewrite <- (firstn_skipn (S k) (a :: l)) in Hx. apply in_app_or in Hx. destruct Hx as [Hx|Hx].
        -- exists (firstn (S k) (a :: l)). split; [left; reflexivity | exact Hx].
        -- apply IH in Hx. destruct Hx as [b [Hb Hx]]. exists b. split; [right; exact Hb | exact Hx].
Qed.

Lemma split_blocks_In : forall {A} L (l : list A) x,
  ((exists b, In b (split_blocks L l) /\ In x b) <-> In x l).
Proof. intros A L l x. unfold split_blocks, bl. apply chunks_In. lia. Qed.

Lemma chunks_length : forall {A} fuel k (l : list A), length (chunks fuel (S k) l) <= length l.
Proof.
  intros A fuel k. induction fuel as [|f IH]; intros l; cbn [chunks]; [cbn; lia|].
  destruct l as [|a l]; [cbn; lia|].
  cbn [length]. specialize (IH (skipn (S k) (a :: l))). rewrite skipn_length in IH. cbn [length] in IH. lia.
Qed.

Lemma chunks_info_weight : forall W fuel k (l : list title),
  sumw W (map CInfo (chunks fuel (S k) l)) <= 7 * length l.
Proof.
  intros W fuel k. induction fuel as [|f IH]; intros l; cbn [chunks]; [cbn; lia|].
  destruct l as [|a l]; [cbn; lia|].
  cbn [map sumw weight].
  specialize (IH (skipn (S k) (a :: l))).
  assert (Hlen : length (firstn (S k) (a :: l)) + length (skipn (S k) (a :: l)) = length (a :: l)).
  { rewrite <- (firstn_skipn (S k) (a :: l)) at 3. rewrite app_length. reflexivity. }
  assert (Hpos : 1 <= length (firstn (S k) (a :: l))) by (cbn; lia).
  lia.
Qed.

(* ------------------------------------------------------------------ termination *)
Lemma enqueue_length : forall imgs td sch, length (fst (enqueue imgs td sch)) <= length td + length imgs.
Proof.
  intros imgs. induction imgs as [|i rest IH]; intros td sch; cbn [enqueue].
  - cbn. lia.
  - destruct (memN i sch).
    + specialize (IH td sch). cbn [length]. lia.
    + specialize (IH (td ++ [i]) (sch ++ [i])). rewrite app_length in IH. cbn [length] in *. lia.
Qed.

Lemma measure_add : forall W s its cs, measure W (add s its cs) = measure W s + sumw W cs.
Proof. intros W s its cs. unfold measure, add. cbn. rewrite sumw_app. lia. Qed.

Lemma filter_length_le : forall {A} (f : A -> bool) l, length (filter f l) <= length l.
Proof. intros A f l. induction l as [|a l IH]; cbn; [lia|]. destruct (f a); cbn; lia. Qed.

Lemma mk_enq_weight : forall W fi reds imgs, weight W (mk_enq fi reds imgs) <= 1 + 8 * length imgs.
Proof. intros W fi reds imgs. unfold mk_enq. destruct fi; cbn; lia. Qed.

Lemma exec_measure : forall W L fi c s, measure W (exec W L fi c s) < measure W s + weight W c.
Proof.
  intros W L fi c s. destruct c as [reds imgs|t|rv|k|block|i| |block]; cbn [exec].
  - (* CEnq *)
    pose proof (enqueue_length imgs (todo s) (scheduled s)) as Hl.
    destruct (enqueue imgs (todo s) (scheduled s)) as [td sch] eqn:He. cbn [fst] in Hl.
    unfold measure. cbn [pending todo desc_todo weight]. lia.
  - (* CExpTitle *)
    rewrite measure_add. cbn [weight]. destruct (final_rev W t); cbn; lia.
  - (* CExpRev *)
    cbn [weight]. destruct (find_rev W rv) as [[p r]|]; [|lia].
    rewrite measure_add. destruct (r_redirect r) as [x|].
    + cbn [app sumw weight].
      pose proof (mk_enq_weight W fi (used_titles_reds W [x]) (used_titles_imgs W [x])). lia.
    + cbn. lia.
  - (* CEdits *) rewrite measure_add. cbn. lia.
  - (* CInfo *)
    cbn [weight]. cbv zeta.
    pose proof (filter_length_le (img_ok W) block) as Hf. fold (info_ok W block) in Hf.
    set (ok := info_ok W block) in *.
    assert (Hs1 : measure W (add s (map IInfo ok) (map CDownload ok)) = measure W s + length ok).
    { rewrite measure_add. rewrite sumw_map_const1 by reflexivity. reflexivity. }
    destruct ok as [|o ok'] eqn:Hok.
    + rewrite Hs1. cbn [length]. lia.
    + cbn [desc_todo add]. destruct (desc_todo s) as [l|] eqn:Hd.
      * unfold measure in *. cbn [pending todo desc_todo add] in *. rewrite Hd in *. rewrite app_length. cbn [length] in *. lia.
      * unfold measure in *. cbn [pending todo desc_todo add] in *. rewrite Hd in *. rewrite sumw_app. cbn [sumw weight length] in *.
        lia.
  - (* CDownload *) rewrite measure_add. cbn. lia.
  - (* CHandle *)
    cbn [weight]. destruct (desc_todo s) as [l|] eqn:Hd; [|lia].
    unfold measure. cbn [pending todo desc_todo]. rewrite Hd. rewrite !sumw_app.
    rewrite (sumw_map_const1 W CDesc) by reflexivity. rewrite (sumw_map_const1 W CEdits) by reflexivity.
    pose proof (chunks_length (length l) (Nat.pred L) l) as Hc. unfold split_blocks, bl. lia.
  - (* CDesc *) rewrite measure_add. cbn. lia.
Qed.

Lemma dispatch_measure : forall W L s, measure W (dispatch L s) <= measure W s.
Proof.
  intros W L s. unfold measure, dispatch. cbn [pending todo desc_todo length]. rewrite sumw_app.
  pose proof (chunks_info_weight W (length (todo s)) (Nat.pred L) (todo s)) as H.
  unfold split_blocks, bl. lia.
Qed.

Lemma step_measure : forall W L fi s o, pending s <> [] -> measure W (step W L fi s o) < measure W s.
Proof.
  intros W L fi s o Hne. unfold step. destruct (pending s) as [|c0 rest] eqn:Hp; [congruence|].
  set (i := Nat.modulo (fst o) (length (c0 :: rest))).
  assert (Hi : i < length (c0 :: rest)) by (apply Nat.mod_upper_bound; cbn; lia).
  set (c := nth i (c0 :: rest) c0).
  set (s0 := mkState (remove_nth i (c0 :: rest)) (scheduled s) (todo s) (desc_todo s) (stored s)).
  pose proof (exec_measure W L fi c s0) as He.
  assert (Hm : measure W s0 + weight W c = measure W s).
  { unfold measure, s0. cbn [pending todo desc_todo]. rewrite Hp.
    rewrite (sumw_nth_remove W (c0 :: rest) i c0 Hi). fold c. lia. }
  destruct (snd o || isnil (pending (exec W L fi c s0))).
  - pose proof (dispatch_measure W L (exec W L fi c s0)). lia.
  - lia.
Qed.

Lemma step_final : forall W L fi s o, pending s = [] -> step W L fi s o = s.
Proof. intros W L fi s o H. unfold step. rewrite H. reflexivity. Qed.

Lemma run_final : forall W L fi sched s, pending s = [] -> run W L fi sched s = s.
Proof.
  intros W L fi sched. induction sched as [|o sched IH]; intros s H; cbn; [reflexivity|].
  rewrite step_final by exact H. apply IH. exact H.
Qed.

Lemma measure_pos : forall W s, pending s <> [] -> 1 <= measure W s.
Proof.
  intros W s H. unfold measure. destruct (pending s) as [|c rest]; [congruence|]. cbn [sumw].
  assert (1 <= weight W c) by (destruct c; cbn; lia). lia.
Qed.

Lemma terminates : forall W L fi sched s, measure W s <= length sched -> pending (run W L fi sched s) = [].
Proof.
  intros W L fi sched. induction sched as [|o sched IH]; intros s Hm.
  - cbn in *. destruct (pending s) as [|c rest] eqn:Hp; [reflexivity|].
    assert (Hne : pending s <> []) by (rewrite Hp; discriminate).
    pose proof (measure_pos W s Hne). lia.
  - cbn [run fold_left]. destruct (pending s) as [|c rest] eqn:Hp.
    + rewrite step_final by exact Hp. fold (run W L fi sched s). rewrite run_final by exact Hp. exact Hp.
    + assert (Hne : pending s <> []) by (rewrite Hp; discriminate).
      pose proof (step_measure W L fi s o Hne) as Hs. apply IH. cbn [length] in Hm. lia.
Qed.
