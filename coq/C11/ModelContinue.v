(* C11 — model of the API client's query continuation (model only, no proofs).

   /repo/src/mwlib/network/sapi.py:
     merge_data (dst, src)                 :37-51    recursive merge of two JSON results: lists are extended, dicts
                                                      are merged key by key, a new key is added at the end
     MwApi.__init__: self.qccount = 0      :124
     MwApi._handle_query_continue          :393-405  qccount += 1; copy the continuation values into the next
                                                      request's parameters; give the query up iff <stop condition>
     MwApi._do_request                     :407-431  loop: request, merge, look at "query-continue"

   The statements of these functions are pinned by the translator vt/gen/c11_sapi.py (fail-closed); the one
   expression that decides whether a query is given up (the `if` test in _handle_query_continue) is TRANSLATED
   into coq/C11/Gen_continue.v (`gen_stop same qccount`), everything here is parametrised by it (`stop`).

   Abstraction: a result is a dict from keys (the path "pages" / page id / property, a number here) to lists of
   values: `data`; merge_data on such values = `merge`.  The parameters of a query are a number q (everything but
   the continuation values) and the continuation value of the previous answer (`option cont`; the values of the
   "query-continue" dict, compared with `==` by the client).  The wiki is static: its answer is a function of the
   request (`server`). *)
From Coq Require Import List NArith Bool.
Import ListNotations.
Local Open Scope N_scope.

Definition key := N.
Definition data := list (key * list N).
Definition cont := N.
Definition server := N -> option cont -> data * option cont.

(* merge_data :37-51 — `if k in dst: todo.append((dst[k], val))` (lists: dst.extend(src)) `else: dst[k] = val` *)
Fixpoint extend_at (k : key) (l : list N) (d : data) : data :=
  match d with
  | [] => [(k, l)]
  | (k', l') :: r => if N.eqb k k' then (k', l' ++ l) :: r else (k', l') :: extend_at k l r
  end.
Definition merge (dst src : data) : data := fold_left (fun d kl => extend_at (fst kl) (snd kl) d) src dst.

(* `query_continue_data == last_qc` (last_qc = None before the first continuation) *)
Definition same_qc (qc : cont) (last_qc : option cont) : bool :=
  match last_qc with Some l => N.eqb qc l | None => false end.

(* _handle_query_continue :393-405.  Returns (new qccount, stop_query). *)
Definition handle_query_continue (stop : bool -> N -> bool) (qccount : N) (qc : cont) (last_qc : option cont) : N * bool :=
  let n := qccount + 1 in                          (* :394 self.qccount += 1 *)
  (n, stop (same_qc qc last_qc) n).                (* :401 if <stop condition>: return None, True *)

(* _do_request :407-431.  qccount is the only state of the client that the loop reads or writes.  fuel = number of
   requests the loop may make; None = out of fuel (excluded by the theorems). *)
Fixpoint do_request (stop : bool -> N -> bool) (srv : server) (fuel : nat) (qccount : N) (q : N)
         (kw last_qc : option cont) (retval : data) : N * option data :=
  match fuel with
  | O => (qccount, None)
  | S f =>
      let '(d, qc) := srv q kw in                  (* :416 data = self._handle_request( kwargs ) *)
      let retval' := merge retval d in             (* :418-421 *)
      match qc with
      | None => (qccount, Some retval')            (* :423 no "query-continue": todo stays None, loop ends *)
      | Some v =>
          let '(n, stopq) := handle_query_continue stop qccount v last_qc in   (* :425 *)
          if stopq then (n, Some retval')          (* :426-427 *)
          else do_request stop srv f n q (Some v) (Some v) retval'            (* :428 last_qc = qc_values; todo = new_kw *)
      end
  end.

Definition query (stop : bool -> N -> bool) (srv : server) (fuel : nat) (qccount : N) (q : N) : N * option data :=
  do_request stop srv fuel qccount q None None [].

(* all the queries one client makes during a fetch, one after the other (each _do_request runs from its first
   request to its return on the client object; the counter is what they share) *)
Fixpoint run_queries (stop : bool -> N -> bool) (srv : server) (fuel : nat) (qccount : N) (qs : list N)
  : N * list (option data) :=
  match qs with
  | [] => (qccount, [])
  | q :: r =>
      let '(n, a) := query stop srv fuel qccount q in
      let '(n', rest) := run_queries stop srv fuel n r in
      (n', a :: rest)
  end.

(* ---- what the wiki serves for a query: the slices along its continuation chain.  `kw <> Some v`: the wiki hands
   out a NEW continuation value with every slice (it makes progress). *)
Inductive Chain (srv : server) (q : N) : option cont -> list data -> Prop :=
| Chain_end : forall kw d, srv q kw = (d, None) -> Chain srv q kw [d]
| Chain_more : forall kw d v sl, srv q kw = (d, Some v) -> kw <> Some v -> Chain srv q (Some v) sl ->
                                 Chain srv q kw (d :: sl).

Definition full_answer (sl : list data) : data := fold_left merge sl [].

(* ---- scripted servers (for the Examples and for the run against the real client): a query is a list of slices,
   the i-th slice is served for the continuation value of slice i-1 and carries its own continuation value *)
Definition script := list (N * list (data * option cont)).

Fixpoint find_slice (sls : list (data * option cont)) (prev : option cont) (kw : option cont) : data * option cont :=
  match sls with
  | [] => ([], None)
  | (d, c) :: r =>
      match kw, prev with
      | None, None => (d, c)
      | Some a, Some b => if N.eqb a b then (d, c) else find_slice r c kw
      | _, _ => find_slice r c kw
      end
  end.

Fixpoint srv_of (sc : script) (q : N) (kw : option cont) : data * option cont :=
  match sc with
  | [] => ([], None)
  | (q', sls) :: r => if N.eqb q q' then find_slice sls None kw else srv_of r q kw
  end.

(* ---- comparison of results (used by the run against the real client: vt/props/c11.py writes the real client's
   results as terms and lets coqc compare them with the model's) *)
Fixpoint listN_eqb (a b : list N) : bool :=
  match a, b with [], [] => true | x :: a', y :: b' => N.eqb x y && listN_eqb a' b' | _, _ => false end.
Fixpoint data_eqb (a b : data) : bool :=
  match a, b with
  | [], [] => true
  | (k, l) :: a', (k', l') :: b' => N.eqb k k' && listN_eqb l l' && data_eqb a' b'
  | _, _ => false
  end.
Fixpoint answers_eqb (a b : list (option data)) : bool :=
  match a, b with
  | [], [] => true
  | Some x :: a', Some y :: b' => data_eqb x y && answers_eqb a' b'
  | None :: a', None :: b' => answers_eqb a' b'
  | _, _ => false
  end.
Definition result_eqb (a b : N * list (option data)) : bool := N.eqb (fst a) (fst b) && answers_eqb (snd a) (snd b).
