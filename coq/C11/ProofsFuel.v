(* C11 — the fuels of the model are sufficient.

   `resolve W t = resolve_aux W (S (length W)) t [t]` and `rendered W r = imgs_of W (length W) r` are used by
   the specification (`fetched`, `needed`) and by the Fetcher model alike.  This file shows that the
   out-of-fuel branch of `resolve_aux` is never taken with that fuel, that any larger fuel yields the same
   result, and that `rendered` is (as a set) the fuel-free reachability through current template revisions;
   both get an inductive, fuel-free characterisation. *)
From Coq Require Import List NArith Bool Arith Lia.
From MW Require Import C11.Model C11.Proofs.
Import ListNotations.

(* ------------------------------------------------------------------ pigeonhole on page titles *)
Lemma find_page_In_titles : forall W t p, find_page W t = Some p -> In t (map p_title W).
Proof.
  induction W as [|q W IH]; intros t p H; cbn [find_page] in H.
  - discriminate.
  - cbn [map In]. destruct (N.eqb (p_title q) t) eqn:E.
    + left. apply N.eqb_eq. exact E.
    + right. apply (IH t p). exact H.
Qed.

Lemma page_exists_In_titles : forall W t, page_exists W t = true -> In t (map p_title W).
Proof.
  intros W t H. unfold page_exists in H. destruct (find_page W t) as [p|] eqn:E.
  - apply (find_page_In_titles W t p). exact E.
  - discriminate.
Qed.

Lemma cur_of_page_exists : forall W t r, cur_of W t = Some r -> page_exists W t = true.
Proof.
  intros W t r H. unfold cur_of in H. unfold page_exists. destruct (find_page W t) as [p|].
  - reflexivity.
  - discriminate.
Qed.

Lemma nodup_pages_length : forall W l,
  NoDup l -> (forall x, In x l -> page_exists W x = true) -> length l <= length W.
Proof.
  intros W l Hnd Hp. rewrite <- (map_length p_title W). apply NoDup_incl_length.
  - exact Hnd.
  - intros x Hx. apply page_exists_In_titles. apply Hp. exact Hx.
Qed.

(* ------------------------------------------------------------------ resolve: fuel *)
(* invariant of the loop: `seen` = current title :: titles already left behind; no repetition; every title
   left behind has a page (it had a current revision that redirected on) *)
Lemma resolve_aux_fuel_irrelevant : forall W f1 f2 t past,
  NoDup (t :: past) -> (forall x, In x past -> page_exists W x = true) ->
  S (length W) <= length past + f1 -> S (length W) <= length past + f2 ->
  resolve_aux W f1 t (t :: past) = resolve_aux W f2 t (t :: past).
Proof.
  intros W f1. induction f1 as [|f1 IH]; intros f2 t past Hnd Hp H1 H2.
  - exfalso. assert (Hl : length past <= length W).
    { apply nodup_pages_length; [ inversion Hnd; assumption | exact Hp ]. }
    lia.
  - destruct f2 as [|f2].
    + exfalso. assert (Hl : length past <= length W).
      { apply nodup_pages_length; [ inversion Hnd; assumption | exact Hp ]. }
      lia.
    + cbn [resolve_aux]. destruct (cur_of W t) as [r|] eqn:Ec; [|reflexivity].
      destruct (r_redirect r) as [t'|] eqn:Er; [|reflexivity].
      destruct (memN t' (t :: past)) eqn:Em; [reflexivity|].
      rewrite (IH f2 t' (t :: past)).
      * reflexivity.
      * constructor; [ apply memN_false; exact Em | exact Hnd ].
      * intros x [Hx|Hx].
        -- subst x. apply (cur_of_page_exists W t r). exact Ec.
        -- apply Hp. exact Hx.
      * cbn [length]. lia.
      * cbn [length]. lia.
Qed.

Lemma resolve_fuel_sufficient : forall W t f, S (length W) <= f -> resolve_aux W f t [t] = resolve W t.
Proof.
  intros W t f H. unfold resolve. apply resolve_aux_fuel_irrelevant.
  - constructor; [ intros [] | constructor ].
  - intros x [].
  - cbn [length]. lia.
  - cbn [length]. lia.
Qed.

(* ------------------------------------------------------------------ resolve: out-of-fuel marker *)
(* resolve_aux with the out-of-fuel case made visible: None = fuel exhausted *)
Fixpoint resolve_aux_m (W : wiki) (fuel : nat) (t : title) (seen : list title)
  : option (list (title * title) * option title) :=
  match fuel with
  | O => None
  | S f => match cur_of W t with
           | Some r => match r_redirect r with
                       | Some t' => if memN t' seen then Some ([(t, t')], None)
                                    else match resolve_aux_m W f t' (t' :: seen) with
                                         | Some (h, fin) => Some ((t, t') :: h, fin)
                                         | None => None
                                         end
                       | None => Some ([], Some t)
                       end
           | None => Some ([], Some t)
           end
  end.

Lemma resolve_aux_m_agrees : forall W f t seen x,
  resolve_aux_m W f t seen = Some x -> resolve_aux W f t seen = x.
Proof.
  intros W f. induction f as [|f IH]; intros t seen x H; cbn [resolve_aux_m] in H.
  - discriminate.
  - cbn [resolve_aux]. destruct (cur_of W t) as [r|] eqn:Ec.
    + destruct (r_redirect r) as [t'|] eqn:Er.
      * destruct (memN t' seen) eqn:Em.
        -- injection H as H. exact H.
        -- destruct (resolve_aux_m W f t' (t' :: seen)) as [[h fin]|] eqn:Em'.
           ++ rewrite (IH t' (t' :: seen) (h, fin) Em'). injection H as H. exact H.
           ++ discriminate.
      * injection H as H. exact H.
    + injection H as H. exact H.
Qed.

Lemma resolve_aux_m_some : forall W f t past,
  NoDup (t :: past) -> (forall x, In x past -> page_exists W x = true) ->
  S (length W) <= length past + f ->
  resolve_aux_m W f t (t :: past) <> None.
Proof.
  intros W f. induction f as [|f IH]; intros t past Hnd Hp H1.
  - exfalso. assert (Hl : length past <= length W).
    { apply nodup_pages_length; [ inversion Hnd; assumption | exact Hp ]. }
    lia.
  - cbn [resolve_aux_m]. destruct (cur_of W t) as [r|] eqn:Ec; [|discriminate].
    destruct (r_redirect r) as [t'|] eqn:Er; [|discriminate].
    destruct (memN t' (t :: past)) eqn:Em; [discriminate|].
    destruct (resolve_aux_m W f t' (t' :: t :: past)) as [[h fin]|] eqn:Em'; [discriminate|].
    exfalso. apply (IH t' (t :: past)).
    + constructor; [ apply memN_false; exact Em | exact Hnd ].
    + intros x [Hx|Hx].
      * subst x. apply (cur_of_page_exists W t r). exact Ec.
      * apply Hp. exact Hx.
    + cbn [length]. lia.
    + exact Em'.
Qed.

Lemma resolve_never_out_of_fuel : forall W t, resolve_aux_m W (S (length W)) t [t] <> None.
Proof.
  intros W t. apply resolve_aux_m_some.
  - constructor; [ intros [] | constructor ].
  - intros x [].
  - cbn [length]. lia.
Qed.

Lemma resolve_m_resolve : forall W t, resolve_aux_m W (S (length W)) t [t] = Some (resolve W t).
Proof.
  intros W t. destruct (resolve_aux_m W (S (length W)) t [t]) as [x|] eqn:E.
  - apply resolve_aux_m_agrees in E. unfold resolve. rewrite E. reflexivity.
  - exfalso. exact (resolve_never_out_of_fuel W t E).
Qed.

(* ------------------------------------------------------------------ rendered: walks through templates *)
(* follow the template titles of `l` one after the other, each time into the CURRENT revision of the template *)
Fixpoint walk (W : wiki) (r : rev) (l : list title) : option rev :=
  match l with
  | [] => Some r
  | t :: l' => if memN t (r_tpls r)
               then match cur_of W t with Some r1 => walk W r1 l' | None => None end
               else None
  end.

Lemma walk_cons : forall W r t l r',
  walk W r (t :: l) = Some r' <-> In t (r_tpls r) /\ exists r1, cur_of W t = Some r1 /\ walk W r1 l = Some r'.
Proof.
  intros W r t l r'. cbn [walk]. split.
  - intros H. destruct (memN t (r_tpls r)) eqn:Em; [|discriminate].
    destruct (cur_of W t) as [r1|] eqn:Ec; [|discriminate].
    split; [ apply memN_In; exact Em | exists r1; split; [reflexivity | exact H] ].
  - intros [Hin [r1 [Ec Hw]]]. apply memN_In in Hin. rewrite Hin, Ec. exact Hw.
Qed.

Lemma imgs_of_walk : forall W f r i,
  In i (imgs_of W f r) <-> exists l r', length l <= f /\ walk W r l = Some r' /\ In i (r_imgs r').
Proof.
  intros W f. induction f as [|f IH]; intros r i.
  - cbn [imgs_of]. rewrite app_nil_r. split.
    + intros H. exists [], r. split; [cbn [length]; lia | split; [reflexivity | exact H]].
    + intros [l [r' [Hl [Hw Hi]]]]. destruct l as [|t l]; [|cbn [length] in Hl; lia].
      cbn [walk] in Hw. injection Hw as Hw. subst r'. exact Hi.
  - cbn [imgs_of]. rewrite in_app_iff, in_flat_map. split.
    + intros [H|[t [Ht Hi]]].
      * exists [], r. split; [cbn [length]; lia | split; [reflexivity | exact H]].
      * destruct (cur_of W t) as [r1|] eqn:Ec; [|destruct Hi].
        apply IH in Hi. destruct Hi as [l [r' [Hl [Hw Hi]]]].
        exists (t :: l), r'. split; [cbn [length]; lia|]. split; [|exact Hi].
        apply walk_cons. split; [exact Ht|]. exists r1. split; [exact Ec | exact Hw].
    + intros [l [r' [Hl [Hw Hi]]]]. destruct l as [|t l].
      * cbn [walk] in Hw. injection Hw as Hw. subst r'. left. exact Hi.
      * right. apply walk_cons in Hw. destruct Hw as [Ht [r1 [Ec Hw]]].
        exists t. split; [exact Ht|]. rewrite Ec. apply IH.
        exists l, r'. split; [cbn [length] in Hl; lia | split; [exact Hw | exact Hi]].
Qed.

Lemma walk_app : forall W a r b,
  walk W r (a ++ b) = match walk W r a with Some r1 => walk W r1 b | None => None end.
Proof.
  intros W a. induction a as [|t a IH]; intros r b.
  - reflexivity.
  - cbn [app walk]. destruct (memN t (r_tpls r)); [|reflexivity].
    destruct (cur_of W t) as [r1|]; [|reflexivity]. apply IH.
Qed.

Lemma walk_pages : forall W l r r', walk W r l = Some r' -> forall t, In t l -> page_exists W t = true.
Proof.
  intros W l. induction l as [|t l IH]; intros r r' Hw x Hx.
  - destruct Hx.
  - apply walk_cons in Hw. destruct Hw as [_ [r1 [Ec Hw]]]. destruct Hx as [Hx|Hx].
    + subst x. apply (cur_of_page_exists W t r1). exact Ec.
    + apply (IH r1 r' Hw). exact Hx.
Qed.

Lemma NoDup_app_r : forall {A} (a b : list A), NoDup (a ++ b) -> NoDup b.
Proof.
  intros A a. induction a as [|x a IH]; intros b H.
  - exact H.
  - cbn [app] in H. inversion H as [|y l Hn Hnd]; subst. apply IH. exact Hnd.
Qed.

(* cut the loops out of a walk: after stepping through title t one is at `cur_of W t`, whatever came before *)
Lemma walk_shorten : forall W l r r', walk W r l = Some r' ->
  exists l', NoDup l' /\ walk W r l' = Some r'.
Proof.
  intros W l. induction l as [|t l IH]; intros r r' Hw.
  - exists []. split; [constructor | exact Hw].
  - apply walk_cons in Hw. destruct Hw as [Ht [r1 [Ec Hw]]].
    destruct (IH r1 r' Hw) as [l' [Hnd Hw']].
    destruct (in_dec N.eq_dec t l') as [Hin|Hnin].
    + apply in_split in Hin. destruct Hin as [a [b Hab]]. subst l'.
      exists (t :: b). split.
      * apply (NoDup_app_r a (t :: b)). exact Hnd.
      * rewrite walk_app in Hw'. destruct (walk W r1 a) as [r0|] eqn:Ea; [|discriminate].
        apply walk_cons in Hw'. destruct Hw' as [_ [r1' [Ec' Hb]]].
        apply walk_cons. split; [exact Ht|]. exists r1'. split; [exact Ec' | exact Hb].
    + exists (t :: l'). split; [constructor; assumption|].
      apply walk_cons. split; [exact Ht|]. exists r1. split; [exact Ec | exact Hw'].
Qed.

Lemma walk_bounded : forall W l r r', walk W r l = Some r' ->
  exists l', length l' <= length W /\ walk W r l' = Some r'.
Proof.
  intros W l r r' Hw. destruct (walk_shorten W l r r' Hw) as [l' [Hnd Hw']].
  exists l'. split; [|exact Hw']. apply nodup_pages_length; [exact Hnd|].
  apply (walk_pages W l' r r' Hw').
Qed.

(* fuel-free reading of `In i (imgs_of W f r)` for every sufficient fuel *)
Lemma imgs_of_walk_free : forall W f r i, length W <= f ->
  (In i (imgs_of W f r) <-> exists l r', walk W r l = Some r' /\ In i (r_imgs r')).
Proof.
  intros W f r i Hf. rewrite imgs_of_walk. split.
  - intros [l [r' [_ [Hw Hi]]]]. exists l, r'. split; assumption.
  - intros [l [r' [Hw Hi]]]. destruct (walk_bounded W l r r' Hw) as [l' [Hl Hw']].
    exists l', r'. split; [lia | split; assumption].
Qed.

(* template graphs may be cyclic: more fuel repeats images but adds none *)
Lemma imgs_fuel_sufficient : forall W r f i, length W <= f -> (In i (imgs_of W f r) <-> In i (rendered W r)).
Proof.
  intros W r f i Hf. unfold rendered.
  rewrite (imgs_of_walk_free W f r i Hf). rewrite (imgs_of_walk_free W (length W) r i (le_n _)). reflexivity.
Qed.

(* r' is reachable from r through current revisions of transcluded templates *)
Inductive treach (W : wiki) : rev -> rev -> Prop :=
| treach_refl : forall r, treach W r r
| treach_step : forall r t r1 r2, In t (r_tpls r) -> cur_of W t = Some r1 -> treach W r1 r2 -> treach W r r2.

Lemma treach_walk : forall W r r', treach W r r' <-> exists l, walk W r l = Some r'.
Proof.
  intros W r r'. split.
  - intros H. induction H as [r | r t r1 r2 Ht Ec _ [l Hl]].
    + exists []. reflexivity.
    + exists (t :: l). apply walk_cons. split; [exact Ht|]. exists r1. split; [exact Ec | exact Hl].
  - intros [l Hl]. revert r Hl. induction l as [|t l IH]; intros r Hl.
    + cbn [walk] in Hl. injection Hl as Hl. subst r'. apply treach_refl.
    + apply walk_cons in Hl. destruct Hl as [Ht [r1 [Ec Hw]]].
      apply (treach_step W r t r1 r' Ht Ec). apply IH. exact Hw.
Qed.

Lemma imgs_of_is_reachability : forall W f r i, length W <= f ->
  (In i (imgs_of W f r) <-> exists r', treach W r r' /\ In i (r_imgs r')).
Proof.
  intros W f r i Hf. rewrite (imgs_of_walk_free W f r i Hf). split.
  - intros [l [r' [Hw Hi]]]. exists r'. split; [apply treach_walk; exists l; exact Hw | exact Hi].
  - intros [r' [Ht Hi]]. apply treach_walk in Ht. destruct Ht as [l Hw]. exists l, r'. split; assumption.
Qed.

Lemma rendered_is_reachability : forall W r i,
  In i (rendered W r) <-> exists r', treach W r r' /\ In i (r_imgs r').
Proof. intros W r i. unfold rendered. apply imgs_of_is_reachability. apply le_n. Qed.

(* less fuel never yields an image that is not rendered (soundness of every fuel) *)
Lemma imgs_of_any_fuel_sound : forall W f r i, In i (imgs_of W f r) -> In i (rendered W r).
Proof.
  intros W f r i H. apply rendered_is_reachability. apply imgs_of_walk in H.
  destruct H as [l [r' [_ [Hw Hi]]]]. exists r'. split; [apply treach_walk; exists l; exact Hw | exact Hi].
Qed.

(* ------------------------------------------------------------------ resolve: fuel-free characterisation *)
(* h is the list of redirect hops (source, target) that leads from t to f through CURRENT revisions *)
Inductive redir_path (W : wiki) : title -> list (title * title) -> title -> Prop :=
| rp_nil : forall t, redir_path W t [] t
| rp_step : forall t r t' h f, cur_of W t = Some r -> r_redirect r = Some t' -> redir_path W t' h f ->
    redir_path W t ((t, t') :: h) f.

(* f is where a chain ends: a missing page (or one without revisions), or a page whose current revision is no redirect *)
Definition terminal (W : wiki) (f : title) : Prop := forall r, cur_of W f = Some r -> r_redirect r = None.

Lemma redir_path_app : forall W x h1 y, redir_path W x h1 y -> forall h2 z, redir_path W y h2 z ->
  redir_path W x (h1 ++ h2) z.
Proof.
  intros W x h1 y H. induction H as [t | t r t' h f Ec Er _ IH]; intros h2 z H2.
  - exact H2.
  - cbn [app]. apply (rp_step W t r t' (h ++ h2) z Ec Er). apply IH. exact H2.
Qed.

Lemma redir_path_terminal_nil : forall W f h g, terminal W f -> redir_path W f h g -> h = [] /\ g = f.
Proof.
  intros W f h g Ht H. inversion H as [t | t r t' h' f' Ec Er Hp]; subst.
  - split; reflexivity.
  - exfalso. rewrite (Ht r Ec) in Er. discriminate.
Qed.

(* the chain is deterministic: a path that ends in a terminal title extends every other path from the same start *)
Lemma redir_path_prefix : forall W t h2 g, redir_path W t h2 g ->
  forall h1 f, redir_path W t h1 f -> terminal W f ->
  exists h3, h1 = h2 ++ h3 /\ redir_path W g h3 f.
Proof.
  intros W t h2 g H. induction H as [t | t r t' h g Ec Er _ IH]; intros h1 f H1 Hf.
  - exists h1. split; [reflexivity | exact H1].
  - inversion H1 as [t0 | t0 r0 t1 h1' f0 Ec0 Er0 Hp0]; subst.
    + exfalso. rewrite (Hf r Ec) in Er. discriminate.
    + rewrite Ec in Ec0. injection Ec0 as Ec0. subst r0.
      rewrite Er in Er0. injection Er0 as Er0. subst t1.
      destruct (IH h1' f Hp0 Hf) as [h3 [Heq Hp3]].
      exists h3. split; [cbn [app]; rewrite Heq; reflexivity | exact Hp3].
Qed.

(* from a title on a circle no terminal title is reachable *)
Lemma cycle_no_terminal : forall W b c, redir_path W b c b -> c <> [] ->
  forall n h f, length h < n -> redir_path W b h f -> terminal W f -> False.
Proof.
  intros W b c Hc Hne n. induction n as [|n IH]; intros h f Hl Hp Hf.
  - lia.
  - destruct (redir_path_prefix W b c b Hc h f Hp Hf) as [h3 [Heq Hp3]].
    apply (IH h3 f); [|exact Hp3 | exact Hf].
    subst h. rewrite app_length in Hl. destruct c as [|x c]; [exfalso; apply Hne; reflexivity|].
    cbn [length] in Hl. lia.
Qed.

(* a title met before (the start or the target of an earlier hop) splits the path *)
Lemma redir_path_split : forall W t h a, redir_path W t h a -> forall b, In b (t :: map snd h) ->
  exists h1 h2, h = h1 ++ h2 /\ redir_path W t h1 b /\ redir_path W b h2 a.
Proof.
  intros W t h a H. induction H as [t | t r t' h f Ec Er Hp IH]; intros b Hb.
  - destruct Hb as [Hb|[]]. subst b. exists [], []. split; [reflexivity|]. split; apply rp_nil.
  - destruct Hb as [Hb|Hb].
    + subst b. exists [], ((t, t') :: h). split; [reflexivity|]. split; [apply rp_nil|].
      apply (rp_step W t r t' h f Ec Er Hp).
    + cbn [map snd] in Hb. destruct (IH b Hb) as [h1 [h2 [Heq [Hp1 Hp2]]]].
      exists ((t, t') :: h1), h2. split; [cbn [app]; rewrite Heq; reflexivity|].
      split; [apply (rp_step W t r t' h1 b Ec Er Hp1) | exact Hp2].
Qed.

(* what resolve_aux computes when it does not run out of fuel *)
Lemma resolve_aux_m_sound : forall W fuel t seen h fin,
  resolve_aux_m W fuel t seen = Some (h, fin) ->
  match fin with
  | Some f => redir_path W t h f /\ terminal W f
  | None => exists h0 a b, h = h0 ++ [(a, b)] /\ redir_path W t h0 a /\ redir_path W a [(a, b)] b /\
                           In b (seen ++ map snd h0)
  end.
Proof.
  intros W fuel. induction fuel as [|fuel IH]; intros t seen h fin H; cbn [resolve_aux_m] in H.
  - discriminate.
  - destruct (cur_of W t) as [r|] eqn:Ec.
    + destruct (r_redirect r) as [t'|] eqn:Er.
      * destruct (memN t' seen) eqn:Em.
        -- injection H as Hh Hf. subst h fin. exists [], t, t'. split; [reflexivity|].
           split; [apply rp_nil|]. split; [apply (rp_step W t r t' [] t' Ec Er); apply rp_nil|].
           cbn [map]. rewrite app_nil_r. apply memN_In. exact Em.
        -- destruct (resolve_aux_m W fuel t' (t' :: seen)) as [[h' fin']|] eqn:Em'; [|discriminate].
           injection H as Hh Hf. subst h fin. specialize (IH t' (t' :: seen) h' fin' Em').
           destruct fin' as [f|].
           ++ destruct IH as [Hp Hf]. split; [apply (rp_step W t r t' h' f Ec Er Hp) | exact Hf].
           ++ destruct IH as [h0 [a [b [Heq [Hp [Hab Hin]]]]]].
              exists ((t, t') :: h0), a, b. split; [cbn [app]; rewrite Heq; reflexivity|].
              split; [apply (rp_step W t r t' h0 a Ec Er Hp)|]. split; [exact Hab|].
              cbn [map snd]. apply in_app_iff. cbn [app] in Hin. destruct Hin as [Hin|Hin].
              ** right. left. exact Hin.
              ** apply in_app_iff in Hin. destruct Hin as [Hin|Hin]; [left; exact Hin | right; right; exact Hin].
      * injection H as Hh Hf. subst h fin. split; [apply rp_nil|].
        intros r0 Ec0. rewrite Ec in Ec0. injection Ec0 as Ec0. subst r0. exact Er.
    + injection H as Hh Hf. subst h fin. split; [apply rp_nil|].
      intros r0 Ec0. rewrite Ec in Ec0. discriminate.
Qed.

(* the circular case: all hops are reported up to and including the one that closes the circle *)
Lemma resolve_none_shape : forall W t h, resolve W t = (h, None) ->
  exists h0 a b, h = h0 ++ [(a, b)] /\ redir_path W t h b /\ In b (t :: map snd h0).
Proof.
  intros W t h H. pose proof (resolve_m_resolve W t) as Hm. rewrite H in Hm.
  apply resolve_aux_m_sound in Hm. destruct Hm as [h0 [a [b [Heq [Hp [Hab Hin]]]]]].
  exists h0, a, b. split; [exact Heq|]. split; [|exact Hin].
  subst h. apply (redir_path_app W t h0 a Hp [(a, b)] b Hab).
Qed.

Lemma resolve_none_cycle : forall W t h, resolve W t = (h, None) ->
  exists h1 b c, redir_path W t h1 b /\ c <> [] /\ redir_path W b c b.
Proof.
  intros W t h H. pose proof (resolve_m_resolve W t) as Hm. rewrite H in Hm.
  apply resolve_aux_m_sound in Hm. destruct Hm as [h0 [a [b [Heq [Hp [Hab Hin]]]]]].
  destruct (redir_path_split W t h0 a Hp b Hin) as [h1 [h2 [Heq2 [Hp1 Hp2]]]].
  exists h1, b, (h2 ++ [(a, b)]). split; [exact Hp1|]. split.
  - intros Hnil. apply app_eq_nil in Hnil. destruct Hnil as [_ Hnil]. discriminate.
  - apply (redir_path_app W b h2 a Hp2 [(a, b)] b Hab).
Qed.

(* resolve succeeds with f exactly when the chain of current-revision redirects from t ends in f *)
Lemma resolve_some_iff : forall W t h f,
  resolve W t = (h, Some f) <-> redir_path W t h f /\ terminal W f.
Proof.
  intros W t h f. split.
  - intros H. pose proof (resolve_m_resolve W t) as Hm. rewrite H in Hm.
    apply resolve_aux_m_sound in Hm. exact Hm.
  - intros [Hp Hf]. destruct (resolve W t) as [h' [f'|]] eqn:E.
    + pose proof (resolve_m_resolve W t) as Hm. rewrite E in Hm.
      apply resolve_aux_m_sound in Hm. destruct Hm as [Hp' Hf'].
      destruct (redir_path_prefix W t h' f' Hp' h f Hp Hf) as [h3 [Heq Hp3]].
      destruct (redir_path_terminal_nil W f' h3 f Hf' Hp3) as [Hn Hff]. subst h3 f.
      rewrite app_nil_r in Heq. subst h. reflexivity.
    + exfalso. destruct (resolve_none_cycle W t h' E) as [h1 [b [c [Hp1 [Hne Hc]]]]].
      destruct (redir_path_prefix W t h1 b Hp1 h f Hp Hf) as [h3 [_ Hp3]].
      apply (cycle_no_terminal W b c Hc Hne (S (length h3)) h3 f); [lia | exact Hp3 | exact Hf].
Qed.

(* resolve fails exactly when the chain from t runs into a circle *)
Lemma resolve_none_iff : forall W t,
  snd (resolve W t) = None <-> exists h1 b c, redir_path W t h1 b /\ c <> [] /\ redir_path W b c b.
Proof.
  intros W t. split.
  - intros H. destruct (resolve W t) as [h fin] eqn:E. cbn [snd] in H. subst fin.
    apply (resolve_none_cycle W t h E).
  - intros [h1 [b [c [Hp1 [Hne Hc]]]]]. destruct (resolve W t) as [h [f|]] eqn:E; [|reflexivity].
    exfalso. apply resolve_some_iff in E. destruct E as [Hp Hf].
    destruct (redir_path_prefix W t h1 b Hp1 h f Hp Hf) as [h3 [_ Hp3]].
    apply (cycle_no_terminal W b c Hc Hne (S (length h3)) h3 f); [lia | exact Hp3 | exact Hf].
Qed.

Lemma resolve_none_iff_no_end : forall W t,
  snd (resolve W t) = None <-> ~ exists h f, redir_path W t h f /\ terminal W f.
Proof.
  intros W t. split.
  - intros H [h [f Hpf]]. apply resolve_some_iff in Hpf. rewrite Hpf in H. discriminate.
  - intros H. destruct (resolve W t) as [h [f|]] eqn:E; [|reflexivity].
    exfalso. apply H. exists h, f. apply resolve_some_iff. exact E.
Qed.

(* a successful chain visits no title twice and is no longer than the wiki *)
Lemma resolve_aux_m_nodup : forall W fuel t seen h f,
  resolve_aux_m W fuel t seen = Some (h, Some f) ->
  NoDup (map snd h) /\ forall x, In x (map snd h) -> ~ In x seen.
Proof.
  intros W fuel. induction fuel as [|fuel IH]; intros t seen h f H; cbn [resolve_aux_m] in H.
  - discriminate.
  - destruct (cur_of W t) as [r|] eqn:Ec.
    + destruct (r_redirect r) as [t'|] eqn:Er.
      * destruct (memN t' seen) eqn:Em; [discriminate|].
        destruct (resolve_aux_m W fuel t' (t' :: seen)) as [[h' fin']|] eqn:Em'; [|discriminate].
        injection H as Hh Hf. subst h fin'. destruct (IH t' (t' :: seen) h' f Em') as [Hnd Hns].
        cbn [map snd]. split.
        -- constructor; [|exact Hnd]. intros Hin. apply (Hns t' Hin). left. reflexivity.
        -- intros x [Hx|Hx].
           ++ subst x. apply memN_false. exact Em.
           ++ intros Hs. apply (Hns x Hx). right. exact Hs.
      * injection H as Hh Hf. subst h. split; [constructor | intros x []].
    + injection H as Hh Hf. subst h. split; [constructor | intros x []].
Qed.

Lemma resolve_path_nodup : forall W t h f, resolve W t = (h, Some f) -> NoDup (t :: map snd h).
Proof.
  intros W t h f H. pose proof (resolve_m_resolve W t) as Hm. rewrite H in Hm.
  destruct (resolve_aux_m_nodup W _ t [t] h f Hm) as [Hnd Hns].
  constructor; [|exact Hnd]. intros Hin. apply (Hns t Hin). left. reflexivity.
Qed.

(* ------------------------------------------------------------------ corollaries for the derived notions *)
Definition final_rev_fuel (W : wiki) (fuel : nat) (t : title) : option rev :=
  match resolve_aux W fuel t [t] with (_, Some f) => cur_of W f | (_, None) => None end.

Lemma final_rev_fuel_irrelevant : forall W fuel t, S (length W) <= fuel -> final_rev_fuel W fuel t = final_rev W t.
Proof.
  intros W fuel t H. unfold final_rev_fuel, final_rev. rewrite (resolve_fuel_sufficient W t fuel H). reflexivity.
Qed.

(* the served revision: the current revision, itself no redirect, of the title where the chain ends *)
Lemma final_rev_iff : forall W t r,
  final_rev W t = Some r <-> exists h f, redir_path W t h f /\ cur_of W f = Some r /\ r_redirect r = None.
Proof.
  intros W t r. unfold final_rev. split.
  - intros H. destruct (resolve W t) as [h [f|]] eqn:E; [|discriminate].
    apply resolve_some_iff in E. destruct E as [Hp Hf]. exists h, f.
    split; [exact Hp|]. split; [exact H | apply Hf; exact H].
  - intros [h [f [Hp [Ec Er]]]].
    assert (E : resolve W t = (h, Some f)).
    { apply resolve_some_iff. split; [exact Hp|]. intros r0 Ec0. rewrite Ec in Ec0.
      injection Ec0 as Ec0. subst r0. exact Er. }
    rewrite E. exact Ec.
Qed.

(* answers of fetch_used for titles, fuel-free *)
Lemma used_titles_imgs_iff : forall W ts i,
  In i (used_titles_imgs W ts) <->
  exists t h f r r', In t ts /\ redir_path W t h f /\ cur_of W f = Some r /\ r_redirect r = None /\
                     treach W r r' /\ In i (r_imgs r').
Proof.
  intros W ts i. unfold used_titles_imgs. rewrite in_flat_map. split.
  - intros [t [Ht Hi]]. destruct (final_rev W t) as [r|] eqn:E; [|destruct Hi].
    apply final_rev_iff in E. destruct E as [h [f [Hp [Ec Er]]]].
    apply rendered_is_reachability in Hi. destruct Hi as [r' [Hr Hi]].
    exists t, h, f, r, r'. repeat split; assumption.
  - intros [t [h [f [r [r' [Ht [Hp [Ec [Er [Hr Hi]]]]]]]]]]. exists t. split; [exact Ht|].
    assert (E : final_rev W t = Some r).
    { apply final_rev_iff. exists h, f. repeat split; assumption. }
    rewrite E. apply rendered_is_reachability. exists r'. split; assumption.
Qed.

Lemma used_titles_reds_iff : forall W ts a b,
  In (a, b) (used_titles_reds W ts) <-> exists t, In t ts /\ In (a, b) (fst (resolve W t)).
Proof. intros W ts a b. unfold used_titles_reds. apply in_flat_map. Qed.

(* non-vacuity: a chain, a circle, a cyclic template graph *)
Definition fx_W : wiki :=
  [ mkPage 1 false 0 [] [mkRev 10 None [5] [7]];
    mkPage 2 false 0 [] [mkRev 20 (Some 3) [] []];
    mkPage 3 false 0 [] [mkRev 30 (Some 1) [] []];
    mkPage 4 false 0 [] [mkRev 40 (Some 8) [] []];
    mkPage 8 false 0 [] [mkRev 80 (Some 4) [] []];
    mkPage 5 false 0 [] [mkRev 50 None [6] [9]];
    mkPage 6 false 0 [] [mkRev 60 None [5] [11]] ]%N.

Lemma fuel_example :
  resolve fx_W 2%N = ([(2, 3); (3, 1)]%N, Some 1%N) /\
  resolve fx_W 4%N = ([(4, 8); (8, 4)]%N, None) /\
  resolve fx_W 99%N = ([], Some 99%N) /\
  resolve_aux fx_W 2 2%N [2%N] <> resolve fx_W 2%N /\
  rendered fx_W (mkRev 10 None [5] [7])%N = [7; 9; 11; 9; 11; 9; 11; 9]%N /\
  imgs_of fx_W 1 (mkRev 10 None [5] [7])%N = [7; 9]%N.
Proof. vm_compute. repeat split; try reflexivity. intros H. discriminate. Qed.
