(* C11 — a wiki that serves the list of values of a query in slices of `limit` values (the API result limits of the
   quantifier: rvlimit / api_result_limit = pclimit, imlimit, tllimit), with the offset of the next value as the
   continuation value — what vt/harness/c11_wiki.py does for prop=images|templates|contributors (it names the next
   value instead of counting it).  Model only. *)
From Coq Require Import List NArith Bool Arith.
From MW Require Import C11.ModelContinue.
Import ListNotations.

Definition offset_of (kw : option cont) : nat := match kw with None => 0 | Some c => N.to_nat c end.

Definition sliced_server (limit : nat) (db : N -> list N) : server :=
  fun q kw =>
    let rest := skipn (offset_of kw) (db q) in
    if length rest <=? limit then ([(q, rest)], None)
    else ([(q, firstn limit rest)], Some (N.of_nat (offset_of kw + limit))).

(* a finite table of value lists (for the run against the real client) *)
Fixpoint db_of (tbl : list (N * list N)) (q : N) : list N :=
  match tbl with [] => [] | (q', l) :: r => if N.eqb q q' then l else db_of r q end.
