(* C11 — the result limit is invisible: a wiki that serves a query's values in slices of ANY size >= 1 is read
   completely by the client of ModelContinue.v (stop condition translated from sapi.py). *)
From Coq Require Import List NArith Bool Arith Lia.
From MW Require Import C11.ModelContinue C11.Gen_continue C11.ProofsContinue C11.ModelSliced.
Import ListNotations.

Lemma merge_one : forall q pre x, merge [(q, pre)] [(q, x)] = [(q, pre ++ x)].
Proof. intros q pre x. unfold merge. cbn [fold_left fst snd extend_at]. now rewrite N.eqb_refl. Qed.

Lemma merge_nil_one : forall q x, merge [] [(q, x)] = [(q, x)].
Proof. reflexivity. Qed.

Lemma skipn_add : forall {A} (b a : nat) (l : list A), skipn a (skipn b l) = skipn (b + a) l.
Proof.
  intros A b. induction b as [|b IH]; intros a l; [reflexivity|].
  destruct l as [|x l]; [now rewrite !skipn_nil|]. cbn [skipn Nat.add]. apply IH.
Qed.

Lemma sliced_chain_from : forall limit db q, (1 <= limit)%nat ->
  forall n kw, length (skipn (offset_of kw) (db q)) = n ->
  exists sl, Chain (sliced_server limit db) q kw sl /\ (length sl <= S n)%nat /\
             (forall pre, fold_left merge sl [(q, pre)] = [(q, pre ++ skipn (offset_of kw) (db q))]) /\
             fold_left merge sl [] = [(q, skipn (offset_of kw) (db q))].
Proof.
  intros limit db q Hl n. induction n as [n IH] using lt_wf_ind. intros kw Hn.
  set (rest := skipn (offset_of kw) (db q)) in *.
  destruct (length rest <=? limit) eqn:E.
  - exists [[(q, rest)]]. split; [|split; [|split]].
    + apply Chain_end. unfold sliced_server. fold rest. now rewrite E.
    + cbn [length]. lia.
    + intros pre. cbn [fold_left]. apply merge_one.
    + reflexivity.
  - apply Nat.leb_gt in E.
    set (v := N.of_nat (offset_of kw + limit)).
    assert (Hoff : offset_of (Some v) = (offset_of kw + limit)%nat) by (unfold v; cbn [offset_of]; apply Nat2N.id).
    assert (Hrest : skipn (offset_of (Some v)) (db q) = skipn limit rest).
    { rewrite Hoff. unfold rest. now rewrite skipn_add. }
    assert (Hlen : length (skipn limit rest) = (n - limit)%nat) by (rewrite skipn_length; lia).
    destruct (IH (n - limit)%nat ltac:(lia) (Some v)) as [sl [Hc [Hls [Hpre Hnil]]]].
    { rewrite Hrest. exact Hlen. }
    exists ([(q, firstn limit rest)] :: sl). split; [|split; [|split]].
    + eapply Chain_more; [| |exact Hc].
      * unfold sliced_server. fold rest. destruct (length rest <=? limit) eqn:E2; [apply Nat.leb_le in E2; lia|reflexivity].
      * intro Heq. assert (Ho : offset_of kw = offset_of (Some v)) by now rewrite Heq. rewrite Hoff in Ho. lia.
    + cbn [length]. lia.
    + intros pre. cbn [fold_left]. rewrite merge_one, Hpre, Hrest, <- app_assoc. now rewrite firstn_skipn.
    + cbn [fold_left]. rewrite merge_nil_one, Hpre, Hrest. now rewrite firstn_skipn.
Qed.

Lemma sliced_chain : forall limit db q, (1 <= limit)%nat ->
  exists sl, Chain (sliced_server limit db) q None sl /\ (length sl <= S (length (db q)))%nat /\
             full_answer sl = [(q, db q)].
Proof.
  intros limit db q Hl.
  destruct (sliced_chain_from limit db q Hl (length (db q)) None eq_refl) as [sl [Hc [Hls [_ Hnil]]]].
  exists sl. split; [exact Hc|]. split; [exact Hls|exact Hnil].
Qed.

(* whatever the result limit, whatever the client has counted: the query returns all values *)
Lemma sliced_query_complete : forall limit db q fuel n, (1 <= limit)%nat -> (S (length (db q)) <= fuel)%nat ->
  snd (query gen_stop (sliced_server limit db) fuel n q) = Some [(q, db q)].
Proof.
  intros limit db q fuel n Hl Hf.
  destruct (sliced_chain limit db q Hl) as [sl [Hc [Hls Hfull]]].
  rewrite (query_complete _ _ _ Hc fuel n) by lia. cbn [snd]. now rewrite Hfull.
Qed.

(* a whole fetch: any list of queries on one client, any result limit: every answer is the whole list *)
Lemma sliced_fetch_complete : forall limit db fuel qs n, (1 <= limit)%nat ->
  (forall q, In q qs -> (S (length (db q)) <= fuel)%nat) ->
  snd (run_queries gen_stop (sliced_server limit db) fuel n qs) = map (fun q => Some [(q, db q)]) qs.
Proof.
  intros limit db fuel qs n Hl Hf. rewrite run_queries_answers. apply map_ext_in.
  intros q Hq. apply sliced_query_complete; [exact Hl|now apply Hf].
Qed.

Definition ex_db (q : N) : list N := if N.eqb q 1 then [11; 12; 13; 14; 15; 16; 17]%N else [21; 22; 23]%N.

Lemma sliced_example :
  run_queries gen_stop (sliced_server 2 ex_db) 8 0%N [1; 2; 1]%N
  = (7%N, [Some [(1, [11; 12; 13; 14; 15; 16; 17])]; Some [(2, [21; 22; 23])]; Some [(1, [11; 12; 13; 14; 15; 16; 17])]]%N) /\
  run_queries (stop_counting 3%N) (sliced_server 2 ex_db) 8 0%N [1; 2; 1]%N
  = (5%N, [Some [(1, [11; 12; 13; 14; 15; 16; 17])]; Some [(2, [21; 22])]; Some [(1, [11; 12])]]%N).
Proof. vm_compute. split; reflexivity. Qed.
