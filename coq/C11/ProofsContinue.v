(* C11 — query continuation is per query: lemmas about ModelContinue.v with the stop condition translated from
   sapi.py (Gen_continue.v). *)
From Coq Require Import List NArith Bool Lia.
From MW Require Import C11.ModelContinue C11.Gen_continue.
Import ListNotations.
Local Open Scope N_scope.

(* The translated `if` test of _handle_query_continue gives a query up exactly when the wiki repeats the
   continuation value it has just been sent, whatever the client has counted so far. *)
Lemma gen_stop_spec : forall same n, gen_stop same n = same.
Proof. intros same n. reflexivity. Qed.

Lemma handle_spec : forall n v last, handle_query_continue gen_stop n v last = (n + 1, same_qc v last).
Proof. intros n v last. unfold handle_query_continue. now rewrite gen_stop_spec. Qed.

Lemma same_qc_false : forall v kw, kw <> Some v -> same_qc v kw = false.
Proof.
  intros v [l|] Hne; cbn [same_qc]; [|reflexivity].
  destruct (N.eqb v l) eqn:E; [|reflexivity].
  apply N.eqb_eq in E. subst l. now elim Hne.
Qed.

(* completeness of one query, any accumulated result, any counter value *)
Lemma do_request_chain : forall srv q sl kw, Chain srv q kw sl ->
  forall fuel n acc, (length sl <= fuel)%nat ->
  do_request gen_stop srv fuel n q kw kw acc = (n + N.of_nat (pred (length sl)), Some (fold_left merge sl acc)).
Proof.
  intros srv q sl kw Hc.
  induction Hc as [kw d Hs | kw d v sl Hs Hne Hc IH]; intros fuel n acc Hf.
  - destruct fuel as [|f]; [cbn [length] in Hf; lia|].
    cbn [do_request]. rewrite Hs. cbn [length pred fold_left N.of_nat]. now rewrite N.add_0_r.
  - destruct fuel as [|f]; [cbn [length] in Hf; lia|].
    cbn [do_request]. rewrite Hs. rewrite handle_spec. rewrite (same_qc_false _ _ Hne).
    cbn [length] in Hf. rewrite IH by lia.
    cbn [fold_left length pred].
    f_equal. destruct sl as [|d' sl']; [inversion Hc|]. cbn [length pred]. lia.
Qed.

Lemma query_complete : forall srv q sl, Chain srv q None sl ->
  forall fuel n, (length sl <= fuel)%nat ->
  query gen_stop srv fuel n q = (n + N.of_nat (pred (length sl)), Some (full_answer sl)).
Proof. intros srv q sl Hc fuel n Hf. unfold query, full_answer. now apply do_request_chain. Qed.

(* the answer of a query does not depend on the counter: for ANY server (also one that repeats continuation
   values, or never ends: then both sides give the query up / run out of fuel at the same request) *)
Lemma do_request_counter_irrelevant : forall srv fuel n n' q kw last acc,
  snd (do_request gen_stop srv fuel n q kw last acc) = snd (do_request gen_stop srv fuel n' q kw last acc).
Proof.
  intros srv fuel. induction fuel as [|f IH]; intros n n' q kw last acc; [reflexivity|].
  cbn [do_request]. destruct (srv q kw) as [d [v|]]; [|reflexivity].
  rewrite !handle_spec. destruct (same_qc v last); [reflexivity|]. apply IH.
Qed.

Lemma run_queries_answers : forall srv fuel qs n,
  snd (run_queries gen_stop srv fuel n qs) = map (fun q => snd (query gen_stop srv fuel 0 q)) qs.
Proof.
  intros srv fuel qs. induction qs as [|q r IH]; intros n; [reflexivity|].
  cbn [run_queries map].
  destruct (query gen_stop srv fuel n q) as [n1 a] eqn:E1.
  specialize (IH n1). destruct (run_queries gen_stop srv fuel n1 r) as [n2 rest] eqn:E2.
  cbn [snd] in *. f_equal; [|exact IH].
  change a with (snd (n1, a)). rewrite <- E1. unfold query. apply do_request_counter_irrelevant.
Qed.

(* every query of a whole fetch is answered in full, however many continuation rounds the client has been through *)
Lemma run_queries_complete : forall srv fuel qs n,
  (forall q, In q qs -> exists sl, Chain srv q None sl /\ (length sl <= fuel)%nat) ->
  forall i q, nth_error qs i = Some q ->
  exists sl, Chain srv q None sl /\ nth_error (snd (run_queries gen_stop srv fuel n qs)) i = Some (Some (full_answer sl)).
Proof.
  intros srv fuel qs n Hall i q Hi.
  destruct (Hall q (nth_error_In _ _ Hi)) as [sl [Hc Hf]].
  exists sl. split; [exact Hc|].
  rewrite run_queries_answers. rewrite nth_error_map, Hi. cbn [option_map].
  now rewrite (query_complete _ _ _ Hc fuel 0 Hf).
Qed.

(* the counter only counts: after the fetch it is the sum of the rounds *)
Lemma run_queries_counter : forall srv fuel qs n,
  fst (run_queries gen_stop srv fuel n qs) = fold_left (fun c q => fst (query gen_stop srv fuel c q)) qs n.
Proof.
  intros srv fuel qs. induction qs as [|q r IH]; intros n; [reflexivity|].
  cbn [run_queries fold_left].
  destruct (query gen_stop srv fuel n q) as [n1 a] eqn:E1.
  specialize (IH n1). destruct (run_queries gen_stop srv fuel n1 r) as [n2 rest] eqn:E2.
  cbn [fst] in *. exact IH.
Qed.

(* ---- non-vacuity and the counter-example for a stop condition that looks at the counter *)
Definition ex_script : script :=
  [ (1, [ ([(7, [1;2])], Some 10); ([(7, [3;4])], Some 11); ([(7, [5]); (8, [9])], None) ]);
    (2, [ ([(8, [1])], Some 20); ([(8, [2])], Some 21); ([(8, [3])], None) ]) ].

Lemma ex_chain_1 : Chain (srv_of ex_script) 1 None [[(7, [1;2])]; [(7, [3;4])]; [(7, [5]); (8, [9])]].
Proof.
  eapply Chain_more; [reflexivity|discriminate|].
  eapply Chain_more; [reflexivity|intro H; inversion H|].
  apply Chain_end. reflexivity.
Qed.

Lemma ex_run : run_queries gen_stop (srv_of ex_script) 5 0 [1; 2; 1]
             = (6, [Some [(7, [1;2;3;4;5]); (8, [9])]; Some [(8, [1;2;3])]; Some [(7, [1;2;3;4;5]); (8, [9])]]).
Proof. vm_compute. reflexivity. Qed.

(* a client that gives a query up once its counter of ALL continuation rounds exceeds a bound (here 3) answers the
   same query differently depending on what it was asked before *)
Definition stop_counting (bound : N) (same : bool) (qccount : N) : bool := same || (bound <? qccount).

Lemma counting_stop_is_cross_query :
  exists srv fuel qs i, nth_error (snd (run_queries (stop_counting 3) srv fuel 0 qs)) i
                     <> nth_error (map (fun q => snd (query (stop_counting 3) srv fuel 0 q)) qs) i.
Proof. exists (srv_of ex_script), 5%nat, [1; 2; 1], 2%nat. vm_compute. discriminate. Qed.
