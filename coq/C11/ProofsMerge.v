(* C11 — merge_data on nested values: equations, and the flat `merge` of ModelContinue.v as its dict-of-lists case *)
From Coq Require Import List NArith Bool Lia.
From MW Require Import C11.ModelContinue C11.ModelMerge.
Import ListNotations.
Local Open Scope N_scope.

Fixpoint upd_with (f : val -> option val) (k : N) (v : val) (d : list (N * val)) : option (list (N * val)) :=
  match d with
  | [] => Some [(k, v)]
  | (k', x) :: d' =>
      if N.eqb k k' then match f x with Some y => Some ((k', y) :: d') | None => None end
      else match upd_with f k v d' with Some d'' => Some ((k', x) :: d'') | None => None end
  end.

Fixpoint go_with (s d : list (N * val)) : option (list (N * val)) :=
  match s with
  | [] => Some d
  | (k, v) :: r => match upd_with (fun x => merge_val x v) k v d with Some d1 => go_with r d1 | None => None end
  end.

(* the equations of merge_val (the nested fixpoints of the definition, named) *)
Lemma merge_val_dict : forall s d, merge_val (VDict d) (VDict s) = option_map VDict (go_with s d).
Proof.
  intros s d. cbn [merge_val]. f_equal. revert d.
  induction s as [|[k v] r IH]; intro d; [reflexivity|].
  cbn [go_with].
  match goal with |- match ?U d with _ => _ end = _ =>
    assert (HU : forall d0, U d0 = upd_with (fun x => merge_val x v) k v d0) end.
  { intro d0. induction d0 as [|[k' x] d0 IHd]; [reflexivity|].
    cbn [upd_with]. destruct (N.eqb k k'); [reflexivity|]. now rewrite IHd. }
  rewrite HU. destruct (upd_with _ k v d) as [d1|]; [apply IH|reflexivity].
Qed.

Lemma merge_val_list : forall d s, merge_val (VList d) (VList s) = Some (VList (d ++ s)).
Proof. reflexivity. Qed.

Lemma merge_val_atom : forall a b, merge_val (VAtom a) (VAtom b) = Some (VAtom a).
Proof. reflexivity. Qed.

(* type mismatch = ValueError *)
Lemma merge_val_mismatch : forall dst src,
  match dst, src with
  | VAtom _, VAtom _ | VList _, VList _ | VDict _, VDict _ => True
  | _, _ => merge_val dst src = None
  end.
Proof. intros [a|l|d] [b|m|s]; cbn; trivial. Qed.

(* a key that dst does not have is added at the end with src's value; a key that it has is merged in place; all
   other entries keep value and position *)
Lemma upd_with_new : forall f k v d, ~ In k (map fst d) -> upd_with f k v d = Some (d ++ [(k, v)]).
Proof.
  intros f k v d. induction d as [|[k' x] d IH]; intro Hn; [reflexivity|].
  cbn [upd_with]. destruct (N.eqb k k') eqn:E.
  - apply N.eqb_eq in E. subst k'. elim Hn. now left.
  - cbn [app]. rewrite IH; [reflexivity|]. intro Hi. apply Hn. now right.
Qed.

Lemma merge_val_new_key : forall d k v, ~ In k (map fst d) ->
  merge_val (VDict d) (VDict [(k, v)]) = Some (VDict (d ++ [(k, v)])).
Proof. intros d k v Hn. rewrite merge_val_dict. cbn [go_with]. now rewrite upd_with_new. Qed.

(* a key that dst has is merged in place: nothing else moves or changes *)
Lemma merge_val_old_key : forall d1 d2 k x v, ~ In k (map fst d1) ->
  merge_val (VDict (d1 ++ (k, x) :: d2)) (VDict [(k, v)])
  = match merge_val x v with Some y => Some (VDict (d1 ++ (k, y) :: d2)) | None => None end.
Proof.
  intros d1 d2 k x v Hn. rewrite merge_val_dict. cbn [go_with].
  assert (H : upd_with (fun x0 => merge_val x0 v) k v (d1 ++ (k, x) :: d2)
              = match merge_val x v with Some y => Some (d1 ++ (k, y) :: d2) | None => None end).
  { induction d1 as [|[k' x'] d1 IH].
    - cbn [app upd_with]. now rewrite N.eqb_refl.
    - cbn [app upd_with]. destruct (N.eqb k k') eqn:E.
      + apply N.eqb_eq in E. subst k'. elim Hn. now left.
      + rewrite IH by (intro Hi; apply Hn; now right). now destruct (merge_val x v). }
  rewrite H. now destruct (merge_val x v).
Qed.

Definition lift (kl : N * list N) : N * val := (fst kl, VList (snd kl)).

Lemma upd_flat : forall k l d,
  upd_with (fun x => merge_val x (VList l)) k (VList l) (map lift d) = Some (map lift (extend_at k l d)).
Proof.
  intros k l d. induction d as [|[k' l'] d IH]; [reflexivity|].
  cbn [map lift fst snd upd_with extend_at]. destruct (N.eqb k k'); [reflexivity|].
  rewrite IH. reflexivity.
Qed.

Lemma go_flat : forall s d, go_with (map lift s) (map lift d) = Some (map lift (merge d s)).
Proof.
  intros s. induction s as [|[k l] r IH]; intro d; [reflexivity|].
  cbn [map lift fst snd go_with]. rewrite upd_flat. rewrite IH. reflexivity.
Qed.

(* the flat model of ModelContinue.v is merge_data on dicts of lists, keys in the same order *)
Lemma merge_val_flat : forall a b, merge_val (of_flat a) (of_flat b) = Some (of_flat (merge a b)).
Proof. intros a b. unfold of_flat. rewrite merge_val_dict. fold lift. now rewrite go_flat. Qed.

(* example: the shape of a real answer: {"pages": {"7": {"title": "T", "images": [1, 2]}}} merged with the next slice
   {"pages": {"7": {"title": "T", "images": [3]}, "8": {"title": "U"}}}; keys 1 = pages, 2 = title, 3 = images *)
Lemma merge_val_example :
  merge_val (VDict [(1, VDict [(7, VDict [(2, VAtom 100); (3, VList [1; 2])])])])
            (VDict [(1, VDict [(7, VDict [(2, VAtom 100); (3, VList [3])]); (8, VDict [(2, VAtom 101)])])])
  = Some (VDict [(1, VDict [(7, VDict [(2, VAtom 100); (3, VList [1; 2; 3])]); (8, VDict [(2, VAtom 101)])])]) /\
  merge_val (VDict [(1, VList [1])]) (VDict [(1, VDict [])]) = None.
Proof. vm_compute. split; reflexivity. Qed.
