(* C11 — what the initial calls promise is the schedule- and batch-free specification `fetched`;
   final theorems. *)
From Coq Require Import List NArith Bool Arith Lia.
From MW Require Import C11.Model C11.Proofs C11.Proofs2.
Import ListNotations.

Lemma unsched_nil : forall imgs, unsched [] imgs = imgs.
Proof.
  intros imgs. unfold unsched.
  assert (H : forall {A} (f : A -> bool) l, (forall x, f x = true) -> filter f l = l).
  { intros A f l Hf. induction l as [|a l IH]; [reflexivity|]. cbn [filter]. rewrite Hf, IH. reflexivity. }
  apply H. intros x. reflexivity.
Qed.

Lemma fut_enq_nil : forall W reds imgs x,
  In x (fut_enq W [] reds imgs) <-> In x (redir_items reds) \/ In x (flat_map (img_items W) imgs).
Proof. intros. unfold fut_enq. rewrite unsched_nil. apply in_app_iff. Qed.

Lemma IM_if : forall W (fi : bool) l x,
  In x (flat_map (img_items W) (if fi then l else [])) <-> fi = true /\ In x (flat_map (img_items W) l).
Proof. intros W fi l x. destruct fi; cbn [flat_map In]; intuition congruence. Qed.

Lemma if_In : forall (fi : bool) (l : list item) x, In x (if fi then l else []) <-> fi = true /\ In x l.
Proof. intros fi l x. destruct fi; cbn [In]; intuition congruence. Qed.

Lemma titles_imgs_split : forall W l x,
  In x (flat_map (img_items W) (used_titles_imgs W l)) <->
  exists t, In t l /\ In x (flat_map (img_items W) (used_titles_imgs W [t])).
Proof.
  intros W l x. unfold used_titles_imgs. cbn [flat_map]. split.
  - intros H. apply in_flat_map in H. destruct H as [i [Hi Hx]]. apply in_flat_map in Hi. destruct Hi as [t [Ht Hi]].
    exists t. split; [exact Ht|]. rewrite app_nil_r. apply in_flat_map. exists i. split; assumption.
  - intros [t [Ht H]]. rewrite app_nil_r in H. apply in_flat_map in H. destruct H as [i [Hi Hx]].
    apply in_flat_map. exists i. split; [|exact Hx]. apply in_flat_map. exists t. split; assumption.
Qed.

Lemma revs_imgs_split : forall W l x,
  In x (flat_map (img_items W) (used_revs_imgs W l)) <->
  exists rv, In rv l /\ In x (flat_map (img_items W) (used_revs_imgs W [rv])).
Proof.
  intros W l x. unfold used_revs_imgs. cbn [flat_map]. split.
  - intros H. apply in_flat_map in H. destruct H as [i [Hi Hx]]. apply in_flat_map in Hi. destruct Hi as [t [Ht Hi]].
    exists t. split; [exact Ht|]. rewrite app_nil_r. apply in_flat_map. exists i. split; assumption.
  - intros [t [Ht H]]. rewrite app_nil_r in H. apply in_flat_map in H. destruct H as [i [Hi Hx]].
    apply in_flat_map. exists i. split; [|exact Hx]. apply in_flat_map. exists t. split; assumption.
Qed.

Lemma reds_in_title_items : forall W l x,
  In x (redir_items (used_titles_reds W l)) -> exists t, In t l /\ In x (art_title_items W t).
Proof.
  intros W l x H. unfold redir_items, used_titles_reds in H. apply in_map_iff in H. destruct H as [h [Hh Hin]].
  apply in_flat_map in Hin. destruct Hin as [t [Ht Hin]]. exists t. split; [exact Ht|].
  unfold art_title_items, exp_title_items. rewrite !in_app_iff. left. left. apply in_map_iff. exists h. split; assumption.
Qed.

Definition targets (W : wiki) (M : metabook) : list title :=
  flat_map (fun rv => match find_rev W rv with
                      | Some (_, r) => match r_redirect r with Some x => [x] | None => [] end
                      | None => [] end) (mb_revids M).

Lemma in_targets : forall W M y, In y (targets W M) <->
  exists rv p r, In rv (mb_revids M) /\ find_rev W rv = Some (p, r) /\ r_redirect r = Some y.
Proof.
  intros W M y. unfold targets. rewrite in_flat_map. split.
  - intros [rv [Hrv H]]. destruct (find_rev W rv) as [[p r]|] eqn:Hf; [|destruct H].
    destruct (r_redirect r) as [z|] eqn:Hr; [|destruct H]. destruct H as [H|[]]. subst z.
    exists rv, p, r. tauto.
  - intros [rv [p [r [Hrv [Hf Hr]]]]]. exists rv. split; [exact Hrv|]. rewrite Hf, Hr. left. reflexivity.
Qed.

Lemma title_roots_eq : forall W M, title_roots W M = mb_titles M ++ targets W M.
Proof. reflexivity. Qed.

Lemma flat_map_enq_calls : forall W fi {A} (f : A -> list (title * title)) (g : A -> list title) (l : list A) x,
  In x (flat_map (fut_call W fi []) (map (fun a => mk_enq fi (f a) (g a)) l)) <->
  exists a, In a l /\ (In x (redir_items (f a)) \/ (fi = true /\ In x (flat_map (img_items W) (g a)))).
Proof.
  intros W fi A f g l x. rewrite in_flat_map. split.
  - intros [c [Hc Hx]]. apply in_map_iff in Hc. destruct Hc as [a [Ha Hin]]. subst c. exists a. split; [exact Hin|].
    unfold mk_enq in Hx. cbn [fut_call] in Hx. apply fut_enq_nil in Hx. rewrite IM_if in Hx. exact Hx.
  - intros [a [Ha H]]. exists (mk_enq fi (f a) (g a)). split; [apply in_map_iff; exists a; split; [reflexivity | exact Ha]|].
    unfold mk_enq. cbn [fut_call]. apply fut_enq_nil. rewrite IM_if. exact H.
Qed.

Lemma init_total : forall W L fi M x,
  In x (total W fi (init W L fi M)) <-> In x (fetched W fi M).
Proof.
  intros W L fi M x. unfold total, init. cbn [stored pending scheduled todo desc_todo fut_desc flat_map].
  rewrite !app_nil_r. cbn [app]. unfold init_calls. cbv zeta.
  rewrite !flat_map_app. rewrite !in_app_iff.
  rewrite (flat_map_enq_calls W fi (fun _ : title => []) (fun t => used_titles_imgs W [t])).
  rewrite (flat_map_enq_calls W fi (fun _ : revid => []) (fun rv => html_rev_imgs W rv)).
  rewrite (flat_map_enq_calls W fi (fun b => used_titles_reds W b) (fun b => used_titles_imgs W b)).
  rewrite (flat_map_enq_calls W fi (fun _ : list revid => []) (fun b => used_revs_imgs W b)).
  unfold fetched, needed, needed_imgs, extra_imgs. rewrite title_roots_eq.
  rewrite !in_app_iff. rewrite !if_In. rewrite flat_map_app with (f := img_items W). rewrite !in_app_iff.
  split.
  - intros [H|[H|[H|[H|[H|H]]]]].
    + (* html of titles *)
      destruct H as [t [Ht [[]|[Hfi Hx]]]]. left. right. right. split; [exact Hfi|]. left.
      apply titles_imgs_split. exists t. split; [apply in_or_app; left; exact Ht | exact Hx].
    + (* html of revisions *)
      destruct H as [rv [Hrv [[]|[Hfi Hx]]]]. left. right. right. split; [exact Hfi|]. right.
      apply in_flat_map in Hx. destruct Hx as [i [Hi Hx]]. apply in_flat_map. exists i. split; [|exact Hx].
      apply in_flat_map. exists rv. split; assumption.
    + (* fetch_used titles *)
      destruct H as [b [Hb [Hx|[Hfi Hx]]]].
      * apply reds_in_title_items in Hx. destruct Hx as [t [Ht Hx]].
        left. left. apply in_flat_map. exists t. split; [|exact Hx]. apply in_or_app. left.
        apply (split_blocks_In L (mb_titles M) t). exists b. split; assumption.
      * apply titles_imgs_split in Hx. destruct Hx as [t [Ht Hx]].
        left. right. right. split; [exact Hfi|]. left. apply titles_imgs_split. exists t. split; [|exact Hx].
        apply in_or_app. left. apply (split_blocks_In L (mb_titles M) t). exists b. split; assumption.
    + (* fetch_used revids *)
      destruct H as [b [Hb [[]|[Hfi Hx]]]]. right. split; [exact Hfi|].
      apply revs_imgs_split in Hx. destruct Hx as [rv [Hrv Hx]]. apply revs_imgs_split. exists rv. split; [|exact Hx].
      apply (split_blocks_In L (mb_revids M) rv). exists b. split; assumption.
    + (* expand titles *)
      apply in_flat_map in H. destruct H as [c [Hc Hx]]. apply in_map_iff in Hc. destruct Hc as [t [Ht Hin]]. subst c.
      cbn [fut_call] in Hx. left. left. apply in_flat_map. exists t. split; [apply in_or_app; left; exact Hin | exact Hx].
    + (* expand revisions *)
      apply in_flat_map in H. destruct H as [c [Hc Hx]]. apply in_map_iff in Hc. destruct Hc as [rv [Ht Hin]]. subst c.
      cbn [fut_call] in Hx. destruct (find_rev W rv) as [[p r]|] eqn:Hf; [|destruct Hx].
      rewrite !in_app_iff in Hx. destruct Hx as [Hx|[Hx|Hx]].
      * left. right. left. apply in_flat_map. exists rv. split; [exact Hin|]. unfold art_rev_items. rewrite Hf. apply in_or_app. left. exact Hx.
      * left. right. left. apply in_flat_map. exists rv. split; [exact Hin|]. unfold art_rev_items. rewrite Hf. apply in_or_app. right. exact Hx.
      * destruct (r_redirect r) as [y|] eqn:Hr; [|destruct Hx].
        assert (Hy : In y (targets W M)) by (apply in_targets; exists rv, p, r; tauto).
        rewrite in_app_iff in Hx. destruct Hx as [Hx|Hx].
        -- left. left. apply in_flat_map. exists y. split; [apply in_or_app; right; exact Hy | exact Hx].
        -- apply fut_enq_nil in Hx. rewrite IM_if in Hx. destruct Hx as [Hx|[Hfi Hx]].
           ++ apply reds_in_title_items in Hx. destruct Hx as [t [[Ht|[]] Hx]]. subst t.
              left. left. apply in_flat_map. exists y. split; [apply in_or_app; right; exact Hy | exact Hx].
           ++ left. right. right. split; [exact Hfi|]. left. apply titles_imgs_split. exists y.
              split; [apply in_or_app; right; exact Hy | exact Hx].
  - intros [[H|[H|[Hfi [H|H]]]]|[Hfi H]].
    + (* article items of title roots *)
      apply in_flat_map in H. destruct H as [t [Ht Hx]]. apply in_app_or in Ht. destruct Ht as [Ht|Ht].
      * right. right. right. right. left. apply in_flat_map. exists (CExpTitle t). split; [apply in_map; exact Ht | exact Hx].
      * apply in_targets in Ht. destruct Ht as [rv [p [r [Hrv [Hf Hr]]]]].
        right. right. right. right. right. apply in_flat_map. exists (CExpRev rv). split; [apply in_map; exact Hrv|].
        cbn [fut_call]. rewrite Hf, Hr. rewrite !in_app_iff. tauto.
    + (* pinned revisions *)
      apply in_flat_map in H. destruct H as [rv [Hrv Hx]]. unfold art_rev_items in Hx.
      destruct (find_rev W rv) as [[p r]|] eqn:Hf; [|destruct Hx].
      right. right. right. right. right. apply in_flat_map. exists (CExpRev rv). split; [apply in_map; exact Hrv|].
      cbn [fut_call]. rewrite Hf. rewrite !in_app_iff. apply in_app_or in Hx. tauto.
    + (* images of title roots *)
      apply titles_imgs_split in H. destruct H as [t [Ht Hx]]. apply in_app_or in Ht. destruct Ht as [Ht|Ht].
      * left. exists t. split; [exact Ht|]. right. split; assumption.
      * apply in_targets in Ht. destruct Ht as [rv [p [r [Hrv [Hf Hr]]]]].
        right. right. right. right. right. apply in_flat_map. exists (CExpRev rv). split; [apply in_map; exact Hrv|].
        cbn [fut_call]. rewrite Hf, Hr. rewrite !in_app_iff. right. right. right. apply fut_enq_nil. right. rewrite IM_if. split; assumption.
    + (* images of the pinned revisions themselves *)
      apply in_flat_map in H. destruct H as [i [Hi Hx]]. apply in_flat_map in Hi. destruct Hi as [rv [Hrv Hi]].
      right. left. exists rv. split; [exact Hrv|]. right. split; [exact Hfi|]. apply in_flat_map. exists i. split; assumption.
    + (* images of the current revisions of pinned pages *)
      apply revs_imgs_split in H. destruct H as [rv [Hrv Hx]].
      apply (split_blocks_In L (mb_revids M) rv) in Hrv. destruct Hrv as [b [Hb Hrv]].
      right. right. right. left. exists b. split; [exact Hb|]. right. split; [exact Hfi|].
      apply revs_imgs_split. exists rv. split; assumption.
Qed.

Lemma init_inv : forall W L fi M, inv (init W L fi M).
Proof. intros. unfold inv, init. cbn. split; [reflexivity | congruence]. Qed.

(* ------------------------------------------------------------------ main results *)
Lemma complete_and_faithful : forall W M L fi sched,
  pending (run W L fi sched (init W L fi M)) = [] ->
  forall x, In x (stored (run W L fi sched (init W L fi M))) <-> In x (fetched W fi M).
Proof.
  intros W M L fi sched Hfin x.
  rewrite <- (final_total W fi _ x (run_inv W L fi sched _ (init_inv W L fi M)) Hfin).
  rewrite run_total. apply init_total.
Qed.

Lemma terminates_init : forall W M L fi sched,
  measure W (init W L fi M) <= length sched -> pending (run W L fi sched (init W L fi M)) = [].
Proof. intros. apply terminates. assumption. Qed.

Lemma needed_fetched : forall W fi M x, In x (needed W fi M) -> In x (fetched W fi M).
Proof. intros W fi M x H. unfold fetched. apply in_or_app. left. exact H. Qed.

Lemma fetched_extra : forall W fi M x, In x (fetched W fi M) -> ~ In x (needed W fi M) ->
  fi = true /\ exists rv p r i, In rv (mb_revids M) /\ find_rev W rv = Some (p, r) /\
     In i (match current p with Some c => rendered W c | None => [] end) /\ In x (img_items W i).
Proof.
  intros W fi M x H Hn. unfold fetched in H. apply in_app_or in H. destruct H as [H|H]; [contradiction|].
  apply if_In in H. destruct H as [Hfi H]. split; [exact Hfi|].
  unfold extra_imgs, used_revs_imgs in H. apply in_flat_map in H. destruct H as [i [Hi Hx]].
  apply in_flat_map in Hi. destruct Hi as [rv [Hrv Hi]].
  destruct (find_rev W rv) as [[p r]|] eqn:Hf; [|destruct Hi].
  exists rv, p, r, i. tauto.
Qed.

(* articles: what is stored is what the wiki serves; nothing is stored for what does not exist *)
Lemma art_in_auth_items : forall W k t r src, ~ In (IArt t r src) (auth_items W k).
Proof.
  intros W k t r src H. unfold auth_items in H. destruct (resolve W k) as [h [f|]]; cbn in H; intuition discriminate.
Qed.

Lemma art_in_img_items : forall W l t r src, ~ In (IArt t r src) (flat_map (img_items W) l).
Proof.
  intros W l t r src H. apply in_flat_map in H. destruct H as [i [_ H]]. unfold img_items in H.
  destruct (img_ok W i); [|destruct H]. cbn [app In] in H. destruct H as [H|[H|H]]; try discriminate.
  apply in_app_or in H. destruct H as [H|H].
  - destruct (page_exists W i); cbn in H; intuition discriminate.
  - apply art_in_auth_items in H. exact H.
Qed.

Lemma art_title_inv : forall W t' t r src, In (IArt t r src) (art_title_items W t') ->
  t = t' /\ r = None /\ exists rv, final_rev W t = Some rv /\ src = r_id rv.
Proof.
  intros W t' t r src H. unfold art_title_items, exp_title_items in H. rewrite !in_app_iff in H.
  destruct H as [[H|H]|H].
  - apply in_map_iff in H. destruct H as [h [Hh _]]. discriminate.
  - destruct (final_rev W t') as [rv|] eqn:Hf; [|destruct H]. destruct H as [H|[]]. inversion H. subst.
    split; [reflexivity|]. split; [reflexivity|]. exists rv. split; [exact Hf | reflexivity].
  - destruct (final_rev W t'); [|destruct H]. apply art_in_auth_items in H. destruct H.
Qed.

Lemma art_rev_inv : forall W rv t r src, In (IArt t r src) (art_rev_items W rv) ->
  exists p rr, find_rev W rv = Some (p, rr) /\ t = p_title p /\ r = Some (r_id rr) /\ src = r_id rr.
Proof.
  intros W rv t r src H. unfold art_rev_items in H. destruct (find_rev W rv) as [[p rr]|] eqn:Hf; [|destruct H].
  apply in_app_or in H. destruct H as [H|H]; [|apply art_in_auth_items in H; destruct H].
  unfold exp_rev_items in H. apply in_app_or in H. destruct H as [H|H].
  - destruct (r_redirect rr); [|destruct H]. destruct (is_current p rr); cbn in H; intuition discriminate.
  - destruct H as [H|[]]. inversion H. subst. exists p, rr. tauto.
Qed.

Lemma stored_articles_faithful : forall W fi M t r src, In (IArt t r src) (fetched W fi M) ->
  (r = None /\ In t (title_roots W M) /\ exists rv, final_rev W t = Some rv /\ src = r_id rv) \/
  (exists rid p rr, r = Some rid /\ In rid (mb_revids M) /\ find_rev W rid = Some (p, rr) /\
                    t = p_title p /\ r_id rr = src /\ r = Some src).
Proof.
  intros W fi M t r src H. unfold fetched, needed in H. rewrite !in_app_iff in H.
  destruct H as [[H|[H|H]]|H].
  - apply in_flat_map in H. destruct H as [t' [Ht' H]]. apply art_title_inv in H. destruct H as [E1 [E2 H]]. subst.
    left. tauto.
  - apply in_flat_map in H. destruct H as [rv [Hrv H]]. apply art_rev_inv in H. destruct H as [p [rr [Hf [E1 [E2 E3]]]]].
    right. exists rv, p, rr. subst.
    assert (Hid : r_id rr = rv).
    { clear - Hf. revert Hf. induction W as [|q W' IH]; cbn; [discriminate|].
      destruct (find_rev_in (p_revs q) rv) as [r0|] eqn:Hq.
      - intros E. inversion E. subst. clear - Hq. induction (p_revs p) as [|a l IHl]; cbn in Hq; [discriminate|].
        destruct (N.eqb (r_id a) rv) eqn:Ea; [inversion Hq; subst; apply N.eqb_eq; exact Ea | apply IHl; exact Hq].
      - exact IH. }
    rewrite Hid. tauto.
  - destruct fi; [|destruct H]. apply art_in_img_items in H. destruct H.
  - destruct fi; [|destruct H]. apply art_in_img_items in H. destruct H.
Qed.

Lemma final_pending : forall s, final s = true <-> pending s = [].
Proof. intros s. unfold final, isnil. destruct (pending s); split; intros H; congruence. Qed.

Lemma terminates_final : forall W M L fi sched,
  measure W (init W L fi M) <= length sched -> final (run W L fi sched (init W L fi M)) = true.
Proof. intros. apply final_pending. apply terminates_init. assumption. Qed.

Lemma complete_and_faithful_final : forall W M L fi sched,
  final (run W L fi sched (init W L fi M)) = true ->
  forall x, In x (stored (run W L fi sched (init W L fi M))) <-> In x (fetched W fi M).
Proof. intros W M L fi sched H. apply complete_and_faithful. apply final_pending. exact H. Qed.

Lemma needed_in_archive : forall W M L fi sched,
  final (run W L fi sched (init W L fi M)) = true ->
  forall x, In x (needed W fi M) -> In x (stored (run W L fi sched (init W L fi M))).
Proof. intros W M L fi sched H x Hx. apply (complete_and_faithful_final W M L fi sched H). apply needed_fetched. exact Hx. Qed.

Lemma archive_only_extra_images : forall W M L fi sched,
  final (run W L fi sched (init W L fi M)) = true ->
  forall x, In x (stored (run W L fi sched (init W L fi M))) -> ~ In x (needed W fi M) ->
  fi = true /\ exists rv p r i, In rv (mb_revids M) /\ find_rev W rv = Some (p, r) /\
     In i (match current p with Some c => rendered W c | None => [] end) /\ In x (img_items W i).
Proof.
  intros W M L fi sched H x Hx Hn. apply fetched_extra; [|exact Hn].
  apply (complete_and_faithful_final W M L fi sched H). exact Hx.
Qed.

Lemma missing_skipped : forall W M L fi sched,
  final (run W L fi sched (init W L fi M)) = true ->
  forall t r src, In (IArt t r src) (stored (run W L fi sched (init W L fi M))) ->
  (r = None /\ In t (title_roots W M) /\ exists rv, final_rev W t = Some rv /\ src = r_id rv) \/
  (exists rid p rr, r = Some rid /\ In rid (mb_revids M) /\ find_rev W rid = Some (p, rr) /\
                    t = p_title p /\ r_id rr = src /\ r = Some src).
Proof.
  intros W M L fi sched H t r src Hx. apply (stored_articles_faithful W fi M).
  apply (complete_and_faithful_final W M L fi sched H). exact Hx.
Qed.

Lemma schedule_independent : forall W M L L' fi sched sched',
  final (run W L fi sched (init W L fi M)) = true ->
  final (run W L' fi sched' (init W L' fi M)) = true ->
  forall x, In x (stored (run W L fi sched (init W L fi M))) <-> In x (stored (run W L' fi sched' (init W L' fi M))).
Proof.
  intros W M L L' fi sched sched' H H' x.
  rewrite (complete_and_faithful_final W M L fi sched H). rewrite (complete_and_faithful_final W M L' fi sched' H'). tauto.
Qed.

(* the loop of _lookup_contributors in the tree as it is (fetch.py:764-784): it iterates the pending list of
   the api, which nothing ever fills (fetch.py:731-747 looks every title up individually) *)
Definition lookup_contributors_unfixed (W : wiki) (pending_titles : list title) (asked : title) : list item :=
  flat_map (fun t => if N.eqb t asked then auth_items W t else []) pending_titles.

Lemma contributors_unfixed_nothing : forall W asked, lookup_contributors_unfixed W [] asked = [].
Proof. reflexivity. Qed.

(* ------------------------------------------------------------------ a concrete run (non-vacuity) *)
Definition ex_W : wiki :=
  [ mkPage 1 false 2 [(1, false); (2, true)] [mkRev 10 None [] [7]; mkRev 11 None [5] []];
    mkPage 2 false 0 [] [mkRev 20 (Some 3) [] []];
    mkPage 3 false 0 [] [mkRev 30 (Some 1) [] []];
    mkPage 4 false 0 [] [mkRev 40 (Some 4) [] []];
    mkPage 5 false 0 [] [mkRev 50 None [] [6]];
    mkPage 6 true 1 [(3, false)] [mkRev 60 None [] []];
    mkPage 7 true 0 [(4, false)] [mkRev 70 None [] []] ]%N.
Definition ex_M : metabook := [(2, None); (4, None); (9, None); (1, Some 10)]%N.
Definition ex_sched : list op := map (fun n => (n, Nat.even n)) (seq 0 60).


Lemma example_run :
  let s := run ex_W 1 true ex_sched (init ex_W 1 true ex_M) in
  Nat.leb (measure ex_W (init ex_W 1 true ex_M)) 60 = true /\ final s = true /\
  In (IArt 2 None 11)%N (stored s) /\ In (IArt 1 (Some 10) 10)%N (stored s) /\
  In (IFile 6)%N (stored s) /\ In (IFile 7)%N (stored s) /\ In (IDesc 6)%N (stored s) /\
  In (IAuth 2 [1] 2)%N (stored s) /\ In (IAuth 6 [3] 1)%N (stored s) /\
  (forall src, ~ In (IArt 4 None src)%N (stored s)) /\ (forall src, ~ In (IArt 9 None src)%N (stored s)).
Proof.
  vm_compute.
  repeat match goal with |- _ /\ _ => split end;
  try reflexivity;
  try (intros src H; repeat (destruct H as [H|H]; [discriminate H|]); exact H);
  repeat (first [left; reflexivity | right]).
Qed.
