(* Strings as lists of code points, with the Python primitives the models re-state. *)
From Coq Require Import List NArith Bool Lia.
Import ListNotations.

Definition str := list N.

Fixpoint str_eqb (a b : str) : bool :=
  match a, b with
  | [], [] => true
  | x :: a', y :: b' => N.eqb x y && str_eqb a' b'
  | _, _ => false
  end.

Lemma str_eqb_spec a b : str_eqb a b = true <-> a = b.
Proof.
  revert b; induction a as [|x a IH]; intros [|y b]; cbn; split; intro H; try congruence; try discriminate.
  - apply andb_true_iff in H as [H1 H2]. apply N.eqb_eq in H1. apply IH in H2. congruence.
  - inversion H; subst. rewrite N.eqb_refl. cbn. apply IH. reflexivity.
Qed.

Lemma str_eqb_refl a : str_eqb a a = true.
Proof. apply str_eqb_spec; reflexivity. Qed.

Lemma str_eqb_false a b : str_eqb a b = false <-> a <> b.
Proof.
  split.
  - intros H E. apply str_eqb_spec in E. congruence.
  - intros H. destruct (str_eqb a b) eqn:E; [|reflexivity]. apply str_eqb_spec in E. contradiction.
Qed.

(* s.startswith(p) *)
Fixpoint prefixb (p s : str) : bool :=
  match p, s with
  | [], _ => true
  | a :: p', b :: s' => N.eqb a b && prefixb p' s'
  | _ :: _, [] => false
  end.

Lemma prefixb_spec p s : prefixb p s = true <-> exists r, s = p ++ r.
Proof.
  revert s; induction p as [|a p IH]; intros s; cbn.
  - split; [intros _; exists s; reflexivity | reflexivity].
  - destruct s as [|b s].
    + split; [discriminate | intros [r H]; discriminate].
    + rewrite andb_true_iff, N.eqb_eq, IH. split.
      * intros [-> [r ->]]. exists r. reflexivity.
      * intros [r H]. inversion H; subst. split; [reflexivity | exists r; reflexivity].
Qed.

(* s.endswith([c]) for a single character *)
Definition ends_with_char (c : N) (s : str) : bool :=
  match rev s with x :: _ => N.eqb x c | [] => false end.

(* Python s.split(c) for a one-character separator: always at least one field *)
Fixpoint split_on (c : N) (s : str) : list str :=
  match s with
  | [] => [[]]
  | x :: s' =>
      let r := split_on c s' in
      if N.eqb x c then [] :: r
      else match r with
           | [] => [[x]]
           | h :: t => (x :: h) :: t
           end
  end.

Lemma split_on_nonnil c s : split_on c s <> [].
Proof. destruct s as [|x s]; cbn; [discriminate|]. destruct (N.eqb x c); [discriminate|]. destruct (split_on c s); discriminate. Qed.

(* c.join(l) *)
Fixpoint join (c : N) (l : list str) : str :=
  match l with
  | [] => []
  | x :: rest => match rest with [] => x | _ => x ++ c :: join c rest end
  end.

Definition no_char (c : N) (s : str) : Prop := ~ In c s.

Lemma split_on_no_char c s : no_char c s -> split_on c s = [s].
Proof.
  induction s as [|x s IH]; intros H; cbn; [reflexivity|].
  destruct (N.eqb_spec x c) as [->|Hne].
  - exfalso. apply H. left. reflexivity.
  - rewrite IH; [reflexivity|]. intros Hin. apply H. right. exact Hin.
Qed.

Lemma split_on_app c a b :
  split_on c (a ++ c :: b) = split_on c a ++ split_on c b.
Proof.
  induction a as [|x a IH]; cbn.
  - rewrite N.eqb_refl. reflexivity.
  - destruct (N.eqb x c); rewrite IH; [reflexivity|].
    destruct (split_on c a) eqn:E; [exfalso; eapply split_on_nonnil; eauto|]. reflexivity.
Qed.

Lemma split_on_join c l :
  l <> [] -> Forall (no_char c) l -> split_on c (join c l) = l.
Proof.
  induction l as [|x l IH]; intros Hne Hall; [congruence|].
  inversion Hall as [|? ? Hx Hl]; subst.
  destruct l as [|y l].
  - cbn. apply split_on_no_char. exact Hx.
  - change (join c (x :: y :: l)) with (x ++ c :: join c (y :: l)).
    rewrite split_on_app, split_on_no_char by exact Hx.
    rewrite IH; [reflexivity | discriminate | exact Hl].
Qed.

Lemma join_split_on c s : join c (split_on c s) = s.
Proof.
  induction s as [|x s IH]; cbn; [reflexivity|].
  destruct (N.eqb_spec x c) as [->|Hne].
  - destruct (split_on c s) eqn:E; [exfalso; eapply split_on_nonnil; eauto|].
    cbn [join]. cbn. f_equal. exact IH.
  - destruct (split_on c s) as [|h t] eqn:E; [exfalso; eapply split_on_nonnil; eauto|].
    cbn [join] in *. destruct t; cbn in *; congruence.
Qed.

Lemma split_on_fields_no_char c s : Forall (no_char c) (split_on c s).
Proof.
  induction s as [|x s IH]; cbn.
  - constructor; [intros []|constructor].
  - destruct (N.eqb_spec x c) as [->|Hne].
    + constructor; [intros []|exact IH].
    + destruct (split_on c s) as [|h t]; [constructor; [|constructor]|].
      * intros [H|[]]. congruence.
      * inversion IH; subst. constructor; [|assumption].
        intros [H|H]; [congruence|contradiction].
Qed.
