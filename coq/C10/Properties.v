(* C10 — property theorems only.  Each is closed by `exact <lemma>` and followed by
   Print Assumptions; the check re-compiles this file on every run. *)
From Coq Require Import List NArith Bool.
From MW Require Import C10.Regex C10.Tags C10.Gen_rules C10.Model C10.Tiles C10.Proofs C10.ProofsWidth.
Import ListNotations.
Local Open Scope N_scope.

(* For EVERY text s (any list of code points, any length): the scanner model — rules regenerated from
   _uscan.re, re2c longest-match/first-rule semantics, hand-transcribed actions, the NUL sentinels of utoken.scan, fuel
   length s + 1 — terminates normally (neither out of fuel nor stuck), and with s' = the part of s
   before the first NUL, its token spans tile s':
       s' = g0 ++ w1 ++ g1 ++ ... ++ wn ++ gn,   token i = (offset of wi, length wi),  wi non-empty,
   every gap gi consisting of U+EBAD only.  So the tokens are non-empty, in order, start at 0 and
   end at length s' up to U+EBAD gaps, and the only characters not covered are U+EBAD.
   (U+EBAD inside a URL / html tag / comment is covered by that token: `url`, `[^\000<>]*` do not
   exclude it; the property allows that.) *)
Theorem C10_tiling : forall s : list N,
  exists l, scan s = F_done l /\ tiles 0 (spans l) (before_nul s).
Proof. exact scan_tiles. Qed.
Print Assumptions C10_tiling.

(* What `tiles` gives in elementary terms, for the tokens l the model returns on s:
   (1) spans are non-empty, ordered, non-overlapping, inside [0, length s');
   (2) every position of s' outside all spans holds U+EBAD (nothing else is dropped);
   (3) the concatenation of the span texts equals s' once U+EBAD is filtered from both;
   (4) if s' contains no U+EBAD the spans are exactly contiguous from 0 to length s'. *)
Theorem C10_tiling_consequences : forall s l, scan s = F_done l ->
  let s' := before_nul s in
  ordered 0 (spans l) (length s')
  /\ (forall i, (i < length s')%nat -> (forall t, In t l -> ~ (tstart t <= i < tstart t + tlen t)%nat) -> nth i s' 0 = EBAD)
  /\ filter nonebad (concat (map (slice s') (spans l))) = filter nonebad s'
  /\ (~ In EBAD s' -> contig 0 (spans l) (length s')).
Proof. exact scan_consequences. Qed.
Print Assumptions C10_tiling_consequences.

(* FIELD WIDTHS.  The real scanner keeps (type, start, len) in `int`s and indexes its token vector with `int`; the model
   uses unbounded naturals.  For every text: there are at most as many tokens as code points before the first NUL, every
   token is non-empty and ends inside the text.  Hence with fewer than 2^31 = 2147483648 code points no start, length,
   end offset or token index exceeds INT_MAX (the assumption "int overflow is not modelled" needs nothing more). *)
Theorem C10_fields_bounded : forall s l, scan s = F_done l ->
  let n := length (before_nul s) in
  (length l <= n)%nat
  /\ forall t, In t l -> (0 < tlen t)%nat /\ (tstart t + tlen t <= n)%nat.
Proof. exact scan_fields_bounded. Qed.
Print Assumptions C10_fields_bounded.

Theorem C10_fields_fit_int : forall s l, scan s = F_done l ->
  (N.of_nat (length s) < 2147483648)%N ->
  (N.of_nat (length l) < 2147483648)%N
  /\ forall t, In t l -> (N.of_nat (tstart t) < 2147483648 /\ N.of_nat (tlen t) < 2147483648 /\ N.of_nat (tstart t + tlen t) < 2147483648)%N.
Proof. exact scan_fields_fit_int. Qed.
Print Assumptions C10_fields_fit_int.

(* ... and nothing NARROWER is justified: on a text without U+EBAD the token lengths add up to the length of the text
   (before the first NUL), so if every length were at most W, k tokens could cover at most k * W code points.  A single
   lexeme of more than W code points (one token: C10_long_lexeme_example) cannot be represented with lengths <= W. *)
Theorem C10_lengths_add_up : forall s l, scan s = F_done l -> ~ In EBAD (before_nul s) ->
  list_sum (map tlen l) = length (before_nul s).
Proof. exact scan_lengths_add_up. Qed.
Print Assumptions C10_lengths_add_up.

Theorem C10_narrow_length_field_loses_text : forall s l W, scan s = F_done l -> ~ In EBAD (before_nul s) ->
  (forall t, In t l -> (tlen t <= W)%nat) -> (length (before_nul s) <= length l * W)%nat.
Proof. exact scan_narrow_fields_lose_text. Qed.
Print Assumptions C10_narrow_length_field_loses_text.

Example C10_long_lexeme_example : scan (repeat 97 300) = F_done [Tok t_text 0 300].
Proof. exact long_word_one_token. Qed.
Print Assumptions C10_long_lexeme_example.

(* Obligations on the GENERATED rule table (re-proved by vm_compute whenever _uscan.re changes):
   every rule is non-nullable and either avoids NUL or is a single-character class; the U+EBAD rule is
   exactly "\XEBAD", the end rule exactly "\000", the break rule is <char> <non-nullable> and avoids NUL;
   the main block has no `goto not_bol`; `.`, "\n" (main) and `[^]` (bol) exist, so some rule always
   applies; at a NUL the bol block falls through and the main block ends the scan; utoken.scan appends
   at least one NUL sentinel (the count is read from utoken.py). *)
Theorem C10_rule_table_obligations :
  (forallb rule_ok bol_rules = true /\ forallb rule_ok main_rules = true)
  /\ forallb (fun ra => negb (is_goto (snd ra))) main_rules = true
  /\ (has_rule re_dot main_rules = true /\ has_rule (chr 10) main_rules = true /\ has_rule re_any bol_rules = true)
  /\ (best_match bol_rules [0] = Some (A_goto_notbol, 1%nat) /\ best_match main_rules [0] = Some (A_end, 1%nat))
  /\ (exists pad, sentinels = 0 :: pad).
Proof. exact (conj all_rules_ok (conj main_no_goto (conj fallback_total (conj at_nul sentinels_nonempty)))). Qed.
Print Assumptions C10_rule_table_obligations.

(* The derivative matcher is correct w.r.t. the declarative semantics: a reported length is a longest
   matching prefix, and a match is reported whenever some prefix matches. *)
Theorem C10_longest_match_correct : forall r s,
  (forall n, longest_match r s = Some n ->
     (n <= length s)%nat /\ matches r (firstn n s) /\
     forall m, (m <= length s)%nat -> matches r (firstn m s) -> (m <= n)%nat)
  /\ (forall m, (m <= length s)%nat -> matches r (firstn m s) -> exists n, longest_match r s = Some n /\ (m <= n)%nat).
Proof. exact (fun r s => conj (longest_match_sound r s) (longest_match_complete r s)). Qed.
Print Assumptions C10_longest_match_correct.

(* Non-vacuity / concrete run: "a<EBAD>b=\n <NUL>c"  ->  text(0,1) text(2,2) newline(4,1) pre(5,1);
   the U+EBAD at offset 1 is dropped and prevents the merge of the two text tokens; "=" merges into
   the text token; the scan ends at the NUL. *)
Example C10_example :
  scan [97; 60333; 98; 61; 10; 32; 0; 99]
  = F_done [Tok t_text 0 1; Tok t_text 2 2; Tok t_newline 4 1; Tok t_pre 5 1]
  /\ before_nul [97; 60333; 98; 61; 10; 32; 0; 99] = [97; 60333; 98; 61; 10; 32].
Proof. vm_compute. split; reflexivity. Qed.
Print Assumptions C10_example.

(* Why the statement speaks of "gaps of U+EBAD" and not of "every U+EBAD removed": a U+EBAD that a
   longer rule runs across is part of that token.  "http://a<EBAD>" is ONE t_http_url token of length 9
   (the class of `url` does not exclude U+EBAD); the real scanner returns the same (differential run). *)
Example C10_ebad_inside_url_is_covered :
  scan [104; 116; 116; 112; 58; 47; 47; 97; 60333] = F_done [Tok t_http_url 0 9].
Proof. vm_compute. reflexivity. Qed.
Print Assumptions C10_ebad_inside_url_is_covered.
