(* C10/ProofsWidth.v — how wide the fields of a token record have to be.
   _uscan.re stores a token as three `int`s (type, start, len) and indexes the token vector with `int`
   (line_startswith_section, the value found() returns).  Model.v uses unbounded naturals for them; this
   file proves the bound that justifies it: every start, every length, every end offset and the NUMBER of
   tokens are bounded by the number of code points before the first NUL.  So no such field can exceed
   INT_MAX unless the text itself has more than INT_MAX code points, and conversely a narrower field
   (e.g. a 16-bit length) is NOT justified: the token lengths of a text without U+EBAD add up to the length
   of the text (scan_lengths_add_up), so k tokens with lengths <= W cover at most k*W code points
   (scan_narrow_fields_lose_text), and 300 letters are ONE token of length 300 (long_word_one_token). *)
From Coq Require Import List NArith Bool Arith Lia ZifyNat ZifyN.
From MW Require Import C10.Regex C10.Tags C10.Gen_rules C10.Model C10.Tiles C10.Proofs.
Import ListNotations.

Lemma ordered_bounds : forall l off e, ordered off l e ->
  Forall (fun sp => (off <= fst sp /\ 0 < snd sp /\ fst sp + snd sp <= e)%nat) l /\ (off + length l <= e)%nat.
Proof.
  induction l as [|[st len] tl IH]; intros off e H; cbn [ordered] in H.
  - split; [constructor | cbn [length]; lia].
  - destruct H as (Hoff & Hlen & Htl). destruct (IH _ _ Htl) as (Hall & Hcnt). split.
    + constructor.
      * cbn [fst snd]. split; [exact Hoff|]. split; [exact Hlen|].
        clear - Hcnt. lia.
      * eapply Forall_impl; [|exact Hall]. cbn beta. intros sp (H1 & H2 & H3). split; [lia|]. split; assumption.
    + cbn [length]. lia.
Qed.

(* every token lies inside the text, is non-empty, and there are at most as many tokens as code points *)
Lemma scan_fields_bounded : forall s l, scan s = F_done l ->
  let n := length (before_nul s) in
  (length l <= n)%nat
  /\ forall t, In t l -> (0 < tlen t)%nat /\ (tstart t + tlen t <= n)%nat.
Proof.
  intros s l Hs n. destruct (scan_consequences s l Hs) as (Hord & _).
  destruct (ordered_bounds _ _ _ Hord) as (Hall & Hcnt). split.
  - unfold spans in Hcnt. rewrite map_length in Hcnt. fold n in Hcnt. lia.
  - intros t Hin. rewrite Forall_forall in Hall.
    specialize (Hall (tstart t, tlen t)). cbn [fst snd] in Hall.
    assert (In (tstart t, tlen t) (spans l)) as Hin'.
    { unfold spans. apply in_map_iff. exists t. split; [reflexivity | exact Hin]. }
    destruct (Hall Hin') as (_ & H2 & H3). fold n in H3. split; assumption.
Qed.

(* the `int` fields of the real scanner: with fewer than 2^31 = 2147483648 code points nothing overflows *)
Lemma of_nat_bound : forall a b K, (a <= b)%nat -> (N.of_nat b < K)%N -> (N.of_nat a < K)%N.
Proof. intros a b K Hab Hb. lia. Qed.

Lemma scan_fields_fit_int : forall s l, scan s = F_done l ->
  (N.of_nat (length s) < 2147483648)%N ->
  (N.of_nat (length l) < 2147483648)%N
  /\ forall t, In t l -> (N.of_nat (tstart t) < 2147483648 /\ N.of_nat (tlen t) < 2147483648 /\ N.of_nat (tstart t + tlen t) < 2147483648)%N.
Proof.
  intros s l Hs Hlen. pose proof (scan_fields_bounded s l Hs) as Hb0. cbv zeta in Hb0. destruct Hb0 as (Hcnt & Htok).
  pose proof (before_nul_length s) as Hb. split.
  - apply (of_nat_bound _ (length s)); [|exact Hlen]. exact (Nat.le_trans _ _ _ Hcnt Hb).
  - intros t Hin. destruct (Htok t Hin) as (H1 & H2).
    assert (tstart t + tlen t <= length s)%nat as H3 by exact (Nat.le_trans _ _ _ H2 Hb).
    split; [|split]; (apply (of_nat_bound _ (length s)); [|exact Hlen]).
    + exact (Nat.le_trans _ _ _ (Nat.le_add_r _ _) H3).
    + refine (Nat.le_trans _ _ _ _ H3). rewrite Nat.add_comm. apply Nat.le_add_r.
    + exact H3.
Qed.

(* whatever tokens the scanner returns on a text without U+EBAD, their lengths add up to the length of the
   text before the first NUL; so a record that cannot hold these lengths loses characters *)
Lemma contig_sum : forall l off e, contig off l e -> (off + list_sum (map snd l) = e)%nat.
Proof.
  unfold list_sum.
  induction l as [|[st len] tl IH]; intros off e H; cbn [contig] in H; cbn [map fold_right snd].
  - lia.
  - destruct H as (_ & _ & Htl). specialize (IH _ _ Htl). lia.
Qed.

Lemma scan_lengths_add_up : forall s l, scan s = F_done l -> ~ In EBAD (before_nul s) ->
  list_sum (map tlen l) = length (before_nul s).
Proof.
  intros s l Hs Hn. destruct (scan_consequences s l Hs) as (_ & _ & _ & Hc).
  pose proof (contig_sum _ _ _ (Hc Hn)) as H. cbn [Nat.add] in H.
  unfold spans in H. rewrite map_map in H. cbn [snd] in H. exact H.
Qed.

(* so: if every length field were smaller than W and there were fewer than K tokens, the text could
   not be longer than K*W — a scanner that returns few tokens for a long text needs wide length fields *)
Lemma list_sum_bound : forall (l : list nat) W, Forall (fun x => (x <= W)%nat) l -> (list_sum l <= length l * W)%nat.
Proof.
  unfold list_sum.
  induction l as [|x tl IH]; intros W H; cbn [fold_right length]; [lia|].
  inversion H as [|y z Hx Htl]; subst. specialize (IH W Htl). lia.
Qed.

Lemma scan_narrow_fields_lose_text : forall s l W, scan s = F_done l -> ~ In EBAD (before_nul s) ->
  (forall t, In t l -> (tlen t <= W)%nat) -> (length (before_nul s) <= length l * W)%nat.
Proof.
  intros s l W Hs Hn HW. rewrite <- (scan_lengths_add_up s l Hs Hn).
  replace (length l) with (length (map tlen l)) by apply map_length.
  apply list_sum_bound. rewrite Forall_forall. intros x Hx. apply in_map_iff in Hx.
  destruct Hx as (t & <- & Hin). exact (HW t Hin).
Qed.

(* a single lexeme is a single token whatever its length (here 300 > 255 letters; the long-lexeme family of the
   differential run does the same on the real scanner with 65535 .. 131077 and 2^20+7 code points) *)
Lemma long_word_one_token : scan (repeat 97%N 300) = F_done [Tok t_text 0 300].
Proof. vm_compute. reflexivity. Qed.
