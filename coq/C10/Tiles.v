(* C10/Tiles.v — the tiling relation between a list of (start,len) spans and a text, and what it
   implies (independent of the scanner model). *)
From Coq Require Import List NArith Bool Arith Lia.
Import ListNotations.
Local Open Scope N_scope.

Definition EBAD : N := 60333.      (* U+EBAD, the reserved blacklist marker *)

Definition allebad (g : list N) : Prop := Forall (fun c => c = EBAD) g.

(* [tiles off l text]: text (which starts at absolute offset off) is
     g0 ++ w1 ++ g1 ++ w2 ++ ... ++ wn ++ gn
   where every gap gi consists of U+EBAD only, every wi is non-empty, and the i-th span of l is
   exactly (absolute offset of wi, length wi). *)
Inductive tiles : nat -> list (nat * nat) -> list N -> Prop :=
| tiles_nil : forall off g, allebad g -> tiles off [] g
| tiles_cons : forall off g w l rest,
    allebad g -> w <> [] ->
    tiles (off + length g + length w) l rest ->
    tiles off ((off + length g, length w)%nat :: l) (g ++ w ++ rest).

Definition slice (t : list N) (sp : nat * nat) : list N := firstn (snd sp) (skipn (fst sp) t).

Definition nonebad (c : N) : bool := negb (c =? EBAD).

(* exact contiguity: spans are non-empty, start at off, each starts where the previous ended, end at e *)
Fixpoint contig (off : nat) (l : list (nat * nat)) (e : nat) : Prop :=
  match l with
  | [] => off = e
  | (st, len) :: tl => st = off /\ (0 < len)%nat /\ contig (off + len) tl e
  end.

(* ordered, non-overlapping, inside [off, e) *)
Fixpoint ordered (off : nat) (l : list (nat * nat)) (e : nat) : Prop :=
  match l with
  | [] => (off <= e)%nat
  | (st, len) :: tl => (off <= st)%nat /\ (0 < len)%nat /\ ordered (st + len) tl e
  end.

Lemma allebad_app : forall a b, allebad a -> allebad b -> allebad (a ++ b).
Proof. intros a b Ha Hb. apply Forall_app. split; assumption. Qed.

Lemma allebad_filter : forall g, allebad g -> filter nonebad g = [].
Proof.
  induction g as [|c g IH]; intro H; [reflexivity|].
  inversion H as [|x y Hc Hg]; subst. cbn [filter]. unfold nonebad at 1. rewrite N.eqb_refl. cbn [negb].
  apply IH. assumption.
Qed.

Lemma allebad_no_ebad : forall g, allebad g -> ~ In EBAD g -> g = [].
Proof.
  intros g H Hn. destruct g as [|c g]; [reflexivity|]. inversion H; subst. exfalso. apply Hn. left. reflexivity.
Qed.

Lemma tiles_ordered : forall off l text, tiles off l text -> ordered off l (off + length text).
Proof.
  intros off l text H. induction H as [off g Hg | off g w l rest Hg Hw Ht IH]; cbn [ordered].
  - lia.
  - rewrite !app_length. split; [lia|]. split.
    + destruct w; [contradiction | cbn [length]; lia].
    + replace (off + (length g + (length w + length rest)))%nat with (off + length g + length w + length rest)%nat by lia.
      exact IH.
Qed.

Lemma tiles_lower : forall off l text, tiles off l text -> Forall (fun sp => (off <= fst sp)%nat) l.
Proof.
  intros off l text H. induction H as [off g Hg | off g w l rest Hg Hw Ht IH]; constructor.
  - cbn [fst]. lia.
  - eapply Forall_impl; [|exact IH]. cbn beta. intros sp Hsp. lia.
Qed.

(* without U+EBAD in the text the spans are exactly contiguous from off to the end *)
Lemma tiles_contig : forall off l text, tiles off l text -> ~ In EBAD text -> contig off l (off + length text).
Proof.
  intros off l text H. induction H as [off g Hg | off g w l rest Hg Hw Ht IH]; intro Hn; cbn [contig].
  - rewrite (allebad_no_ebad g Hg Hn). cbn [length]. lia.
  - assert (g = []) as ->.
    { apply allebad_no_ebad; [assumption|]. intro Hi. apply Hn. apply in_or_app. left. assumption. }
    cbn [app length] in *. rewrite !Nat.add_0_r in *. split; [reflexivity|]. split.
    + destruct w; [contradiction | cbn [length]; lia].
    + rewrite app_length.
      replace (off + (length w + length rest))%nat with (off + length w + length rest)%nat by lia.
      apply IH. intro Hi. apply Hn. apply in_or_app. right. assumption.
Qed.

(* the span texts, relative to a text starting at off *)
Definition slice_rel (off : nat) (t : list N) (sp : nat * nat) : list N :=
  firstn (snd sp) (skipn (fst sp - off) t).

Lemma skipn_app_ge : forall (a b : list N) n, (length a <= n)%nat -> skipn n (a ++ b) = skipn (n - length a) b.
Proof.
  intros a b n H. rewrite skipn_app. rewrite skipn_all2 by assumption. reflexivity.
Qed.

Lemma tiles_concat : forall off l text, tiles off l text ->
  filter nonebad (concat (map (slice_rel off text) l)) = filter nonebad text.
Proof.
  intros off l text H. induction H as [off g Hg | off g w l rest Hg Hw Ht IH].
  - cbn [map concat filter]. symmetry. apply allebad_filter. assumption.
  - cbn [map concat]. rewrite !filter_app. rewrite (allebad_filter g Hg). cbn [app].
    assert (E1 : slice_rel off (g ++ w ++ rest) (off + length g, length w)%nat = w).
    { unfold slice_rel. cbn [fst snd]. replace (off + length g - off)%nat with (length g) by lia.
      rewrite skipn_app_ge by lia. rewrite Nat.sub_diag. cbn [skipn].
      rewrite firstn_app. rewrite Nat.sub_diag. cbn [firstn]. rewrite firstn_all. apply app_nil_r. }
    rewrite E1. f_equal. rewrite <- IH. f_equal. f_equal.
    apply map_ext_in. intros sp Hin.
    pose proof (tiles_lower _ _ _ Ht) as Hl. rewrite Forall_forall in Hl. specialize (Hl sp Hin).
    unfold slice_rel. f_equal.
    rewrite skipn_app_ge by lia. rewrite skipn_app_ge by lia. f_equal. lia.
Qed.

(* every position outside all spans holds U+EBAD: nothing else is dropped *)
Definition in_span (i : nat) (sp : nat * nat) : Prop := (fst sp <= i < fst sp + snd sp)%nat.

Lemma allebad_nth : forall g i, allebad g -> (i < length g)%nat -> nth i g 0 = EBAD.
Proof.
  intros g i H Hi. unfold allebad in H. rewrite Forall_forall in H. apply H. apply nth_In. assumption.
Qed.

Lemma tiles_uncovered : forall off l text, tiles off l text ->
  forall i, (i < length text)%nat -> (forall sp, In sp l -> ~ in_span (off + i) sp) -> nth i text 0 = EBAD.
Proof.
  intros off l text H. induction H as [off g Hg | off g w l rest Hg Hw Ht IH]; intros i Hi Hno.
  - apply allebad_nth; assumption.
  - destruct (Nat.lt_ge_cases i (length g)) as [Hlt | Hge].
    + rewrite app_nth1 by assumption. apply allebad_nth; assumption.
    + rewrite app_nth2 by assumption.
      destruct (Nat.lt_ge_cases (i - length g) (length w)) as [Hlt2 | Hge2].
      * exfalso. apply (Hno (off + length g, length w)%nat); [left; reflexivity|].
        unfold in_span. cbn [fst snd]. lia.
      * rewrite app_nth2 by assumption.
        rewrite !app_length in Hi.
        apply IH; [lia|]. intros sp Hin Hs. apply (Hno sp); [right; assumption|].
        unfold in_span in *. lia.
Qed.

Lemma tiles_nonempty : forall off l text, tiles off l text -> Forall (fun sp => (0 < snd sp)%nat) l.
Proof.
  intros off l text H. induction H as [off g Hg | off g w l rest Hg Hw Ht IH]; constructor; [|assumption].
  cbn [snd]. destruct w; [contradiction | cbn [length]; lia].
Qed.
