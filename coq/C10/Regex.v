(* C10/Regex.v — regular expressions over code points (N) with character classes given as
   range lists (+ negation), a Brzozowski-derivative matcher, `longest_match`, and the lemmas
   the tiling proof needs.  Declarative semantics `matches`; the matcher is proved sound,
   complete and maximal against it, so every other fact is proved on the declarative side. *)
From Coq Require Import List NArith Bool Lia Arith.
Import ListNotations.
Local Open Scope N_scope.

(* ------------------------------------------------------------------ character classes *)

Definition ranges := list (N * N).

Fixpoint in_ranges (c : N) (rs : ranges) : bool :=
  match rs with
  | [] => false
  | (lo, hi) :: tl => ((lo <=? c) && (c <=? hi)) || in_ranges c tl
  end.

Record cls := Cls { cneg : bool; crs : ranges }.

Definition cls_mem (c : N) (k : cls) : bool := xorb (cneg k) (in_ranges c (crs k)).

(* ------------------------------------------------------------------ syntax *)

Inductive re :=
| Emp                      (* no string *)
| Eps                      (* the empty string *)
| Chr (k : cls)            (* one code point of the class *)
| Cat (a b : re)
| Alt (a b : re)
| Star (a : re).

Definition chr (c : N) : re := Chr (Cls false [(c, c)]).

Fixpoint str (l : list N) : re :=
  match l with
  | [] => Eps
  | [c] => chr c
  | c :: tl => Cat (chr c) (str tl)
  end.

Definition plus (r : re) : re := Cat r (Star r).
Definition opt (r : re) : re := Alt r Eps.
Fixpoint rep (n : nat) (r : re) (tail : re) : re :=   (* r^n tail *)
  match n with O => tail | S m => Cat r (rep m r tail) end.

Fixpoint nullable (r : re) : bool :=
  match r with
  | Emp => false
  | Eps => true
  | Chr _ => false
  | Cat a b => nullable a && nullable b
  | Alt a b => nullable a || nullable b
  | Star _ => true
  end.

(* ------------------------------------------------------------------ declarative semantics *)

Inductive matches : re -> list N -> Prop :=
| m_eps : matches Eps []
| m_chr : forall k c, cls_mem c k = true -> matches (Chr k) [c]
| m_cat : forall a b u v, matches a u -> matches b v -> matches (Cat a b) (u ++ v)
| m_altl : forall a b u, matches a u -> matches (Alt a b) u
| m_altr : forall a b u, matches b u -> matches (Alt a b) u
| m_star0 : forall a, matches (Star a) []
| m_star1 : forall a u v, u <> [] -> matches a u -> matches (Star a) v -> matches (Star a) (u ++ v).

Lemma nullable_spec : forall r, nullable r = true <-> matches r [].
Proof.
  induction r; cbn [nullable]; split; intro H; try discriminate; try reflexivity.
  - inversion H.
  - constructor.
  - inversion H.
  - apply andb_true_iff in H. destruct H as [Ha Hb].
    change (@nil N) with (@nil N ++ []). constructor; [apply IHr1 | apply IHr2]; assumption.
  - inversion H as [| |a b u v Hu Hv Heq| | | |]; subst.
    match goal with E : _ ++ _ = [] |- _ => apply app_eq_nil in E; destruct E; subst end.
    apply andb_true_iff. split; [apply IHr1 | apply IHr2]; assumption.
  - apply orb_true_iff in H. destruct H as [Ha | Hb];
      [apply m_altl; apply IHr1 | apply m_altr; apply IHr2]; assumption.
  - apply orb_true_iff. inversion H; subst; [left; apply IHr1 | right; apply IHr2]; assumption.
  - constructor.
Qed.

Lemma matches_emp : forall w, ~ matches Emp w.
Proof. intros w H. inversion H. Qed.

Lemma cat_inv : forall a b w, matches (Cat a b) w ->
  exists u v, w = u ++ v /\ matches a u /\ matches b v.
Proof. intros a b w H. inversion H; subst. eauto. Qed.

(* ------------------------------------------------------------------ smart constructors *)

Definition is_emp (r : re) : bool := match r with Emp => true | _ => false end.

Definition cat (a b : re) : re :=
  match a with
  | Emp => Emp
  | Eps => b
  | _ => match b with Emp => Emp | Eps => a | _ => Cat a b end
  end.

Fixpoint N_pairs_eqb (x y : ranges) : bool :=
  match x, y with
  | [], [] => true
  | (a, b) :: x', (c, d) :: y' => (a =? c) && (b =? d) && N_pairs_eqb x' y'
  | _, _ => false
  end.

Definition cls_eqb (k l : cls) : bool := Bool.eqb (cneg k) (cneg l) && N_pairs_eqb (crs k) (crs l).

Fixpoint re_eqb (x y : re) : bool :=
  match x, y with
  | Emp, Emp => true
  | Eps, Eps => true
  | Chr k, Chr l => cls_eqb k l
  | Cat a b, Cat c d => re_eqb a c && re_eqb b d
  | Alt a b, Alt c d => re_eqb a c && re_eqb b d
  | Star a, Star b => re_eqb a b
  | _, _ => false
  end.

Lemma N_pairs_eqb_eq : forall x y, N_pairs_eqb x y = true -> x = y.
Proof.
  induction x as [|[a b] x IH]; destruct y as [|[c d] y]; cbn [N_pairs_eqb]; intro H;
    try discriminate; try reflexivity.
  apply andb_true_iff in H. destruct H as [H H3]. apply andb_true_iff in H. destruct H as [H1 H2].
  apply N.eqb_eq in H1. apply N.eqb_eq in H2. subst. f_equal. apply IH. assumption.
Qed.

Lemma cls_eqb_eq : forall k l, cls_eqb k l = true -> k = l.
Proof.
  intros [n1 r1] [n2 r2]. unfold cls_eqb. cbn [cneg crs]. intro H.
  apply andb_true_iff in H. destruct H as [H1 H2].
  apply Bool.eqb_prop in H1. apply N_pairs_eqb_eq in H2. subst. reflexivity.
Qed.

Lemma re_eqb_eq : forall x y, re_eqb x y = true -> x = y.
Proof.
  induction x; destruct y; cbn [re_eqb]; intro H; try discriminate; try reflexivity.
  - f_equal. apply cls_eqb_eq. assumption.
  - apply andb_true_iff in H. destruct H as [H1 H2]. f_equal; [apply IHx1 | apply IHx2]; assumption.
  - apply andb_true_iff in H. destruct H as [H1 H2]. f_equal; [apply IHx1 | apply IHx2]; assumption.
  - f_equal. apply IHx. assumption.
Qed.

(* is b one of the alternatives of a (so that Alt a b would be redundant)? *)
Fixpoint alt_mem (b a : re) : bool :=
  re_eqb a b || match a with Alt x y => alt_mem b x || alt_mem b y | _ => false end.

Definition alt (a b : re) : re :=
  match a with
  | Emp => b
  | _ => match b with
         | Emp => a
         | _ => if alt_mem b a then a else Alt a b
         end
  end.

Lemma alt_mem_sound : forall b a w, alt_mem b a = true -> matches b w -> matches a w.
Proof.
  induction a; intros w H Hm; cbn [alt_mem] in H; apply orb_true_iff in H; destruct H as [H | H];
    try discriminate; try (apply re_eqb_eq in H; subst; assumption).
  apply orb_true_iff in H. destruct H as [H | H]; [apply m_altl, IHa1 | apply m_altr, IHa2]; assumption.
Qed.

Lemma cat_spec : forall a b w, matches (cat a b) w <-> matches (Cat a b) w.
Proof.
  intros a b w. split; intro H.
  - destruct a; cbn [cat] in H;
      try (exfalso; exact (matches_emp _ H));
      try (change w with ([] ++ w); constructor; [constructor | assumption]);
      destruct b; try assumption;
      try (exfalso; exact (matches_emp _ H));
      try (rewrite <- (app_nil_r w); constructor; [assumption | constructor]).
  - inversion H as [| |a' b' u v Hu Hv| | | |]; subst.
    destruct a; cbn [cat];
      try (exfalso; exact (matches_emp _ Hu));
      try (inversion Hu; subst; cbn [app]; assumption);
      destruct b;
      try (exfalso; exact (matches_emp _ Hv));
      try (inversion Hv; subst; rewrite app_nil_r; assumption);
      try (constructor; assumption).
Qed.

Lemma alt_spec : forall a b w, matches (alt a b) w <-> (matches a w \/ matches b w).
Proof.
  intros a b w.
  assert (K : matches (if alt_mem b a then a else Alt a b) w <-> (matches a w \/ matches b w)).
  { destruct (alt_mem b a) eqn:E.
    - split; [intro; left; assumption | intros [H | H]; [assumption | eapply alt_mem_sound; eassumption]].
    - split; [intro H; inversion H; subst; [left | right]; assumption
             | intros [H | H]; [apply m_altl | apply m_altr]; assumption]. }
  destruct a; cbn [alt];
    try (split; [intro H; right; assumption | intros [H | H]; [exfalso; exact (matches_emp _ H) | assumption]]);
    destruct b; try exact K;
    try (split; [intro H; left; assumption | intros [H | H]; [assumption | exfalso; exact (matches_emp _ H)]]).
Qed.

(* ------------------------------------------------------------------ derivative *)

Fixpoint deriv (c : N) (r : re) : re :=
  match r with
  | Emp => Emp
  | Eps => Emp
  | Chr k => if cls_mem c k then Eps else Emp
  | Cat a b => alt (cat (deriv c a) b) (if nullable a then deriv c b else Emp)
  | Alt a b => alt (deriv c a) (deriv c b)
  | Star a => cat (deriv c a) (Star a)
  end.

Lemma star_cons_inv : forall a c w, matches (Star a) (c :: w) ->
  exists u v, w = u ++ v /\ matches a (c :: u) /\ matches (Star a) v.
Proof.
  intros a c w H. inversion H as [| | | | | |a' u v Hne Hu Hv]; subst.
  destruct u as [|c' u]; [contradiction|].
  match goal with E : (_ :: _) ++ _ = _ :: _ |- _ => cbn [app] in E; inversion E; subst end.
  exists u, v. auto.
Qed.

Lemma deriv_spec : forall r c w, matches (deriv c r) w <-> matches r (c :: w).
Proof.
  induction r; intros c w; cbn [deriv].
  - split; intro H; inversion H.
  - split; intro H; inversion H.
  - destruct (cls_mem c k) eqn:E; split; intro H.
    + inversion H; subst. constructor. assumption.
    + inversion H; subst. constructor.
    + inversion H.
    + inversion H; subst. congruence.
  - rewrite alt_spec, cat_spec. split.
    + intros [H | H].
      * inversion H as [| |a' b' u v Hu Hv| | | |]; subst.
        change (c :: u ++ v) with ((c :: u) ++ v). constructor; [apply IHr1|]; assumption.
      * destruct (nullable r1) eqn:E; [|exfalso; exact (matches_emp _ H)].
        change (c :: w) with ([] ++ c :: w). constructor; [apply nullable_spec | apply IHr2]; assumption.
    + intro H. apply cat_inv in H. destruct H as (u & v & Heq & Hu & Hv).
      destruct u as [|c' u].
      * cbn [app] in Heq. subst v. right.
        apply nullable_spec in Hu. rewrite Hu. apply IHr2. assumption.
      * cbn [app] in Heq. inversion Heq; subst. left. constructor; [apply IHr1|]; assumption.
  - rewrite alt_spec. split.
    + intros [H | H]; [apply m_altl, IHr1 | apply m_altr, IHr2]; assumption.
    + intro H. inversion H; subst; [left; apply IHr1 | right; apply IHr2]; assumption.
  - rewrite cat_spec. split.
    + intro H. inversion H as [| |a' b' u v Hu Hv| | | |]; subst.
      change (c :: u ++ v) with ((c :: u) ++ v). constructor; [discriminate | apply IHr; assumption | assumption].
    + intro H. apply star_cons_inv in H. destruct H as (u & v & -> & Hu & Hv).
      constructor; [apply IHr|]; assumption.
Qed.

(* ------------------------------------------------------------------ longest match *)

(* [lm r s k best]: r is what remains to be matched after k consumed characters; best is the
   longest accepted length seen so far. *)
Fixpoint lm (r : re) (s : list N) (k : nat) (best : option nat) : option nat :=
  let best' := if nullable r then Some k else best in
  match s with
  | [] => best'
  | c :: s' => if is_emp r then best' else lm (deriv c r) s' (S k) best'
  end.

Definition longest_match (r : re) (s : list N) : option nat := lm r s 0%nat None.

Lemma lm_spec : forall s r k best,
  (lm r s k best = best /\ forall m, (m <= length s)%nat -> ~ matches r (firstn m s))
  \/ (exists n, lm r s k best = Some (k + n)%nat /\ (n <= length s)%nat /\ matches r (firstn n s)
        /\ forall m, (m <= length s)%nat -> matches r (firstn m s) -> (m <= n)%nat).
Proof.
  induction s as [|c s IH]; intros r k best; cbn [lm].
  - destruct (nullable r) eqn:E.
    + right. exists 0%nat. rewrite Nat.add_0_r. cbn [firstn length].
      split; [reflexivity|]. split; [lia|]. split; [apply nullable_spec; assumption|].
      intros m Hm _. lia.
    + left. split; [reflexivity|]. intros m _ H. rewrite firstn_nil in H.
      apply nullable_spec in H. congruence.
  - destruct (is_emp r) eqn:Ee.
    + destruct r; try discriminate. cbn [nullable]. left. split; [reflexivity|].
      intros m _ H. exact (matches_emp _ H).
    + destruct (IH (deriv c r) (S k) (if nullable r then Some k else best)) as [[Heq Hno] | (n & Heq & Hn & Hm & Hmax)].
      * rewrite Heq. destruct (nullable r) eqn:E.
        -- right. exists 0%nat. rewrite Nat.add_0_r. cbn [firstn].
           split; [reflexivity|]. split; [lia|]. split; [apply nullable_spec; assumption|].
           intros m Hle H. destruct m as [|m]; [lia|]. cbn [firstn] in H. apply deriv_spec in H.
           cbn [length] in Hle. exfalso. apply (Hno m); [lia | assumption].
        -- left. split; [reflexivity|]. intros m Hle H. destruct m as [|m].
           ++ cbn [firstn] in H. apply nullable_spec in H. congruence.
           ++ cbn [firstn] in H. apply deriv_spec in H. cbn [length] in Hle. apply (Hno m); [lia | assumption].
      * right. exists (S n). rewrite Heq. cbn [firstn length].
        split; [f_equal; lia|]. split; [lia|]. split; [apply deriv_spec; assumption|].
        intros m Hle H. destruct m as [|m]; [lia|]. cbn [firstn] in H. apply deriv_spec in H.
        cbn [length] in Hle. specialize (Hmax m ltac:(lia) H). lia.
Qed.

(* soundness: a reported match length is within the input and its prefix matches *)
Lemma longest_match_sound : forall r s n, longest_match r s = Some n ->
  (n <= length s)%nat /\ matches r (firstn n s)
  /\ forall m, (m <= length s)%nat -> matches r (firstn m s) -> (m <= n)%nat.
Proof.
  intros r s n H. unfold longest_match in H.
  destruct (lm_spec s r 0%nat None) as [[Heq _] | (n' & Heq & Hn & Hm & Hmax)].
  - congruence.
  - rewrite Heq in H. cbn [Nat.add] in H. inversion H; subst. auto.
Qed.

(* completeness: if some prefix matches, a match (at least that long) is reported *)
Lemma longest_match_complete : forall r s m, (m <= length s)%nat -> matches r (firstn m s) ->
  exists n, longest_match r s = Some n /\ (m <= n)%nat.
Proof.
  intros r s m Hle Hm. unfold longest_match.
  destruct (lm_spec s r 0%nat None) as [[_ Hno] | (n' & Heq & Hn & Hm' & Hmax)].
  - exfalso. exact (Hno m Hle Hm).
  - exists n'. split; [rewrite Heq; reflexivity | apply Hmax; assumption].
Qed.

Lemma longest_match_le : forall r s n, longest_match r s = Some n -> (n <= length s)%nat.
Proof. intros r s n H. apply longest_match_sound in H. tauto. Qed.

Lemma longest_match_pos : forall r s n, nullable r = false -> longest_match r s = Some n -> (0 < n)%nat.
Proof.
  intros r s n Hnn H. apply longest_match_sound in H. destruct H as (_ & Hm & _).
  destruct n; [|lia]. cbn [firstn] in Hm. apply nullable_spec in Hm. congruence.
Qed.

(* ------------------------------------------------------------------ avoids *)

(* syntactic: no character class of r contains c *)
Fixpoint avoids (c : N) (r : re) : bool :=
  match r with
  | Emp | Eps => true
  | Chr k => negb (cls_mem c k)
  | Cat a b | Alt a b => avoids c a && avoids c b
  | Star a => avoids c a
  end.

Lemma avoids_matches : forall c r w, avoids c r = true -> matches r w -> ~ In c w.
Proof.
  intros c r w Ha Hm. induction Hm; cbn [avoids] in Ha;
    try (apply andb_true_iff in Ha; destruct Ha as [Ha1 Ha2]).
  - intros [].
  - intros [E | []]. subst. rewrite H in Ha. discriminate.
  - intro H. apply in_app_or in H. destruct H; [apply IHHm1 | apply IHHm2]; assumption.
  - auto.
  - auto.
  - intros [].
  - intro H0. apply in_app_or in H0. destruct H0; [apply IHHm1 | apply IHHm2]; assumption.
Qed.

Lemma longest_match_avoids : forall c r s n, avoids c r = true -> longest_match r s = Some n ->
  ~ In c (firstn n s).
Proof.
  intros c r s n Ha H. apply longest_match_sound in H. destruct H as (_ & Hm & _).
  eapply avoids_matches; eassumption.
Qed.

(* ------------------------------------------------------------------ single characters *)

Lemma matches_chr_inv : forall k w, matches (Chr k) w -> exists c, w = [c] /\ cls_mem c k = true.
Proof. intros k w H. inversion H; subst. eauto. Qed.

Lemma longest_match_chr : forall k s n, longest_match (Chr k) s = Some n ->
  n = 1%nat /\ exists c tl, s = c :: tl /\ cls_mem c k = true.
Proof.
  intros k s n H. apply longest_match_sound in H. destruct H as (Hle & Hm & _).
  apply matches_chr_inv in Hm. destruct Hm as (c & Hw & Hc).
  destruct s as [|c' tl]; [rewrite firstn_nil in Hw; discriminate|].
  destruct n as [|n]; [discriminate|]. cbn [firstn] in Hw. inversion Hw; subst.
  destruct n as [|n].
  - split; eauto.
  - destruct tl; [cbn [length] in Hle; lia | discriminate].
Qed.

Lemma longest_match_chr_some : forall k c tl, cls_mem c k = true ->
  exists n, longest_match (Chr k) (c :: tl) = Some n.
Proof.
  intros k c tl H.
  destruct (longest_match_complete (Chr k) (c :: tl) 1%nat) as (n & Hn & _).
  - cbn [length]. lia.
  - cbn [firstn]. constructor. assumption.
  - eauto.
Qed.

(* a rule of the shape  <one char> r'  with r' non-nullable matches at least 2 characters *)
Lemma longest_match_cat_chr : forall k r' s n, nullable r' = false ->
  longest_match (Cat (Chr k) r') s = Some n -> (2 <= n)%nat.
Proof.
  intros k r' s n Hnn H. apply longest_match_sound in H. destruct H as (_ & Hm & _).
  apply cat_inv in Hm. destruct Hm as (u & v & Heq & Hu & Hv).
  apply matches_chr_inv in Hu. destruct Hu as (c & -> & _).
  destruct v as [|c' v]; [apply nullable_spec in Hv; congruence|].
  assert (L : length (firstn n s) = length ([c] ++ c' :: v)) by (rewrite Heq; reflexivity).
  rewrite firstn_length in L. cbn [app length] in L. lia.
Qed.
