(* C10/Model.v — executable model of the mwlib scanner (src/mwlib/parser/token/_uscan.re,
   utoken.py:216-218).  Rules and token-type numbers come from Gen_rules.v (regenerated from
   _uscan.re on every check); the re2c semantics (longest match, earliest rule on ties) and every
   action are transcribed here by hand.  No proofs in this file. *)
From Coq Require Import List NArith Bool Arith.
From MW Require Import C10.Regex C10.Tags C10.Gen_rules.
Import ListNotations.
Local Open Scope N_scope.

(* ------------------------------------------------------------------ re2c rule selection *)

(* longest match over all rules of a block; on equal length the EARLIER rule wins *)
Fixpoint best_match (rules : list (re * act)) (s : list N) : option (act * nat) :=
  match rules with
  | [] => None
  | (r, a) :: tl =>
      match longest_match r s, best_match tl s with
      | Some n, Some (a', n') => if (n' <=? n)%nat then Some (a, n) else Some (a', n')
      | Some n, None => Some (a, n)
      | None, o => o
      end
  end.

(* ------------------------------------------------------------------ scanner state *)

Record tok := Tok { ttype : N; tstart : nat; tlen : nat }.

Record st := St {
  toks : list tok;          (* vector<Token> tokens, NEWEST FIRST *)
  last_ebad : bool;         (* _uscan.re:118 *)
  lss : option nat;         (* line_startswith_section: None = -1, Some i = index i *)
  tablemode : N;            (* _uscan.re:120 (int; overflow not modelled) *)
  rowchar : N               (* lineflags.rowchar *)
}.

Definition init : st := St [] false None 0 0.          (* constructor, _uscan.re:56-63 *)

Definition set_toks l s := St l (last_ebad s) (lss s) (tablemode s) (rowchar s).
Definition set_lss o s := St (toks s) (last_ebad s) o (tablemode s) (rowchar s).
Definition set_tablemode m s := St (toks s) (last_ebad s) (lss s) m (rowchar s).
Definition set_rowchar c s := St (toks s) (last_ebad s) (lss s) (tablemode s) c.

Definition push (ty : N) (start len : nat) (s : st) : st :=
  St (Tok ty start len :: toks s) false (lss s) (tablemode s) (rowchar s).

(* found(val) with  start - source = start,  cursor - start = len     (_uscan.re:65-87) *)
Definition found (ty : N) (start len : nat) (s : st) : st :=
  if ty =? t_ebad then St (toks s) true (lss s) (tablemode s) (rowchar s)
  else if (ty =? t_text) && negb (last_ebad s) then
    match toks s with
    | p :: tl =>
        if ttype p =? ty
        then set_toks (Tok (ttype p) (tstart p) (tlen p + len) :: tl) s     (* merge; last_ebad unchanged *)
        else push ty start len s
    | [] => push ty start len s
    end
  else push ty start len s.

(* tokens[i].type = t_text on the forward vector *)
Fixpoint retag_fwd (i : nat) (l : list tok) : list tok :=
  match l with
  | [] => []
  | t :: tl => match i with
               | O => Tok t_text (tstart t) (tlen t) :: tl
               | S j => t :: retag_fwd j tl
               end
  end.

Definition retag (i : nat) (l : list tok) : list tok := rev (retag_fwd i (rev l)).

(* newline()   (_uscan.re:102-107) *)
Definition newline_ (s : st) : st :=
  match lss s with
  | Some i => set_lss None (set_toks (retag i (toks s)) s)
  | None => s
  end.

(* ------------------------------------------------------------------ actions *)

Inductive result :=
| R_stop (s : st)                   (* scan() returned t_end = 0: the driver loop ends *)
| R_stuck                           (* no rule applies / read past the sentinel: undefined behaviour *)
| R_cont (consumed : nat) (s : st). (* scan() returned non-zero with cursor = start + consumed *)

(* [rest] is the text from `start`, [n] the length of the match (cursor = start + n), [pos] = start - source *)
Definition exec (a : act) (rest : list N) (n : nat) (pos : nat) (s : st) : result :=
  let c0 := nth 0 rest 0 in                                    (* *start *)
  let tm := negb (tablemode s =? 0) in                          (* if (tablemode) *)
  let ret := fun ty => R_cont n (found ty pos n s) in          (* RET(ty) *)
  let pre_or_text :=                                           (* _uscan.re:196-200 and twice more *)
      if c0 =? 32 then R_cont 1 (found t_pre pos 1 s) else ret t_text in
  match a with
  | A_ret ty => ret ty
  | A_begin_table => R_cont n (found t_begin_table pos n (set_tablemode (tablemode s + 1) s))
  | A_end_table => R_cont n (found t_end_table pos n (set_tablemode (N.pred (tablemode s)) s))
  | A_bol_row => if tm then ret t_row else pre_or_text
  | A_bol_column =>
      if tm then R_cont n (found t_column pos n (set_rowchar (nth (n - 1) rest 0) s))
      else pre_or_text
  | A_bol_caption => if tm then ret t_tablecaption else pre_or_text
  | A_section =>
      let s' := found t_section pos n s in
      R_cont n (set_lss (Some (length (toks s') - 1)%nat) s')
  | A_goto_notbol => R_stuck       (* handled by [step]; anywhere else it would loop forever *)
  | A_eq =>
      let nxt := nth n rest 0 in                                (* *cursor *)
      if (nxt =? 10) || (nxt =? 0) then
        match lss s with
        | Some _ => R_cont n (found t_section_end pos n (set_lss None s))
        | None => ret t_text
        end
      else ret t_text
  | A_break =>
      let s1 := newline_ s in
      let s2 := found t_newline pos 1 s1 in
      R_cont n (found t_break (pos + 1) (n - 1) s2)
  | A_newline => R_cont n (found t_newline pos n (newline_ s))
  | A_colsep =>
      let c2 := nth (n - 2) rest 0 in                           (* cursor[-2] *)
      if tm && (negb (c2 =? 33) || (c2 =? rowchar s)) then ret t_column
      else R_cont 1 (found t_special pos 1 s)
  | A_capsep => if tm then ret t_tablecaption else R_cont 1 (found t_special pos 1 s)
  | A_end => R_stop (newline_ s)
  end.

(* one call of Scanner::scan()  (_uscan.re:127-318).  [prev] = start[-1] (None at the start) *)
Definition step (prev : option N) (rest : list N) (pos : nat) (s : st) : result :=
  let isbol := match prev with None => true | Some c => c =? 10 end in
  let s0 := if isbol then set_rowchar 0 s else s in             (* bol(): memset(&lineflags,0,..) *)
  let main := match best_match main_rules rest with
              | None => R_stuck
              | Some (a, n) => exec a rest n pos s0
              end in
  if isbol then
    match best_match bol_rules rest with
    | None => R_stuck
    | Some (A_goto_notbol, _) => main                           (* cursor = save_cursor *)
    | Some (a, n) => exec a rest n pos s0
    end
  else main.

Inductive final := F_done (l : list tok) | F_stuck | F_fuel.

Fixpoint run (fuel : nat) (prev : option N) (rest : list N) (pos : nat) (s : st) : final :=
  match fuel with
  | O => F_fuel
  | S f =>
      match step prev rest pos s with
      | R_stop s' => F_done (rev (toks s'))
      | R_stuck => F_stuck
      | R_cont k s' =>
          run f (match k with O => prev | S j => Some (nth j rest 0) end) (skipn k rest) (pos + k)%nat s'
      end
  end.

(* utoken.scan (utoken.py:216-218): sentinel_count (= 32, read from utoken.py by the translator) NUL
   sentinels are appended, then _uscan.scan *)
Definition sentinels : list N := repeat 0 sentinel_count.

Definition scan (s : list N) : final := run (length s + 1) None (s ++ sentinels) 0%nat init.
