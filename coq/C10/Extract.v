From Coq Require Import Extraction ExtrOcamlBasic.
From MW Require Import C10.Regex C10.Tags C10.Gen_rules C10.Model.
Extraction "../ocaml/c10/c10_model.ml" scan longest_match best_match main_rules bol_rules.
