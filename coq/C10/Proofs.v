(* C10/Proofs.v — the scanner model tiles its input.
   Part 1: obligations on the generated rule table, closed by vm_compute.
   Part 2: rule selection (best_match) facts.
   Part 3: the token-list invariant and `found`.
   Part 4: every action / one scan() call preserves the invariant and makes progress.
   Part 5: the loop; C10_tiling. *)
From Coq Require Import List NArith Bool Arith Lia.
From MW Require Import C10.Regex C10.Tags C10.Gen_rules C10.Model C10.Tiles.
Import ListNotations.
Local Open Scope N_scope.

(* ================================================================== 1. obligations on the rule table *)

Definition is_single (r : re) : bool := match r with Chr _ => true | _ => false end.

Definition generic_ok (r : re) : bool := negb (nullable r) && (avoids 0 r || is_single r).

Definition rule_ok (ra : re * act) : bool :=
  let (r, a) := ra in
  match a with
  | A_end => re_eqb r (chr 0)
  | A_break => avoids 0 r && match r with Cat (Chr _) r' => negb (nullable r') | _ => false end
  | A_ret ty => if ty =? t_ebad then re_eqb r (chr EBAD) else generic_ok r
  | A_goto_notbol => is_single r
  | _ => generic_ok r
  end.

Definition is_goto (a : act) : bool := match a with A_goto_notbol => true | _ => false end.
Definition is_end (a : act) : bool := match a with A_end => true | _ => false end.

Definition re_dot : re := Chr (Cls true [(10, 10)]).     (* .   : any code point but \n *)
Definition re_any : re := Chr (Cls true []).             (* [^] : any code point *)

Definition has_rule (r : re) (rules : list (re * act)) : bool := existsb (fun ra => re_eqb (fst ra) r) rules.

(* every rule is non-nullable and cannot run across a NUL; the special rules have the exact shape
   their actions rely on *)
Lemma all_rules_ok : forallb rule_ok bol_rules = true /\ forallb rule_ok main_rules = true.
Proof. split; vm_compute; reflexivity. Qed.

(* the main block never jumps to not_bol (it would loop), the bol block never ends the scan *)
Lemma main_no_goto : forallb (fun ra => negb (is_goto (snd ra))) main_rules = true.
Proof. vm_compute. reflexivity. Qed.

Lemma bol_no_end : forallb (fun ra => negb (is_end (snd ra))) bol_rules = true.
Proof. vm_compute. reflexivity. Qed.

(* fallback rules: every code point is matched by some rule of each block *)
Lemma fallback_total : has_rule re_dot main_rules = true /\ has_rule (chr 10) main_rules = true
                       /\ has_rule re_any bol_rules = true.
Proof. repeat split; vm_compute; reflexivity. Qed.

(* at a NUL: the bol block falls through to the main block, and the main block stops *)
Lemma at_nul : best_match bol_rules [0] = Some (A_goto_notbol, 1%nat) /\ best_match main_rules [0] = Some (A_end, 1%nat).
Proof. split; vm_compute; reflexivity. Qed.

(* utoken.scan appends at least one NUL sentinel *)
Lemma sentinels_nonempty : exists pad, sentinels = 0 :: pad.
Proof. eexists. vm_compute. reflexivity. Qed.

(* token-type numbers used by the actions differ from t_ebad *)
Lemma types_not_ebad :
  forallb (fun t => negb (t =? t_ebad))
    [t_text; t_begin_table; t_end_table; t_pre; t_section; t_section_end; t_newline; t_break; t_column; t_row;
     t_tablecaption; t_special] = true.
Proof. vm_compute. reflexivity. Qed.

(* ================================================================== 2. rule selection *)

Lemma best_match_in : forall rules s a n, best_match rules s = Some (a, n) ->
  exists r, In (r, a) rules /\ longest_match r s = Some n.
Proof.
  induction rules as [|[r a0] tl IH]; intros s a n H; cbn [best_match] in H; [discriminate|].
  destruct (longest_match r s) as [m|] eqn:El.
  - destruct (best_match tl s) as [[a' n']|] eqn:Eb.
    + destruct (n' <=? m)%nat.
      * inversion H; subst. exists r. split; [left; reflexivity | assumption].
      * inversion H; subst. destruct (IH s a n Eb) as (r' & Hin & Hl). exists r'. split; [right|]; assumption.
    + inversion H; subst. exists r. split; [left; reflexivity | assumption].
  - destruct (IH s a n H) as (r' & Hin & Hl). exists r'. split; [right|]; assumption.
Qed.

Lemma best_match_some : forall rules s r a n, In (r, a) rules -> longest_match r s = Some n ->
  exists a' n', best_match rules s = Some (a', n').
Proof.
  induction rules as [|[r0 a0] tl IH]; intros s r a n Hin Hl; [contradiction|].
  cbn [best_match]. destruct Hin as [E | Hin].
  - inversion E; subst. rewrite Hl. destruct (best_match tl s) as [[a' n']|]; [destruct (n' <=? n)%nat|]; eauto.
  - destruct (IH s r a n Hin Hl) as (a' & n' & E). rewrite E.
    destruct (longest_match r0 s) as [m|]; [destruct (n' <=? m)%nat|]; eauto.
Qed.

Lemma best_match_ext : forall rules s1 s2,
  (forall r a, In (r, a) rules -> longest_match r s1 = longest_match r s2) ->
  best_match rules s1 = best_match rules s2.
Proof.
  induction rules as [|[r a] tl IH]; intros s1 s2 H; [reflexivity|].
  cbn [best_match]. rewrite (H r a) by (left; reflexivity).
  rewrite (IH s1 s2) by (intros r' a' Hin; apply (H r' a'); right; assumption). reflexivity.
Qed.

Lemma longest_match_chr_eq : forall k c tl,
  longest_match (Chr k) (c :: tl) = if cls_mem c k then Some 1%nat else None.
Proof.
  intros k c tl. destruct (longest_match (Chr k) (c :: tl)) as [n|] eqn:E.
  - apply longest_match_chr in E. destruct E as (-> & c' & tl' & Heq & Hm). inversion Heq; subst.
    rewrite Hm. reflexivity.
  - destruct (cls_mem c k) eqn:Em; [|reflexivity].
    destruct (longest_match_chr_some k c tl Em) as (n & Hn). congruence.
Qed.

(* a rule that avoids c and is not nullable does not match a text starting with c *)
Lemma avoids_head_none : forall c r tl, avoids c r = true -> nullable r = false ->
  longest_match r (c :: tl) = None.
Proof.
  intros c r tl Ha Hn. destruct (longest_match r (c :: tl)) as [n|] eqn:E; [|reflexivity].
  exfalso. pose proof (longest_match_pos _ _ _ Hn E) as Hp.
  apply (longest_match_avoids c r _ _ Ha E). destruct n; [lia|]. left. reflexivity.
Qed.

Lemma is_single_inv : forall r, is_single r = true -> exists k, r = Chr k.
Proof. intros r H. destruct r; try discriminate. eauto. Qed.

(* facts about one OK rule, at a text u ++ 0 :: v with u NUL-free *)
Lemma generic_ok_head_nul : forall r v1 v2, generic_ok r = true ->
  longest_match r (0 :: v1) = longest_match r (0 :: v2).
Proof.
  intros r v1 v2 H. unfold generic_ok in H. apply andb_true_iff in H. destruct H as [Hn Ho].
  apply negb_true_iff in Hn. apply orb_true_iff in Ho. destruct Ho as [Ha | Hs].
  - rewrite !avoids_head_none by assumption. reflexivity.
  - apply is_single_inv in Hs. destruct Hs as (k & ->). rewrite !longest_match_chr_eq. reflexivity.
Qed.

Lemma rule_ok_head_nul : forall r a v1 v2, rule_ok (r, a) = true ->
  longest_match r (0 :: v1) = longest_match r (0 :: v2).
Proof.
  intros r a v1 v2 H. cbn [rule_ok] in H.
  assert (Hchr : forall c, re_eqb r (chr c) = true -> longest_match r (0 :: v1) = longest_match r (0 :: v2)).
  { intros c E. apply re_eqb_eq in E. subst r. unfold chr. rewrite !longest_match_chr_eq. reflexivity. }
  destruct a; try (apply generic_ok_head_nul; assumption).
  - destruct (ty =? t_ebad); [eapply Hchr; eassumption | apply generic_ok_head_nul; assumption].
  - apply is_single_inv in H. destruct H as (k & ->). rewrite !longest_match_chr_eq. reflexivity.
  - apply andb_true_iff in H. destruct H as [Ha Hs].
    destruct r; try discriminate. destruct r1; try discriminate.
    rewrite !avoids_head_none; try assumption; reflexivity.
  - eapply Hchr; eassumption.
Qed.

Lemma best_match_head_nul : forall rules v, forallb rule_ok rules = true ->
  best_match rules (0 :: v) = best_match rules [0].
Proof.
  intros rules v H. apply best_match_ext. intros r a Hin.
  rewrite forallb_forall in H. apply (rule_ok_head_nul r a). apply H. assumption.
Qed.

Lemma firstn_no_nul_le : forall (u v : list N) n, ~ In 0 (firstn n (u ++ 0 :: v)) -> (n <= length u)%nat.
Proof.
  intros u v n H. destruct (Nat.le_gt_cases n (length u)) as [Hle | Hgt]; [assumption|].
  exfalso. apply H. rewrite firstn_app. apply in_or_app. right.
  destruct (n - length u)%nat eqn:E; [lia|]. left. reflexivity.
Qed.

(* what an OK rule's match looks like at a text whose NUL-free prefix u is non-empty *)
Lemma generic_ok_match : forall r u v n, generic_ok r = true -> u <> [] -> ~ In 0 u ->
  longest_match r (u ++ 0 :: v) = Some n -> (1 <= n <= length u)%nat.
Proof.
  intros r u v n H Hu Hnu Hl. unfold generic_ok in H. apply andb_true_iff in H. destruct H as [Hn Ho].
  apply negb_true_iff in Hn. split; [exact (longest_match_pos _ _ _ Hn Hl)|].
  apply orb_true_iff in Ho. destruct Ho as [Ha | Hs].
  - eapply firstn_no_nul_le. eapply longest_match_avoids; eassumption.
  - apply is_single_inv in Hs. destruct Hs as (k & ->). apply longest_match_chr in Hl.
    destruct Hl as (-> & _). destruct u; [contradiction | cbn [length]; lia].
Qed.

(* ================================================================== 3. the invariant; found *)

Definition spans (l : list tok) : list (nat * nat) := map (fun t => (tstart t, tlen t)) l.

(* [rt l q]: l (NEWEST FIRST) tiles q exactly up to U+EBAD gaps, the last span ending at the end of q *)
Inductive rt : list (nat * nat) -> list N -> Prop :=
| rt_nil : rt [] []
| rt_cons : forall l q g w, rt l q -> allebad g -> w <> [] ->
    rt ((length q + length g, length w)%nat :: l) (q ++ g ++ w).

(* p = the text consumed so far *)
Definition Inv (s : st) (p : list N) : Prop :=
  exists q g, p = q ++ g /\ allebad g /\ rt (spans (toks s)) q /\ (last_ebad s = false -> g = []).

Lemma Inv_init : Inv init [].
Proof. exists [], []. repeat split; [constructor | constructor]. Qed.

Lemma Inv_same : forall s s' p, toks s' = toks s -> last_ebad s' = last_ebad s -> Inv s p -> Inv s' p.
Proof.
  intros s s' p Ht Hl (q & g & Hp & Hg & Hr & Hle). exists q, g. rewrite Ht, Hl. auto.
Qed.

Lemma Inv_push : forall ty s p w, Inv s p -> w <> [] -> Inv (push ty (length p) (length w) s) (p ++ w).
Proof.
  intros ty s p w (q & g & Hp & Hg & Hr & Hle) Hw. subst p.
  exists (q ++ g ++ w), []. split; [rewrite app_nil_r, app_assoc; reflexivity|].
  split; [constructor|]. split; [|reflexivity].
  unfold push. cbn [toks spans map tstart tlen]. rewrite app_length. apply rt_cons; assumption.
Qed.

Lemma Inv_found : forall ty s p w, Inv s p -> w <> [] -> (ty =? t_ebad = true -> allebad w) ->
  Inv (found ty (length p) (length w) s) (p ++ w).
Proof.
  intros ty s p w HI Hw He. unfold found. destruct (ty =? t_ebad) eqn:Ee.
  - destruct HI as (q & g & Hp & Hg & Hr & Hle). subst p.
    exists q, (g ++ w). split; [rewrite app_assoc; reflexivity|].
    split; [apply allebad_app; auto|]. split; [exact Hr|]. cbn [last_ebad]. discriminate.
  - destruct ((ty =? t_text) && negb (last_ebad s)) eqn:Em; [|apply Inv_push; assumption].
    destruct (toks s) as [|t0 tl] eqn:Et; [apply Inv_push; assumption|].
    destruct (ttype t0 =? ty) eqn:Ety; [|apply Inv_push; assumption].
    (* merge with the previous text token *)
    apply andb_true_iff in Em. destruct Em as [_ Hl]. apply negb_true_iff in Hl.
    destruct HI as (q & g & Hp & Hg & Hr & Hle). specialize (Hle Hl). subst g. rewrite app_nil_r in Hp. subst q.
    rewrite Et in Hr. cbn [spans map] in Hr.
    inversion Hr as [|l0 q0 g0 w0 Hr0 Hg0 Hw0 E1 E2]; subst.
    exists ((q0 ++ g0 ++ w0) ++ w), []. split; [rewrite app_nil_r; reflexivity|].
    split; [constructor|]. split; [|reflexivity].
    unfold set_toks. cbn [toks spans map tstart tlen].
    replace (tstart t0) with (length q0 + length g0)%nat by congruence.
    replace (tlen t0) with (length w0) by congruence.
    replace (length w0 + length w)%nat with (length (w0 ++ w)) by apply app_length.
    replace ((q0 ++ g0 ++ w0) ++ w) with (q0 ++ g0 ++ (w0 ++ w)) by (rewrite !app_assoc; reflexivity).
    apply rt_cons; try assumption. destruct w0; [contradiction | discriminate].
Qed.

Lemma spans_retag_fwd : forall i l, spans (retag_fwd i l) = spans l.
Proof.
  intros i l. revert i. induction l as [|t tl IH]; intro i; [destruct i; reflexivity|].
  destruct i; cbn [retag_fwd spans map tstart tlen]; [reflexivity|].
  f_equal. apply IH.
Qed.

Lemma spans_retag : forall i l, spans (retag i l) = spans l.
Proof.
  intros i l. unfold retag, spans. rewrite map_rev. fold (spans (retag_fwd i (rev l))).
  rewrite spans_retag_fwd. unfold spans. rewrite map_rev. apply rev_involutive.
Qed.

Lemma Inv_newline : forall s p, Inv s p -> Inv (newline_ s) p.
Proof.
  intros s p (q & g & Hp & Hg & Hr & Hle). unfold newline_. destruct (lss s) as [i|]; [|exists q, g; auto].
  exists q, g. cbn [toks last_ebad set_lss set_toks]. rewrite spans_retag. auto.
Qed.

Lemma cls_mem_chr : forall c d, cls_mem c (Cls false [(d, d)]) = true -> c = d.
Proof.
  intros c d H. unfold cls_mem in H. cbv [cneg crs in_ranges] in H.
  rewrite xorb_false_l, orb_false_r in H.
  apply andb_true_iff in H. destruct H as [H1 H2]. apply N.leb_le in H1. apply N.leb_le in H2. lia.
Qed.

Lemma cls_mem_dot : forall c, c <> 10 -> cls_mem c (Cls true [(10, 10)]) = true.
Proof.
  intros c H. unfold cls_mem. cbv [cneg crs in_ranges]. rewrite orb_false_r.
  destruct ((10 <=? c) && (c <=? 10)) eqn:E; [|reflexivity].
  apply andb_true_iff in E. destruct E as [E1 E2]. apply N.leb_le in E1. apply N.leb_le in E2. lia.
Qed.

(* ================================================================== 4. actions and one scan() call *)

Lemma firstn_firstn_skipn : forall (l : list N) a b,
  firstn a l ++ firstn b (skipn a l) = firstn (a + b) l.
Proof.
  intros l a. revert l. induction a as [|a IH]; intros l b; [reflexivity|].
  destruct l as [|c l]; [cbn [skipn firstn Nat.add app]; rewrite firstn_nil; reflexivity|].
  cbn [Nat.add firstn skipn app]. f_equal. apply IH.
Qed.

Lemma firstn_nonnil : forall (l : list N) n, (1 <= n <= length l)%nat -> firstn n l <> [].
Proof.
  intros l n H E. assert (L : length (firstn n l) = 0%nat) by (rewrite E; reflexivity).
  rewrite firstn_length in L. lia.
Qed.

Lemma firstn_len : forall (l : list N) n, (n <= length l)%nat -> length (firstn n l) = n.
Proof. intros l n H. rewrite firstn_length. lia. Qed.

(* the shape every successful step has *)
Definition good (u rest p : list N) (res : result) : Prop :=
  match res with
  | R_stop _ => False
  | R_stuck => False
  | R_cont k s' => (1 <= k <= length u)%nat /\ Inv s' (p ++ firstn k rest)
  end.

Section Exec.
  Variable u v p : list N.
  Let rest := u ++ 0 :: v.
  Hypothesis Hu : u <> [].
  Hypothesis Hnu : ~ In 0 u.

  Lemma len_rest : forall k, (k <= length u)%nat -> (k <= length rest)%nat.
  Proof. intros k H. unfold rest. rewrite app_length. lia. Qed.

  (* found of the first k matched characters under a non-EBAD type *)
  Lemma cont_found : forall ty k s, Inv s p -> (1 <= k <= length u)%nat -> ty =? t_ebad = false ->
    good u rest p (R_cont k (found ty (length p) k s)).
  Proof.
    intros ty k s HI Hk Hty. cbn [good]. split; [assumption|].
    pose proof (len_rest k ltac:(lia)) as Hlr.
    rewrite <- (firstn_len rest k Hlr) at 1.
    apply Inv_found; [assumption | apply firstn_nonnil; lia | rewrite Hty; discriminate].
  Qed.

  Ltac ty_ne := vm_compute; reflexivity.

  Lemma exec_good : forall r a n s, rule_ok (r, a) = true -> is_goto a = false ->
    longest_match r rest = Some n -> Inv s p ->
    good u rest p (exec a rest n (length p) s).
  Proof.
    intros r a n s Hok Hng Hl HI. cbn [rule_ok] in Hok.
    assert (Hgen : generic_ok r = true -> (1 <= n <= length u)%nat)
      by (intro G; eapply generic_ok_match; eassumption).
    assert (H1 : generic_ok r = true -> (1 <= 1 <= length u)%nat) by (intro G; specialize (Hgen G); lia).
    assert (Hs1 : forall s', Inv s' p -> Inv (set_rowchar (nth (n - 1) rest 0) s') p)
      by (intros s' Hs'; eapply Inv_same; [| |exact Hs']; reflexivity).
    unfold exec.
    destruct a; try discriminate Hng.
    - (* A_ret *)
      destruct (ty =? t_ebad) eqn:Ety.
      + apply re_eqb_eq in Hok. subst r. unfold chr in Hl. apply longest_match_chr in Hl.
        destruct Hl as (-> & c & tl & Hrest & Hc).
        apply cls_mem_chr in Hc. subst c.
        cbn [good]. split; [destruct u; [contradiction | cbn [length]; lia]|].
        rewrite Hrest. cbn [firstn].
        change 1%nat with (length [EBAD]). apply Inv_found; [assumption | discriminate |].
        intros _. constructor; [reflexivity | constructor].
      + apply cont_found; auto.
    - (* A_begin_table *)
      apply cont_found; [eapply Inv_same; [| |exact HI]; reflexivity | auto | ty_ne].
    - (* A_end_table *)
      apply cont_found; [eapply Inv_same; [| |exact HI]; reflexivity | auto | ty_ne].
    - (* A_bol_row *)
      destruct (negb (tablemode s =? 0)); [apply cont_found; [assumption | auto | ty_ne]|].
      destruct (nth 0 rest 0 =? 32); apply cont_found; auto; ty_ne.
    - (* A_bol_column *)
      destruct (negb (tablemode s =? 0)); [apply cont_found; [auto | auto | ty_ne]|].
      destruct (nth 0 rest 0 =? 32); apply cont_found; auto; ty_ne.
    - (* A_bol_caption *)
      destruct (negb (tablemode s =? 0)); [apply cont_found; [assumption | auto | ty_ne]|].
      destruct (nth 0 rest 0 =? 32); apply cont_found; auto; ty_ne.
    - (* A_section *)
      pose proof (cont_found t_section n s HI (Hgen Hok) ltac:(ty_ne)) as G. cbn [good] in G |- *.
      destruct G as [Gk GI]. split; [assumption|]. eapply Inv_same; [| |exact GI]; reflexivity.
    - (* A_eq *)
      destruct ((nth n rest 0 =? 10) || (nth n rest 0 =? 0)).
      + destruct (lss s).
        * apply cont_found; [eapply Inv_same; [| |exact HI]; reflexivity | auto | ty_ne].
        * apply cont_found; [assumption | auto | ty_ne].
      + apply cont_found; [assumption | auto | ty_ne].
    - (* A_break *)
      apply andb_true_iff in Hok. destruct Hok as [Ha Hshape].
      destruct r as [| | |ra rb| |]; try discriminate. destruct ra as [| |k| | |]; try discriminate.
      apply negb_true_iff in Hshape.
      pose proof (longest_match_cat_chr _ _ _ _ Hshape Hl) as H2.
      pose proof (firstn_no_nul_le u v n (longest_match_avoids 0 _ _ _ Ha Hl)) as Hle.
      cbn [good]. split; [lia|].
      pose proof (len_rest n Hle) as Hlr.
      assert (I1 : Inv (found t_newline (length p) 1 (newline_ s)) (p ++ firstn 1 rest)).
      { rewrite <- (firstn_len rest 1 ltac:(lia)) at 1.
        apply Inv_found; [apply Inv_newline; assumption | apply firstn_nonnil; lia | intro E; vm_compute in E; discriminate]. }
      assert (E : p ++ firstn n rest = (p ++ firstn 1 rest) ++ firstn (n - 1) (skipn 1 rest)).
      { rewrite <- app_assoc. f_equal. rewrite firstn_firstn_skipn. f_equal. lia. }
      rewrite E.
      replace (length p + 1)%nat with (length (p ++ firstn 1 rest))
        by (rewrite app_length, firstn_len by lia; reflexivity).
      assert (Ls : length (firstn (n - 1) (skipn 1 rest)) = (n - 1)%nat).
      { rewrite firstn_length, skipn_length. lia. }
      rewrite <- Ls at 1.
      apply Inv_found; [exact I1 | | intro E'; vm_compute in E'; discriminate].
      intro E0. rewrite E0 in Ls. cbn [length] in Ls. lia.
    - (* A_newline *)
      apply cont_found; [apply Inv_newline; assumption | auto | ty_ne].
    - (* A_colsep *)
      destruct (negb (tablemode s =? 0) && (negb (nth (n - 2) rest 0 =? 33) || (nth (n - 2) rest 0 =? rowchar s)));
        apply cont_found; auto; ty_ne.
    - (* A_capsep *)
      destruct (negb (tablemode s =? 0)); apply cont_found; auto; ty_ne.
    - (* A_end: its rule is "\000", which cannot match at a non-NUL character *)
      apply re_eqb_eq in Hok. subst r. unfold chr in Hl. apply longest_match_chr in Hl.
      destruct Hl as (_ & c & tl & Hrest & Hc).
      apply cls_mem_chr in Hc. subst c.
      exfalso. apply Hnu. unfold rest in Hrest. destruct u as [|c0 u0]; [contradiction|].
      cbn [app] in Hrest. inversion Hrest; subst. left. reflexivity.
  Qed.
End Exec.

Lemma has_rule_in : forall r rules, has_rule r rules = true -> exists a, In (r, a) rules.
Proof.
  intros r rules H. unfold has_rule in H. apply existsb_exists in H. destruct H as ([r' a] & Hin & E).
  cbn [fst] in E. apply re_eqb_eq in E. subst. eauto.
Qed.

Lemma forallb_in : forall (f : re * act -> bool) rules x, forallb f rules = true -> In x rules -> f x = true.
Proof. intros f rules x H Hin. rewrite forallb_forall in H. auto. Qed.

(* main block at a non-NUL character *)
Lemma main_good : forall u v p s, u <> [] -> ~ In 0 u -> Inv s p ->
  good u (u ++ 0 :: v) p
       (match best_match main_rules (u ++ 0 :: v) with
        | None => R_stuck
        | Some (a, n) => exec a (u ++ 0 :: v) n (length p) s
        end).
Proof.
  intros u v p s Hu Hnu HI.
  destruct (best_match main_rules (u ++ 0 :: v)) as [[a n]|] eqn:Eb.
  - destruct (best_match_in _ _ _ _ Eb) as (r & Hin & Hl).
    apply (exec_good u v p Hu Hnu r a n s); try assumption.
    + apply (forallb_in rule_ok main_rules); [apply all_rules_ok | assumption].
    + pose proof (forallb_in _ _ _ main_no_goto Hin) as G. cbn [snd] in G. apply negb_true_iff in G. exact G.
  - exfalso. destruct u as [|c u0]; [contradiction|]. cbn [app] in Eb.
    destruct fallback_total as (Hdot & Hnl & _).
    destruct (N.eq_dec c 10) as [-> | Hc].
    + destruct (has_rule_in _ _ Hnl) as (a & Hin).
      destruct (longest_match_chr_some (Cls false [(10, 10)]) 10 (u0 ++ 0 :: v) eq_refl) as (n & Hn).
      destruct (best_match_some _ _ _ _ _ Hin Hn) as (a' & n' & E). congruence.
    + destruct (has_rule_in _ _ Hdot) as (a & Hin).
      pose proof (cls_mem_dot c Hc) as Hm.
      destruct (longest_match_chr_some _ c (u0 ++ 0 :: v) Hm) as (n & Hn).
      destruct (best_match_some _ _ _ _ _ Hin Hn) as (a' & n' & E). unfold re_dot in *. congruence.
Qed.

(* one call of scan(), at a position whose NUL-free remainder is u *)
Lemma step_spec : forall prev u v p s, ~ In 0 u -> Inv s p ->
  match step prev (u ++ 0 :: v) (length p) s with
  | R_stop s' => u = [] /\ Inv s' p
  | R_stuck => False
  | R_cont k s' => (1 <= k <= length u)%nat /\ Inv s' (p ++ firstn k (u ++ 0 :: v))
  end.
Proof.
  intros prev u v p s Hnu HI. unfold step.
  set (isbol := match prev with None => true | Some c => c =? 10 end).
  set (s0 := if isbol then set_rowchar 0 s else s).
  assert (HI0 : Inv s0 p).
  { unfold s0. destruct isbol; [eapply Inv_same; [| |exact HI]; reflexivity | assumption]. }
  destruct all_rules_ok as [Hbol Hmain].
  destruct u as [|c u0].
  - (* at the NUL *)
    cbn [app]. rewrite (best_match_head_nul main_rules v Hmain), (best_match_head_nul bol_rules v Hbol).
    destruct at_nul as [-> ->]. cbn [exec].
    destruct isbol; (split; [reflexivity | apply Inv_newline; assumption]).
  - set (u := c :: u0) in *. assert (Hu : u <> []) by discriminate.
    pose proof (main_good u v p s0 Hu Hnu HI0) as Gm.
    assert (conv : forall res, good u (u ++ 0 :: v) p res ->
              match res with
              | R_stop s' => u = [] /\ Inv s' p
              | R_stuck => False
              | R_cont k s' => (1 <= k <= length u)%nat /\ Inv s' (p ++ firstn k (u ++ 0 :: v))
              end) by (intros [s'| |k s'] G; cbn [good] in G; try contradiction; exact G).
    destruct isbol; [|apply conv; exact Gm].
    destruct (best_match bol_rules (u ++ 0 :: v)) as [[a n]|] eqn:Eb.
    + destruct (best_match_in _ _ _ _ Eb) as (r & Hin & Hl).
      destruct (is_goto a) eqn:Eg.
      * destruct a; try discriminate Eg. apply conv; exact Gm.
      * assert (G : good u (u ++ 0 :: v) p (exec a (u ++ 0 :: v) n (length p) s0)).
        { apply (exec_good u v p Hu Hnu r a n s0); try assumption.
          apply (forallb_in rule_ok bol_rules); assumption. }
        destruct a; try discriminate Eg; apply conv; exact G.
    + exfalso. destruct fallback_total as (_ & _ & Hany).
      destruct (has_rule_in _ _ Hany) as (a & Hin).
      destruct (longest_match_chr_some (Cls true []) c (u0 ++ 0 :: v) eq_refl) as (n & Hn).
      destruct (best_match_some _ _ _ _ _ Hin Hn) as (a' & n' & E).
      unfold u in Eb. cbn [app] in Eb. unfold re_any in *. congruence.
Qed.

(* ================================================================== 5. the loop *)

Lemma rt_tiles : forall l q, rt l q -> forall l2 rest, tiles (length q) l2 rest -> tiles 0 (rev l ++ l2) (q ++ rest).
Proof.
  intros l q H. induction H as [|l q g w Hr IH Hg Hw]; intros l2 rest Ht.
  - exact Ht.
  - cbn [rev]. rewrite <- app_assoc. cbn [app].
    replace ((q ++ g ++ w) ++ rest) with (q ++ (g ++ w ++ rest)) by (rewrite !app_assoc; reflexivity).
    apply IH. apply tiles_cons; try assumption.
    rewrite !app_length in Ht. rewrite Nat.add_assoc in Ht. exact Ht.
Qed.

Lemma Inv_tiles : forall s p, Inv s p -> tiles 0 (spans (rev (toks s))) p.
Proof.
  intros s p (q & g & Hp & Hg & Hr & _). subst p.
  unfold spans. rewrite map_rev. fold (spans (toks s)).
  rewrite <- (app_nil_r (rev (spans (toks s)))).
  apply rt_tiles; [assumption | constructor; assumption].
Qed.

Lemma firstn_skipn_split : forall (u v : list N) k, (k <= length u)%nat ->
  firstn k (u ++ 0 :: v) = firstn k u /\ skipn k (u ++ 0 :: v) = skipn k u ++ 0 :: v.
Proof.
  intros u v k H. split.
  - rewrite firstn_app. replace (k - length u)%nat with 0%nat by lia. cbn [firstn]. apply app_nil_r.
  - rewrite skipn_app. replace (k - length u)%nat with 0%nat by lia. reflexivity.
Qed.

Lemma run_spec : forall fuel prev u v p s, ~ In 0 u -> Inv s p -> (length u < fuel)%nat ->
  exists l, run fuel prev (u ++ 0 :: v) (length p) s = F_done l /\ tiles 0 (spans l) (p ++ u).
Proof.
  induction fuel as [|f IH]; intros prev u v p s Hnu HI Hf; [lia|].
  cbn [run]. pose proof (step_spec prev u v p s Hnu HI) as Hs.
  destruct (step prev (u ++ 0 :: v) (length p) s) as [s'| |k s'].
  - destruct Hs as [-> HI']. exists (rev (toks s')). split; [reflexivity|].
    rewrite app_nil_r. apply Inv_tiles. assumption.
  - contradiction.
  - destruct Hs as [Hk HI'].
    destruct (firstn_skipn_split u v k ltac:(lia)) as [E1 E2]. rewrite E1 in HI'. rewrite E2.
    replace (length p + k)%nat with (length (p ++ firstn k u)) by (rewrite app_length, firstn_length; lia).
    destruct (IH (match k with O => prev | S j => Some (nth j (u ++ 0 :: v) 0) end)
                 (skipn k u) v (p ++ firstn k u) s') as (l & Hrun & Ht).
    + intro Hin. apply Hnu. rewrite <- (firstn_skipn k u). apply in_or_app. right. assumption.
    + assumption.
    + rewrite skipn_length. lia.
    + exists l. split; [assumption|]. rewrite <- app_assoc, firstn_skipn in Ht. exact Ht.
Qed.

(* the text before the first NUL *)
Fixpoint before_nul (s : list N) : list N :=
  match s with
  | [] => []
  | c :: tl => if c =? 0 then [] else c :: before_nul tl
  end.

Lemma before_nul_split : forall s pad, exists v, s ++ 0 :: pad = before_nul s ++ 0 :: v.
Proof.
  induction s as [|c tl IH]; intro pad; cbn [before_nul app].
  - exists pad. reflexivity.
  - destruct (c =? 0) eqn:E.
    + apply N.eqb_eq in E. subst c. exists (tl ++ 0 :: pad). reflexivity.
    + destruct (IH pad) as (v & Hv). exists v. cbn [app]. rewrite Hv. reflexivity.
Qed.

Lemma before_nul_no_nul : forall s, ~ In 0 (before_nul s).
Proof.
  induction s as [|c tl IH]; cbn [before_nul]; [intros []|].
  destruct (c =? 0) eqn:E; [intros []|]. intros [H | H]; [subst c; discriminate | contradiction].
Qed.

Lemma before_nul_length : forall s, (length (before_nul s) <= length s)%nat.
Proof.
  induction s as [|c tl IH]; cbn [before_nul length]; [lia|]. destruct (c =? 0); cbn [length]; lia.
Qed.

(* the main theorem *)
Lemma scan_tiles : forall s : list N,
  exists l, scan s = F_done l /\ tiles 0 (spans l) (before_nul s).
Proof.
  intro s. unfold scan. destruct sentinels_nonempty as (pad & ->).
  destruct (before_nul_split s pad) as (v & Hv). rewrite Hv.
  destruct (run_spec (length s + 1) None (before_nul s) v [] init (before_nul_no_nul s) Inv_init) as (l & Hr & Ht).
  - pose proof (before_nul_length s). lia.
  - exists l. split; assumption.
Qed.

(* readable consequences of [tiles] for the scanner's output *)
Lemma scan_consequences : forall s l, scan s = F_done l ->
  let s' := before_nul s in
  (* non-empty, in order, inside the text *)
  ordered 0 (spans l) (length s')
  (* every uncovered position holds U+EBAD *)
  /\ (forall i, (i < length s')%nat -> (forall t, In t l -> ~ (tstart t <= i < tstart t + tlen t)%nat) -> nth i s' 0 = EBAD)
  (* concatenating the spans gives the text, up to U+EBAD *)
  /\ filter nonebad (concat (map (slice s') (spans l))) = filter nonebad s'
  (* without U+EBAD: exactly contiguous from 0 to the end *)
  /\ (~ In EBAD s' -> contig 0 (spans l) (length s')).
Proof.
  intros s l Hs s'. destruct (scan_tiles s) as (l' & Hs' & Ht). rewrite Hs in Hs'. inversion Hs'; subst l'.
  fold s' in Ht. split; [exact (tiles_ordered _ _ _ Ht)|]. split.
  - intros i Hi Hno. apply (tiles_uncovered _ _ _ Ht i Hi). intros sp Hin Hspan.
    unfold spans in Hin. apply in_map_iff in Hin. destruct Hin as (t & <- & Hint).
    apply (Hno t Hint). unfold in_span in Hspan. cbn [fst snd Nat.add] in Hspan. exact Hspan.
  - split.
    + rewrite <- (tiles_concat _ _ _ Ht). f_equal. f_equal. apply map_ext. intros [a b].
      unfold slice, slice_rel. cbn [fst snd]. rewrite Nat.sub_0_r. reflexivity.
    + intro Hn. exact (tiles_contig _ _ _ Ht Hn).
Qed.
