(* C10/Tags.v — action tags attached to the generated rules of _uscan.re.  The translator
   (vt/gen/c10_rules.py) maps the whitespace-normalised text of every action body to one of
   these tags and refuses unknown bodies; coq/C10/Model.v gives each tag its semantics. *)
From Coq Require Import NArith.

Inductive act :=
| A_ret (ty : N)     (* {RET(t_xxx);}                                   found(t_xxx); return *)
| A_begin_table      (* _uscan.re:190  {++tablemode; RET(t_begin_table);} *)
| A_end_table        (* _uscan.re:191  {if (--tablemode<0) tablemode=0; RET(t_end_table);} *)
| A_bol_row          (* _uscan.re:193-201  tablemode ? t_row : (' ' ? rewind t_pre : t_text) *)
| A_bol_column       (* _uscan.re:204-215  tablemode ? rowchar:=cursor[-1], t_column : ... *)
| A_bol_caption      (* _uscan.re:218-226  tablemode ? t_tablecaption : ... *)
| A_section          (* _uscan.re:229-232  line_startswith_section = found(t_section) *)
| A_goto_notbol      (* _uscan.re:236  [^] {goto not_bol;} *)
| A_eq               (* _uscan.re:265-276  eol && section line ? t_section_end : t_text *)
| A_break            (* _uscan.re:277-287  newline(); t_newline(1 char) + t_break(rest) *)
| A_newline          (* _uscan.re:288  {newline(); RET(t_newline);} *)
| A_colsep           (* _uscan.re:289-298  "||" "|!" "!!" : t_column or rewind to 1 char t_special *)
| A_capsep           (* _uscan.re:299-305  "|+" : t_tablecaption or rewind to 1 char t_special *)
| A_end.             (* _uscan.re:315  {newline(); return t_end;} *)
