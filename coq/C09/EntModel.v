(* C09/EntModel.v -- executable model of the decoding applied to nowiki / pre bodies (no proofs here).

   core.py:1126 create_nowiki:  text = util.replace_html_entities(inner)
   core.py:1030 create_pre:     inner = util.replace_html_entities(util.remove_nowiki_tags(inner))
   util.py:234  replace_html_entities(txt) = re.sub(r"&[^;]*;", lambda mo: resolve_entity(mo.group(0)), txt)
   util.py:218  resolve_entity: modelled in coq/C01/Model.v (imported; its except clause and surrogate guard are
                regenerated from util.py into C01/Gen_resolve.v).

   re.sub, pattern "&" [^;]* ";" (no flags; [^;] matches every character but ";", newlines included): leftmost
   non-overlapping matches.  At a "&" the greedy [^;]* runs to the first ";" after it (it cannot skip one, and
   giving characters back never helps because the next pattern item is exactly ";"); if there is no ";" at all
   after this "&" there is no match here -- nor at any later "&".  A match may contain further "&". *)
From Coq Require Import List NArith ZArith Bool.
From MW Require Import Common.Str C01.Model.
Import ListNotations.
Open Scope N_scope.

Inductive eseg :=
| EPlain (c : N)          (* a character outside every match *)
| ERef (e : str).         (* a match "&" body ";" *)

Fixpoint upto_semi (s : str) : str * str :=      (* ([^;]*, rest) *)
  match s with
  | c :: s' => if c =? 59 then ([], s) else let (a, r) := upto_semi s' in (c :: a, r)
  | [] => ([], [])
  end.

(* `skip` = characters of the current match still to be consumed (structural recursion, no fuel) *)
(* body of a strict reference: "#" [0-9]+ | "#" [xX] [0-9a-fA-F]+ | [a-zA-Z0-9]+   (the pattern of the proposed fix,
   the same grammar as the scanner's `entity` rule) *)
Definition is_dec_digit (c : N) : bool := (48 <=? c) && (c <=? 57).
Definition is_hex_digit (c : N) : bool := is_dec_digit c || ((97 <=? c) && (c <=? 102)) || ((65 <=? c) && (c <=? 70)).
Definition is_alnum (c : N) : bool := is_dec_digit c || ((97 <=? c) && (c <=? 122)) || ((65 <=? c) && (c <=? 90)).
Definition nonempty_all (f : N -> bool) (s : str) : bool := match s with [] => false | _ => forallb f s end.
Definition strict_body (b : str) : bool :=
  match b with
  | 35 :: d =>
      match d with
      | x :: h => if (x =? 120) || (x =? 88) then nonempty_all is_hex_digit h else nonempty_all is_dec_digit d
      | [] => false
      end
  | _ => nonempty_all is_alnum b
  end.

(* `strict` = which pattern util.replace_html_entities uses (generated: Gen_tables.ent_strict):
     false: "&[^;]*;"                                        (the code as it is)
     true : "&(?:#[0-9]+|#[xX][0-9a-fA-F]+|[a-zA-Z0-9]+);"   (after fixes/C09-entity-lenient-int.diff)
   A strict match at a "&" ends at the first ";" after it (its body contains none), so it is the lenient span
   whenever that span's body has the strict shape, and there is no match at this "&" otherwise. *)
Fixpoint ent_segments_go (strict : bool) (s : str) (skip : nat) : list eseg :=
  match s with
  | [] => []
  | c :: s' =>
      match skip with
      | S n => ent_segments_go strict s' n
      | O =>
          if c =? 38 then
            let (body, rest) := upto_semi s' in
            match rest with
            | _ :: _ =>
                if negb strict || strict_body body
                then ERef (38 :: body ++ [59]) :: ent_segments_go strict s' (S (length body))
                else EPlain c :: ent_segments_go strict s' 0
            | [] => EPlain c :: ent_segments_go strict s' 0
            end
          else EPlain c :: ent_segments_go strict s' 0
      end
  end.
Definition ent_segments (strict : bool) (s : str) : list eseg := ent_segments_go strict s 0.

Definition eseg_src (x : eseg) : str := match x with EPlain c => [c] | ERef e => e end.

Section Decode.
  Variable resolve : str -> res str.        (* the callback; an exception propagates out of re.sub *)

  Fixpoint decode_segs (l : list eseg) : res str :=
    match l with
    | [] => Ok []
    | EPlain c :: l' => match decode_segs l' with Ok o => Ok (c :: o) | Raise x => Raise x end
    | ERef e :: l' =>
        match resolve e with
        | Raise x => Raise x
        | Ok r => match decode_segs l' with Ok o => Ok (r ++ o) | Raise x => Raise x end
        end
    end.

  Definition replace_html_entities (strict : bool) (s : str) : res str := decode_segs (ent_segments strict s).

  Definition eseg_out (x : eseg) : str :=
    match x with EPlain c => [c] | ERef e => match resolve e with Ok r => r | Raise _ => e end end.
End Decode.

(* ASCII digit strings: what an HTML numeric character reference may contain *)
Definition digit_string (base : Z) (s : str) : bool :=
  match s with [] => false | _ => forallb (if (base =? 16)%Z then is_hex_digit else is_dec_digit) s end.
