(* C09/TableProofs.v -- marker keys carry no information about the text: a marker must be looked up in ITS OWN table.

   Uniquifier.random_string is a class attribute (one value per process) and the counter is len(uniq2repl), so every
   Uniquifier of a process -- the article's, the one of the second expander ParseUniq.create_pages builds for the pages
   transcluded through <pages>, the one of a nested create_ref parse -- numbers its regions 0, 1, 2.. under the same
   random string.  Two tables therefore have EQUAL keys as soon as their regions have the same tag names in the same
   order, and looking a marker up in a foreign table silently yields the foreign region (or nothing). *)
From Coq Require Import List NArith Bool.
From MW Require Import Common.Str C09.Gen_tables C09.Model C09.Proofs C09.Proofs2.
Import ListNotations.
Open Scope N_scope.

Lemma markers_from_tags rand : forall es1 es2 k,
  map e_tag es1 = map e_tag es2 -> markers_from rand k es1 = markers_from rand k es2.
Proof.
  induction es1 as [|e1 es1 IH]; intros es2 k H; destruct es2 as [|e2 es2]; try discriminate; [reflexivity|].
  cbn [map] in H. inversion H as [[H1 H2]]. cbn [markers_from]. rewrite H1. f_equal. apply IH. exact H2.
Qed.

Lemma keys_depend_only_on_tags rand k t1 t2 :
  map e_tag (tag_entries (segments t1)) = map e_tag (tag_entries (segments t2)) ->
  map fst (snd (protect rand k t1)) = map fst (snd (protect rand k t2)).
Proof.
  intros H. destruct (body_verbatim rand k t1) as (_ & A1 & _). destruct (body_verbatim rand k t2) as (_ & A2 & _).
  rewrite A1, A2. apply markers_from_tags. exact H.
Qed.

(* article "<nowiki>''o''</nowiki>" and transcluded page "<nowiki>[[p]]</nowiki>": same keys; the page's protected text
   restored with the ARTICLE's table gives the article's body, with its own table its own body, with an empty table the
   raw marker. *)
Definition ex_article : list N := [60;110;111;119;105;107;105;62] ++ [39;39;111;39;39] ++ [60;47;110;111;119;105;107;105;62].
Definition ex_page : list N := [60;110;111;119;105;107;105;62] ++ [91;91;112;93;93] ++ [60;47;110;111;119;105;107;105;62].

Lemma foreign_table_example :
  map fst (snd (protect [48; 97] 0 ex_article)) = map fst (snd (protect [48; 97] 0 ex_page)) /\
  restore (snd (protect [48; 97] 0 ex_page)) (fst (protect [48; 97] 0 ex_page)) = [91;91;112;93;93] /\
  restore (snd (protect [48; 97] 0 ex_article)) (fst (protect [48; 97] 0 ex_page)) = [39;39;111;39;39] /\
  restore [] (fst (protect [48; 97] 0 ex_page)) = marker [48; 97] nowiki 0.
Proof. vm_compute. repeat split; reflexivity. Qed.
