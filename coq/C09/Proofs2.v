(* C09 -- markers, restore, round trip, inertness. *)
From Coq Require Import List NArith Bool Lia Arith PeanoNat Decimal DecimalN DecimalPos.
From MW Require Import Common.Str C09.Gen_tables C09.Model C09.Proofs.
Import ListNotations.
Open Scope N_scope.

Definition name_ok (n : list N) : Prop := n <> [] /\ forallb is_lower_alnum n = true.
Definition hex_ok (r : list N) : Prop := r <> [] /\ forallb is_hexlower r = true.

(* ------------------------------------------------------------------ obligations on the generated tables *)
Definition name_okb (n : list N) : bool := match n with [] => false | _ => forallb is_lower_alnum n end.
Lemma names_table_ok : forallb name_okb tag_names = true.
Proof. vm_compute. reflexivity. Qed.
Lemma ws_table_ok : forallb (fun r => (snd r <? 33) || (127 <? fst r)) ws_ranges = true.
Proof. vm_compute. reflexivity. Qed.
Lemma nd_table_ok : existsb (fun r => (fst r <=? 48) && (57 <=? snd r)) nd_ranges = true /\ is_nd 45 = false.
Proof. vm_compute. split; reflexivity. Qed.

Lemma name_okb_spec n : name_okb n = true -> name_ok n.
Proof. destruct n; cbn; [discriminate|]. intros H. split; [discriminate|exact H]. Qed.

Lemma tag_names_ok name : In name tag_names -> name_ok name.
Proof.
  intros I. apply name_okb_spec. pose proof names_table_ok as H.
  rewrite forallb_forall in H. apply H. exact I.
Qed.

Lemma is_ws_printable c : 33 <= c <= 127 -> is_ws c = false.
Proof.
  intros Hc. unfold is_ws, in_ranges. pose proof ws_table_ok as H. rewrite forallb_forall in H.
  destruct (existsb _ ws_ranges) eqn:E; [|reflexivity].
  apply existsb_exists in E as [r [I R]]. specialize (H r I).
  apply andb_true_iff in R as [R1 R2]. apply N.leb_le in R1, R2.
  apply orb_true_iff in H as [H|H]; apply N.ltb_lt in H; lia.
Qed.

Lemma is_digit_nd c : is_digit c = true -> is_nd c = true.
Proof.
  unfold is_digit. intros H. apply andb_true_iff in H as [H1 H2]. apply N.leb_le in H1, H2.
  destruct nd_table_ok as [E _]. apply existsb_exists in E as [r [I R]].
  apply andb_true_iff in R as [R1 R2]. apply N.leb_le in R1, R2.
  unfold is_nd, in_ranges. apply existsb_exists. exists r. split; [exact I|].
  apply andb_true_iff. split; apply N.leb_le; lia.
Qed.

(* ------------------------------------------------------------------ decimal rendering *)
Lemma digit_of_digits d : forallb is_digit (digit_of d) = true.
Proof. induction d; cbn; try reflexivity; exact IHd. Qed.

Lemma digit_of_inj d d' : digit_of d = digit_of d' -> d = d'.
Proof.
  revert d'; induction d; intros d' H; destruct d'; cbn in H; try discriminate; try reflexivity;
    inversion H as [H']; f_equal; apply IHd; exact H'.
Qed.

Lemma dec_nonnil k : dec k <> [].
Proof.
  unfold dec. destruct k as [|p]; [cbn; discriminate|].
  cbn [N.to_uint]. pose proof (Unsigned.to_uint_nonnil p) as H.
  destruct (Pos.to_uint p); [contradiction|..]; cbn; discriminate.
Qed.

Lemma dec_digits k : forallb is_digit (dec k) = true.
Proof. apply digit_of_digits. Qed.

Lemma dec_inj k k' : dec k = dec k' -> k = k'.
Proof. intros H. apply digit_of_inj in H. apply DecimalN.Unsigned.to_uint_inj. exact H. Qed.

(* ------------------------------------------------------------------ shape of markers *)
Lemma forallb_impl (f g : N -> bool) l : (forall c, f c = true -> g c = true) -> forallb f l = true -> forallb g l = true.
Proof.
  intros I H. rewrite forallb_forall in *. intros x Hx. apply I. apply H. exact Hx.
Qed.

Lemma marker_app rand name k rest :
  marker rand name k ++ rest = uniq_head ++ name ++ 45 :: dec k ++ 45 :: rand ++ qinu_tail ++ rest.
Proof. unfold marker. repeat (rewrite <- app_assoc || rewrite <- app_comm_cons). reflexivity. Qed.

Lemma run_dash_app f a r : a <> [] -> forallb f a = true -> f 45 = false -> run_dash f (a ++ 45 :: r) = Some (a, r).
Proof.
  intros NE Ha H45. unfold run_dash. rewrite (span_app f a 45 r Ha H45).
  destruct a; [contradiction|]. rewrite N.eqb_refl. reflexivity.
Qed.

Lemma uniq_shape_marker fa fb fc a b c rest :
  a <> [] -> b <> [] -> c <> [] ->
  forallb fa a = true -> forallb fb b = true -> forallb fc c = true ->
  fa 45 = false -> fb 45 = false -> fc 45 = false ->
  uniq_shape fa fb fc (uniq_head ++ a ++ 45 :: b ++ 45 :: c ++ qinu_tail ++ rest)
  = Some (uniq_head ++ a ++ 45 :: b ++ 45 :: c ++ qinu_tail, rest).
Proof.
  intros Na Nb Nc Ha Hb Hc Fa Fb Fc. unfold uniq_shape.
  rewrite strip_prefix_app.
  rewrite (run_dash_app fa a _ Na Ha Fa).
  rewrite (run_dash_app fb b _ Nb Hb Fb).
  change (qinu_tail ++ rest) with (45 :: ([81; 73; 78; 85; 127] ++ rest)).
  rewrite (span_app fc c 45 _ Hc Fc).
  destruct c; [contradiction|].
  change (45 :: [81; 73; 78; 85; 127] ++ rest) with (qinu_tail ++ rest).
  rewrite strip_prefix_app. reflexivity.
Qed.

Lemma uniq_at_marker rand name k rest :
  name_ok name -> hex_ok rand -> uniq_at (marker rand name k ++ rest) = Some (marker rand name k, rest).
Proof.
  intros [Nn Hn] [Nr Hr]. rewrite marker_app. unfold uniq_at.
  rewrite uniq_shape_marker; try assumption; try reflexivity.
  - apply dec_nonnil.
  - eapply forallb_impl; [apply is_digit_nd|apply dec_digits].
Qed.

Lemma t_uniq_at_marker rand name k rest :
  name_ok name -> hex_ok rand -> t_uniq_at (marker rand name k ++ rest) = Some (marker rand name k, rest).
Proof.
  intros [Nn Hn] [Nr Hr]. rewrite marker_app. unfold t_uniq_at.
  rewrite uniq_shape_marker; try assumption; try reflexivity.
  - apply dec_nonnil.
  - apply dec_digits.
Qed.

(* the two rules differ only in \d vs [0-9]: what t_uniq accepts, replace_uniq accepts *)

Lemma split_unique (x : N) a a' r r' :
  ~ In x a -> ~ In x a' -> a ++ x :: r = a' ++ x :: r' -> a = a' /\ r = r'.
Proof.
  revert a'; induction a as [|y a IH]; intros a' Ha Ha' E.
  - destruct a' as [|y' a']; cbn in E.
    + inversion E; auto.
    + inversion E; subst. exfalso. apply Ha'. left. reflexivity.
  - destruct a' as [|y' a']; cbn in E.
    + inversion E; subst. exfalso. apply Ha. left. reflexivity.
    + inversion E; subst. destruct (IH a') as [-> ->]; auto.
      * intros I. apply Ha. right. exact I.
      * intros I. apply Ha'. right. exact I.
Qed.

Lemma forallb_not_in (f : N -> bool) l x : forallb f l = true -> f x = false -> ~ In x l.
Proof. intros H Fx I. rewrite forallb_forall in H. rewrite (H x I) in Fx. discriminate. Qed.

Lemma marker_inj rand n k n' k' :
  name_ok n -> name_ok n' -> marker rand n k = marker rand n' k' -> n = n' /\ k = k'.
Proof.
  intros [_ Hn] [_ Hn'] E. unfold marker in E. apply app_inv_head in E.
  apply split_unique in E as [-> E].
  - split; [reflexivity|]. apply split_unique in E as [E _].
    + apply dec_inj. exact E.
    + eapply forallb_not_in; [apply dec_digits|reflexivity].
    + eapply forallb_not_in; [apply dec_digits|reflexivity].
  - eapply forallb_not_in; [exact Hn|reflexivity].
  - eapply forallb_not_in; [exact Hn'|reflexivity].
Qed.

(* ------------------------------------------------------------------ inertness *)
Definition inert_char (c : N) : Prop := is_split_special c = false /\ c <> 62 /\ is_ws c = false.

Lemma inert_range c : 33 <= c <= 127 -> is_split_special c = false -> c <> 62 -> inert_char c.
Proof. intros R S G. split; [exact S|]. split; [exact G|]. apply is_ws_printable. exact R. Qed.

Lemma lower_alnum_inert c : is_lower_alnum c = true -> inert_char c.
Proof.
  unfold is_lower_alnum. intros H.
  assert (R : 97 <= c <= 122 \/ 48 <= c <= 57).
  { apply orb_true_iff in H as [H|H]; apply andb_true_iff in H as [H1 H2]; apply N.leb_le in H1, H2; lia. }
  apply inert_range; [lia| |lia].
  unfold is_split_special.
  repeat (apply orb_false_iff; split); apply N.eqb_neq; lia.
Qed.

Lemma hexlower_lower_alnum c : is_hexlower c = true -> is_lower_alnum c = true.
Proof.
  unfold is_hexlower, is_lower_alnum. intros H.
  apply orb_true_iff in H as [H|H]; apply andb_true_iff in H as [H1 H2]; apply N.leb_le in H1, H2;
    apply orb_true_iff; [left|right]; apply andb_true_iff; split; apply N.leb_le; lia.
Qed.

Lemma digit_lower_alnum c : is_digit c = true -> is_lower_alnum c = true.
Proof. unfold is_digit, is_lower_alnum. intros H. rewrite H. apply orb_true_r. Qed.

Lemma Forall_forallb (P : N -> Prop) f l : (forall c, f c = true -> P c) -> forallb f l = true -> Forall P l.
Proof. intros I H. rewrite forallb_forall in H. apply Forall_forall. intros x Hx. apply I, H, Hx. Qed.

Lemma marker_inert rand name k : name_ok name -> hex_ok rand -> Forall inert_char (marker rand name k).
Proof.
  intros [_ Hn] [_ Hr]. unfold marker.
  assert (C : forall c, In c [127; 85; 78; 73; 81; 45] -> inert_char c).
  { intros c Hc. cbn in Hc.
    repeat (destruct Hc as [<-|Hc]; [apply inert_range; [lia|reflexivity|lia]|]). contradiction. }
  apply Forall_app. split; [apply Forall_forall; intros c Hc; apply C; cbn in *; tauto|].
  apply Forall_app. split; [eapply Forall_forallb; [apply lower_alnum_inert|exact Hn]|].
  constructor; [apply C; cbn; tauto|].
  apply Forall_app. split.
  { eapply Forall_forallb; [apply lower_alnum_inert|]. eapply forallb_impl; [apply digit_lower_alnum|apply dec_digits]. }
  constructor; [apply C; cbn; tauto|].
  apply Forall_app. split.
  { eapply Forall_forallb; [apply lower_alnum_inert|]. eapply forallb_impl; [apply hexlower_lower_alnum|exact Hr]. }
  apply Forall_forall; intros c Hc; apply C; cbn in *; tauto.
Qed.

(* a run of non-special characters is never cut by the last alternative of SPLIT_PATTERN *)
Lemma text_token_through a b :
  Forall (fun c => is_split_special c = false) a ->
  text_token (a ++ b) = (a ++ fst (text_token b), snd (text_token b)).
Proof.
  intros Ha. unfold text_token. induction a as [|c a IH]; cbn [List.app].
  - destruct (span _ b); reflexivity.
  - inversion Ha as [|? ? Hc Ha']; subst. cbn [span]. rewrite Hc. cbn [negb].
    rewrite (IH Ha'). reflexivity.
Qed.

Lemma lstrip_head c s : is_ws c = false -> lstrip (c :: s) = c :: s.
Proof. intros H. cbn [lstrip]. rewrite H. reflexivity. Qed.

Lemma marker_ends rand name k : exists mid, marker rand name k = 127 :: mid ++ [127].
Proof.
  unfold marker, uniq_head, qinu_tail.
  exists ([85; 78; 73; 81; 45] ++ name ++ 45 :: dec k ++ 45 :: rand ++ [45; 81; 73; 78; 85]).
  cbn [List.app]. f_equal. repeat (rewrite <- app_assoc || rewrite <- app_comm_cons). reflexivity.
Qed.

Lemma strip_marker rand name k : strip (marker rand name k) = marker rand name k.
Proof.
  destruct (marker_ends rand name k) as [mid ->]. unfold strip.
  assert (W : is_ws 127 = false) by (apply is_ws_printable; lia).
  rewrite (lstrip_head _ _ W).
  change (127 :: mid ++ [127]) with ((127 :: mid) ++ [127]).
  rewrite rev_app_distr. cbn [List.rev List.app]. rewrite (lstrip_head _ _ W).
  change (127 :: List.rev mid ++ [127]) with ([127] ++ (List.rev mid ++ [127])).
  rewrite rev_app_distr, rev_app_distr, rev_involutive. reflexivity.
Qed.

(* ------------------------------------------------------------------ restore over a protected text *)
Lemma restore_go_skip T a o : restore_go T (a ++ o) (length a) = restore_go T o 0.
Proof. induction a as [|c a IH]; [destruct o; reflexivity|]. cbn [List.app length restore_go]. exact IH. Qed.

Lemma uniq_at_head c s : c <> 127 -> uniq_at (c :: s) = None.
Proof.
  intros H. unfold uniq_at, uniq_shape, uniq_head. cbn [strip_prefix].
  destruct (N.eqb_spec 127 c) as [E|_]; [congruence|reflexivity].
Qed.

Lemma restore_go_plain T a o : ~ In 127 a -> restore_go T (a ++ o) 0 = a ++ restore_go T o 0.
Proof.
  induction a as [|c a IH]; intros H; [reflexivity|].
  cbn [List.app restore_go]. rewrite uniq_at_head by (intros ->; apply H; left; reflexivity).
  f_equal. apply IH. intros I. apply H. right. exact I.
Qed.

Lemma restore_go_marker T rand name k e o :
  name_ok name -> hex_ok rand -> lookup (marker rand name k) T = Some e ->
  restore_go T (marker rand name k ++ o) 0 = e_complete e ++ restore_go T o 0.
Proof.
  intros Hn Hr L. pose proof (uniq_at_marker rand name k o Hn Hr) as U.
  destruct (marker_ends rand name k) as [mid E].
  remember (marker rand name k) as mk. rewrite E in U |- *. cbn [List.app restore_go] in *.
  rewrite U. rewrite <- E, L. f_equal.
  rewrite E. cbn [length pred]. apply restore_go_skip.
Qed.

Definition seg_r_ok (x : seg) : Prop :=
  match x with
  | Plain c => c <> 127
  | Comment _ repl => ~ In 127 repl
  | Tag _ e => name_ok (e_tag e)
  end.

Fixpoint tbl_ok (T : list (list N * entry)) (rand : list N) (k : N) (l : list seg) : Prop :=
  match l with
  | [] => True
  | Tag _ e :: l' => lookup (marker rand (e_tag e) k) T = Some e /\ tbl_ok T rand (k + 1) l'
  | _ :: l' => tbl_ok T rand k l'
  end.

Lemma restore_protect_segs rand T : hex_ok rand -> forall segs k,
  Forall seg_r_ok segs -> tbl_ok T rand k segs ->
  restore_go T (fst (protect_segs rand k segs)) 0 = concat (map seg_restored segs).
Proof.
  intros Hr. induction segs as [|x segs IH]; intros k F TB; [reflexivity|].
  inversion F as [|? ? Hx F']; subst.
  destruct x as [c|src repl|src e]; cbn [protect_segs map concat seg_restored].
  - destruct (protect_segs rand k segs) as [o t] eqn:E. cbn [fst].
    change (c :: o) with ([c] ++ o). rewrite restore_go_plain.
    + cbn [List.app]. f_equal. specialize (IH k F' TB). rewrite E in IH. exact IH.
    + cbn in Hx. intros [I|[]]. congruence.
  - destruct (protect_segs rand k segs) as [o t] eqn:E. cbn [fst].
    rewrite restore_go_plain by exact Hx. f_equal.
    specialize (IH k F' TB). rewrite E in IH. exact IH.
  - destruct (protect_segs rand (k + 1) segs) as [o t] eqn:E. cbn [fst].
    destruct TB as [L TB]. rewrite (restore_go_marker T rand (e_tag e) k e o Hx Hr L). f_equal.
    specialize (IH (k + 1) F' TB). rewrite E in IH. exact IH.
Qed.

Lemma lookup_app_skip m T0 T :
  (forall key e, In (key, e) T0 -> key <> m) -> lookup m (T0 ++ T) = lookup m T.
Proof.
  induction T0 as [|[key e] T0 IH]; intros H; [reflexivity|]. cbn [List.app lookup].
  destruct (str_eqb key m) eqn:E.
  - apply str_eqb_spec in E. exfalso. eapply H; [left; reflexivity|exact E].
  - apply IH. intros key' e' I. eapply H. right. exact I.
Qed.

Definition keys_below (rand : list N) (k : N) (T0 : list (list N * entry)) : Prop :=
  forall key e, In (key, e) T0 -> exists n j, name_ok n /\ j < k /\ key = marker rand n j.

Lemma tbl_ok_self rand : forall segs k T0,
  keys_below rand k T0 -> Forall seg_r_ok segs ->
  tbl_ok (T0 ++ snd (protect_segs rand k segs)) rand k segs.
Proof.
  induction segs as [|x segs IH]; intros k T0 KB F; [exact I|].
  inversion F as [|? ? Hx F']; subst.
  destruct x as [c|src repl|src e]; cbn [protect_segs tbl_ok].
  - destruct (protect_segs rand k segs) as [o t] eqn:E. cbn [snd].
    specialize (IH k T0 KB F'). rewrite E in IH. exact IH.
  - destruct (protect_segs rand k segs) as [o t] eqn:E. cbn [snd].
    specialize (IH k T0 KB F'). rewrite E in IH. exact IH.
  - destruct (protect_segs rand (k + 1) segs) as [o t] eqn:E. cbn [snd]. split.
    + rewrite lookup_app_skip.
      * cbn [lookup]. rewrite str_eqb_refl. reflexivity.
      * intros key e' I Eq. destruct (KB key e' I) as [n [j [Hn [Hj ->]]]].
        apply marker_inj in Eq as [_ ->]; [lia|exact Hn|exact Hx].
    + specialize (IH (k + 1) (T0 ++ [(marker rand (e_tag e) k, e)])).
      rewrite E in IH. cbn [snd] in IH. rewrite <- app_assoc in IH. apply IH; [|exact F'].
      intros key e' I. apply in_app_or in I as [I|I].
      * destruct (KB key e' I) as [n [j [Hn [Hj ->]]]]. exists n, j. split; [exact Hn|]. split; [lia|reflexivity].
      * destruct I as [I|[]]. inversion I; subst. exists (e_tag e'), k. split; [exact Hx|]. split; [lia|reflexivity].
Qed.

(* ------------------------------------------------------------------ exotic code points *)
Definition exotic (c : N) : bool :=
  existsb (fun p => fst p =? c) fold_extra || existsb (fun p => fst p =? c) py_lower_extra.
Definition no_exotic (t : list N) : Prop := forallb (fun c => negb (exotic c)) t = true.

Lemma assocN_none {A} c (l : list (N * A)) : existsb (fun p => fst p =? c) l = false -> assocN c l = None.
Proof.
  induction l as [|[k v] l IH]; cbn; [reflexivity|]. intros H.
  apply orb_false_iff in H as [H1 H2]. rewrite H1. apply IH. exact H2.
Qed.

Lemma ci_lit_plain l c : exotic c = false -> ci_lit l c = true -> ascii_lower c = l /\ py_lower1 c = [l].
Proof.
  unfold exotic, ci_lit, py_lower1. intros X H. apply orb_false_iff in X as [X1 X2].
  rewrite (assocN_none c _ X2).
  assert (E : existsb (fun p => (fst p =? c) && (snd p =? l)) fold_extra = false).
  { destruct (existsb (fun p => (fst p =? c) && (snd p =? l)) fold_extra) eqn:E; [|reflexivity].
    apply existsb_exists in E as [p [I P]]. apply andb_true_iff in P as [P _].
    assert (Y : existsb (fun p => fst p =? c) fold_extra = true) by (apply existsb_exists; exists p; auto).
    congruence. }
  rewrite E, orb_false_r in H. apply N.eqb_eq in H. rewrite H. auto.
Qed.

Lemma py_lower_plain name m :
  Forall2 (fun l c => ci_lit l c = true) name m -> forallb (fun c => negb (exotic c)) m = true -> py_lower m = name.
Proof.
  induction 1 as [|l c name m L F IH]; intros X; [reflexivity|].
  cbn [forallb] in X. apply andb_true_iff in X as [Xc X]. apply negb_true_iff in Xc.
  unfold py_lower in *. cbn [flat_map]. destruct (ci_lit_plain l c Xc L) as [_ ->]. cbn [List.app]. f_equal. apply IH. exact X.
Qed.

Lemma forallb_incl (f : N -> bool) a b : incl a b -> forallb f b = true -> forallb f a = true.
Proof. intros I H. rewrite forallb_forall in *. intros x Hx. apply H, I, Hx. Qed.

Lemma seg_source_incl x l : In x l -> incl (seg_source x) (concat (map seg_source l)).
Proof.
  intros I c Hc. apply in_concat. exists (seg_source x). split; [apply in_map; exact I|exact Hc].
Qed.

Lemma tag_occurrence_incl name m vl inner whole : tag_occurrence name m vl inner whole -> incl m whole.
Proof.
  intros [_ [[-> _]|[cl [-> _]]]] c Hc; right; apply in_or_app; left; exact Hc.
Qed.

Lemma segments_r_ok t : ~ In 127 t -> no_exotic t -> Forall seg_r_ok (segments t).
Proof.
  intros H127 HX. pose proof (segments_ok t) as OK. pose proof (segments_tile t) as TL.
  apply Forall_forall. intros x Hx. rewrite Forall_forall in OK. specialize (OK x Hx).
  pose proof (seg_source_incl x _ Hx) as INC. rewrite TL in INC.
  destruct x as [c|src repl|src e]; cbn in *.
  - intros ->. apply H127. apply INC. left. reflexivity.
  - intros I. destruct (OK _ I) as [E|I']; [discriminate|]. apply H127, INC, I'.
  - destruct OK as [name [m [IN [OCC [ET _]]]]].
    assert (Xm : forallb (fun c => negb (exotic c)) m = true).
    { eapply forallb_incl; [|exact HX]. intros c Hc. apply INC. eapply tag_occurrence_incl; eauto. }
    destruct OCC as [F2 _]. rewrite ET, (py_lower_plain name m F2 Xm). apply tag_names_ok. exact IN.
Qed.

(* ------------------------------------------------------------------ the round trip *)
Lemma roundtrip rand k t :
  hex_ok rand -> ~ In 127 t -> no_exotic t ->
  concat (map seg_source (segments t)) = t /\
  restore (snd (protect rand k t)) (fst (protect rand k t)) = concat (map seg_restored (segments t)).
Proof.
  intros Hr H127 HX. split; [apply segments_tile|].
  unfold restore, protect. pose proof (segments_r_ok t H127 HX) as F.
  apply restore_protect_segs; [exact Hr|exact F|].
  apply (tbl_ok_self rand (segments t) k []); [|exact F]. intros key e [].
Qed.

(* lossless part: a segment restores to its own source unless it is a comment or a nowiki region *)
Definition seg_lossless (x : seg) : Prop :=
  match x with
  | Plain _ => True
  | Comment _ _ => False
  | Tag _ e => e_tag e <> nowiki
  end.

Lemma roundtrip_lossless rand k t :
  hex_ok rand -> ~ In 127 t -> no_exotic t -> Forall seg_lossless (segments t) ->
  restore (snd (protect rand k t)) (fst (protect rand k t)) = t.
Proof.
  intros Hr H127 HX LL. destruct (roundtrip rand k t Hr H127 HX) as [TL ->].
  rewrite <- TL at 2. f_equal. apply map_ext_in. intros x Hx.
  pose proof (segments_ok t) as OK. rewrite Forall_forall in OK, LL. specialize (OK x Hx). specialize (LL x Hx).
  destruct x as [c|src repl|src e]; cbn in *; [reflexivity|contradiction|].
  destruct OK as [_ [_ [_ [_ [_ EC]]]]]. rewrite EC.
  destruct (str_eqb (e_tag e) nowiki) eqn:E; [|reflexivity]. apply str_eqb_spec in E. contradiction.
Qed.

(* ------------------------------------------------------------------ the table: body verbatim *)
Fixpoint tag_entries (l : list seg) : list entry :=
  match l with [] => [] | Tag _ e :: l' => e :: tag_entries l' | _ :: l' => tag_entries l' end.
Fixpoint markers_from (rand : list N) (k : N) (es : list entry) : list (list N) :=
  match es with [] => [] | e :: es' => marker rand (e_tag e) k :: markers_from rand (k + 1) es' end.

Lemma protect_segs_table rand : forall l k,
  map snd (snd (protect_segs rand k l)) = tag_entries l /\
  map fst (snd (protect_segs rand k l)) = markers_from rand k (tag_entries l).
Proof.
  induction l as [|x l IH]; intros k; [split; reflexivity|].
  destruct x as [c|src repl|src e]; cbn [protect_segs tag_entries].
  - destruct (protect_segs rand k l) as [o t] eqn:E. specialize (IH k). rewrite E in IH. exact IH.
  - destruct (protect_segs rand k l) as [o t] eqn:E. specialize (IH k). rewrite E in IH. exact IH.
  - destruct (protect_segs rand (k + 1) l) as [o t] eqn:E. specialize (IH (k + 1)). rewrite E in IH.
    cbn [snd map fst markers_from] in *. destruct IH as [-> ->]. split; reflexivity.
Qed.

(* the occurrence in the source that a Tag segment stands for *)
Definition seg_verbatim (x : seg) : Prop :=
  match x with
  | Tag src e => exists name m, In name tag_names /\ tag_occurrence name m (e_vlist e) (e_inner e) src /\ e_tag e = py_lower m
  | _ => True
  end.

Lemma body_verbatim rand k t :
  map snd (snd (protect rand k t)) = tag_entries (segments t) /\
  map fst (snd (protect rand k t)) = markers_from rand k (tag_entries (segments t)) /\
  Forall seg_verbatim (segments t) /\
  concat (map seg_source (segments t)) = t.
Proof.
  unfold protect. destruct (protect_segs_table rand (segments t) k) as [A B].
  split; [exact A|]. split; [exact B|]. split; [|apply segments_tile].
  pose proof (segments_ok t) as OK. eapply Forall_impl; [|exact OK].
  intros x Hx. destruct x as [c|src repl|src e]; cbn in *; auto.
  destruct Hx as [name [m [I [O [E _]]]]]. exists name, m. auto.
Qed.

(* the protected text: plain characters in order, comment replacements, markers *)
Definition seg_protected (rand : list N) (x : seg * N) : list N :=
  match fst x with Plain c => [c] | Comment _ repl => repl | Tag _ e => marker rand (e_tag e) (snd x) end.

(* ------------------------------------------------------------------ markers of protect are well formed *)
Lemma protect_markers_ok rand k t :
  hex_ok rand -> ~ In 127 t -> no_exotic t ->
  Forall (fun ke => exists name j, In name tag_names /\ fst ke = marker rand name j) (snd (protect rand k t)).
Proof.
  intros Hr H127 HX. unfold protect.
  pose proof (segments_ok t) as OK. pose proof (segments_tile t) as TL.
  assert (G : forall l k, Forall seg_ok l -> (forall x, In x l -> incl (seg_source x) t) ->
              Forall (fun ke => exists name j, In name tag_names /\ fst ke = marker rand name j) (snd (protect_segs rand k l))).
  { induction l as [|x l IH]; intros k' F INC; [constructor|].
    inversion F as [|? ? Hx F']; subst.
    assert (INC' : forall y, In y l -> incl (seg_source y) t) by (intros y Hy; apply INC; right; exact Hy).
    destruct x as [c|src repl|src e]; cbn [protect_segs].
    - destruct (protect_segs rand k' l) as [o tb] eqn:E. specialize (IH k' F' INC'). rewrite E in IH. exact IH.
    - destruct (protect_segs rand k' l) as [o tb] eqn:E. specialize (IH k' F' INC'). rewrite E in IH. exact IH.
    - destruct (protect_segs rand (k' + 1) l) as [o tb] eqn:E. specialize (IH (k' + 1) F' INC'). rewrite E in IH.
      cbn [snd] in *. constructor; [|exact IH]. cbn [fst].
      destruct Hx as [name [m [IN [OCC [ET _]]]]].
      assert (Xm : forallb (fun c => negb (exotic c)) m = true).
      { eapply forallb_incl; [|exact HX]. intros c Hc. apply (INC (Tag src e)); [left; reflexivity|].
        cbn. eapply tag_occurrence_incl; eauto. }
      destruct OCC as [F2 _]. exists name, k'. split; [exact IN|]. rewrite ET, (py_lower_plain name m F2 Xm). reflexivity. }
  apply G; [exact OK|]. intros x Hx. rewrite <- TL at 1. apply seg_source_incl. exact Hx.
Qed.

(* ------------------------------------------------------------------ first characters of the other scanner rules *)
(* _uscan.re not_bol block, every rule except t_uniq and the catch-all dot: first characters
   0xEBAD, [ (urllink), m i n f h (mailto irc news ftp http), _ (magicword, underscores), alphanumerics,
   [[ ]] [ ] : | , = , LF , ! (for !!), apostrophe, < , & , NUL *)
Definition starts_other_rule (c : N) : bool :=
  (c =? 60333) || (c =? 91) || (c =? 93) || (c =? 95) || (c =? 61) || (c =? 10) || (c =? 124) || (c =? 33) ||
  (c =? 58) || (c =? 39) || (c =? 60) || (c =? 38) || (c =? 0) ||
  ((48 <=? c) && (c <=? 57)) || ((65 <=? c) && (c <=? 90)) || ((97 <=? c) && (c <=? 122)).
(* url = http s? :// followed by a non-empty run of the class excluding ] [ < > double-quote, 0x00-0x20 and 0x7F:
   the class that could otherwise run into a marker *)
Definition url_char (c : N) : bool :=
  negb ((c =? 93) || (c =? 91) || (c =? 60) || (c =? 62) || (c =? 34) || (c <=? 32) || (c =? 127)).

Lemma marker_atomic_partial rand name k :
  name_ok name -> hex_ok rand ->
  (forall rest, t_uniq_at (marker rand name k ++ rest) = Some (marker rand name k, rest)) /\
  (exists mid, marker rand name k = 127 :: mid ++ [127] /\ ~ In 127 mid) /\
  starts_other_rule 127 = false /\ url_char 127 = false.
Proof.
  intros Hn Hr. split; [intros rest; apply t_uniq_at_marker; assumption|].
  split; [|split; reflexivity].
  unfold marker, uniq_head, qinu_tail.
  exists ([85; 78; 73; 81; 45] ++ name ++ 45 :: dec k ++ 45 :: rand ++ [45; 81; 73; 78; 85]). split.
  - cbn [List.app]. f_equal. repeat (rewrite <- app_assoc || rewrite <- app_comm_cons). reflexivity.
  - destruct Hn as [_ Hn]. destruct Hr as [_ Hr].
    assert (A : ~ In 127 name) by (apply (forallb_not_in is_lower_alnum); [exact Hn|reflexivity]).
    assert (B : ~ In 127 (dec k)) by (apply (forallb_not_in is_digit); [apply dec_digits|reflexivity]).
    assert (C : ~ In 127 rand) by (apply (forallb_not_in is_hexlower); [exact Hr|reflexivity]).
    intros I. repeat (rewrite in_app_iff in I || cbn [In] in I). intuition discriminate.
Qed.
