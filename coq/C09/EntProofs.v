(* C09/EntProofs.v -- decoding of nowiki / pre bodies changes only character references. *)
From Coq Require Import List NArith ZArith Bool Lia Arith.
From MW Require Import Common.Str C01.Model C01.Proofs C01.Gen_resolve C01.ProofsGen C09.Gen_tables C09.EntModel.
Import ListNotations.
Open Scope N_scope.

Lemma upto_semi_spec : forall s a r, upto_semi s = (a, r) ->
  s = a ++ r /\ ~ In 59 a /\ match r with c :: _ => c = 59 | [] => True end.
Proof.
  induction s as [|c s IH]; intros a r H; cbn [upto_semi] in H.
  - inversion H; subst. split; [reflexivity|]. split; [intros []|exact I].
  - destruct (c =? 59) eqn:E.
    + inversion H; subst. apply N.eqb_eq in E. split; [reflexivity|]. split; [intros []|exact E].
    + destruct (upto_semi s) as [a' r'] eqn:E2. inversion H; subst.
      destruct (IH a' r eq_refl) as (A & B & C). split; [cbn [app]; f_equal; exact A|]. split; [|exact C].
      intros [I | I]; [subst c; rewrite N.eqb_refl in E; discriminate | exact (B I)].
Qed.

Lemma esg_skip st : forall a o, ent_segments_go st (a ++ o) (length a) = ent_segments_go st o 0.
Proof. induction a as [|x a IH]; intros o; [reflexivity|]. cbn [app length ent_segments_go]. apply IH. Qed.

Definition eseg_shape (x : eseg) : Prop :=
  match x with EPlain _ => True | ERef e => exists body, e = 38 :: body ++ [59] /\ ~ In 59 body end.

Lemma esg_spec st n : forall s, (length s <= n)%nat ->
  concat (map eseg_src (ent_segments_go st s 0)) = s /\ Forall eseg_shape (ent_segments_go st s 0).
Proof.
  induction n as [|n IH]; intros s Hl.
  - destruct s; [split; [reflexivity | constructor] | cbn in Hl; lia].
  - destruct s as [|c s']; [split; [reflexivity | constructor]|].
    cbn [length] in Hl. cbn [ent_segments_go].
    assert (P : concat (map eseg_src (EPlain c :: ent_segments_go st s' 0)) = c :: s'
                /\ Forall eseg_shape (EPlain c :: ent_segments_go st s' 0)).
    { destruct (IH s' ltac:(lia)) as [A B]. split; [cbn [map concat eseg_src app]; rewrite A; reflexivity|].
      constructor; [exact I | exact B]. }
    destruct (c =? 38) eqn:Ec; [|exact P]. apply N.eqb_eq in Ec. subst c.
    destruct (upto_semi s') as [body rest] eqn:Eu. destruct (upto_semi_spec _ _ _ Eu) as (Es & Hb & Hr).
    destruct rest as [|x r']; [exact P|]. subst x.
    destruct (negb st || strict_body body); [|exact P].
    assert (E2 : s' = (body ++ [59]) ++ r') by (rewrite <- app_assoc; exact Es).
    assert (L : S (length body) = length (body ++ [59])) by (rewrite app_length; cbn; lia).
    rewrite L. rewrite E2 at 1 3. rewrite esg_skip.
    destruct (IH r') as [A B].
    { rewrite E2, !app_length in Hl. cbn [length] in Hl. lia. }
    split.
    + cbn [map concat eseg_src]. rewrite A. rewrite E2. cbn [app]. rewrite <- !app_assoc. reflexivity.
    + constructor; [exists body; split; [reflexivity | exact Hb] | exact B].
Qed.

Lemma ent_segments_spec st s :
  concat (map eseg_src (ent_segments st s)) = s /\ Forall eseg_shape (ent_segments st s).
Proof. apply (esg_spec st (length s)). lia. Qed.

Lemma decode_segs_total resolve : forall l,
  Forall (fun x => match x with EPlain _ => True | ERef e => exists r, resolve e = Ok r end) l ->
  decode_segs resolve l = Ok (concat (map (eseg_out resolve) l)).
Proof.
  induction l as [|x l IH]; intros H; [reflexivity|]. inversion H as [|x' l' Hx Hl]; subst.
  specialize (IH Hl). destruct x as [c|e]; cbn [decode_segs map concat eseg_out].
  - rewrite IH. reflexivity.
  - destruct Hx as (r & ->). rewrite IH. reflexivity.
Qed.

(* ------------------------------------------------------------------ what resolve_entity can return *)
Section Resolve.
  Variable pyint : Z -> str -> option Z.
  Variable name2cp : str -> option Z.
  Let resolve := resolve_entity pyint name2cp caught_numeric surrogate_guard.

  (* e is decoded to the single character c: a numeric reference whose digits int() accepts, giving a code point
     chr() accepts (and, with the guard, not a surrogate); or a name of the table *)
  Definition decoded_ref (e : str) (c : N) : Prop :=
    (nth_error e 1 = Some 35 /\
     exists c2 base digits z,
       nth_error e 2 = Some c2 /\
       ((c2 = 120 \/ c2 = 88) /\ base = 16%Z /\ digits = slice_to_m1 3 e \/
        (c2 <> 120 /\ c2 <> 88) /\ base = 10%Z /\ digits = slice_to_m1 2 e) /\
       pyint base digits = Some z /\ chr_py surrogate_guard z = Ok c)
    \/ (nth_error e 1 <> Some 35 /\ exists z, name2cp (slice_to_m1 1 e) = Some z /\ chr_py false z = Ok c).

  Lemma int_then_chr_ok base d c : int_then_chr pyint surrogate_guard base d = Ok c ->
    exists z, pyint base d = Some z /\ chr_py surrogate_guard z = Ok c.
  Proof. unfold int_then_chr. destruct (pyint base d) as [z|]; [eauto | discriminate]. Qed.

  Lemma resolve_cases e r : resolve e = Ok r -> r = e \/ exists c, r = [c] /\ decoded_ref e c.
  Proof.
    unfold resolve, resolve_entity. destruct (nth_error e 1) as [c1|] eqn:E1; [|discriminate].
    destruct (N.eqb c1 35) eqn:Ec1.
    - apply N.eqb_eq in Ec1. subst c1.
      destruct (nth_error e 2) as [c2|] eqn:E2.
      + destruct (N.eqb c2 120 || N.eqb c2 88) eqn:Ex.
        * destruct (int_then_chr pyint surrogate_guard 16 (slice_to_m1 3 e)) as [c|x] eqn:Ei.
          -- intros H. inversion H; subst. right. exists c. split; [reflexivity|]. left. split; [exact E1|].
             destruct (int_then_chr_ok _ _ _ Ei) as (z & Hz & Hc).
             exists c2, 16%Z, (slice_to_m1 3 e), z. split; [exact E2|]. split; [|split; assumption].
             left. apply orb_true_iff in Ex. rewrite !N.eqb_eq in Ex. auto.
          -- destruct (caught_in caught_numeric x); intros H; inversion H; auto.
        * destruct (int_then_chr pyint surrogate_guard 10 (slice_to_m1 2 e)) as [c|x] eqn:Ei.
          -- intros H. inversion H; subst. right. exists c. split; [reflexivity|]. left. split; [exact E1|].
             destruct (int_then_chr_ok _ _ _ Ei) as (z & Hz & Hc).
             exists c2, 10%Z, (slice_to_m1 2 e), z. split; [exact E2|]. split; [|split; assumption].
             right. apply orb_false_iff in Ex. rewrite !N.eqb_neq in Ex. auto.
          -- destruct (caught_in caught_numeric x); intros H; inversion H; auto.
      + destruct (caught_in caught_numeric EIndex); intros H; inversion H; auto.
    - destruct (name2cp (slice_to_m1 1 e)) as [z|] eqn:En.
      + destruct (chr_py false z) as [c|x] eqn:Ech; [|discriminate].
        intros H. inversion H; subst. right. exists c. split; [reflexivity|]. right.
        split; [|eauto]. rewrite E1. intros Q. inversion Q; subst. rewrite N.eqb_refl in Ec1. discriminate.
      + intros H. inversion H; auto.
  Qed.

  Lemma chr_py_ok g z c : chr_py g z = Ok c ->
    (0 <= z < 1114112)%Z /\ c = Z.to_N z /\ (g = true -> ~ (55296 <= z <= 57343)%Z).
  Proof.
    unfold chr_py. destruct ((z <? -2147483648) || (z >? 2147483647))%Z eqn:A; [discriminate|].
    destruct ((z <? 0) || (z >=? 1114112))%Z eqn:B; [discriminate|].
    destruct (g && ((55296 <=? z) && (z <=? 57343))%Z) eqn:C; [discriminate|].
    intros H. inversion H; subst. split; [lia|]. split; [reflexivity|].
    intros ->. cbn [andb] in C. lia.
  Qed.

  Hypothesis name_range : forall s z, name2cp s = Some z -> (0 <= z < 1114112)%Z.

  Definition eseg_decoded (x : eseg) : Prop :=
    match x with
    | EPlain _ => True
    | ERef e => (exists body, e = 38 :: body ++ [59] /\ ~ In 59 body) /\
                exists r, resolve e = Ok r /\ (r = e \/ exists c, r = [c] /\ decoded_ref e c)
    end.

  (* replace_html_entities never raises; the text is tiled by plain characters and "&" [^;]* ";" spans; plain
     characters are copied; a span is either copied unchanged or replaced by ONE character, and then it is a
     numeric reference accepted by int()+chr() or a name of html.entities *)
  Lemma decode_only_refs st txt :
    let segs := ent_segments st txt in
    concat (map eseg_src segs) = txt /\
    replace_html_entities resolve st txt = Ok (concat (map (eseg_out resolve) segs)) /\
    Forall eseg_decoded segs.
  Proof.
    intros segs. destruct (ent_segments_spec st txt) as [A B]. split; [exact A|].
    assert (D : Forall eseg_decoded segs).
    { eapply Forall_impl; [|exact B]. intros [c|e] H; [exact I|]. cbn [eseg_shape] in H. split; [exact H|].
      destruct H as (body & -> & _).
      destruct (resolve_entity_total_gen pyint name2cp name_range body) as (r & Hr). fold resolve in Hr.
      exists r. split; [exact Hr | exact (resolve_cases _ _ Hr)]. }
    split; [|exact D]. unfold replace_html_entities. apply decode_segs_total.
    eapply Forall_impl; [|exact D]. intros [c|e] H; [exact I|]. destruct H as (_ & r & Hr & _). eauto.
  Qed.

  (* text without "&", or without ";" : unchanged *)
  Lemma decode_no_amp st txt : ~ In 38 txt -> replace_html_entities resolve st txt = Ok txt.
  Proof.
    intros H. unfold replace_html_entities, ent_segments.
    assert (E : ent_segments_go st txt 0 = map EPlain txt).
    { induction txt as [|c t IH]; [reflexivity|]. cbn [ent_segments_go map].
      destruct (c =? 38) eqn:Ec; [apply N.eqb_eq in Ec; subst; exfalso; apply H; left; reflexivity|].
      rewrite IH; [reflexivity|]. intros I0. apply H. right. exact I0. }
    rewrite E. clear E H. induction txt as [|c t IH]; [reflexivity|]. cbn [map decode_segs]. rewrite IH. reflexivity.
  Qed.
End Resolve.

(* With an int() that accepts only non-empty ASCII digit strings of the base (what the proposed fix
   C09-entity-lenient-int.diff guarantees by validating the digits before calling int), every span that changes is a
   VALID character reference: "&#" [0-9]+ ";", "&#" [xX] [0-9a-fA-F]+ ";" with a code point in range (no surrogate
   when the guard is on), or "&" name ";" with name in html.entities. *)
Definition pyint_strict (pyint : Z -> str -> option Z) : Prop :=
  forall base s z, base = 10%Z \/ base = 16%Z -> pyint base s = Some z -> digit_string base s = true.

Lemma decoded_ref_strict pyint name2cp e c : pyint_strict pyint ->
  decoded_ref pyint name2cp e c ->
  (exists base digits z, nth_error e 1 = Some 35 /\ digit_string base digits = true /\ pyint base digits = Some z /\
                         (0 <= z < 1114112)%Z /\ c = Z.to_N z /\ (surrogate_guard = true -> ~ (55296 <= z <= 57343)%Z) /\
                         (base = 16%Z /\ digits = slice_to_m1 3 e \/ base = 10%Z /\ digits = slice_to_m1 2 e))
  \/ (exists z, name2cp (slice_to_m1 1 e) = Some z /\ c = Z.to_N z).
Proof.
  intros Hs [(H1 & c2 & base & digits & z & H2 & Hb & Hp & Hc) | (H1 & z & Hn & Hc)].
  - left. destruct (chr_py_ok _ _ _ Hc) as (R & Ec & G).
    assert (Hbase : base = 10%Z \/ base = 16%Z) by (destruct Hb as [(_ & -> & _) | (_ & -> & _)]; auto).
    exists base, digits, z.
    split; [exact H1|]. split; [exact (Hs _ _ _ Hbase Hp)|]. split; [exact Hp|]. split; [exact R|].
    split; [exact Ec|]. split; [exact G|].
    destruct Hb as [(_ & -> & ->) | (_ & -> & ->)]; [left | right]; split; reflexivity.
  - right. destruct (chr_py_ok _ _ _ Hc) as (_ & Ec & _). eauto.
Qed.

(* CPython's int() is NOT strict ("+65", " 65", "6_5", "0x41" under base 16, non-ASCII digits are accepted): with
   any int() that parses "+65" as 65 -- CPython does, the check's harness exercises it -- the string "&#+65;",
   which is not a character reference, is decoded to "A".  (Defect of util.resolve_entity, reported.) *)
Lemma lenient_int_decodes_non_reference pyint name2cp :
  pyint 10%Z [43; 54; 53] = Some 65%Z ->
  replace_html_entities (resolve_entity pyint name2cp caught_numeric surrogate_guard) false [38; 35; 43; 54; 53; 59] = Ok [65]
  /\ replace_html_entities (resolve_entity pyint name2cp caught_numeric surrogate_guard) true [38; 35; 43; 54; 53; 59]
     = Ok [38; 35; 43; 54; 53; 59]
  /\ digit_string 10 [43; 54; 53] = false.
Proof.
  intros H. split; [|split; [vm_compute; reflexivity | reflexivity]].
  unfold replace_html_entities, ent_segments. cbn [ent_segments_go N.eqb Pos.eqb upto_semi app length decode_segs negb orb].
  unfold resolve_entity. cbn [nth_error N.eqb Pos.eqb orb]. unfold int_then_chr, slice_to_m1.
  cbn [length Nat.sub skipn firstn]. rewrite H. vm_compute. reflexivity.
Qed.

(* non-vacuity: "a&amp;&#65;&bogus;&#x41" with int() = ascii_int and a one-entry name table *)
Definition ex_names (s : str) : option Z := if str_eqb s [97; 109; 112] then Some 38%Z else None.

Lemma digits_val_digits base : forall s acc z, digits_val base acc s = Some z ->
  forallb (fun c => match digit_val c with Some d => (d <? base)%Z | None => false end) s = true.
Proof.
  induction s as [|x s IH]; intros acc z H; [reflexivity|]. cbn [digits_val forallb] in *.
  destruct (digit_val x) as [d|]; [|discriminate]. destruct (d <? base)%Z; [|discriminate].
  cbn [andb]. eapply IH. exact H.
Qed.

Lemma ascii_int_strict : pyint_strict ascii_int.
Proof.
  intros base s z Hb H. unfold ascii_int in H. destruct s as [|c s]; [discriminate|].
  unfold digit_string. pose proof (digits_val_digits _ _ _ _ H) as F.
  rewrite forallb_forall in F. apply forallb_forall. intros x Hx. specialize (F x Hx).
  unfold digit_val in F.
  destruct Hb as [-> | ->]; cbn [Z.eqb Pos.eqb]; unfold is_hex_digit, is_dec_digit.
  - destruct ((48 <=? x) && (x <=? 57)) eqn:A; [reflexivity|]. exfalso.
    destruct ((97 <=? x) && (x <=? 102)) eqn:B.
    + apply andb_true_iff in B. destruct B as [B1 B2]. apply N.leb_le in B1. apply Z.ltb_lt in F. lia.
    + destruct ((65 <=? x) && (x <=? 70)) eqn:C; [|discriminate].
      apply andb_true_iff in C. destruct C as [C1 C2]. apply N.leb_le in C1. apply Z.ltb_lt in F. lia.
  - destruct ((48 <=? x) && (x <=? 57)) eqn:A; [reflexivity|].
    destruct ((97 <=? x) && (x <=? 102)) eqn:B; [reflexivity|].
    destruct ((65 <=? x) && (x <=? 70)) eqn:C; [reflexivity | discriminate].
Qed.

Lemma decode_example :
  replace_html_entities (resolve_entity ascii_int ex_names caught_numeric surrogate_guard) ent_strict
    [97; 38; 97; 109; 112; 59; 38; 35; 54; 53; 59; 38; 98; 111; 103; 117; 115; 59; 38; 35; 120; 52; 49]
  = Ok [97; 38; 65; 38; 98; 111; 103; 117; 115; 59; 38; 35; 120; 52; 49]
  /\ pyint_strict ascii_int /\ (forall s z, ex_names s = Some z -> (0 <= z < 1114112)%Z).
Proof.
  split; [vm_compute; reflexivity|]. split; [exact ascii_int_strict|].
  intros s z H. unfold ex_names in H. destruct (str_eqb s [97; 109; 112]); inversion H. lia.
Qed.
