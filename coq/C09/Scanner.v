(* C09/Scanner.v -- composition of the marker format (C09/Model.v: get_uniq) with the wikitext scanner
   model of C10 (C10/Regex.v, Gen_rules.v regenerated from _uscan.re, Model.v: re2c longest match,
   earliest rule on ties, hand-transcribed actions).

   Part 1 (this file): rule selection.
     - the t_uniq rule of the GENERATED table is r_uniq (obligation, by computation on the table);
     - r_uniq matches a marker in full and nothing longer or shorter at that position;
     - at a marker every other rule of the main block matches at most one character, every rule of the
       begin-of-line block falls through ([^] goto not_bol): best_match picks t_uniq with the marker's length;
     - no rule other than html tag / comment (first character "<") and t_uniq itself (first character 0x7f)
       can run ACROSS the first character of a marker. *)
From Coq Require Import List NArith Bool Lia Arith.
From MW Require Import Common.Str C09.Gen_tables C09.Model C09.Proofs C09.Proofs2.
From MW Require Import C10.Regex C10.Tags C10.Gen_rules C10.Model C10.Tiles C10.Proofs.
Import ListNotations.
Open Scope N_scope.

(* ------------------------------------------------------------------ the rule, as generated *)
Definition k_alnum : cls := Cls false [(97, 122); (48, 57)].
Definition k_dig : cls := Cls false [(48, 57)].
Definition k_hex : cls := Cls false [(48, 57); (97, 102)].
Definition r_uniq_tail : re :=
  Cat (str [85; 78; 73; 81; 45]) (Cat (plus (Chr k_alnum)) (Cat (str [45]) (Cat (plus (Chr k_dig)) (Cat (str [45])
    (Cat (plus (Chr k_hex)) (Cat (str [45; 81; 73; 78; 85]) (str [127]))))))).
Definition r_uniq : re := Cat (str [127]) r_uniq_tail.

Definition is_uniq_act (a : act) : bool := match a with A_ret ty => ty =? t_uniq | _ => false end.

Fixpoint split_uniq (rules : list (re * act)) : option (list (re * act) * re * list (re * act)) :=
  match rules with
  | [] => None
  | (r, a) :: tl =>
      if is_uniq_act a then Some ([], r, tl)
      else match split_uniq tl with Some (p, r', q) => Some ((r, a) :: p, r', q) | None => None end
  end.

Lemma split_uniq_spec : forall rules p r q, split_uniq rules = Some (p, r, q) -> rules = p ++ (r, A_ret t_uniq) :: q.
Proof.
  induction rules as [|[r0 a0] tl IH]; intros p r q H; cbn [split_uniq] in H; [discriminate|].
  destruct (is_uniq_act a0) eqn:E.
  - inversion H; subst. destruct a0; try discriminate E. cbn [is_uniq_act] in E. apply N.eqb_eq in E. subst. reflexivity.
  - destruct (split_uniq tl) as [[[p' r'] q']|] eqn:E2; [|discriminate]. inversion H; subst.
    cbn [app]. f_equal. apply IH. reflexivity.
Qed.

Definition main_pre : list (re * act) := match split_uniq main_rules with Some (p, _, _) => p | None => [] end.
Definition main_post : list (re * act) := match split_uniq main_rules with Some (_, _, q) => q | None => [] end.

(* OBLIGATION on the generated table: the main block has a t_uniq rule and it is r_uniq *)
Lemma main_split : split_uniq main_rules = Some (main_pre, r_uniq, main_post).
Proof. vm_compute. reflexivity. Qed.

Lemma main_rules_eq : main_rules = main_pre ++ (r_uniq, A_ret t_uniq) :: main_post.
Proof. apply split_uniq_spec. exact main_split. Qed.

(* every match of r starts with the character c (and is non-empty) *)
Fixpoint first_only (c : N) (r : re) : bool :=
  match r with
  | Chr k => cls_eqb k (Cls false [(c, c)])
  | Cat a _ => first_only c a
  | Alt a b => first_only c a && first_only c b
  | _ => false
  end.

Lemma first_only_spec : forall c r w, first_only c r = true -> matches r w -> exists w', w = c :: w'.
Proof.
  intros c r w H M. induction M; cbn [first_only] in H; try discriminate.
  - apply cls_eqb_eq in H. subst k. apply cls_mem_chr in H0. subst. eauto.
  - destruct (IHM1 H) as (w' & ->). cbn [app]. eauto.
  - apply andb_true_iff in H. destruct H. auto.
  - apply andb_true_iff in H. destruct H. auto.
Qed.

(* a rule other than t_uniq, looked at from a position holding 0x7f: no match, or one character *)
Definition short127 (ra : re * act) : bool :=
  let r := fst ra in
  (avoids 127 r && negb (nullable r)) || is_single r || first_only 60 r.

(* OBLIGATIONS on the generated tables *)
Lemma main_others_short : forallb short127 (main_pre ++ main_post) = true.
Proof. vm_compute. reflexivity. Qed.

Lemma bol_falls_through :
  forallb (fun ra => (avoids 127 (fst ra) && negb (nullable (fst ra))) || is_single (fst ra)) bol_rules = true
  /\ best_match bol_rules [127] = Some (A_goto_notbol, 1%nat).
Proof. vm_compute. split; reflexivity. Qed.

(* a rule that may run across a 0x7f: only the html tag / comment rules (every match is "<" x ">" with no ">" in x),
   the t_uniq rule (first character 0x7f) and single characters *)
Fixpoint ends_sent (c : N) (r : re) : bool :=
  match r with
  | Cat a b => avoids c a && ends_sent c b
  | _ => re_eqb r (chr c)
  end.

Definition cross_ok (ra : re * act) : bool :=
  let r := fst ra in avoids 127 r || is_single r || (first_only 60 r && ends_sent 62 r) || first_only 127 r.

Lemma rules_cross_ok : forallb cross_ok main_rules = true /\ forallb cross_ok bol_rules = true.
Proof. vm_compute. split; reflexivity. Qed.

(* ------------------------------------------------------------------ building matches *)
Lemma cls_mem_self c : cls_mem c (Cls false [(c, c)]) = true.
Proof. unfold cls_mem. cbn [cneg crs Regex.in_ranges]. rewrite N.leb_refl. reflexivity. Qed.

Lemma matches_chr c : matches (chr c) [c].
Proof. constructor. apply cls_mem_self. Qed.

Lemma matches_str : forall l, matches (str l) l.
Proof.
  induction l as [|c tl IH]; [constructor|].
  destruct tl as [|d tl]; [apply matches_chr|].
  change (c :: d :: tl) with ([c] ++ d :: tl). change (str (c :: d :: tl)) with (Cat (chr c) (str (d :: tl))).
  constructor; [apply matches_chr | exact IH].
Qed.

Lemma matches_star_cls k : forall w, (forall c, In c w -> cls_mem c k = true) -> matches (Star (Chr k)) w.
Proof.
  induction w as [|c w IH]; intros H; [constructor|].
  change (c :: w) with ([c] ++ w). constructor; [discriminate | constructor; apply H; left; reflexivity |].
  apply IH. intros d Hd. apply H. right. exact Hd.
Qed.

Lemma matches_plus_cls k w : w <> [] -> (forall c, In c w -> cls_mem c k = true) -> matches (plus (Chr k)) w.
Proof.
  intros Hw H. destruct w as [|c w]; [contradiction|].
  change (c :: w) with ([c] ++ w). unfold plus. constructor.
  - constructor. apply H. left. reflexivity.
  - apply matches_star_cls. intros d Hd. apply H. right. exact Hd.
Qed.

Lemma alnum_cls c : is_lower_alnum c = true -> cls_mem c k_alnum = true.
Proof.
  unfold is_lower_alnum, cls_mem, k_alnum. cbn [cneg crs Regex.in_ranges xorb]. rewrite orb_false_r. intros ->. reflexivity.
Qed.
Lemma dig_cls c : is_digit c = true -> cls_mem c k_dig = true.
Proof. unfold is_digit, cls_mem, k_dig. cbn [cneg crs Regex.in_ranges xorb]. rewrite orb_false_r. intros ->. reflexivity. Qed.
Lemma hex_cls c : is_hexlower c = true -> cls_mem c k_hex = true.
Proof.
  unfold is_hexlower, cls_mem, k_hex. cbn [cneg crs Regex.in_ranges xorb]. rewrite orb_false_r, orb_comm. intros ->. reflexivity.
Qed.

Lemma forallb_In (f : N -> bool) l : forallb f l = true -> forall c, In c l -> f c = true.
Proof. intros H c Hc. rewrite forallb_forall in H. auto. Qed.

Lemma marker_shape rand name k :
  marker rand name k = [127] ++ [85; 78; 73; 81; 45] ++ name ++ [45] ++ dec k ++ [45] ++ rand ++ [45; 81; 73; 78; 85] ++ [127].
Proof.
  unfold marker, uniq_head, qinu_tail. cbn [app]. reflexivity.
Qed.

Lemma r_uniq_matches_marker rand name k : name_ok name -> hex_ok rand -> matches r_uniq (marker rand name k).
Proof.
  intros [Hn1 Hn2] [Hr1 Hr2]. rewrite marker_shape. unfold r_uniq, r_uniq_tail.
  constructor; [apply matches_str|].
  constructor; [apply matches_str|].
  constructor; [apply matches_plus_cls; [exact Hn1 | intros c Hc; apply alnum_cls; exact (forallb_In _ _ Hn2 c Hc)]|].
  constructor; [apply matches_str|].
  constructor; [apply matches_plus_cls; [apply dec_nonnil | intros c Hc; apply dig_cls; exact (forallb_In _ _ (dec_digits k) c Hc)]|].
  constructor; [apply matches_str|].
  constructor; [apply matches_plus_cls; [exact Hr1 | intros c Hc; apply hex_cls; exact (forallb_In _ _ Hr2 c Hc)]|].
  constructor; apply matches_str.
Qed.

(* ------------------------------------------------------------------ every match of r_uniq is 0x7f mid 0x7f, mid free of 0x7f *)
Lemma ends_sent_spec c : forall r w, ends_sent c r = true -> matches r w -> exists mid, w = mid ++ [c] /\ ~ In c mid.
Proof.
  induction r; intros w H M; cbn [ends_sent] in H; try (apply re_eqb_eq in H; try discriminate H).
  - inversion H; subst. apply matches_chr_inv in M. destruct M as (d & -> & Hd). apply cls_mem_chr in Hd. subst.
    exists []. split; [reflexivity | intros []].
  - apply andb_true_iff in H. destruct H as [Ha Hb].
    apply cat_inv in M. destruct M as (u & v & -> & Mu & Mv).
    destruct (IHr2 v Hb Mv) as (mid & -> & Hm).
    exists (u ++ mid). split; [rewrite app_assoc; reflexivity|].
    intro I. apply in_app_or in I. destruct I as [I | I]; [exact (avoids_matches _ _ _ Ha Mu I) | exact (Hm I)].
Qed.

Lemma r_uniq_tail_ends : ends_sent 127 r_uniq_tail = true.
Proof. vm_compute. reflexivity. Qed.

Lemma r_uniq_match_shape w : matches r_uniq w -> exists mid, w = 127 :: mid ++ [127] /\ ~ In 127 mid.
Proof.
  intros M. unfold r_uniq in M. apply cat_inv in M. destruct M as (u & v & -> & Mu & Mv).
  change (str [127]) with (chr 127) in Mu. apply matches_chr_inv in Mu. destruct Mu as (d & -> & Hd).
  apply cls_mem_chr in Hd. subst d.
  destruct (ends_sent_spec 127 _ _ r_uniq_tail_ends Mv) as (mid & -> & Hm). exists mid. split; [reflexivity | exact Hm].
Qed.

Lemma marker_mid rand name k : name_ok name -> hex_ok rand ->
  exists mid, marker rand name k = 127 :: mid ++ [127] /\ ~ In 127 mid.
Proof. intros Hn Hr. destruct (marker_atomic_partial rand name k Hn Hr) as (_ & H & _). exact H. Qed.

Lemma firstn_app_exact {A} (a b : list A) : firstn (length a) (a ++ b) = a.
Proof. rewrite firstn_app, Nat.sub_diag, firstn_all. cbn [firstn]. apply app_nil_r. Qed.

(* the rule matches exactly the marker, whatever follows *)
Lemma r_uniq_longest rand name k rest : name_ok name -> hex_ok rand ->
  longest_match r_uniq (marker rand name k ++ rest) = Some (length (marker rand name k)).
Proof.
  intros Hn Hr. set (m := marker rand name k).
  destruct (longest_match_complete r_uniq (m ++ rest) (length m)) as (n & Hl & Hge).
  - rewrite app_length. lia.
  - rewrite firstn_app_exact. apply r_uniq_matches_marker; assumption.
  - rewrite Hl. f_equal.
    destruct (Nat.eq_dec n (length m)) as [E | Hne]; [exact E|]. exfalso.
    assert (Hgt : (length m < n)%nat) by lia.
    destruct (longest_match_sound _ _ _ Hl) as (Hle & Hm & _).
    destruct (r_uniq_match_shape _ Hm) as (mid' & E' & Hm').
    destruct (marker_mid rand name k Hn Hr) as (mid & Em & Hmid). fold m in Em.
    (* firstn n (m ++ rest) = m ++ x with x non-empty *)
    rewrite firstn_app in E'. rewrite firstn_all2 in E' by lia.
    remember (firstn (n - length m) rest) as x eqn:Ex.
    assert (Hx : x <> []).
    { intro Hx0. assert (L : length x = (n - length m)%nat).
      { subst x. rewrite firstn_length. rewrite app_length in Hle. lia. }
      rewrite Hx0 in L. cbn [length] in L. lia. }
    rewrite Em in E'. cbn [app] in E'. inversion E' as [E2]. clear E'.
    rewrite <- app_assoc in E2. cbn [app] in E2.
    (* mid ++ 127 :: x = mid' ++ [127] *)
    destruct (split_unique 127 mid mid' x [] Hmid Hm' E2) as [_ Hxn]. exact (Hx Hxn).
Qed.

(* ------------------------------------------------------------------ rule selection *)
Lemma best_match_ge : forall rules s r a n, In (r, a) rules -> longest_match r s = Some n ->
  exists a' n', best_match rules s = Some (a', n') /\ (n <= n')%nat.
Proof.
  induction rules as [|[r0 a0] tl IH]; intros s r a n Hin Hl; [contradiction|].
  cbn [best_match]. destruct Hin as [E | Hin].
  - inversion E; subst. rewrite Hl. destruct (best_match tl s) as [[a' n']|].
    + destruct (n' <=? n)%nat eqn:C; [eauto|]. apply Nat.leb_gt in C. exists a', n'. split; [reflexivity | lia].
    + eauto.
  - destruct (IH s r a n Hin Hl) as (a' & n' & E & Hge). rewrite E.
    destruct (longest_match r0 s) as [m|].
    + destruct (n' <=? m)%nat eqn:C; [|eauto]. apply Nat.leb_le in C. exists a0, m. split; [reflexivity | lia].
    + eauto.
Qed.

Lemma best_match_winner : forall pre post r a s n,
  longest_match r s = Some n ->
  (forall r' a' n', In (r', a') (pre ++ post) -> longest_match r' s = Some n' -> (n' < n)%nat) ->
  best_match (pre ++ (r, a) :: post) s = Some (a, n).
Proof.
  intros pre post r a s n Hl Hothers.
  destruct (best_match_ge (pre ++ (r, a) :: post) s r a n) as (a' & n' & E & Hge).
  - apply in_or_app. right. left. reflexivity.
  - exact Hl.
  - rewrite E. destruct (best_match_in _ _ _ _ E) as (r' & Hin & Hl').
    apply in_app_or in Hin. destruct Hin as [Hin | [Heq | Hin]].
    + specialize (Hothers r' a' n' (in_or_app _ _ _ (or_introl Hin)) Hl'). lia.
    + inversion Heq; subst. rewrite Hl in Hl'. inversion Hl'; subst. reflexivity.
    + specialize (Hothers r' a' n' (in_or_app _ _ _ (or_intror Hin)) Hl'). lia.
Qed.

Lemma short127_le1 r a tl n : short127 (r, a) = true -> longest_match r (127 :: tl) = Some n -> (n <= 1)%nat.
Proof.
  unfold short127. cbn [fst]. intros H Hl.
  apply orb_true_iff in H. destruct H as [H | H]; [apply orb_true_iff in H; destruct H as [H | H]|].
  - apply andb_true_iff in H. destruct H as [Ha Hn]. apply negb_true_iff in Hn.
    rewrite (avoids_head_none 127 r tl Ha Hn) in Hl. discriminate.
  - apply is_single_inv in H. destruct H as (k & ->). apply longest_match_chr in Hl. lia.
  - destruct (longest_match_sound _ _ _ Hl) as (_ & Hm & _).
    destruct (first_only_spec 60 r _ H Hm) as (w' & E).
    destruct n; [lia|]. cbn [firstn] in E. inversion E.
Qed.

Lemma forallb_in' (f : re * act -> bool) rules x : forallb f rules = true -> In x rules -> f x = true.
Proof. intros H Hin. rewrite forallb_forall in H. auto. Qed.

(* main block at a marker: t_uniq, the whole marker *)
Theorem main_at_marker rand name k rest : name_ok name -> hex_ok rand ->
  best_match main_rules (marker rand name k ++ rest) = Some (A_ret t_uniq, length (marker rand name k)).
Proof.
  intros Hn Hr. rewrite main_rules_eq. apply best_match_winner.
  - apply r_uniq_longest; assumption.
  - intros r' a' n' Hin Hl.
    destruct (marker_mid rand name k Hn Hr) as (mid & Em & _). rewrite Em in *. cbn [app] in Hl.
    pose proof (short127_le1 r' a' _ n' (forallb_in' _ _ _ main_others_short Hin) Hl) as Hle.
    cbn [length]. rewrite app_length. cbn [length]. lia.
Qed.

(* begin-of-line block at a marker: falls through to the main block *)
Theorem bol_at_marker rand name k rest : name_ok name -> hex_ok rand ->
  best_match bol_rules (marker rand name k ++ rest) = Some (A_goto_notbol, 1%nat).
Proof.
  intros Hn Hr. destruct (marker_mid rand name k Hn Hr) as (mid & Em & _). rewrite Em. cbn [app].
  destruct bol_falls_through as [Hall Hb]. rewrite <- Hb. apply best_match_ext.
  intros r a Hin. pose proof (forallb_in' _ _ _ Hall Hin) as H. cbn [fst] in H.
  apply orb_true_iff in H. destruct H as [H | H].
  - apply andb_true_iff in H. destruct H as [Ha Hnn]. apply negb_true_iff in Hnn.
    rewrite !avoids_head_none by assumption. reflexivity.
  - apply is_single_inv in H. destruct H as (kk & ->). rewrite !longest_match_chr_eq. reflexivity.
Qed.

(* ------------------------------------------------------------------ no rule runs across the first character of a marker *)
(* a stretch of text in front of a marker: no NUL, no 0x7f, and every "<" is followed by a ">" inside the stretch *)
Fixpoint clear (u : list N) : Prop :=
  match u with
  | [] => True
  | c :: u' => c <> 0 /\ c <> 127 /\ (c = 60 -> In 62 u') /\ clear u'
  end.

Lemma firstn_no_c_le c : forall (u v : list N) n, ~ In c (firstn n (u ++ c :: v)) -> (n <= length u)%nat.
Proof.
  induction u as [|x u IH]; intros v n H.
  - destruct n; [cbn; lia|]. exfalso. apply H. cbn. left. reflexivity.
  - destruct n; [cbn; lia|]. cbn [app firstn length] in *. apply le_n_S. apply (IH v).
    intro I. apply H. right. exact I.
Qed.

Lemma in_split_first (x : N) : forall l, In x l -> exists a b, l = a ++ x :: b /\ ~ In x a.
Proof.
  induction l as [|y l IH]; intros H; [contradiction|].
  destruct (N.eq_dec y x) as [-> | Hne].
  - exists [], l. split; [reflexivity | intros []].
  - destruct H as [H | H]; [contradiction|]. destruct (IH H) as (a & b & -> & Ha).
    exists (y :: a), b. split; [reflexivity|]. intros [I | I]; [contradiction | exact (Ha I)].
Qed.

Lemma no_crossing rules u w a n :
  forallb cross_ok rules = true -> u <> [] -> clear u ->
  best_match rules (u ++ 127 :: w) = Some (a, n) -> (n <= length u)%nat.
Proof.
  intros Hall Hu Hc Hb. destruct (best_match_in _ _ _ _ Hb) as (r & Hin & Hl).
  pose proof (forallb_in' _ _ _ Hall Hin) as H. unfold cross_ok in H. cbn [fst] in H.
  destruct u as [|c u0]; [contradiction|]. destruct Hc as (H0 & H127 & H60 & Hc').
  assert (first_case : forall d, first_only d r = true -> (0 < n)%nat -> c = d).
  { intros d Hf Hpos. destruct (longest_match_sound _ _ _ Hl) as (_ & Hm & _).
    destruct (first_only_spec d r _ Hf Hm) as (w' & E).
    destruct n as [|n]; [lia|]. cbn [app firstn] in E. inversion E. reflexivity. }
  apply orb_true_iff in H. destruct H as [H | H]; [apply orb_true_iff in H; destruct H as [H | H];
                                                   [apply orb_true_iff in H; destruct H as [H | H]|]|].
  - apply (firstn_no_c_le 127 _ w). apply (longest_match_avoids 127 r _ _ H Hl).
  - apply is_single_inv in H. destruct H as (k & ->). apply longest_match_chr in Hl. destruct Hl as [-> _]. cbn [length]. lia.
  - apply andb_true_iff in H. destruct H as [Hf He].
    destruct (le_lt_dec n (length (c :: u0))) as [Hle | Hgt]; [exact Hle|]. exfalso.
    assert (Hpos : (0 < n)%nat) by (cbn [length] in Hgt; lia).
    pose proof (first_case 60 Hf Hpos) as Ec. specialize (H60 Ec).
    destruct (longest_match_sound _ _ _ Hl) as (_ & Hm & _).
    destruct (ends_sent_spec 62 r _ He Hm) as (mid & Emid & Hmid).
    rewrite firstn_app in Emid. rewrite firstn_all2 in Emid by lia.
    destruct (n - length (c :: u0))%nat as [|d] eqn:Ed; [lia|]. cbn [firstn] in Emid.
    destruct (in_split_first 62 u0 H60) as (a1 & b1 & Eu & Ha1).
    rewrite Eu in Emid. subst c.
    assert (Ha : ~ In 62 (60 :: a1)) by (intros [I | I]; [discriminate I | exact (Ha1 I)]).
    change (mid ++ [62]) with (mid ++ 62 :: []) in Emid.
    replace ((60 :: a1 ++ 62 :: b1) ++ 127 :: firstn d w) with ((60 :: a1) ++ 62 :: (b1 ++ 127 :: firstn d w)) in Emid
      by (cbn [app]; rewrite <- app_assoc; reflexivity).
    destruct (split_unique 62 (60 :: a1) mid (b1 ++ 127 :: firstn d w) [] Ha Hmid Emid) as [_ Hnil].
    destruct b1; discriminate Hnil.
  - destruct (le_lt_dec n (length (c :: u0))) as [Hle | Hgt]; [exact Hle|]. exfalso.
    assert (Hpos : (0 < n)%nat) by (cbn [length] in Hgt; lia).
    exact (H127 (first_case 127 H Hpos)).
Qed.
