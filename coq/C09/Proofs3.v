(* C09 -- statements assembled for Properties.v *)
From Coq Require Import List NArith Bool Lia.
From MW Require Import Common.Str C09.Gen_tables C09.Model C09.Proofs C09.Proofs2.
Import ListNotations.
Open Scope N_scope.

(* counters as get_uniq hands them out: one per Tag segment *)
Fixpoint numbered (k : N) (l : list seg) : list (seg * N) :=
  match l with
  | [] => []
  | Tag s e :: l' => (Tag s e, k) :: numbered (k + 1) l'
  | x :: l' => (x, k) :: numbered k l'
  end.

Lemma protect_text rand : forall l k,
  fst (protect_segs rand k l) = concat (map (seg_protected rand) (numbered k l)).
Proof.
  induction l as [|x l IH]; intros k; [reflexivity|].
  destruct x as [c|src repl|src e]; cbn [protect_segs numbered map concat].
  - destruct (protect_segs rand k l) as [o t] eqn:E. specialize (IH k). rewrite E in IH. cbn [fst] in *. rewrite IH. reflexivity.
  - destruct (protect_segs rand k l) as [o t] eqn:E. specialize (IH k). rewrite E in IH. cbn [fst] in *. rewrite IH. reflexivity.
  - destruct (protect_segs rand (k + 1) l) as [o t] eqn:E. specialize (IH (k + 1)). rewrite E in IH. cbn [fst] in *. rewrite IH. reflexivity.
Qed.

Lemma roundtrip_full rand k t :
  hex_ok rand -> ~ In 127 t -> no_exotic t ->
  let segs := segments t in
  concat (map seg_source segs) = t /\
  fst (protect rand k t) = concat (map (seg_protected rand) (numbered k segs)) /\
  restore (snd (protect rand k t)) (fst (protect rand k t)) = concat (map seg_restored segs) /\
  Forall (fun x => match x with
                   | Plain _ => True
                   | Comment src repl => forall c, In c repl -> c = 10 \/ In c src
                   | Tag src e => e_complete e = if str_eqb (e_tag e) nowiki then e_inner e else src
                   end) segs.
Proof.
  intros Hr H127 HX segs. destruct (roundtrip rand k t Hr H127 HX) as [A B].
  split; [exact A|]. split; [apply protect_text|]. split; [exact B|].
  pose proof (segments_ok t) as OK. eapply Forall_impl; [|exact OK].
  intros x Hx. destruct x as [c|src repl|src e]; cbn in *; auto.
  destruct Hx as [_ [_ [_ [_ [_ E]]]]]. exact E.
Qed.

Lemma marker_inert_templ rand name k :
  name_ok name -> hex_ok rand ->
  let m := marker rand name k in
  Forall inert_char m /\
  (forall a b, Forall (fun c => is_split_special c = false) a ->
               text_token (a ++ m ++ b) = (a ++ m ++ fst (text_token b), snd (text_token b))) /\
  strip m = m /\ (forall x, lstrip (m ++ x) = m ++ x).
Proof.
  intros Hn Hr m. pose proof (marker_inert rand name k Hn Hr) as I. split; [exact I|]. split; [|split].
  - intros a b Ha. rewrite app_assoc, text_token_through.
    + rewrite <- app_assoc. reflexivity.
    + apply Forall_app. split; [exact Ha|]. eapply Forall_impl; [|exact I]. intros c [H _]. exact H.
  - apply strip_marker.
  - intros x. subst m. destruct (marker_ends rand name k) as [mid ->]. cbn [List.app].
    apply lstrip_head. apply is_ws_printable. lia.
Qed.

(* holds for the code as it is (fold_extra non-empty); after the proposed fix (ASCII-only folding of tag
   names) the generated fold_extra is empty and the first disjunct holds instead *)
Lemma roundtrip_nonascii_fold_refuted :
  fold_extra = [] \/
  exists t, ~ In 127 t /\ In 127 (restore (snd (protect [97] 0 t)) (fst (protect [97] 0 t))).
Proof.
  first
    [ left; reflexivity
    | right; exists [60; 383; 111; 117; 114; 99; 101; 62; 120; 60; 47; 383; 111; 117; 114; 99; 101; 62];
      split; [intros I; cbn in I; intuition discriminate | vm_compute; left; reflexivity] ].
Qed.

(* non-vacuity: "a\n<!--c-->\nb<nowiki>''x''</nowiki><MATH a=1>y</math >z" with rand = "0a", counter 7 *)
Definition ex_text : list N :=
  [97; 10; 60; 33; 45; 45; 99; 45; 45; 62; 10; 98;
   60; 110; 111; 119; 105; 107; 105; 62; 39; 39; 120; 39; 39; 60; 47; 110; 111; 119; 105; 107; 105; 62;
   60; 77; 65; 84; 72; 32; 97; 61; 49; 62; 121; 60; 47; 109; 97; 116; 104; 32; 62; 122].

Lemma example_run :
  hex_ok [48; 97] /\ ~ In 127 ex_text /\ no_exotic ex_text /\
  fst (protect [48; 97] 7 ex_text)
  = [97; 10; 98] ++ marker [48; 97] [110; 111; 119; 105; 107; 105] 7 ++ marker [48; 97] [109; 97; 116; 104] 8 ++ [122] /\
  map (fun ke => (e_tag (snd ke), e_vlist (snd ke), e_inner (snd ke))) (snd (protect [48; 97] 7 ex_text))
  = [([110; 111; 119; 105; 107; 105], [], [39; 39; 120; 39; 39]); ([109; 97; 116; 104], [32; 97; 61; 49], [121])] /\
  restore (snd (protect [48; 97] 7 ex_text)) (fst (protect [48; 97] 7 ex_text))
  = [97; 10; 98; 39; 39; 120; 39; 39; 60; 77; 65; 84; 72; 32; 97; 61; 49; 62; 121; 60; 47; 109; 97; 116; 104; 32; 62; 122].
Proof.
  split; [split; [discriminate|reflexivity]|].
  split; [intros I; cbn in I; intuition discriminate|].
  split; [vm_compute; reflexivity|].
  split; [vm_compute; reflexivity|].
  split; vm_compute; reflexivity.
Qed.
