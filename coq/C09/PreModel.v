(* C09/PreModel.v -- executable model of what ParseUniq.create_pre / create_nowiki do to a body (no proofs here).

   core.py create_nowiki:  text  = util.replace_html_entities(inner)
   core.py create_pre:     inner = util.replace_html_entities(util.remove_nowiki_tags(inner))
                           (the ORDER is pinned by vt/gen/c09_tables.py: nowiki pairs are looked for in the body AS WRITTEN,
                            entities are decoded last and what they produce is never looked at again)
   util.py remove_nowiki_tags(txt, _rx=re.compile("<nowiki>(.*?)</nowiki>", re.IGNORECASE | re.DOTALL)):
                           return _rx.sub(lambda mo: mo.group(1), txt)

   re.sub: leftmost non-overlapping matches.  At a position where "<nowiki>" matches case-insensitively the lazy
   (.*?) (DOTALL: any character) extends to the FIRST case-insensitive "</nowiki>" after it; if there is none, there is
   no match at this position (nor at any later one that needs a closing tag).  IGNORECASE on a str pattern is Unicode
   aware: the non-ASCII code points that fold onto n, o, w, i, k are tabulated from the running CPython into
   Gen_tables.nowiki_fold_extra (U+0130, U+0131 for i; U+212A for k).  "<", "/", ">" match only themselves. *)
From Coq Require Import List NArith ZArith Bool.
From MW Require Import Common.Str C01.Model C09.Gen_tables C09.Model C09.EntModel.
Import ListNotations.
Open Scope N_scope.

(* pattern character l (lower-case ASCII letter, or one of < / >) against input character c under re.IGNORECASE *)
Definition ci_lit_u (l c : N) : bool :=
  (ascii_lower c =? l) || existsb (fun p => (fst p =? c) && (snd p =? l)) nowiki_fold_extra.

(* (matched text, rest) *)
Fixpoint ci_prefix_u (pat s : str) : option (str * str) :=
  match pat, s with
  | [], _ => Some ([], s)
  | l :: pat', c :: s' =>
      if ci_lit_u l c then
        match ci_prefix_u pat' s' with Some (m, r) => Some (c :: m, r) | None => None end
      else None
  | _ :: _, [] => None
  end.

Definition open_pat : str := [60; 110; 111; 119; 105; 107; 105; 62].          (* <nowiki> *)
Definition close_pat : str := [60; 47; 110; 111; 119; 105; 107; 105; 62].     (* </nowiki> *)

(* first case-insensitive occurrence of pat: (text before it, matched text, rest) *)
Fixpoint find_ci (pat s : str) {struct s} : option (str * str * str) :=
  match ci_prefix_u pat s with
  | Some (m, r) => Some ([], m, r)
  | None =>
      match s with
      | [] => None
      | c :: s' => match find_ci pat s' with Some (b, m, r) => Some (c :: b, m, r) | None => None end
      end
  end.

Inductive nseg :=
| NPlain (c : N)                   (* a character outside every match *)
| NPair (op inner cl : str).       (* a match: op ~ "<nowiki>", inner, cl ~ "</nowiki>" *)

(* `skip` = characters of the current match still to be consumed (structural recursion, no fuel) *)
Fixpoint nsegments_go (s : str) (skip : nat) : list nseg :=
  match s with
  | [] => []
  | c :: s' =>
      match skip with
      | S n => nsegments_go s' n
      | O =>
          match ci_prefix_u open_pat (c :: s') with
          | Some (op, r) =>
              match find_ci close_pat r with
              | Some (inner, cl, _) =>
                  NPair op inner cl :: nsegments_go s' (Nat.pred (length (op ++ inner ++ cl)))
              | None => NPlain c :: nsegments_go s' 0
              end
          | None => NPlain c :: nsegments_go s' 0
          end
      end
  end.
Definition nsegments (s : str) : list nseg := nsegments_go s 0.

Definition nseg_src (x : nseg) : str := match x with NPlain c => [c] | NPair op inner cl => op ++ inner ++ cl end.
Definition nseg_out (x : nseg) : str := match x with NPlain c => [c] | NPair _ inner _ => inner end.

Definition remove_nowiki_tags (s : str) : str := concat (map nseg_out (nsegments s)).

Section Bodies.
  Variable resolve : str -> res str.
  Variable strict : bool.
  Definition create_nowiki_text (inner : str) : res str := replace_html_entities resolve strict inner.
  Definition create_pre_text (inner : str) : res str := replace_html_entities resolve strict (remove_nowiki_tags inner).
End Bodies.
