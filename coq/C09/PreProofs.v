(* C09/PreProofs.v -- <pre> bodies: only nowiki pairs WRITTEN in the body are dropped; what entity decoding produces stays. *)
From Coq Require Import List NArith ZArith Bool Lia Arith.
From MW Require Import Common.Str C01.Model C01.Gen_resolve C09.Gen_tables C09.Model C09.EntModel C09.EntProofs C09.PreModel.
Import ListNotations.
Open Scope N_scope.

Lemma ci_prefix_u_spec : forall pat s m r, ci_prefix_u pat s = Some (m, r) ->
  s = m ++ r /\ length m = length pat /\ Forall2 (fun l c => ci_lit_u l c = true) pat m.
Proof.
  induction pat as [|l pat IH]; intros s m r H.
  - destruct s; cbn in H; inversion H; subst; repeat split; constructor.
  - destruct s as [|c s']; [discriminate|]. cbn [ci_prefix_u] in H.
    destruct (ci_lit_u l c) eqn:E; [|discriminate].
    destruct (ci_prefix_u pat s') as [[m' r']|] eqn:E2; [|discriminate].
    inversion H; subst. destruct (IH _ _ _ E2) as (A & B & C).
    split; [cbn [app]; f_equal; exact A|]. split; [cbn [length]; f_equal; exact B|].
    constructor; assumption.
Qed.

Lemma find_ci_spec : forall pat s b m r, find_ci pat s = Some (b, m, r) ->
  s = b ++ m ++ r /\ length m = length pat /\ Forall2 (fun l c => ci_lit_u l c = true) pat m.
Proof.
  intros pat. induction s as [|c s IH]; intros b m r H.
  - cbn [find_ci] in H. destruct (ci_prefix_u pat []) as [[m' r']|] eqn:E; [|discriminate].
    inversion H; subst. exact (ci_prefix_u_spec _ _ _ _ E).
  - cbn [find_ci] in H. destruct (ci_prefix_u pat (c :: s)) as [[m' r']|] eqn:E.
    + inversion H; subst. exact (ci_prefix_u_spec _ _ _ _ E).
    + destruct (find_ci pat s) as [[[b' m'] r']|] eqn:E2; [|discriminate].
      inversion H; subst. destruct (IH _ _ _ eq_refl) as (A & B & C).
      split; [cbn [app]; f_equal; exact A|]. split; assumption.
Qed.

Lemma nsg_skip : forall a o, nsegments_go (a ++ o) (length a) = nsegments_go o 0.
Proof. induction a as [|x a IH]; intros o; [reflexivity|]. cbn [app length nsegments_go]. apply IH. Qed.

(* a match: its opening / closing parts are "<nowiki>" / "</nowiki>" up to letter case *)
Definition nseg_shape (x : nseg) : Prop :=
  match x with
  | NPlain _ => True
  | NPair op _ cl => Forall2 (fun l c => ci_lit_u l c = true) open_pat op /\ Forall2 (fun l c => ci_lit_u l c = true) close_pat cl
  end.

Lemma nsg_spec n : forall s, (length s <= n)%nat ->
  concat (map nseg_src (nsegments_go s 0)) = s /\ Forall nseg_shape (nsegments_go s 0).
Proof.
  induction n as [|n IH]; intros s Hl.
  - destruct s; [split; [reflexivity | constructor] | cbn in Hl; lia].
  - destruct s as [|c s']; [split; [reflexivity | constructor]|].
    cbn [length] in Hl. cbn [nsegments_go].
    assert (P : concat (map nseg_src (NPlain c :: nsegments_go s' 0)) = c :: s'
                /\ Forall nseg_shape (NPlain c :: nsegments_go s' 0)).
    { destruct (IH s' ltac:(lia)) as [A B]. split; [cbn [map concat nseg_src app]; rewrite A; reflexivity|].
      constructor; [exact I | exact B]. }
    destruct (ci_prefix_u open_pat (c :: s')) as [[op r]|] eqn:Eo; [|exact P].
    destruct (find_ci close_pat r) as [[[inner cl] rest]|] eqn:Ec; [|exact P].
    destruct (ci_prefix_u_spec _ _ _ _ Eo) as (A1 & L1 & F1).
    destruct (find_ci_spec _ _ _ _ _ Ec) as (A2 & L2 & F2).
    assert (Ew : c :: s' = (op ++ inner ++ cl) ++ rest) by (rewrite A1, A2, <- !app_assoc; reflexivity).
    destruct (op ++ inner ++ cl) as [|x w] eqn:Ew2.
    { destruct op; [cbn in L1; discriminate | cbn in Ew2; discriminate]. }
    cbn [app] in Ew. inversion Ew; subst x. cbn [length Nat.pred].
    rewrite nsg_skip.
    destruct (IH rest) as [A B].
    { subst s'. rewrite app_length in Hl. lia. }
    split.
    + cbn [map concat nseg_src]. rewrite A. rewrite Ew2. reflexivity.
    + constructor; [split; assumption | exact B].
Qed.

(* (1) remove_nowiki_tags tiles the text AS WRITTEN: plain characters are copied, in order; the only thing dropped is the
   opening and the closing part of a pair, each of which is "<nowiki>" / "</nowiki>" up to case, literally present. *)
Lemma remove_nowiki_tiles s :
  concat (map nseg_src (nsegments s)) = s /\
  remove_nowiki_tags s = concat (map nseg_out (nsegments s)) /\
  Forall nseg_shape (nsegments s).
Proof.
  destruct (nsg_spec (length s) s (le_n _)) as [A B]. split; [exact A|]. split; [reflexivity | exact B].
Qed.

(* finite obligation on the generated fold table: no non-ASCII code point folds onto "<" *)
Lemma fold_table_no_lt : forallb (fun p => negb (snd p =? 60)) nowiki_fold_extra = true.
Proof. vm_compute. reflexivity. Qed.

Lemma ci_lit_u_lt c : ci_lit_u 60 c = true -> c = 60.
Proof.
  unfold ci_lit_u. intros H. apply orb_true_iff in H. destruct H as [H | H].
  - apply N.eqb_eq in H. unfold ascii_lower in H. destruct (is_upper_ascii c) eqn:E; [|exact H].
    unfold is_upper_ascii in E. apply andb_true_iff in E. destruct E as [E1 E2].
    apply N.leb_le in E1. apply N.leb_le in E2. lia.
  - exfalso. apply existsb_exists in H. destruct H as (p & Hin & Hp).
    apply andb_true_iff in Hp. destruct Hp as [_ Hp].
    pose proof fold_table_no_lt as T. rewrite forallb_forall in T. specialize (T p Hin).
    rewrite Hp in T. discriminate.
Qed.

Lemma nsegments_no_lt : forall s, ~ In 60 s -> nsegments_go s 0 = map NPlain s.
Proof.
  induction s as [|c s IH]; intros H; [reflexivity|].
  cbn [nsegments_go map].
  assert (Hc : c <> 60) by (intros E; apply H; left; exact E).
  assert (Hs : ~ In 60 s) by (intros E; apply H; right; exact E).
  destruct (ci_prefix_u open_pat (c :: s)) as [[op r]|] eqn:Eo.
  - exfalso. unfold open_pat in Eo. cbn [ci_prefix_u] in Eo.
    destruct (ci_lit_u 60 c) eqn:E; [|discriminate]. apply Hc. exact (ci_lit_u_lt c E).
  - rewrite (IH Hs). reflexivity.
Qed.

(* (2) a body without a literal "<" loses nothing *)
Lemma remove_nowiki_no_lt s : ~ In 60 s -> remove_nowiki_tags s = s.
Proof.
  intros H. unfold remove_nowiki_tags, nsegments. rewrite (nsegments_no_lt s H).
  induction s as [|c s IH]; [reflexivity|]. cbn [map concat nseg_out app]. f_equal. apply IH.
  intros E. apply H. right. exact E.
Qed.

(* (3) <pre>: the body is processed in this order -- pairs written in the body, then ONE decoding pass.  For a body without
   a literal "<" (all its markup-looking content is written with character references) the result is exactly the decoding of
   the body: whatever the references decode to -- "<nowiki>", "</NOWIKI>", "[[", "{{" .. -- is in the output, not removed. *)
Lemma pre_entity_written_kept resolve strict b :
  ~ In 60 b -> create_pre_text resolve strict b = create_nowiki_text resolve strict b.
Proof. intros H. unfold create_pre_text, create_nowiki_text. rewrite (remove_nowiki_no_lt b H). reflexivity. Qed.

(* names used by the examples: lt gt amp *)
Definition ex_names3 (s : str) : option Z :=
  if str_eqb s [108; 116] then Some 60%Z else if str_eqb s [103; 116] then Some 62%Z
  else if str_eqb s [97; 109; 112] then Some 38%Z else None.

(* <pre>&lt;nowiki&gt;[[x]]&#60;/NOWIKI&#x3e; <NoWiki>&amp;lt;</nowiKi></pre> (K = U+212A when it folds)
   -> "<nowiki>[[x]]</NOWIKI> &lt;" : the entity-written pair stays (as text), the written pair is dropped, &amp;lt; is decoded once *)
Definition ex_pre_body : str :=
  [38;108;116;59] ++ [110;111;119;105;107;105] ++ [38;103;116;59] ++ [91;91;120;93;93] ++
  [38;35;54;48;59] ++ [47;78;79;87;73;75;73] ++ [38;35;120;51;101;59] ++ [32] ++
  [60;78;111;87;105;107;105;62] ++ [38;97;109;112;59;108;116;59] ++ [60;47;110;111;119;105;75;105;62].
Definition ex_pre_out : str :=
  [60;110;111;119;105;107;105;62] ++ [91;91;120;93;93] ++ [60;47;78;79;87;73;75;73;62] ++ [32] ++ [38;108;116;59].

Lemma pre_example :
  create_pre_text (resolve_entity ascii_int ex_names3 caught_numeric surrogate_guard) ent_strict ex_pre_body = Ok ex_pre_out
  /\ ~ In 60 (firstn 38 ex_pre_body)
  /\ create_pre_text (resolve_entity ascii_int ex_names3 caught_numeric surrogate_guard) ent_strict (firstn 38 ex_pre_body)
     = Ok (firstn 23 ex_pre_out).
Proof.
  split; [vm_compute; reflexivity|]. split; [|vm_compute; reflexivity].
  vm_compute. intros H. repeat (destruct H as [H | H]; [discriminate H|]). exact H.
Qed.
