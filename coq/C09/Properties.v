(* C09 -- property theorems only.  Each is closed by `exact <lemma>` and followed by Print Assumptions;
   the check re-compiles this file on every run (Gen_tables.v is regenerated from /repo first). *)
From Coq Require Import List NArith Bool.
From MW Require Import Common.Str C09.Gen_tables C09.Model C09.Proofs C09.Proofs2 C09.Proofs3.
Import ListNotations.
Open Scope N_scope.

(* protect = Uniquifier.replace_tags with len(uniq2repl) = k and random_string = rand; restore = replace_uniq
   with the table protect returned.  `segments t` are the leftmost non-overlapping matches of the regex in t:
   Plain c (a character outside every match), Comment src repl, Tag src e.
   For every text t without 0x7f (and without the non-ASCII code points that IGNORECASE folds onto i/k/s):
   (1) the segments tile t: surrounding characters are untouched and in the same order;
   (2) the protected text is the same sequence with each comment replaced by `repl` (its "\n"/blank borders,
       collapsed to one "\n" when it had both) and each tag occurrence by its marker, counters k, k+1, ...;
   (3) replace_uniq gives back the same sequence with each tag occurrence restored to e_complete, which is
   (4) the occurrence's own source text, except for nowiki where it is the body (nowiki unwrapped); comment
       replacements consist of characters of the comment's own border (or the single "\n"). *)
Theorem C09_roundtrip : forall rand k t,
  hex_ok rand -> ~ In 127 t -> no_exotic t ->
  let segs := segments t in
  concat (map seg_source segs) = t /\
  fst (protect rand k t) = concat (map (seg_protected rand) (numbered k segs)) /\
  restore (snd (protect rand k t)) (fst (protect rand k t)) = concat (map seg_restored segs) /\
  Forall (fun x => match x with
                   | Plain _ => True
                   | Comment src repl => forall c, In c repl -> c = 10 \/ In c src
                   | Tag src e => e_complete e = if str_eqb (e_tag e) nowiki then e_inner e else src
                   end) segs.
Proof. exact roundtrip_full. Qed.
Print Assumptions C09_roundtrip.

(* Without comments and nowiki regions the round trip is the identity. *)
Theorem C09_roundtrip_lossless : forall rand k t,
  hex_ok rand -> ~ In 127 t -> no_exotic t -> Forall seg_lossless (segments t) ->
  restore (snd (protect rand k t)) (fst (protect rand k t)) = t.
Proof. exact roundtrip_lossless. Qed.
Print Assumptions C09_roundtrip_lossless.

(* The table: entry i belongs to the i-th tag occurrence, is keyed by marker(rand, tagname, k+i), and holds
   exactly the pieces of that occurrence: src = "<" m vlist "/>" (inner empty) or
   src = "<" m vlist ">" inner "</" m' ws ">" with m matching a protected tag name case-insensitively,
   tagname = m.lower().  No hypothesis on t. *)
Theorem C09_body_verbatim : forall rand k t,
  map snd (snd (protect rand k t)) = tag_entries (segments t) /\
  map fst (snd (protect rand k t)) = markers_from rand k (tag_entries (segments t)) /\
  Forall seg_verbatim (segments t) /\
  concat (map seg_source (segments t)) = t.
Proof. exact body_verbatim. Qed.
Print Assumptions C09_body_verbatim.

(* Every marker replace_tags produces (on such a text) is marker(rand, name, j) for a name of the tag set. *)
Theorem C09_protect_markers_wellformed : forall rand k t,
  hex_ok rand -> ~ In 127 t -> no_exotic t ->
  Forall (fun ke => exists name j, In name tag_names /\ fst ke = marker rand name j) (snd (protect rand k t)).
Proof. exact protect_markers_ok. Qed.
Print Assumptions C09_protect_markers_wellformed.

Theorem C09_tag_names_wellformed : forall name, In name tag_names -> name_ok name.
Proof. exact tag_names_ok. Qed.
Print Assumptions C09_tag_names_wellformed.

(* A marker contains none of { } [ ] | = < > and no whitespace; in the template tokenizer (SPLIT_PATTERN's
   last alternative, a maximal run of non-special characters) it is never cut: the text token that contains
   its first character contains all of it; str.strip leaves it alone. *)
Theorem C09_marker_inert_templ : forall rand name k,
  name_ok name -> hex_ok rand ->
  let m := marker rand name k in
  Forall inert_char m /\
  (forall a b, Forall (fun c => is_split_special c = false) a ->
               text_token (a ++ m ++ b) = (a ++ m ++ fst (text_token b), snd (text_token b))) /\
  strip m = m /\ (forall x, lstrip (m ++ x) = m ++ x).
Proof. exact marker_inert_templ. Qed.
Print Assumptions C09_marker_inert_templ.

(* _partial: about the t_uniq rule of _uscan.re alone.  Whatever follows, the rule matches exactly the
   marker; the marker is 0x7f mid 0x7f with no 0x7f inside (so the rule cannot end early or late); 0x7f is
   not the first character of any other rule of the block except the one-character catch-all, and the URL
   character class excludes it (a preceding URL token stops in front of a marker).  NOT covered here: the
   longest-match composition with the full rule set (C10's scanner model), in particular that a marker inside
   an HTML tag or comment token ("<" ... [^\000<>]* ...) is absorbed by that token. *)
Theorem C09_marker_atomic_partial : forall rand name k,
  name_ok name -> hex_ok rand ->
  (forall rest, t_uniq_at (marker rand name k ++ rest) = Some (marker rand name k, rest)) /\
  (exists mid, marker rand name k = 127 :: mid ++ [127] /\ ~ In 127 mid) /\
  starts_other_rule 127 = false /\ url_char 127 = false.
Proof. exact marker_atomic_partial. Qed.
Print Assumptions C09_marker_atomic_partial.

(* The hypothesis no_exotic is needed: the code matches <ſource> (U+017F) as a source tag under
   re.IGNORECASE, builds a marker with a non-ASCII name, and replace_uniq never restores it.
   (First disjunct: the tables generated from a tree with the proposed ASCII-only fix.) *)
Theorem C09_roundtrip_nonascii_fold_refuted :
  fold_extra = [] \/
  exists t, ~ In 127 t /\ In 127 (restore (snd (protect [97] 0 t)) (fst (protect [97] 0 t))).
Proof. exact roundtrip_nonascii_fold_refuted. Qed.
Print Assumptions C09_roundtrip_nonascii_fold_refuted.

Example C09_example :
  hex_ok [48; 97] /\ ~ In 127 ex_text /\ no_exotic ex_text /\
  fst (protect [48; 97] 7 ex_text)
  = [97; 10; 98] ++ marker [48; 97] [110; 111; 119; 105; 107; 105] 7 ++ marker [48; 97] [109; 97; 116; 104] 8 ++ [122] /\
  map (fun ke => (e_tag (snd ke), e_vlist (snd ke), e_inner (snd ke))) (snd (protect [48; 97] 7 ex_text))
  = [([110; 111; 119; 105; 107; 105], [], [39; 39; 120; 39; 39]); ([109; 97; 116; 104], [32; 97; 61; 49], [121])] /\
  restore (snd (protect [48; 97] 7 ex_text)) (fst (protect [48; 97] 7 ex_text))
  = [97; 10; 98; 39; 39; 120; 39; 39; 60; 77; 65; 84; 72; 32; 97; 61; 49; 62; 121; 60; 47; 109; 97; 116; 104; 32; 62; 122].
Proof. exact example_run. Qed.
Print Assumptions C09_example.
