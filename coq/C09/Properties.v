(* C09 -- property theorems only.  Each is closed by `exact <lemma>` and followed by Print Assumptions;
   the check re-compiles this file on every run (Gen_tables.v is regenerated from /repo first). *)
From Coq Require Import List NArith Bool.
From Coq Require Import ZArith.
From MW Require Import Common.Str C09.Gen_tables C09.Model C09.Proofs C09.Proofs2 C09.Proofs3.
From MW Require C01.Model C01.Gen_resolve C10.Regex C10.Tags C10.Gen_rules C10.Model C10.Proofs.
From MW Require Import C09.Scanner C09.Scanner2 C09.EntModel C09.EntProofs C09.PreModel C09.PreProofs C09.TableProofs.
Import ListNotations.
Open Scope N_scope.

(* protect = Uniquifier.replace_tags with len(uniq2repl) = k and random_string = rand; restore = replace_uniq
   with the table protect returned.  `segments t` are the leftmost non-overlapping matches of the regex in t:
   Plain c (a character outside every match), Comment src repl, Tag src e.
   For every text t without 0x7f (and without the non-ASCII code points that IGNORECASE folds onto i/k/s):
   (1) the segments tile t: surrounding characters are untouched and in the same order;
   (2) the protected text is the same sequence with each comment replaced by `repl` (its "\n"/blank borders,
       collapsed to one "\n" when it had both) and each tag occurrence by its marker, counters k, k+1, ...;
   (3) replace_uniq gives back the same sequence with each tag occurrence restored to e_complete, which is
   (4) the occurrence's own source text, except for nowiki where it is the body (nowiki unwrapped); comment
       replacements consist of characters of the comment's own border (or the single "\n"). *)
Theorem C09_roundtrip : forall rand k t,
  hex_ok rand -> ~ In 127 t -> no_exotic t ->
  let segs := segments t in
  concat (map seg_source segs) = t /\
  fst (protect rand k t) = concat (map (seg_protected rand) (numbered k segs)) /\
  restore (snd (protect rand k t)) (fst (protect rand k t)) = concat (map seg_restored segs) /\
  Forall (fun x => match x with
                   | Plain _ => True
                   | Comment src repl => forall c, In c repl -> c = 10 \/ In c src
                   | Tag src e => e_complete e = if str_eqb (e_tag e) nowiki then e_inner e else src
                   end) segs.
Proof. exact roundtrip_full. Qed.
Print Assumptions C09_roundtrip.

(* Without comments and nowiki regions the round trip is the identity. *)
Theorem C09_roundtrip_lossless : forall rand k t,
  hex_ok rand -> ~ In 127 t -> no_exotic t -> Forall seg_lossless (segments t) ->
  restore (snd (protect rand k t)) (fst (protect rand k t)) = t.
Proof. exact roundtrip_lossless. Qed.
Print Assumptions C09_roundtrip_lossless.

(* The table: entry i belongs to the i-th tag occurrence, is keyed by marker(rand, tagname, k+i), and holds
   exactly the pieces of that occurrence: src = "<" m vlist "/>" (inner empty) or
   src = "<" m vlist ">" inner "</" m' ws ">" with m matching a protected tag name case-insensitively,
   tagname = m.lower().  No hypothesis on t. *)
Theorem C09_body_verbatim : forall rand k t,
  map snd (snd (protect rand k t)) = tag_entries (segments t) /\
  map fst (snd (protect rand k t)) = markers_from rand k (tag_entries (segments t)) /\
  Forall seg_verbatim (segments t) /\
  concat (map seg_source (segments t)) = t.
Proof. exact body_verbatim. Qed.
Print Assumptions C09_body_verbatim.

(* Every marker replace_tags produces (on such a text) is marker(rand, name, j) for a name of the tag set. *)
Theorem C09_protect_markers_wellformed : forall rand k t,
  hex_ok rand -> ~ In 127 t -> no_exotic t ->
  Forall (fun ke => exists name j, In name tag_names /\ fst ke = marker rand name j) (snd (protect rand k t)).
Proof. exact protect_markers_ok. Qed.
Print Assumptions C09_protect_markers_wellformed.

Theorem C09_tag_names_wellformed : forall name, In name tag_names -> name_ok name.
Proof. exact tag_names_ok. Qed.
Print Assumptions C09_tag_names_wellformed.

(* A marker contains none of { } [ ] | = < > and no whitespace; in the template tokenizer (SPLIT_PATTERN's
   last alternative, a maximal run of non-special characters) it is never cut: the text token that contains
   its first character contains all of it; str.strip leaves it alone. *)
Theorem C09_marker_inert_templ : forall rand name k,
  name_ok name -> hex_ok rand ->
  let m := marker rand name k in
  Forall inert_char m /\
  (forall a b, Forall (fun c => is_split_special c = false) a ->
               text_token (a ++ m ++ b) = (a ++ m ++ fst (text_token b), snd (text_token b))) /\
  strip m = m /\ (forall x, lstrip (m ++ x) = m ++ x).
Proof. exact marker_inert_templ. Qed.
Print Assumptions C09_marker_inert_templ.

(* About C09's own transcription of the t_uniq rule (kept: the tie runs it): whatever follows, it matches exactly
   the marker; the marker is 0x7f mid 0x7f with no 0x7f inside. *)
Theorem C09_marker_shape : forall rand name k,
  name_ok name -> hex_ok rand ->
  (forall rest, t_uniq_at (marker rand name k ++ rest) = Some (marker rand name k, rest)) /\
  (exists mid, marker rand name k = 127 :: mid ++ [127] /\ ~ In 127 mid) /\
  starts_other_rule 127 = false /\ url_char 127 = false.
Proof. exact marker_atomic_partial. Qed.
Print Assumptions C09_marker_shape.

(* COMPOSITION WITH THE SCANNER MODEL OF C10 (rules regenerated from _uscan.re into C10/Gen_rules.v on every run,
   re2c longest match / earliest rule on ties = C10.Model.best_match, actions = C10.Model.exec/step/run/scan).

   (1) Rule selection.  At a text that starts with a marker, whatever follows: in the main block the t_uniq rule
   matches the marker IN FULL and wins (every other rule matches at most one character there); the begin-of-line
   block only falls through ([^] goto not_bol). *)
Theorem C09_marker_wins_rule_selection : forall rand name k rest,
  name_ok name -> hex_ok rand ->
  C10.Model.best_match C10.Gen_rules.main_rules (marker rand name k ++ rest)
    = Some (C10.Tags.A_ret C10.Gen_rules.t_uniq, length (marker rand name k)) /\
  C10.Model.best_match C10.Gen_rules.bol_rules (marker rand name k ++ rest) = Some (C10.Tags.A_goto_notbol, 1%nat).
Proof. exact (fun rand name k rest Hn Hr => conj (main_at_marker rand name k rest Hn Hr) (bol_at_marker rand name k rest Hn Hr)). Qed.
Print Assumptions C09_marker_wins_rule_selection.

(* (2) One call of Scanner::scan() whose start is the first character of a marker -- any scanner state, any
   previous character, anything after the marker -- consumes exactly the marker and records ONE t_uniq token. *)
Theorem C09_marker_atomic_step : forall rand name k rest prev pos s,
  name_ok name -> hex_ok rand ->
  let m := marker rand name k in
  let s0 := if match prev with None => true | Some c => c =? 10 end then C10.Model.set_rowchar 0 s else s in
  C10.Model.step prev (m ++ rest) pos s
  = C10.Model.R_cont (length m) (C10.Model.found C10.Gen_rules.t_uniq pos (length m) s0).
Proof. exact step_at_marker. Qed.
Print Assumptions C09_marker_atomic_step.

(* (3) The exact context condition.  The only rules of the generated table that can run across a 0x7f are the html
   tag rule and the comment rule (every match of them is "<" x ">" with no ">" in x), the t_uniq rule itself (first
   character 0x7f) and single-character rules; so a scan() call that starts inside a stretch u without NUL and
   0x7f in which every "<" is followed by a ">" (clear u) never consumes the 0x7f that follows u. *)
Theorem C09_no_token_runs_into_marker : forall prev u w pos s k s',
  u <> [] -> clear u ->
  C10.Model.step prev (u ++ 127 :: w) pos s = C10.Model.R_cont k s' -> (k <= length u)%nat.
Proof. exact step_no_cross. Qed.
Print Assumptions C09_no_token_runs_into_marker.

(* (4) Whole scan.  If the text in front of a marker consists of earlier complete markers and of such stretches
   (pre_ok u: i.e. the marker does not stand inside an html tag "<tag ... MARKER ...>" or a comment token), then,
   WHATEVER follows the marker, the token list utoken.scan's model returns contains the token
   (t_uniq, start = |u|, length = |marker|): matched in full, not merged, not retagged, not dropped. *)
Theorem C09_marker_atomic : forall rand name k u v,
  name_ok name -> hex_ok rand -> pre_ok u ->
  exists l, C10.Model.scan (u ++ marker rand name k ++ v) = C10.Model.F_done l /\
            In (C10.Model.Tok C10.Gen_rules.t_uniq (length u) (length (marker rand name k))) l.
Proof. exact marker_token_in_scan. Qed.
Print Assumptions C09_marker_atomic.

Example C09_marker_context_example :
  pre_ok ([97; 32; 60; 98; 32; 120; 61; 39; 49; 39; 62] ++ marker [48; 97] [109; 97; 116; 104] 7 ++ [99])
  /\ name_ok [109; 97; 116; 104] /\ hex_ok [48; 97].
Proof. exact pre_ok_example. Qed.
Print Assumptions C09_marker_context_example.

(* DECODING OF nowiki / pre BODIES (core.py create_nowiki / create_pre -> util.replace_html_entities =
   re.sub("&[^;]*;", resolve_entity); resolve_entity = the model of coq/C01 with the except clause and the surrogate
   guard regenerated from util.py).  For EVERY int() and every name table with code points in range: the call never
   raises; the text is tiled by plain characters and "&" [^;]* ";" spans; plain characters are copied; a span is
   copied unchanged or replaced by ONE character c, and then (decoded_ref) it is "&#" digits ";" / "&#x" digits ";"
   with int(digits, base) = z, chr(z) = c valid (no surrogate under the guard), or "&" name ";" with name in the table. *)
Theorem C09_entity_decode_only_refs :
  forall (pyint : Z -> list N -> option Z) (name2cp : list N -> option Z),
  (forall s z, name2cp s = Some z -> (0 <= z < 1114112)%Z) ->
  forall txt,
  let resolve := C01.Model.resolve_entity pyint name2cp C01.Gen_resolve.caught_numeric C01.Gen_resolve.surrogate_guard in
  let segs := ent_segments ent_strict txt in
  concat (map eseg_src segs) = txt /\
  replace_html_entities resolve ent_strict txt = C01.Model.Ok (concat (map (eseg_out resolve) segs)) /\
  Forall (eseg_decoded pyint name2cp) segs.
Proof. exact (fun pyint name2cp H txt => decode_only_refs pyint name2cp H ent_strict txt). Qed.
Print Assumptions C09_entity_decode_only_refs.

(* With an int() that accepts only non-empty ASCII digit strings of the base (the behaviour after the proposed fix
   fixes/C09-entity-lenient-int.diff), a decoded span is a VALID character reference. *)
Theorem C09_entity_decode_strict : forall pyint name2cp e c,
  pyint_strict pyint -> decoded_ref pyint name2cp e c ->
  (exists base digits z, nth_error e 1 = Some 35 /\ digit_string base digits = true /\ pyint base digits = Some z /\
                         (0 <= z < 1114112)%Z /\ c = Z.to_N z /\
                         (C01.Gen_resolve.surrogate_guard = true -> ~ (55296 <= z <= 57343)%Z) /\
                         (base = 16%Z /\ digits = C01.Model.slice_to_m1 3 e \/ base = 10%Z /\ digits = C01.Model.slice_to_m1 2 e))
  \/ (exists z, name2cp (C01.Model.slice_to_m1 1 e) = Some z /\ c = Z.to_N z).
Proof. exact decoded_ref_strict. Qed.
Print Assumptions C09_entity_decode_strict.

(* The lenient pattern "&[^;]*;" (ent_strict = false, the code as it is) hands the raw span to CPython's int(): with
   any int() that reads "+65" as 65 (CPython does; exercised by the check) "&#+65;" -- not a character reference --
   becomes "A" inside <nowiki>; under the strict pattern of the proposed fix it is left alone.  Reported defect. *)
Theorem C09_entity_lenient_int_refuted : forall pyint name2cp,
  pyint 10%Z [43; 54; 53] = Some 65%Z ->
  replace_html_entities (C01.Model.resolve_entity pyint name2cp C01.Gen_resolve.caught_numeric C01.Gen_resolve.surrogate_guard)
    false [38; 35; 43; 54; 53; 59] = C01.Model.Ok [65]
  /\ replace_html_entities (C01.Model.resolve_entity pyint name2cp C01.Gen_resolve.caught_numeric C01.Gen_resolve.surrogate_guard)
    true [38; 35; 43; 54; 53; 59] = C01.Model.Ok [38; 35; 43; 54; 53; 59]
  /\ digit_string 10 [43; 54; 53] = false.
Proof. exact lenient_int_decodes_non_reference. Qed.
Print Assumptions C09_entity_lenient_int_refuted.

Example C09_entity_decode_example :
  replace_html_entities (C01.Model.resolve_entity C01.Model.ascii_int ex_names C01.Gen_resolve.caught_numeric C01.Gen_resolve.surrogate_guard) ent_strict
    [97; 38; 97; 109; 112; 59; 38; 35; 54; 53; 59; 38; 98; 111; 103; 117; 115; 59; 38; 35; 120; 52; 49]
  = C01.Model.Ok [97; 38; 65; 38; 98; 111; 103; 117; 115; 59; 38; 35; 120; 52; 49]
  /\ pyint_strict C01.Model.ascii_int /\ (forall s z, ex_names s = Some z -> (0 <= z < 1114112)%Z).
Proof. exact decode_example. Qed.
Print Assumptions C09_entity_decode_example.

(* <pre> BODIES (core.py create_pre = util.replace_html_entities(util.remove_nowiki_tags(inner)); the order and the shape of
   remove_nowiki_tags -- re.sub("<nowiki>(.*?)</nowiki>", IGNORECASE|DOTALL, group 1) -- are pinned by vt/gen/c09_tables.py,
   the IGNORECASE fold table is regenerated; the model is run against the real function by the check).
   remove_nowiki_tags tiles the body AS WRITTEN: every character is copied in order except the opening and closing part of a
   pair, and each such part is literally "<nowiki>" / "</nowiki>" up to letter case in the written body. *)
Theorem C09_pre_removes_only_written_nowiki_pairs : forall s,
  concat (map nseg_src (nsegments s)) = s /\
  remove_nowiki_tags s = concat (map nseg_out (nsegments s)) /\
  Forall nseg_shape (nsegments s).
Proof. exact remove_nowiki_tiles. Qed.
Print Assumptions C09_pre_removes_only_written_nowiki_pairs.

(* Decoding comes last and is not looked at again: for a body without a literal "<" -- all of its markup-looking content,
   the nowiki tag included, is written with character references -- <pre> delivers exactly what <nowiki> delivers, the
   single-pass decoding of C09_entity_decode_only_refs.  Nothing that exists only after decoding is interpreted or removed.
   (For every resolve callback and both patterns.) *)
Theorem C09_pre_entity_written_markup_kept : forall resolve strict b,
  ~ In 60 b -> create_pre_text resolve strict b = create_nowiki_text resolve strict b.
Proof. exact pre_entity_written_kept. Qed.
Print Assumptions C09_pre_entity_written_markup_kept.

Theorem C09_pre_no_lt_untouched : forall s, ~ In 60 s -> remove_nowiki_tags s = s.
Proof. exact remove_nowiki_no_lt. Qed.
Print Assumptions C09_pre_no_lt_untouched.

(* "&lt;nowiki&gt;[[x]]&#60;/NOWIKI&#x3e; <NoWiki>&amp;lt;</nowiKi>" -> "<nowiki>[[x]]</NOWIKI> &lt;"; its "<"-free prefix
   satisfies the hypothesis of the theorem above and keeps the entity-written pair. *)
Example C09_pre_example :
  create_pre_text (C01.Model.resolve_entity C01.Model.ascii_int ex_names3 C01.Gen_resolve.caught_numeric C01.Gen_resolve.surrogate_guard) ent_strict ex_pre_body
    = C01.Model.Ok ex_pre_out
  /\ ~ In 60 (firstn 38 ex_pre_body)
  /\ create_pre_text (C01.Model.resolve_entity C01.Model.ascii_int ex_names3 C01.Gen_resolve.caught_numeric C01.Gen_resolve.surrogate_guard) ent_strict (firstn 38 ex_pre_body)
     = C01.Model.Ok (firstn 23 ex_pre_out).
Proof. exact pre_example. Qed.
Print Assumptions C09_pre_example.

(* MARKER TABLES ARE NOT INTERCHANGEABLE.  The keys of the table replace_tags builds depend only on the random string (one per
   process), the start counter and the tag names of the regions in order -- not on bodies, attributes or surrounding text.  So
   the table of the article and the table of the second expander that create_pages / create_ref use have equal keys whenever
   their regions have the same tag names: a marker must be resolved in the table of the Uniquifier that produced it. *)
Theorem C09_marker_keys_depend_only_on_tags : forall rand k t1 t2,
  map e_tag (tag_entries (segments t1)) = map e_tag (tag_entries (segments t2)) ->
  map fst (snd (protect rand k t1)) = map fst (snd (protect rand k t2)).
Proof. exact keys_depend_only_on_tags. Qed.
Print Assumptions C09_marker_keys_depend_only_on_tags.

(* article <nowiki>''o''</nowiki>, transcluded page <nowiki>[[p]]</nowiki>: equal keys; the page's protected text restored with
   its own table gives [[p]], with the article's table ''o'' (silent swap), with an unrelated table the raw marker. *)
Example C09_foreign_table_example :
  map fst (snd (protect [48; 97] 0 ex_article)) = map fst (snd (protect [48; 97] 0 ex_page)) /\
  restore (snd (protect [48; 97] 0 ex_page)) (fst (protect [48; 97] 0 ex_page)) = [91;91;112;93;93] /\
  restore (snd (protect [48; 97] 0 ex_article)) (fst (protect [48; 97] 0 ex_page)) = [39;39;111;39;39] /\
  restore [] (fst (protect [48; 97] 0 ex_page)) = marker [48; 97] nowiki 0.
Proof. exact foreign_table_example. Qed.
Print Assumptions C09_foreign_table_example.

(* The hypothesis no_exotic is needed: the code matches <ſource> (U+017F) as a source tag under
   re.IGNORECASE, builds a marker with a non-ASCII name, and replace_uniq never restores it.
   (First disjunct: the tables generated from a tree with the proposed ASCII-only fix.) *)
Theorem C09_roundtrip_nonascii_fold_refuted :
  fold_extra = [] \/
  exists t, ~ In 127 t /\ In 127 (restore (snd (protect [97] 0 t)) (fst (protect [97] 0 t))).
Proof. exact roundtrip_nonascii_fold_refuted. Qed.
Print Assumptions C09_roundtrip_nonascii_fold_refuted.

Example C09_example :
  hex_ok [48; 97] /\ ~ In 127 ex_text /\ no_exotic ex_text /\
  fst (protect [48; 97] 7 ex_text)
  = [97; 10; 98] ++ marker [48; 97] [110; 111; 119; 105; 107; 105] 7 ++ marker [48; 97] [109; 97; 116; 104] 8 ++ [122] /\
  map (fun ke => (e_tag (snd ke), e_vlist (snd ke), e_inner (snd ke))) (snd (protect [48; 97] 7 ex_text))
  = [([110; 111; 119; 105; 107; 105], [], [39; 39; 120; 39; 39]); ([109; 97; 116; 104], [32; 97; 61; 49], [121])] /\
  restore (snd (protect [48; 97] 7 ex_text)) (fst (protect [48; 97] 7 ex_text))
  = [97; 10; 98; 39; 39; 120; 39; 39; 60; 77; 65; 84; 72; 32; 97; 61; 49; 62; 121; 60; 47; 109; 97; 116; 104; 32; 62; 122].
Proof. exact example_run. Qed.
Print Assumptions C09_example.
