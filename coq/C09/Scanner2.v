(* C09/Scanner2.v -- the scanner STATE MACHINE (C10/Model.v: step, run, scan) around a marker.
     - step_at_marker: a scan() call whose start is the first character of a marker emits ONE t_uniq token
       covering exactly the marker, whatever follows and whatever the scanner state;
     - step_no_cross: a scan() call starting inside a prefix without NUL, "<" and 0x7f never consumes the
       marker's first character;
     - the t_uniq token, once pushed, is never merged, retagged or dropped by any later action (Keep);
     - marker_token_in_scan: scan (u ++ marker ++ v) contains the token (t_uniq, |u|, |marker|). *)
From Coq Require Import List NArith Bool Lia Arith.
From MW Require Import Common.Str C09.Gen_tables C09.Model C09.Proofs C09.Proofs2.
From MW Require Import C10.Regex C10.Tags C10.Gen_rules C10.Model C10.Tiles C10.Proofs.
From MW Require Import C09.Scanner.
Import ListNotations.
Open Scope N_scope.

(* ------------------------------------------------------------------ invariant: lss points at a t_section token *)
Definition sec_at (l : list tok) (i : nat) : Prop :=
  exists b t a, l = b ++ t :: a /\ length a = i /\ ttype t = t_section.

Definition SecInv (s : st) : Prop := match lss s with Some i => sec_at (toks s) i | None => True end.

Definition Keep (o : option tok) (s : st) : Prop :=
  SecInv s /\ match o with Some tk => In tk (toks s) /\ ttype tk = t_uniq | None => True end.

Lemma retag_fwd_app : forall a t b,
  retag_fwd (length a) (a ++ t :: b) = a ++ Tok t_text (tstart t) (tlen t) :: b.
Proof. induction a as [|x a IH]; intros t b; cbn [length app retag_fwd]; [reflexivity | rewrite IH; reflexivity]. Qed.

Lemma retag_sec b t a : retag (length a) (b ++ t :: a) = b ++ Tok t_text (tstart t) (tlen t) :: a.
Proof.
  unfold retag. rewrite rev_app_distr. cbn [rev]. rewrite <- app_assoc. cbn [app].
  rewrite <- (rev_length a). rewrite retag_fwd_app. rewrite rev_app_distr. cbn [rev].
  rewrite <- app_assoc. cbn [app]. rewrite !rev_involutive. reflexivity.
Qed.

Lemma Keep_same o s s' : toks s' = toks s -> lss s' = lss s -> Keep o s -> Keep o s'.
Proof. intros Ht Hl [A B]. unfold Keep, SecInv in *. rewrite Ht, Hl. auto. Qed.

Lemma Keep_lss_none o s : Keep o s -> Keep o (set_lss None s).
Proof. intros [A B]. split; [exact I | exact B]. Qed.

Lemma Keep_push o ty st len s : Keep o s -> Keep o (push ty st len s).
Proof.
  intros [A B]. unfold Keep, SecInv, push in *. cbn [toks lss]. split.
  - destruct (lss s) as [i|]; [|exact I]. destruct A as (b & t & a & E & L & T).
    exists (Tok ty st len :: b), t, a. rewrite E. auto.
  - destruct o as [tk|]; [|exact I]. destruct B as [B1 B2]. split; [right; exact B1 | exact B2].
Qed.

Lemma Keep_found o ty st len s : Keep o s -> Keep o (found ty st len s).
Proof.
  intros K. unfold found. destruct (ty =? t_ebad).
  - eapply Keep_same; [| |exact K]; reflexivity.
  - destruct ((ty =? t_text) && negb (last_ebad s)) eqn:Em; [|apply Keep_push; exact K].
    destruct (toks s) as [|p tl] eqn:Et; [apply Keep_push; exact K|].
    destruct (ttype p =? ty) eqn:Ety; [|apply Keep_push; exact K].
    apply andb_true_iff in Em. destruct Em as [Ety2 _]. apply N.eqb_eq in Ety, Ety2.
    assert (Hp : ttype p = t_text) by congruence.
    destruct K as [A B]. unfold Keep, SecInv, set_toks in *. cbn [toks lss]. rewrite Et in *. split.
    + destruct (lss s) as [i|]; [|exact I]. destruct A as (b & t & a & E & L & T).
      destruct b as [|b0 b].
      * cbn [app] in E. inversion E; subst. rewrite T in Hp. discriminate Hp.
      * cbn [app] in E. inversion E; subst.
        exists (Tok (ttype b0) (tstart b0) (tlen b0 + len) :: b), t, a. auto.
    + destruct o as [tk|]; [|exact I]. destruct B as [[B1 | B1] B2].
      * subst tk. rewrite Hp in B2. discriminate B2.
      * split; [right; exact B1 | exact B2].
Qed.

Lemma Keep_newline o s : Keep o s -> Keep o (newline_ s).
Proof.
  intros K. unfold newline_. destruct (lss s) as [i|] eqn:El; [|exact K].
  destruct K as [A B]. unfold SecInv in A. rewrite El in A. destruct A as (b & t & a & E & L & T).
  split; [exact I|]. unfold set_lss, set_toks. cbn [toks].
  destruct o as [tk|]; [|exact I]. destruct B as [B1 B2]. split; [|exact B2].
  rewrite E, <- L, retag_sec. rewrite E in B1.
  apply in_app_or in B1. apply in_or_app. destruct B1 as [B1 | [B1 | B1]].
  - left. exact B1.
  - subst tk. rewrite T in B2. discriminate B2.
  - right. right. exact B1.
Qed.

Lemma Keep_tablemode o m s : Keep o s -> Keep o (set_tablemode m s).
Proof. apply Keep_same; reflexivity. Qed.
Lemma Keep_rowchar o c s : Keep o s -> Keep o (set_rowchar c s).
Proof. apply Keep_same; reflexivity. Qed.

Lemma found_section p n s : found t_section p n s = push t_section p n s.
Proof. reflexivity. Qed.
Lemma found_uniq p n s : found t_uniq p n s = push t_uniq p n s.
Proof. reflexivity. Qed.

Lemma Keep_section o p n s : Keep o s ->
  Keep o (set_lss (Some (length (toks (found t_section p n s)) - 1)%nat) (found t_section p n s)).
Proof.
  intros [A B]. rewrite found_section. unfold Keep, SecInv, set_lss, push. cbn [toks lss length]. split.
  - exists [], (Tok t_section p n), (toks s). split; [reflexivity|]. split; [lia | reflexivity].
  - destruct o as [tk|]; [|exact I]. destruct B as [B1 B2]. split; [right; exact B1 | exact B2].
Qed.

Definition res_keep (o : option tok) (r : result) : Prop :=
  match r with R_stop s' => Keep o s' | R_stuck => True | R_cont _ s' => Keep o s' end.

Ltac keep_tac :=
  repeat first
    [ assumption
    | apply Keep_found
    | apply Keep_newline
    | apply Keep_tablemode
    | apply Keep_rowchar
    | apply Keep_lss_none
    | apply Keep_section ].

Lemma exec_keep o a rest n pos s : Keep o s -> res_keep o (exec a rest n pos s).
Proof.
  intros K. destruct a; cbn [exec];
    repeat match goal with |- context [if ?c then _ else _] => destruct c end;
    repeat match goal with |- context [match lss ?x with _ => _ end] => destruct (lss x) end;
    cbn [res_keep]; try exact I; keep_tac.
Qed.

Lemma step_keep o prev rest pos s : Keep o s -> res_keep o (step prev rest pos s).
Proof.
  intros K. unfold step.
  set (isbol := match prev with None => true | Some c => c =? 10 end).
  set (s0 := if isbol then set_rowchar 0 s else s).
  assert (K0 : Keep o s0) by (unfold s0; destruct isbol; [apply Keep_rowchar|]; exact K).
  assert (M : res_keep o (match best_match main_rules rest with
                          | None => R_stuck | Some (a, n) => exec a rest n pos s0 end)).
  { destruct (best_match main_rules rest) as [[a n]|]; [apply exec_keep; exact K0 | exact I]. }
  destruct isbol; [|exact M].
  destruct (best_match bol_rules rest) as [[a n]|]; [|exact I].
  destruct a; try (apply exec_keep; exact K0). exact M.
Qed.

Lemma run_keep tk : forall fuel prev rest pos s, Keep (Some tk) s ->
  match run fuel prev rest pos s with F_done l => In tk l | _ => True end.
Proof.
  induction fuel as [|f IH]; intros prev rest pos s K; cbn [run]; [exact I|].
  pose proof (step_keep (Some tk) prev rest pos s K) as R.
  destruct (step prev rest pos s) as [s'| |k s']; cbn [res_keep] in R.
  - destruct R as [_ [R _]]. rewrite <- in_rev. exact R.
  - exact I.
  - apply IH. exact R.
Qed.

(* ------------------------------------------------------------------ a scan() call that starts at a marker *)
Theorem step_at_marker rand name k rest prev pos s : name_ok name -> hex_ok rand ->
  let m := marker rand name k in
  let s0 := if match prev with None => true | Some c => c =? 10 end then set_rowchar 0 s else s in
  step prev (m ++ rest) pos s = R_cont (length m) (found t_uniq pos (length m) s0).
Proof.
  intros Hn Hr m s0. unfold step. fold m.
  unfold m. rewrite (main_at_marker rand name k rest Hn Hr), (bol_at_marker rand name k rest Hn Hr).
  cbn [exec]. destruct (match prev with None => true | Some c => c =? 10 end); reflexivity.
Qed.

(* ------------------------------------------------------------------ consumed characters *)
Lemma exec_consumed a rest n pos s k s' : exec a rest n pos s = R_cont k s' -> k = n \/ k = 1%nat.
Proof.
  destruct a; cbn [exec];
    repeat match goal with |- context [if ?c then _ else _] => destruct c end;
    repeat match goal with |- context [match lss ?x with _ => _ end] => destruct (lss x) end;
    intros H; try discriminate H; inversion H; auto.
Qed.

Lemma step_no_cross prev u w pos s k s' : u <> [] -> clear u ->
  step prev (u ++ 127 :: w) pos s = R_cont k s' -> (k <= length u)%nat.
Proof.
  intros Hu Hc. unfold step.
  set (isbol := match prev with None => true | Some c => c =? 10 end).
  set (s0 := if isbol then set_rowchar 0 s else s).
  destruct rules_cross_ok as [Cm Cb].
  assert (L1 : (1 <= length u)%nat) by (destruct u; [contradiction | cbn [length]; lia]).
  assert (M : match best_match main_rules (u ++ 127 :: w) with
              | None => R_stuck | Some (a, n) => exec a (u ++ 127 :: w) n pos s0 end = R_cont k s' -> (k <= length u)%nat).
  { destruct (best_match main_rules (u ++ 127 :: w)) as [[a n]|] eqn:Eb; [|discriminate].
    intros H. pose proof (no_crossing _ _ _ _ _ Cm Hu Hc Eb) as Hn.
    destruct (exec_consumed _ _ _ _ _ _ _ H); lia. }
  destruct isbol; [|exact M].
  destruct (best_match bol_rules (u ++ 127 :: w)) as [[a n]|] eqn:Eb; [|discriminate].
  pose proof (no_crossing _ _ _ _ _ Cb Hu Hc Eb) as Hn.
  destruct a; try exact M; intros H; destruct (exec_consumed _ _ _ _ _ _ _ H); lia.
Qed.

(* ------------------------------------------------------------------ the loop reaches the marker at a token boundary *)
Lemma clear_skipn : forall n u, clear u -> clear (skipn n u).
Proof.
  induction n as [|n IH]; intros u H; [exact H|]. destruct u as [|x u]; [exact I|].
  cbn [skipn]. apply IH. destruct H as (_ & _ & _ & H). exact H.
Qed.

Lemma clear_no_nul : forall u, clear u -> ~ In 0 u.
Proof.
  induction u as [|c u IH]; intros H I0; [exact I0|]. destruct H as (H0 & _ & _ & H).
  destruct I0 as [I0 | I0]; [exact (H0 I0) | exact (IH H I0)].
Qed.

Lemma run_reach o : forall fuel prev u w V p s,
  clear u -> ~ In 0 w -> Inv s p -> Keep o s -> (length u < fuel)%nat ->
  exists fuel' prev' s',
    run fuel prev (u ++ (127 :: w) ++ 0 :: V) (length p) s
    = run fuel' prev' ((127 :: w) ++ 0 :: V) (length (p ++ u)) s'
    /\ (fuel <= fuel' + length u)%nat /\ Keep o s' /\ Inv s' (p ++ u).
Proof.
  induction fuel as [|f IH]; intros prev u w V p s Hc Hw HI K Hf; [lia|].
  destruct u as [|c u0].
  - exists (S f), prev, s. cbn [app length]. rewrite app_nil_r.
    split; [reflexivity|]. split; [lia|]. split; [exact K | exact HI].
  - set (u := c :: u0) in *. assert (Hu : u <> []) by discriminate.
    assert (Hnu : ~ In 0 (u ++ 127 :: w)).
    { intro I0. apply in_app_or in I0. destruct I0 as [I0 | [I0 | I0]];
        [exact (clear_no_nul u Hc I0) | discriminate I0 | exact (Hw I0)]. }
    cbn [run].
    pose proof (step_spec prev (u ++ 127 :: w) V p s Hnu HI) as Hs.
    pose proof (step_keep o prev (u ++ (127 :: w) ++ 0 :: V) (length p) s K) as Hk.
    pose proof (step_no_cross prev u (w ++ 0 :: V) (length p) s) as Hx.
    replace ((u ++ 127 :: w) ++ 0 :: V) with (u ++ (127 :: w) ++ 0 :: V) in Hs
      by (rewrite <- app_assoc; reflexivity).
    replace (u ++ 127 :: w ++ 0 :: V) with (u ++ (127 :: w) ++ 0 :: V) in Hx by reflexivity.
    destruct (step prev (u ++ (127 :: w) ++ 0 :: V) (length p) s) as [s'| |k s'] eqn:Est.
    + destruct Hs as [Hs _]. destruct u; discriminate Hs.
    + contradiction.
    + destruct Hs as [Hk1 HI']. cbn [res_keep] in Hk.
      specialize (Hx k s' Hu Hc eq_refl).
      assert (E1 : firstn k (u ++ (127 :: w) ++ 0 :: V) = firstn k u).
      { rewrite firstn_app. replace (k - length u)%nat with 0%nat by lia. cbn [firstn]. apply app_nil_r. }
      assert (E2 : skipn k (u ++ (127 :: w) ++ 0 :: V) = skipn k u ++ (127 :: w) ++ 0 :: V).
      { rewrite skipn_app. replace (k - length u)%nat with 0%nat by lia. reflexivity. }
      rewrite E1 in HI'. rewrite E2.
      replace (length p + k)%nat with (length (p ++ firstn k u)) by (rewrite app_length, firstn_length; lia).
      destruct (IH (match k with O => prev | S j => Some (nth j (u ++ (127 :: w) ++ 0 :: V) 0) end)
                   (skipn k u) w V (p ++ firstn k u) s') as (fuel' & prev' & s'' & Er & Hfu & K' & HI'').
      * apply clear_skipn. exact Hc.
      * exact Hw.
      * exact HI'.
      * exact Hk.
      * rewrite skipn_length. lia.
      * rewrite <- app_assoc, firstn_skipn in Er, HI''.
        exists fuel', prev', s''. split; [exact Er|]. split; [|split; [exact K' | exact HI'']].
        rewrite skipn_length in Hfu. lia.
Qed.

(* ------------------------------------------------------------------ the scan *)
Lemma marker_no_nul rand name k : name_ok name -> hex_ok rand -> ~ In 0 (marker rand name k).
Proof.
  intros [_ Hn] [_ Hr]. unfold marker, uniq_head, qinu_tail.
  assert (A : ~ In 0 name) by (apply (forallb_not_in is_lower_alnum); [exact Hn | reflexivity]).
  assert (B : ~ In 0 (dec k)) by (apply (forallb_not_in is_digit); [apply dec_digits | reflexivity]).
  assert (C : ~ In 0 rand) by (apply (forallb_not_in is_hexlower); [exact Hr | reflexivity]).
  intros I0. repeat (rewrite in_app_iff in I0 || cbn [In] in I0). intuition discriminate.
Qed.

(* CONTEXT: what may stand in front of a marker.  Stretches of text without NUL and 0x7f in which every "<" is
   followed by a ">" of the same stretch (so that no html tag / comment token -- "<" [^<>]* ">" -- is still open when
   the marker begins), alternating with earlier complete markers. *)
Inductive pre_ok : list N -> Prop :=
| pre_clear : forall u, clear u -> pre_ok u
| pre_marker : forall u rand name k u', clear u -> name_ok name -> hex_ok rand -> pre_ok u' ->
    pre_ok (u ++ marker rand name k ++ u').

Lemma pre_ok_no_nul : forall u, pre_ok u -> ~ In 0 u.
Proof.
  intros u H. induction H as [u Hc | u rand name k u' Hc Hn Hr H' IH]; [apply clear_no_nul; exact Hc|].
  intros I0. apply in_app_or in I0. destruct I0 as [I0 | I0]; [exact (clear_no_nul u Hc I0)|].
  apply in_app_or in I0. destruct I0 as [I0 | I0]; [exact (marker_no_nul rand name k Hn Hr I0) | exact (IH I0)].
Qed.

Lemma marker_len_pos rand name k : name_ok name -> hex_ok rand -> (2 <= length (marker rand name k))%nat.
Proof.
  intros Hn Hr. destruct (marker_mid rand name k Hn Hr) as (mid & -> & _). cbn [length]. rewrite app_length. cbn [length]. lia.
Qed.

Lemma run_reach_pre o : forall u, pre_ok u -> forall fuel prev w V p s,
  ~ In 0 w -> Inv s p -> Keep o s -> (length u < fuel)%nat ->
  exists fuel' prev' s',
    run fuel prev (u ++ (127 :: w) ++ 0 :: V) (length p) s
    = run fuel' prev' ((127 :: w) ++ 0 :: V) (length (p ++ u)) s'
    /\ (fuel <= fuel' + length u)%nat /\ Keep o s' /\ Inv s' (p ++ u).
Proof.
  intros u H. induction H as [u Hc | u rand name k u' Hc Hn Hr H' IH]; intros fuel prev w V p s Hw HI K Hf.
  - apply run_reach; assumption.
  - set (m := marker rand name k) in *.
    destruct (marker_mid rand name k Hn Hr) as (mid & Em & _). fold m in Em.
    pose proof (marker_no_nul rand name k Hn Hr) as Hm0. fold m in Hm0.
    pose proof (marker_len_pos rand name k Hn Hr) as Hml. fold m in Hml.
    pose proof (pre_ok_no_nul u' H') as Hu0.
    (* the rest of the text after u, seen as 127 :: w1 *)
    set (w1 := (mid ++ [127]) ++ u' ++ 127 :: w).
    assert (Et : (u ++ m ++ u') ++ (127 :: w) ++ 0 :: V = u ++ (127 :: w1) ++ 0 :: V).
    { unfold w1. rewrite Em. repeat (rewrite <- app_assoc || rewrite <- app_comm_cons). reflexivity. }
    assert (Hw1 : ~ In 0 w1).
    { unfold w1. intro I0. apply in_app_or in I0. destruct I0 as [I0 | I0].
      - apply Hm0. rewrite Em. right. exact I0.
      - apply in_app_or in I0. destruct I0 as [I0 | [I0 | I0]]; [exact (Hu0 I0) | discriminate I0 | exact (Hw I0)]. }
    rewrite Et.
    destruct (run_reach o fuel prev u w1 V p s Hc Hw1 HI K) as (f1 & prev1 & s1 & E1 & Hf1 & K1 & HI1).
    { rewrite !app_length in Hf. lia. }
    rewrite E1.
    assert (Hf1pos : (1 <= f1)%nat) by (rewrite !app_length in Hf; lia).
    destruct f1 as [|f1']; [lia|]. cbn [run].
    assert (Em2 : (127 :: w1) ++ 0 :: V = m ++ u' ++ (127 :: w) ++ 0 :: V).
    { unfold w1. rewrite Em. repeat (rewrite <- app_assoc || rewrite <- app_comm_cons). reflexivity. }
    rewrite Em2.
    pose proof (step_at_marker rand name k (u' ++ (127 :: w) ++ 0 :: V) prev1 (length (p ++ u)) s1 Hn Hr) as Hst.
    cbv zeta in Hst. fold m in Hst.
    (* Inv and Keep after the marker step *)
    assert (Hnu : ~ In 0 (m ++ u' ++ 127 :: w)).
    { intro I0. apply in_app_or in I0. destruct I0 as [I0 | I0]; [exact (Hm0 I0)|].
      apply in_app_or in I0. destruct I0 as [I0 | [I0 | I0]]; [exact (Hu0 I0) | discriminate I0 | exact (Hw I0)]. }
    pose proof (step_spec prev1 (m ++ u' ++ 127 :: w) V (p ++ u) s1 Hnu HI1) as Hs.
    replace ((m ++ u' ++ 127 :: w) ++ 0 :: V) with (m ++ u' ++ (127 :: w) ++ 0 :: V) in Hs
      by (repeat (rewrite <- app_assoc || rewrite <- app_comm_cons); reflexivity).
    pose proof (step_keep o prev1 (m ++ u' ++ (127 :: w) ++ 0 :: V) (length (p ++ u)) s1 K1) as Hk.
    rewrite Hst in Hs, Hk |- *. destruct Hs as [_ HI2]. cbn [res_keep] in Hk.
    rewrite firstn_app_exact in HI2.
    rewrite skipn_app, skipn_all, Nat.sub_diag. cbn [skipn app].
    replace (length (p ++ u) + length m)%nat with (length ((p ++ u) ++ m)) by (rewrite !app_length; reflexivity).
    match goal with |- context [run f1' ?pv _ _ ?st] =>
      destruct (IH f1' pv w V ((p ++ u) ++ m) st Hw HI2 Hk) as (f2 & prev2 & s2 & E2 & Hf2 & K2 & HI2') end.
    { rewrite !app_length in Hf. lia. }
    exists f2, prev2, s2.
    replace (p ++ u ++ m ++ u') with (((p ++ u) ++ m) ++ u') by (repeat rewrite <- app_assoc; reflexivity).
    split; [exact E2|]. split; [|split; [exact K2 | exact HI2']].
    rewrite !app_length. lia.
Qed.

(* CONTEXT CONDITION (pre_ok u): the text in front of the marker consists of earlier complete markers and of
   stretches without NUL and 0x7f in which every "<" is closed by a later ">" of the same stretch.  Then, whatever
   follows the marker (v is arbitrary), the token list of the scan contains the token
   (t_uniq, start = |u|, length = |marker|): the marker is one token, never merged, retagged or dropped.
   The condition is what "outside an html tag / comment token" means for this scanner: the only rules that can run
   across 0x7f are "<" "/"? [a-zA-Z]+ [^\000<>]* "/"? ">" and "<!--" [^\000<>]* "-->" (rules_cross_ok). *)
Theorem marker_token_in_scan rand name k u v : name_ok name -> hex_ok rand -> pre_ok u ->
  exists l, scan (u ++ marker rand name k ++ v) = F_done l
            /\ In (Tok t_uniq (length u) (length (marker rand name k))) l.
Proof.
  intros Hn Hr Hc. set (m := marker rand name k).
  destruct (scan_tiles (u ++ m ++ v)) as (l & Hl & _). exists l. split; [exact Hl|].
  unfold scan in Hl. destruct sentinels_nonempty as (pad & Epad). rewrite Epad in Hl.
  destruct (before_nul_split v pad) as (V & EV).
  destruct (marker_mid rand name k Hn Hr) as (mid & Em & _). fold m in Em.
  set (w := mid ++ [127] ++ before_nul v).
  assert (Etext : (u ++ m ++ v) ++ 0 :: pad = u ++ (127 :: w) ++ 0 :: V).
  { unfold w. rewrite Em. repeat (rewrite <- app_assoc || rewrite <- app_comm_cons). cbn [app].
    rewrite EV. reflexivity. }
  assert (Hw : ~ In 0 w).
  { unfold w. intro I0. pose proof (marker_no_nul rand name k Hn Hr) as Hm0. fold m in Hm0. rewrite Em in Hm0.
    apply in_app_or in I0. destruct I0 as [I0 | I0].
    - apply Hm0. right. apply in_or_app. left. exact I0.
    - cbn [app] in I0. destruct I0 as [I0 | I0]; [discriminate I0 | exact (before_nul_no_nul v I0)]. }
  rewrite Etext in Hl.
  destruct (run_reach_pre None u Hc (length (u ++ m ++ v) + 1) None w V [] init Hw Inv_init) as (fuel' & prev' & s' & Er & Hfu & K' & _).
  - split; exact I.
  - rewrite app_length. lia.
  - change (length (@nil N)) with 0%nat in Er. change ([] ++ u) with u in Er. rewrite Er in Hl.
    assert (Hfuel : (1 <= fuel')%nat).
    { rewrite !app_length in Hfu. lia. }
    destruct fuel' as [|f']; [lia|]. cbn [run] in Hl.
    assert (Em2 : (127 :: w) ++ 0 :: V = m ++ before_nul v ++ 0 :: V).
    { unfold w. rewrite Em. repeat (rewrite <- app_assoc || rewrite <- app_comm_cons). reflexivity. }
    rewrite Em2 in Hl.
    pose proof (step_at_marker rand name k (before_nul v ++ 0 :: V) prev' (length u) s' Hn Hr) as Hst.
    cbv zeta in Hst. fold m in Hst. rewrite Hst in Hl.
    set (s0 := if match prev' with None => true | Some c => c =? 10 end then set_rowchar 0 s' else s') in *.
    assert (K0 : Keep None s0) by (unfold s0; destruct (match prev' with None => true | Some c => c =? 10 end); [apply Keep_rowchar|]; exact K').
    set (tk := Tok t_uniq (length u) (length m)).
    assert (K1 : Keep (Some tk) (found t_uniq (length u) (length m) s0)).
    { rewrite found_uniq. destruct (Keep_push None t_uniq (length u) (length m) s0 K0) as [A _].
      split; [exact A|]. split; [left; reflexivity | reflexivity]. }
    match type of Hl with run ?f ?pv ?rs ?ps ?st = _ => pose proof (run_keep tk f pv rs ps st K1) as R end.
    rewrite Hl in R. exact R.
Qed.

(* non-vacuity of the context: "a <b x='1'>" marker "c" in front of a second marker *)
Lemma pre_ok_example :
  pre_ok ([97; 32; 60; 98; 32; 120; 61; 39; 49; 39; 62] ++ marker [48; 97] [109; 97; 116; 104] 7 ++ [99])
  /\ name_ok [109; 97; 116; 104] /\ hex_ok [48; 97].
Proof.
  assert (Hn : name_ok [109; 97; 116; 104]) by (split; [discriminate | reflexivity]).
  assert (Hr : hex_ok [48; 97]) by (split; [discriminate | reflexivity]).
  split; [|split; assumption].
  apply pre_marker; try assumption.
  - cbn [clear In]. repeat split; try discriminate; try (intros _; tauto); auto 20.
  - apply pre_clear. cbn [clear]. repeat split; discriminate.
Qed.
