(* C09 -- lemmas about the matchers: every matcher returns (consumed, rest) with input = consumed ++ rest. *)
From Coq Require Import List NArith Bool Lia Arith PeanoNat.
From MW Require Import Common.Str C09.Gen_tables C09.Model.
Import ListNotations.
Open Scope N_scope.

(* ------------------------------------------------------------------ basic matchers *)
Lemma strip_prefix_spec p s r : strip_prefix p s = Some r -> s = p ++ r.
Proof.
  revert s; induction p as [|a p IH]; intros s H; cbn in *.
  - congruence.
  - destruct s as [|b s]; [discriminate|].
    destruct (N.eqb_spec a b) as [->|]; [|discriminate].
    cbn. f_equal. apply IH. exact H.
Qed.

Lemma strip_prefix_app p r : strip_prefix p (p ++ r) = Some r.
Proof. induction p as [|a p IH]; cbn; [reflexivity|]. rewrite N.eqb_refl. exact IH. Qed.

Lemma find_sub_spec p s b r : find_sub p s = Some (b, r) -> s = b ++ p ++ r.
Proof.
  revert b r; induction s as [|c s IH]; intros b r H.
  - cbn in H. destruct (strip_prefix p []) eqn:E.
    + inversion H; subst. apply strip_prefix_spec in E. exact E.
    + discriminate.
  - cbn [find_sub] in H. destruct (strip_prefix p (c :: s)) eqn:E.
    + inversion H; subst. apply strip_prefix_spec in E. exact E.
    + destruct (find_sub p s) as [[b' r']|] eqn:F; [|discriminate].
      inversion H; subst. cbn. f_equal. apply IH. reflexivity.
Qed.

Lemma span_spec f s a r : span f s = (a, r) -> s = a ++ r /\ forallb f a = true.
Proof.
  revert a r; induction s as [|c s IH]; intros a r H; cbn in H.
  - inversion H; subst. split; reflexivity.
  - destruct (f c) eqn:Fc.
    + destruct (span f s) as [a' r'] eqn:E. inversion H; subst.
      destruct (IH _ _ eq_refl) as [-> Ha]. split; [reflexivity|]. cbn. rewrite Fc. exact Ha.
    + inversion H; subst. split; reflexivity.
Qed.

Lemma span_stop f s a r : span f s = (a, r) -> match r with c :: _ => f c = false | [] => True end.
Proof.
  revert a r; induction s as [|c s IH]; intros a r H; cbn in H.
  - inversion H; subst. exact I.
  - destruct (f c) eqn:Fc.
    + destruct (span f s) as [a' r'] eqn:E. inversion H; subst. eapply IH. reflexivity.
    + inversion H; subst. exact Fc.
Qed.

Lemma span_app f a x r : forallb f a = true -> f x = false -> span f (a ++ x :: r) = (a, x :: r).
Proof.
  intros Ha Hx. induction a as [|c a IH]; cbn.
  - rewrite Hx. reflexivity.
  - cbn in Ha. apply andb_true_iff in Ha as [Hc Ha]. rewrite Hc, (IH Ha). reflexivity.
Qed.

Lemma span_all f a : forallb f a = true -> span f a = (a, []).
Proof.
  intros Ha. induction a as [|c a IH]; cbn; [reflexivity|].
  cbn in Ha. apply andb_true_iff in Ha as [Hc Ha]. rewrite Hc, (IH Ha). reflexivity.
Qed.

(* ------------------------------------------------------------------ comments *)
Lemma comment_at_spec s g2 body g3 r :
  comment_at s = Some (g2, body, g3, r) -> s = (g2 ++ body ++ g3) ++ r /\ body <> [].
Proof.
  unfold comment_at. intros H.
  destruct (match s with
            | [] => ([], s)
            | c :: s' => if c =? 10 then let (sp, r0) := span is_sp s' in (c :: sp, r0) else ([], s)
            end) as [g s1] eqn:E1.
  assert (Hs : s = g ++ s1).
  { destruct s as [|c s']; [inversion E1; reflexivity|].
    destruct (c =? 10); [|inversion E1; reflexivity].
    destruct (span is_sp s') as [sp r0] eqn:E. inversion E1; subst.
    apply span_spec in E as [-> _]. reflexivity. }
  destruct (strip_prefix comment_open s1) as [s2|] eqn:E2; [|discriminate].
  apply strip_prefix_spec in E2.
  destruct (find_sub comment_close s2) as [[b s3]|] eqn:E3; [|discriminate].
  apply find_sub_spec in E3.
  destruct (span is_sp s3) as [sp r0] eqn:E4.
  pose proof (span_spec _ _ _ _ E4) as [Hs3 _].
  assert (Hbody : forall g3' r', g2 = g -> body = comment_open ++ b ++ comment_close -> g3 = g3' -> r = r' ->
                                 s3 = g3' ++ r' -> s = (g2 ++ body ++ g3) ++ r /\ body <> []).
  { intros g3' r' -> -> -> -> Hr. split; [|discriminate].
    rewrite Hs, E2, E3, Hr. repeat rewrite <- app_assoc. reflexivity. }
  destruct r0 as [|c r'].
  - inversion H; subst. eapply Hbody; try reflexivity.
  - destruct (N.eqb_spec c 10) as [->|].
    + inversion H; subst. eapply Hbody; try reflexivity. rewrite <- app_assoc. reflexivity.
    + inversion H; subst. eapply Hbody; try reflexivity.
Qed.

Lemma comment_repl_in x g2 g3 : In x (comment_repl g2 g3) -> x = 10 \/ In x (g2 ++ g3).
Proof.
  unfold comment_repl. destruct g2 as [|a g2]; destruct g3 as [|b g3]; cbn; intros H; auto.
  destruct H as [<-|[]]. left; reflexivity.
Qed.

(* ------------------------------------------------------------------ tags *)
Lemma ci_prefix_spec name s m r :
  ci_prefix name s = Some (m, r) -> s = m ++ r /\ Forall2 (fun l c => ci_lit l c = true) name m.
Proof.
  revert s m r; induction name as [|l name IH]; intros s m r H; cbn in H.
  - inversion H; subst. split; [reflexivity|constructor].
  - destruct s as [|c s]; [discriminate|].
    destruct (ci_lit l c) eqn:L; [|discriminate].
    destruct (ci_prefix name s) as [[m' r']|] eqn:E; [|discriminate].
    inversion H; subst. destruct (IH _ _ _ E) as [-> F]. split; [reflexivity|]. constructor; assumption.
Qed.

Lemma bref_prefix_spec m s a r : bref_prefix m s = Some (a, r) -> s = a ++ r /\ length a = length m.
Proof.
  revert s a r; induction m as [|x m IH]; intros s a r H; cbn in H.
  - inversion H; subst. split; reflexivity.
  - destruct s as [|y s]; [discriminate|].
    destruct (sre_lower x =? sre_lower y); [|discriminate].
    destruct (bref_prefix m s) as [[a' r']|] eqn:E; [|discriminate].
    inversion H; subst. destruct (IH _ _ _ E) as [-> L]. split; [reflexivity|]. cbn. f_equal. exact L.
Qed.

(* shape of a closing tag: "</" nm w ">" *)
Definition closing_shape (m cl : list N) : Prop :=
  exists nm w, cl = 60 :: 47 :: nm ++ w ++ [62] /\ length nm = length m /\ forallb is_ws w = true.

Lemma close_at_spec m s cl r : close_at m s = Some (cl, r) -> s = cl ++ r /\ closing_shape m cl.
Proof.
  unfold close_at. intros H.
  destruct (strip_prefix [60; 47] s) as [s1|] eqn:E1; [|discriminate].
  apply strip_prefix_spec in E1.
  destruct (bref_prefix m s1) as [[nm s2]|] eqn:E2; [|discriminate].
  apply bref_prefix_spec in E2 as [-> L].
  destruct (span is_ws s2) as [w s3] eqn:E3. apply span_spec in E3 as [-> W].
  destruct s3 as [|c s4]; [discriminate|].
  destruct (N.eqb_spec c 62) as [->|]; [|discriminate].
  inversion H; subst. split.
  - cbn. repeat rewrite <- app_assoc. reflexivity.
  - exists nm, w. auto.
Qed.

Lemma find_close_spec m s i cl r :
  find_close m s = Some (i, cl, r) -> s = i ++ cl ++ r /\ closing_shape m cl.
Proof.
  revert i cl r; induction s as [|c s IH]; intros i cl r H.
  - cbn in H. discriminate.
  - cbn [find_close] in H. destruct (close_at m (c :: s)) as [[cl' r']|] eqn:E.
    + inversion H; subst. apply close_at_spec in E. exact E.
    + destruct (find_close m s) as [[[i' cl'] r']|] eqn:F; [|discriminate].
      inversion H; subst. destruct (IH _ _ _ eq_refl) as [-> C]. split; [reflexivity|exact C].
Qed.

Lemma last_opt_removelast a c : last_opt a = Some c -> a = removelast a ++ [c].
Proof.
  induction a as [|x a IH]; [discriminate|].
  destruct a as [|y a].
  - cbn. intros H; inversion H; reflexivity.
  - intros H. change (last_opt (x :: y :: a)) with (last_opt (y :: a)) in H.
    change (removelast (x :: y :: a)) with (x :: removelast (y :: a)).
    cbn [app]. f_equal. apply IH. exact H.
Qed.

Definition kind_text (k : open_kind) : list N := match k with SelfClose => [47; 62] | Open => [62] end.

Lemma after_name_spec s vl k r : after_name s = Some (vl, k, r) -> s = vl ++ kind_text k ++ r.
Proof.
  unfold after_name. intros H. destruct s as [|c s1]; [discriminate|].
  destruct (is_ws c).
  - destruct (span (fun x => negb (is_lg x)) s1) as [a r0] eqn:E. apply span_spec in E as [-> _].
    destruct r0 as [|d r1]; [discriminate|].
    destruct (N.eqb_spec d 62) as [->|]; [|discriminate].
    destruct (last_opt a) as [x|] eqn:L.
    + destruct (N.eqb_spec x 47) as [->|Hx].
      * inversion H; subst. apply last_opt_removelast in L. rewrite L at 1.
        cbn. repeat rewrite <- app_assoc. reflexivity.
      * assert (H' : Some (c :: a, Open, r1) = Some (vl, k, r)).
        { destruct x as [|p]; [exact H|]. repeat (destruct p as [p|p|]; try exact H). congruence. }
        inversion H'; subst. cbn. reflexivity.
    + inversion H; subst. cbn. reflexivity.
  - destruct (N.eqb_spec c 47) as [->|].
    + destruct s1 as [|d r1]; [discriminate|].
      destruct (N.eqb_spec d 62) as [->|]; [|discriminate]. inversion H; subst. reflexivity.
    + destruct (N.eqb_spec c 62) as [->|]; [|discriminate]. inversion H; subst. reflexivity.
Qed.

(* what a tag occurrence is: the matched text decomposed into name, attributes, body, closing tag *)
Definition tag_occurrence (name m vl inner whole : list N) : Prop :=
  Forall2 (fun l c => ci_lit l c = true) name m /\
  ((whole = 60 :: m ++ vl ++ [47; 62] /\ inner = []) \/
   (exists cl, whole = 60 :: m ++ vl ++ 62 :: inner ++ cl /\ closing_shape m cl)).

Lemma tag_with_spec name s1 m vl inner whole r :
  tag_with name s1 = Some (m, vl, inner, whole, r) ->
  60 :: s1 = whole ++ r /\ tag_occurrence name m vl inner whole.
Proof.
  unfold tag_with. intros H.
  destruct (ci_prefix name s1) as [[m' s2]|] eqn:E1; [|discriminate].
  apply ci_prefix_spec in E1 as [-> F].
  destruct (after_name s2) as [[[vl' k] s3]|] eqn:E2; [|discriminate].
  apply after_name_spec in E2. destruct k.
  - inversion H; subst. split.
    + cbn. repeat rewrite <- app_assoc. reflexivity.
    + split; [exact F|]. left. split; reflexivity.
  - destruct (find_close m' s3) as [[[i cl] r']|] eqn:E3; [|discriminate].
    apply find_close_spec in E3 as [-> C]. inversion H; subst. split.
    + cbn. repeat rewrite <- app_assoc. cbn. repeat rewrite <- app_assoc. reflexivity.
    + split; [exact F|]. right. exists cl. split; [reflexivity|exact C].
Qed.

Lemma first_some_spec {A B} (f : A -> option B) l y :
  first_some f l = Some y -> exists x, In x l /\ f x = Some y.
Proof.
  induction l as [|x l IH]; cbn; [discriminate|].
  destruct (f x) eqn:E.
  - intros H; inversion H; subst. exists x. auto.
  - intros H. destruct (IH H) as [x' [I F]]. exists x'. auto.
Qed.

Lemma tag_at_spec s m vl inner whole r :
  tag_at s = Some (m, vl, inner, whole, r) ->
  s = whole ++ r /\ exists name, In name tag_names /\ tag_occurrence name m vl inner whole.
Proof.
  unfold tag_at. intros H. destruct s as [|c s1]; [discriminate|].
  destruct (N.eqb_spec c 60) as [->|]; [|discriminate].
  apply first_some_spec in H as [name [I T]].
  apply tag_with_spec in T as [E O]. split; [exact E|]. exists name. auto.
Qed.

(* ------------------------------------------------------------------ match_at *)
Definition hit_ok (h : hit) : Prop :=
  match h with
  | HComment src repl => forall x, In x repl -> x = 10 \/ In x src
  | HTag src e =>
      exists name m, In name tag_names /\ tag_occurrence name m (e_vlist e) (e_inner e) src /\
                     e_tag e = py_lower m /\
                     e_complete e = if str_eqb (e_tag e) nowiki then e_inner e else src
  end.

Lemma match_at_spec s h :
  match_at s = Some h -> (exists r, s = hit_src h ++ r) /\ hit_src h <> [] /\ hit_ok h.
Proof.
  unfold match_at. intros H.
  destruct (comment_at s) as [[[[g2 body] g3] r]|] eqn:C.
  - inversion H; subst. apply comment_at_spec in C as [E B]. cbn. split; [exists r; exact E|]. split.
    + intros Z. apply app_eq_nil in Z as [_ Z]. apply app_eq_nil in Z as [Z _]. contradiction.
    + intros x Hx. apply comment_repl_in in Hx as [->|Hx]; [left; reflexivity|right].
      apply in_app_or in Hx as [Hx|Hx]; apply in_or_app; [left; exact Hx|right; apply in_or_app; right; exact Hx].
  - destruct (tag_at s) as [[[[[m vl] inner] whole] r]|] eqn:T; [|discriminate].
    inversion H; subst. apply tag_at_spec in T as [E [name [I O]]]. cbn. split; [exists r; exact E|]. split.
    + destruct O as [_ [[-> _]|[cl [-> _]]]]; discriminate.
    + exists name, m. cbn. auto.
Qed.

(* ------------------------------------------------------------------ segmentation tiles the text *)
Lemma segments_go_skip s n :
  (n <= length s)%nat -> segments_go s n = segments_go (skipn n s) 0.
Proof.
  revert n; induction s as [|c s IH]; intros n Hn.
  - destruct n; reflexivity.
  - destruct n as [|n]; [reflexivity|]. cbn [segments_go skipn]. apply IH. cbn in Hn. lia.
Qed.

Lemma segments_go_match s h r :
  match_at s = Some h -> s = hit_src h ++ r ->
  segments_go s 0 = (match h with HComment a b => Comment a b | HTag a e => Tag a e end) :: segments_go r 0.
Proof.
  intros M E. pose proof (match_at_spec _ _ M) as [_ [NE _]].
  destruct s as [|c s']; [destruct (hit_src h); [contradiction|discriminate]|].
  cbn [segments_go]. rewrite M.
  assert (K : segments_go s' (pred (length (hit_src h))) = segments_go r 0).
  { destruct (hit_src h) as [|x src'] eqn:Hs; [contradiction|].
    cbn in E. inversion E; subst. cbn [length pred].
    rewrite segments_go_skip by (rewrite app_length; lia).
    rewrite skipn_app, skipn_all, Nat.sub_diag. reflexivity. }
  destruct h; cbn in K |- *; rewrite K; reflexivity.
Qed.

Lemma segments_tile_aux n : forall s, (length s <= n)%nat -> concat (map seg_source (segments_go s 0)) = s.
Proof.
  induction n as [|n IH]; intros s L.
  - destruct s; [reflexivity|cbn in L; lia].
  - destruct s as [|c s']; [reflexivity|].
    destruct (match_at (c :: s')) as [h|] eqn:M.
    + pose proof (match_at_spec _ _ M) as [[r E] [NE _]].
      rewrite (segments_go_match _ _ _ M E). cbn [map concat].
      rewrite IH.
      * rewrite E. destruct h; reflexivity.
      * assert (length (c :: s') = length (hit_src h) + length r)%nat by (rewrite E at 1; apply app_length).
        destruct (hit_src h); [contradiction|]. cbn in *. lia.
    + cbn [segments_go]. rewrite M. cbn [map concat seg_source app]. f_equal. apply IH. cbn in L. lia.
Qed.

Lemma segments_tile s : concat (map seg_source (segments s)) = s.
Proof. apply (segments_tile_aux (length s)). lia. Qed.

(* every segment satisfies hit_ok *)
Definition seg_ok (x : seg) : Prop :=
  match x with
  | Plain _ => True
  | Comment src repl => hit_ok (HComment src repl)
  | Tag src e => hit_ok (HTag src e)
  end.

Lemma segments_ok_aux n : forall s, (length s <= n)%nat -> Forall seg_ok (segments_go s 0).
Proof.
  induction n as [|n IH]; intros s L.
  - destruct s; [constructor|cbn in L; lia].
  - destruct s as [|c s']; [constructor|].
    destruct (match_at (c :: s')) as [h|] eqn:M.
    + pose proof (match_at_spec _ _ M) as [[r E] [NE OK]].
      rewrite (segments_go_match _ _ _ M E). constructor.
      * destruct h; exact OK.
      * apply IH.
        assert (length (c :: s') = length (hit_src h) + length r)%nat by (rewrite E at 1; apply app_length).
        destruct (hit_src h); [contradiction|]. cbn in *. lia.
    + cbn [segments_go]. rewrite M. constructor; [exact I|]. apply IH. cbn in L. lia.
Qed.

Lemma segments_ok s : Forall seg_ok (segments s).
Proof. apply (segments_ok_aux (length s)). lia. Qed.
