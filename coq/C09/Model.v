(* C09 -- executable model of mwlib/utils/uniq.py (Uniquifier) and of the two scanner rules
   that must treat its markers as inert.  No proofs here.

   replace_tags (uniq.py:65-94) compiles, with VERBOSE|DOTALL|IGNORECASE (str pattern, so UNICODE):

       (?P<comment> (\n[ ]* )?<!--.*?-->([ ]*\n)? ) |   [the space after the first [ ]* is not in the source]
       (?: <(?P<tagname> N1|N2|...) (?P<vlist> \s[^<>]* )?
           ( /> | (?<!/) > (?P<inner>.*?) </(?P=tagname)\s*> ) )

   and calls regex.sub(self._repl_to_uniq, txt): leftmost match, alternatives in order, backtracking.
   The transcription below is deterministic because every backtracking choice of this particular
   pattern is forced (see the comment at each function).  The tag names, \s, \d and the IGNORECASE
   tables are generated (Gen_tables.v) from the snapshot and the running CPython on every run. *)
From Coq Require Import List NArith Bool Decimal.
From MW Require Import Common.Str C09.Gen_tables.
Import ListNotations.
Open Scope N_scope.

(* ------------------------------------------------------------------ character classes *)
Definition in_ranges (rs : list (N * N)) (c : N) : bool :=
  existsb (fun r => (fst r <=? c) && (c <=? snd r)) rs.
Definition is_ws (c : N) : bool := in_ranges ws_ranges c.          (* re \s *)
Definition is_nd (c : N) : bool := in_ranges nd_ranges c.          (* re \d *)
Definition is_lg (c : N) : bool := (c =? 60) || (c =? 62).         (* < > *)

Definition is_upper_ascii (c : N) : bool := (65 <=? c) && (c <=? 90).
Definition ascii_lower (c : N) : N := if is_upper_ascii c then c + 32 else c.

Fixpoint assocN {A} (c : N) (l : list (N * A)) : option A :=
  match l with
  | [] => None
  | (k, v) :: l' => if k =? c then Some v else assocN c l'
  end.

(* pattern character l (a lower-case ASCII letter or a digit of a tag name) against input c, IGNORECASE *)
Definition ci_lit (l c : N) : bool :=
  (ascii_lower c =? l) || existsb (fun p => (fst p =? c) && (snd p =? l)) fold_extra.
(* sre_lower_unicode, as used by the case-insensitive back-reference (?P=tagname) *)
Definition sre_lower (c : N) : N :=
  match assocN c sre_lower_extra with Some d => d | None => ascii_lower c end.
(* str.lower() on one code point (only ever applied to text matched by a tag name) *)
Definition py_lower1 (c : N) : list N :=
  match assocN c py_lower_extra with Some l => l | None => [ascii_lower c] end.
Definition py_lower (s : list N) : list N := flat_map py_lower1 s.

(* ------------------------------------------------------------------ small matchers: (consumed, rest) *)
Fixpoint strip_prefix (p s : list N) : option (list N) :=
  match p, s with
  | [], _ => Some s
  | a :: p', b :: s' => if a =? b then strip_prefix p' s' else None
  | _ :: _, [] => None
  end.

(* first occurrence of p: (text before it, text after it) -- `.*?p` under DOTALL *)
Fixpoint find_sub (p s : list N) : option (list N * list N) :=
  match strip_prefix p s with
  | Some r => Some ([], r)
  | None => match s with
            | [] => None
            | c :: s' => match find_sub p s' with
                         | Some (b, r) => Some (c :: b, r)
                         | None => None
                         end
            end
  end.

Fixpoint span (f : N -> bool) (s : list N) : list N * list N :=
  match s with
  | c :: s' => if f c then let (a, r) := span f s' in (c :: a, r) else ([], s)
  | [] => ([], [])
  end.

Definition is_sp (c : N) : bool := c =? 32.

Fixpoint last_opt (s : list N) : option N :=
  match s with [] => None | [c] => Some c | _ :: s' => last_opt s' end.

(* ------------------------------------------------------------------ alternative 1: comments *)
Definition comment_open : list N := [60; 33; 45; 45].    (* <!-- *)
Definition comment_close : list N := [45; 45; 62].       (* --> *)

(* (g2, comment text, g3, rest).  The group (\n[ ]* )? is greedy; if "<!--" does not follow, giving the group
   up leaves "\n" in front of "<!--": no match.  .*?--> stops at the first "-->" (what follows is
   optional).  The group ([ ]*\n )? is taken iff spaces* "\n" follows. *)
Definition comment_at (s : list N) : option (list N * list N * list N * list N) :=
  let '(g2, s1) := match s with
                   | c :: s' => if c =? 10 then let (sp, r) := span is_sp s' in (c :: sp, r) else ([], s)
                   | [] => ([], s)
                   end in
  match strip_prefix comment_open s1 with
  | None => None
  | Some s2 =>
      match find_sub comment_close s2 with
      | None => None
      | Some (b, s3) =>
          let body := comment_open ++ b ++ comment_close in
          let (sp, r) := span is_sp s3 in
          match r with
          | c :: r' => if c =? 10 then Some (g2, body, sp ++ [10], r') else Some (g2, body, [], s3)
          | [] => Some (g2, body, [], s3)
          end
      end
  end.

(* _repl_to_uniq, tagname is None (uniq.py:42-48): txt[start]=="\n" iff g2 matched, txt[end-1]=="\n" iff g3 did *)
Definition comment_repl (g2 g3 : list N) : list N :=
  match g2, g3 with
  | _ :: _, _ :: _ => [10]
  | _, _ => g2 ++ g3
  end.

(* ------------------------------------------------------------------ alternative 2: tags *)
(* tag name, case-insensitively: (matched text, rest) *)
Fixpoint ci_prefix (name s : list N) : option (list N * list N) :=
  match name, s with
  | [], _ => Some ([], s)
  | l :: name', c :: s' =>
      if ci_lit l c then
        match ci_prefix name' s' with Some (m, r) => Some (c :: m, r) | None => None end
      else None
  | _ :: _, [] => None
  end.

(* (?P=tagname) under IGNORECASE: rest after the back-referenced text *)
Fixpoint bref_prefix (m s : list N) : option (list N * list N) :=
  match m, s with
  | [], _ => Some ([], s)
  | x :: m', y :: s' =>
      if sre_lower x =? sre_lower y then
        match bref_prefix m' s' with Some (a, r) => Some (y :: a, r) | None => None end
      else None
  | _ :: _, [] => None
  end.

(* "</" name \s* ">" at the head: (closing tag text, rest).  \s* is greedy and ">" is not \s. *)
Definition close_at (m s : list N) : option (list N * list N) :=
  match strip_prefix [60; 47] s with
  | None => None
  | Some s1 =>
      match bref_prefix m s1 with
      | None => None
      | Some (nm, s2) =>
          let (w, s3) := span is_ws s2 in
          match s3 with
          | c :: s4 => if c =? 62 then Some (60 :: 47 :: nm ++ w ++ [62], s4) else None
          | [] => None
          end
      end
  end.

(* (?P<inner>.*?) then the closing tag: first position where the closing tag matches *)
Fixpoint find_close (m s : list N) : option (list N * list N * list N) :=
  match close_at m s with
  | Some (cl, r) => Some ([], cl, r)
  | None => match s with
            | [] => None
            | c :: s' => match find_close m s' with
                         | Some (i, cl, r) => Some (c :: i, cl, r)
                         | None => None
                         end
            end
  end.

Inductive open_kind := SelfClose | Open.

(* after the tag name: the optional group vlist = \s[^<>]* then "/>" or (?<!/)">".  Let k be the first < or > after a
   leading \s.  The greedy vlist runs up to k; only text[k] = ">" can continue.  If text[k-1] = "/"
   (and k-1 is not the \s itself) the look-behind fails and the only other split, vlist up to k-1
   followed by "/>", succeeds; otherwise ">" opens the tag, and if no closing tag exists no other
   split can succeed either ("/>" would need text[k-1] = "/").  Without a leading \s the vlist is
   absent and "/>" or ">" must follow directly (the look-behind sees a name character). *)
Definition after_name (s : list N) : option (list N * open_kind * list N) :=
  match s with
  | [] => None
  | c :: s1 =>
      if is_ws c then
        let (a, r) := span (fun x => negb (is_lg x)) s1 in
        match r with
        | d :: r1 =>
            if d =? 62 then
              match last_opt a with
              | Some 47 => Some (c :: removelast a, SelfClose, r1)
              | _ => Some (c :: a, Open, r1)
              end
            else None
        | [] => None
        end
      else if c =? 47 then
        match s1 with
        | d :: r1 => if d =? 62 then Some ([], SelfClose, r1) else None
        | [] => None
        end
      else if c =? 62 then Some ([], Open, s1)
      else None
  end.

Record entry := mkEntry {
  e_tag : list N;        (* result["tagname"]  = matched name .lower() *)
  e_inner : list N;      (* result["inner"] *)
  e_vlist : list N;      (* result["vlist"] *)
  e_complete : list N;   (* result["complete"]: group(0), or inner for nowiki *)
}.

Definition nowiki : list N := [110; 111; 119; 105; 107; 105].

(* one alternative of the name group: (matched name, vlist, inner, whole match, rest) *)
Definition tag_with (name s1 : list N) : option (list N * list N * list N * list N * list N) :=
  match ci_prefix name s1 with
  | None => None
  | Some (m, s2) =>
      match after_name s2 with
      | None => None
      | Some (vl, SelfClose, r) => Some (m, vl, [], 60 :: m ++ vl ++ [47; 62], r)
      | Some (vl, Open, s3) =>
          match find_close m s3 with
          | None => None
          | Some (inner, cl, r) => Some (m, vl, inner, 60 :: m ++ vl ++ 62 :: inner ++ cl, r)
          end
      end
  end.

Fixpoint first_some {A B} (f : A -> option B) (l : list A) : option B :=
  match l with
  | [] => None
  | x :: l' => match f x with Some y => Some y | None => first_some f l' end
  end.

Definition tag_at (s : list N) : option (list N * list N * list N * list N * list N) :=
  match s with
  | c :: s1 => if c =? 60 then first_some (fun name => tag_with name s1) tag_names else None
  | [] => None
  end.

(* what the regex matches at the head of s, if anything *)
Inductive hit :=
| HComment (src repl : list N)          (* matched text, replacement *)
| HTag (src : list N) (e : entry).      (* matched text, table entry *)

Definition hit_src (h : hit) : list N := match h with HComment s _ => s | HTag s _ => s end.

Definition mk_entry (m vl inner whole : list N) : entry :=
  let t := py_lower m in
  mkEntry t inner vl (if str_eqb t nowiki then inner else whole).

Definition match_at (s : list N) : option hit :=
  match comment_at s with
  | Some (g2, body, g3, _) => Some (HComment (g2 ++ body ++ g3) (comment_repl g2 g3))
  | None =>
      match tag_at s with
      | Some (m, vl, inner, whole, _) => Some (HTag whole (mk_entry m vl inner whole))
      | None => None
      end
  end.

(* ------------------------------------------------------------------ get_uniq (uniq.py:21-26) *)
Definition digit_of (d : uint) : list N :=
  (fix go (d : uint) : list N :=
     match d with
     | Nil => []
     | D0 d => 48 :: go d | D1 d => 49 :: go d | D2 d => 50 :: go d | D3 d => 51 :: go d
     | D4 d => 52 :: go d | D5 d => 53 :: go d | D6 d => 54 :: go d | D7 d => 55 :: go d
     | D8 d => 56 :: go d | D9 d => 57 :: go d
     end) d.
Definition dec (n : N) : list N := digit_of (N.to_uint n).      (* f"{count}" *)

Definition uniq_head : list N := [127; 85; 78; 73; 81; 45].      (* \x7fUNIQ- *)
Definition qinu_tail : list N := [45; 81; 73; 78; 85; 127].      (* -QINU\x7f *)
Definition marker (rand name : list N) (k : N) : list N :=
  uniq_head ++ name ++ 45 :: dec k ++ 45 :: rand ++ qinu_tail.

(* ------------------------------------------------------------------ segmentation = what re.sub sees *)
Inductive seg :=
| Plain (c : N)                       (* a character outside every match *)
| Comment (src repl : list N)
| Tag (src : list N) (e : entry).

(* leftmost non-overlapping matches; `skip` counts the characters of the current match still to be
   consumed (structural recursion on the text, no fuel) *)
Fixpoint segments_go (s : list N) (skip : nat) : list seg :=
  match s with
  | [] => []
  | c :: s' =>
      match skip with
      | S n => segments_go s' n
      | O =>
          match match_at s with
          | Some (HComment src repl) => Comment src repl :: segments_go s' (pred (length src))
          | Some (HTag src e) => Tag src e :: segments_go s' (pred (length src))
          | None => Plain c :: segments_go s' 0
          end
      end
  end.
Definition segments (s : list N) : list seg := segments_go s 0.

Definition seg_source (x : seg) : list N :=
  match x with Plain c => [c] | Comment src _ => src | Tag src _ => src end.

(* ------------------------------------------------------------------ protect = replace_tags *)
(* k = len(uniq2repl) before the call; returns the new text and the entries added, in order *)
Fixpoint protect_segs (rand : list N) (k : N) (l : list seg) : list N * list (list N * entry) :=
  match l with
  | [] => ([], [])
  | Plain c :: l' => let (o, t) := protect_segs rand k l' in (c :: o, t)
  | Comment _ repl :: l' => let (o, t) := protect_segs rand k l' in (repl ++ o, t)
  | Tag _ e :: l' =>
      let mk := marker rand (e_tag e) k in
      let (o, t) := protect_segs rand (k + 1) l' in (mk ++ o, (mk, e) :: t)
  end.
Definition protect (rand : list N) (k : N) (s : list N) : list N * list (list N * entry) :=
  protect_segs rand k (segments s).

(* ------------------------------------------------------------------ restore = replace_uniq *)
Definition is_lower_alnum (c : N) : bool := ((97 <=? c) && (c <=? 122)) || ((48 <=? c) && (c <=? 57)).
Definition is_hexlower (c : N) : bool := ((97 <=? c) && (c <=? 102)) || ((48 <=? c) && (c <=? 57)).
Definition is_digit (c : N) : bool := (48 <=? c) && (c <=? 57).

(* X+ "-" for a class X not containing "-": maximal run, non-empty, then "-" : (run, rest after "-") *)
Definition run_dash (f : N -> bool) (s : list N) : option (list N * list N) :=
  let (a, r) := span f s in
  match a, r with
  | _ :: _, d :: r' => if d =? 45 then Some (a, r') else None
  | _, _ => None
  end.

(* generic marker shape  \x7fUNIQ- A+ - B+ - C+ -QINU\x7f  at the head: (matched text, rest) *)
Definition uniq_shape (fa fb fc : N -> bool) (s : list N) : option (list N * list N) :=
  match strip_prefix uniq_head s with
  | None => None
  | Some s1 =>
      match run_dash fa s1 with
      | None => None
      | Some (a, s2) =>
          match run_dash fb s2 with
          | None => None
          | Some (b, s3) =>
              let (c, s4) := span fc s3 in
              match c with
              | [] => None
              | _ :: _ =>
                  match strip_prefix qinu_tail s4 with
                  | Some r => Some (uniq_head ++ a ++ 45 :: b ++ 45 :: c ++ qinu_tail, r)
                  | None => None
                  end
              end
          end
      end
  end.

(* uniq.py:36  "\x7fUNIQ-[a-z0-9]+-\d+-[a-f0-9]+-QINU\x7f" (no flags; \d is Unicode Nd) *)
Definition uniq_at : list N -> option (list N * list N) := uniq_shape is_lower_alnum is_nd is_hexlower.

Fixpoint lookup (m : list N) (t : list (list N * entry)) : option entry :=
  match t with
  | [] => None
  | (k, e) :: t' => if str_eqb k m then Some e else lookup m t'
  end.

Fixpoint restore_go (t : list (list N * entry)) (s : list N) (skip : nat) : list N :=
  match s with
  | [] => []
  | c :: s' =>
      match skip with
      | S n => restore_go t s' n
      | O =>
          match uniq_at s with
          | Some (m, _) =>
              (match lookup m t with Some e => e_complete e | None => m end)
                ++ restore_go t s' (pred (length m))
          | None => c :: restore_go t s' 0
          end
      end
  end.
Definition restore (t : list (list N * entry)) (s : list N) : list N := restore_go t s 0.

(* what replace_uniq (replace_tags t) is, read off the segmentation *)
Definition seg_restored (x : seg) : list N :=
  match x with Plain c => [c] | Comment _ repl => repl | Tag _ e => e_complete e end.

(* ------------------------------------------------------------------ the wikitext scanner's rule *)
(* _uscan.re:258  "\X007F" "UNIQ-" [a-z0-9]+ "-" [0-9]+ "-" [0-9a-f]+ "-QINU" "\X007f"  {RET(t_uniq);} *)
Definition t_uniq_at : list N -> option (list N * list N) := uniq_shape is_lower_alnum is_digit is_hexlower.

(* first characters of the other rules of the not_bol block that could begin INSIDE a token only if
   the scanner stopped there: the rule is a single regular expression, re2c takes the longest match,
   so what matters is (a) the whole marker matches, (b) no other rule matches anything starting at
   0x7f except the one-character fallback `.`, which is shorter. *)

(* ------------------------------------------------------------------ template tokenizer classes *)
(* templ/scanner.py:8-24 SPLIT_PATTERN: a character can start or end a non-"others" token only if it
   is one of  { } [ ] | = <  ; the last alternative [^=\[\]\|{}<]* takes a maximal run of the others *)
Definition is_split_special (c : N) : bool :=
  (c =? 123) || (c =? 125) || (c =? 91) || (c =? 93) || (c =? 124) || (c =? 61) || (c =? 60).

(* the token the last alternative produces at the head of s (only meaningful when the head is not special) *)
Definition text_token (s : list N) : list N * list N := span (fun c => negb (is_split_special c)) s.

(* str.strip(): Python whitespace for str.strip is str.isspace, which equals re \s on str *)
Fixpoint lstrip (s : list N) : list N :=
  match s with c :: s' => if is_ws c then lstrip s' else s | [] => [] end.
Definition strip (s : list N) : list N := List.rev (lstrip (List.rev (lstrip s))).
