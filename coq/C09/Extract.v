From Coq Require Import Extraction ExtrOcamlBasic.
From MW Require Import Common.Str C09.Gen_tables C09.Model C09.PreModel.
Extraction "../ocaml/c09/c09_model.ml" protect restore segments t_uniq_at uniq_at text_token strip marker is_split_special remove_nowiki_tags.
