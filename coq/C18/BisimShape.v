(* C18 — restart bisimulation, part 9: what `drop every connection` does to a state: running the queued EvKill
   events leaves every connection Dead with no running jobs; job table, id table, count and clock are unchanged. *)
From Coq Require Import List NArith Bool Lia Arith Sorted.
From MW Require Import C16.Model C16.Proofs C17.Proofs C17.ProofsOrder C17.ProofsCount C17.ProofsLive C18.Proofs C18.ProofsIds
  C18.ProofsInv C18.ProofsTimeout C18.BisimBase C18.BisimTE C18.BisimXI.
Import ListNotations.
Open Scope N_scope.

Definition is_notify (e : event) : Prop := match e with EvNotify _ => True | _ => False end.

Lemma id_set_same : forall ids i v, id_lookup ids i = Some v -> id_set ids i v = ids.
Proof.
  induction ids as [|[k w] r IH]; intros i v H; cbn [id_lookup id_set] in *; [discriminate|].
  destruct (jid_eqb k i) eqn:E; [inversion H; reflexivity|]. rewrite IH by exact H. reflexivity.
Qed.

Lemma put_conn_ids_same : forall cs x, In (c_id x) (map c_id cs) -> map c_id (put_conn cs x) = map c_id cs.
Proof.
  induction cs as [|y r IH]; intros x H; [destruct H|]. cbn [put_conn map] in *.
  destruct (c_id y =? c_id x) eqn:E; cbn [map]; [apply N.eqb_eq in E; congruence|].
  destruct H as [H|H]; [rewrite H, N.eqb_refl in E; discriminate|]. rewrite IH by exact H. reflexivity.
Qed.

(* ------------------------------------------------------------------ the loop invariant (no Inv needed) *)

Definition addr_ok (js : list job) (ids : list (jid * N)) : Prop :=
  forall x j, getjob js x = Some j -> j_done j = false -> id_lookup ids (j_id j) = Some x.

Record LS (js : list job) (ids : list (jid * N)) (cnt now : N) (cids : list N) (t : state) : Prop := {
  ls_jobs : s_jobs t = js; ls_ids : s_ids t = ids; ls_count : s_count t = cnt; ls_now : s_now t = now;
  ls_cids : map c_id (s_conns t) = cids;
  ls_hub : Forall is_notify (s_hub t);
  ls_w : forall w, In w (s_waiters t) -> In (fst w) cids
}.

Lemma pushjob_ls : forall js ids cnt now cids, addr_ok js ids -> forall x t, LS js ids cnt now cids t -> is_done js x = false ->
  LS js ids cnt now cids (pushjob x t).
Proof.
  intros js ids cnt now cids ADDR x t L Dx. destruct (is_done_false _ _ Dx) as (j&Ej&Dj). unfold pushjob. rewrite (ls_jobs _ _ _ _ _ _ L), Ej. cbv zeta. sf.
  rewrite (ls_ids _ _ _ _ _ _ L), (id_set_same _ _ _ (ADDR _ _ Ej Dj)).
  destruct (filter (watches (j_chan j)) (s_waiters t)) as [|a0 alts] eqn:EA.
  - constructor; sf; try (destruct L; assumption); try reflexivity.
  - set (w := nth _ (a0 :: alts) a0).
    assert (Hw : In w (s_waiters t)).
    { assert (H : In w (a0 :: alts)) by (apply nth_In_default; left; reflexivity).
      rewrite <- EA in H. apply filter_In in H. tauto. }
    constructor; sf; try (destruct L; assumption); try reflexivity.
    + rewrite put_conn_ids_same; [apply (ls_cids _ _ _ _ _ _ L)|]. cbn [c_id]. rewrite (ls_cids _ _ _ _ _ _ L). apply (ls_w _ _ _ _ _ _ L). exact Hw.
    + apply Forall_app. split; [apply (ls_hub _ _ _ _ _ _ L)|constructor; [exact I|constructor]].
    + intros w' H. apply (ls_w _ _ _ _ _ _ L). eapply remove_waiter_In; eauto.
Qed.

Lemma ls_same : forall js ids cnt now cids t t', LS js ids cnt now cids t -> s_jobs t' = s_jobs t -> s_ids t' = s_ids t -> s_count t' = s_count t -> s_now t' = s_now t ->
  s_conns t' = s_conns t -> s_hub t' = s_hub t -> s_waiters t' = s_waiters t -> LS js ids cnt now cids t'.
Proof. intros js ids cnt now cids t t' [] H1 H2 H3 H4 H5 H6 H7. constructor; rewrite ?H1, ?H2, ?H3, ?H4, ?H5, ?H6, ?H7; assumption. Qed.

Lemma shutdown_ls : forall js ids cnt now cids, addr_ok js ids -> forall l t, LS js ids cnt now cids t ->
  LS js ids cnt now cids (shutdown_loop l t).
Proof.
  intros js ids cnt now cids ADDR. induction l as [|[i w] r IH]; intros t L; cbn [shutdown_loop]; [exact L|].
  destruct (is_done (s_jobs t) w) eqn:D; [apply IH; exact L|]. apply IH. apply pushjob_ls; [exact ADDR| |].
  - eapply ls_same; [exact L| | | | | | |]; reflexivity.
  - rewrite <- (ls_jobs _ _ _ _ _ _ L). exact D.
Qed.

Lemma die_ls : forall js ids cnt now cids, addr_ok js ids -> forall c t, LS js ids cnt now cids t -> In c cids ->
  LS js ids cnt now cids (fst (die c t)).
Proof.
  intros js ids cnt now cids ADDR c t L Hc. unfold die. cbv zeta. cbn [fst]. apply shutdown_ls; [exact ADDR|].
  constructor; sf; try (destruct L; assumption).
  rewrite put_conn_ids_same; [apply (ls_cids _ _ _ _ _ _ L)|]. cbn [c_id]. rewrite (ls_cids _ _ _ _ _ _ L). exact Hc.
Qed.

Lemma kill_ls : forall js ids cnt now cids, addr_ok js ids -> forall c t, LS js ids cnt now cids t -> In c cids ->
  LS js ids cnt now cids (fst (run_event (EvKill c) t)).
Proof.
  intros js ids cnt now cids ADDR c t L Hc. cbn [run_event].
  assert (L1 : LS js ids cnt now cids (set_waiters (remove_waiter c (s_waiters t)) t)).
  { constructor; sf; try (destruct L; assumption). intros w H. apply (ls_w _ _ _ _ _ _ L). eapply remove_waiter_In; eauto. }
  destruct (c_st (get_conn (s_conns t) c)) as [|chs mb|w|]; try (apply die_ls; assumption); [|exact L].
  apply die_ls; [exact ADDR| |exact Hc]. destruct mb as [x|]; [|exact L1]. sf.
  destruct (is_done (s_jobs t) x) eqn:D; [exact L1|]. apply pushjob_ls; [exact ADDR|exact L1|]. rewrite <- (ls_jobs _ _ _ _ _ _ L). exact D.
Qed.


(* ------------------------------------------------------------------ dead connections *)

Definition DeadE (t : state) (c : N) : Prop :=
  c_st (get_conn (s_conns t) c) = Dead /\ c_run (get_conn (s_conns t) c) = [].

Lemma die_dead_self : forall c t, ~ In c (map fst (s_waiters t)) -> get_conn (s_conns (fst (die c t))) c = mkConn c Dead [].
Proof.
  intros c t NW. unfold die. cbv zeta. cbn [fst]. rewrite shutdown_conn_other by exact NW. sf.
  apply (get_put_same (s_conns t) (mkConn c Dead [])).
Qed.

Lemma kill_dead_self : forall c t, Inv t [] [] -> XI t -> DeadE (fst (run_event (EvKill c) t)) c.
Proof.
  intros c t I K. unfold DeadE. cbn [run_event]. destruct (c_st (get_conn (s_conns t) c)) as [|chs mb|w|] eqn:St.
  - rewrite die_dead_self; [split; reflexivity|]. eapply not_waiter; [exact I|]. intros chs'. rewrite St. discriminate.
  - rewrite die_dead_self; [split; reflexivity|].
    assert (N1 : ~ In c (map fst (s_waiters (set_waiters (remove_waiter c (s_waiters t)) t)))).
    { sf. apply remove_waiter_notin. apply (inv_wnd _ _ _ I). }
    destruct mb as [x|]; [|exact N1]. sf. destruct (is_done (s_jobs t) x); [exact N1|]. apply pushjob_not_waiter. exact N1.
  - rewrite die_dead_self; [split; reflexivity|]. eapply not_waiter; [exact I|]. intros chs'. rewrite St. discriminate.
  - cbn [fst]. split; [exact St|]. destruct (get_conn_In_or_new (s_conns t) c) as [H|H].
    + apply (proj1 (proj2 K)); assumption.
    + rewrite H in St. discriminate.
Qed.

Lemma kill_dead_other : forall c t c', Inv t [] [] -> DeadE t c' -> DeadE (fst (run_event (EvKill c) t)) c'.
Proof.
  intros c t c' I [D R].
  assert (NW : ~ In c' (map fst (s_waiters t))).
  { eapply not_waiter; [exact I|]. intros chs'. rewrite D. discriminate. }
  destruct (N.eq_dec c c') as [E|E].
  - subst c'. unfold DeadE. cbn [run_event]. rewrite D. split; assumption.
  - assert (G : get_conn (s_conns (fst (run_event (EvKill c) t))) c' = get_conn (s_conns t) c').
    { cbn [run_event]. destruct (c_st (get_conn (s_conns t) c)) as [|chs mb|w|]; try (apply die_conn_other; assumption); [|reflexivity].
      assert (N1 : ~ In c' (map fst (s_waiters (set_waiters (remove_waiter c (s_waiters t)) t)))).
      { sf. intro H. apply NW. apply in_map_iff in H. destruct H as (w0&Hf&Hin). apply in_map_iff. exists w0.
        split; [exact Hf|]. eapply remove_waiter_In; eauto. }
      destruct mb as [x|]; [|rewrite die_conn_other by assumption; reflexivity]. sf.
      destruct (is_done (s_jobs t) x); [rewrite die_conn_other by assumption; reflexivity|].
      rewrite die_conn_other; [|exact E|apply pushjob_not_waiter; exact N1].
      rewrite pushjob_conn_other by exact N1. reflexivity. }
    unfold DeadE. rewrite G. split; assumption.
Qed.
