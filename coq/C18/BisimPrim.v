(* C18 — restart bisimulation, part 2: the relation `Core` is preserved by the primitives of the model
   (mark_finished, pushjob, preenall, deliver, pop_or_block), with equal outputs. *)
From Coq Require Import List NArith Bool Lia Arith Sorted.
From MW Require Import C16.Model C16.Proofs C17.Proofs C17.ProofsOrder C17.ProofsCount C18.Proofs C18.ProofsIds
  C18.ProofsInv C18.ProofsTimeout C18.BisimBase.
Import ListNotations.
Open Scope N_scope.

(* ------------------------------------------------------------------ job table updates *)

Lemma is_done_setjob_mono : forall js x f y,
  (forall j, j_serial j = x -> j_serial (f j) = x) -> (forall j, j_done j = true -> j_done (f j) = true) ->
  is_done js y = true -> is_done (setjob x f js) y = true.
Proof.
  intros js x f y Hs Hd. unfold is_done. rewrite getjob_setjob by exact Hs.
  destruct (y =? x) eqn:E; [|auto]. apply N.eqb_eq in E. subst y.
  destruct (getjob js x) as [j|]; cbn [option_map]; auto.
Qed.

Lemma core_setjob : forall dead a b x f, Core dead a b ->
  (forall j, j_serial j = x -> j_serial (f j) = x) -> (forall j, j_done j = true -> j_done (f j) = true) ->
  Core dead (set_jobs (setjob x f (s_jobs a)) a) (set_jobs (setjob x f (s_jobs b)) b).
Proof.
  intros dead a b x f (C&Qa&Qb) Hs Hd. split; [|split; [exact Qa|exact Qb]].
  constructor; sf; try (destruct C; assumption).
  - intros y j. rewrite !getjob_setjob by exact Hs. destruct (y =? x) eqn:E; [|apply (c_jobs _ _ _ C)].
    destruct (getjob (s_jobs a) x) as [ja|] eqn:Ea; cbn [option_map]; [|discriminate].
    rewrite (c_jobs _ _ _ C _ _ Ea). cbn [option_map]. auto.
  - intros y. rewrite getjob_setjob by exact Hs. destruct (y =? x) eqn:E.
    + apply N.eqb_eq in E. subst y. destruct (getjob (s_jobs a) x) as [ja|] eqn:Ea; cbn [option_map]; [discriminate|].
      intros _. apply is_done_setjob_mono; auto. apply (c_done _ _ _ C). exact Ea.
    + intro H. apply is_done_setjob_mono; auto. apply (c_done _ _ _ C). exact H.
  - intro k. eapply filter_sub_eq; [|apply (c_q _ _ _ C)]. intros e H. unfold und in *.
    destruct (is_done (s_jobs a) (snd e)) eqn:D; [|reflexivity].
    rewrite (is_done_setjob_mono _ _ _ _ Hs Hd D) in H. discriminate.
  - intros e H. apply (c_tq _ _ _ C). destruct (is_done (s_jobs a) (snd (snd e))) eqn:D; [|reflexivity].
    rewrite (is_done_setjob_mono _ _ _ _ Hs Hd D) in H. discriminate.
Qed.

Lemma core_mark : forall dead a b x u, Core dead a b -> Core dead (mark_finished x u a) (mark_finished x u b).
Proof.
  intros dead a b x u C. unfold mark_finished.
  destruct (getjob (s_jobs a) x) as [j|] eqn:Ea.
  - rewrite (c_jobs _ _ _ (proj1 C) _ _ Ea). destruct (j_done j) eqn:Dj; [exact C|]. cbv zeta.
    set (fin := mkJob _ _ _ _ _ _ _ _ _ _ _ _).
    assert (C1 : Core dead (set_jobs (setjob x (fun _ => fin) (s_jobs a)) a) (set_jobs (setjob x (fun _ => fin) (s_jobs b)) b)).
    { apply core_setjob; [exact C| |]; intros; unfold fin; cbn; [eapply getjob_serial; eauto|reflexivity]. }
    destruct C as (C0&Qa&Qb). destruct C1 as (C1&_&_).
    split; [|split; [exact Qa|exact Qb]].
    constructor; sf; try (destruct C1; assumption).
    + tob C0. rewrite has_waiter_dead by apply (c_dead _ _ _ C0). reflexivity.
    + intros c H. apply (c_fh _ _ _ C0). destruct (has_waiter x (s_conns a)); [|exact H].
      destruct H as [H|H]; apply in_app_or in H; destruct H as [H|[H|[]]]; try discriminate; auto.
  - pose proof (c_done _ _ _ (proj1 C) _ Ea) as D. unfold is_done in D.
    destruct (getjob (s_jobs b) x) as [jb|]; [|exact C]. rewrite D. exact C.
Qed.

(* ------------------------------------------------------------------ pushjob *)

Lemma core_pushjob : forall dead a b x, Core dead a b -> is_done (s_jobs a) x = false ->
  Core dead (pushjob x a) (pushjob x b).
Proof.
  intros dead a b x (C&Qa&Qb) Dx. split; [|split; apply qs_pushjob; assumption].
  destruct (is_done_false _ _ Dx) as (j&Ej&Dj).
  unfold pushjob. rewrite Ej, (c_jobs _ _ _ C _ _ Ej). cbv zeta. sf. tob C.
  destruct (filter (watches (j_chan j)) (s_waiters a)) as [|a0 alts] eqn:EA.
  - constructor; sf; try (destruct C; assumption); try reflexivity.
    + intro k. rewrite !qget_set. destruct (k =? j_chan j) eqn:E; [|apply (c_q _ _ _ C)].
      change (match q_get (s_queues b) (j_chan j) with Some q => q | None => [] end) with (qget (s_queues b) (j_chan j)).
      change (match q_get (s_queues a) (j_chan j) with Some q => q | None => [] end) with (qget (s_queues a) (j_chan j)).
      rewrite (filter_ins _ _ (qget (s_queues b) (j_chan j)));
        [|apply qs_sorted_qget; exact Qb|unfold und; cbn [snd]; rewrite Dx; reflexivity].
      rewrite (filter_ins _ _ (qget (s_queues a) (j_chan j)));
        [|apply qs_sorted_qget; exact Qa|unfold und; cbn [snd]; rewrite Dx; reflexivity].
      rewrite (c_q _ _ _ C). reflexivity.
    + intros e H. rewrite !tins_In. rewrite (c_tq _ _ _ C e H). tauto.
  - set (w := nth _ (a0 :: alts) a0).
    assert (Hw : In w (s_waiters a)).
    { assert (H : In w (a0 :: alts)) by (apply nth_In_default; left; reflexivity).
      rewrite <- EA in H. apply filter_In in H. tauto. }
    pose proof (c_fw _ _ _ C _ Hw) as Fw.
    rewrite get_conn_dead by exact Fw. rewrite put_conn_dead by (cbn [c_id]; exact Fw).
    constructor; sf; try (destruct C; assumption); try reflexivity.
    + intros e H. rewrite !tins_In. rewrite (c_tq _ _ _ C e H). tauto.
    + intros w' H. apply (c_fw _ _ _ C). eapply remove_waiter_In; eauto.
    + intros c H. destruct H as [H|H]; apply in_app_or in H; destruct H as [H|[H|[]]]; try discriminate;
        try (apply (c_fh _ _ _ C); auto; fail). inversion H; subst. exact Fw.
Qed.

(* ------------------------------------------------------------------ preenall *)

Lemma core_preenall : forall dead a b, Core dead a b -> Core dead (preenall a) (preenall b).
Proof.
  intros dead a b (C&Qa&Qb). split; [|split; apply qs_preenall; assumption].
  pose proof (core_isdone _ _ _ C) as DN.
  unfold preenall. constructor; sf; try (destruct C; assumption).
  intro k. rewrite (qget_map (preen (s_jobs b))), (qget_map (preen (s_jobs a))) by reflexivity.
  rewrite (preen_ext _ _ _ DN). rewrite !filter_preen. apply (c_q _ _ _ C).
Qed.

Definition headund (js : list job) (qs : list (N * list qkey)) : Prop :=
  forall k y r, q_get qs k = Some (y :: r) -> und js y = true.

Lemma headund_preenall : forall s, headund (s_jobs s) (s_queues (preenall s)).
Proof.
  intros s k y r H. unfold preenall in H. sf. rewrite q_get_map in H.
  destruct (q_get (s_queues s) k) as [q|]; cbn [option_map] in H; [|discriminate]. inversion H as [H1].
  apply preen_head in H1. unfold und. rewrite H1. reflexivity.
Qed.

Lemma cand_transfer : forall js qa qb chs x, headund js qa -> headund js qb ->
  (forall k, filter (und js) (qget qa k) = filter (und js) (qget qb k)) ->
  cand qa (match chs with [] => map fst qa | _ => chs end) x ->
  cand qb (match chs with [] => map fst qb | _ => chs end) x.
Proof.
  intros js qa qb chs x Ha Hb F (k&rest&Hk&Hq).
  assert (Q : qget qa k = x :: rest) by (unfold qget; rewrite Hq; reflexivity).
  pose proof (F k) as Fk. rewrite Q in Fk. cbn [filter] in Fk. rewrite (Ha _ _ _ Hq) in Fk.
  unfold qget in Fk. destruct (q_get qb k) as [[|y r]|] eqn:Eb; cbn [filter] in Fk; try discriminate.
  rewrite (Hb _ _ _ Eb) in Fk. inversion Fk; subst y. exists k, r. split; [|exact Eb].
  destruct chs; [eapply q_get_dom; eauto|exact Hk].
Qed.

(* ------------------------------------------------------------------ deliver *)

Lemma core_deliver : forall dead a b c chs x, Core dead a b -> is_done (s_jobs a) x = false -> ~ In c (map c_id dead) ->
  Core dead (fst (deliver c chs x a)) (fst (deliver c chs x b)) /\ snd (deliver c chs x b) = snd (deliver c chs x a).
Proof.
  intros dead a b c chs x (C&Qa&Qb) Dx Fc. destruct (is_done_false _ _ Dx) as (j&Ej&Dj).
  unfold deliver. rewrite Ej, (c_jobs _ _ _ C _ _ Ej). cbv zeta. sf. tob C.
  rewrite get_conn_dead by exact Fc. rewrite put_conn_dead by exact Fc.
  split; [|reflexivity]. split; [|split; [exact Qa|exact Qb]].
  constructor; sf; try (destruct C; assumption); try reflexivity.
Qed.

(* ------------------------------------------------------------------ pop *)

Lemma core_pop_tail : forall dead a b ch, Core dead a b ->
  Core dead (set_queues (q_set (s_queues (preenall a)) ch (tl (qget (s_queues (preenall a)) ch))) (preenall a))
            (set_queues (q_set (s_queues (preenall b)) ch (tl (qget (s_queues (preenall b)) ch))) (preenall b)).
Proof.
  intros dead a b ch C. pose proof (core_preenall _ _ _ C) as (C1&Qa1&Qb1). destruct C as (C&Qa&Qb).
  pose proof (core_isdone _ _ _ C) as DN.
  split; [|split; apply qs_set; try assumption; apply sorted_tl; apply qs_sorted_qget; assumption].
  constructor; sf; try (destruct C1; assumption).
  intro k. rewrite !qget_set. destruct (k =? ch) eqn:E; [|apply (c_q _ _ _ C1)].
  unfold preenall. sf. rewrite (qget_map (preen (s_jobs b))), (qget_map (preen (s_jobs a))) by reflexivity.
  rewrite (preen_ext _ _ _ DN). apply preen_rel. apply (c_q _ _ _ C).
Qed.

Lemma core_pop : forall dead a b c chs, Core dead a b -> ~ In c (map c_id dead) ->
  Core dead (fst (pop_or_block c chs a)) (fst (pop_or_block c chs b)) /\
  snd (pop_or_block c chs b) = snd (pop_or_block c chs a).
Proof.
  intros dead a b c chs C Fc.
  pose proof (core_preenall _ _ _ C) as C1. pose proof (core_isdone _ _ _ (proj1 C)) as DN.
  assert (HA : headund (s_jobs a) (s_queues (preenall a))) by apply headund_preenall.
  assert (HB : headund (s_jobs a) (s_queues (preenall b))).
  { intros k y r H. rewrite <- (und_ext _ _ DN). eapply (headund_preenall b); eauto. }
  assert (HH : heads (s_queues (preenall b)) (match chs with [] => map fst (s_queues (preenall b)) | _ => chs end) =
               heads (s_queues (preenall a)) (match chs with [] => map fst (s_queues (preenall a)) | _ => chs end)).
  { apply heads_cand_eq. intro x. split; apply cand_transfer with (js := s_jobs a); auto; intro k;
      [|symmetry]; apply (c_q _ _ _ (proj1 C1)). }
  unfold pop_or_block. cbv zeta. rewrite HH.
  destruct (heads (s_queues (preenall a)) _) as [x|] eqn:Eh.
  - destruct (heads_spec _ _ _ Eh) as (k&rest&_&Hq). pose proof (HA _ _ _ Hq) as Ux. unfold und in Ux.
    apply negb_true_iff in Ux. destruct (is_done_false _ _ Ux) as (j&Ej&Dj).
    change (s_jobs (preenall a)) with (s_jobs a). change (s_jobs (preenall b)) with (s_jobs b).
    rewrite Ej, (c_jobs _ _ _ (proj1 C) _ _ Ej).
    apply core_deliver; [apply (core_pop_tail _ _ _ (j_chan j) C)|exact Ux|exact Fc].
  - destruct C1 as (C1&Qa1&Qb1). cbn [fst snd]. split; [|reflexivity].
    split; [|split; [exact Qa1|exact Qb1]]. sf. tob C1.
    rewrite get_conn_dead by exact Fc. rewrite put_conn_dead by exact Fc.
    constructor; sf; try (destruct C1; assumption); try reflexivity.
    intros w H. apply in_app_or in H. destruct H as [H|[H|[]]]; [apply (c_fw _ _ _ C1); exact H|subst w; exact Fc].
Qed.
