(* C18 — restart bisimulation, part 6: the simulation relation `Sim` is preserved by every op that does not mention a
   dropped connection, with observably equal outputs; lifted to histories. *)
From Coq Require Import List NArith Bool Lia Arith Sorted.
From MW Require Import C16.Model C16.Proofs C17.Proofs C17.ProofsOrder C17.ProofsCount C17.ProofsLive C18.Proofs C18.ProofsIds
  C18.ProofsInv C18.ProofsTimeout C18.BisimBase C18.BisimPrim C18.BisimEvents C18.BisimTimeout C18.BisimTE.
Import ListNotations.
Open Scope N_scope.

Definition Sim (dead : list conn) (a b : state) : Prop :=
  Core dead a b /\ RGood a /\ RGood b /\ TQ a /\ TQ b /\ TE a /\ TE b.

Lemma noser_fresh : forall s, Inv s [] [] -> TE s -> forall x, s_count s < x -> NoSer s x.
Proof.
  intros s I K x Hx. split; [|split].
  - destruct (getjob (s_jobs s) x) eqn:E; [|reflexivity]. pose proof (inv_tab _ _ _ I _ _ E). lia.
  - intros k [p y] He. cbn [snd]. destruct (qget_In_some _ _ _ He) as (q&Hq&Hin). apply q_get_In in Hq.
    destruct (inv_q _ _ _ I _ _ _ _ Hq Hin) as (j&Ej&_). pose proof (inv_tab _ _ _ I _ _ Ej). lia.
  - intros [d [p y]] He. destruct (K _ He) as (j&E&_). cbn [snd] in *. pose proof (inv_tab _ _ _ I _ _ E). lia.
Qed.

Lemma core_step : forall dead a b o, Sim dead a b -> fresh_op (map c_id dead) o ->
  Core dead (fst (step a o)) (fst (step b o)) /\ Forall2 obs_eq (snd (step a o)) (snd (step b o)).
Proof.
  intros dead a b o (C&Ga&Gb&Ta&Tb&Ea&Eb) F.
  pose proof (core_isdone _ _ _ (proj1 C)) as DN.
  destruct Ga as ((Aa&Ha&Ia)&QSa&Ka). destruct Gb as ((Ab&Hb&Ib)&QSb&Kb).
  destruct o as [ch prio name tmo|c chs| |c i res e|c js|dt|c|k|c i|i|i v| |dt|js|]; cbn [step].
  - (* Add *)
    destruct (core_push dead a b ch prio name tmo C Ka) as [P1 P2].
    { apply noser_fresh; auto. lia. }
    { rewrite <- (c_count _ _ _ (proj1 C)). apply noser_fresh; auto. lia. }
    destruct (push ch prio name tmo a) as [a1 ia], (push ch prio name tmo b) as [b1 ib]. cbn [fst snd] in *. subst ib.
    split; [exact P1|apply obs_list_refl].
  - (* StartPull *)
    assert (Fc : ~ In c (map c_id dead)) by (apply F; left; reflexivity).
    unfold is_idle. rewrite (core_get _ _ _ _ (proj1 C) Fc).
    destruct (c_st (get_conn (s_conns a) c)); try (split; [exact C|apply obs_list_refl]).
    destruct (core_pop dead a b c chs C Fc) as [P1 P2]. split; [exact P1|apply obs_of_eq; exact P2].
  - (* RunLoop *)
    rewrite (c_hub _ _ _ (proj1 C)).
    destruct (core_run_events dead (s_hub a) (set_hub [] a) (set_hub [] b)) as [P1 P2];
      [apply core_set_hub; [exact C|constructor]|eapply core_hub_fresh; exact (proj1 C)|exact Ha|].
    split; [exact P1|apply obs_of_eq; exact P2].
  - (* Finish *)
    assert (Fc : ~ In c (map c_id dead)) by (apply F; left; reflexivity).
    unfold is_idle. rewrite (core_get _ _ _ _ (proj1 C) Fc).
    destruct (c_st (get_conn (s_conns a) c)); try (split; [exact C|apply obs_list_refl]).
    rewrite (c_ids _ _ _ (proj1 C)). destruct (id_lookup (s_ids a) i) as [ser|]; [|split; [exact C|apply obs_list_refl]].
    cbn [fst snd]. split; [|apply obs_list_refl].
    match goal with |- context [mark_finished ser ?u b] => pose proof (core_mark dead a b ser u C) as C1 end.
    rewrite (core_get _ _ _ c (proj1 C1) Fc). apply core_put; [exact C1|exact Fc].
  - (* Kill *)
    assert (Fc : ~ In c (map c_id dead)) by (apply F; left; reflexivity).
    unfold is_idle. rewrite (core_get _ _ _ _ (proj1 C) Fc).
    destruct (c_st (get_conn (s_conns a) c)); try (split; [exact C|apply obs_list_refl]).
    cbn [fst snd]. split; [|apply obs_list_refl].
    pose proof (core_killjobs dead js a b C) as C1.
    rewrite (core_get _ _ _ c (proj1 C1) Fc). apply core_put; [exact C1|exact Fc].
  - (* Tick *)
    cbn [fst snd]. split; [|apply obs_list_refl]. unfold handletimeouts. apply core_preenall.
    rewrite (c_now _ _ _ (proj1 C)).
    apply core_timeouts; [apply core_set_now; exact C|exact (proj1 Ta)|exact (proj1 Tb)|exact (c_tq _ _ _ (proj1 C))].
  - (* Disconnect *)
    assert (Fc : ~ In c (map c_id dead)) by (apply F; left; reflexivity).
    rewrite (core_get _ _ _ _ (proj1 C) Fc).
    destruct (c_st (get_conn (s_conns a) c)); cbn [fst snd]; (split; [|apply obs_list_refl]); try exact C;
      rewrite (c_hub _ _ _ (proj1 C)); (apply core_set_hub; [exact C|]); apply Forall_app;
      (split; [eapply core_hub_fresh; exact (proj1 C)|constructor; [exact Fc|constructor]]).
  - (* Choice *)
    cbn [fst snd]. split; [|apply obs_list_refl]. rewrite (c_choices _ _ _ (proj1 C)). apply core_set_choices. exact C.
  - (* Wait *)
    assert (Fc : ~ In c (map c_id dead)) by (apply F; left; reflexivity).
    unfold is_idle. rewrite (core_get _ _ _ _ (proj1 C) Fc).
    destruct (c_st (get_conn (s_conns a) c)); try (split; [exact C|apply obs_list_refl]).
    rewrite (c_ids _ _ _ (proj1 C)).
    destruct (id_lookup (s_ids a) i) as [ser|] eqn:El; [|split; [exact C|apply obs_list_refl]].
    destruct (proj2 Ka _ _ (id_lookup_In _ _ _ El)) as (j&Ej&_). rewrite Ej, (c_jobs _ _ _ (proj1 C) _ _ Ej).
    destruct (j_done j).
    + destruct (j_drop j && id_is (s_ids a) (j_id j) ser); cbn [fst snd]; (split; [|apply obs_list_refl]);
        [apply core_set_ids|]; exact C.
    + cbn [fst snd]. split; [|apply obs_list_refl]. rewrite ?(core_get _ _ _ c (proj1 C) Fc).
      apply core_put; [exact C|exact Fc].
  - (* Info *)
    cbn [fst snd]. split; [exact C|]. rewrite (c_ids _ _ _ (proj1 C)).
    destruct (id_lookup (s_ids a) i) as [ser|] eqn:El; [|apply obs_list_refl].
    destruct (proj2 Ka _ _ (id_lookup_In _ _ _ El)) as (j&Ej&_). rewrite Ej, (c_jobs _ _ _ (proj1 C) _ _ Ej).
    apply obs_list_refl.
  - (* SetInfo *)
    rewrite (c_ids _ _ _ (proj1 C)). destruct (id_lookup (s_ids a) i) as [ser|]; [|split; [exact C|apply obs_list_refl]].
    cbn [fst snd]. split; [|apply obs_list_refl]. apply core_setjob; [exact C| |]; intros j H; cbn; exact H.
  - (* Stats *)
    cbn [fst snd]. split; [exact C|]. constructor; [|constructor]. cbn [obs_eq].
    rewrite (c_count _ _ _ (proj1 C)), (c_ids _ _ _ (proj1 C)). split; [reflexivity|]. split; [reflexivity|].
    intro k. rewrite !busy_get_map. unfold count_undone.
    change (fun x : N * N => negb (is_done (s_jobs a) (snd x))) with (und (s_jobs a)).
    change (fun x : N * N => negb (is_done (s_jobs b) (snd x))) with (und (s_jobs b)).
    rewrite (filter_ext _ _ (und_ext _ _ DN)), (c_q _ _ _ (proj1 C)). reflexivity.
  - (* Advance *)
    cbn [fst snd]. split; [|apply obs_list_refl]. rewrite (c_now _ _ _ (proj1 C)). apply core_set_now. exact C.
  - (* Drop *)
    cbn [fst snd]. split; [|apply obs_list_refl]. apply core_dropjobs. exact C.
  - (* Watchdog *)
    cbn [fst snd]. split; [|apply obs_list_refl]. unfold dropdead. rewrite (c_ids _ _ _ (proj1 C)).
    apply core_dropdead; [exact C|exact Ka].
Qed.

Lemma sim_step : forall dead a b o, Sim dead a b -> fresh_op (map c_id dead) o ->
  Forall2 obs_eq (snd (step a o)) (snd (step b o)) /\ Sim dead (fst (step a o)) (fst (step b o)).
Proof.
  intros dead a b o S F. destruct (core_step dead a b o S F) as [C1 O1].
  destruct S as (C&Ga&Gb&Ta&Tb&Ea&Eb). split; [exact O1|].
  split; [exact C1|]. split; [apply step_rgood; exact Ga|]. split; [apply step_rgood; exact Gb|].
  split; [apply step_tq; [apply Ga|exact Ta]|]. split; [apply step_tq; [apply Gb|exact Tb]|].
  split; apply step_te; try assumption; [apply Ga|apply Gb].
Qed.

Lemma sim_outs : forall h2 dead a b, Sim dead a b -> Forall (fresh_op (map c_id dead)) h2 ->
  Forall2 obs_eq (outs h2 a) (outs h2 b).
Proof.
  induction h2 as [|o r IH]; intros dead a b S F; cbn [outs]; [constructor|].
  inversion F as [|? ? Fo Fr]; subst. destruct (sim_step dead a b o S Fo) as [O1 S1].
  apply Forall2_app; [exact O1|]. apply (IH dead); assumption.
Qed.
