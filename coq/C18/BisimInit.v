(* C18 — restart bisimulation, part 7: building blocks of the (unfinished) initial relation
   Sim (s_conns (requeue_all s)) (restart s) (requeue_all s): the restarted side's job table / choices (S2) and the
   relation between the timeout heaps (S4) for any state b that kept the job table of s. *)
From Coq Require Import List NArith Bool Lia Arith Sorted.
From MW Require Import C16.Model C16.Proofs C17.Proofs C17.ProofsOrder C17.ProofsCount C18.Proofs C18.ProofsIds
  C18.ProofsInv C18.ProofsTimeout C18.BisimBase C18.BisimTE.
Import ListNotations.
Open Scope N_scope.

Lemma restart_jobs : forall s, s_jobs (restart s) = collect (s_jobs s) (s_ids s).
Proof. intro s. destruct (restore_state (s_now s) (save s)) as (_&H&_). exact H. Qed.

(* every job of the restarted table is the job of s with that serial, verbatim *)
Lemma restart_getjob_back : forall s x j, getjob (s_jobs (restart s)) x = Some j -> getjob (s_jobs s) x = Some j.
Proof.
  intros s x j H. rewrite restart_jobs in H. pose proof (getjob_serial _ _ _ H) as Hs.
  apply getjob_In in H. apply collect_In in H. destruct H as (i&x'&_&E).
  pose proof (getjob_serial _ _ _ E) as Hs'. congruence.
Qed.

(* a job that the restart forgot was finished *)
Lemma restart_none_done : forall s x, RGood s -> getjob (s_jobs (restart s)) x = None -> is_done (s_jobs s) x = true.
Proof.
  intros s x G H. unfold is_done. destruct (getjob (s_jobs s) x) as [j|] eqn:E; [|reflexivity].
  destruct (j_done j) eqn:D; [reflexivity|]. destruct G as ((A&Hh&I)&Q&K).
  pose proof (inv_addr _ _ _ I x j E D eq_refl) as L.
  rewrite (restart_job_table s _ _ _ (conj (conj A (conj Hh I)) (conj Q K)) L E) in H. discriminate.
Qed.

Lemma restore_loop_choices : forall l s, s_choices (restore_loop l s) = s_choices s.
Proof.
  induction l as [|j r IH]; intro s; cbn [restore_loop]; [reflexivity|].
  destruct (j_done j); rewrite IH; reflexivity.
Qed.

Lemma restart_choices : forall s, s_choices (restart s) = [].
Proof. intro s. unfold restart, restore. rewrite restore_loop_choices. reflexivity. Qed.

(* S4: the heaps of the restarted state and of any state b with the job table of s, complete (TQ) and sound (TE),
   hold the same entries of unfinished jobs *)
Lemma init_tq_rel : forall s b, RGood s -> s_jobs b = s_jobs s -> TQ b -> TE b ->
  forall e, is_done (s_jobs (restart s)) (snd (snd e)) = false -> (In e (s_tq b) <-> In e (s_tq (restart s))).
Proof.
  intros s b G J Tb Eb [d [p x]] H. cbn [snd] in H.
  destruct (is_done_false _ _ H) as (j&Ej&Dj). pose proof (restart_getjob_back _ _ _ Ej) as Ejs.
  pose proof (restart_tq s G) as Ta. pose proof (restart_te s G) as Ea.
  split; intro Hin.
  - destruct (Eb _ Hin) as (j'&Ej'&Hj'). cbn [fst snd] in *. rewrite J, Ejs in Ej'. inversion Ej'; subst j'.
    destruct (Hj' Dj) as [H1 H2]. subst d p. apply (proj2 Ta); assumption.
  - destruct (Ea _ Hin) as (j'&Ej'&Hj'). cbn [fst snd] in *. rewrite Ej in Ej'. inversion Ej'; subst j'.
    destruct (Hj' Dj) as [H1 H2]. subst d p. apply (proj2 Tb); [rewrite J; exact Ejs|exact Dj].
Qed.

(* a sorted duplicate-free list is determined by its elements *)
Lemma sorted_nodup_unique : forall la lb : list qkey, sorted la -> sorted lb -> NoDup la -> NoDup lb ->
  (forall e, In e la <-> In e lb) -> la = lb.
Proof.
  induction la as [|x ra IH]; intros lb Sa Sb Na Nb H.
  - destruct lb as [|y rb]; [reflexivity|]. exfalso. apply (proj2 (H y)). left; reflexivity.
  - destruct lb as [|y rb]; [exfalso; apply (proj1 (H x)); left; reflexivity|].
    assert (E : x = y).
    { apply key_le_antisym.
      - eapply sorted_head_le; [exact Sa|]. apply (H y). left; reflexivity.
      - eapply sorted_head_le; [exact Sb|]. apply (H x). left; reflexivity. }
    subst y. f_equal. inversion Na as [|? ? Nx Nra]; inversion Nb as [|? ? Ny Nrb]; subst.
    apply IH; [eapply sorted_tl with (q := x :: ra); exact Sa|eapply sorted_tl with (q := x :: rb); exact Sb|exact Nra|exact Nrb|].
    intro e. split; intro He.
    + destruct (proj1 (H e) (or_intror He)) as [E|E]; [subst e; contradiction|exact E].
    + destruct (proj2 (H e) (or_intror He)) as [E|E]; [subst e; contradiction|exact E].
Qed.

(* S2: the restarted id table is the saved one *)
Lemma id_set_new : forall ids i v, ~ In i (map fst ids) -> id_set ids i v = ids ++ [(i, v)].
Proof.
  induction ids as [|[k w] r IH]; intros i v H; cbn [id_set app]; [reflexivity|]. cbn [map fst In] in H.
  destruct (jid_eqb k i) eqn:E; [apply jid_eqb_eq in E; tauto|]. rewrite IH by tauto. reflexivity.
Qed.

Lemma restore_loop_ids : forall l s, NoDup (map fst (s_ids s) ++ map j_id l) ->
  s_ids (restore_loop l s) = s_ids s ++ map (fun j => (j_id j, j_serial j)) l.
Proof.
  induction l as [|j r IH]; intros s N; cbn [restore_loop map]; [rewrite app_nil_r; reflexivity|].
  assert (Hn : ~ In (j_id j) (map fst (s_ids s))).
  { cbn [map] in N. apply NoDup_remove_2 in N. intro H. apply N. apply in_or_app. left; exact H. }
  assert (N' : NoDup (map fst (s_ids s ++ [(j_id j, j_serial j)]) ++ map j_id r)).
  { rewrite map_app. cbn [map fst]. rewrite <- app_assoc. exact N. }
  destruct (j_done j); (rewrite IH; sf; rewrite (id_set_new _ _ _ Hn); [rewrite <- app_assoc; reflexivity|exact N']).
Qed.

Lemma collect_pairs : forall js ids, ids_ok js ids -> map (fun j => (j_id j, j_serial j)) (collect js ids) = ids.
Proof.
  intros js ids. induction ids as [|[i x] r IH]; intros [N H]; cbn [collect]; [reflexivity|].
  destruct (H i x (or_introl eq_refl)) as (j&Ej&Hi). rewrite Ej. cbn [map]. rewrite (getjob_serial _ _ _ Ej), Hi.
  f_equal. apply IH. split; [inversion N; assumption|]. intros i' x' Hin. apply H. right; exact Hin.
Qed.

Lemma restart_ids : forall s, RGood s -> s_ids (restart s) = s_ids s.
Proof.
  intros s (_&_&K). unfold restart, restore. rewrite restore_loop_ids.
  - cbn [snd save]. sf. cbn [init s_ids app]. apply collect_pairs. exact K.
  - cbn [snd save]. sf. cbn [init s_ids map app]. apply (proj2 (collect_nodup _ _ K)).
Qed.
