(* C18 — restart bisimulation, part 1: observation, list algebra (filter/ins/preen/heads), connection lists with a
   prefix of dead connections, and the simulation relation `Core`. *)
From Coq Require Import List NArith Bool Lia Arith Sorted.
From MW Require Import C16.Model C16.Proofs C17.Proofs C17.ProofsOrder C17.ProofsCount C18.Proofs C18.ProofsIds
  C18.ProofsInv C18.ProofsTimeout.
Import ListNotations.
Open Scope N_scope.

(* ------------------------------------------------------------------ observation *)

Fixpoint busy_get (b : list (N * N)) (k : N) : N :=
  match b with [] => 0 | (k', v) :: r => if k' =? k then v else busy_get r k end.

(* equality, except that of a Stats answer only count, numjobs and the per-channel busy numbers are compared *)
Definition obs_eq (x y : out) : Prop :=
  match x, y with
  | OStats c n _ b, OStats c' n' _ b' => c = c' /\ n = n' /\ forall k, busy_get b k = busy_get b' k
  | OStats _ _ _ _, _ => False
  | _, OStats _ _ _ _ => False
  | _, _ => x = y
  end.

Lemma obs_eq_refl : forall x, obs_eq x x.
Proof. destruct x; cbn; auto. Qed.

Lemma obs_list_refl : forall l, Forall2 obs_eq l l.
Proof. induction l; constructor; [apply obs_eq_refl|assumption]. Qed.

Lemma obs_of_eq : forall l l', l' = l -> Forall2 obs_eq l l'.
Proof. intros l l' E. subst. apply obs_list_refl. Qed.

Definition op_conns (o : op) : list N :=
  match o with
  | StartPull c _ | Finish c _ _ _ | Kill c _ | Disconnect c | Wait c _ => [c]
  | _ => []
  end.

Definition fresh_op (D : list N) (o : op) : Prop := forall c, In c (op_conns o) -> ~ In c D.

(* ------------------------------------------------------------------ order *)

Lemma key_le_antisym : forall a b, key_le a b -> key_le b a -> a = b.
Proof.
  intros [a1 a2] [b1 b2] H1 H2.
  assert (a1 = b1 /\ a2 = b2) as [E1 E2] by key_cases.
  subst; reflexivity.
Qed.

Lemma key_lt_le_trans : forall e y z, key_lt e y = true -> key_le y z -> key_lt e z = true.
Proof. intros [e1 e2] [y1 y2] [z1 z2] H1 H2. key_cases. Qed.

Lemma tkey_le_antisym : forall a b, tkey_le a b -> tkey_le b a -> a = b.
Proof.
  intros [a0 [a1 a2]] [b0 [b1 b2]] H1 H2.
  assert (a0 = b0 /\ a1 = b1 /\ a2 = b2) as (E0&E1&E2) by tkey_cases.
  subst; reflexivity.
Qed.

(* ------------------------------------------------------------------ filter / ins / preen *)

Definition und (js : list job) (e : qkey) : bool := negb (is_done js (snd e)).

Lemma ins_front : forall e l, (forall z, In z l -> key_lt e z = true) -> ins e l = e :: l.
Proof. intros e [|z r] H; cbn [ins]; [reflexivity|]. rewrite (H z) by (left; reflexivity). reflexivity. Qed.

Lemma filter_ins : forall (P : qkey -> bool) e q, sorted q -> P e = true -> filter P (ins e q) = ins e (filter P q).
Proof.
  intros P e q S Pe. induction q as [|y r IH]; cbn [ins filter].
  - rewrite Pe. reflexivity.
  - inversion S as [|? ? Sr Fr]; subst. specialize (IH Sr).
    destruct (key_lt e y) eqn:L.
    + cbn [filter]. rewrite Pe. destruct (P y) eqn:Py.
      * cbn [ins]. rewrite L. reflexivity.
      * rewrite ins_front; [reflexivity|]. intros z Hz. apply filter_In in Hz. destruct Hz as [Hz _].
        rewrite Forall_forall in Fr. eapply key_lt_le_trans; [exact L|apply Fr; exact Hz].
    + cbn [filter]. destruct (P y) eqn:Py.
      * cbn [ins]. rewrite L. rewrite IH. reflexivity.
      * exact IH.
Qed.

Lemma filter_sub : forall (A : Type) (P P' : A -> bool) q, (forall e, P' e = true -> P e = true) ->
  filter P' (filter P q) = filter P' q.
Proof.
  intros A P P' q H. induction q as [|y r IH]; cbn [filter]; [reflexivity|].
  destruct (P y) eqn:Py; cbn [filter]; destruct (P' y) eqn:Py'; try rewrite IH; try reflexivity.
  rewrite (H y Py') in Py. discriminate.
Qed.

Lemma filter_sub_eq : forall (A : Type) (P P' : A -> bool) qa qb, (forall e, P' e = true -> P e = true) ->
  filter P qa = filter P qb -> filter P' qa = filter P' qb.
Proof. intros A P P' qa qb H E. rewrite <- (filter_sub A P P' qa H), <- (filter_sub A P P' qb H), E. reflexivity. Qed.

Lemma filter_preen : forall js q, filter (und js) (preen js q) = filter (und js) q.
Proof.
  intros js q. induction q as [|y r IH]; cbn [preen]; [reflexivity|].
  destruct (is_done js (snd y)) eqn:D; [|reflexivity].
  cbn [filter]. replace (und js y) with false by (unfold und; rewrite D; reflexivity). exact IH.
Qed.

Lemma preen_cases : forall js q,
  (preen js q = [] /\ filter (und js) q = []) \/
  (exists x r, preen js q = x :: r /\ filter (und js) q = x :: filter (und js) r).
Proof.
  intros js q. induction q as [|y r IH]; cbn [preen]; [left; split; reflexivity|].
  destruct (is_done js (snd y)) eqn:D.
  - cbn [filter]. replace (und js y) with false by (unfold und; rewrite D; reflexivity). exact IH.
  - right. exists y, r. split; [reflexivity|]. cbn [filter].
    replace (und js y) with true by (unfold und; rewrite D; reflexivity). reflexivity.
Qed.

Lemma preen_rel : forall js qa qb, filter (und js) qa = filter (und js) qb ->
  hd_error (preen js qa) = hd_error (preen js qb) /\
  filter (und js) (tl (preen js qa)) = filter (und js) (tl (preen js qb)).
Proof.
  intros js qa qb H.
  destruct (preen_cases js qa) as [[Pa Fa]|(xa&ra&Pa&Fa)], (preen_cases js qb) as [[Pb Fb]|(xb&rb&Pb&Fb)];
    rewrite Pa, Pb; cbn [hd_error tl filter]; rewrite Fa, Fb in H; try discriminate; [split; reflexivity|].
  inversion H; subst. split; congruence.
Qed.

Lemma preen_ext : forall js js' q, (forall x, is_done js' x = is_done js x) -> preen js' q = preen js q.
Proof.
  intros js js' q H. induction q as [|y r IH]; cbn [preen]; [reflexivity|]. rewrite H, IH. reflexivity.
Qed.

Lemma und_ext : forall js js', (forall x, is_done js' x = is_done js x) -> forall e, und js' e = und js e.
Proof. intros js js' H e. unfold und. rewrite H. reflexivity. Qed.

Lemma qget_set : forall qs c l k, qget (q_set qs c l) k = if k =? c then l else qget qs k.
Proof.
  intros qs c l k. unfold qget. destruct (k =? c) eqn:E.
  - apply N.eqb_eq in E. subst. rewrite q_get_set_same. reflexivity.
  - apply N.eqb_neq in E. rewrite q_get_set_other by exact E. reflexivity.
Qed.

Lemma qget_map : forall (f : list qkey -> list qkey) qs k, f [] = [] ->
  qget (map (fun kq => (fst kq, f (snd kq))) qs) k = f (qget qs k).
Proof.
  intros f qs k H. unfold qget. rewrite q_get_map. destruct (q_get qs k); cbn [option_map]; auto.
Qed.

Lemma qs_sorted_qget : forall s k, QS s -> sorted (qget (s_queues s) k).
Proof.
  intros s k Q. unfold qget. destruct (q_get (s_queues s) k) as [q|] eqn:E; [eapply qs_qget; eauto|constructor].
Qed.

(* ------------------------------------------------------------------ heads *)

Definition cand (qs : list (N * list qkey)) (try : list N) (x : qkey) : Prop :=
  exists k rest, In k try /\ q_get qs k = Some (x :: rest).

Lemma heads_cand_eq : forall qa ta qb tb, (forall x, cand qa ta x <-> cand qb tb x) -> heads qa ta = heads qb tb.
Proof.
  intros qa ta qb tb H.
  destruct (heads qa ta) as [x|] eqn:Ea, (heads qb tb) as [y|] eqn:Eb.
  - f_equal. apply key_le_antisym.
    + destruct (heads_spec _ _ _ Eb) as (k&rest&Hk&Hq).
      destruct (proj2 (H y)) as (k'&rest'&Hk'&Hq'); [exists k, rest; auto|].
      eapply heads_min; eauto.
    + destruct (heads_spec _ _ _ Ea) as (k&rest&Hk&Hq).
      destruct (proj1 (H x)) as (k'&rest'&Hk'&Hq'); [exists k, rest; auto|].
      eapply heads_min; eauto.
  - exfalso. destruct (heads_spec _ _ _ Ea) as (k&rest&Hk&Hq).
    destruct (proj1 (H x)) as (k'&rest'&Hk'&Hq'); [exists k, rest; auto|]. eapply heads_none; eauto.
  - exfalso. destruct (heads_spec _ _ _ Eb) as (k&rest&Hk&Hq).
    destruct (proj2 (H y)) as (k'&rest'&Hk'&Hq'); [exists k, rest; auto|]. eapply heads_none; eauto.
  - reflexivity.
Qed.

Lemma busy_get_map : forall js qs k,
  busy_get (map (fun kq => (fst kq, count_undone js (snd kq))) qs) k = count_undone js (qget qs k).
Proof.
  intros js qs k. unfold qget. induction qs as [|[k0 q] r IH]; cbn [map busy_get fst snd q_get]; [reflexivity|].
  destruct (k0 =? k); [reflexivity|exact IH].
Qed.

(* ------------------------------------------------------------------ a prefix of dead connections *)

Definition all_dead (dead : list conn) : Prop := Forall (fun c => c_st c = Dead) dead.

Lemma get_conn_dead : forall dead l c, ~ In c (map c_id dead) -> get_conn (dead ++ l) c = get_conn l c.
Proof.
  induction dead as [|d r IH]; intros l c H; cbn [app get_conn]; [reflexivity|]. cbn [map In] in H.
  destruct (c_id d =? c) eqn:E; [apply N.eqb_eq in E; tauto|]. apply IH. tauto.
Qed.

Lemma put_conn_dead : forall dead l x, ~ In (c_id x) (map c_id dead) -> put_conn (dead ++ l) x = dead ++ put_conn l x.
Proof.
  induction dead as [|d r IH]; intros l x H; cbn [app put_conn]; [reflexivity|]. cbn [map In] in H.
  destruct (c_id d =? c_id x) eqn:E; [apply N.eqb_eq in E; tauto|]. rewrite IH by tauto. reflexivity.
Qed.

Lemma has_waiter_dead : forall dead l ser, all_dead dead -> has_waiter ser (dead ++ l) = has_waiter ser l.
Proof.
  intros dead l ser H. induction H as [|d r Hd _ IH]; cbn [app has_waiter]; [reflexivity|]. rewrite Hd. exact IH.
Qed.

Lemma release_dead : forall dead l ser js, all_dead dead ->
  release ser js (dead ++ l) = (dead ++ fst (release ser js l), snd (release ser js l)).
Proof.
  intros dead l ser js H. induction H as [|d r Hd _ IH]; cbn [app release].
  - destruct (release ser js l); reflexivity.
  - rewrite IH. rewrite Hd. reflexivity.
Qed.

Lemma release_ext : forall ser js js' l, getjob js' ser = getjob js ser -> release ser js' l = release ser js l.
Proof.
  intros ser js js' l H. induction l as [|x r IH]; cbn [release]; [reflexivity|]. rewrite IH, H. reflexivity.
Qed.

(* ------------------------------------------------------------------ the relation *)

(* a = the restarted side, b = the side where every old connection was dropped.  `dead` = the dropped connections. *)
Record Core0 (dead : list conn) (a b : state) : Prop := {
  c_dead : all_dead dead;
  c_count : s_count b = s_count a;
  c_now : s_now b = s_now a;
  c_ids : s_ids b = s_ids a;
  c_choices : s_choices b = s_choices a;
  c_waiters : s_waiters b = s_waiters a;
  c_hub : s_hub b = s_hub a;
  c_conns : s_conns b = dead ++ s_conns a;
  c_jobs : forall x j, getjob (s_jobs a) x = Some j -> getjob (s_jobs b) x = Some j;
  c_done : forall x, getjob (s_jobs a) x = None -> is_done (s_jobs b) x = true;
  c_q : forall k, filter (und (s_jobs a)) (qget (s_queues b) k) = filter (und (s_jobs a)) (qget (s_queues a) k);
  c_tq : forall e, is_done (s_jobs a) (snd (snd e)) = false -> (In e (s_tq b) <-> In e (s_tq a));
  c_fw : forall w, In w (s_waiters a) -> ~ In (fst w) (map c_id dead);
  c_fh : forall c, In (EvNotify c) (s_hub a) \/ In (EvKill c) (s_hub a) -> ~ In c (map c_id dead)
}.

Definition Core (dead : list conn) (a b : state) : Prop := Core0 dead a b /\ QS a /\ QS b.

Lemma core_isdone : forall dead a b, Core0 dead a b -> forall x, is_done (s_jobs b) x = is_done (s_jobs a) x.
Proof.
  intros dead a b C x. unfold is_done at 2. destruct (getjob (s_jobs a) x) as [j|] eqn:E.
  - unfold is_done. rewrite (c_jobs _ _ _ C _ _ E). reflexivity.
  - apply (c_done _ _ _ C). exact E.
Qed.

Ltac tob C := rewrite ?(c_count _ _ _ C), ?(c_now _ _ _ C), ?(c_ids _ _ _ C), ?(c_choices _ _ _ C),
                      ?(c_waiters _ _ _ C), ?(c_hub _ _ _ C), ?(c_conns _ _ _ C).

(* fresh events *)
Definition fresh_ev (dead : list conn) (e : event) : Prop :=
  match e with EvNotify c | EvKill c => ~ In c (map c_id dead) | EvDone _ => True end.
