(* C18 — the restarted state satisfies the queue invariants again.
   1. IdsOK: id2job has one entry per key and every entry (i, x) refers to an existing job object x whose own
      jobid is i; hence distinct ids map to distinct objects (serials), and the list workq.__getstate__ saves
      (list(id2job.values())) has pairwise distinct serials and pairwise distinct ids.  Invariant of every op.
   2. For such a saved list, workq.__setstate__ builds a state that satisfies Inv (C16), Aux, HubOK, QS (C17) and IdsOK.
   3. Hence every theorem proved from these invariants holds for histories WITH restarts (rrun), and after a restart
      a pull hands out the (priority, serial)-minimum of the unfinished jobs that were registered before it. *)
From Coq Require Import List NArith Bool Lia Arith Sorted.
From MW Require Import C16.Model C16.Proofs C17.Proofs C17.ProofsOrder C17.ProofsCount C18.Proofs C18.ProofsIds.
Import ListNotations.
Open Scope N_scope.

(* ------------------------------------------------------------------ 1. IdsOK *)

Definition ids_ok (js : list job) (ids : list (jid * N)) : Prop :=
  NoDup (map fst ids) /\ forall i x, In (i, x) ids -> exists j, getjob js x = Some j /\ j_id j = i.

Definition IdsOK (s : state) : Prop := ids_ok (s_jobs s) (s_ids s).

Lemma id_set_In : forall ids i v k w, In (k, w) (id_set ids i v) -> (k = i /\ w = v) \/ In (k, w) ids.
Proof.
  induction ids as [|[k0 w0] r IH]; cbn [id_set]; intros i v k w H.
  - destruct H as [H|[]]. inversion H; auto.
  - destruct (jid_eqb k0 i) eqn:E.
    + destruct H as [H|H]; [|right; right; exact H]. inversion H; subst. apply jid_eqb_eq in E. auto.
    + destruct H as [H|H]; [right; left; exact H|]. destruct (IH _ _ _ _ H); [left; auto|right; right; auto].
Qed.

Lemma id_set_keys : forall ids i v k, In k (map fst (id_set ids i v)) -> k = i \/ In k (map fst ids).
Proof.
  intros ids i v k H. apply in_map_iff in H. destruct H as ([k0 w]&Hf&Hin). cbn in Hf. subst k0.
  apply id_set_In in Hin. destruct Hin as [[H _]|H]; [left; exact H|right]. apply in_map_iff. exists (k, w). auto.
Qed.

Lemma id_set_nodup : forall ids i v, NoDup (map fst ids) -> NoDup (map fst (id_set ids i v)).
Proof.
  induction ids as [|[k0 w0] r IH]; intros i v ND; cbn [id_set map fst].
  - constructor; [intros []|constructor].
  - cbn [map fst] in ND. inversion ND as [|? ? Hn ND']; subst.
    destruct (jid_eqb k0 i) eqn:E; cbn [map fst].
    + constructor; assumption.
    + constructor; [|apply IH; exact ND']. intro H. apply id_set_keys in H. destruct H as [H|H]; [|contradiction].
      subst k0. rewrite jid_eqb_refl in E. discriminate.
Qed.

Lemma id_del_In : forall ids i p, In p (id_del ids i) -> In p ids.
Proof.
  induction ids as [|[k0 w0] r IH]; cbn [id_del]; intros i p H; [exact H|].
  destruct (jid_eqb k0 i); [right; exact H|]. destruct H as [H|H]; [left; exact H|right; eapply IH; eauto].
Qed.

Lemma id_del_nodup : forall ids i, NoDup (map fst ids) -> NoDup (map fst (id_del ids i)).
Proof.
  induction ids as [|[k0 w0] r IH]; intros i ND; cbn [id_del map fst]; [constructor|].
  cbn [map fst] in ND. inversion ND as [|? ? Hn ND']; subst.
  destruct (jid_eqb k0 i); [exact ND'|]. cbn [map fst]. constructor; [|apply IH; exact ND'].
  intro H. apply Hn. apply in_map_iff in H. destruct H as (p&Hf&Hin). apply in_map_iff. exists p. split; [exact Hf|].
  eapply id_del_In; eauto.
Qed.

Lemma ids_ok_set : forall js ids x j, ids_ok js ids -> getjob js x = Some j -> ids_ok js (id_set ids (j_id j) x).
Proof.
  intros js ids x j [ND OW] E. split; [apply id_set_nodup; exact ND|].
  intros i y H. apply id_set_In in H. destruct H as [[Hi Hy]|H]; [subst; exists j; auto|apply OW; exact H].
Qed.

Lemma ids_ok_del : forall js ids i, ids_ok js ids -> ids_ok js (id_del ids i).
Proof.
  intros js ids i [ND OW]. split; [apply id_del_nodup; exact ND|]. intros k y H. apply OW. eapply id_del_In; eauto.
Qed.

Lemma ids_ok_tab_le : forall js js' ids, tab_le js js' -> ids_ok js ids -> ids_ok js' ids.
Proof.
  intros js js' ids T [ND OW]. split; [exact ND|]. intros i x H. destruct (OW i x H) as (j&E&Hid).
  destruct (tab_le_some' _ _ _ _ T E) as (j'&E'&Hid'&_). exists j'. split; [exact E'|congruence].
Qed.

Lemma ids_ok_cons : forall js ids j0, ids_ok js ids -> getjob js (j_serial j0) = None -> ids_ok (j0 :: js) ids.
Proof.
  intros js ids j0 [ND OW] Hn. split; [exact ND|]. intros i x H. destruct (OW i x H) as (j&E&Hid). exists j. split; [|exact Hid].
  cbn [getjob]. destruct (j_serial j0 =? x) eqn:Ex; [|exact E]. apply N.eqb_eq in Ex. subst x. congruence.
Qed.

Lemma idsok_same : forall s s', s_jobs s' = s_jobs s -> s_ids s' = s_ids s -> IdsOK s -> IdsOK s'.
Proof. intros s s' J I. unfold IdsOK. rewrite J, I. auto. Qed.

Lemma pushjob_ids_ok : forall x s, IdsOK s -> IdsOK (pushjob x s).
Proof.
  intros x s K. unfold IdsOK. destruct (pushjob_jobs x s) as [J _]. rewrite J.
  unfold pushjob. destruct (getjob (s_jobs s) x) as [j|] eqn:E; [|exact K]. cbv zeta. sf.
  destruct (filter (watches (j_chan j)) (s_waiters s)); sf; apply ids_ok_set; assumption.
Qed.

Lemma deliver_ids : forall c chs x s, s_ids (fst (deliver c chs x s)) = s_ids s.
Proof. intros. unfold deliver. destruct (getjob (s_jobs s) x); reflexivity. Qed.

Lemma pop_ids : forall c chs s, s_ids (fst (pop_or_block c chs s)) = s_ids s.
Proof.
  intros. unfold pop_or_block. cbv zeta. destruct (heads _ _) as [x|]; [|reflexivity].
  destruct (getjob _ _); [|reflexivity]. rewrite deliver_ids. reflexivity.
Qed.

Lemma shutdown_ids_ok : forall l s, IdsOK s -> IdsOK (shutdown_loop l s).
Proof.
  induction l as [|[i w] r IH]; intros s K; cbn [shutdown_loop]; [exact K|].
  destruct (is_done (s_jobs s) w); [apply IH; exact K|]. apply IH. apply pushjob_ids_ok. eapply idsok_same; [| |exact K]; reflexivity.
Qed.

Lemma die_ids_ok : forall c s, IdsOK s -> IdsOK (fst (die c s)).
Proof. intros c s K. unfold die. cbv zeta. cbn [fst]. apply shutdown_ids_ok. eapply idsok_same; [| |exact K]; reflexivity. Qed.

Lemma run_event_ids_ok : forall e s, IdsOK s -> IdsOK (fst (run_event e s)).
Proof.
  intros e s K. destruct e as [c|c|ser]; cbn [run_event].
  - destruct (c_st (get_conn (s_conns s) c)) as [|chs [x|]|w|]; try exact K.
    destruct (is_done (s_jobs s) x); (eapply idsok_same; [| |exact K]); [apply pop_jobs|apply pop_ids|apply deliver_jobs|apply deliver_ids].
  - destruct (c_st (get_conn (s_conns s) c)) as [|chs mb|w|]; try exact K; try (apply die_ids_ok; exact K).
    apply die_ids_ok. destruct mb as [x|]; [|eapply idsok_same; [| |exact K]; reflexivity].
    sf. destruct (is_done (s_jobs s) x); [eapply idsok_same; [| |exact K]; reflexivity|].
    apply pushjob_ids_ok. eapply idsok_same; [| |exact K]; reflexivity.
  - destruct (release ser (s_jobs s) (s_conns s)) as [cs o]. destruct (getjob (s_jobs s) ser) as [j|]; [|exact K].
    destruct (j_drop j && has_waiter ser (s_conns s) && id_is (s_ids s) (j_id j) ser); [|exact K].
    cbn [fst]. unfold IdsOK. sf. apply ids_ok_del. exact K.
Qed.

Lemma run_events_ids_ok : forall es s, IdsOK s -> IdsOK (fst (run_events es s)).
Proof.
  induction es as [|e r IH]; intros s K; cbn [run_events]; [exact K|].
  pose proof (run_event_ids_ok e s K) as K1. destruct (run_event e s) as [s1 o1]. cbn [fst] in K1.
  specialize (IH s1 K1). destruct (run_events r s1) as [s2 o2]. exact IH.
Qed.

Lemma idsok_tab_le : forall s s', tab_le (s_jobs s) (s_jobs s') -> s_ids s' = s_ids s -> IdsOK s -> IdsOK s'.
Proof. intros s s' T I K. unfold IdsOK. rewrite I. eapply ids_ok_tab_le; eauto. Qed.

Lemma mark_ids_ok : forall x u s, IdsOK s -> IdsOK (mark_finished x u s).
Proof.
  intros x u s K. destruct (mark_fields x u s) as (_&_&_&Hi&_). eapply idsok_tab_le; [apply mark_tab_le|exact Hi|exact K].
Qed.

Lemma killjobs_ids_ok : forall js s, IdsOK s -> IdsOK (killjobs js s).
Proof.
  intros js s K. destruct (killjobs_ids js s) as (Hi&T&_). eapply idsok_tab_le; eauto.
Qed.

Lemma timeouts_ids_ok : forall q s, IdsOK s -> IdsOK (timeouts_loop q s).
Proof.
  induction q as [|x r IH]; intros s K; cbn [timeouts_loop]; [eapply idsok_same; [| |exact K]; reflexivity|].
  destruct (is_done (s_jobs s) (snd (snd x))); [apply IH; exact K|].
  destruct (s_now s <? fst x); [eapply idsok_same; [| |exact K]; reflexivity|]. apply IH. apply mark_ids_ok. exact K.
Qed.

Lemma dropjobs_ids : forall js s, s_ids (dropjobs js s) = s_ids s.
Proof.
  induction js as [|i r IH]; intro s; cbn [dropjobs]; [reflexivity|].
  destruct (id_lookup (s_ids s) i); [|apply IH]. rewrite IH. reflexivity.
Qed.

Lemma dropdead_ids_ok : forall l s, IdsOK s -> IdsOK (dropdead_loop l s).
Proof.
  induction l as [|i r IH]; intros s K; cbn [dropdead_loop]; [exact K|].
  destruct (id_lookup (s_ids s) i) as [ser|]; [|apply IH; exact K].
  destruct (getjob (s_jobs s) ser) as [j|]; [|apply IH; exact K]. cbv zeta. apply IH.
  set (s1 := if match j_dl j with Some d => negb (d =? 0) && (d <? s_now s) | None => false end
             then set_ids (id_del (s_ids s) i) s else s).
  assert (K1 : IdsOK s1).
  { unfold s1. destruct (match j_dl j with Some d => negb (d =? 0) && (d <? s_now s) | None => false end); [|exact K].
    unfold IdsOK. sf. apply ids_ok_del. exact K. }
  destruct (j_done j && negb (dl_truthy (j_dl j))); [|exact K1].
  apply (idsok_tab_le s1); [|reflexivity|exact K1]. sf. apply set_dl_tab_le.
Qed.

Lemma step_ids_ok : forall s o, Inv s [] [] -> IdsOK s -> IdsOK (fst (step s o)).
Proof.
  intros s o I K.
  destruct o as [ch prio name tmo|c chs| |c i res e|c js|dt|c|k|c i|i|i v| |dt|js|]; cbn [step].
  - assert (F : forall j0, j_serial j0 = s_count s + 1 ->
                IdsOK (pushjob (s_count s + 1) (set_jobs (j0 :: s_jobs s) (set_count (s_count s + 1) s)))).
    { intros j0 Hs. apply pushjob_ids_ok. unfold IdsOK. sf. apply ids_ok_cons; [exact K|]. rewrite Hs.
      destruct (getjob (s_jobs s) (s_count s + 1)) as [j|] eqn:E; [|reflexivity].
      pose proof (inv_tab _ _ _ I _ _ E). lia. }
    unfold push. destruct name as [n|]; [|apply F; reflexivity].
    destruct (id_lookup (s_ids s) (JName n)) as [ser|]; [|apply F; reflexivity].
    destruct (getjob (s_jobs s) ser) as [j0|]; [|apply F; reflexivity].
    destruct (err_is_killed (j_err j0)); [apply F; reflexivity|exact K].
  - destruct (is_idle c s); [|exact K]. eapply idsok_same; [apply pop_jobs|apply pop_ids|exact K].
  - apply run_events_ids_ok. eapply idsok_same; [| |exact K]; reflexivity.
  - destruct (is_idle c s); [|exact K]. destruct (id_lookup (s_ids s) i); [|exact K]. cbn [fst].
    eapply idsok_same; [| |apply mark_ids_ok; exact K]; reflexivity.
  - destruct (is_idle c s); [|exact K]. cbn [fst]. eapply idsok_same; [| |apply killjobs_ids_ok; exact K]; reflexivity.
  - cbn [fst]. unfold handletimeouts. eapply idsok_same; [| |apply (timeouts_ids_ok (s_tq s) (set_now (s_now s + dt) s))]; try reflexivity.
    eapply idsok_same; [| |exact K]; reflexivity.
  - destruct (c_st (get_conn (s_conns s) c)); cbn [fst]; try exact K; (eapply idsok_same; [| |exact K]; reflexivity).
  - cbn [fst]. eapply idsok_same; [| |exact K]; reflexivity.
  - destruct (is_idle c s); [|exact K]. destruct (id_lookup (s_ids s) i) as [ser|]; [|exact K].
    destruct (getjob (s_jobs s) ser) as [j|]; [|exact K].
    destruct (j_done j).
    + destruct (j_drop j && id_is (s_ids s) (j_id j) ser); [|exact K]. cbn [fst]. unfold IdsOK. sf. apply ids_ok_del. exact K.
    + cbn [fst]. eapply idsok_same; [| |exact K]; reflexivity.
  - exact K.
  - destruct (id_lookup (s_ids s) i) as [ser|]; [|exact K]. cbn [fst].
    apply (idsok_tab_le s); [|reflexivity|exact K]. sf. apply setinfo_tab_le.
  - exact K.
  - cbn [fst]. eapply idsok_same; [| |exact K]; reflexivity.
  - cbn [fst]. destruct (dropjobs_tab_le js s) as [T _]. eapply idsok_tab_le; [exact T|apply dropjobs_ids|exact K].
  - cbn [fst]. unfold dropdead. apply dropdead_ids_ok. exact K.
Qed.

Lemma idsok_init : IdsOK init.
Proof. split; [constructor|intros i x []]. Qed.

(* ------------------------------------------------------------------ 2. what __getstate__ saves *)

(* the saved job list: pairwise distinct serials, pairwise distinct ids, and the per-job facts of Inv / Aux *)
Record SavedOK (n : N) (l : list job) : Prop := {
  sv_ser : NoDup (map j_serial l);
  sv_id : NoDup (map j_id l);
  sv_le : forall j, In j l -> j_serial j <= n;
  sv_auto : forall j k, In j l -> j_id j = JAuto k -> k = j_serial j;
  sv_err : forall j, In j l -> j_done j = false -> j_err j = ENone;
  sv_dl : forall j, In j l -> j_done j = false -> j_dl j = None
}.

Lemma collect_In : forall js ids j, In j (collect js ids) -> exists i x, In (i, x) ids /\ getjob js x = Some j.
Proof.
  intros js ids j. induction ids as [|[i x] r IH]; cbn [collect]; intro H; [destruct H|].
  destruct (getjob js x) as [j0|] eqn:E.
  - destruct H as [H|H]; [subst j0; exists i, x; split; [left; reflexivity|exact E]|].
    destruct (IH H) as (i'&x'&Hin&E'). exists i', x'. split; [right; exact Hin|exact E'].
  - destruct (IH H) as (i'&x'&Hin&E'). exists i', x'. split; [right; exact Hin|exact E'].
Qed.

Lemma collect_nodup : forall js ids, ids_ok js ids ->
  NoDup (map j_serial (collect js ids)) /\ NoDup (map j_id (collect js ids)).
Proof.
  intros js ids [ND OW]. induction ids as [|[i x] r IH]; cbn [collect]; [split; constructor|].
  cbn [map fst] in ND. inversion ND as [|? ? Hn ND']; subst.
  destruct IH as [IH1 IH2]; [exact ND'|intros i' x' H; apply OW; right; exact H|].
  destruct (OW i x (or_introl eq_refl)) as (j&E&Hid). rewrite E. cbn [map].
  (* any other collected job j' comes from an entry (i', x') of r with key i' <> i, and j_id j' = i' *)
  assert (OTHER : forall j', In j' (collect js r) -> j_id j' <> i).
  { intros j' Hin Heq. destruct (collect_In _ _ _ Hin) as (i'&x'&Hin'&E').
    destruct (OW i' x' (or_intror Hin')) as (j''&E''&Hid''). rewrite E' in E''. inversion E''; subst j''.
    apply Hn. apply in_map_iff. exists (i', x'). split; [cbn; congruence|exact Hin']. }
  split; constructor; auto.
  - intro H. apply in_map_iff in H. destruct H as (j'&Hs&Hin). apply (OTHER j' Hin).
    destruct (collect_In _ _ _ Hin) as (i'&x'&Hin'&E'). pose proof (getjob_serial _ _ _ E') as S'.
    pose proof (getjob_serial _ _ _ E) as S. assert (j' = j) by congruence. subst j'. exact Hid.
  - intro H. apply in_map_iff in H. destruct H as (j'&Hs&Hin). apply (OTHER j' Hin). congruence.
Qed.

Lemma save_ok : forall s, Aux s -> Inv s [] [] -> IdsOK s -> SavedOK (fst (save s)) (snd (save s)).
Proof.
  intros s A I K. unfold save. cbn [fst snd]. destruct (collect_nodup _ _ K) as [N1 N2].
  constructor; auto; intros j; intros; match goal with H : In j (collect _ _) |- _ => destruct (collect_In _ _ _ H) as (i0&x0&_&E0) end.
  - pose proof (getjob_serial _ _ _ E0). subst x0. eapply (inv_tab _ _ _ I); eauto.
  - pose proof (getjob_serial _ _ _ E0). subst x0. eapply (inv_auto _ _ _ I); eauto.
  - eapply (inv_err _ _ _ I); eauto.
  - eapply A; eauto.
Qed.

(* ------------------------------------------------------------------ 3. __setstate__ re-establishes the invariants *)

Definition restore1 (j : job) (s : state) : state :=
  let s1 := set_ids (id_set (s_ids s) (j_id j) (j_serial j)) (set_jobs (s_jobs s ++ [j]) s) in
  if j_done j then s1
  else
    let s2 := set_tq (tins (j_timeout j, (j_prio j, j_serial j)) (s_tq s1)) s1 in
    let q := match q_get (s_queues s2) (j_chan j) with Some q => q | None => [] end in
    set_queues (q_set (s_queues s2) (j_chan j) (ins (j_prio j, j_serial j) q)) s2.

Lemma restore_loop_cons : forall j r s, restore_loop (j :: r) s = restore_loop r (restore1 j s).
Proof. intros j r s. cbn [restore_loop]. unfold restore1. destruct (j_done j); reflexivity. Qed.

Lemma getjob_snoc : forall js j x,
  getjob (js ++ [j]) x = match getjob js x with Some y => Some y | None => if j_serial j =? x then Some j else None end.
Proof.
  induction js as [|z r IH]; intros j x; cbn [app getjob]; [reflexivity|].
  destruct (j_serial z =? x); [reflexivity|apply IH].
Qed.

Lemma restore1_fields : forall j s,
  s_jobs (restore1 j s) = s_jobs s ++ [j] /\ s_ids (restore1 j s) = id_set (s_ids s) (j_id j) (j_serial j) /\
  s_conns (restore1 j s) = s_conns s /\ s_waiters (restore1 j s) = s_waiters s /\ s_count (restore1 j s) = s_count s /\
  s_hub (restore1 j s) = s_hub s.
Proof. intros j s. unfold restore1. destruct (j_done j); repeat split. Qed.

(* one iteration of the loop in __setstate__ *)
Lemma restore1_inv : forall j s,
  Inv s [] [] -> getjob (s_jobs s) (j_serial j) = None ->
  (forall x jx, getjob (s_jobs s) x = Some jx -> j_id jx <> j_id j) ->
  j_serial j <= s_count s -> (forall k, j_id j = JAuto k -> k = j_serial j) -> (j_done j = false -> j_err j = ENone) ->
  Inv (restore1 j s) [] [].
Proof.
  intros j s I GN NEW LE AU ER.
  set (ser := j_serial j) in *.
  assert (GO : forall y, y <> ser -> getjob (s_jobs s ++ [j]) y = getjob (s_jobs s) y).
  { intros y Hy. rewrite getjob_snoc. destruct (getjob (s_jobs s) y); [reflexivity|].
    fold ser. destruct (ser =? y) eqn:E; [apply N.eqb_eq in E; congruence|reflexivity]. }
  assert (GS : getjob (s_jobs s ++ [j]) ser = Some j).
  { rewrite getjob_snoc, GN. fold ser. rewrite N.eqb_refl. reflexivity. }
  assert (OLD : forall y jy, getjob (s_jobs s) y = Some jy -> y <> ser) by (intros y jy Ey Hy; subst y; congruence).
  assert (KEEP : forall y jy, getjob (s_jobs s) y = Some jy -> getjob (s_jobs s ++ [j]) y = Some jy).
  { intros y jy Ey. rewrite GO; [exact Ey|eapply OLD; eauto]. }
  (* the common part: job table and id table *)
  set (s1 := set_ids (id_set (s_ids s) (j_id j) ser) (set_jobs (s_jobs s ++ [j]) s)).
  assert (W0 : locs s ser = 0%nat).
  { pose proof (inv_cons _ _ _ I ser 0%nat) as H. unfold want in H. rewrite GN in H. specialize (H eq_refl). cbn [occ] in H. lia. }
  assert (COMMON : forall s', s_jobs s' = s_jobs s ++ [j] -> s_ids s' = id_set (s_ids s) (j_id j) ser ->
            s_conns s' = s_conns s -> s_waiters s' = s_waiters s -> s_count s' = s_count s ->
            (forall y n, want (s_jobs s') y = Some n -> locs s' y = n) ->
            (forall k q p x, In (k, q) (s_queues s') -> In (p, x) q -> exists j0, getjob (s_jobs s') x = Some j0 /\ j_chan j0 = k /\ j_prio j0 = p) ->
            Inv s' [] []).
  { intros s' Hj Hi Hc Hw Hn CONS QQ. constructor; rewrite ?Hj, ?Hi, ?Hc, ?Hw, ?Hn; try (destruct I; assumption).
    - intros y n W. rewrite <- Hj in W. rewrite (CONS y n W). cbn [occ]. lia.
    - intros y jy Ey Dy _. rewrite id_lookup_set. destruct (N.eq_dec y ser) as [E|E].
      + subst y. rewrite GS in Ey. inversion Ey; subst jy. rewrite jid_eqb_refl. reflexivity.
      + rewrite GO in Ey by exact E. destruct (jid_eqb (j_id j) (j_id jy)) eqn:Eid.
        * apply jid_eqb_eq in Eid. exfalso. eapply NEW; eauto.
        * apply (inv_addr _ _ _ I); auto.
    - intros x y jx jy Ex Ey Dx Dy Hid.
      destruct (N.eq_dec x ser) as [E1|E1]; destruct (N.eq_dec y ser) as [E2|E2]; try congruence.
      + subst x. rewrite GS in Ex. inversion Ex; subst jx. rewrite GO in Ey by exact E2. exfalso. eapply NEW; eauto.
      + subst y. rewrite GS in Ey. inversion Ey; subst jy. rewrite GO in Ex by exact E1. exfalso. eapply NEW; eauto.
      + rewrite GO in Ex, Ey by assumption. eapply (inv_uniq _ _ _ I); eauto.
    - intros x jx n Ex Hid. destruct (N.eq_dec x ser) as [E|E].
      + subst x. rewrite GS in Ex. inversion Ex; subst jx. apply AU. exact Hid.
      + rewrite GO in Ex by exact E. eapply (inv_auto _ _ _ I); eauto.
    - intros x jx Ex. destruct (N.eq_dec x ser) as [E|E]; [subst; exact LE|].
      rewrite GO in Ex by exact E. eapply (inv_tab _ _ _ I); eauto.
    - intros x jx Ex Dx. destruct (N.eq_dec x ser) as [E|E].
      + subst x. rewrite GS in Ex. inversion Ex; subst jx. apply ER. exact Dx.
      + rewrite GO in Ex by exact E. eapply (inv_err _ _ _ I); eauto.
    - rewrite <- Hj. exact QQ.
    - intros c0 i0 w Hin Hr. destruct (inv_run _ _ _ I _ _ _ Hin Hr) as (j0&E0&H0). exists j0. split; [|exact H0]. apply KEEP. exact E0.
    - intros c0 chs x Hs. destruct (inv_mb _ _ _ I _ _ _ Hs) as (j0&E0&H0). exists j0. split; [|exact H0]. apply KEEP. exact E0. }
  assert (WANT_OLD : forall y n, y <> ser -> want (s_jobs s ++ [j]) y = Some n -> want (s_jobs s) y = Some n).
  { intros y n Hy W. unfold want in *. rewrite GO in W by exact Hy. exact W. }
  unfold restore1. fold ser. destruct (j_done j) eqn:Dj.
  - (* finished job: table only *)
    apply COMMON; try reflexivity.
    + intros y n W. sf. destruct (N.eq_dec y ser) as [E|E].
      * subst y. unfold want in W. rewrite GS, Dj in W. discriminate.
      * pose proof (inv_cons _ _ _ I y n (WANT_OLD y n E W)) as H. cbn [occ] in H. unfold locs in *. sf. lia.
    + intros k q p x Hin Hp. sf. destruct (inv_q _ _ _ I _ _ _ _ Hin Hp) as (j0&E0&H0). exists j0. split; [apply KEEP; exact E0|exact H0].
  - (* unfinished job: also queued in its channel and put on the timeout heap *)
    cbv zeta. apply COMMON; try reflexivity.
    + intros y n W. unfold locs. sf.
      pose proof (occ_qs_set y (s_queues s) (j_chan j) (ins (j_prio j, ser) (qget (s_queues s) (j_chan j)))) as H2.
      rewrite qocc_ins in H2. cbn [snd] in H2. unfold qget in *.
      destruct (N.eq_dec y ser) as [E|E].
      * subst y. unfold want in W. rewrite GS, Dj in W. inversion W; subst n. rewrite ind_refl in H2. unfold locs in W0. lia.
      * pose proof (inv_cons _ _ _ I y n (WANT_OLD y n E W)) as H. cbn [occ] in H. unfold locs in H.
        rewrite ind_neq in H2 by congruence. lia.
    + intros k q p x Hin Hp. sf. apply q_set_In in Hin. destruct Hin as [[Hk Hq]|Hin].
      * subst. apply ins_In in Hp. destruct Hp as [Hp|Hp].
        -- inversion Hp; subst. exists j. auto.
        -- destruct (q_get (s_queues s) (j_chan j)) as [q0|] eqn:Eq; [|destruct Hp].
           apply q_get_In in Eq. destruct (inv_q _ _ _ I _ _ _ _ Eq Hp) as (j0&E0&H0). exists j0. split; [apply KEEP; exact E0|exact H0].
      * destruct (inv_q _ _ _ I _ _ _ _ Hin Hp) as (j0&E0&H0). exists j0. split; [apply KEEP; exact E0|exact H0].
Qed.

Lemma restore1_aux : forall j s, Aux s -> getjob (s_jobs s) (j_serial j) = None -> (j_done j = false -> j_dl j = None) -> Aux (restore1 j s).
Proof.
  intros j s A GN DL x jx E. destruct (restore1_fields j s) as (Hj&_). rewrite Hj, getjob_snoc in E.
  destruct (getjob (s_jobs s) x) as [y|] eqn:Ex.
  - inversion E; subst jx. apply (A x y Ex).
  - destruct (j_serial j =? x); [|discriminate]. inversion E; subst jx. exact DL.
Qed.

Lemma restore1_qs : forall j s, QS s -> QS (restore1 j s).
Proof.
  intros j s Q. unfold restore1. destruct (j_done j); [eapply qs_same; [|exact Q]; reflexivity|]. cbv zeta. sf.
  intros k q Hin. sf. apply q_set_In in Hin. destruct Hin as [[_ Hq]|Hin]; [|exact (Q _ _ Hin)].
  subst q. apply sorted_ins. destruct (q_get (s_queues s) (j_chan j)) as [q0|] eqn:E; [|constructor].
  apply (Q (j_chan j)). apply q_get_In. exact E.
Qed.

Lemma restore1_idsok : forall j s, IdsOK s -> getjob (s_jobs s) (j_serial j) = None -> IdsOK (restore1 j s).
Proof.
  intros j s [ND OW] GN. destruct (restore1_fields j s) as (Hj&Hi&_). unfold IdsOK. rewrite Hj, Hi.
  split; [apply id_set_nodup; exact ND|]. intros i x H. apply id_set_In in H. destruct H as [[Hi' Hx]|H].
  - subst. exists j. split; [|reflexivity]. rewrite getjob_snoc, GN, N.eqb_refl. reflexivity.
  - destruct (OW i x H) as (j0&E0&H0). exists j0. split; [|exact H0]. rewrite getjob_snoc, E0. reflexivity.
Qed.

(* everything the restarted server needs, as one invariant of the loop *)
Definition RInv (s : state) : Prop := Aux s /\ Inv s [] [] /\ QS s /\ IdsOK s.

Lemma getjob_In' : forall js x j, getjob js x = Some j -> In j js.
Proof. exact getjob_In. Qed.

Lemma getjob_none_snoc : forall js j x, getjob js x = None -> j_serial j <> x -> getjob (js ++ [j]) x = None.
Proof.
  intros js j x H Hn. rewrite getjob_snoc, H. destruct (j_serial j =? x) eqn:E; [apply N.eqb_eq in E; congruence|reflexivity].
Qed.

Lemma restore_loop_rinv : forall l s,
  RInv s -> NoDup (map j_serial l) -> NoDup (map j_id l) ->
  (forall j, In j l -> getjob (s_jobs s) (j_serial j) = None) ->
  (forall j x jx, In j l -> getjob (s_jobs s) x = Some jx -> j_id jx <> j_id j) ->
  (forall j, In j l -> j_serial j <= s_count s) ->
  (forall j k, In j l -> j_id j = JAuto k -> k = j_serial j) ->
  (forall j, In j l -> j_done j = false -> j_err j = ENone) ->
  (forall j, In j l -> j_done j = false -> j_dl j = None) ->
  RInv (restore_loop l s).
Proof.
  induction l as [|j r IH]; intros s (A&I&Q&K) N1 N2 FR NEW LE AU ER DL; [exact (conj A (conj I (conj Q K)))|].
  rewrite restore_loop_cons. cbn [map] in N1, N2. inversion N1 as [|? ? Hn1 N1']; subst. inversion N2 as [|? ? Hn2 N2']; subst.
  destruct (restore1_fields j s) as (Hj&Hi&Hc&Hw&Hcnt&Hh).
  pose proof (FR j (or_introl eq_refl)) as GN.
  apply IH; auto.
  - split; [apply restore1_aux; auto; apply DL; left; reflexivity|].
    split; [apply restore1_inv; auto|].
    + intros x jx Ex. eapply NEW; eauto. left; reflexivity.
    + apply LE. left; reflexivity.
    + intros k Hk. eapply AU; eauto. left; reflexivity.
    + apply ER. left; reflexivity.
    + split; [apply restore1_qs; exact Q|apply restore1_idsok; assumption].
  - intros j' Hin. rewrite Hj. apply getjob_none_snoc; [apply FR; right; exact Hin|].
    intro E. apply Hn1. apply in_map_iff. exists j'. split; [symmetry; exact E|exact Hin].
  - intros j' x jx Hin Ex. rewrite Hj, getjob_snoc in Ex. destruct (getjob (s_jobs s) x) as [y|] eqn:Ey.
    + inversion Ex; subst jx. eapply NEW; eauto. right; exact Hin.
    + destruct (j_serial j =? x); [|discriminate]. inversion Ex; subst jx. intro E. apply Hn2. apply in_map_iff. exists j'. split; [symmetry; exact E|exact Hin].
  - intros j' Hin. rewrite Hcnt. apply LE. right; exact Hin.
  - intros j' k Hin. apply AU. right; exact Hin.
  - intros j' Hin. apply ER. right; exact Hin.
  - intros j' Hin. apply DL. right; exact Hin.
Qed.

Lemma rinv_empty : forall now n, RInv (set_now now (set_count n init)).
Proof.
  intros now n. split; [intros x j H; discriminate H|]. split; [|split; [intros k q []|split; [constructor|intros i x []]]].
  constructor; cbn; try discriminate; try tauto.
  - intros x k H. inversion H. reflexivity.
  - constructor.
Qed.

Lemma restore_rinv : forall now n l, SavedOK n l -> RInv (restore now (n, l)).
Proof.
  intros now n l S. unfold restore. cbn [fst snd]. apply restore_loop_rinv; try (destruct S; assumption).
  - apply rinv_empty.
  - intros j _. reflexivity.
  - intros j x jx _ H. discriminate H.
Qed.

(* Good + QS + IdsOK: what holds in every state reachable with restarts *)
Definition RGood (s : state) : Prop := Good s /\ QS s /\ IdsOK s.

Lemma restart_rgood : forall s, RGood s -> RGood (restart s).
Proof.
  intros s ((A&_&I)&_&K). unfold restart.
  pose proof (save_ok s A I K) as S. destruct (save s) as [n l]. cbn [fst snd] in S.
  destruct (restore_rinv (s_now s) n l S) as (A'&I'&Q'&K').
  split; [|split; assumption]. split; [exact A'|]. split; [|exact I'].
  destruct (restore_state (s_now s) (n, l)) as (_&_&_&_&Hh&_). intros ser Hin. rewrite Hh in Hin. destruct Hin.
Qed.

Lemma step_rgood : forall s o, RGood s -> RGood (fst (step s o)).
Proof.
  intros s o (G&Q&K). split; [apply step_good; exact G|]. split; [apply step_qs; exact Q|].
  apply step_ids_ok; [apply G|exact K].
Qed.

Lemma rstep_rgood : forall s r, RGood s -> RGood (rstep s r).
Proof. intros s [o|] G; cbn [rstep]; [apply step_rgood|apply restart_rgood]; exact G. Qed.

Lemma rgood_init : RGood init.
Proof. split; [apply good_init|]. split; [apply qs_init|apply idsok_init]. Qed.

Lemma rrun_rgood : forall h s, RGood s -> RGood (rrun h s).
Proof.
  induction h as [|r h IH]; intros s G; [exact G|]. change (rrun (r :: h) s) with (rrun h (rstep s r)).
  apply IH. apply rstep_rgood. exact G.
Qed.

Lemma rreachable_rgood : forall h, RGood (rrun h init).
Proof. intro h. apply rrun_rgood. apply rgood_init. Qed.

(* C18 (a): the restarted state of any reachable state (reachable with earlier restarts as well) satisfies the queue
   invariant *)
Lemma restart_inv : forall h, let s := rrun h init in Inv (restart s) [] [] /\ Aux (restart s) /\ HubOK (restart s) /\ QS (restart s).
Proof.
  intros h s. destruct (restart_rgood s (rreachable_rgood h)) as ((A&K&I)&Q&_). auto.
Qed.

(* conservation for histories with restarts at arbitrary positions *)
Lemma conservation_restarts : forall h x j,
  let s := rrun h init in
  getjob (s_jobs s) x = Some j -> j_done j = false ->
  (in_queues s x + with_workers s x = 1)%nat /\
  id_lookup (s_ids s) (j_id j) = Some x /\
  (forall k q p, In (k, q) (s_queues s) -> In (p, x) q -> k = j_chan j /\ p = j_prio j).
Proof.
  intros h x j s E D. destruct (rreachable_rgood h) as ((_&_&I)&_). fold s in I.
  split; [|split].
  - pose proof (inv_cons _ _ _ I x 1%nat (want_undone _ _ _ E D)) as H. unfold locs in H. cbn [occ] in H.
    unfold in_queues, with_workers. lia.
  - apply (inv_addr _ _ _ I); auto.
  - intros k q p Hin Hp. destruct (inv_q _ _ _ I _ _ _ _ Hin Hp) as (j'&E'&Hc&Hpp). rewrite E in E'. inversion E'; subst. auto.
Qed.

(* ------------------------------------------------------------------ 4. pullable again, in the same order *)

Lemma getjob_In_nodup : forall js j, NoDup (map j_serial js) -> In j js -> getjob js (j_serial j) = Some j.
Proof.
  induction js as [|z r IH]; intros j ND Hin; [destruct Hin|]. cbn [map] in ND. inversion ND as [|? ? Hn ND']; subst.
  cbn [getjob]. destruct Hin as [H|H].
  - subst z. rewrite N.eqb_refl. reflexivity.
  - destruct (j_serial z =? j_serial j) eqn:E; [|apply IH; assumption].
    apply N.eqb_eq in E. exfalso. apply Hn. rewrite E. apply in_map. exact H.
Qed.

(* the job table of the restarted server holds every registered job under its serial, verbatim *)
Lemma restart_job_table : forall s i x j, RGood s ->
  id_lookup (s_ids s) i = Some x -> getjob (s_jobs s) x = Some j -> getjob (s_jobs (restart s)) x = Some j.
Proof.
  intros s i x j ((A&_&I)&_&K) El E. destruct (save_keeps s i x j El E) as [Hin _].
  destruct (restore_state (s_now s) (save s)) as (_&H2&_). unfold restart. rewrite H2.
  rewrite <- (getjob_serial _ _ _ E). apply getjob_In_nodup; [|exact Hin]. apply (sv_ser _ _ (save_ok s A I K)).
Qed.

Lemma qget_In_some : forall qs k e, In e (qget qs k) -> exists q, q_get qs k = Some q /\ In e q.
Proof. intros qs k e. unfold qget. destruct (q_get qs k) as [q|]; [eauto|intros []]. Qed.

(* C18 "unfinished jobs are pullable again in the same priority/FIFO order": in the restarted state of any state s
   reachable with the full alphabet (and earlier restarts), whatever a pull hands out at once is not larger, in the
   order (priority, serial) of jobs.py:45-52, than ANY job that was registered in id2job and unfinished before the
   restart - queued, in a mailbox or held by a worker alike - on a requested channel.  Priorities and serials are
   those the jobs had before the restart (restart_job_table: records verbatim). *)
Lemma restart_pull_in_order : forall s c chs j, RGood s ->
  let s' := restart s in
  In (ODeliver c chs j) (snd (step s' (StartPull c chs))) ->
  j_done j = false /\
  forall i x jx, id_lookup (s_ids s) i = Some x -> getjob (s_jobs s) x = Some jx -> j_done jx = false ->
    (chs = [] \/ mem (j_chan jx) chs = true) -> key_lt (j_prio jx, x) (j_prio j, j_serial j) = false.
Proof.
  intros s c chs j G s' Hout. destruct (restart_rgood s G) as ((A'&K'&I')&Q'&_). fold s' in A', K', I', Q'.
  split; [apply (step_out _ _ _ K' I' Hout)|].
  intros i x jx El E D He. destruct (restart_preserves s i x jx El E) as (_&_&_&_&_&HQ). destruct (HQ D) as [Hin _].
  fold s' in Hin. apply qget_In_some in Hin. destruct Hin as (q&Hq&Hin). rewrite (getjob_serial _ _ _ E) in Hin.
  eapply (min_first_state s' c chs j Q' I' Hout); eauto.
  unfold is_done. unfold s'. rewrite (restart_job_table s i x jx G El E). exact D.
Qed.

(* ... and a pull on the restarted server blocks only when no registered job was unfinished on the requested channels *)
Lemma restart_pull_blocks_only_when_empty : forall s c chs, RGood s ->
  let s' := restart s in
  In OBlocked (snd (step s' (StartPull c chs))) ->
  forall i x jx, id_lookup (s_ids s) i = Some x -> getjob (s_jobs s) x = Some jx ->
    (chs = [] \/ mem (j_chan jx) chs = true) -> j_done jx = true.
Proof.
  intros s c chs G s' Hout i x jx El E He. destruct (j_done jx) eqn:D; [reflexivity|exfalso].
  destruct (restart_rgood s G) as (_&Q'&_). fold s' in Q'.
  destruct (restart_preserves s i x jx El E) as (_&_&Hc&_&_&HQ). destruct (HQ D) as [Hin _].
  fold s' in Hin, Hc. apply qget_In_some in Hin. destruct Hin as (q&Hq&Hin). rewrite (getjob_serial _ _ _ E) in Hin.
  assert (EI : is_idle c s' = true) by (unfold is_idle; rewrite Hc; reflexivity).
  pose proof (blocks_only_when_empty_state s' c chs Q' EI Hout _ _ _ _ Hq He Hin) as H.
  unfold is_done in H. unfold s' in H. rewrite (restart_job_table s i x jx G El E) in H. congruence.
Qed.

(* every theorem derived from Good / QS also holds after restarts; the two used by C17's statements: *)
Lemma delivered_ok_restarts : forall h o c chs j,
  In (ODeliver c chs j) (snd (step (rrun h init) o)) ->
  j_done j = false /\ (chs = [] \/ mem (j_chan j) chs = true).
Proof. intros h o c chs j H. destruct (rreachable_rgood h) as ((_&K&I)&_). apply (step_out _ _ _ K I H). Qed.

Lemma min_first_restarts : forall h c chs j,
  let s := rrun h init in
  In (ODeliver c chs j) (snd (step s (StartPull c chs))) ->
  forall k q p x, q_get (s_queues s) k = Some q -> (chs = [] \/ mem k chs = true) -> In (p, x) q ->
  is_done (s_jobs s) x = false -> key_lt (p, x) (j_prio j, j_serial j) = false.
Proof. intros h c chs j s. destruct (rreachable_rgood h) as ((_&_&I)&Q&_). apply min_first_state; assumption. Qed.

Lemma prio_fifo_restarts : forall h c chs j,
  let s := rrun h init in
  In (ODeliver c chs j) (snd (step s (StartPull c chs))) ->
  forall k q p x, q_get (s_queues s) k = Some q -> (chs = [] \/ mem k chs = true) -> In (p, x) q ->
  is_done (s_jobs s) x = false -> j_prio j <= p /\ (p = j_prio j -> j_serial j <= x).
Proof.
  intros h c chs j s Hd k q p x Hq Hc Hin Hu. apply key_not_lt_prio_fifo.
  exact (min_first_restarts h c chs j Hd k q p x Hq Hc Hin Hu).
Qed.

(* Non-vacuity: jobs 1 (prio 1) and 2 (prio 0) on channel 0 and job 3 on channel 1; worker 1 holds job 2, worker 2 is
   blocked on channel 2 and gets job 4 into its mailbox; restart; then pulls get 2, 1 (channel 0 in priority order), and
   a pull on all channels gets 3 before 4 (equal priority: older first). *)
Definition restart_history : list rop :=
  [Op (Add 0 1 None None); Op (Add 0 0 (Some 0) None); Op (Add 1 0 None (Some 5)); Op (StartPull 1 [0]);
   Op (StartPull 2 [2]); Op (Add 2 0 None None); Restart;
   Op (StartPull 1 [0]); Op (StartPull 2 [0]); Op (StartPull 3 []); Op (StartPull 4 [])].

Lemma restart_example :
  let s := rrun restart_history init in
  map (fun c => (c_id c, map snd (c_run c))) (s_conns s) = [(1, [2]); (2, [1]); (3, [3]); (4, [4])] /\
  s_count s = 4 /\ s_handed s = [4; 3; 1; 2].
Proof. vm_compute. repeat split. Qed.
