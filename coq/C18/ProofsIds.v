(* C18 — the id counter never goes back, not across restarts: server-chosen ids are not reused. *)
From Coq Require Import List NArith Bool Lia Arith.
From MW Require Import C16.Model C16.Proofs C17.Proofs C17.ProofsCount C18.Proofs.
Import ListNotations.
Open Scope N_scope.

Lemma core_count : forall s s', core s' = core s -> s_count s' = s_count s.
Proof. intros s s' H. unfold core in H. inversion H. reflexivity. Qed.

Lemma count_mark : forall x u s, s_count (mark_finished x u s) = s_count s.
Proof. intros. apply mark_fields. Qed.

Lemma count_killjobs : forall js s, s_count (killjobs js s) = s_count s.
Proof.
  induction js as [|i r IH]; intro s; cbn [killjobs]; [reflexivity|].
  destruct (id_lookup (s_ids s) i); [|apply IH]. rewrite IH. apply count_mark.
Qed.

Lemma count_timeouts : forall q s, s_count (timeouts_loop q s) = s_count s.
Proof.
  induction q as [|x r IH]; intro s; cbn [timeouts_loop]; [reflexivity|].
  destruct (is_done (s_jobs s) (snd (snd x))); [apply IH|]. destruct (s_now s <? fst x); [reflexivity|].
  rewrite IH. apply count_mark.
Qed.

Lemma count_dropjobs : forall js s, s_count (dropjobs js s) = s_count s.
Proof.
  induction js as [|i r IH]; intro s; cbn [dropjobs]; [reflexivity|].
  destruct (id_lookup (s_ids s) i); [|apply IH]. rewrite IH. reflexivity.
Qed.

Lemma count_dropdead : forall l s, s_count (dropdead_loop l s) = s_count s.
Proof.
  induction l as [|i r IH]; intro s; cbn [dropdead_loop]; [reflexivity|].
  destruct (id_lookup (s_ids s) i) as [ser|]; [|apply IH]. destruct (getjob (s_jobs s) ser) as [j|]; [|apply IH].
  cbv zeta. rewrite IH.
  destruct (match j_dl j with Some d => negb (d =? 0) && (d <? s_now s) | None => false end);
    destruct (j_done j && negb (dl_truthy (j_dl j))); reflexivity.
Qed.

(* only a fresh Add moves the counter, by exactly one *)
Lemma count_step : forall s o, s_count (fst (step s o)) = s_count s \/
  (s_count (fst (step s o)) = s_count s + 1 /\ exists ch prio name tmo, o = Add ch prio name tmo).
Proof.
  intros s o. destruct o as [ch prio name tmo|c chs| |c i res e|c js|dt|c|k|c i|i|i v| |dt|js|]; cbn [step].
  - assert (F : forall j0 (i : jid), s_count (fst (pushjob (s_count s + 1) (set_jobs (j0 :: s_jobs s) (set_count (s_count s + 1) s)), i)) = s_count s + 1).
    { intros j0 i. cbn [fst]. rewrite (core_count _ _ (core_pushjob _ _)). reflexivity. }
    unfold push. destruct name as [n|]; [|right; split; [apply (F _ (JAuto (s_count s + 1)))|eauto]].
    destruct (id_lookup (s_ids s) (JName n)) as [ser|]; [|right; split; [apply (F _ (JName n))|eauto]].
    destruct (getjob (s_jobs s) ser) as [j0|]; [|right; split; [apply (F _ (JName n))|eauto]].
    destruct (err_is_killed (j_err j0)); [right; split; [apply (F _ (JName n))|eauto]|left; reflexivity].
  - left. destruct (is_idle c s); [|reflexivity]. apply core_count, core_pop.
  - left. rewrite (core_count _ _ (core_run_events _ _)). reflexivity.
  - left. destruct (is_idle c s); [|reflexivity]. destruct (id_lookup (s_ids s) i); [|reflexivity]. cbn [fst]. sf. apply count_mark.
  - left. destruct (is_idle c s); [|reflexivity]. cbn [fst]. sf. apply count_killjobs.
  - left. cbn [fst]. unfold handletimeouts, preenall. sf. rewrite count_timeouts. reflexivity.
  - left. destruct (c_st (get_conn (s_conns s) c)); reflexivity.
  - left. reflexivity.
  - left. destruct (is_idle c s); [|reflexivity]. destruct (id_lookup (s_ids s) i) as [ser|]; [|reflexivity].
    destruct (getjob (s_jobs s) ser) as [j|]; [|reflexivity].
    destruct (j_done j); [destruct (j_drop j && id_is (s_ids s) (j_id j) ser)|]; reflexivity.
  - left. reflexivity.
  - left. destruct (id_lookup (s_ids s) i); reflexivity.
  - left. reflexivity.
  - left. reflexivity.
  - left. cbn [fst]. apply count_dropjobs.
  - left. cbn [fst]. unfold dropdead. apply count_dropdead.
Qed.

(* histories with restarts *)
Inductive rop := Op (o : op) | Restart.

Definition rstep (s : state) (r : rop) : state := match r with Op o => fst (step s o) | Restart => restart s end.
Definition rrun (h : list rop) (s : state) : state := fold_left rstep h s.

Lemma count_restart : forall s, s_count (restart s) = s_count s.
Proof. intro s. unfold restart. destruct (restore_state (s_now s) (save s)) as (H&_). rewrite H. reflexivity. Qed.

Lemma count_rrun : forall h s, s_count s <= s_count (rrun h s).
Proof.
  induction h as [|r h IH]; intro s; cbn [rrun fold_left]; [lia|]. fold (rrun h (rstep s r)).
  specialize (IH (rstep s r)). destruct r as [o|]; cbn [rstep] in *.
  - destruct (count_step s o) as [H|[H _]]; lia.
  - rewrite count_restart in IH. exact IH.
Qed.

(* an add without id takes the next number *)
Lemma add_auto_id : forall s ch prio tmo,
  snd (step s (Add ch prio None tmo)) = [OJid (JAuto (s_count s + 1))] /\
  s_count (fst (step s (Add ch prio None tmo))) = s_count s + 1.
Proof.
  intros s ch prio tmo. cbn [step]. unfold push. cbn [fst snd]. split; [reflexivity|].
  rewrite (core_count _ _ (core_pushjob _ _)). reflexivity.
Qed.

(* Two adds without id, anywhere in any history with any number of restarts (and drops, watchdog runs, ...) in
   between, from ANY state: the second one gets a strictly larger server-chosen id. *)
Lemma ids_not_reused : forall s ch prio tmo h ch' prio' tmo' n n',
  snd (step s (Add ch prio None tmo)) = [OJid (JAuto n)] ->
  let s' := rrun h (fst (step s (Add ch prio None tmo))) in
  snd (step s' (Add ch' prio' None tmo')) = [OJid (JAuto n')] ->
  n < n'.
Proof.
  intros s ch prio tmo h ch' prio' tmo' n n' H1 s' H2.
  destruct (add_auto_id s ch prio tmo) as [E1 C1]. destruct (add_auto_id s' ch' prio' tmo') as [E2 _].
  rewrite E1 in H1. rewrite E2 in H2. inversion H1; inversion H2; subst.
  pose proof (count_rrun h (fst (step s (Add ch prio None tmo)))) as M. fold s' in M. lia.
Qed.
