(* C18 — restart bisimulation, part 4: the handletimeouts sweep.  The two timeout heaps are not related structurally
   (the side that only dropped its connections holds stale and duplicate entries): it suffices that both are sorted
   and contain the same entries of UNFINISHED jobs. *)
From Coq Require Import List NArith Bool Lia Arith Sorted.
From MW Require Import C16.Model C16.Proofs C17.Proofs C17.ProofsOrder C17.ProofsCount C18.Proofs C18.ProofsIds
  C18.ProofsInv C18.ProofsTimeout C18.BisimBase C18.BisimPrim.
Import ListNotations.
Open Scope N_scope.

Ltac core_triv C :=
  let Qa := fresh "Qa" in let Qb := fresh "Qb" in
  destruct C as (C&Qa&Qb); split; [|split; [exact Qa|exact Qb]];
  constructor; sf; try (destruct C; assumption); try reflexivity.

Lemma core_set_tq : forall dead a b qa qb, Core dead a b ->
  (forall e, is_done (s_jobs a) (snd (snd e)) = false -> (In e qb <-> In e qa)) ->
  Core dead (set_tq qa a) (set_tq qb b).
Proof. intros dead a b qa qb C R. core_triv C. Qed.

Lemma core_set_now : forall dead a b v, Core dead a b -> Core dead (set_now v a) (set_now v b).
Proof. intros dead a b v C. core_triv C. Qed.

Lemma core_set_choices : forall dead a b v, Core dead a b -> Core dead (set_choices v a) (set_choices v b).
Proof. intros dead a b v C. core_triv C. Qed.

Lemma core_set_hub : forall dead a b h, Core dead a b -> Forall (fresh_ev dead) h -> Core dead (set_hub h a) (set_hub h b).
Proof.
  intros dead a b h C F. core_triv C. rewrite Forall_forall in F.
  intros c [H|H]; apply F in H; exact H.
Qed.

Lemma core_hub_fresh : forall dead a b, Core0 dead a b -> Forall (fresh_ev dead) (s_hub a).
Proof.
  intros dead a b C. apply Forall_forall. intros [c|c|x] H; cbn [fresh_ev]; auto; apply (c_fh _ _ _ C); auto.
Qed.

Lemma tkey_le_refl : forall a, tkey_le a a.
Proof. intros [a0 [a1 a2]]. tkey_cases. Qed.

Lemma tsorted_head_le : forall x r y, tsorted (x :: r) -> In y (x :: r) -> tkey_le x y.
Proof.
  intros x r y S H. inversion S as [|? ? _ F]; subst. destruct H as [H|H]; [subst; apply tkey_le_refl|].
  rewrite Forall_forall in F. apply F. exact H.
Qed.

Lemma tsorted_tail : forall x r, tsorted (x :: r) -> tsorted r.
Proof. intros x r S. inversion S; assumption. Qed.

Lemma core_timeouts : forall dead qa qb a b, Core dead a b -> tsorted qa -> tsorted qb ->
  (forall e, is_done (s_jobs a) (snd (snd e)) = false -> (In e qb <-> In e qa)) ->
  Core dead (timeouts_loop qa a) (timeouts_loop qb b).
Proof.
  intros dead qa. induction qa as [|ea ra IHa]; intros qb a b C Sa Sb R;
    pose proof (core_isdone _ _ _ (proj1 C)) as DN.
  - induction qb as [|eb rb IHb]; cbn [timeouts_loop].
    + apply core_set_tq; [exact C|]. intros e _. tauto.
    + rewrite DN. destruct (is_done (s_jobs a) (snd (snd eb))) eqn:D.
      * apply IHb; [eapply tsorted_tail; eauto|]. intros e He. split; [intro H|intros []]. apply (R e He). right. exact H.
      * exfalso. apply (proj1 (R eb D)). left; reflexivity.
  - cbn [timeouts_loop]. destruct (is_done (s_jobs a) (snd (snd ea))) eqn:Da.
    + apply IHa; auto; [eapply tsorted_tail; eauto|]. intros e He. split; intro H.
      * destruct (proj1 (R e He) H) as [E|E]; [subst e; exfalso; exact (eq_true_false_abs _ Da He)|exact E].
      * apply (R e He). right; exact H.
    + induction qb as [|eb rb IHb].
      * exfalso. apply (proj2 (R ea Da)). left; reflexivity.
      * cbn [timeouts_loop]. rewrite DN. destruct (is_done (s_jobs a) (snd (snd eb))) eqn:Db.
        -- apply IHb; [eapply tsorted_tail; eauto|]. intros e He. split; intro H.
           ++ apply (R e He). right; exact H.
           ++ destruct (proj2 (R e He) H) as [E|E]; [subst e; exfalso; exact (eq_true_false_abs _ Db He)|exact E].
        -- assert (E : eb = ea).
           { apply tkey_le_antisym.
             - eapply tsorted_head_le; [exact Sb|]. apply (R ea Da). left; reflexivity.
             - eapply tsorted_head_le; [exact Sa|]. apply (R eb Db). left; reflexivity. }
           subst eb. rewrite (c_now _ _ _ (proj1 C)). destruct (s_now a <? fst ea).
           ++ apply core_set_tq; assumption.
           ++ apply IHa; [apply core_mark; exact C|eapply tsorted_tail; eauto|eapply tsorted_tail; eauto|].
              intros e He.
              assert (He0 : is_done (s_jobs a) (snd (snd e)) = false).
              { destruct (is_done (s_jobs a) (snd (snd e))) eqn:D0; [|reflexivity].
                rewrite (tab_le_done _ _ _ (mark_tab_le _ _ _) D0) in He. discriminate. }
              assert (Ne : e <> ea).
              { intro; subst e. rewrite mark_done in He. discriminate. }
              split; intro H.
              ** destruct (proj1 (R e He0) (or_intror H)) as [E|E]; [congruence|exact E].
              ** destruct (proj2 (R e He0) (or_intror H)) as [E|E]; [congruence|exact E].
Qed.
