(* C18 — lemmas about save / restore (pickle round trip of the queue). *)
From Coq Require Import List NArith Bool Lia Arith.
From MW Require Import C16.Model C16.Proofs.
Import ListNotations.
Open Scope N_scope.

Lemma restore_loop_fields : forall l s,
  s_count (restore_loop l s) = s_count s /\ s_jobs (restore_loop l s) = s_jobs s ++ l /\
  s_conns (restore_loop l s) = s_conns s /\ s_waiters (restore_loop l s) = s_waiters s /\
  s_hub (restore_loop l s) = s_hub s /\ s_now (restore_loop l s) = s_now s /\ s_cnt (restore_loop l s) = s_cnt s.
Proof.
  induction l as [|j r IH]; intro s; cbn [restore_loop].
  - rewrite app_nil_r. repeat split.
  - destruct (j_done j).
    + destruct (IH (set_ids (id_set (s_ids s) (j_id j) (j_serial j)) (set_jobs (s_jobs s ++ [j]) s))) as (H1&H2&H3&H4&H5&H6&H7).
      sf. rewrite <- app_assoc in H2. repeat split; assumption.
    + cbv zeta. match goal with |- context [restore_loop r ?t] => destruct (IH t) as (H1&H2&H3&H4&H5&H6&H7) end.
      sf. rewrite <- app_assoc in H2. repeat split; assumption.
Qed.

(* the restarted server: same id counter, every saved job record verbatim, nobody connected,
   nobody waiting, nothing pending, counters reset *)
Lemma restore_state : forall now sv,
  let s := restore now sv in
  s_count s = fst sv /\ s_jobs s = snd sv /\ s_conns s = [] /\ s_waiters s = [] /\ s_hub s = [] /\
  s_now s = now /\ s_cnt s = [].
Proof.
  intros now [n l]. unfold restore. cbn [fst snd]. destruct (restore_loop_fields l (set_now now (set_count n init))) as (H1&H2&H3&H4&H5&H6&H7).
  sf. cbn in *. repeat split; assumption.
Qed.

(* every job registered in id2job is saved with all its fields *)
Lemma save_keeps : forall s i x j,
  id_lookup (s_ids s) i = Some x -> getjob (s_jobs s) x = Some j -> In j (snd (save s)) /\ fst (save s) = s_count s.
Proof.
  intros s i x j El E. split; [|reflexivity]. unfold save. cbn [snd]. apply id_lookup_In in El.
  induction (s_ids s) as [|[k w] r IH]; [destruct El|]. cbn [collect].
  destruct El as [H|H].
  - inversion H; subst. rewrite E. left; reflexivity.
  - destruct (getjob (s_jobs s) w); [right|]; apply IH; exact H.
Qed.

Lemma ins_keeps : forall k q y, In y q -> In y (ins k q).
Proof. intros k q y H. apply ins_In. right; exact H. Qed.

Lemma tins_In : forall k q y, In y (tins k q) <-> y = k \/ In y q.
Proof.
  intros k q y. induction q as [|z r IH]; cbn [tins].
  - cbn. intuition.
  - destruct (tkey_lt k z); cbn [In]; [intuition|]. rewrite IH. intuition.
Qed.

Lemma q_get_set_same : forall qs c l, q_get (q_set qs c l) c = Some l.
Proof.
  induction qs as [|[k m] r IH]; intros c l; cbn [q_set q_get].
  - rewrite N.eqb_refl. reflexivity.
  - destruct (k =? c) eqn:E; cbn [q_get]; rewrite E; [reflexivity|apply IH].
Qed.

Lemma q_get_set_other : forall qs c l k, k <> c -> q_get (q_set qs c l) k = q_get qs k.
Proof.
  induction qs as [|[k0 m] r IH]; intros c l k H; cbn [q_set q_get].
  - destruct (c =? k) eqn:E; [apply N.eqb_eq in E; congruence|reflexivity].
  - destruct (k0 =? c) eqn:E; cbn [q_get].
    + apply N.eqb_eq in E. subst k0. destruct (c =? k) eqn:E2; [apply N.eqb_eq in E2; congruence|reflexivity].
    + destruct (k0 =? k); [reflexivity|apply IH; exact H].
Qed.

(* entries already queued / already on the timeout heap survive the rest of the loop *)
Lemma restore_loop_mono : forall l s ch e t,
  (In e (qget (s_queues s) ch) -> In e (qget (s_queues (restore_loop l s)) ch)) /\
  (In t (s_tq s) -> In t (s_tq (restore_loop l s))).
Proof.
  induction l as [|j r IH]; intros s ch e t; cbn [restore_loop]; [auto|].
  destruct (j_done j).
  - destruct (IH (set_ids (id_set (s_ids s) (j_id j) (j_serial j)) (set_jobs (s_jobs s ++ [j]) s)) ch e t) as [H1 H2]. sf. auto.
  - cbv zeta. match goal with |- context [restore_loop r ?st] => destruct (IH st ch e t) as [H1 H2] end. sf. split.
    + intro H. apply H1. unfold qget. destruct (N.eq_dec ch (j_chan j)) as [Ec|Ec].
      * subst ch. rewrite q_get_set_same. apply ins_keeps. exact H.
      * rewrite q_get_set_other by exact Ec. exact H.
    + intro H. apply H2. apply tins_In. right; exact H.
Qed.

(* every unfinished saved job is queued in its channel and is on the timeout heap with its deadline *)
Lemma restore_loop_queued : forall l s j, In j l -> j_done j = false ->
  In (j_prio j, j_serial j) (qget (s_queues (restore_loop l s)) (j_chan j)) /\
  In (j_timeout j, (j_prio j, j_serial j)) (s_tq (restore_loop l s)).
Proof.
  induction l as [|j0 r IH]; intros s j Hin D; [destruct Hin|]. cbn [restore_loop].
  destruct Hin as [Hin|Hin].
  - subst j0. rewrite D. cbv zeta.
    match goal with |- context [restore_loop r ?st] =>
      destruct (restore_loop_mono r st (j_chan j) (j_prio j, j_serial j) (j_timeout j, (j_prio j, j_serial j))) as [H1 H2] end.
    sf. split.
    + apply H1. unfold qget. rewrite q_get_set_same. apply ins_In. left; reflexivity.
    + apply H2. apply tins_In. left; reflexivity.
  - destruct (j_done j0); [apply IH; auto|]. cbv zeta. apply IH; auto.
Qed.

Lemma restart_preserves : forall s i x j,
  id_lookup (s_ids s) i = Some x -> getjob (s_jobs s) x = Some j ->
  let s' := restart s in
  In j (s_jobs s') /\ s_count s' = s_count s /\ s_conns s' = [] /\ s_waiters s' = [] /\ s_hub s' = [] /\
  (j_done j = false ->
     In (j_prio j, j_serial j) (qget (s_queues s') (j_chan j)) /\
     In (j_timeout j, (j_prio j, j_serial j)) (s_tq s')).
Proof.
  intros s i x j El E s'. destruct (save_keeps s i x j El E) as [Hin Hc].
  destruct (restore_state (s_now s) (save s)) as (H1&H2&H3&H4&H5&H6&H7).
  change (restore (s_now s) (save s)) with s' in *.
  split; [rewrite H2; exact Hin|]. split; [congruence|]. split; [exact H3|]. split; [exact H4|]. split; [exact H5|].
  intro D. unfold s', restart, restore. apply restore_loop_queued; auto.
Qed.
