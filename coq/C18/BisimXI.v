(* C18 — restart bisimulation, part 8: three structural invariants (XI) of every reachable state:
   channel keys of channel2q are unique, connection ids are unique, a Dead connection has no running jobs. *)
From Coq Require Import List NArith Bool Lia Arith Sorted.
From MW Require Import C16.Model C16.Proofs C17.Proofs C17.ProofsOrder C17.ProofsCount C17.ProofsLive C18.Proofs C18.ProofsIds
  C18.ProofsInv C18.ProofsTimeout.
Import ListNotations.
Open Scope N_scope.

Definition KC (cs : list conn) : Prop :=
  (forall c, In c cs -> c_st c = Dead -> c_run c = []) /\ NoDup (map c_id cs).

Definition XI (s : state) : Prop := NoDup (map fst (s_queues s)) /\ KC (s_conns s).

Lemma q_set_keys_In : forall qs c l k, In k (map fst (q_set qs c l)) -> k = c \/ In k (map fst qs).
Proof.
  induction qs as [|[k0 m] r IH]; intros c l k H; cbn [q_set map fst In] in *.
  - destruct H as [H|[]]; auto.
  - destruct (k0 =? c) eqn:E; cbn [map fst In] in H; [right; exact H|].
    destruct H as [H|H]; [right; left; exact H|]. destruct (IH _ _ _ H); [left; auto|right; right; auto].
Qed.

Lemma q_set_keys : forall qs c l, NoDup (map fst qs) -> NoDup (map fst (q_set qs c l)).
Proof.
  induction qs as [|[k0 m] r IH]; intros c l N; cbn [q_set map fst]; [constructor; [intros []|constructor]|].
  cbn [map fst] in N. inversion N as [|? ? Hn Nr]; subst.
  destruct (k0 =? c) eqn:E; cbn [map fst]; [constructor; assumption|].
  constructor; [|apply IH; exact Nr]. intro H. apply q_set_keys_In in H. destruct H as [H|H]; [|contradiction].
  subst. rewrite N.eqb_refl in E. discriminate.
Qed.

Lemma map_keys : forall (f : list qkey -> list qkey) (qs : list (N * list qkey)), map fst (map (fun kq => (fst kq, f (snd kq))) qs) = map fst qs.
Proof. intros f qs. rewrite map_map. apply map_ext. reflexivity. Qed.

Lemma put_conn_ids_In : forall cs x k, In k (map c_id (put_conn cs x)) -> k = c_id x \/ In k (map c_id cs).
Proof.
  induction cs as [|y r IH]; intros x k H; cbn [put_conn map In] in *.
  - destruct H as [H|[]]; auto.
  - destruct (c_id y =? c_id x) eqn:E; cbn [map In] in H.
    + destruct H as [H|H]; [left; auto|right; right; exact H].
    + destruct H as [H|H]; [right; left; exact H|]. destruct (IH _ _ H); [left; auto|right; right; auto].
Qed.

Lemma kc_put : forall cs x, KC cs -> (c_st x = Dead -> c_run x = []) -> KC (put_conn cs x).
Proof.
  intros cs x [D N] Hx. split.
  - intros c H. apply put_conn_In in H. destruct H as [H|H]; [subst; exact Hx|apply D; exact H].
  - clear D Hx. induction cs as [|y r IH]; cbn [put_conn map]; [constructor; [intros []|constructor]|].
    cbn [map] in N. inversion N as [|? ? Hn Nr]; subst.
    destruct (c_id y =? c_id x) eqn:E; cbn [map].
    + apply N.eqb_eq in E. rewrite <- E. constructor; assumption.
    + constructor; [|apply IH; exact Nr]. intro H. apply put_conn_ids_In in H. destruct H as [H|H]; [|contradiction].
      rewrite H, N.eqb_refl in E. discriminate.
Qed.

Lemma release_ids : forall ser js cs, map c_id (fst (release ser js cs)) = map c_id cs.
Proof.
  intros ser js cs. induction cs as [|x r IH]; cbn [release]; [reflexivity|].
  destruct (release ser js r) as [r' o]. cbn [fst] in IH.
  destruct (c_st x) as [| | w|]; cbn [fst map]; try (rewrite IH; reflexivity).
  destruct (w =? ser); cbn [fst map c_id]; rewrite IH; reflexivity.
Qed.

Lemma release_In : forall ser js cs y, In y (fst (release ser js cs)) -> In y cs \/ c_st y = Idle.
Proof.
  intros ser js cs. induction cs as [|x r IH]; intros y H; cbn [release] in H; [destruct H|].
  destruct (release ser js r) as [r' o]. cbn [fst] in IH.
  assert (G : In y (x :: r') -> In y (x :: r) \/ c_st y = Idle).
  { intros [E|E]; [left; left; exact E|]. destruct (IH _ E); [left; right; auto|right; auto]. }
  destruct (c_st x) as [| | w|]; cbn [fst] in H; try (apply G; exact H).
  destruct (w =? ser); cbn [fst] in H; [|apply G; exact H].
  destruct H as [H|H]; [right; subst; reflexivity|]. destruct (IH _ H); [left; right; auto|right; auto].
Qed.

Lemma kc_release : forall ser js cs, KC cs -> KC (fst (release ser js cs)).
Proof.
  intros ser js cs [D N]. split; [|rewrite release_ids; exact N].
  intros c H Hd. apply release_In in H. destruct H as [H|H]; [apply D; assumption|congruence].
Qed.

Lemma xi_same : forall s s', s_queues s' = s_queues s -> s_conns s' = s_conns s -> XI s -> XI s'.
Proof. intros s s' Q C [A B]. split; [rewrite Q; exact A|rewrite C; exact B]. Qed.

Lemma pushjob_xi : forall x s, XI s -> XI (pushjob x s).
Proof.
  intros x s [A B]. unfold pushjob. destruct (getjob (s_jobs s) x) as [j|]; [|split; assumption]. cbv zeta. sf.
  destruct (filter (watches (j_chan j)) (s_waiters s)) as [|a0 r]; split; sf; try assumption.
  - apply q_set_keys. exact A.
  - apply kc_put; [exact B|]. cbn. discriminate.
Qed.

Lemma preenall_xi : forall s, XI s -> XI (preenall s).
Proof. intros s [A B]. unfold preenall. split; sf; [rewrite map_keys; exact A|exact B]. Qed.

Lemma deliver_xi : forall c chs x s, XI s -> XI (fst (deliver c chs x s)).
Proof.
  intros c chs x s [A B]. unfold deliver. destruct (getjob (s_jobs s) x) as [j|]; [|split; assumption]. cbv zeta. cbn [fst].
  split; sf; [exact A|]. apply kc_put; [exact B|]. cbn. discriminate.
Qed.

Lemma pop_xi : forall c chs s, XI s -> XI (fst (pop_or_block c chs s)).
Proof.
  intros c chs s K. unfold pop_or_block. cbv zeta. pose proof (preenall_xi s K) as [A B].
  destruct (heads (s_queues (preenall s)) _) as [x|].
  - destruct (getjob (s_jobs (preenall s)) (snd x)) as [j|]; [|split; assumption].
    apply deliver_xi. split; sf; [apply q_set_keys; exact A|exact B].
  - cbn [fst]. split; sf; [exact A|]. apply kc_put; [exact B|]. cbn. discriminate.
Qed.

Lemma shutdown_xi : forall l s, XI s -> XI (shutdown_loop l s).
Proof.
  induction l as [|[i w] r IH]; intros s K; cbn [shutdown_loop]; [exact K|].
  destruct (is_done (s_jobs s) w); [apply IH; exact K|]. apply IH. apply pushjob_xi. eapply xi_same; [| |exact K]; reflexivity.
Qed.

Lemma die_xi : forall c s, XI s -> XI (fst (die c s)).
Proof.
  intros c s [A B]. unfold die. cbv zeta. cbn [fst]. apply shutdown_xi. split; sf; [exact A|].
  apply kc_put; [exact B|]. reflexivity.
Qed.

Lemma run_event_xi : forall e s, XI s -> XI (fst (run_event e s)).
Proof.
  intros e s K. destruct e as [c|c|ser]; cbn [run_event].
  - destruct (c_st (get_conn (s_conns s) c)) as [|chs [x|]|w|]; try exact K.
    destruct (is_done (s_jobs s) x); [apply pop_xi|apply deliver_xi]; exact K.
  - destruct (c_st (get_conn (s_conns s) c)) as [|chs mb|w|]; try exact K; try (apply die_xi; exact K).
    apply die_xi. destruct mb as [x|]; [|eapply xi_same; [| |exact K]; reflexivity].
    sf. destruct (is_done (s_jobs s) x); [eapply xi_same; [| |exact K]; reflexivity|].
    apply pushjob_xi. eapply xi_same; [| |exact K]; reflexivity.
  - pose proof (kc_release ser (s_jobs s) (s_conns s) (proj2 K)) as R.
    destruct (release ser (s_jobs s) (s_conns s)) as [cs o]. cbn [fst] in R.
    destruct (getjob (s_jobs s) ser) as [j|]; [|split; sf; [apply K|exact R]].
    destruct (j_drop j && has_waiter ser (s_conns s) && id_is (s_ids s) (j_id j) ser); (split; sf; [apply K|exact R]).
Qed.

Lemma run_events_xi : forall es s, XI s -> XI (fst (run_events es s)).
Proof.
  induction es as [|e r IH]; intros s K; cbn [run_events]; [exact K|].
  pose proof (run_event_xi e s K) as K1. destruct (run_event e s) as [s1 o1]. cbn [fst] in K1.
  specialize (IH s1 K1). destruct (run_events r s1) as [s2 o2]. exact IH.
Qed.

Lemma step_xi : forall s o, XI s -> XI (fst (step s o)).
Proof.
  intros s o K. destruct o as [ch prio name tmo|c chs| |c i res e|c js|dt|c|k|c i|i|i v| |dt|js|]; cbn [step].
  - assert (F : forall j0, XI (pushjob (s_count s + 1) (set_jobs (j0 :: s_jobs s) (set_count (s_count s + 1) s)))).
    { intro j0. apply pushjob_xi. eapply xi_same; [| |exact K]; reflexivity. }
    assert (G : XI (fst (push ch prio name tmo s))).
    { unfold push. destruct name as [n|]; [|apply F].
      destruct (id_lookup (s_ids s) (JName n)) as [ser|]; [|apply F].
      destruct (getjob (s_jobs s) ser) as [j0|]; [|apply F].
      destruct (err_is_killed (j_err j0)); [apply F|exact K]. }
    destruct (push ch prio name tmo s) as [s1 i1]. exact G.
  - destruct (is_idle c s); [apply pop_xi; exact K|exact K].
  - apply run_events_xi. eapply xi_same; [| |exact K]; reflexivity.
  - destruct (is_idle c s) eqn:Ei; [|exact K]. destruct (id_lookup (s_ids s) i) as [ser|]; [|exact K]. cbn [fst].
    match goal with |- context [mark_finished ser ?u s] => destruct (mark_fields ser u s) as (Hq&Hc&_) end.
    split; sf; [rewrite Hq; apply K|]. rewrite Hc. apply kc_put; [apply K|]. cbn [c_st c_run].
    rewrite (is_idle_st _ _ Ei). discriminate.
  - destruct (is_idle c s) eqn:Ei; [|exact K]. cbn [fst]. destruct (killjobs_ids js s) as (_&_&Hc).
    split; sf; [rewrite killjobs_queues; apply K|]. rewrite Hc. apply kc_put; [apply K|]. cbn [c_st c_run].
    rewrite (is_idle_st _ _ Ei). discriminate.
  - cbn [fst]. unfold handletimeouts. apply preenall_xi. eapply xi_same; [| |exact K]; [rewrite timeouts_queues|rewrite timeouts_conns]; reflexivity.
  - destruct (c_st (get_conn (s_conns s) c)); exact K.
  - exact K.
  - destruct (is_idle c s); [|exact K]. destruct (id_lookup (s_ids s) i) as [ser|]; [|exact K].
    destruct (getjob (s_jobs s) ser) as [j|]; [|exact K].
    destruct (j_done j); [destruct (j_drop j && id_is (s_ids s) (j_id j) ser); exact K|].
    cbn [fst]. split; sf; [apply K|]. apply kc_put; [apply K|]. cbn. discriminate.
  - exact K.
  - destruct (id_lookup (s_ids s) i); exact K.
  - exact K.
  - exact K.
  - cbn [fst]. eapply xi_same; [apply dropjobs_queues|apply (dropjobs_eqd js s)|exact K].
  - cbn [fst]. eapply xi_same; [apply dropdead_queues|apply (dropdead_eqd _ s)|exact K].
Qed.

Lemma restore_loop_xi : forall l s, XI s -> XI (restore_loop l s).
Proof.
  induction l as [|j r IH]; intros s K; cbn [restore_loop]; [exact K|].
  destruct (j_done j); apply IH; [eapply xi_same; [| |exact K]; reflexivity|].
  split; sf; [apply q_set_keys; apply K|apply K].
Qed.

Lemma xi_init : XI init.
Proof. split; [constructor|split; [intros c []|constructor]]. Qed.

Lemma restart_xi : forall s, XI (restart s).
Proof. intro s. unfold restart, restore. apply restore_loop_xi. eapply xi_same; [| |exact xi_init]; reflexivity. Qed.

Lemma rrun_xi : forall h s, XI s -> XI (rrun h s).
Proof.
  induction h as [|r h IH]; intros s K; [exact K|]. change (rrun (r :: h) s) with (rrun h (rstep s r)).
  apply IH. destruct r as [o|]; cbn [rstep]; [apply step_xi; exact K|apply restart_xi].
Qed.

Lemma kc_get : forall cs c, KC cs -> In c cs -> get_conn cs (c_id c) = c.
Proof.
  intros cs c [_ N]. induction cs as [|y r IH]; intro H; [destruct H|]. cbn [get_conn]. cbn [map] in N.
  inversion N as [|? ? Hn Nr]; subst. destruct H as [H|H]; [subst; rewrite N.eqb_refl; reflexivity|].
  destruct (c_id y =? c_id c) eqn:E; [|apply IH; assumption].
  apply N.eqb_eq in E. exfalso. apply Hn. rewrite E. apply in_map. exact H.
Qed.

Lemma q_get_nodup : forall qs k q, NoDup (map fst qs) -> In (k, q) qs -> q_get qs k = Some q.
Proof.
  induction qs as [|[k0 m] r IH]; intros k q N H; [destruct H|]. cbn [q_get]. cbn [map fst] in N.
  inversion N as [|? ? Hn Nr]; subst. destruct H as [H|H]; [inversion H; subst; rewrite N.eqb_refl; reflexivity|].
  destruct (k0 =? k) eqn:E; [|apply IH; assumption].
  apply N.eqb_eq in E. subst. exfalso. apply Hn. apply in_map_iff. exists (k, q). split; [reflexivity|exact H].
Qed.
