(* C18 — restart bisimulation, part 11: the initial relation Sim (restart s) (requeue_all s). *)
From Coq Require Import List NArith Bool Lia Arith Sorted.
From MW Require Import C16.Model C16.Proofs C17.Proofs C17.ProofsOrder C17.ProofsCount C17.ProofsLive C18.Proofs C18.ProofsIds
  C18.ProofsInv C18.ProofsTimeout C18.BisimBase C18.BisimPrim C18.BisimEvents C18.BisimTimeout C18.BisimTE C18.BisimStep
  C18.BisimInit C18.BisimXI C18.BisimShape C18.BisimRequeue.
Import ListNotations.
Open Scope N_scope.

Lemma sorted_filter : forall (P : qkey -> bool) q, sorted q -> sorted (filter P q).
Proof.
  intros P q S. induction S as [|y r Sr IH Fr]; cbn [filter]; [constructor|].
  destruct (P y); [|exact IH]. constructor; [exact IH|]. rewrite Forall_forall in *. intros z Hz. apply Fr.
  apply filter_In in Hz. tauto.
Qed.

Lemma nodup_filter_qocc : forall (P : qkey -> bool) q,
  (forall e, In e q -> P e = true -> (qocc (snd e) q <= 1)%nat) -> NoDup (filter P q).
Proof.
  intros P q. induction q as [|y r IH]; intro H; cbn [filter]; [constructor|].
  assert (Hr : forall e, In e r -> P e = true -> (qocc (snd e) r <= 1)%nat).
  { intros e He Pe. pose proof (H e (or_intror He) Pe) as B. unfold qocc in *. cbn [map occ] in B. lia. }
  destruct (P y) eqn:Py; [|apply IH; exact Hr]. constructor; [|apply IH; exact Hr].
  intro Hin. apply filter_In in Hin. destruct Hin as [Hin _].
  pose proof (H y (or_introl eq_refl) Py) as B. unfold qocc in B. cbn [map occ] in B. rewrite ind_refl in B.
  pose proof (In_occ_pos (snd y) (map snd r) (in_map snd _ _ Hin)). lia.
Qed.

Lemma qocc_qget_le : forall x qs k, (qocc x (qget qs k) <= occ_qs x qs)%nat.
Proof.
  intros x qs k. unfold qget. induction qs as [|[k0 m] r IH]; cbn [q_get occ_qs snd]; [cbn; lia|].
  destruct (k0 =? k); lia.
Qed.

Lemma occ_qs_pos : forall x qs, occ_qs x qs <> 0%nat -> exists k q, In (k, q) qs /\ qocc x q <> 0%nat.
Proof.
  intros x qs. induction qs as [|[k0 m] r IH]; cbn [occ_qs snd]; intro H; [congruence|].
  destruct (Nat.eq_dec (qocc x m) 0) as [E|E].
  - destruct IH as (k&q&Hin&Hq); [lia|]. exists k, q. split; [right; exact Hin|exact Hq].
  - exists k0, m. split; [left; reflexivity|exact E].
Qed.

Lemma occ_conns_dead : forall x cs, Forall (fun c => c_st c = Dead /\ c_run c = []) cs -> occ_conns x cs = 0%nat.
Proof.
  intros x cs F. induction F as [|c r [Hd Hr] _ IH]; cbn [occ_conns]; [reflexivity|].
  unfold occ_conn. rewrite Hd, Hr, IH. reflexivity.
Qed.

(* in a state where no connection holds a job, an unfinished job sits in the queue of its channel, once *)
Lemma queued_once : forall t x j, Inv t [] [] -> (forall y, occ_conns y (s_conns t) = 0%nat) ->
  getjob (s_jobs t) x = Some j -> j_done j = false -> forall k, (qocc x (qget (s_queues t) k) <= 1)%nat.
Proof.
  intros t x j I Z Ej Dj k. pose proof (inv_cons _ _ _ I x 1%nat (want_undone _ _ _ Ej Dj)) as B. unfold locs in B.
  rewrite Z in B. cbn [occ] in B. pose proof (qocc_qget_le x (s_queues t) k). lia.
Qed.

Lemma queued_in : forall t x j, Inv t [] [] -> XI t -> (forall y, occ_conns y (s_conns t) = 0%nat) ->
  getjob (s_jobs t) x = Some j -> j_done j = false -> In (j_prio j, x) (qget (s_queues t) (j_chan j)).
Proof.
  intros t x j I X Z Ej Dj. pose proof (inv_cons _ _ _ I x 1%nat (want_undone _ _ _ Ej Dj)) as B. unfold locs in B.
  rewrite Z in B. cbn [occ] in B. destruct (occ_qs_pos x (s_queues t)) as (k&q&Hin&Hq); [lia|].
  destruct (qocc_pos_In _ _ Hq) as [p Hp]. destruct (inv_q _ _ _ I _ _ _ _ Hin Hp) as (j'&Ej'&Hc&Hpr).
  rewrite Ej in Ej'. inversion Ej'; subst j'. subst k p.
  unfold qget. rewrite (q_get_nodup _ _ _ (proj1 X) Hin). exact Hp.
Qed.

Lemma init_q_rel : forall s b, RGood s -> Inv b [] [] -> XI b -> QS b -> s_jobs b = s_jobs s ->
  Forall (fun c => c_st c = Dead /\ c_run c = []) (s_conns b) ->
  forall k, filter (und (s_jobs (restart s))) (qget (s_queues b) k) =
            filter (und (s_jobs (restart s))) (qget (s_queues (restart s)) k).
Proof.
  intros s b G Ib Xb Qb J FD k. pose proof (restart_rgood s G) as ((Aa&Ha&Ia)&Qa&Ka).
  destruct (restore_state (s_now s) (save s)) as (_&_&Hconns&_). fold (restart s) in Hconns.
  assert (Za : forall y, occ_conns y (s_conns (restart s)) = 0%nat) by (intro y; rewrite Hconns; reflexivity).
  assert (Zb : forall y, occ_conns y (s_conns b) = 0%nat) by (intro y; apply occ_conns_dead; exact FD).
  assert (U : forall e, und (s_jobs (restart s)) e = true ->
            exists j, getjob (s_jobs (restart s)) (snd e) = Some j /\ getjob (s_jobs b) (snd e) = Some j /\ j_done j = false).
  { intros e He. unfold und in He. apply negb_true_iff in He. destruct (is_done_false _ _ He) as (j&Ej&Dj).
    exists j. split; [exact Ej|]. split; [rewrite J; apply restart_getjob_back; exact Ej|exact Dj]. }
  apply sorted_nodup_unique.
  - apply sorted_filter. apply qs_sorted_qget. exact Qb.
  - apply sorted_filter. apply qs_sorted_qget. exact Qa.
  - apply nodup_filter_qocc. intros e _ He. destruct (U e He) as (j&_&Ejb&Dj). eapply queued_once; eauto.
  - apply nodup_filter_qocc. intros e _ He. destruct (U e He) as (j&Eja&_&Dj). eapply queued_once; eauto.
  - intros [p x]. rewrite !filter_In. split; intros [Hin He]; (split; [|exact He]); destruct (U _ He) as (j&Eja&Ejb&Dj); cbn [snd] in *.
    + destruct (qget_In_some _ _ _ Hin) as (q&Hq&Hq'). apply q_get_In in Hq.
      destruct (inv_q _ _ _ Ib _ _ _ _ Hq Hq') as (j'&Ej'&Hc&Hp). rewrite Ejb in Ej'. inversion Ej'; subst j'. subst k p.
      apply queued_in; auto. split; [apply (proj1 (restart_xi s))|apply (proj2 (restart_xi s))].
    + destruct (qget_In_some _ _ _ Hin) as (q&Hq&Hq'). apply q_get_In in Hq.
      destruct (inv_q _ _ _ Ia _ _ _ _ Hq Hq') as (j'&Ej'&Hc&Hp). rewrite Eja in Ej'. inversion Ej'; subst j'. subst k p.
      apply queued_in; auto.
Qed.

Lemma sim_init : forall s, RGood s -> TQ s -> TE s -> XI s ->
  Sim (s_conns (requeue_all s)) (restart s) (requeue_all s).
Proof.
  intros s G T E X. pose proof (pi_requeue_all s (conj G (conj T (conj E X)))) as (Gb&Tb&Eb&Xb).
  pose proof (requeue_shape s G X) as SH. set (b := requeue_all s) in *.
  destruct (restore_state (s_now s) (save s)) as (_&_&Hc&Hw&Hh&Hn&_). fold (restart s) in Hc, Hw, Hh, Hn.
  split; [|split; [apply restart_rgood; exact G|split; [exact Gb|split; [apply restart_tq; exact G|split; [exact Tb|split;
    [apply restart_te; exact G|exact Eb]]]]]].
  split; [|split; [apply (restart_rgood s G)|apply Gb]].
  constructor.
  - eapply Forall_impl; [|apply (sh_conns _ _ SH)]. intros c [H _]. exact H.
  - rewrite (sh_count _ _ SH), count_restart. reflexivity.
  - rewrite (sh_now _ _ SH), Hn. reflexivity.
  - rewrite (sh_ids _ _ SH), (restart_ids s G). reflexivity.
  - rewrite (sh_choices _ _ SH), restart_choices. reflexivity.
  - rewrite (sh_waiters _ _ SH), Hw. reflexivity.
  - rewrite (sh_hub _ _ SH), Hh. reflexivity.
  - rewrite Hc, app_nil_r. reflexivity.
  - intros x j H. rewrite (sh_jobs _ _ SH). apply restart_getjob_back. exact H.
  - intros x H. rewrite (sh_jobs _ _ SH). apply restart_none_done; assumption.
  - apply init_q_rel; [exact G|apply Gb|exact Xb|apply Gb|apply (sh_jobs _ _ SH)|apply (sh_conns _ _ SH)].
  - apply init_tq_rel; [exact G|apply (sh_jobs _ _ SH)|exact Tb|exact Eb].
  - intros w H. rewrite Hw in H. destruct H.
  - intros c H. rewrite Hh in H. destruct H as [[]|[]].
Qed.
