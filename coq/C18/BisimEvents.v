(* C18 — restart bisimulation, part 3: `Core` is preserved by connection death, hub events, killjobs, dropjobs,
   dropdead and push, with equal outputs. *)
From Coq Require Import List NArith Bool Lia Arith Sorted.
From MW Require Import C16.Model C16.Proofs C17.Proofs C17.ProofsOrder C17.ProofsCount C18.Proofs C18.ProofsIds
  C18.ProofsInv C18.ProofsTimeout C18.BisimBase C18.BisimPrim.
Import ListNotations.
Open Scope N_scope.

(* ------------------------------------------------------------------ small updates *)

Lemma core_get : forall dead a b c, Core0 dead a b -> ~ In c (map c_id dead) ->
  get_conn (s_conns b) c = get_conn (s_conns a) c.
Proof. intros dead a b c C F. rewrite (c_conns _ _ _ C). apply get_conn_dead. exact F. Qed.

Lemma core_put : forall dead a b x, Core dead a b -> ~ In (c_id x) (map c_id dead) ->
  Core dead (set_conns (put_conn (s_conns a) x) a) (set_conns (put_conn (s_conns b) x) b).
Proof.
  intros dead a b x (C&Qa&Qb) F. split; [|split; [exact Qa|exact Qb]].
  rewrite (c_conns _ _ _ C), put_conn_dead by exact F.
  constructor; sf; try (destruct C; assumption); try reflexivity.
Qed.

Lemma core_set_conns : forall dead a b cs, Core dead a b -> Core dead (set_conns cs a) (set_conns (dead ++ cs) b).
Proof.
  intros dead a b cs (C&Qa&Qb). split; [|split; [exact Qa|exact Qb]].
  constructor; sf; try (destruct C; assumption); try reflexivity.
Qed.

Lemma core_set_ids : forall dead a b v, Core dead a b -> Core dead (set_ids v a) (set_ids v b).
Proof.
  intros dead a b v (C&Qa&Qb). split; [|split; [exact Qa|exact Qb]].
  constructor; sf; try (destruct C; assumption); try reflexivity.
Qed.

Lemma core_set_requeued : forall dead a b v v', Core dead a b -> Core dead (set_requeued v a) (set_requeued v' b).
Proof.
  intros dead a b v v' (C&Qa&Qb). split; [|split; [exact Qa|exact Qb]].
  constructor; sf; try (destruct C; assumption); try reflexivity.
Qed.

Lemma core_remove_waiter : forall dead a b c, Core dead a b ->
  Core dead (set_waiters (remove_waiter c (s_waiters a)) a) (set_waiters (remove_waiter c (s_waiters b)) b).
Proof.
  intros dead a b c (C&Qa&Qb). split; [|split; [exact Qa|exact Qb]]. tob C.
  constructor; sf; try (destruct C; assumption); try reflexivity.
  intros w H. apply (c_fw _ _ _ C). eapply remove_waiter_In; eauto.
Qed.

(* ------------------------------------------------------------------ shutdown, die *)

Lemma core_shutdown : forall dead l a b, Core dead a b -> Core dead (shutdown_loop l a) (shutdown_loop l b).
Proof.
  induction l as [|[i w] r IH]; intros a b C; cbn [shutdown_loop]; [exact C|].
  rewrite (core_isdone _ _ _ (proj1 C)). destruct (is_done (s_jobs a) w) eqn:D; [apply IH; exact C|].
  apply IH. apply core_pushjob; [apply core_set_requeued; exact C|exact D].
Qed.

Lemma core_die : forall dead a b c, Core dead a b -> ~ In c (map c_id dead) ->
  Core dead (fst (die c a)) (fst (die c b)) /\ snd (die c b) = snd (die c a).
Proof.
  intros dead a b c C Fc. unfold die. cbv zeta. cbn [fst snd]. split; [|reflexivity].
  rewrite (core_get _ _ _ _ (proj1 C) Fc). apply core_shutdown. apply core_put; [exact C|exact Fc].
Qed.

(* ------------------------------------------------------------------ hub events *)

Lemma core_run_event : forall dead a b e, Core dead a b -> fresh_ev dead e ->
  (forall ser, e = EvDone ser -> really_done (s_jobs a) ser) ->
  Core dead (fst (run_event e a)) (fst (run_event e b)) /\ snd (run_event e b) = snd (run_event e a).
Proof.
  intros dead a b e C Fe Hd. pose proof (core_isdone _ _ _ (proj1 C)) as DN.
  destruct e as [c|c|ser]; cbn [run_event fresh_ev] in *.
  - rewrite (core_get _ _ _ _ (proj1 C) Fe).
    destruct (c_st (get_conn (s_conns a) c)) as [|chs [x|]|w|]; try (split; [exact C|reflexivity]).
    rewrite DN. destruct (is_done (s_jobs a) x) eqn:D; [apply core_pop|apply core_deliver]; auto.
  - rewrite (core_get _ _ _ _ (proj1 C) Fe).
    destruct (c_st (get_conn (s_conns a) c)) as [|chs mb|w|].
    + apply core_die; auto.
    + apply core_die; [|exact Fe]. destruct mb as [x|]; [|apply core_remove_waiter; exact C].
      sf. rewrite DN. destruct (is_done (s_jobs a) x) eqn:D; [apply core_remove_waiter; exact C|].
      apply core_pushjob; [apply core_remove_waiter; exact C|exact D].
    + apply core_die; auto.
    + split; [exact C|reflexivity].
  - destruct (Hd ser eq_refl) as (j&Ej&Dj). pose proof (c_jobs _ _ _ (proj1 C) _ _ Ej) as Ejb.
    rewrite (c_conns _ _ _ (proj1 C)), (release_dead _ _ _ _ (c_dead _ _ _ (proj1 C))).
    rewrite (release_ext ser (s_jobs a) (s_jobs b)) by congruence.
    rewrite (has_waiter_dead _ _ _ (c_dead _ _ _ (proj1 C))), (c_ids _ _ _ (proj1 C)).
    destruct (release ser (s_jobs a) (s_conns a)) as [cs o]. cbn [fst snd]. rewrite Ej, Ejb.
    destruct (j_drop j && has_waiter ser (s_conns a) && id_is (s_ids a) (j_id j) ser); cbn [fst snd];
      (split; [|reflexivity]); [apply core_set_ids|]; apply core_set_conns; exact C.
Qed.

Lemma core_run_events : forall dead es a b, Core dead a b -> Forall (fresh_ev dead) es -> hub_ok (s_jobs a) es ->
  Core dead (fst (run_events es a)) (fst (run_events es b)) /\ snd (run_events es b) = snd (run_events es a).
Proof.
  induction es as [|e r IH]; intros a b C F H; cbn [run_events]; [split; [exact C|reflexivity]|].
  inversion F as [|? ? Fe Fr]; subst.
  destruct (core_run_event dead a b e C Fe) as [C1 O1]. { intros ser E. apply H. left. exact E. }
  pose proof (run_event_jobs e a) as J.
  destruct (run_event e a) as [a1 oa1], (run_event e b) as [b1 ob1]. cbn [fst snd] in *.
  destruct (IH a1 b1 C1 Fr) as [C2 O2]. { rewrite J. intros ser Hin. apply H. right. exact Hin. }
  destruct (run_events r a1) as [a2 oa2], (run_events r b1) as [b2 ob2]. cbn [fst snd] in *.
  split; [exact C2|congruence].
Qed.

(* ------------------------------------------------------------------ kill, drop, watchdog *)

Lemma core_killjobs : forall dead js a b, Core dead a b -> Core dead (killjobs js a) (killjobs js b).
Proof.
  induction js as [|i r IH]; intros a b C; cbn [killjobs]; [exact C|]. rewrite (c_ids _ _ _ (proj1 C)).
  destruct (id_lookup (s_ids a) i); apply IH; [apply core_mark|]; exact C.
Qed.

Lemma core_dropjobs : forall dead js a b, Core dead a b -> Core dead (dropjobs js a) (dropjobs js b).
Proof.
  induction js as [|i r IH]; intros a b C; cbn [dropjobs]; [exact C|]. rewrite (c_ids _ _ _ (proj1 C)).
  destruct (id_lookup (s_ids a) i); apply IH; [|exact C]. apply core_setjob; [exact C| |]; intros j H; cbn; exact H.
Qed.

Lemma core_dropdead : forall dead l a b, Core dead a b -> IdsOK a -> Core dead (dropdead_loop l a) (dropdead_loop l b).
Proof.
  induction l as [|i r IH]; intros a b C K; cbn [dropdead_loop]; [exact C|]. rewrite (c_ids _ _ _ (proj1 C)).
  destruct (id_lookup (s_ids a) i) as [ser|] eqn:El; [|apply IH; assumption].
  destruct (proj2 K i ser (id_lookup_In _ _ _ El)) as (j&Ej&_).
  assert (K1 : IdsOK (dropdead_loop [i] a)) by (apply dropdead_ids_ok; exact K).
  cbn [dropdead_loop] in K1. rewrite El, Ej in K1. cbv zeta in K1.
  rewrite Ej, (c_jobs _ _ _ (proj1 C) _ _ Ej). cbv zeta. rewrite ?(c_now _ _ _ (proj1 C)), ?(c_ids _ _ _ (proj1 C)).
  apply IH; [|exact K1].
  set (ex := match j_dl j with Some d => negb (d =? 0) && (d <? s_now a) | None => false end).
  assert (C1 : Core dead (if ex then set_ids (id_del (s_ids a) i) a else a) (if ex then set_ids (id_del (s_ids a) i) b else b))
    by (destruct ex; [apply core_set_ids|]; exact C).
  destruct (j_done j && negb (dl_truthy (j_dl j))); [|exact C1].
  apply core_setjob; [exact C1| |]; intros j0 H; cbn; exact H.
Qed.

(* ------------------------------------------------------------------ push *)

(* nothing in the state refers to serial x *)
Definition NoSer (s : state) (x : N) : Prop :=
  getjob (s_jobs s) x = None /\
  (forall k e, In e (qget (s_queues s) k) -> snd e <> x) /\
  (forall e, In e (s_tq s) -> snd (snd e) <> x).

Lemma core_push : forall dead a b ch prio name tmo, Core dead a b -> IdsOK a ->
  NoSer a (s_count a + 1) -> NoSer b (s_count a + 1) ->
  Core dead (fst (push ch prio name tmo a)) (fst (push ch prio name tmo b)) /\
  snd (push ch prio name tmo b) = snd (push ch prio name tmo a).
Proof.
  intros dead a b ch prio name tmo C K (Na1&Na2&Na3) (Nb1&Nb2&Nb3).
  assert (F : forall j, j_serial j = s_count a + 1 -> j_done j = false ->
    Core dead (pushjob (s_count a + 1) (set_jobs (j :: s_jobs a) (set_count (s_count a + 1) a)))
              (pushjob (s_count a + 1) (set_jobs (j :: s_jobs b) (set_count (s_count a + 1) b)))).
  { intros j Hs Hd. apply core_pushjob; [|sf; unfold is_done; cbn [getjob]; rewrite Hs, N.eqb_refl; exact Hd].
    assert (U : forall e, snd e <> s_count a + 1 -> und (j :: s_jobs a) e = und (s_jobs a) e).
    { intros e He. unfold und, is_done. cbn [getjob]. rewrite Hs.
      destruct (s_count a + 1 =? snd e) eqn:E; [apply N.eqb_eq in E; congruence|reflexivity]. }
    destruct C as (C&Qa&Qb). split; [|split; [exact Qa|exact Qb]].
    constructor; sf; try (destruct C; assumption); try reflexivity.
    - intros x j0. cbn [getjob]. destruct (j_serial j =? x); [auto|apply (c_jobs _ _ _ C)].
    - intros x. unfold is_done. cbn [getjob]. destruct (j_serial j =? x); [discriminate|]. apply (c_done _ _ _ C).
    - intro k. transitivity (filter (und (s_jobs a)) (qget (s_queues b) k)).
      + apply filter_ext_in. intros e He. apply U. eapply Nb2; eauto.
      + rewrite (c_q _ _ _ C). symmetry. apply filter_ext_in. intros e He. apply U. eapply Na2; eauto.
    - intros e H. unfold is_done in H. cbn [getjob] in H. rewrite Hs in H.
      destruct (s_count a + 1 =? snd (snd e)) eqn:E.
      + apply N.eqb_eq in E. split; intro Hin; exfalso; [eapply Nb3|eapply Na3]; eauto.
      + apply (c_tq _ _ _ C). exact H. }
  unfold push. tob (proj1 C). cbv zeta.
  destruct name as [n|]; [|cbn [fst snd]; split; [apply F|]; reflexivity].
  destruct (id_lookup (s_ids a) (JName n)) as [ser|] eqn:El; [|cbn [fst snd]; split; [apply F|]; reflexivity].
  destruct (proj2 K _ _ (id_lookup_In _ _ _ El)) as (j&Ej&_). rewrite Ej, (c_jobs _ _ _ (proj1 C) _ _ Ej).
  destruct (err_is_killed (j_err j)); cbn [fst snd]; [split; [apply F|]; reflexivity|split; [exact C|reflexivity]].
Qed.
