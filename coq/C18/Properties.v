(* C18 — property theorems only (each closed by `exact <lemma>`, followed by Print Assumptions). *)
From Coq Require Import List NArith Bool.
From MW Require Import C16.Model C16.Proofs C17.Proofs C18.Proofs C18.ProofsIds.
Import ListNotations.
Open Scope N_scope.

(* restart s = restore (save s): workq.__getstate__/__setstate__ + job.__getstate__/__setstate__.
   For ANY state s and any job registered in id2job: the restarted server has the job record
   verbatim (id, channel, priority, deadline, done, error, result, info, ttl), the same id counter
   (ids are not reused), no connection, no waiter, nothing pending in the hub; and an unfinished job
   - including one that was in a worker's running_jobs or in a mailbox - is queued in its own channel
   under its (priority, serial) key and is on the timeout heap with its original deadline. *)
Theorem C18_restart_preserves_partial : forall s i x j,
  id_lookup (s_ids s) i = Some x -> getjob (s_jobs s) x = Some j ->
  let s' := restart s in
  In j (s_jobs s') /\ s_count s' = s_count s /\ s_conns s' = [] /\ s_waiters s' = [] /\ s_hub s' = [] /\
  (j_done j = false ->
     In (j_prio j, j_serial j) (qget (s_queues s') (j_chan j)) /\
     In (j_timeout j, (j_prio j, j_serial j)) (s_tq s')).
Proof. exact restart_preserves. Qed.
Print Assumptions C18_restart_preserves_partial.

(* the whole restarted state: counter, job table = the saved list, everything else empty *)
Theorem C18_restore_state : forall now sv,
  let s := restore now sv in
  s_count s = fst sv /\ s_jobs s = snd sv /\ s_conns s = [] /\ s_waiters s = [] /\ s_hub s = [] /\
  s_now s = now /\ s_cnt s = [].
Proof. exact restore_state. Qed.
Print Assumptions C18_restore_state.

(* "job ids are not reused for new jobs": two adds without id, anywhere in any history with any number of
   restarts in between (rrun: ops of the full alphabet incl. Drop / Watchdog, and Restart = restore (save s)),
   starting from ANY state: the later one gets a strictly larger server-chosen id.  (The counter is pickled;
   it is never recomputed from the jobs that happen to be stored - dropped jobs would make that too small.) *)
Theorem C18_ids_not_reused : forall s ch prio tmo h ch' prio' tmo' n n',
  snd (step s (Add ch prio None tmo)) = [OJid (JAuto n)] ->
  let s' := rrun h (fst (step s (Add ch prio None tmo))) in
  snd (step s' (Add ch' prio' None tmo')) = [OJid (JAuto n')] ->
  n < n'.
Proof. exact ids_not_reused. Qed.
Print Assumptions C18_ids_not_reused.

(* clients waiting on a restored finished job are released at once (in any state, hence also
   after a restart: finish events are re-created set for done jobs) *)
Theorem C18_wait_immediate : forall s c i ser j,
  is_idle c s = true -> id_lookup (s_ids s) i = Some ser -> getjob (s_jobs s) ser = Some j -> j_done j = true ->
  done_pending ser (s_hub s) = false ->     (* no finish notification of this job still queued in the hub; after a restart s_hub = [] *)
  j_drop j = false ->                       (* nobody called rpc_qdrop on it *)
  step s (Wait c i) = (s, [OReleased c j]).
Proof. exact wait_done_immediate. Qed.
Print Assumptions C18_wait_immediate.

(* Non-vacuity: job 1 pulled by worker 1 and job 2 finished, then restart: job 1 is queued again,
   job 2 keeps its result, the counter stays 2, and the next pull after the restart gets job 1. *)
Example C18_example :
  let s := restart (run [Add 0 0 None None; Add 0 1 (Some 0) None; StartPull 1 []; Finish 2 (JName 0) (Some 7) ENone] init) in
  s_count s = 2 /\ s_queues s = [(0, [(0, 1)])] /\
  map (fun j => (j_serial j, j_done j, j_res j)) (s_jobs s) = [(1, false, None); (2, true, Some 7)] /\
  match snd (step s (StartPull 5 [])) with [ODeliver 5 [] j] => j_serial j = 1 | _ => False end.
Proof. vm_compute. repeat split. Qed.
Print Assumptions C18_example.

(* NOT PROVED (full statement of DESIGN's C18_restart_bisim): for all h1 h2,
     obs (run h2 (restart (run h1 init))) = obs (run h2 (requeue_running (run h1 init)))
   where requeue_running disconnects every connection and runs the loop, and obs = outputs of h2 up to
   counters.  What is proved instead is the state-level characterisation above (for every state, not only
   reachable ones); that the restarted state again satisfies the C16 invariant (so that all C16/C17 theorems
   hold for continuations after a restart) is checked by the differential run and the monitors only. *)
