(* C18 — property theorems only (each closed by `exact <lemma>`, followed by Print Assumptions). *)
From Coq Require Import List NArith Bool.
From MW Require Import C16.Model C16.Proofs C17.Proofs C17.ProofsOrder C18.Proofs C18.ProofsIds C18.ProofsInv C18.ProofsTimeout C17.ProofsLive C18.BisimBase C18.BisimRequeue C18.Bisim.
Import ListNotations.
Open Scope N_scope.

(* restart s = restore (save s): workq.__getstate__/__setstate__ + job.__getstate__/__setstate__.
   For ANY state s and any job registered in id2job: the restarted server has the job record
   verbatim (id, channel, priority, deadline, done, error, result, info, ttl), the same id counter
   (ids are not reused), no connection, no waiter, nothing pending in the hub; and an unfinished job
   - including one that was in a worker's running_jobs or in a mailbox - is queued in its own channel
   under its (priority, serial) key and is on the timeout heap with its original deadline. *)
Theorem C18_restart_preserves : forall s i x j,
  id_lookup (s_ids s) i = Some x -> getjob (s_jobs s) x = Some j ->
  let s' := restart s in
  In j (s_jobs s') /\ s_count s' = s_count s /\ s_conns s' = [] /\ s_waiters s' = [] /\ s_hub s' = [] /\
  (j_done j = false ->
     In (j_prio j, j_serial j) (qget (s_queues s') (j_chan j)) /\
     In (j_timeout j, (j_prio j, j_serial j)) (s_tq s')).
Proof. exact restart_preserves. Qed.
Print Assumptions C18_restart_preserves.

(* the whole restarted state: counter, job table = the saved list, everything else empty *)
Theorem C18_restore_state : forall now sv,
  let s := restore now sv in
  s_count s = fst sv /\ s_jobs s = snd sv /\ s_conns s = [] /\ s_waiters s = [] /\ s_hub s = [] /\
  s_now s = now /\ s_cnt s = [].
Proof. exact restore_state. Qed.
Print Assumptions C18_restore_state.

(* "job ids are not reused for new jobs": two adds without id, anywhere in any history with any number of
   restarts in between (rrun: ops of the full alphabet incl. Drop / Watchdog, and Restart = restore (save s)),
   starting from ANY state: the later one gets a strictly larger server-chosen id.  (The counter is pickled;
   it is never recomputed from the jobs that happen to be stored - dropped jobs would make that too small.) *)
Theorem C18_ids_not_reused : forall s ch prio tmo h ch' prio' tmo' n n',
  snd (step s (Add ch prio None tmo)) = [OJid (JAuto n)] ->
  let s' := rrun h (fst (step s (Add ch prio None tmo))) in
  snd (step s' (Add ch' prio' None tmo')) = [OJid (JAuto n')] ->
  n < n'.
Proof. exact ids_not_reused. Qed.
Print Assumptions C18_ids_not_reused.

(* clients waiting on a restored finished job are released at once (in any state, hence also
   after a restart: finish events are re-created set for done jobs) *)
Theorem C18_wait_immediate : forall s c i ser j,
  is_idle c s = true -> id_lookup (s_ids s) i = Some ser -> getjob (s_jobs s) ser = Some j -> j_done j = true ->
  j_drop j = false ->                       (* nobody called rpc_qdrop on it *)
  step s (Wait c i) = (s, [OReleased c j]).
Proof. exact wait_done_immediate. Qed.
Print Assumptions C18_wait_immediate.

(* The restarted state satisfies the queue invariants again.  RGood = Good (C16: Aux, HubOK, Inv) + QS (C17: channel
   queues sorted) + IdsOK (id2job has one entry per key and every entry (i, x) names an existing job object whose own
   jobid is i, so distinct ids map to distinct serials and the saved list has no duplicates).  It holds initially, every
   op of the full alphabet preserves it, and so does Restart = restore (save s): it holds in every state reachable by
   histories with restarts at arbitrary positions (rrun), in particular in restore (save s) of every reachable s. *)
Theorem C18_invariant_inductive_with_restarts :
  RGood init /\ (forall s o, RGood s -> RGood (fst (step s o))) /\ (forall s, RGood s -> RGood (restart s)).
Proof. exact (conj rgood_init (conj step_rgood restart_rgood)). Qed.
Print Assumptions C18_invariant_inductive_with_restarts.

Theorem C18_restart_satisfies_invariant : forall h,
  let s := rrun h init in Inv (restart s) [] [] /\ Aux (restart s) /\ HubOK (restart s) /\ QS (restart s).
Proof. exact restart_inv. Qed.
Print Assumptions C18_restart_satisfies_invariant.

(* hence C16's conservation holds for every history with restarts: every accepted unfinished job is in exactly one
   place, is the job registered under its id, and if queued is queued in its own channel with its own priority *)
Theorem C18_conservation_with_restarts : forall h x j,
  let s := rrun h init in
  getjob (s_jobs s) x = Some j -> j_done j = false ->
  (in_queues s x + with_workers s x = 1)%nat /\
  id_lookup (s_ids s) (j_id j) = Some x /\
  (forall k q p, In (k, q) (s_queues s) -> In (p, x) q -> k = j_chan j /\ p = j_prio j).
Proof. exact conservation_restarts. Qed.
Print Assumptions C18_conservation_with_restarts.

(* ... and C17's delivery rules: eligible + never finished + (priority, serial)-minimum first, after any restarts *)
Theorem C18_delivered_eligible_and_unfinished_with_restarts : forall h o c chs j,
  In (ODeliver c chs j) (snd (step (rrun h init) o)) ->
  j_done j = false /\ (chs = [] \/ mem (j_chan j) chs = true).
Proof. exact delivered_ok_restarts. Qed.
Print Assumptions C18_delivered_eligible_and_unfinished_with_restarts.

Theorem C18_min_first_with_restarts : forall h c chs j,
  let s := rrun h init in
  In (ODeliver c chs j) (snd (step s (StartPull c chs))) ->
  forall k q p x, q_get (s_queues s) k = Some q -> (chs = [] \/ mem k chs = true) -> In (p, x) q ->
  is_done (s_jobs s) x = false -> key_lt (p, x) (j_prio j, j_serial j) = false.
Proof. exact min_first_restarts. Qed.
Print Assumptions C18_min_first_with_restarts.

(* ... as the two client-visible rules, for histories with any number of restarts: priority first, FIFO (serial,
   which restarts preserve: C18_ids_not_reused) within one priority. *)
Theorem C18_priority_then_fifo_with_restarts : forall h c chs j,
  let s := rrun h init in
  In (ODeliver c chs j) (snd (step s (StartPull c chs))) ->
  forall k q p x, q_get (s_queues s) k = Some q -> (chs = [] \/ mem k chs = true) -> In (p, x) q ->
  is_done (s_jobs s) x = false -> j_prio j <= p /\ (p = j_prio j -> j_serial j <= x).
Proof. exact prio_fifo_restarts. Qed.
Print Assumptions C18_priority_then_fifo_with_restarts.

(* "Unfinished jobs (including ones a worker had pulled but not finished) are pullable again in the same
   priority/FIFO order": in restore (save s), for any s reachable with the full alphabet and earlier restarts, what a
   pull hands out at once is unfinished and not larger, in the order (priority, serial) the jobs had BEFORE the restart
   (records are restored verbatim, restart_job_table), than any job that was registered in id2job and unfinished before
   the restart on a requested channel - whether it was queued, in a hand-off mailbox or held by a worker; and the pull
   blocks only when there was no such job. *)
Theorem C18_pullable_again_in_order : forall s c chs j, RGood s ->
  let s' := restart s in
  In (ODeliver c chs j) (snd (step s' (StartPull c chs))) ->
  j_done j = false /\
  forall i x jx, id_lookup (s_ids s) i = Some x -> getjob (s_jobs s) x = Some jx -> j_done jx = false ->
    (chs = [] \/ mem (j_chan jx) chs = true) -> key_lt (j_prio jx, x) (j_prio j, j_serial j) = false.
Proof. exact restart_pull_in_order. Qed.
Print Assumptions C18_pullable_again_in_order.

Theorem C18_pull_after_restart_blocks_only_when_empty : forall s c chs, RGood s ->
  let s' := restart s in
  In OBlocked (snd (step s' (StartPull c chs))) ->
  forall i x jx, id_lookup (s_ids s) i = Some x -> getjob (s_jobs s) x = Some jx ->
    (chs = [] \/ mem (j_chan jx) chs = true) -> j_done jx = true.
Proof. exact restart_pull_blocks_only_when_empty. Qed.
Print Assumptions C18_pull_after_restart_blocks_only_when_empty.

(* "... and still subject to their timeout": job jx registered and unfinished in s (reachable with the full alphabet and
   earlier restarts); restart; the first handletimeouts sweep whose clock is at or past the job's original absolute
   deadline leaves it finished with error "timeout" (the rebuilt timeout heap is sorted: restart_ts; the sweep finishes
   every entry whose deadline has passed: timeouts_loop_spec). *)
Theorem C18_still_subject_to_timeout : forall s i x jx dt, RGood s ->
  id_lookup (s_ids s) i = Some x -> getjob (s_jobs s) x = Some jx -> j_done jx = false ->
  let s' := restart s in
  j_timeout jx <= s_now s' + dt ->
  exists j', getjob (s_jobs (fst (step s' (Tick dt)))) x = Some j' /\ j_done j' = true /\ j_err j' = e_timeout.
Proof. exact restart_still_subject_to_timeout. Qed.
Print Assumptions C18_still_subject_to_timeout.

(* ... and in EVERY state reachable with the full alphabet and restarts at arbitrary positions (the timeout heap is sorted
   and holds an entry with the deadline of every unfinished job: invariant TQ): a handletimeouts sweep at or past the
   deadline of an unfinished job finishes it with error "timeout". *)
Theorem C18_sweep_times_out_with_restarts : forall h x j dt,
  let s := rrun h init in
  getjob (s_jobs s) x = Some j -> j_done j = false -> j_timeout j <= s_now s + dt ->
  exists j', getjob (s_jobs (fst (step s (Tick dt)))) x = Some j' /\ j_done j' = true /\ j_err j' = e_timeout.
Proof. exact sweep_times_out. Qed.
Print Assumptions C18_sweep_times_out_with_restarts.

Example C18_timeout_example :
  let s := restart (run [Add 0 0 None (Some 10); Add 0 0 None (Some 5)] init) in
  let s2 := fst (step s (Tick 6)) in
  map (fun j => (j_serial j, j_done j, j_err j)) (s_jobs s2) = [(2, true, EStr 1); (1, false, ENone)] \/
  map (fun j => (j_serial j, j_done j, j_err j)) (s_jobs s2) = [(1, false, ENone); (2, true, EStr 1)].
Proof. exact timeout_example. Qed.
Print Assumptions C18_timeout_example.

Theorem C18_reachable_with_restarts_is_RGood : forall h, RGood (rrun h init).
Proof. exact rreachable_rgood. Qed.
Print Assumptions C18_reachable_with_restarts_is_RGood.

(* Non-vacuity of the order theorem: see restart_history in ProofsInv.v (4 jobs, 3 channels, one held by a worker,
   one in a mailbox, restart, then four pulls in (priority, serial) order per channel set). *)
Example C18_restart_order_example :
  let s := rrun restart_history init in
  map (fun c => (c_id c, map snd (c_run c))) (s_conns s) = [(1, [2]); (2, [1]); (3, [3]); (4, [4])] /\
  s_count s = 4 /\ s_handed s = [4; 3; 1; 2].
Proof. exact restart_example. Qed.
Print Assumptions C18_restart_order_example.

(* Non-vacuity: job 1 pulled by worker 1 and job 2 finished, then restart: job 1 is queued again,
   job 2 keeps its result, the counter stays 2, and the next pull after the restart gets job 1. *)
Example C18_example :
  let s := restart (run [Add 0 0 None None; Add 0 1 (Some 0) None; StartPull 1 []; Finish 2 (JName 0) (Some 7) ENone] init) in
  s_count s = 2 /\ s_queues s = [(0, [(0, 1)])] /\
  map (fun j => (j_serial j, j_done j, j_res j)) (s_jobs s) = [(1, false, None); (2, true, Some 7)] /\
  match snd (step s (StartPull 5 [])) with [ODeliver 5 [] j] => j_serial j = 1 | _ => False end.
Proof. vm_compute. repeat split. Qed.
Print Assumptions C18_example.

(* C18_restart_bisim (DESIGN's full statement): continuations after a restart behave like continuations after "all
   workers disconnected, nobody waiting".  For EVERY state s reachable with the full alphabet and restarts at arbitrary
   positions, and every continuation h2 that does not re-use a connection id of s:
       outputs of h2 from restore (save s)   ~   outputs of h2 from requeue_all s
   requeue_all s (BisimRequeue.v) = the callbacks still queued in the hub are lost (set_hub []), every connection is
   disconnected, RunLoop, RunLoop (so every job a worker held, or that sat in a hand-off mailbox, is back in its queue;
   every waiting client is gone), pending random.choice answers discarded.  ~ = Forall2 obs_eq: equal outputs, where
   of a Stats answer only count, numjobs and the per-channel busy numbers are compared (outcome counters restart from
   zero; channel2q keeps keys of empty queues).
   Why the hub is emptied in the reference: a finish notification that was queued but not delivered is lost by a restart;
   delivering it first lets a waiter of a DROPPED job fetch it and delete its id (A 0 0 - -;W 1 a1;T 200;Y a1, then I a1:
   the restart still knows a1).  Found by the bounded model check ocaml/c16/bisim.ml, which checks this same statement
   exhaustively on the extracted model on every run (vt/harness/c16_bisim.py).
   Proof: simulation relation Sim (BisimStep.v) preserved by all 15 ops with obs_eq outputs (sim_step), established
   between restart s and requeue_all s (sim_init); new single-state invariants TE (timeout heap entries are sound) and
   XI (unique channel keys, unique connection ids, dead connections hold nothing), for all ops and restarts. *)
Theorem C18_restart_bisim : forall h h2, let s := rrun h init in
  Forall (fresh_op (map c_id (s_conns s))) h2 ->
  Forall2 obs_eq (outs h2 (restart s)) (outs h2 (requeue_all s)).
Proof. exact restart_bisim. Qed.
Print Assumptions C18_restart_bisim.

(* Non-vacuity: worker 1 holds job 1, puller 2 has job 2 in its mailbox (wake-up still in the hub), client 3 waits for
   job 1, job 3 queued; fresh connections 10..13 pull: both sides deliver 2, 1, 3 in that order. *)
Example C18_restart_bisim_example :
  let s := rrun bisim_h init in
  map (fun c => (c_id c, c_st c, map snd (c_run c))) (s_conns s) = [(1, Idle, [1]); (2, BPull [0] (Some 2), []); (3, BWait 1, [])] /\
  s_hub s = [EvNotify 2] /\
  Forall (fresh_op (map c_id (s_conns s))) bisim_h2 /\
  map delivered (outs bisim_h2 (restart s)) = [Some (10, 2); Some (11, 1); Some (12, 3); None; None; None; None] /\
  map delivered (outs bisim_h2 (requeue_all s)) = [Some (10, 2); Some (11, 1); Some (12, 3); None; None; None; None] /\
  Forall2 obs_eq (outs bisim_h2 (restart s)) (outs bisim_h2 (requeue_all s)).
Proof. exact restart_bisim_example. Qed.
Print Assumptions C18_restart_bisim_example.
