(* C18 — restart bisimulation, part 10: the reference state `requeue_all s` (hub emptied, every connection
   disconnected, two hub turns) and its shape. *)
From Coq Require Import List NArith Bool Lia Arith Sorted.
From MW Require Import C16.Model C16.Proofs C17.Proofs C17.ProofsOrder C17.ProofsCount C17.ProofsLive C18.Proofs C18.ProofsIds
  C18.ProofsInv C18.ProofsTimeout C18.BisimBase C18.BisimTE C18.BisimXI C18.BisimShape.
Import ListNotations.
Open Scope N_scope.

(* Disconnect of a Dead connection is a no-op, so all connections can be disconnected *)
Definition disconnect_all (s : state) : state :=
  fold_left (fun s c => fst (step s (Disconnect (c_id c)))) (s_conns s) s.

(* the hub is emptied first (a server stop loses undelivered wake-ups); the first RunLoop runs the kills, the second
   one the EvNotify events queued for pullers that died in the first (no-ops) *)
Definition requeue_all (s : state) : state :=
  set_choices [] (fst (step (fst (step (disconnect_all (set_hub [] s)) RunLoop)) RunLoop)).

(* ------------------------------------------------------------------ single-state invariants of requeue_all s *)

Definition PI (s : state) : Prop := RGood s /\ TQ s /\ TE s /\ XI s.

Lemma pi_step : forall s o, PI s -> PI (fst (step s o)).
Proof.
  intros s o (G&T&E&X). split; [apply step_rgood; exact G|]. split; [apply step_tq; [apply G|exact T]|].
  split; [apply step_te; [apply G|exact E]|apply step_xi; exact X].
Qed.

Lemma pi_set_hub_nil : forall s, PI s -> PI (set_hub [] s).
Proof.
  intros s (((A&H&I)&Q&K)&T&E&X). split; [|split; [eapply tq_same; [| |exact T]; reflexivity|split;
    [eapply te_same; [| |exact E]; reflexivity|eapply xi_same; [| |exact X]; reflexivity]]].
  split; [|split; [eapply qs_same; [|exact Q]; reflexivity|eapply idsok_same; [| |exact K]; reflexivity]].
  split; [eapply aux_same; [|exact A]; reflexivity|]. split; [intros ser []|eapply inv_same; [exact I| | | | | |]; reflexivity].
Qed.

Lemma pi_set_choices : forall s v, PI s -> PI (set_choices v s).
Proof.
  intros s v (((A&H&I)&Q&K)&T&E&X). split; [|split; [eapply tq_same; [| |exact T]; reflexivity|split;
    [eapply te_same; [| |exact E]; reflexivity|eapply xi_same; [| |exact X]; reflexivity]]].
  split; [|split; [eapply qs_same; [|exact Q]; reflexivity|eapply idsok_same; [| |exact K]; reflexivity]].
  split; [eapply aux_same; [|exact A]; reflexivity|]. split; [eapply hub_same; [| |exact H]; reflexivity|eapply inv_same; [exact I| | | | | |]; reflexivity].
Qed.

Lemma pi_fold : forall l s, PI s -> PI (fold_left (fun s c => fst (step s (Disconnect (c_id c)))) l s).
Proof. induction l as [|c r IH]; intros s P; cbn [fold_left]; [exact P|]. apply IH. apply pi_step. exact P. Qed.

Lemma pi_requeue_all : forall s, PI s -> PI (requeue_all s).
Proof.
  intros s P. unfold requeue_all, disconnect_all. apply pi_set_choices. apply pi_step. apply pi_step. apply pi_fold.
  apply pi_set_hub_nil. exact P.
Qed.

(* ------------------------------------------------------------------ the kill turn *)

Lemma kills_run : forall js ids cnt now cids,
  (forall x j, getjob js x = Some j -> j_done j = false -> id_lookup ids (j_id j) = Some x) ->
  forall K t, Inv t [] [] -> XI t -> LS js ids cnt now cids t -> (forall c, In c K -> In c cids) ->
  Inv (fst (run_events (map EvKill K) t)) [] [] /\ XI (fst (run_events (map EvKill K) t)) /\
  LS js ids cnt now cids (fst (run_events (map EvKill K) t)) /\
  (forall c, In c K -> DeadE (fst (run_events (map EvKill K) t)) c) /\
  (forall c', DeadE t c' -> DeadE (fst (run_events (map EvKill K) t)) c').
Proof.
  intros js ids cnt now cids A. induction K as [|c r IH]; intros t I X L HK; cbn [map run_events].
  - cbn [fst]. split; [exact I|split; [exact X|split; [exact L|split; [intros c []|auto]]]].
  - assert (I1 : Inv (fst (run_event (EvKill c) t)) [] []) by (apply run_event_inv; [exact I|intros ser H; discriminate H]).
    pose proof (run_event_xi (EvKill c) t X) as X1.
    pose proof (kill_ls _ _ _ _ _ A c t L (HK c (or_introl eq_refl))) as L1.
    pose proof (kill_dead_self c t I X) as D1. pose proof (fun c' => kill_dead_other c t c' I) as O1.
    destruct (run_event (EvKill c) t) as [t1 o1]. cbn [fst] in *.
    specialize (IH t1 I1 X1 L1 (fun c0 H => HK c0 (or_intror H))).
    destruct (run_events (map EvKill r) t1) as [t2 o2]. cbn [fst] in *.
    destruct IH as (I2&X2&L2&D2&O2). split; [exact I2|split; [exact X2|split; [exact L2|split; [|auto]]]].
    intros c0 [E|H]; [subst; apply O2; exact D1|apply D2; exact H].
Qed.

Lemma disconnect_fold : forall s0 l h, exists K,
  fold_left (fun s c => fst (step s (Disconnect (c_id c)))) l (set_hub h s0) = set_hub (h ++ map EvKill K) s0 /\
  (forall c, In c K -> In c (map c_id l)) /\
  (forall c, In c l -> c_st (get_conn (s_conns s0) (c_id c)) = Dead \/ In (c_id c) K).
Proof.
  intros s0. induction l as [|c r IH]; intro h; cbn [fold_left].
  - exists []. cbn [map]. rewrite app_nil_r. repeat split; intros c [].
  - cbn [step]. sf. destruct (c_st (get_conn (s_conns s0) (c_id c))) eqn:St; cbn [fst].
    4: { destruct (IH h) as (K&E&H1&H2). exists K. split; [exact E|]. split; [intros c0 H; right; auto|].
         intros c0 [H|H]; [subst; left; exact St|apply H2; exact H]. }
    all: destruct (IH (h ++ [EvKill (c_id c)])) as (K&E&H1&H2); exists (c_id c :: K);
      (split; [cbn [map]; rewrite <- app_assoc in E; exact E|]);
      (split; [intros c0 [H|H]; [left; exact H|right; auto]|]);
      intros c0 [H|H]; [subst; right; left; reflexivity|destruct (H2 _ H); [left; assumption|right; right; assumption]].
Qed.

Lemma notify_noop : forall es u, (forall c chs mb, c_st (get_conn (s_conns u) c) <> BPull chs mb) ->
  Forall is_notify es -> run_events es u = (u, []).
Proof.
  induction es as [|e r IH]; intros u H F; cbn [run_events]; [reflexivity|].
  inversion F as [|? ? Fe Fr]; subst. destruct e as [c|c|x]; cbn [is_notify] in Fe; try contradiction.
  cbn [run_event]. destruct (c_st (get_conn (s_conns u) c)) as [|chs mb|w|] eqn:St;
    try (rewrite (IH u H Fr); reflexivity). exfalso. eapply H; eauto.
Qed.

(* ------------------------------------------------------------------ shape of requeue_all s *)

Record Shape (s b : state) : Prop := {
  sh_hub : s_hub b = []; sh_waiters : s_waiters b = []; sh_choices : s_choices b = [];
  sh_conns : Forall (fun c => c_st c = Dead /\ c_run c = []) (s_conns b);
  sh_jobs : s_jobs b = s_jobs s; sh_ids : s_ids b = s_ids s; sh_count : s_count b = s_count s; sh_now : s_now b = s_now s;
  sh_cids : map c_id (s_conns b) = map c_id (s_conns s)
}.

Lemma requeue_shape : forall s, RGood s -> XI s -> Shape s (requeue_all s).
Proof.
  intros s G X. destruct G as ((A&H&I)&Q&K).
  destruct (disconnect_fold s (s_conns s) []) as (KL&E&H1&H2).
  set (t0 := set_hub [] s).
  assert (I0 : Inv t0 [] []) by (eapply inv_same; [exact I| | | | | |]; reflexivity).
  assert (X0 : XI t0) by (eapply xi_same; [| |exact X]; reflexivity).
  assert (L0 : LS (s_jobs s) (s_ids s) (s_count s) (s_now s) (map c_id (s_conns s)) t0).
  { constructor; try reflexivity; [constructor|]. intros [c chs] Hw. cbn [fst].
    pose proof (inv_wait _ _ _ I _ _ Hw) as St. destruct (get_conn_In_or_new (s_conns s) c) as [Hin|Hn].
    - apply in_map_iff. exists (get_conn (s_conns s) c). split; [apply get_conn_id|exact Hin].
    - rewrite Hn in St. discriminate. }
  destruct (kills_run _ _ _ _ _ (fun x j Ej Dj => inv_addr _ _ _ I x j Ej Dj eq_refl) KL t0 I0 X0 L0 H1) as (I1&X1&L1&D1&O1).
  unfold requeue_all, disconnect_all. change (s_conns (set_hub [] s)) with (s_conns s). rewrite E. cbn [app].
  cbn [step]. sf. change (set_hub [] (set_hub (map EvKill KL) s)) with t0.
  destruct (run_events (map EvKill KL) t0) as [t1 o1]. cbn [fst] in *.
  assert (AD : forall c, In c (map c_id (s_conns s)) -> DeadE t1 c).
  { intros c Hc. apply in_map_iff in Hc. destruct Hc as (c0&Hid&Hin). subst c. destruct (H2 _ Hin) as [Hd|Hk]; [|apply D1; exact Hk].
    apply O1. unfold DeadE, t0. sf. split; [exact Hd|]. rewrite (kc_get _ _ (proj2 X) Hin) in *.
    apply (proj1 (proj2 X)); assumption. }
  assert (FD : Forall (fun c => c_st c = Dead /\ c_run c = []) (s_conns t1)).
  { apply Forall_forall. intros y Hy. assert (Hc : In (c_id y) (map c_id (s_conns s))).
    { rewrite <- (ls_cids _ _ _ _ _ _ L1). apply in_map. exact Hy. }
    pose proof (AD _ Hc) as [P1 P2]. rewrite (kc_get _ _ (proj2 X1) Hy) in *. split; assumption. }
  assert (NB : forall c chs mb, c_st (get_conn (s_conns t1) c) <> BPull chs mb).
  { intros c chs mb St. destruct (get_conn_In_or_new (s_conns t1) c) as [Hin|Hn].
    - rewrite Forall_forall in FD. rewrite (proj1 (FD _ Hin)) in St. discriminate.
    - rewrite Hn in St. discriminate. }
  rewrite (notify_noop (s_hub t1) (set_hub [] t1) NB (ls_hub _ _ _ _ _ _ L1)). cbn [fst].
  constructor; sf; try (destruct L1; assumption); try reflexivity.
  destruct (s_waiters t1) as [|[c chs] r] eqn:Ew; [reflexivity|]. exfalso.
  assert (Hw : In (c, chs) (s_waiters t1)) by (rewrite Ew; left; reflexivity).
  apply (NB c chs None). apply (inv_wait _ _ _ I1 _ _ Hw).
Qed.
