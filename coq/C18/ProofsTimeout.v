(* C18 — "unfinished jobs are ... still subject to their timeout": __setstate__ rebuilds the timeout heap from the
   unfinished jobs (jobs.py:89-98); the first handletimeouts sweep at or after a restored job's deadline finishes it
   with error "timeout" (unless it was finished before).  The timeout heap is modelled by its sorted view (Model.v
   s_tq, kept sorted by tins); handletimeouts (jobs.py:139-151) pops while the head's deadline has passed. *)
From Coq Require Import List NArith Bool Lia Arith Sorted.
From MW Require Import C16.Model C16.Proofs C17.Proofs C17.ProofsOrder C17.ProofsCount C18.Proofs C18.ProofsIds C18.ProofsInv.
Import ListNotations.
Open Scope N_scope.

Definition tkey_le (a b : tkey) : Prop := tkey_lt b a = false.

Ltac tkey_cases :=
  unfold tkey_le, tkey_lt, key_lt in *; cbn [fst snd] in *;
  repeat match goal with
         | H : context [?x <? ?y] |- _ => destruct (N.ltb_spec x y)
         | H : context [?x =? ?y] |- _ => destruct (N.eqb_spec x y)
         | |- context [?x <? ?y] => destruct (N.ltb_spec x y)
         | |- context [?x =? ?y] => destruct (N.eqb_spec x y)
         end; cbn in *; try discriminate; try reflexivity; try lia.

Lemma tkey_le_trans : forall a b c, tkey_le a b -> tkey_le b c -> tkey_le a c.
Proof. intros [a1 [a2 a3]] [b1 [b2 b3]] [c1 [c2 c3]] H1 H2. tkey_cases. Qed.

Lemma tkey_lt_le : forall a b, tkey_lt a b = true -> tkey_le a b.
Proof. intros [a1 [a2 a3]] [b1 [b2 b3]] H. tkey_cases. Qed.

Lemma tkey_le_fst : forall a b, tkey_le a b -> fst a <= fst b.
Proof. intros [a1 [a2 a3]] [b1 [b2 b3]] H. tkey_cases. Qed.

Definition tsorted (q : list tkey) : Prop := StronglySorted tkey_le q.

Lemma tsorted_tins : forall x q, tsorted q -> tsorted (tins x q).
Proof.
  intros x q. induction q as [|y r IH]; intro H; cbn [tins].
  - constructor; constructor.
  - inversion H as [|? ? Hr HF]; subst. destruct (tkey_lt x y) eqn:E.
    + constructor; [exact H|]. constructor; [apply tkey_lt_le; exact E|].
      eapply Forall_impl; [|exact HF]. intros z Hz. eapply tkey_le_trans; [apply tkey_lt_le; exact E|exact Hz].
    + constructor; [apply IH; exact Hr|]. apply Forall_forall. intros z Hz. apply tins_In in Hz.
      destruct Hz as [Hz|Hz]; [subst; exact E|]. rewrite Forall_forall in HF. apply HF. exact Hz.
Qed.

(* ------------------------------------------------------------------ the sweep *)

Lemma timeouts_tab_le : forall q s, tab_le (s_jobs s) (s_jobs (timeouts_loop q s)) /\ s_now (timeouts_loop q s) = s_now s.
Proof.
  induction q as [|x r IH]; intro s; cbn [timeouts_loop]; [split; [apply tab_le_refl|reflexivity]|].
  destruct (is_done (s_jobs s) (snd (snd x))); [apply IH|].
  destruct (s_now s <? fst x); [split; [apply tab_le_refl|reflexivity]|].
  destruct (IH (mark_finished (snd (snd x)) (upd_err e_timeout) s)) as [T Hn].
  destruct (mark_fields (snd (snd x)) (upd_err e_timeout) s) as (_&_&_&_&_&Hnow&_).
  split; [eapply tab_le_trans; [apply mark_tab_le|exact T]|congruence].
Qed.

Lemma timeouts_done_mono : forall q s x, is_done (s_jobs s) x = true -> is_done (s_jobs (timeouts_loop q s)) x = true.
Proof. intros q s x. apply tab_le_done. apply timeouts_tab_le. Qed.

(* every heap entry whose deadline has passed belongs to a finished job after the sweep *)
Lemma timeouts_loop_spec : forall q s, tsorted q ->
  forall d p x, In (d, (p, x)) q -> d <= s_now s -> is_done (s_jobs (timeouts_loop q s)) x = true.
Proof.
  induction q as [|e r IH]; intros s TS d p x Hin Hd; [destruct Hin|]. cbn [timeouts_loop].
  inversion TS as [|? ? TSr HF]; subst. rewrite Forall_forall in HF.
  destruct (is_done (s_jobs s) (snd (snd e))) eqn:De.
  - destruct Hin as [He|Hr]; [subst e; cbn [snd] in De; apply timeouts_done_mono; exact De|eapply IH; eauto].
  - destruct (s_now s <? fst e) eqn:Enow.
    + apply N.ltb_lt in Enow. exfalso. destruct Hin as [He|Hr].
      * subst e. cbn [fst] in Enow. lia.
      * pose proof (tkey_le_fst _ _ (HF _ Hr)) as H. cbn [fst] in H. lia.
    + destruct (mark_fields (snd (snd e)) (upd_err e_timeout) s) as (_&_&_&_&_&Hnow&_).
      destruct Hin as [He|Hr].
      * subst e. cbn [snd]. apply timeouts_done_mono. apply mark_done.
      * eapply IH; eauto. rewrite Hnow. exact Hd.
Qed.

(* a job that the sweep finds unfinished and leaves finished has error "timeout" *)
Lemma timeouts_loop_err : forall q s x j, getjob (s_jobs s) x = Some j -> j_done j = false ->
  forall j', getjob (s_jobs (timeouts_loop q s)) x = Some j' -> j_done j' = true -> j_err j' = e_timeout.
Proof.
  induction q as [|e r IH]; intros s x j E D j' E' D'; cbn [timeouts_loop] in E'.
  - sf. congruence.
  - destruct (is_done (s_jobs s) (snd (snd e))) eqn:De; [exact (IH s x j E D j' E' D')|].
    destruct (s_now s <? fst e); [sf; congruence|].
    set (y := snd (snd e)) in *. set (s1 := mark_finished y (upd_err e_timeout) s) in *.
    destruct (N.eq_dec y x) as [Ey|Ey].
    + (* this very job is timed out now; later marks leave a finished job alone *)
      subst y. assert (E1 : exists j1, getjob (s_jobs s1) x = Some j1 /\ j_done j1 = true /\ j_err j1 = e_timeout).
      { unfold s1, mark_finished. rewrite Ey, E, D. sf.
        rewrite getjob_setjob by (intros; cbn; eapply getjob_serial; eauto). rewrite N.eqb_refl, E. cbn.
        eexists; split; [reflexivity|]. split; reflexivity. }
      destruct E1 as (j1&E1&D1&R1).
      destruct (timeouts_fin_le r s1 x j1 E1 D1) as (j2&E2&_&R2&_). fold s1 in E'. rewrite E' in E2. inversion E2; subst j2. congruence.
    + (* another job is timed out: x is untouched *)
      assert (E1 : getjob (s_jobs s1) x = Some j).
      { unfold s1, mark_finished. destruct (getjob (s_jobs s) y) as [jy|] eqn:Ejy; [|exact E].
        destruct (j_done jy); [exact E|]. sf.
        rewrite getjob_setjob by (intros; cbn; eapply getjob_serial; eauto).
        destruct (x =? y) eqn:Exy; [apply N.eqb_eq in Exy; congruence|exact E]. }
      exact (IH s1 x j E1 D j' E' D').
Qed.

(* ------------------------------------------------------------------ the restored heap is sorted *)

Lemma restore_loop_ts : forall l s, tsorted (s_tq s) -> tsorted (s_tq (restore_loop l s)).
Proof.
  induction l as [|j r IH]; intros s TS; cbn [restore_loop]; [exact TS|].
  destruct (j_done j); [apply IH; exact TS|]. cbv zeta. apply IH. sf. apply tsorted_tins. exact TS.
Qed.

Lemma restart_ts : forall s, tsorted (s_tq (restart s)).
Proof. intro s. unfold restart, restore. apply restore_loop_ts. constructor. Qed.

(* C18 "still subject to their timeout": job jx was registered and unfinished in s (s reachable with the full alphabet
   and earlier restarts); the server restarts; the first handletimeouts sweep whose clock reading is at or past the
   job's ORIGINAL absolute deadline (j_timeout, kept verbatim) leaves it finished with error "timeout". *)
Lemma restart_still_subject_to_timeout : forall s i x jx dt, RGood s ->
  id_lookup (s_ids s) i = Some x -> getjob (s_jobs s) x = Some jx -> j_done jx = false ->
  let s' := restart s in
  j_timeout jx <= s_now s' + dt ->
  exists j', getjob (s_jobs (fst (step s' (Tick dt)))) x = Some j' /\ j_done j' = true /\ j_err j' = e_timeout.
Proof.
  intros s i x jx dt G El E D s' Hd.
  destruct (restart_preserves s i x jx El E) as (_&_&_&_&_&HQ). destruct (HQ D) as [_ Htq]. fold s' in Htq.
  rewrite (getjob_serial _ _ _ E) in Htq.
  pose proof (restart_job_table s i x jx G El E) as E'. fold s' in E'.
  cbn [step fst]. unfold handletimeouts, preenall. sf.
  set (s1 := set_now (s_now s' + dt) s').
  pose proof (timeouts_loop_spec (s_tq s') s1 (restart_ts s) _ _ _ Htq) as DONE. unfold s1 at 1 in DONE. sf. specialize (DONE Hd).
  change (s_tq s1) with (s_tq s') . unfold is_done in DONE.
  destruct (getjob (s_jobs (timeouts_loop (s_tq s') s1)) x) as [j'|] eqn:Ej'.
  - exists j'. split; [reflexivity|]. split; [exact DONE|].
    eapply (timeouts_loop_err (s_tq s') s1 x jx); eauto.
  - (* the job table never forgets *)
    destruct (timeouts_tab_le (s_tq s') s1) as [T _]. specialize (T x). change (s_jobs s1) with (s_jobs s') in T.
    rewrite E', Ej' in T. destruct T.
Qed.

(* Non-vacuity (the shape of seeded regression C18-2): deadlines 10 and 5 in insertion order, restart, sweep at t = 6:
   the younger job with the earlier deadline is timed out, the older one is not. *)
Lemma timeout_example :
  let s := restart (run [Add 0 0 None (Some 10); Add 0 0 None (Some 5)] init) in
  let s2 := fst (step s (Tick 6)) in
  map (fun j => (j_serial j, j_done j, j_err j)) (s_jobs s2) = [(2, true, EStr 1); (1, false, ENone)] \/
  map (fun j => (j_serial j, j_done j, j_err j)) (s_jobs s2) = [(1, false, ENone); (2, true, EStr 1)].
Proof. vm_compute. auto. Qed.

(* ------------------------------------------------------------------ in every reachable state, with restarts *)

(* TQ: the timeout heap is sorted and holds, for every unfinished job, an entry with the job's deadline *)
Definition TQC (s : state) : Prop :=
  forall x j, getjob (s_jobs s) x = Some j -> j_done j = false -> In (j_timeout j, (j_prio j, x)) (s_tq s).
Definition TQ (s : state) : Prop := tsorted (s_tq s) /\ TQC s.

(* evolution of the job table as far as TQC is concerned: an unfinished job was there before, unfinished, with the
   same deadline and priority *)
Definition tmo_le (js js' : list job) : Prop :=
  forall x j', getjob js' x = Some j' -> j_done j' = false ->
  exists j, getjob js x = Some j /\ j_done j = false /\ j_timeout j = j_timeout j' /\ j_prio j = j_prio j'.

Lemma tmo_le_refl : forall js, tmo_le js js.
Proof. intros js x j E D. exists j. auto. Qed.

Lemma tmo_le_trans : forall a b c, tmo_le a b -> tmo_le b c -> tmo_le a c.
Proof.
  intros a b c H1 H2 x j E D. destruct (H2 x j E D) as (j1&E1&D1&T1&P1). destruct (H1 x j1 E1 D1) as (j0&E0&D0&T0&P0).
  exists j0. repeat split; congruence.
Qed.

Lemma tqc_mono : forall s s', TQC s -> tmo_le (s_jobs s) (s_jobs s') -> (forall e, In e (s_tq s) -> In e (s_tq s')) -> TQC s'.
Proof.
  intros s s' C T Sub x j' E D. destruct (T x j' E D) as (j&E0&D0&T0&P0). rewrite <- T0, <- P0. apply Sub. apply C; assumption.
Qed.

Lemma tq_same : forall s s', s_jobs s' = s_jobs s -> s_tq s' = s_tq s -> TQ s -> TQ s'.
Proof. intros s s' J Q [S C]. split; [rewrite Q; exact S|]. intros x j E D. rewrite Q. rewrite J in E. apply C; assumption. Qed.

Lemma setjob_tmo_le : forall js ser f,
  (forall j, j_serial (f j) = j_serial j /\ (j_done (f j) = false -> j_done j = false) /\ j_timeout (f j) = j_timeout j /\ j_prio (f j) = j_prio j) ->
  tmo_le js (setjob ser f js).
Proof.
  intros js ser f Hf x j' E D. rewrite getjob_setjob in E by (intros j0 H0; rewrite (proj1 (Hf j0)); exact H0).
  destruct (x =? ser) eqn:Ex.
  - apply N.eqb_eq in Ex. subst x. destruct (getjob js ser) as [j|] eqn:Ej; cbn in E; [|discriminate].
    inversion E; subst j'. destruct (Hf j) as (_&H1&H2&H3). exists j. repeat split; auto.
  - exists j'. auto.
Qed.

Lemma mark_tmo_le : forall x u s, tmo_le (s_jobs s) (s_jobs (mark_finished x u s)).
Proof.
  intros x u s. unfold mark_finished. destruct (getjob (s_jobs s) x) as [j|] eqn:E; [|apply tmo_le_refl].
  destruct (j_done j) eqn:D; [apply tmo_le_refl|]. sf. intros y j' E' D'.
  rewrite getjob_setjob in E' by (intros; cbn; eapply getjob_serial; eauto).
  destruct (y =? x) eqn:Ey.
  - rewrite E in E'. cbn in E'. inversion E'; subst j'. discriminate D'.
  - exists j'. auto.
Qed.

Lemma pushjob_tq : forall x s, TQ s -> TQ (pushjob x s).
Proof.
  intros x s [S C]. unfold pushjob. destruct (getjob (s_jobs s) x) as [j|]; [|split; assumption]. cbv zeta. sf.
  assert (TQ (set_tq (tins (j_timeout j, (j_prio j, x)) (s_tq s)) (set_ids (id_set (s_ids s) (j_id j) x) s))) as H.
  { split; sf; [apply tsorted_tins; exact S|]. intros y jy E D. sf. apply tins_In. right. apply C; assumption. }
  destruct (filter (watches (j_chan j)) (s_waiters s)); sf; (eapply tq_same; [| |exact H]; reflexivity).
Qed.

Lemma deliver_tq_eq : forall c chs x s, s_tq (fst (deliver c chs x s)) = s_tq s.
Proof. intros. unfold deliver. destruct (getjob (s_jobs s) x); reflexivity. Qed.

Lemma pop_tq_eq : forall c chs s, s_tq (fst (pop_or_block c chs s)) = s_tq s.
Proof.
  intros. unfold pop_or_block. cbv zeta. destruct (heads _ _) as [x|]; [|reflexivity].
  destruct (getjob _ _); [|reflexivity]. rewrite deliver_tq_eq. reflexivity.
Qed.

Lemma shutdown_tq : forall l s, TQ s -> TQ (shutdown_loop l s).
Proof.
  induction l as [|[i w] r IH]; intros s K; cbn [shutdown_loop]; [exact K|].
  destruct (is_done (s_jobs s) w); [apply IH; exact K|]. apply IH. apply pushjob_tq. eapply tq_same; [| |exact K]; reflexivity.
Qed.

Lemma die_tq : forall c s, TQ s -> TQ (fst (die c s)).
Proof. intros c s K. unfold die. cbv zeta. cbn [fst]. apply shutdown_tq. eapply tq_same; [| |exact K]; reflexivity. Qed.

Lemma run_event_tq : forall e s, TQ s -> TQ (fst (run_event e s)).
Proof.
  intros e s K. destruct e as [c|c|ser]; cbn [run_event].
  - destruct (c_st (get_conn (s_conns s) c)) as [|chs [x|]|w|]; try exact K.
    destruct (is_done (s_jobs s) x); (eapply tq_same; [| |exact K]); [apply pop_jobs|apply pop_tq_eq|apply deliver_jobs|apply deliver_tq_eq].
  - destruct (c_st (get_conn (s_conns s) c)) as [|chs mb|w|]; try exact K; try (apply die_tq; exact K).
    apply die_tq. destruct mb as [x|]; [|eapply tq_same; [| |exact K]; reflexivity].
    sf. destruct (is_done (s_jobs s) x); [eapply tq_same; [| |exact K]; reflexivity|].
    apply pushjob_tq. eapply tq_same; [| |exact K]; reflexivity.
  - destruct (release ser (s_jobs s) (s_conns s)) as [cs o]. destruct (getjob (s_jobs s) ser) as [j|]; [|eapply tq_same; [| |exact K]; reflexivity].
    destruct (j_drop j && has_waiter ser (s_conns s) && id_is (s_ids s) (j_id j) ser); (eapply tq_same; [| |exact K]; reflexivity).
Qed.

Lemma run_events_tq : forall es s, TQ s -> TQ (fst (run_events es s)).
Proof.
  induction es as [|e r IH]; intros s K; cbn [run_events]; [exact K|].
  pose proof (run_event_tq e s K) as K1. destruct (run_event e s) as [s1 o1]. cbn [fst] in K1.
  specialize (IH s1 K1). destruct (run_events r s1) as [s2 o2]. exact IH.
Qed.

Lemma mark_tq : forall x u s, TQ s -> TQ (mark_finished x u s).
Proof.
  intros x u s [S C]. destruct (mark_fields x u s) as (_&_&_&_&_&_&Hq). split; [rewrite Hq; exact S|].
  eapply tqc_mono; [exact C|apply mark_tmo_le|]. intros e H. rewrite Hq. exact H.
Qed.

Lemma killjobs_tq : forall js s, TQ s -> TQ (killjobs js s).
Proof.
  induction js as [|i r IH]; intros s K; cbn [killjobs]; [exact K|].
  destruct (id_lookup (s_ids s) i); apply IH; [apply mark_tq|]; exact K.
Qed.

(* an entry the sweep removes belongs to a job that is finished afterwards *)
Lemma timeouts_loop_keeps : forall q s e, In e q ->
  In e (s_tq (timeouts_loop q s)) \/ is_done (s_jobs (timeouts_loop q s)) (snd (snd e)) = true.
Proof.
  induction q as [|y r IH]; intros s e Hin; [destruct Hin|]. cbn [timeouts_loop].
  destruct (is_done (s_jobs s) (snd (snd y))) eqn:Dy.
  - destruct Hin as [H|H]; [subst y; right; apply timeouts_done_mono; exact Dy|apply IH; exact H].
  - destruct (s_now s <? fst y); [left; sf; exact Hin|].
    destruct Hin as [H|H]; [subst y; right; apply timeouts_done_mono; apply mark_done|apply IH; exact H].
Qed.

Lemma tsorted_suffix : forall q s, tsorted q -> tsorted (s_tq (timeouts_loop q s)).
Proof.
  induction q as [|y r IH]; intros s S; cbn [timeouts_loop]; [sf; constructor|].
  inversion S as [|? ? Sr _]; subst.
  destruct (is_done (s_jobs s) (snd (snd y))); [apply IH; exact Sr|].
  destruct (s_now s <? fst y); [sf; exact S|apply IH; exact Sr].
Qed.

Lemma timeouts_tmo_le : forall q s, tmo_le (s_jobs s) (s_jobs (timeouts_loop q s)).
Proof.
  induction q as [|y r IH]; intro s; cbn [timeouts_loop]; [apply tmo_le_refl|].
  destruct (is_done (s_jobs s) (snd (snd y))); [apply IH|].
  destruct (s_now s <? fst y); [apply tmo_le_refl|]. eapply tmo_le_trans; [apply mark_tmo_le|apply IH].
Qed.

Lemma timeouts_tq : forall s, TQ s -> TQ (timeouts_loop (s_tq s) s).
Proof.
  intros s [S C]. split; [apply tsorted_suffix; exact S|].
  intros x j' E D. destruct (timeouts_tmo_le (s_tq s) s x j' E D) as (j&E0&D0&T0&P0).
  pose proof (C x j E0 D0) as Hin. rewrite T0, P0 in Hin.
  destruct (timeouts_loop_keeps (s_tq s) s _ Hin) as [H|H]; [exact H|].
  cbn [snd] in H. unfold is_done in H. rewrite E in H. congruence.
Qed.

Lemma dropjobs_tq : forall js s, TQ s -> TQ (dropjobs js s).
Proof.
  induction js as [|i r IH]; intros s K; cbn [dropjobs]; [exact K|].
  destruct (id_lookup (s_ids s) i) as [ser|]; [|apply IH; exact K]. apply IH. destruct K as [S C]. split; [exact S|].
  eapply tqc_mono; [exact C| |intros e H; exact H]. sf. apply setjob_tmo_le. intro j. cbn. auto.
Qed.

Lemma dropdead_tq : forall l s, TQ s -> TQ (dropdead_loop l s).
Proof.
  induction l as [|i r IH]; intros s K; cbn [dropdead_loop]; [exact K|].
  destruct (id_lookup (s_ids s) i) as [ser|]; [|apply IH; exact K].
  destruct (getjob (s_jobs s) ser) as [j|]; [|apply IH; exact K]. cbv zeta. apply IH.
  set (s1 := if match j_dl j with Some d => negb (d =? 0) && (d <? s_now s) | None => false end
             then set_ids (id_del (s_ids s) i) s else s).
  assert (K1 : TQ s1) by (unfold s1; destruct (match j_dl j with Some d => negb (d =? 0) && (d <? s_now s) | None => false end);
                          [eapply tq_same; [| |exact K]; reflexivity|exact K]).
  destruct (j_done j && negb (dl_truthy (j_dl j))); [|exact K1].
  destruct K1 as [S C]. split; [exact S|]. eapply tqc_mono; [exact C| |intros e H; exact H]. sf. apply setjob_tmo_le. intro j0. cbn. auto.
Qed.

Lemma step_tq : forall s o, Inv s [] [] -> TQ s -> TQ (fst (step s o)).
Proof.
  intros s o I K.
  destruct o as [ch prio name tmo|c chs| |c i res e|c js|dt|c|k|c i|i|i v| |dt|js|]; cbn [step].
  - assert (F : forall j0, j_serial j0 = s_count s + 1 ->
                TQ (pushjob (s_count s + 1) (set_jobs (j0 :: s_jobs s) (set_count (s_count s + 1) s)))).
    { intros j0 Hs. destruct K as [S C].
      assert (FRESH : getjob (s_jobs s) (s_count s + 1) = None).
      { destruct (getjob (s_jobs s) (s_count s + 1)) as [j|] eqn:E; [|reflexivity]. pose proof (inv_tab _ _ _ I _ _ E). lia. }
      unfold pushjob. sf. cbn [getjob]. rewrite Hs, N.eqb_refl. cbv zeta. sf.
      assert (H : TQ (set_tq (tins (j_timeout j0, (j_prio j0, s_count s + 1)) (s_tq s))
                     (set_ids (id_set (s_ids s) (j_id j0) (s_count s + 1)) (set_jobs (j0 :: s_jobs s) (set_count (s_count s + 1) s))))).
      { split; sf; [apply tsorted_tins; exact S|]. intros y jy E D. sf. apply tins_In. cbn [getjob] in E. rewrite Hs in E.
        destruct (s_count s + 1 =? y) eqn:Ey.
        - apply N.eqb_eq in Ey. subst y. inversion E; subst jy. left; reflexivity.
        - right. apply C; assumption. }
      destruct (filter (watches (j_chan j0)) (s_waiters s)); sf; (eapply tq_same; [| |exact H]; reflexivity). }
    unfold push. destruct name as [n|]; [|apply F; reflexivity].
    destruct (id_lookup (s_ids s) (JName n)) as [ser|]; [|apply F; reflexivity].
    destruct (getjob (s_jobs s) ser) as [j0|]; [|apply F; reflexivity].
    destruct (err_is_killed (j_err j0)); [apply F; reflexivity|exact K].
  - destruct (is_idle c s); [|exact K]. eapply tq_same; [apply pop_jobs|apply pop_tq_eq|exact K].
  - apply run_events_tq. eapply tq_same; [| |exact K]; reflexivity.
  - destruct (is_idle c s); [|exact K]. destruct (id_lookup (s_ids s) i); [|exact K]. cbn [fst].
    eapply tq_same; [| |apply mark_tq; exact K]; reflexivity.
  - destruct (is_idle c s); [|exact K]. cbn [fst]. eapply tq_same; [| |apply killjobs_tq; exact K]; reflexivity.
  - cbn [fst]. unfold handletimeouts, preenall. eapply tq_same; [| |apply (timeouts_tq (set_now (s_now s + dt) s))]; try reflexivity.
    eapply tq_same; [| |exact K]; reflexivity.
  - destruct (c_st (get_conn (s_conns s) c)); cbn [fst]; try exact K; (eapply tq_same; [| |exact K]; reflexivity).
  - cbn [fst]. eapply tq_same; [| |exact K]; reflexivity.
  - destruct (is_idle c s); [|exact K]. destruct (id_lookup (s_ids s) i) as [ser|]; [|exact K].
    destruct (getjob (s_jobs s) ser) as [j|]; [|exact K].
    destruct (j_done j); [destruct (j_drop j && id_is (s_ids s) (j_id j) ser)|]; cbn [fst];
      try exact K; (eapply tq_same; [| |exact K]; reflexivity).
  - exact K.
  - destruct (id_lookup (s_ids s) i) as [ser|]; [|exact K]. cbn [fst]. destruct K as [S C]. split; [exact S|].
    eapply tqc_mono; [exact C| |intros e0 H; exact H]. sf. apply setjob_tmo_le. intro j. cbn. auto.
  - exact K.
  - cbn [fst]. eapply tq_same; [| |exact K]; reflexivity.
  - cbn [fst]. apply dropjobs_tq. exact K.
  - cbn [fst]. unfold dropdead. apply dropdead_tq. exact K.
Qed.

Lemma restart_tq : forall s, RGood s -> TQ (restart s).
Proof.
  intros s ((A&_&I)&_&K). split; [apply restart_ts|]. intros x j E D.
  (* every job of the restarted table is a saved one *)
  destruct (restore_state (s_now s) (save s)) as (_&H2&_). unfold restart in E. rewrite H2 in E.
  pose proof (getjob_In _ _ _ E) as Hin. rewrite <- (getjob_serial _ _ _ E).
  unfold restart, restore. apply restore_loop_queued; assumption.
Qed.

Lemma tq_init : TQ init.
Proof. split; [constructor|intros x j H; discriminate H]. Qed.

Lemma rrun_tq : forall h s, RGood s -> TQ s -> RGood (rrun h s) /\ TQ (rrun h s).
Proof.
  induction h as [|r h IH]; intros s G K; [split; assumption|]. change (rrun (r :: h) s) with (rrun h (rstep s r)).
  apply IH; [apply rstep_rgood; exact G|]. destruct r as [o|]; cbn [rstep]; [apply step_tq; [apply G|exact K]|apply restart_tq; exact G].
Qed.

(* In every state reachable with the full alphabet and restarts: a handletimeouts sweep (Tick) whose clock reading is
   at or past the deadline of an unfinished job finishes it with error "timeout". *)
Lemma sweep_times_out : forall h x j dt,
  let s := rrun h init in
  getjob (s_jobs s) x = Some j -> j_done j = false -> j_timeout j <= s_now s + dt ->
  exists j', getjob (s_jobs (fst (step s (Tick dt)))) x = Some j' /\ j_done j' = true /\ j_err j' = e_timeout.
Proof.
  intros h x j dt s E D Hd. destruct (rrun_tq h init rgood_init tq_init) as [_ [S C]]. fold s in S, C.
  pose proof (C x j E D) as Htq.
  cbn [step fst]. unfold handletimeouts, preenall. sf.
  set (s1 := set_now (s_now s + dt) s).
  pose proof (timeouts_loop_spec (s_tq s) s1 S _ _ _ Htq) as DONE. unfold s1 at 1 in DONE. sf. specialize (DONE Hd).
  change (s_tq s1) with (s_tq s). unfold is_done in DONE.
  destruct (getjob (s_jobs (timeouts_loop (s_tq s) s1)) x) as [j'|] eqn:Ej'.
  - exists j'. split; [reflexivity|]. split; [exact DONE|]. eapply (timeouts_loop_err (s_tq s) s1 x j); eauto.
  - destruct (timeouts_tab_le (s_tq s) s1) as [T _]. specialize (T x). change (s_jobs s1) with (s_jobs s) in T.
    rewrite E, Ej' in T. destruct T.
Qed.
