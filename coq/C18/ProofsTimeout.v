(* C18 — "unfinished jobs are ... still subject to their timeout": __setstate__ rebuilds the timeout heap from the
   unfinished jobs (jobs.py:89-98); the first handletimeouts sweep at or after a restored job's deadline finishes it
   with error "timeout" (unless it was finished before).  The timeout heap is modelled by its sorted view (Model.v
   s_tq, kept sorted by tins); handletimeouts (jobs.py:139-151) pops while the head's deadline has passed. *)
From Coq Require Import List NArith Bool Lia Arith Sorted.
From MW Require Import C16.Model C16.Proofs C17.Proofs C17.ProofsOrder C18.Proofs C18.ProofsIds C18.ProofsInv.
Import ListNotations.
Open Scope N_scope.

Definition tkey_le (a b : tkey) : Prop := tkey_lt b a = false.

Ltac tkey_cases :=
  unfold tkey_le, tkey_lt, key_lt in *; cbn [fst snd] in *;
  repeat match goal with
         | H : context [?x <? ?y] |- _ => destruct (N.ltb_spec x y)
         | H : context [?x =? ?y] |- _ => destruct (N.eqb_spec x y)
         | |- context [?x <? ?y] => destruct (N.ltb_spec x y)
         | |- context [?x =? ?y] => destruct (N.eqb_spec x y)
         end; cbn in *; try discriminate; try reflexivity; try lia.

Lemma tkey_le_trans : forall a b c, tkey_le a b -> tkey_le b c -> tkey_le a c.
Proof. intros [a1 [a2 a3]] [b1 [b2 b3]] [c1 [c2 c3]] H1 H2. tkey_cases. Qed.

Lemma tkey_lt_le : forall a b, tkey_lt a b = true -> tkey_le a b.
Proof. intros [a1 [a2 a3]] [b1 [b2 b3]] H. tkey_cases. Qed.

Lemma tkey_le_fst : forall a b, tkey_le a b -> fst a <= fst b.
Proof. intros [a1 [a2 a3]] [b1 [b2 b3]] H. tkey_cases. Qed.

Definition tsorted (q : list tkey) : Prop := StronglySorted tkey_le q.

Lemma tsorted_tins : forall x q, tsorted q -> tsorted (tins x q).
Proof.
  intros x q. induction q as [|y r IH]; intro H; cbn [tins].
  - constructor; constructor.
  - inversion H as [|? ? Hr HF]; subst. destruct (tkey_lt x y) eqn:E.
    + constructor; [exact H|]. constructor; [apply tkey_lt_le; exact E|].
      eapply Forall_impl; [|exact HF]. intros z Hz. eapply tkey_le_trans; [apply tkey_lt_le; exact E|exact Hz].
    + constructor; [apply IH; exact Hr|]. apply Forall_forall. intros z Hz. apply tins_In in Hz.
      destruct Hz as [Hz|Hz]; [subst; exact E|]. rewrite Forall_forall in HF. apply HF. exact Hz.
Qed.

(* ------------------------------------------------------------------ the sweep *)

Lemma timeouts_tab_le : forall q s, tab_le (s_jobs s) (s_jobs (timeouts_loop q s)) /\ s_now (timeouts_loop q s) = s_now s.
Proof.
  induction q as [|x r IH]; intro s; cbn [timeouts_loop]; [split; [apply tab_le_refl|reflexivity]|].
  destruct (is_done (s_jobs s) (snd (snd x))); [apply IH|].
  destruct (s_now s <? fst x); [split; [apply tab_le_refl|reflexivity]|].
  destruct (IH (mark_finished (snd (snd x)) (upd_err e_timeout) s)) as [T Hn].
  destruct (mark_fields (snd (snd x)) (upd_err e_timeout) s) as (_&_&_&_&_&Hnow&_).
  split; [eapply tab_le_trans; [apply mark_tab_le|exact T]|congruence].
Qed.

Lemma timeouts_done_mono : forall q s x, is_done (s_jobs s) x = true -> is_done (s_jobs (timeouts_loop q s)) x = true.
Proof. intros q s x. apply tab_le_done. apply timeouts_tab_le. Qed.

(* every heap entry whose deadline has passed belongs to a finished job after the sweep *)
Lemma timeouts_loop_spec : forall q s, tsorted q ->
  forall d p x, In (d, (p, x)) q -> d <= s_now s -> is_done (s_jobs (timeouts_loop q s)) x = true.
Proof.
  induction q as [|e r IH]; intros s TS d p x Hin Hd; [destruct Hin|]. cbn [timeouts_loop].
  inversion TS as [|? ? TSr HF]; subst. rewrite Forall_forall in HF.
  destruct (is_done (s_jobs s) (snd (snd e))) eqn:De.
  - destruct Hin as [He|Hr]; [subst e; cbn [snd] in De; apply timeouts_done_mono; exact De|eapply IH; eauto].
  - destruct (s_now s <? fst e) eqn:Enow.
    + apply N.ltb_lt in Enow. exfalso. destruct Hin as [He|Hr].
      * subst e. cbn [fst] in Enow. lia.
      * pose proof (tkey_le_fst _ _ (HF _ Hr)) as H. cbn [fst] in H. lia.
    + destruct (mark_fields (snd (snd e)) (upd_err e_timeout) s) as (_&_&_&_&_&Hnow&_).
      destruct Hin as [He|Hr].
      * subst e. cbn [snd]. apply timeouts_done_mono. apply mark_done.
      * eapply IH; eauto. rewrite Hnow. exact Hd.
Qed.

(* a job that the sweep finds unfinished and leaves finished has error "timeout" *)
Lemma timeouts_loop_err : forall q s x j, getjob (s_jobs s) x = Some j -> j_done j = false ->
  forall j', getjob (s_jobs (timeouts_loop q s)) x = Some j' -> j_done j' = true -> j_err j' = e_timeout.
Proof.
  induction q as [|e r IH]; intros s x j E D j' E' D'; cbn [timeouts_loop] in E'.
  - sf. congruence.
  - destruct (is_done (s_jobs s) (snd (snd e))) eqn:De; [exact (IH s x j E D j' E' D')|].
    destruct (s_now s <? fst e); [sf; congruence|].
    set (y := snd (snd e)) in *. set (s1 := mark_finished y (upd_err e_timeout) s) in *.
    destruct (N.eq_dec y x) as [Ey|Ey].
    + (* this very job is timed out now; later marks leave a finished job alone *)
      subst y. assert (E1 : exists j1, getjob (s_jobs s1) x = Some j1 /\ j_done j1 = true /\ j_err j1 = e_timeout).
      { unfold s1, mark_finished. rewrite Ey, E, D. sf.
        rewrite getjob_setjob by (intros; cbn; eapply getjob_serial; eauto). rewrite N.eqb_refl, E. cbn.
        eexists; split; [reflexivity|]. split; reflexivity. }
      destruct E1 as (j1&E1&D1&R1).
      destruct (timeouts_fin_le r s1 x j1 E1 D1) as (j2&E2&_&R2&_). fold s1 in E'. rewrite E' in E2. inversion E2; subst j2. congruence.
    + (* another job is timed out: x is untouched *)
      assert (E1 : getjob (s_jobs s1) x = Some j).
      { unfold s1, mark_finished. destruct (getjob (s_jobs s) y) as [jy|] eqn:Ejy; [|exact E].
        destruct (j_done jy); [exact E|]. sf.
        rewrite getjob_setjob by (intros; cbn; eapply getjob_serial; eauto).
        destruct (x =? y) eqn:Exy; [apply N.eqb_eq in Exy; congruence|exact E]. }
      exact (IH s1 x j E1 D j' E' D').
Qed.

(* ------------------------------------------------------------------ the restored heap is sorted *)

Lemma restore_loop_ts : forall l s, tsorted (s_tq s) -> tsorted (s_tq (restore_loop l s)).
Proof.
  induction l as [|j r IH]; intros s TS; cbn [restore_loop]; [exact TS|].
  destruct (j_done j); [apply IH; exact TS|]. cbv zeta. apply IH. sf. apply tsorted_tins. exact TS.
Qed.

Lemma restart_ts : forall s, tsorted (s_tq (restart s)).
Proof. intro s. unfold restart, restore. apply restore_loop_ts. constructor. Qed.

(* C18 "still subject to their timeout": job jx was registered and unfinished in s (s reachable with the full alphabet
   and earlier restarts); the server restarts; the first handletimeouts sweep whose clock reading is at or past the
   job's ORIGINAL absolute deadline (j_timeout, kept verbatim) leaves it finished with error "timeout". *)
Lemma restart_still_subject_to_timeout : forall s i x jx dt, RGood s ->
  id_lookup (s_ids s) i = Some x -> getjob (s_jobs s) x = Some jx -> j_done jx = false ->
  let s' := restart s in
  j_timeout jx <= s_now s' + dt ->
  exists j', getjob (s_jobs (fst (step s' (Tick dt)))) x = Some j' /\ j_done j' = true /\ j_err j' = e_timeout.
Proof.
  intros s i x jx dt G El E D s' Hd.
  destruct (restart_preserves s i x jx El E) as (_&_&_&_&_&HQ). destruct (HQ D) as [_ Htq]. fold s' in Htq.
  rewrite (getjob_serial _ _ _ E) in Htq.
  pose proof (restart_job_table s i x jx G El E) as E'. fold s' in E'.
  cbn [step fst]. unfold handletimeouts, preenall. sf.
  set (s1 := set_now (s_now s' + dt) s').
  pose proof (timeouts_loop_spec (s_tq s') s1 (restart_ts s) _ _ _ Htq) as DONE. unfold s1 at 1 in DONE. sf. specialize (DONE Hd).
  change (s_tq s1) with (s_tq s') . unfold is_done in DONE.
  destruct (getjob (s_jobs (timeouts_loop (s_tq s') s1)) x) as [j'|] eqn:Ej'.
  - exists j'. split; [reflexivity|]. split; [exact DONE|].
    eapply (timeouts_loop_err (s_tq s') s1 x jx); eauto.
  - (* the job table never forgets *)
    destruct (timeouts_tab_le (s_tq s') s1) as [T _]. specialize (T x). change (s_jobs s1) with (s_jobs s') in T.
    rewrite E', Ej' in T. destruct T.
Qed.

(* Non-vacuity (the shape of seeded regression C18-2): deadlines 10 and 5 in insertion order, restart, sweep at t = 6:
   the younger job with the earlier deadline is timed out, the older one is not. *)
Lemma timeout_example :
  let s := restart (run [Add 0 0 None (Some 10); Add 0 0 None (Some 5)] init) in
  let s2 := fst (step s (Tick 6)) in
  map (fun j => (j_serial j, j_done j, j_err j)) (s_jobs s2) = [(2, true, EStr 1); (1, false, ENone)] \/
  map (fun j => (j_serial j, j_done j, j_err j)) (s_jobs s2) = [(1, false, ENone); (2, true, EStr 1)].
Proof. vm_compute. auto. Qed.
