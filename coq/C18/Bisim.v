(* C18 — restart bisimulation, top level.

   restart s      = restore (save s): what a restarted server holds.
   requeue_all s  = the reference: every wake-up still queued in the hub is lost, every connection is dropped (so that
                    every job a worker held goes back to its queue), nobody is waiting.

   PROVED (no assumptions): `restart_bisim` below, for every state reachable with the full alphabet and restarts.
   Structure: `Sim dead a b` (BisimStep.v) is preserved by every op that does not mention a dropped connection, with
   observably equal outputs (sim_step, sim_outs); `sim_init` (BisimSimInit.v) establishes it between restart s and
   requeue_all s; the single-state invariants it needs (RGood, TQ, TE = BisimTE.v, XI = BisimXI.v) hold in every
   reachable state. *)
From Coq Require Import List NArith Bool Lia Arith Sorted.
From MW Require Import C16.Model C16.Proofs C17.Proofs C17.ProofsOrder C17.ProofsCount C17.ProofsLive C18.Proofs C18.ProofsIds
  C18.ProofsInv C18.ProofsTimeout C18.BisimBase C18.BisimPrim C18.BisimEvents C18.BisimTimeout C18.BisimTE C18.BisimStep
  C18.BisimInit C18.BisimXI C18.BisimShape C18.BisimRequeue C18.BisimSimInit.
Import ListNotations.
Open Scope N_scope.

Theorem restart_bisim_from_sim : forall s h2,
  Sim (s_conns (requeue_all s)) (restart s) (requeue_all s) ->
  Forall (fresh_op (map c_id (s_conns (requeue_all s)))) h2 ->
  Forall2 obs_eq (outs h2 (restart s)) (outs h2 (requeue_all s)).
Proof. intros s h2 S F. eapply sim_outs; eauto. Qed.

(* the relation is closed under whole continuations *)
Lemma sim_run : forall h2 dead a b, Sim dead a b -> Forall (fresh_op (map c_id dead)) h2 -> Sim dead (run h2 a) (run h2 b).
Proof.
  induction h2 as [|o r IH]; intros dead a b S F; [exact S|].
  inversion F as [|? ? Fo Fr]; subst. change (Sim dead (run r (fst (step a o))) (run r (fst (step b o)))).
  apply IH; [|exact Fr]. apply (sim_step dead a b o S Fo).
Qed.

(* the single-state invariants `Sim` asks for hold in every reachable state (restarts included) *)
Lemma reachable_sim_invariants : forall h, let s := rrun h init in RGood s /\ TQ s /\ TE s.
Proof.
  intros h s. destruct (rrun_tq h init rgood_init tq_init) as [G T]. split; [exact G|]. split; [exact T|].
  apply rrun_te; [apply rgood_init|apply te_init].
Qed.

(* non-vacuity of `Sim`: the initial state is related to itself, with no dropped connection *)
Example sim_init_state : Sim [] init init.
Proof.
  split; [|split; [apply rgood_init|split; [apply rgood_init|split; [apply tq_init|split; [apply tq_init|split; apply te_init]]]]].
  split; [|split; apply qs_init]. constructor; try reflexivity; try (intros; tauto); try (intros ? []);
    try constructor; try (intros x j H; discriminate H); try (intros c [[]|[]]).
Qed.

(* C18_restart_bisim: continuations after restore(save s) behave like continuations after "every callback still queued
   in the hub is lost, all connections are dropped, nobody is waiting", for ops that do not re-use a dropped
   connection id; outputs compared by obs_eq (Stats: count, numjobs and per-channel busy numbers only). *)
Theorem restart_bisim_state : forall s h2, RGood s -> TQ s -> TE s -> XI s ->
  Forall (fresh_op (map c_id (s_conns s))) h2 ->
  Forall2 obs_eq (outs h2 (restart s)) (outs h2 (requeue_all s)).
Proof.
  intros s h2 G T E X F. apply restart_bisim_from_sim; [apply sim_init; assumption|].
  rewrite (sh_cids _ _ (requeue_shape s G X)). exact F.
Qed.

Theorem restart_bisim : forall h h2, let s := rrun h init in
  Forall (fresh_op (map c_id (s_conns s))) h2 ->
  Forall2 obs_eq (outs h2 (restart s)) (outs h2 (requeue_all s)).
Proof.
  intros h h2 s F. destruct (reachable_sim_invariants h) as (G&T&E). fold s in G, T, E.
  apply restart_bisim_state; try assumption. apply rrun_xi. apply xi_init.
Qed.

(* non-vacuity: a state with a worker holding job 1, a blocked puller with job 2 in its mailbox (wake-up still in the
   hub), a client waiting for job 1, job 3 queued; the continuation pulls with fresh connections *)
Definition bisim_h : list rop :=
  [Op (Add 0 1 None None); Op (StartPull 1 [0]); Op (StartPull 2 [0]); Op (Add 0 0 None None);
   Op (Wait 3 (JAuto 1)); Op (Add 1 5 None None)].
Definition bisim_h2 : list op :=
  [StartPull 10 []; StartPull 11 []; StartPull 12 []; StartPull 13 []; Stats; Tick 200; RunLoop; Stats].
Definition delivered (o : out) : option (N * N) := match o with ODeliver c _ j => Some (c, j_serial j) | _ => None end.

Example restart_bisim_example :
  let s := rrun bisim_h init in
  map (fun c => (c_id c, c_st c, map snd (c_run c))) (s_conns s) = [(1, Idle, [1]); (2, BPull [0] (Some 2), []); (3, BWait 1, [])] /\
  s_hub s = [EvNotify 2] /\
  Forall (fresh_op (map c_id (s_conns s))) bisim_h2 /\
  map delivered (outs bisim_h2 (restart s)) = [Some (10, 2); Some (11, 1); Some (12, 3); None; None; None; None] /\
  map delivered (outs bisim_h2 (requeue_all s)) = [Some (10, 2); Some (11, 1); Some (12, 3); None; None; None; None] /\
  Forall2 obs_eq (outs bisim_h2 (restart s)) (outs bisim_h2 (requeue_all s)).
Proof.
  intro s. split; [vm_compute; reflexivity|]. split; [vm_compute; reflexivity|].
  assert (F : Forall (fresh_op (map c_id (s_conns s))) bisim_h2).
  { unfold bisim_h2. repeat (constructor; [intros c Hc Hd; vm_compute in Hc, Hd; intuition congruence|]). constructor. }
  split; [exact F|]. split; [vm_compute; reflexivity|]. split; [vm_compute; reflexivity|].
  apply (restart_bisim bisim_h bisim_h2). exact F.
Qed.
