(* C18 — restart bisimulation, part 5: soundness of the timeout heap (new invariant TE): every entry of timeoutq
   refers to a job object that exists.  Holds in every state reachable with the full alphabet and restarts. *)
From Coq Require Import List NArith Bool Lia Arith Sorted.
From MW Require Import C16.Model C16.Proofs C17.Proofs C17.ProofsOrder C17.ProofsCount C18.Proofs C18.ProofsIds
  C18.ProofsInv C18.ProofsTimeout.
Import ListNotations.
Open Scope N_scope.

Definition te_ok (js : list job) (e : tkey) : Prop :=
  exists j, getjob js (snd (snd e)) = Some j /\ (j_done j = false -> fst e = j_timeout j /\ fst (snd e) = j_prio j).

Definition TE (s : state) : Prop := forall e, In e (s_tq s) -> te_ok (s_jobs s) e.

Lemma te_same : forall s s', s_jobs s' = s_jobs s -> s_tq s' = s_tq s -> TE s -> TE s'.
Proof. intros s s' J Q K e H. rewrite J. apply K. rewrite <- Q. exact H. Qed.

Lemma te_ok_le : forall js js' e, tab_le js js' -> tmo_le js js' -> te_ok js e -> te_ok js' e.
Proof.
  intros js js' e T M (j&Ej&Hj). destruct (tab_le_some' _ _ _ _ T Ej) as (j'&Ej'&_). exists j'. split; [exact Ej'|].
  intro D. destruct (M _ _ Ej' D) as (j0&E0&D0&T0&P0). rewrite Ej in E0. inversion E0; subst j0.
  destruct (Hj D0) as [H1 H2]. split; congruence.
Qed.

Lemma te_tab_le : forall s s', tab_le (s_jobs s) (s_jobs s') -> tmo_le (s_jobs s) (s_jobs s') -> s_tq s' = s_tq s -> TE s -> TE s'.
Proof. intros s s' T M Q K e H. eapply te_ok_le; [exact T|exact M|]. apply K. rewrite <- Q. exact H. Qed.

Lemma pushjob_te : forall x s, TE s -> TE (pushjob x s).
Proof.
  intros x s K. unfold pushjob. destruct (getjob (s_jobs s) x) as [j|] eqn:E; [|exact K]. cbv zeta. sf.
  assert (H : TE (set_tq (tins (j_timeout j, (j_prio j, x)) (s_tq s)) (set_ids (id_set (s_ids s) (j_id j) x) s))).
  { intros e He. sf. apply tins_In in He. destruct He as [He|He]; [subst e; exists j; cbn [fst snd]; auto|apply K; exact He]. }
  destruct (filter (watches (j_chan j)) (s_waiters s)); sf; (eapply te_same; [| |exact H]; reflexivity).
Qed.

Lemma shutdown_te : forall l s, TE s -> TE (shutdown_loop l s).
Proof.
  induction l as [|[i w] r IH]; intros s K; cbn [shutdown_loop]; [exact K|].
  destruct (is_done (s_jobs s) w); [apply IH; exact K|]. apply IH. apply pushjob_te. eapply te_same; [| |exact K]; reflexivity.
Qed.

Lemma die_te : forall c s, TE s -> TE (fst (die c s)).
Proof. intros c s K. unfold die. cbv zeta. cbn [fst]. apply shutdown_te. eapply te_same; [| |exact K]; reflexivity. Qed.

Lemma run_event_te : forall e s, TE s -> TE (fst (run_event e s)).
Proof.
  intros e s K. destruct e as [c|c|ser]; cbn [run_event].
  - destruct (c_st (get_conn (s_conns s) c)) as [|chs [x|]|w|]; try exact K.
    destruct (is_done (s_jobs s) x); (eapply te_same; [| |exact K]); [apply pop_jobs|apply pop_tq_eq|apply deliver_jobs|apply deliver_tq_eq].
  - destruct (c_st (get_conn (s_conns s) c)) as [|chs mb|w|]; try exact K; try (apply die_te; exact K).
    apply die_te. destruct mb as [x|]; [|eapply te_same; [| |exact K]; reflexivity].
    sf. destruct (is_done (s_jobs s) x); [eapply te_same; [| |exact K]; reflexivity|].
    apply pushjob_te. eapply te_same; [| |exact K]; reflexivity.
  - destruct (release ser (s_jobs s) (s_conns s)) as [cs o]. destruct (getjob (s_jobs s) ser) as [j|]; [|eapply te_same; [| |exact K]; reflexivity].
    destruct (j_drop j && has_waiter ser (s_conns s) && id_is (s_ids s) (j_id j) ser); (eapply te_same; [| |exact K]; reflexivity).
Qed.

Lemma run_events_te : forall es s, TE s -> TE (fst (run_events es s)).
Proof.
  induction es as [|e r IH]; intros s K; cbn [run_events]; [exact K|].
  pose proof (run_event_te e s K) as K1. destruct (run_event e s) as [s1 o1]. cbn [fst] in K1.
  specialize (IH s1 K1). destruct (run_events r s1) as [s2 o2]. exact IH.
Qed.

Lemma mark_te : forall x u s, TE s -> TE (mark_finished x u s).
Proof.
  intros x u s K. destruct (mark_fields x u s) as (_&_&_&_&_&_&Hq). eapply te_tab_le; [apply mark_tab_le|apply mark_tmo_le|exact Hq|exact K].
Qed.

Lemma killjobs_te : forall js s, TE s -> TE (killjobs js s).
Proof.
  induction js as [|i r IH]; intros s K; cbn [killjobs]; [exact K|].
  destruct (id_lookup (s_ids s) i); apply IH; [apply mark_te|]; exact K.
Qed.

Lemma timeouts_tq_sub : forall q s e, In e (s_tq (timeouts_loop q s)) -> In e q.
Proof.
  induction q as [|y r IH]; intros s e H; cbn [timeouts_loop] in H; [exact H|].
  destruct (is_done (s_jobs s) (snd (snd y))); [right; eapply IH; eauto|].
  destruct (s_now s <? fst y); [exact H|right; eapply IH; eauto].
Qed.

Lemma timeouts_te : forall s, TE s -> TE (timeouts_loop (s_tq s) s).
Proof.
  intros s K e H. apply timeouts_tq_sub in H.
  eapply te_ok_le; [apply (proj1 (timeouts_tab_le (s_tq s) s))|apply timeouts_tmo_le|]. apply K. exact H.
Qed.

Lemma dropjobs_te : forall js s, TE s -> TE (dropjobs js s).
Proof.
  induction js as [|i r IH]; intros s K; cbn [dropjobs]; [exact K|].
  destruct (id_lookup (s_ids s) i) as [ser|]; [|apply IH; exact K]. apply IH.
  apply (te_tab_le s); [sf; apply set_drop_tab_le|sf; apply setjob_tmo_le; intro j0; cbn; auto|reflexivity|exact K].
Qed.

Lemma dropdead_te : forall l s, TE s -> TE (dropdead_loop l s).
Proof.
  induction l as [|i r IH]; intros s K; cbn [dropdead_loop]; [exact K|].
  destruct (id_lookup (s_ids s) i) as [ser|]; [|apply IH; exact K].
  destruct (getjob (s_jobs s) ser) as [j|]; [|apply IH; exact K]. cbv zeta. apply IH.
  set (s1 := if match j_dl j with Some d => negb (d =? 0) && (d <? s_now s) | None => false end
             then set_ids (id_del (s_ids s) i) s else s).
  assert (K1 : TE s1) by (unfold s1; destruct (match j_dl j with Some d => negb (d =? 0) && (d <? s_now s) | None => false end);
                          [eapply te_same; [| |exact K]; reflexivity|exact K]).
  destruct (j_done j && negb (dl_truthy (j_dl j))); [|exact K1].
  apply (te_tab_le s1); [sf; apply set_dl_tab_le|sf; apply setjob_tmo_le; intro j0; cbn; auto|reflexivity|exact K1].
Qed.

Lemma step_te : forall s o, Inv s [] [] -> TE s -> TE (fst (step s o)).
Proof.
  intros s o I K.
  destruct o as [ch prio name tmo|c chs| |c i res e|c js|dt|c|k|c i|i|i v| |dt|js|]; cbn [step].
  - assert (F : forall j0, j_serial j0 = s_count s + 1 ->
                TE (pushjob (s_count s + 1) (set_jobs (j0 :: s_jobs s) (set_count (s_count s + 1) s)))).
    { intros j0 Hs. apply pushjob_te. intros e He. sf. destruct (K e He) as (j&Ej&Hj). exists j. split; [|exact Hj].
      apply getjob_cons_old; [exact Ej|]. rewrite Hs. pose proof (inv_tab _ _ _ I _ _ Ej). lia. }
    assert (G : TE (fst (push ch prio name tmo s))).
    { unfold push. destruct name as [n|]; [|apply F; reflexivity].
      destruct (id_lookup (s_ids s) (JName n)) as [ser|]; [|apply F; reflexivity].
      destruct (getjob (s_jobs s) ser) as [j0|]; [|apply F; reflexivity].
      destruct (err_is_killed (j_err j0)); [apply F; reflexivity|exact K]. }
    destruct (push ch prio name tmo s) as [s1 i1]. exact G.
  - destruct (is_idle c s); [|exact K]. eapply te_same; [apply pop_jobs|apply pop_tq_eq|exact K].
  - apply run_events_te. eapply te_same; [| |exact K]; reflexivity.
  - destruct (is_idle c s); [|exact K]. destruct (id_lookup (s_ids s) i); [|exact K]. cbn [fst].
    eapply te_same; [| |apply mark_te; exact K]; reflexivity.
  - destruct (is_idle c s); [|exact K]. cbn [fst]. eapply te_same; [| |apply killjobs_te; exact K]; reflexivity.
  - cbn [fst]. unfold handletimeouts, preenall. eapply te_same; [| |apply (timeouts_te (set_now (s_now s + dt) s))]; try reflexivity.
    eapply te_same; [| |exact K]; reflexivity.
  - destruct (c_st (get_conn (s_conns s) c)); cbn [fst]; try exact K; (eapply te_same; [| |exact K]; reflexivity).
  - cbn [fst]. eapply te_same; [| |exact K]; reflexivity.
  - destruct (is_idle c s); [|exact K]. destruct (id_lookup (s_ids s) i) as [ser|]; [|exact K].
    destruct (getjob (s_jobs s) ser) as [j|]; [|exact K].
    destruct (j_done j); [destruct (j_drop j && id_is (s_ids s) (j_id j) ser)|]; cbn [fst];
      try exact K; (eapply te_same; [| |exact K]; reflexivity).
  - exact K.
  - destruct (id_lookup (s_ids s) i) as [ser|]; [|exact K]. cbn [fst].
    apply (te_tab_le s); [sf; apply setinfo_tab_le|sf; apply setjob_tmo_le; intro j0; cbn; auto|reflexivity|exact K].
  - exact K.
  - cbn [fst]. eapply te_same; [| |exact K]; reflexivity.
  - cbn [fst]. apply dropjobs_te. exact K.
  - cbn [fst]. unfold dropdead. apply dropdead_te. exact K.
Qed.

Lemma restore_loop_tq_In : forall l s e, In e (s_tq (restore_loop l s)) ->
  In e (s_tq s) \/ exists j, In j l /\ e = (j_timeout j, (j_prio j, j_serial j)).
Proof.
  induction l as [|j r IH]; intros s e H; cbn [restore_loop] in H; [left; exact H|].
  destruct (j_done j).
  - apply IH in H. sf. destruct H as [H|(j'&Hj&He)]; [left; exact H|right; exists j'; split; [right; exact Hj|exact He]].
  - apply IH in H. sf. destruct H as [H|(j'&Hj&He)]; [|right; exists j'; split; [right; exact Hj|exact He]].
    apply tins_In in H. destruct H as [H|H]; [|left; exact H]. right. exists j. split; [left; reflexivity|exact H].
Qed.

Lemma getjob_In_some : forall l j, In j l -> getjob l (j_serial j) <> None.
Proof.
  induction l as [|y r IH]; intros j H; [destruct H|]. cbn [getjob].
  destruct (j_serial y =? j_serial j) eqn:E; [discriminate|]. destruct H as [H|H]; [subst; rewrite N.eqb_refl in E; discriminate|apply IH; exact H].
Qed.

Lemma restart_te : forall s, RGood s -> TE (restart s).
Proof.
  intros s ((A&_&I)&_&K) e H. destruct (restore_state (s_now s) (save s)) as (_&H2&_).
  unfold te_ok. unfold restart at 1. rewrite H2.
  unfold restart, restore in H. apply restore_loop_tq_In in H. destruct H as [[]|(j&Hj&He)].
  subst e. cbn [fst snd]. exists j. split; [|auto].
  apply getjob_In_nodup; [|exact Hj]. apply (sv_ser _ _ (save_ok s A I K)).
Qed.

Lemma te_init : TE init.
Proof. intros e []. Qed.

Lemma rrun_te : forall h s, RGood s -> TE s -> TE (rrun h s).
Proof.
  induction h as [|r h IH]; intros s G K; [exact K|]. change (rrun (r :: h) s) with (rrun h (rstep s r)).
  apply IH; [apply rstep_rgood; exact G|].
  destruct r as [o|]; cbn [rstep]; [apply step_te; [apply G|exact K]|apply restart_te; exact G].
Qed.
