(* C12 — the obligations of Proofs.v discharged for CPython's tables (Gen_unicode.v) and for the bundled sites
   (Gen_sites.v) by computation over the finite tables; the generic theorems instantiated. *)
From Coq Require Import List NArith ZArith PArith FMapPositive Bool Lia.
From MW Require Import Common.Str C12.Model C12.ListLemmas C12.Proofs C12.Gen_unicode C12.Gen_sites C12.Inst.
Import ListNotations.
Open Scope N_scope.

Lemma pmap_of_find l p u : PositiveMap.find p (pmap_of l) = Some u -> In (p, u) l.
Proof.
  induction l as [|[k v] l IH]; cbn [pmap_of fold_right fst snd].
  - rewrite PositiveMap.gempty. discriminate.
  - destruct (Pos.eq_dec p k) as [->|Hne].
    + rewrite PositiveMap.gss. intros H. inversion H. left. reflexivity.
    + rewrite PositiveMap.gso by exact Hne. intros H. right. exact (IH H).
Qed.

Lemma table_char_cases l c :
  table_char (pmap_of l) c = [c] \/ exists p u, c = Npos p /\ In (p, u) l /\ table_char (pmap_of l) c = u.
Proof.
  destruct c as [|p]; [left; reflexivity|]. unfold table_char.
  destruct (PositiveMap.find p (pmap_of l)) as [u|] eqn:E; [|left; reflexivity].
  right. exists p, u. split; [reflexivity | split; [apply pmap_of_find; exact E | reflexivity]].
Qed.

Notation pplain := (plain py_is_ws).

(* ---- white space ---- *)
Lemma py_ws_space : py_is_ws c_space = true.
Proof. vm_compute. reflexivity. Qed.
Lemma py_ws_colon : py_is_ws c_colon = false.
Proof. vm_compute. reflexivity. Qed.
Lemma py_ws_sigmas : py_is_ws c_fsigma = false /\ py_is_ws c_sigma = false.
Proof. vm_compute. split; reflexivity. Qed.
Lemma py_ws_Sigma : py_is_ws c_Sigma = false.
Proof. vm_compute. reflexivity. Qed.

(* ---- upper: images of plain characters are non-empty, plain, and contain ':' only for ':' ---- *)
Definition upper_entry_ok (e : positive * str) : bool :=
  let c := Npos (fst e) in
  negb (pplain c) ||
  (match snd e with [] => false | _ => true end &&
   forallb (fun x => pplain x && (negb (N.eqb x c_colon) || N.eqb c c_colon)) (snd e)).

Lemma gen_upper_ok : forallb upper_entry_ok gen_upper = true.
Proof. vm_compute. reflexivity. Qed.

Lemma py_upper_plain : forall c, pplain c = true ->
  py_upper_char c <> [] /\ Forall (fun x => pplain x = true /\ (x = c_colon -> c = c_colon)) (py_upper_char c).
Proof.
  intros c Hc. unfold py_upper_char, upper_map. destruct (table_char_cases gen_upper c) as [E|[p [u [-> [Hin E]]]]]; rewrite E.
  - split; [discriminate|]. constructor; [|constructor]. split; [exact Hc | tauto].
  - pose proof gen_upper_ok as H. rewrite forallb_forall in H. specialize (H _ Hin). unfold upper_entry_ok in H. cbn [fst snd] in H.
    rewrite Hc in H. cbn [negb orb] in H. apply andb_true_iff in H as [H1 H2]. split; [destruct u; [discriminate H1 | discriminate]|].
    apply Forall_forall. intros x Hx. rewrite forallb_forall in H2. specialize (H2 x Hx). apply andb_true_iff in H2 as [A B].
    split; [exact A|]. intros ->. rewrite N.eqb_refl in B. destruct (N.eqb_spec (Npos p) c_colon) as [e|ne]; [exact e | cbn in B; discriminate B].
Qed.

(* ---- upper: the first character of an image is a fixed point ---- *)
Definition upper_head_ok (e : positive * str) : bool :=
  match snd e with
  | [] => false
  | h :: _ => str_eqb (py_upper_char h) [h]
  end.

Lemma gen_upper_head_ok : forallb upper_head_ok gen_upper = true.
Proof. vm_compute. reflexivity. Qed.

Lemma py_upper_head_fixed : forall c h r, py_upper_char c = h :: r -> py_upper_char h = [h].
Proof.
  intros c h r. unfold py_upper_char at 1, upper_map. destruct (table_char_cases gen_upper c) as [E|[p [u [-> [Hin E]]]]]; rewrite E.
  - intros H. inversion H; subst. exact E.
  - intros ->. pose proof gen_upper_head_ok as H. rewrite forallb_forall in H. specialize (H _ Hin). unfold upper_head_ok in H.
    cbn [snd] in H. apply str_eqb_spec in H. exact H.
Qed.

(* ---- lower ---- *)
Definition lower_entry_ok (e : positive * str) : bool :=
  negb (py_is_ws (Npos (fst e))) &&
  match snd e with [] => false | h :: _ => negb (py_is_ws h) end.

Lemma gen_lower_ok : forallb lower_entry_ok gen_lower = true.
Proof. vm_compute. reflexivity. Qed.

Lemma py_lower_head_nonws : forall c, py_is_ws c = false ->
  match py_lower_char c with h :: _ => py_is_ws h = false | [] => False end.
Proof.
  intros c Hc. unfold py_lower_char, lower_map. destruct (table_char_cases gen_lower c) as [E|[p [u [-> [Hin E]]]]]; rewrite E.
  - exact Hc.
  - pose proof gen_lower_ok as H. rewrite forallb_forall in H. specialize (H _ Hin). unfold lower_entry_ok in H. cbn [fst snd] in H.
    apply andb_true_iff in H as [_ H]. destruct u; [discriminate|]. apply negb_true_iff in H. exact H.
Qed.

Lemma py_lower_ws_id : forall c, py_is_ws c = true -> py_lower_char c = [c].
Proof.
  intros c Hc. unfold py_lower_char, lower_map. destruct (table_char_cases gen_lower c) as [E|[p [u [-> [Hin E]]]]]; rewrite E.
  - reflexivity.
  - pose proof gen_lower_ok as H. rewrite forallb_forall in H. specialize (H _ Hin). unfold lower_entry_ok in H. cbn [fst snd] in H.
    apply andb_true_iff in H as [H _]. rewrite Hc in H. discriminate.
Qed.

(* ---- the sites ---- *)
Notation psite_ok := (site_ok py_is_ws py_upper_char py_lower_char py_cased py_ignorable).
Notation psite_names_ok := (site_names_ok py_is_ws py_upper_char py_lower_char py_cased py_ignorable).

Lemma all_sites_ok : forallb (fun p => psite_ok (snd p) && psite_names_ok (snd p)) all_sites = true.
Proof. vm_compute. reflexivity. Qed.

Lemma site_in_ok nm st : In (nm, st) all_sites -> psite_ok st = true /\ psite_names_ok st = true.
Proof.
  intros H. pose proof all_sites_ok as A. rewrite forallb_forall in A. specialize (A _ H). cbn [snd] in A.
  apply andb_true_iff in A. exact A.
Qed.

Lemma twelve_sites : length all_sites = 12%nat.
Proof. vm_compute. reflexivity. Qed.

(* ---- the generic theorems, instantiated ---- *)
Ltac discharge := first [exact py_ws_space | exact py_ws_colon | exact py_ws_sigmas | exact py_upper_plain | exact py_upper_head_fixed
                        | exact py_lower_head_nonws | exact py_lower_ws_id | exact py_ws_Sigma | eassumption].
Notation pcap := (maybe_capitalize py_upper_char).

Lemma py_shape nm st t dns k P F : In (nm, st) all_sites -> py_splitname st t dns = Ok (k, P, F) ->
  exists L, star_of st k = Some L /\ F = prefix_of L ++ P /\ pcap (s_capitalize st) P = P /\
            (k = dns \/ k = 0%Z \/ L <> []).
Proof.
  intros Hin H. destruct (site_in_ok _ _ Hin) as [Hs _].
  unfold py_splitname in *. eapply (splitname_shape py_is_ws py_upper_char py_lower_char py_cased py_ignorable); try discharge.
Qed.

Lemma py_idempotent nm st t dns k P F : In (nm, st) all_sites -> py_splitname st t dns = Ok (k, P, F) ->
  py_splitname st F k = Ok (k, P, F) /\
  (star_of st k <> Some [] -> forall dns', py_splitname st F dns' = Ok (k, P, F)).
Proof.
  intros Hin H. destruct (site_in_ok _ _ Hin) as [Hs _].
  unfold py_splitname in *. eapply (splitname_idempotent py_is_ws py_upper_char py_lower_char py_cased py_ignorable); try discharge.
Qed.

Notation ptidy := (tidy py_is_ws).
Notation pcv := (cv py_upper_char py_lower_char).
Notation pedge' := (edge' py_is_ws).
Notation pws' := (ws' py_is_ws).
Notation pnames_of := names_of.

Lemma py_cv_tidy nm st k n s : In (nm, st) all_sites -> In n (names_of st k) -> n <> [] -> pcv s n -> ptidy s.
Proof.
  intros Hin Hn Hne Hcv. destruct (site_in_ok _ _ Hin) as [_ Hs].
  pose proof (names_of_ok py_is_ws py_upper_char py_lower_char py_cased py_ignorable st k n Hs Hn) as Hok.
  assert (HL : exists L, star_of st k = Some L).
  { unfold name_ok in Hok. destruct n; [congruence|]. apply andb_true_iff in Hok as [Hok _]. apply andb_true_iff in Hok as [_ Hok].
    destruct (star_of st k) as [L|]; [exists L; reflexivity | discriminate]. }
  destruct HL as [L HL].
  exact (proj1 (lookup_variant py_is_ws py_upper_char py_lower_char py_cased py_ignorable py_ws_space py_ws_colon py_upper_plain
                  py_lower_ws_id py_ws_Sigma st k L n s [] 0%Z Hok Hne HL Hcv (Forall_nil _))).
Qed.

Lemma py_spelling nm st k L n s NS' W p P' E1 C E3 E4 dns :
  In (nm, st) all_sites -> In n (names_of st k) -> n <> [] -> star_of st k = Some L ->
  pcv s n -> expands s NS' ->
  Forall pws' W -> Forall pedge' E1 -> Forall pedge' (match C with Some E2 => E2 | None => [] end) -> Forall pedge' E3 -> Forall pedge' E4 ->
  ptidy p -> expands p P' ->
  py_splitname st (E1 ++ lead C ++ NS' ++ W ++ c_colon :: E3 ++ P' ++ E4) dns
  = Ok (k, pcap (s_capitalize st) p, prefix_of L ++ pcap (s_capitalize st) p).
Proof.
  intros Hin Hn Hne HL Hcv Hex HW H1 HC H3 H4 Hp Hexp. destruct (site_in_ok _ _ Hin) as [_ Hs].
  pose proof (py_cv_tidy nm st k n s Hin Hn Hne Hcv) as [_ [Hsq _]].
  unfold py_splitname in *. eapply (splitname_spelling py_is_ws py_upper_char py_lower_char py_cased py_ignorable); try discharge.
  - apply expands_squeeze; assumption.
  - apply expands_squeeze; [assumption | apply Hp].
Qed.

Lemma py_spelling_plain nm st p P' E1 C E4 dns d Ld :
  In (nm, st) all_sites ->
  Forall pedge' E1 -> Forall pedge' (match C with Some E2 => E2 | None => [] end) -> Forall pedge' E4 ->
  ptidy p -> ~ In c_colon p -> expands p P' ->
  d = (match C with Some _ => 0%Z | None => dns end) -> star_of st d = Some Ld ->
  py_splitname st (E1 ++ lead C ++ P' ++ E4) dns
  = Ok (d, pcap (s_capitalize st) p, prefix_of Ld ++ pcap (s_capitalize st) p).
Proof.
  intros Hin H1 HC H4 Hp Hnc Hexp Hd HLd.
  unfold py_splitname in *. eapply (splitname_spelling_plain py_is_ws py_upper_char py_lower_char py_cased py_ignorable); try discharge.
  apply expands_squeeze; [assumption | apply Hp].
Qed.

Notation pnot_a_name := (not_a_name py_is_ws py_lower_char py_cased py_ignorable).

Lemma py_spelling_foreign nm st p P' E1 C E4 dns d Ld a b :
  In (nm, st) all_sites ->
  Forall pedge' E1 -> Forall pedge' (match C with Some E2 => E2 | None => [] end) -> Forall pedge' E4 ->
  ptidy p -> head_not_colon p -> expands p P' ->
  d = (match C with Some _ => 0%Z | None => dns end) -> star_of st d = Some Ld ->
  split1 c_colon (pcap (s_capitalize st) p) = Some (a, b) -> pnot_a_name st a ->
  py_splitname st (E1 ++ lead C ++ P' ++ E4) dns
  = Ok (d, pcap (s_capitalize st) p, prefix_of Ld ++ pcap (s_capitalize st) p).
Proof.
  intros Hin H1 HC H4 Hp Hh Hexp Hd HLd Hs Hn.
  unfold py_splitname in *. eapply (splitname_spelling_foreign py_is_ws py_upper_char py_lower_char py_cased py_ignorable); try discharge.
  apply expands_squeeze; [assumption | apply Hp].
Qed.

(* "Portal" is a namespace of en.wikipedia.org (100) and of no namespace table of simple.wikipedia.org — although both
   report sitename "Wikipedia", lang "en" *)
Lemma portal_en_simple :
  exists en simple, In ([101; 110], en) all_sites /\ In ([115; 105; 109; 112; 108; 101], simple) all_sites /\
  py_splitname en [112; 111; 114; 116; 97; 108; 58; 120] 0%Z = Ok (100%Z, [88], [80; 111; 114; 116; 97; 108; 58; 88]) /\
  py_splitname simple [112; 111; 114; 116; 97; 108; 58; 120] 0%Z = Ok (0%Z, [80; 111; 114; 116; 97; 108; 58; 120], [80; 111; 114; 116; 97; 108; 58; 120]) /\
  pnot_a_name simple [80; 111; 114; 116; 97; 108].
Proof.
  destruct (site_by_name [101; 110]) as [en|] eqn:E1; [|vm_compute in E1; discriminate E1].
  destruct (site_by_name [115; 105; 109; 112; 108; 101]) as [si|] eqn:E2; [|vm_compute in E2; discriminate E2].
  exists en, si. unfold site_by_name in E1, E2.
  destruct (find (fun p => str_eqb (fst p) [101; 110]) all_sites) as [[n1 s1]|] eqn:F1; [|discriminate E1].
  destruct (find (fun p => str_eqb (fst p) [115; 105; 109; 112; 108; 101]) all_sites) as [[n2 s2]|] eqn:F2; [|discriminate E2].
  cbn [snd] in E1, E2. inversion E1; inversion E2; subst s1 s2.
  pose proof (find_some _ _ F1) as [I1 N1]. pose proof (find_some _ _ F2) as [I2 N2].
  cbn [fst] in N1, N2. apply str_eqb_spec in N1, N2. subst n1 n2.
  split; [exact I1|]. split; [exact I2|].
  vm_compute in F1. vm_compute in F2. inversion F1; inversion F2; subst.
  split; [vm_compute; reflexivity|]. split; [vm_compute; reflexivity|]. split; vm_compute; reflexivity.
Qed.
