(* C12 — executable model of NsHandler.splitname / _find_namespace / maybe_capitalize / get_fqname
   (src/mwlib/core/nshandling.py), generic in the Unicode tables and in the site description.
   Strings are lists of code points.  No proofs here. *)
From Coq Require Import List NArith ZArith Bool.
From MW Require Import Common.Str.
Import ListNotations.
Open Scope N_scope.

Definition c_space : N := 32.
Definition c_colon : N := 58.
Definition c_underscore : N := 95.
Definition c_lrm : N := 8206.   (* U+200E *)
Definition c_rlm : N := 8207.   (* U+200F *)
Definition c_Sigma : N := 931.  (* U+03A3 *)
Definition c_fsigma : N := 962. (* U+03C2 final sigma *)
Definition c_sigma : N := 963.  (* U+03C3 *)

(* ---- site description, as NsHandler reads it from siteinfo ------------------------------ *)
Record ns_entry := { ns_id : Z; ns_star : str; ns_canon : option str }.
Record site := {
  s_namespaces : list ns_entry;      (* siteinfo["namespaces"].values() in dict order; key = str(id) *)
  s_aliases : list (Z * str);        (* siteinfo.get("namespacealiases", []) : (id, "*") *)
  s_capitalize : bool                (* siteinfo['general'].get('case') == 'first-letter' *)
}.

(* result of a call: Python's KeyError on siteinfo["namespaces"][str(n)] is an explicit value *)
Inductive result (A : Type) := Ok (a : A) | KeyError.
Arguments Ok {A} a.
Arguments KeyError {A}.

(* ---- string primitives re-stated ---------------------------------------------------------- *)
(* title.replace("_", " ") *)
Definition repl_us (s : str) : str := map (fun c => if N.eqb c c_underscore then c_space else c) s.

Fixpoint lstrip (p : N -> bool) (s : str) : str :=
  match s with
  | [] => []
  | c :: r => if p c then lstrip p r else s
  end.
Definition rstrip (p : N -> bool) (s : str) : str := rev (lstrip p (rev s)).
Definition strip (p : N -> bool) (s : str) : str := rstrip p (lstrip p s).

(* re.sub(r' +', ' ', s): every maximal run of U+0020 becomes one U+0020 *)
Fixpoint squeeze (s : str) : str :=
  match s with
  | [] => []
  | c :: r =>
      if N.eqb c c_space && match r with d :: _ => N.eqb d c_space | [] => false end
      then squeeze r else c :: squeeze r
  end.

(* name.split(c, 1) when c occurs in name: (text before the first c, text after it) *)
Fixpoint split1 (c : N) (s : str) : option (str * str) :=
  match s with
  | [] => None
  | x :: r => if N.eqb x c then Some ([], r)
              else match split1 c r with
                   | Some (a, b) => Some (x :: a, b)
                   | None => None
                   end
  end.

Section Generic.
  (* Unicode behaviour of the running CPython; instantiated in Inst.v from Gen_unicode.v *)
  Variable is_ws : N -> bool.              (* `\s` of re  =  str.isspace  =  what str.strip() strips *)
  Variable upper_char : N -> str.          (* chr(c).upper() *)
  Variable lower_char : N -> str.          (* chr(c).lower() of an isolated character *)
  Variable cased : N -> bool.              (* Cased and not Case_Ignorable *)
  Variable ignorable : N -> bool.          (* Case_Ignorable *)

  (* _edge_rex = "^[\s\u200e\u200f]+|[\s\u200e\u200f]+$"; _strip_edges = sub("", txt)   nshandling.py:68-73 *)
  Definition is_edge (c : N) : bool := is_ws c || N.eqb c c_lrm || N.eqb c c_rlm.
  Definition strip_edges (s : str) : str := strip is_edge s.
  (* str.strip() without argument *)
  Definition py_strip (s : str) : str := strip is_ws s.

  (* str.lower(): CPython unicodeobject.c do_lower/lower_ucs4/final_sigma.  Every character is mapped on its
     own except U+03A3, which becomes U+03C2 when preceded by a cased character and not followed by one
     (case-ignorable characters skipped on both sides), U+03C3 otherwise. *)
  Fixpoint ctx_cased (s : str) : bool :=
    match s with
    | [] => false
    | c :: r => if ignorable c then ctx_cased r else cased c
    end.
  Fixpoint lower_go (before_rev : str) (s : str) : str :=
    match s with
    | [] => []
    | c :: r =>
        (if N.eqb c c_Sigma
         then (if ctx_cased before_rev && negb (ctx_cased r) then [c_fsigma] else [c_sigma])
         else lower_char c) ++ lower_go (c :: before_rev) r
    end.
  Definition lower (s : str) : str := lower_go [] s.

  (* NsHandler.maybe_capitalize: tag[0:1].upper() + tag[1:]   nshandling.py:129-132 *)
  Definition maybe_capitalize (cap : bool) (tag : str) : str :=
    if cap then match tag with [] => [] | c :: r => upper_char c ++ r end else tag.

  (* siteinfo["namespaces"][str(n)]["*"] *)
  Definition star_of (st : site) (n : Z) : option str :=
    match find (fun e => Z.eqb (ns_id e) n) (s_namespaces st) with
    | Some e => Some (ns_star e)
    | None => None
    end.

  Definition canon_or_empty (e : ns_entry) : str := match ns_canon e with Some c => c | None => [] end.

  (* NsHandler._find_namespace   nshandling.py:110-124 ; returns (was_namespace, nsnum, prefix) *)
  Definition find_namespace (st : site) (name : str) (defaultns : Z) : result (bool * Z * str) :=
    let key := py_strip (lower name) in
    match find (fun e => str_eqb (lower (ns_star e)) key || str_eqb (lower (canon_or_empty e)) key)
               (s_namespaces st) with
    | Some e => Ok (true, ns_id e, ns_star e)
    | None =>
        match find (fun a => str_eqb (lower (snd a)) key) (s_aliases st) with
        | Some a => match star_of st (fst a) with
                    | Some s => Ok (true, fst a, s)
                    | None => KeyError
                    end
        | None => match star_of st defaultns with
                  | Some s => Ok (false, defaultns, s)
                  | None => KeyError
                  end
        end
    end.

  (* while name.startswith(":"): name = _strip_edges(name[1:]); defaultns = 0      nshandling.py:138-140
     every iteration shortens name, so fuel = S (length name) is never exhausted (Proofs.v: drop_colons_fuel) *)
  Fixpoint drop_colons (fuel : nat) (name : str) (defaultns : Z) : str * Z :=
    match fuel with
    | O => (name, defaultns)
    | S f => match name with
             | c :: r => if N.eqb c c_colon then drop_colons f (strip_edges r) 0%Z else (name, defaultns)
             | [] => (name, defaultns)
             end
    end.

  (* the tail of splitname: capitalise the page part, glue "prefix:"        nshandling.py:152-156 *)
  Definition finish (cap : bool) (nsnum : Z) (prefix suffix : str) : result (Z * str * str) :=
    let suffix' := maybe_capitalize cap suffix in
    Ok (nsnum, suffix', (match prefix with [] => [] | _ => prefix ++ [c_colon] end) ++ suffix').

  (* NsHandler.splitname   nshandling.py:134-156 *)
  Definition splitname (st : site) (title : str) (defaultns : Z) : result (Z * str * str) :=
    let name0 := squeeze (strip_edges (repl_us title)) in
    let '(name1, dns) := drop_colons (S (length name0)) name0 defaultns in
    let name := maybe_capitalize (s_capitalize st) name1 in
    match split1 c_colon name with
    | Some (nspart, partial) =>
        match find_namespace st nspart dns with
        | KeyError => KeyError
        | Ok (was, nsnum, prefix) =>
            finish (s_capitalize st) nsnum prefix (if (was : bool) then strip_edges partial else name)
        end
    | None =>
        match star_of st dns with
        | None => KeyError
        | Some prefix => finish (s_capitalize st) dns prefix name
        end
    end.

  (* NsHandler.get_fqname *)
  Definition get_fqname (st : site) (title : str) (defaultns : Z) : result str :=
    match splitname st title defaultns with
    | Ok (_, _, full) => Ok full
    | KeyError => KeyError
    end.
End Generic.
