(* C12 — generic proofs: shape and idempotence of splitname, for any Unicode tables and any site that satisfy
   the (boolean, finitely checkable) obligations below.  ProofsInst.v discharges them for CPython's tables and
   the 12 bundled sites by vm_compute. *)
From Coq Require Import List NArith ZArith Bool Lia.
From MW Require Import Common.Str C12.Model C12.ListLemmas.
Import ListNotations.
Open Scope N_scope.

Section Proofs.
  Variable is_ws : N -> bool.
  Variable upper_char lower_char : N -> str.
  Variable cased ignorable : N -> bool.

  Notation is_edge := (is_edge is_ws).
  Notation strip_edges := (strip_edges is_ws).
  Notation py_strip := (py_strip is_ws).
  Notation lower := (lower lower_char cased ignorable).
  Notation lower_go := (lower_go lower_char cased ignorable).
  Notation maybe_capitalize := (maybe_capitalize upper_char).
  Notation find_namespace := (find_namespace is_ws lower_char cased ignorable).
  Notation splitname := (splitname is_ws upper_char lower_char cased ignorable).
  Notation drop_colons := (drop_colons is_ws).
  Notation finish := (finish upper_char).

  (* a character that is neither stripped at an edge nor an underscore *)
  Definition plain (c : N) : bool := negb (is_edge c) && negb (N.eqb c c_underscore).

  (* ---- obligations on the Unicode tables (each a finite check over the generated tables) ---- *)
  Hypothesis ws_space : is_ws c_space = true.
  Hypothesis ws_colon : is_ws c_colon = false.
  Hypothesis ws_sigmas : is_ws c_fsigma = false /\ is_ws c_sigma = false.
  Hypothesis upper_plain : forall c, plain c = true ->
    upper_char c <> [] /\ Forall (fun x => plain x = true /\ (x = c_colon -> c = c_colon)) (upper_char c).
  Hypothesis upper_head_fixed : forall c h r, upper_char c = h :: r -> upper_char h = [h].
  Hypothesis lower_head_nonws : forall c, is_ws c = false ->
    match lower_char c with h :: _ => is_ws h = false | [] => False end.

  (* ---- tidy strings: what the first line of splitname produces ---- *)
  Definition no_us (s : str) : Prop := Forall (fun c => c <> c_underscore) s.
  Definition tidy (s : str) : Prop := no_us s /\ sq s = true /\ ends_ok is_edge s.

  Definition ends_okb (s : str) : bool :=
    match s with [] => true | h :: _ => negb (is_edge h) end && match rev s with [] => true | l :: _ => negb (is_edge l) end.
  Definition tidyb (s : str) : bool := forallb (fun c => negb (N.eqb c c_underscore)) s && sq s && ends_okb s.

  Lemma ends_okb_spec s : ends_okb s = true -> ends_ok is_edge s.
  Proof.
    unfold ends_okb, ends_ok. intros H. apply andb_true_iff in H as [H1 H2]. split.
    - destruct s; [exact I|]. apply negb_true_iff in H1. exact H1.
    - destruct (rev s); [exact I|]. apply negb_true_iff in H2. exact H2.
  Qed.

  Lemma tidyb_spec s : tidyb s = true -> tidy s.
  Proof.
    unfold tidyb. intros H. apply andb_true_iff in H as [H H3]. apply andb_true_iff in H as [H1 H2].
    split; [|split; [exact H2 | apply ends_okb_spec; exact H3]].
    apply Forall_forall. intros c Hc. rewrite forallb_forall in H1. specialize (H1 c Hc).
    apply negb_true_iff in H1. apply N.eqb_neq in H1. exact H1.
  Qed.

  Lemma no_us_notin s : no_us s -> ~ In c_underscore s.
  Proof. intros H X. unfold no_us in H. rewrite Forall_forall in H. exact (H _ X eq_refl). Qed.

  Lemma edge_space : is_edge c_space = true.
  Proof. unfold Model.is_edge. rewrite ws_space. reflexivity. Qed.

  Lemma edge_colon : is_edge c_colon = false.
  Proof. unfold Model.is_edge. rewrite ws_colon. reflexivity. Qed.

  Lemma tidy_pre s : tidy s -> squeeze (strip_edges (repl_us s)) = s.
  Proof.
    intros [H1 [H2 H3]]. rewrite repl_us_id by (apply no_us_notin; exact H1).
    unfold Model.strip_edges. rewrite strip_id by exact H3. apply sq_squeeze. exact H2.
  Qed.

  Lemma no_us_app a b : no_us (a ++ b) <-> no_us a /\ no_us b.
  Proof. unfold no_us. apply Forall_app. Qed.

  Lemma strip_decomp p s : exists e1 e2, s = e1 ++ strip p s ++ e2.
  Proof.
    unfold strip. destruct (lstrip_suffix p s) as [e1 [H1 _]]. destruct (rstrip_prefix p (lstrip p s)) as [e2 [H2 _]].
    exists e1, e2. rewrite <- H2. exact H1.
  Qed.

  Lemma tidy_sub_strip a s : no_us (a ++ s) -> sq (a ++ s) = true -> tidy (strip_edges s).
  Proof.
    intros H1 H2. destruct (strip_decomp is_edge s) as [e1 [e2 E]]. fold (strip_edges s) in E.
    apply no_us_app in H1 as [_ H1]. apply sq_app_inv in H2 as [_ H2].
    rewrite E in H1, H2. apply no_us_app in H1 as [_ H1]. apply no_us_app in H1 as [H1 _].
    apply sq_app_inv in H2 as [_ H2]. apply sq_app_inv in H2 as [H2 _].
    split; [exact H1 | split; [exact H2 | apply strip_ends_ok]].
  Qed.

  Lemma strip_length p s : (length (strip p s) <= length s)%nat.
  Proof. destruct (strip_decomp p s) as [e1 [e2 E]]. rewrite E at 2. rewrite !app_length. lia. Qed.

  Definition head_not_colon (s : str) : Prop := match s with c :: _ => c <> c_colon | [] => True end.

  Lemma drop_colons_spec fuel : forall name d, (length name < fuel)%nat -> tidy name ->
    tidy (fst (drop_colons fuel name d)) /\ head_not_colon (fst (drop_colons fuel name d)) /\
    (snd (drop_colons fuel name d) = d \/ snd (drop_colons fuel name d) = 0%Z).
  Proof.
    induction fuel as [|f IH]; intros name d Hl Ht; [lia|].
    cbn [Model.drop_colons]. destruct name as [|c r]; [cbn; auto|].
    destruct (N.eqb_spec c c_colon) as [->|Hne].
    - assert (Ht' : tidy (strip_edges r)).
      { destruct Ht as [H1 [H2 _]]. apply (tidy_sub_strip [c_colon]); assumption. }
      assert (Hl' : (length (strip_edges r) < f)%nat).
      { pose proof (strip_length is_edge r). unfold Model.strip_edges. cbn in Hl. lia. }
      destruct (IH (strip_edges r) 0%Z Hl' Ht') as [A [B C]]. split; [exact A | split; [exact B|]].
      right. destruct C as [C|C]; exact C.
    - cbn. auto.
  Qed.

  Lemma drop_colons_id fuel name d : head_not_colon name -> drop_colons (S fuel) name d = (name, d).
  Proof.
    intros H. cbn [Model.drop_colons]. destruct name as [|c r]; [reflexivity|].
    cbn in H. apply N.eqb_neq in H. rewrite H. reflexivity.
  Qed.

  (* ---- capitalisation ---- *)
  Definition capfix (cap : bool) (s : str) : Prop := maybe_capitalize cap s = s.

  Lemma plain_not_space c : plain c = true -> c <> c_space.
  Proof.
    unfold plain. intros H Hc. subst c. rewrite edge_space in H. cbn in H. discriminate.
  Qed.

  Lemma plain_not_edge c : plain c = true -> is_edge c = false.
  Proof. unfold plain. intros H. apply andb_true_iff in H as [H _]. apply negb_true_iff in H. exact H. Qed.

  Lemma plain_not_us c : plain c = true -> c <> c_underscore.
  Proof. unfold plain. intros H. apply andb_true_iff in H as [_ H]. apply negb_true_iff in H. apply N.eqb_neq in H. exact H. Qed.

  Lemma sq_no_space s : Forall (fun c => c <> c_space) s -> sq s = true.
  Proof.
    induction 1 as [|c r Hc _ IH]; [reflexivity|]. cbn [sq]. rewrite IH.
    apply N.eqb_neq in Hc. rewrite Hc. reflexivity.
  Qed.

  Lemma last32_no_space s : Forall (fun c => c <> c_space) s -> last32 s = false.
  Proof.
    intros H. unfold last32. apply Forall_rev_iff in H. destruct (rev s) as [|l r]; [reflexivity|].
    inversion H; subst. apply N.eqb_neq. assumption.
  Qed.

  Lemma tidy_head_plain c r : tidy (c :: r) -> plain c = true.
  Proof.
    intros [H1 [_ [H3 _]]]. unfold plain. cbn in H3. rewrite H3. inversion H1; subst.
    apply N.eqb_neq in H2. rewrite H2. reflexivity.
  Qed.

  Lemma rev_last_app_ne (a b : str) : b <> [] -> match rev (a ++ b) with [] => True | l :: _ => match rev b with [] => True | l' :: _ => l = l' end end.
  Proof.
    intros Hb. rewrite rev_app_distr. destruct (rev b) eqn:E.
    - apply (f_equal (@rev N)) in E. rewrite rev_involutive in E. cbn in E. congruence.
    - cbn. reflexivity.
  Qed.

  (* capitalising a tidy string keeps it tidy and makes it a fixed point of capitalisation *)
  Lemma cap_tidy cap s : tidy s -> tidy (maybe_capitalize cap s) /\
      (cap = true -> capfix cap (maybe_capitalize cap s)) /\
      (head_not_colon s -> head_not_colon (maybe_capitalize cap s)) /\
      (s = [] <-> maybe_capitalize cap s = []).
  Proof.
    intros Ht. destruct cap; cbn [Model.maybe_capitalize]; [|split; [exact Ht | split; [discriminate | split; [auto | tauto]]]].
    destruct s as [|c r]; [split; [exact Ht | split; [intros _; reflexivity | split; [auto | tauto]]]|].
    pose proof (tidy_head_plain _ _ Ht) as Hp. destruct (upper_plain c Hp) as [Hne Hall].
    destruct (upper_char c) as [|h u] eqn:Eu; [congruence|].
    assert (Hns : Forall (fun x => x <> c_space) (h :: u)).
    { eapply Forall_impl; [|exact Hall]. intros x [Hx _]. apply plain_not_space. exact Hx. }
    destruct Ht as [H1 [H2 [H3 H4]]].
    split; [split; [|split]|split; [|split]].
    - apply no_us_app. split.
      + eapply Forall_impl; [|exact Hall]. intros x [Hx _]. apply plain_not_us. exact Hx.
      + inversion H1; assumption.
    - apply sq_app; [apply sq_no_space; exact Hns| |rewrite last32_no_space by exact Hns; reflexivity].
      change (c :: r) with ([c] ++ r) in H2. apply sq_app_inv in H2 as [_ H2]. exact H2.
    - split.
      + cbn. inversion Hall; subst. apply plain_not_edge. tauto.
      + assert (Hl : last_ok is_edge (h :: u)).
        { apply last_ok_Forall. eapply Forall_impl; [|exact Hall]. intros x [Hx _]. apply plain_not_edge. exact Hx. }
        destruct r as [|d r'].
        * rewrite app_nil_r. exact Hl.
        * apply (last_ok_app is_edge (h :: u) (d :: r')); [discriminate|].
          apply (last_ok_tail is_edge c); [discriminate | exact H4].
    - intros _. unfold capfix. cbn [Model.maybe_capitalize app]. rewrite (upper_head_fixed c h u Eu). reflexivity.
    - intros Hc. cbn in Hc. cbn. inversion Hall; subst. intros X. apply Hc. tauto.
    - split; discriminate.
  Qed.

  (* ---- the normal form of `name` after the preprocessing of splitname ---- *)
  Definition normal (cap : bool) (name : str) : Prop := tidy name /\ head_not_colon name /\ capfix cap name.

  Lemma capfix_false s : capfix false s.
  Proof. reflexivity. Qed.

  Definition core (st : site) (name : str) (dns : Z) : result (Z * str * str) :=
    match split1 c_colon name with
    | Some (nspart, partial) =>
        match find_namespace st nspart dns with
        | KeyError => KeyError
        | Ok (was, nsnum, prefix) =>
            finish (s_capitalize st) nsnum prefix (if (was : bool) then strip_edges partial else name)
        end
    | None =>
        match star_of st dns with
        | None => KeyError
        | Some prefix => finish (s_capitalize st) dns prefix name
        end
    end.

  Definition pre_name (st : site) (t : str) (dns : Z) : str * Z :=
    let name0 := squeeze (strip_edges (repl_us t)) in
    let r := drop_colons (S (length name0)) name0 dns in
    (maybe_capitalize (s_capitalize st) (fst r), snd r).

  Lemma splitname_core st t dns : splitname st t dns = core st (fst (pre_name st t dns)) (snd (pre_name st t dns)).
  Proof.
    unfold Model.splitname, pre_name, core.
    destruct (drop_colons _ _ dns) as [n1 d1]. reflexivity.
  Qed.

  Lemma pre_tidy0 t : tidy (squeeze (strip_edges (repl_us t))).
  Proof.
    split; [|split].
    - apply squeeze_subseq_Forall. destruct (strip_decomp is_edge (repl_us t)) as [e1 [e2 E]].
      assert (H : no_us (repl_us t)).
      { apply Forall_forall. intros c Hc Heq. subst c. exact (repl_us_no_us t Hc). }
      rewrite E in H. apply no_us_app in H as [_ H]. apply no_us_app in H as [H _]. exact H.
    - apply squeeze_sq.
    - apply squeeze_ends_ok. apply strip_ends_ok.
  Qed.

  Lemma pre_normal st t dns : normal (s_capitalize st) (fst (pre_name st t dns)) /\
      (snd (pre_name st t dns) = dns \/ snd (pre_name st t dns) = 0%Z).
  Proof.
    unfold pre_name. cbn [fst snd].
    set (name0 := squeeze (strip_edges (repl_us t))).
    destruct (drop_colons_spec (S (length name0)) name0 dns ltac:(lia) (pre_tidy0 t)) as [A [B C]].
    split; [|exact C].
    destruct (cap_tidy (s_capitalize st) _ A) as [T [F [H _]]].
    split; [exact T | split; [exact (H B)|]].
    destruct (s_capitalize st) eqn:E; [apply F; reflexivity | apply capfix_false].
  Qed.

  Lemma splitname_normal st name dns : normal (s_capitalize st) name -> splitname st name dns = core st name dns.
  Proof.
    intros [Ht [Hc Hf]]. rewrite splitname_core. unfold pre_name. cbn [fst snd].
    rewrite tidy_pre by exact Ht. rewrite drop_colons_id by exact Hc. cbn [fst snd].
    unfold capfix in Hf. rewrite Hf. reflexivity.
  Qed.

  (* ---- site obligations ---- *)
  Definition res_is (r : result (bool * Z * str)) (b : bool) (k : Z) (L : str) : bool :=
    match r with
    | Ok (b', k', L') => Bool.eqb b b' && Z.eqb k k' && str_eqb L L'
    | KeyError => false
    end.

  Lemma res_is_spec r b k L : res_is r b k L = true -> r = Ok (b, k, L).
  Proof.
    destruct r as [[[b' k'] L']|]; cbn; [|discriminate]. intros H.
    apply andb_true_iff in H as [H H3]. apply andb_true_iff in H as [H1 H2].
    apply Bool.eqb_prop in H1. apply Z.eqb_eq in H2. apply str_eqb_spec in H3. congruence.
  Qed.

  Definition no_colonb (s : str) : bool := forallb (fun c => negb (N.eqb c c_colon)) s.

  Lemma no_colonb_spec s : no_colonb s = true -> ~ In c_colon s.
  Proof.
    unfold no_colonb. intros H X. rewrite forallb_forall in H. specialize (H _ X). rewrite N.eqb_refl in H. discriminate.
  Qed.

  Definition entry_ok (st : site) (e : ns_entry) : bool :=
    match ns_star e with
    | [] => match ns_canon e with None => true | Some [] => true | Some _ => false end
    | L => tidyb L && no_colonb L &&
           res_is (find_namespace st (maybe_capitalize (s_capitalize st) L) 0%Z) true (ns_id e) L
    end.

  Definition alias_ok (st : site) (a : Z * str) : bool :=
    match star_of st (fst a) with Some (_ :: _) => true | _ => false end.

  Fixpoint nodupb (l : list Z) : bool :=
    match l with [] => true | x :: r => negb (existsb (Z.eqb x) r) && nodupb r end.

  Definition site_ok (st : site) : bool :=
    nodupb (map ns_id (s_namespaces st)) && forallb (entry_ok st) (s_namespaces st) && forallb (alias_ok st) (s_aliases st).

  Lemma find_in {A} (f : A -> bool) l x : find f l = Some x -> In x l /\ f x = true.
  Proof. apply find_some. Qed.

  Lemma star_of_some st k L : star_of st k = Some L -> exists e, In e (s_namespaces st) /\ ns_id e = k /\ ns_star e = L.
  Proof.
    unfold star_of. destruct (find _ _) as [e|] eqn:E; [|discriminate]. intros H. inversion H; subst.
    apply find_in in E as [E1 E2]. apply Z.eqb_eq in E2. exists e. auto.
  Qed.

  Lemma nodupb_find (l : list ns_entry) e : nodupb (map ns_id l) = true -> In e l ->
    find (fun x => Z.eqb (ns_id x) (ns_id e)) l = Some e.
  Proof.
    induction l as [|x l IH]; intros Hn Hin; [contradiction|].
    cbn in Hn. apply andb_true_iff in Hn as [Hn1 Hn2]. cbn [find].
    destruct Hin as [->|Hin]; [rewrite Z.eqb_refl; reflexivity|].
    destruct (Z.eqb_spec (ns_id x) (ns_id e)) as [Heq|Hne]; [|exact (IH Hn2 Hin)].
    exfalso. apply negb_true_iff in Hn1. assert (X : existsb (Z.eqb (ns_id x)) (map ns_id l) = true).
    { apply existsb_exists. exists (ns_id e). split; [apply in_map; exact Hin | apply Z.eqb_eq; exact Heq]. }
    congruence.
  Qed.

  Lemma star_of_entry st e : site_ok st = true -> In e (s_namespaces st) -> star_of st (ns_id e) = Some (ns_star e).
  Proof.
    unfold site_ok. intros H Hin. apply andb_true_iff in H as [H _]. apply andb_true_iff in H as [H _].
    unfold star_of. rewrite (nodupb_find _ e H Hin). reflexivity.
  Qed.

  Lemma site_entry_ok st e : site_ok st = true -> In e (s_namespaces st) -> entry_ok st e = true.
  Proof.
    unfold site_ok. intros H Hin. apply andb_true_iff in H as [H _]. apply andb_true_iff in H as [_ H].
    rewrite forallb_forall in H. exact (H e Hin).
  Qed.

  Lemma site_alias_ok st a : site_ok st = true -> In a (s_aliases st) -> alias_ok st a = true.
  Proof.
    unfold site_ok. intros H Hin. apply andb_true_iff in H as [_ H]. rewrite forallb_forall in H. exact (H a Hin).
  Qed.

  (* a found namespace does not depend on the default namespace *)
  Lemma find_namespace_found st N d k L : find_namespace st N d = Ok (true, k, L) ->
    forall d', find_namespace st N d' = Ok (true, k, L).
  Proof.
    unfold Model.find_namespace. intros H d'.
    destruct (find _ (s_namespaces st)) as [e|]; [exact H|].
    destruct (find _ (s_aliases st)) as [a|]; [exact H|].
    destruct (star_of st d); [inversion H | discriminate].
  Qed.

  Lemma entry_props st e : site_ok st = true -> In e (s_namespaces st) -> ns_star e <> [] ->
    tidy (ns_star e) /\ ~ In c_colon (ns_star e) /\
    forall d, find_namespace st (maybe_capitalize (s_capitalize st) (ns_star e)) d = Ok (true, ns_id e, ns_star e).
  Proof.
    intros Hs Hin Hne. pose proof (site_entry_ok st e Hs Hin) as H. unfold entry_ok in H.
    destruct (ns_star e) as [|c r] eqn:E; [congruence|].
    apply andb_true_iff in H as [H H3]. apply andb_true_iff in H as [H1 H2].
    split; [apply tidyb_spec; exact H1 | split; [apply no_colonb_spec; exact H2|]].
    intros d. apply res_is_spec in H3. exact (find_namespace_found _ _ _ _ _ H3 d).
  Qed.

  (* ---- lower-casing keeps a non-white-space first character ---- *)
  Lemma lower_head_nonws_str c r : is_ws c = false ->
    match lower (c :: r) with h :: _ => is_ws h = false | [] => False end.
  Proof.
    intros H. unfold Model.lower. cbn [Model.lower_go].
    destruct (N.eqb c c_Sigma).
    - destruct (_ && _); cbn; tauto.
    - pose proof (lower_head_nonws c H) as X. destruct (lower_char c); [contradiction|]. cbn. exact X.
  Qed.

  Lemma strip_nonempty p c r : p c = false -> strip p (c :: r) <> [].
  Proof.
    intros H. unfold strip. rewrite lstrip_stop by exact H.
    change (c :: r) with ([] ++ c :: r). rewrite rstrip_mid by exact H. discriminate.
  Qed.

  Lemma key_nonempty c r : is_ws c = false -> py_strip (lower (c :: r)) <> [].
  Proof.
    intros H. pose proof (lower_head_nonws_str c r H) as X. destruct (lower (c :: r)) as [|h t]; [contradiction|].
    unfold Model.py_strip. apply strip_nonempty. exact X.
  Qed.

  Lemma lower_nil : lower [] = [].
  Proof. reflexivity. Qed.

  (* what a successful namespace lookup returns *)
  Lemma find_namespace_true st c r d k L : site_ok st = true -> is_ws c = false ->
    find_namespace st (c :: r) d = Ok (true, k, L) ->
    L <> [] /\ exists e, In e (s_namespaces st) /\ ns_id e = k /\ ns_star e = L.
  Proof.
    intros Hs Hc. unfold Model.find_namespace.
    pose proof (key_nonempty c r Hc) as Hk. remember (py_strip (lower (c :: r))) as key eqn:Ek. clear Ek.
    destruct (find _ (s_namespaces st)) as [e|] eqn:E1.
    - intros H. injection H as Hk' HL'. subst k L. apply find_in in E1 as [Hin Hm]. split; [|exists e; auto].
      intros Hnil. pose proof (site_entry_ok st e Hs Hin) as Ho. unfold entry_ok in Ho. rewrite Hnil in Ho.
      rewrite Hnil in Hm. unfold canon_or_empty in Hm.
      destruct key as [|k0 key']; [congruence|]. exfalso.
      destruct (ns_canon e) as [[|? ?]|]; try discriminate Ho; rewrite ?lower_nil in Hm; cbn in Hm; discriminate Hm.
    - destruct (find _ (s_aliases st)) as [a|] eqn:E2.
      + apply find_in in E2 as [Hin _]. pose proof (site_alias_ok st a Hs Hin) as Ho. unfold alias_ok in Ho.
        destruct (star_of st (fst a)) as [[|x y]|] eqn:E3; try discriminate.
        intros H. inversion H; subst. split; [discriminate|]. apply star_of_some in E3. exact E3.
      + destruct (star_of st d); [intros H; inversion H | discriminate].
  Qed.

  Lemma find_namespace_false st N d k L : find_namespace st N d = Ok (false, k, L) -> k = d /\ star_of st d = Some L.
  Proof.
    unfold Model.find_namespace.
    destruct (find _ (s_namespaces st)) as [e|]; [intros H; inversion H|].
    destruct (find _ (s_aliases st)) as [a|]; [destruct (star_of st (fst a)); intros H; inversion H|].
    destruct (star_of st d) eqn:E; [|discriminate]. intros H. inversion H; subst. auto.
  Qed.

  Definition prefix_of (L : str) : str := match L with [] => [] | _ => L ++ [c_colon] end.

  (* ---- the result of `core` on a normal name ---- *)
  Lemma core_result st name d k P F : site_ok st = true -> normal (s_capitalize st) name ->
    core st name d = Ok (k, P, F) ->
    (exists e, In e (s_namespaces st) /\ ns_id e = k /\ ns_star e <> [] /\ F = ns_star e ++ c_colon :: P /\
               tidy P /\ capfix (s_capitalize st) P)
    \/ (k = d /\ star_of st d = Some [] /\ P = name /\ F = name).
  Proof.
    intros Hs [Ht [Hc Hf]]. unfold core.
    assert (Dflt : forall L, star_of st d = Some L -> finish (s_capitalize st) d L name = Ok (k, P, F) ->
       (exists e, In e (s_namespaces st) /\ ns_id e = k /\ ns_star e <> [] /\ F = ns_star e ++ c_colon :: P /\
               tidy P /\ capfix (s_capitalize st) P)
       \/ (k = d /\ star_of st d = Some [] /\ P = name /\ F = name)).
    { intros L HL. unfold Model.finish. unfold capfix in Hf. rewrite Hf. intros H. inversion H; subst.
      destruct L as [|x y].
      - right. auto.
      - left. apply star_of_some in HL as [e [H1 [H2 H3]]]. exists e. rewrite H3.
        split; [exact H1 | split; [exact H2 | split; [discriminate | split; [|split; [exact Ht | exact Hf]]]]].
        rewrite <- app_assoc. reflexivity. }
    destruct (split1 c_colon name) as [[N R]|] eqn:Es.
    - apply split1_some in Es as [En Hn]. destruct (find_namespace st N d) as [[[was k'] L]|] eqn:Ef; [|discriminate].
      destruct was.
      + assert (HN : exists c r, N = c :: r /\ is_ws c = false).
        { destruct N as [|c r]; [subst name; cbn in Hc; congruence|]. exists c, r. split; [reflexivity|].
          subst name. destruct Ht as [_ [_ [H _]]]. cbn in H. unfold Model.is_edge in H.
          apply orb_false_iff in H as [H _]. apply orb_false_iff in H as [H _]. exact H. }
        destruct HN as [c [r [-> Hws]]].
        destruct (find_namespace_true st c r d k' L Hs Hws Ef) as [HL [e [H1 [H2 H3]]]].
        unfold Model.finish. intros H. inversion H; subst. left. exists e.
        assert (Tp : tidy (strip_edges R)).
        { destruct Ht as [A [B _]]. apply (tidy_sub_strip ((c :: r) ++ [c_colon])); rewrite <- app_assoc; assumption. }
        destruct (cap_tidy (s_capitalize st) _ Tp) as [T [Fx _]].
        split; [exact H1 | split; [reflexivity | split; [exact HL | split; [|split; [exact T|]]]]].
        * destruct (ns_star e); [congruence|]. rewrite <- app_assoc. reflexivity.
        * destruct (s_capitalize st) eqn:E; [apply Fx; reflexivity | apply capfix_false].
      + apply find_namespace_false in Ef as [-> HL]. intros H. exact (Dflt L HL H).
    - destruct (star_of st d) as [L|] eqn:HL; [|discriminate]. intros H. exact (Dflt L eq_refl H).
  Qed.

  (* ---- re-reading a prefixed canonical name ---- *)
  Lemma no_colon_cap cap L : tidy L -> ~ In c_colon L -> ~ In c_colon (maybe_capitalize cap L).
  Proof.
    intros Ht Hn. destruct cap; [|exact Hn]. destruct L as [|c r]; [exact Hn|]. cbn [Model.maybe_capitalize].
    pose proof (tidy_head_plain _ _ Ht) as Hp. destruct (upper_plain c Hp) as [_ Hall].
    intros X. apply in_app_or in X as [X|X].
    - rewrite Forall_forall in Hall. destruct (Hall _ X) as [_ Y]. apply Hn. left. exact (Y eq_refl).
    - apply Hn. right. exact X.
  Qed.

  Lemma tidy_prefixed L P : tidy L -> L <> [] -> tidy P -> tidy (L ++ c_colon :: P).
  Proof.
    intros [A1 [A2 A3]] Hne [B1 [B2 B3]]. split; [|split].
    - apply no_us_app. split; [exact A1|]. constructor; [discriminate | exact B1].
    - apply sq_app; [exact A2 | cbn [sq]; rewrite B2; reflexivity | cbn; apply andb_false_r].
    - destruct P as [|p0 P'].
      + apply ends_ok_app; [exact Hne | discriminate | exact A3 | split; cbn; apply edge_colon].
      + apply ends_ok_app; [exact Hne | discriminate | exact A3 |].
        apply ends_ok_cons_last; [apply edge_colon | apply (ends_ok_last _ _ B3)].
  Qed.

  Lemma reread_prefixed st e P d : site_ok st = true -> In e (s_namespaces st) -> ns_star e <> [] ->
    tidy P -> capfix (s_capitalize st) P ->
    splitname st (ns_star e ++ c_colon :: P) d = Ok (ns_id e, P, ns_star e ++ c_colon :: P).
  Proof.
    intros Hs Hin Hne Tp Fp. destruct (entry_props st e Hs Hin Hne) as [TL [NL FL]].
    set (L := ns_star e) in *. set (cap := s_capitalize st) in *.
    rewrite splitname_core. unfold pre_name. cbn [fst snd].
    rewrite tidy_pre by (apply tidy_prefixed; assumption).
    assert (Hh : head_not_colon (L ++ c_colon :: P)).
    { destruct L as [|c r]; [congruence|]. cbn. intros X. apply NL. left. exact X. }
    rewrite drop_colons_id by exact Hh. cbn [fst snd]. fold cap.
    assert (Ec : maybe_capitalize cap (L ++ c_colon :: P) = maybe_capitalize cap L ++ c_colon :: P).
    { destruct cap; [|reflexivity]. destruct L; [congruence|]. cbn. rewrite <- app_assoc. reflexivity. }
    rewrite Ec. unfold core. rewrite split1_app by (apply no_colon_cap; assumption).
    fold cap. rewrite FL. unfold Model.finish.
    assert (Es : strip_edges P = P) by (unfold Model.strip_edges; apply strip_id; apply Tp).
    rewrite Es. fold cap. unfold capfix in Fp. rewrite Fp.
    destruct L; [congruence|]. rewrite <- app_assoc. reflexivity.
  Qed.

  (* ================= shape ================= *)
  Theorem splitname_shape st t dns k P F : site_ok st = true -> splitname st t dns = Ok (k, P, F) ->
    exists L, star_of st k = Some L /\ F = prefix_of L ++ P /\ maybe_capitalize (s_capitalize st) P = P /\
              (k = dns \/ k = 0%Z \/ L <> []).
  Proof.
    intros Hs H. rewrite splitname_core in H. destruct (pre_normal st t dns) as [Hn Hd].
    destruct (core_result st _ _ k P F Hs Hn H) as [[e [H1 [H2 [H3 [H4 [H5 H6]]]]]]|[H1 [H2 [H3 H4]]]].
    - exists (ns_star e). split; [rewrite <- H2; apply star_of_entry; assumption|].
      split; [|split; [exact H6 | right; right; exact H3]].
      unfold prefix_of. destruct (ns_star e); [congruence|]. rewrite <- app_assoc. exact H4.
    - exists []. rewrite H1. split; [exact H2 | split; [cbn; congruence | split]].
      + destruct Hn as [_ [_ Hf]]. rewrite H3. exact Hf.
      + destruct Hd as [Hd|Hd]; rewrite Hd; auto.
  Qed.

  (* ================= idempotence ================= *)
  Theorem splitname_idempotent st t dns k P F : site_ok st = true -> splitname st t dns = Ok (k, P, F) ->
    splitname st F k = Ok (k, P, F) /\
    (star_of st k <> Some [] -> forall dns', splitname st F dns' = Ok (k, P, F)).
  Proof.
    intros Hs H. rewrite splitname_core in H. destruct (pre_normal st t dns) as [Hn Hd].
    destruct (core_result st _ _ k P F Hs Hn H) as [[e [H1 [H2 [H3 [H4 [H5 H6]]]]]]|[H1 [H2 [H3 H4]]]].
    - subst k F. split; [|intros _ dns']; apply reread_prefixed; assumption.
    - split.
      + subst k F. rewrite splitname_normal by exact Hn. exact H.
      + intros X. rewrite H1 in X. congruence.
  Qed.

  (* ================= spelling invariance ================= *)
  Hypothesis lower_ws_id : forall c, is_ws c = true -> lower_char c = [c].
  Hypothesis ws_Sigma : is_ws c_Sigma = false.

  Definition lower_flat (s : str) : str := flat_map lower_char s.

  Lemma lower_go_flat s : forall bef, ~ In c_Sigma s -> lower_go bef s = lower_flat s.
  Proof.
    induction s as [|c r IH]; intros bef H; [reflexivity|]. cbn [Model.lower_go lower_flat flat_map].
    destruct (N.eqb_spec c c_Sigma) as [->|_]; [exfalso; apply H; left; reflexivity|].
    rewrite IH by (intros X; apply H; right; exact X). reflexivity.
  Qed.

  Lemma lower_flat_eq s : ~ In c_Sigma s -> lower s = lower_flat s.
  Proof. apply lower_go_flat. Qed.

  Lemma lower_flat_app a b : lower_flat (a ++ b) = lower_flat a ++ lower_flat b.
  Proof. apply flat_map_app. Qed.

  Lemma lower_flat_ws w : Forall (fun c => is_ws c = true) w -> lower_flat w = w.
  Proof.
    induction 1 as [|c r Hc _ IH]; [reflexivity|]. cbn [lower_flat flat_map]. rewrite (lower_ws_id c Hc).
    fold (lower_flat r). rewrite IH. reflexivity.
  Qed.

  (* the lookup part of _find_namespace, on an already lower-cased and stripped key *)
  Definition lookup_key (st : site) (key : str) (defaultns : Z) : result (bool * Z * str) :=
    match find (fun e => str_eqb (lower (ns_star e)) key || str_eqb (lower (canon_or_empty e)) key)
               (s_namespaces st) with
    | Some e => Ok (true, ns_id e, ns_star e)
    | None =>
        match find (fun a => str_eqb (lower (snd a)) key) (s_aliases st) with
        | Some a => match star_of st (fst a) with
                    | Some s => Ok (true, fst a, s)
                    | None => KeyError
                    end
        | None => match star_of st defaultns with
                  | Some s => Ok (false, defaultns, s)
                  | None => KeyError
                  end
        end
    end.

  Lemma find_namespace_key st N d : find_namespace st N d = lookup_key st (py_strip (lower N)) d.
  Proof. reflexivity. Qed.

  Lemma lookup_key_found st key d k L : lookup_key st key d = Ok (true, k, L) -> forall d', lookup_key st key d' = Ok (true, k, L).
  Proof.
    unfold lookup_key. intros H d'.
    destruct (find _ (s_namespaces st)) as [e|]; [exact H|].
    destruct (find _ (s_aliases st)) as [a|]; [exact H|].
    destruct (star_of st d); [inversion H | discriminate].
  Qed.

  (* one-to-one case variants of a character *)
  Definition single (u : str) : list N := match u with [a] => [a] | _ => [] end.
  Definition cands (b : N) : list N := b :: single (upper_char b) ++ single (lower_char b).
  (* s is a per-letter case variant of n *)
  Definition cv (s n : str) : Prop := Forall2 (fun a b => In a (cands b)) s n.

  Definition is_Sigma (c : N) : bool := N.eqb c c_Sigma.

  Definition char_ok (a b : N) : bool :=
    negb (is_Sigma a) && str_eqb (lower_char a) (lower_char b) && str_eqb (lower_flat (upper_char a)) (lower_char b)
    && negb (existsb is_Sigma (upper_char a)) && (N.eqb a c_space || plain a) && negb (N.eqb a c_colon)
    && Bool.eqb (N.eqb a c_space) (N.eqb b c_space).

  Definition ws_endsb (s : str) : bool :=
    match s with [] => true | h :: _ => negb (is_ws h) end && match rev s with [] => true | l :: _ => negb (is_ws l) end.

  Definition name_ok (st : site) (k : Z) (n : str) : bool :=
    match n with
    | [] => true
    | _ => tidyb n && ws_endsb (lower_flat n)
           && match star_of st k with Some L => res_is (lookup_key st (lower_flat n) 0%Z) true k L | None => false end
           && forallb (fun b => forallb (fun a => char_ok a b) (cands b)) n
    end.

  Definition names_of (st : site) (k : Z) : list str :=
    flat_map (fun e => if Z.eqb (ns_id e) k then ns_star e :: match ns_canon e with Some c => [c] | None => [] end else [])
             (s_namespaces st)
    ++ flat_map (fun a => if Z.eqb (fst a) k then [snd a] else []) (s_aliases st).

  Definition site_names_ok (st : site) : bool :=
    forallb (fun e => name_ok st (ns_id e) (ns_star e) && match ns_canon e with Some c => name_ok st (ns_id e) c | None => true end)
            (s_namespaces st)
    && forallb (fun a => name_ok st (fst a) (snd a)) (s_aliases st).

  Lemma names_of_ok st k n : site_names_ok st = true -> In n (names_of st k) -> name_ok st k n = true.
  Proof.
    unfold site_names_ok, names_of. intros H Hin. apply andb_true_iff in H as [H1 H2].
    rewrite forallb_forall in H1, H2. apply in_app_or in Hin as [Hin|Hin]; apply in_flat_map in Hin as [x [Hx Hin]].
    - specialize (H1 x Hx). apply andb_true_iff in H1 as [A B].
      destruct (Z.eqb_spec (ns_id x) k) as [<-|]; [|contradiction].
      destruct Hin as [<-|Hin]; [exact A|]. destruct (ns_canon x); [|contradiction]. destruct Hin as [<-|[]]. exact B.
    - specialize (H2 x Hx). destruct (Z.eqb_spec (fst x) k) as [<-|]; [|contradiction]. destruct Hin as [<-|[]]. exact H2.
  Qed.

  Lemma char_ok_props a b : char_ok a b = true ->
    a <> c_Sigma /\ lower_char a = lower_char b /\ lower_flat (upper_char a) = lower_char b /\ ~ In c_Sigma (upper_char a) /\
    (a = c_space \/ plain a = true) /\ a <> c_colon /\ (a = c_space <-> b = c_space).
  Proof.
    unfold char_ok. intros H. repeat (apply andb_true_iff in H as [H ?]).
    repeat split.
    - apply negb_true_iff in H. apply N.eqb_neq. exact H.
    - apply str_eqb_spec. assumption.
    - apply str_eqb_spec. assumption.
    - intros X. match goal with Hx : negb (existsb _ _) = true |- _ => apply negb_true_iff in Hx; rename Hx into Hx' end.
      assert (Y : existsb is_Sigma (upper_char a) = true) by (apply existsb_exists; exists c_Sigma; split; [exact X | apply N.eqb_refl]).
      congruence.
    - match goal with Hx : (_ || plain a) = true |- _ => apply orb_true_iff in Hx as [Hx|Hx] end; [left; apply N.eqb_eq; assumption | right; assumption].
    - match goal with Hx : negb (N.eqb a c_colon) = true |- _ => apply negb_true_iff in Hx; apply N.eqb_neq; exact Hx end.
    - intros ->. match goal with Hx : Bool.eqb _ _ = true |- _ => apply Bool.eqb_prop in Hx; rewrite N.eqb_refl in Hx; symmetry in Hx; apply N.eqb_eq in Hx; exact Hx end.
    - intros ->. match goal with Hx : Bool.eqb _ _ = true |- _ => apply Bool.eqb_prop in Hx; rewrite N.eqb_refl in Hx; apply N.eqb_eq in Hx; exact Hx end.
  Qed.

  (* facts about a case variant s of an admissible name n *)
  Lemma cv_facts s n : cv s n -> forallb (fun b => forallb (fun a => char_ok a b) (cands b)) n = true ->
    Forall2 (fun a b => char_ok a b = true) s n.
  Proof.
    induction 1 as [|a b s' n' Hab _ IH]; intros H; [constructor|]. cbn in H. apply andb_true_iff in H as [H1 H2].
    constructor; [|exact (IH H2)]. change (forallb (fun a0 => char_ok a0 b) (cands b) = true) in H1.
    rewrite forallb_forall in H1. exact (H1 a Hab).
  Qed.

  Lemma F2_lower s n : Forall2 (fun a b => char_ok a b = true) s n -> lower_flat s = lower_flat n /\ ~ In c_Sigma s /\ ~ In c_colon s.
  Proof.
    induction 1 as [|a b s' n' Hab _ [IH1 [IH2 IH3]]]; [repeat split; intros []|].
    apply char_ok_props in Hab as [A [B [_ [_ [_ [F _]]]]]]. repeat split.
    - cbn [lower_flat flat_map]. fold (lower_flat s') (lower_flat n'). congruence.
    - intros [X|X]; [congruence | exact (IH2 X)].
    - intros [X|X]; [congruence | exact (IH3 X)].
  Qed.

  Lemma F2_tidy s n : Forall2 (fun a b => char_ok a b = true) s n -> tidy n -> tidy s.
  Proof.
    intros H [T1 [T2 T3]].
    assert (Hus : no_us s).
    { clear T1 T2 T3. induction H as [|a b s' n' Hab _ IH]; [constructor|]. constructor; [|exact IH].
      apply char_ok_props in Hab as [_ [_ [_ [_ [[->|E] _]]]]]; [discriminate | apply plain_not_us; exact E]. }
    assert (Hsq : sq s = true).
    { clear T1 T3 Hus. revert T2. induction H as [|a b s' n' Hab Hr IH]; [reflexivity|]. cbn [sq]. intros T.
      apply andb_true_iff in T as [Ta Tb]. rewrite (IH Tb), andb_true_r.
      apply char_ok_props in Hab as [_ [_ [_ [_ [_ [_ Hsp]]]]]].
      destruct (N.eqb_spec a c_space) as [Ea|Ea]; [|reflexivity]. cbn.
      assert (Eb : b = c_space) by (apply Hsp; exact Ea). subst b. rewrite N.eqb_refl in Ta. cbn in Ta.
      destruct Hr as [|a2 b2 s2 n2 Hab2 _]; [reflexivity|]. cbn in *.
      apply char_ok_props in Hab2 as [_ [_ [_ [_ [_ [_ Hsp2]]]]]].
      destruct (N.eqb_spec a2 c_space) as [E2|E2]; [|reflexivity].
      assert (b2 = c_space) by (apply Hsp2; exact E2). subst b2. rewrite N.eqb_refl in Ta. discriminate. }
    split; [exact Hus | split; [exact Hsq|]].
    assert (Hne : forall a b, char_ok a b = true -> is_edge b = false -> is_edge a = false).
    { intros a b Hab Hb. apply char_ok_props in Hab as [_ [_ [_ [_ [[E|E] [_ Hsp]]]]]]; [|apply plain_not_edge; exact E].
      apply Hsp in E. subst b. rewrite edge_space in Hb. discriminate. }
    destruct T3 as [T3 T4]. split.
    - destruct H as [|a b s' n' Hab _]; [exact I|]. exact (Hne a b Hab T3).
    - assert (Hr : Forall2 (fun a b => char_ok a b = true) (rev s) (rev n)) by (apply Forall2_rev; exact H).
      destruct Hr as [|a b s' n' Hab _]; [exact I|]. exact (Hne a b Hab T4).
  Qed.

  (* white space / edge characters possibly written as '_' *)
  Definition edge' (c : N) : Prop := is_edge c = true \/ c = c_underscore.
  Definition ws' (c : N) : Prop := is_ws c = true \/ c = c_underscore.

  Lemma repl_edge' E : Forall edge' E -> Forall (fun c => is_edge c = true) (repl_us E).
  Proof.
    induction 1 as [|c r Hc _ IH]; [constructor|]. unfold repl_us in *. cbn [map]. constructor; [|exact IH].
    destruct (N.eqb_spec c c_underscore) as [->|Hne]; [apply edge_space|]. destruct Hc; [assumption|contradiction].
  Qed.

  Lemma repl_ws' E : Forall ws' E -> Forall (fun c => is_ws c = true) (repl_us E).
  Proof.
    induction 1 as [|c r Hc _ IH]; [constructor|]. unfold repl_us in *. cbn [map]. constructor; [|exact IH].
    destruct (N.eqb_spec c c_underscore) as [->|Hne]; [apply ws_space|]. destruct Hc; [assumption|contradiction].
  Qed.

  Lemma ws_is_edge w : Forall (fun c => is_ws c = true) w -> Forall (fun c => is_edge c = true) w.
  Proof. apply Forall_impl. intros c H. unfold Model.is_edge. rewrite H. reflexivity. Qed.

  (* a string with the squeeze-image x has the ends of x *)
  Lemma squeeze_ends_inv p z x : squeeze z = x -> ends_ok p x -> ends_ok p z /\ (x = [] -> z = []).
  Proof.
    intros E [H1 H2]. split; [split|].
    - pose proof (squeeze_head_eq z) as F. destruct z as [|h r]; [exact I|]. destruct F as [r' F]. rewrite <- E in H1. rewrite F in H1. exact H1.
    - pose proof (squeeze_head_eq (rev z)) as F. destruct (rev z) as [|h r] eqn:Er; [exact I|]. destruct F as [r' F].
      rewrite <- Er in F. rewrite squeeze_rev, E in F. rewrite F in H2. exact H2.
    - intros ->. apply squeeze_nil_inv. exact E.
  Qed.

  Lemma ends_ok_hd32 s : ends_ok is_edge s -> hd32 s = false.
  Proof.
    intros [H _]. destruct s as [|h r]; [reflexivity|]. cbn. apply N.eqb_neq. intros ->. rewrite edge_space in H. discriminate.
  Qed.

  Lemma ends_ok_last32 s : ends_ok is_edge s -> last32 s = false.
  Proof.
    intros [_ H]. unfold last32. destruct (rev s) as [|h r]; [reflexivity|]. apply N.eqb_neq. intros ->. rewrite edge_space in H. discriminate.
  Qed.

  Lemma rstrip_id p s : last_ok p s -> rstrip p s = s.
  Proof.
    intros H. destruct (snoc_cases s) as [->|[a [l ->]]]; [reflexivity|].
    unfold last_ok in H. rewrite rev_app_distr in H. cbn in H. apply rstrip_snoc. exact H.
  Qed.

  Lemma strip_edge_prefix E x : Forall (fun c => is_edge c = true) E -> ends_ok is_edge x -> strip_edges (E ++ x) = x.
  Proof.
    intros HE Hx. unfold Model.strip_edges, strip. rewrite lstrip_app_all by exact HE.
    exact (strip_id is_edge x Hx).
  Qed.

  (* the page part: edge* <remainder> edge*  normalises to the remainder *)
  Lemma tail_norm E3 zp E4 p : Forall (fun c => is_edge c = true) E3 -> Forall (fun c => is_edge c = true) E4 ->
    squeeze zp = p -> tidy p ->
    let U := squeeze (rstrip is_edge (E3 ++ zp ++ E4)) in strip_edges U = p /\ last_ok is_edge U.
  Proof.
    intros H3 H4 Ez [_ [_ Hp]]. destruct (squeeze_ends_inv is_edge zp p Ez Hp) as [Hz Hnil]. cbn zeta.
    destruct (snoc_cases zp) as [->|[a [l ->]]].
    - cbn [app]. rewrite rstrip_all by (apply Forall_app; split; assumption). cbn in Ez. subst p. split; [reflexivity | exact I].
    - assert (Hl : is_edge l = false).
      { destruct Hz as [_ Hz]. rewrite rev_app_distr in Hz. exact Hz. }
      replace (E3 ++ (a ++ [l]) ++ E4) with ((E3 ++ a) ++ l :: E4) by (rewrite <- !app_assoc; reflexivity).
      rewrite rstrip_mid by exact Hl. rewrite rstrip_all by exact H4.
      replace ((E3 ++ a) ++ [l]) with (E3 ++ (a ++ [l])) by (rewrite <- !app_assoc; reflexivity).
      rewrite squeeze_app by (rewrite (ends_ok_hd32 _ Hz); apply andb_false_r). rewrite Ez.
      split.
      + apply strip_edge_prefix; [apply squeeze_subseq_Forall; exact H3 | exact Hp].
      + destruct Hp as [_ Hp]. destruct p as [|p0 p'].
        * apply squeeze_nil_inv in Ez. destruct a; discriminate.
        * apply last_ok_app; [discriminate | exact Hp].
  Qed.

  Definition lead (C : option str) : str := match C with None => [] | Some E2 => c_colon :: E2 end.

  (* the body  <name> ws* ":" <tail>  after squeezing *)
  Lemma body_norm z s Wr T' : squeeze z = s -> tidy s -> s <> [] -> Forall (fun c => is_ws c = true) Wr ->
    last_ok is_edge (squeeze T') ->
    squeeze (z ++ Wr ++ c_colon :: T') = s ++ squeeze Wr ++ c_colon :: squeeze T' /\
    ends_ok is_edge (s ++ squeeze Wr ++ c_colon :: squeeze T').
  Proof.
    intros Ez [_ [_ Hs]] Hne HW HT. destruct (squeeze_ends_inv is_edge z s Ez Hs) as [Hz _]. split.
    - rewrite squeeze_app by (rewrite (ends_ok_last32 _ Hz); reflexivity). rewrite Ez.
      rewrite squeeze_app by (cbn [hd32]; apply andb_false_r). cbn [squeeze]. cbn. reflexivity.
    - destruct s as [|s0 s']; [congruence|]. split; [exact (proj1 Hs)|].
      change (last_ok is_edge ((s0 :: s') ++ squeeze Wr ++ c_colon :: squeeze T')).
      apply last_ok_app; [destruct (squeeze Wr); discriminate|]. apply last_ok_app; [discriminate|].
      destruct (squeeze T') as [|u0 u'] eqn:EU.
      + unfold last_ok. cbn. apply edge_colon.
      + change (c_colon :: u0 :: u') with ([c_colon] ++ u0 :: u'). apply last_ok_app; [discriminate | exact HT].
  Qed.

  Lemma cap_app cap s x : s <> [] -> maybe_capitalize cap (s ++ x) = maybe_capitalize cap s ++ x.
  Proof. intros H. destruct cap; [|reflexivity]. destruct s; [congruence|]. cbn. rewrite <- app_assoc. reflexivity. Qed.

  Lemma strip_app_all_r p x e : ends_ok p x -> Forall (fun c => p c = true) e -> strip p (x ++ e) = x.
  Proof.
    intros Hx He. unfold strip. destruct x as [|h r].
    - cbn [app]. rewrite lstrip_all by exact He. reflexivity.
    - destruct Hx as [H1 H2]. change ((h :: r) ++ e) with (h :: (r ++ e)). rewrite lstrip_stop by exact H1.
      change (h :: r ++ e) with ((h :: r) ++ e). rewrite rstrip_app_all by exact He. apply rstrip_id. exact H2.
  Qed.

  Lemma ws_endsb_spec s : ws_endsb s = true -> ends_ok is_ws s.
  Proof.
    unfold ws_endsb, ends_ok. intros H. apply andb_true_iff in H as [H1 H2]. split.
    - destruct s; [exact I|]. apply negb_true_iff in H1. exact H1.
    - destruct (rev s); [exact I|]. apply negb_true_iff in H2. exact H2.
  Qed.

  (* the namespace lookup on a case variant of an admissible name, followed by white space *)
  Lemma lookup_variant st k L n s W2 d : name_ok st k n = true -> n <> [] -> star_of st k = Some L -> cv s n ->
    Forall (fun c => is_ws c = true) W2 ->
    tidy s /\ ~ In c_colon (maybe_capitalize (s_capitalize st) s ++ W2) /\
    find_namespace st (maybe_capitalize (s_capitalize st) s ++ W2) d = Ok (true, k, L).
  Proof.
    intros Hok Hne HL Hcv HW. unfold name_ok in Hok. destruct n as [|n0 n']; [congruence|].
    apply andb_true_iff in Hok as [Hok Hch]. apply andb_true_iff in Hok as [Hok Hlk]. apply andb_true_iff in Hok as [Htn Hwe].
    rewrite HL in Hlk. apply res_is_spec in Hlk. apply tidyb_spec in Htn. apply ws_endsb_spec in Hwe.
    pose proof (cv_facts _ _ Hcv Hch) as HF. pose proof (F2_tidy _ _ HF Htn) as Hts.
    destruct (F2_lower _ _ HF) as [Hlow [HnS HnC]].
    destruct s as [|a0 s']; [inversion HF|]. assert (HF2 : char_ok a0 n0 = true /\ Forall2 (fun a b => char_ok a b = true) s' n') by (inversion HF; subst; split; assumption).
    destruct HF2 as [Hab0 HF'].
    pose proof (char_ok_props _ _ Hab0) as [A1 [A2 [A3 [A4 [A5 [A6 A7]]]]]].
    assert (Hp0 : plain a0 = true).
    { destruct A5 as [->|X]; [|exact X]. destruct Hts as [_ [_ [X _]]]. cbn in X. rewrite edge_space in X. discriminate. }
    destruct (F2_lower _ _ HF') as [Hlow' [HnS' HnC']].
    set (cap := s_capitalize st).
    assert (Hcap : ~ In c_colon (maybe_capitalize cap (a0 :: s')) /\ ~ In c_Sigma (maybe_capitalize cap (a0 :: s')) /\
                   lower_flat (maybe_capitalize cap (a0 :: s')) = lower_flat (n0 :: n')).
    { destruct cap; cbn [Model.maybe_capitalize]; [|split; [exact HnC | split; [exact HnS | exact Hlow]]].
      destruct (upper_plain a0 Hp0) as [_ Hall]. rewrite Forall_forall in Hall. split; [|split].
      - intros X. apply in_app_or in X as [X|X]; [|exact (HnC' X)]. destruct (Hall _ X) as [_ Y]. exact (A6 (Y eq_refl)).
      - intros X. apply in_app_or in X as [X|X]; [exact (A4 X) | exact (HnS' X)].
      - rewrite lower_flat_app. cbn [lower_flat flat_map]. fold (lower_flat n'). rewrite A3, Hlow'. reflexivity. }
    destruct Hcap as [C1 [C2 C3]].
    split; [exact Hts | split].
    - intros X. apply in_app_or in X as [X|X]; [exact (C1 X)|]. rewrite Forall_forall in HW. specialize (HW _ X). congruence.
    - rewrite find_namespace_key. rewrite lower_flat_eq.
      + rewrite lower_flat_app, C3, (lower_flat_ws _ HW). unfold Model.py_strip. rewrite strip_app_all_r by assumption.
        exact (lookup_key_found _ _ _ _ _ Hlk d).
      + intros X. apply in_app_or in X as [X|X]; [exact (C2 X)|]. rewrite Forall_forall in HW. specialize (HW _ X). congruence.
  Qed.

  Lemma drop_colons_step_id f (x : str) : head_not_colon x ->
    match x with [] => (x, 0%Z) | c :: r => if N.eqb c c_colon then drop_colons f (strip_edges r) 0%Z else (x, 0%Z) end = (x, 0%Z).
  Proof. intros H. destruct x as [|c r]; [reflexivity|]. cbn in H. apply N.eqb_neq in H. rewrite H. reflexivity. Qed.

  Theorem splitname_spelling st k L n s NS' W p P' E1 C E3 E4 dns :
    site_names_ok st = true -> In n (names_of st k) -> n <> [] -> star_of st k = Some L ->
    cv s n -> squeeze (repl_us NS') = s ->
    Forall ws' W -> Forall edge' E1 -> Forall edge' (match C with Some E2 => E2 | None => [] end) -> Forall edge' E3 -> Forall edge' E4 ->
    tidy p -> squeeze (repl_us P') = p ->
    splitname st (E1 ++ lead C ++ NS' ++ W ++ c_colon :: E3 ++ P' ++ E4) dns
    = Ok (k, maybe_capitalize (s_capitalize st) p, prefix_of L ++ maybe_capitalize (s_capitalize st) p).
  Proof.
    intros Hsite Hin Hne HL Hcv Ez HW HE1 HC HE3 HE4 Htp Ezp.
    pose proof (names_of_ok st k n Hsite Hin) as Hok.
    set (z := repl_us NS') in *. set (zp := repl_us P') in *.
    pose proof (repl_ws' _ HW) as HWr. pose proof (repl_edge' _ HE1) as HE1r. pose proof (repl_edge' _ HE3) as HE3r.
    pose proof (repl_edge' _ HE4) as HE4r. pose proof (repl_edge' _ HC) as HCr.
    set (Wr := repl_us W) in *. set (E1r := repl_us E1) in *. set (E3r := repl_us E3) in *. set (E4r := repl_us E4) in *.
    set (T := E3r ++ zp ++ E4r). set (T' := rstrip is_edge T).
    destruct (tail_norm E3r zp E4r p HE3r HE4r Ezp Htp) as [HU HUl]. fold T in HU, HUl. fold T' in HU, HUl.
    assert (HW2 : Forall (fun c => is_ws c = true) (squeeze Wr)) by (apply squeeze_subseq_Forall; exact HWr).
    destruct (lookup_variant st k L n s (squeeze Wr) 0%Z Hok Hne HL Hcv HW2) as [Hts _].
    assert (Hsne : s <> []).
    { intros ->. inversion Hcv. subst. congruence. }
    destruct (body_norm z s Wr T' Ez Hts Hsne HWr HUl) as [HB1 HB2].
    set (X := s ++ squeeze Wr ++ c_colon :: squeeze T') in *.
    assert (Hz : ends_ok is_edge z) by (destruct Hts as [_ [_ Hs]]; exact (proj1 (squeeze_ends_inv is_edge z s Ez Hs))).
    assert (Hzne : z <> []) by (intros Hz0; rewrite Hz0 in Ez; cbn in Ez; congruence).
    assert (HXh : head_not_colon X).
    { destruct s as [|s0 s']; [congruence|]. cbn. intros ->. inversion Hcv as [|a b s2 n2 Hab Hr]. subst.
      unfold name_ok in Hok. apply andb_true_iff in Hok as [_ Hch]. pose proof (cv_facts _ _ Hcv Hch) as HF.
      inversion HF; subst. match goal with Hx : char_ok c_colon _ = true |- _ => apply char_ok_props in Hx; destruct Hx as [_ [_ [_ [_ [_ [Hx _]]]]]]; congruence end. }
    (* the name and default namespace after preprocessing *)
    assert (Hpre : exists d1, pre_name st (E1 ++ lead C ++ NS' ++ W ++ c_colon :: E3 ++ P' ++ E4) dns
                              = (maybe_capitalize (s_capitalize st) X, d1)).
    { unfold pre_name.
      assert (Hrepl : repl_us (E1 ++ lead C ++ NS' ++ W ++ c_colon :: E3 ++ P' ++ E4)
                      = E1r ++ repl_us (lead C) ++ z ++ Wr ++ c_colon :: T).
      { rewrite !repl_us_app. unfold repl_us at 5. cbn [map]. fold (repl_us (E3 ++ P' ++ E4)). rewrite !repl_us_app. reflexivity. }
      rewrite Hrepl. destruct C as [E2|]; cbn [lead].
      - assert (Hc2 : repl_us (c_colon :: E2) = c_colon :: repl_us E2) by reflexivity. rewrite Hc2. clear Hc2. cbn [app].
        set (E2r := repl_us E2) in *.
        assert (Hstrip : strip_edges (E1r ++ c_colon :: E2r ++ z ++ Wr ++ c_colon :: T) = c_colon :: E2r ++ z ++ Wr ++ c_colon :: T').
        { unfold Model.strip_edges, strip. rewrite lstrip_app_all by exact HE1r. rewrite lstrip_stop by apply edge_colon.
          replace (c_colon :: E2r ++ z ++ Wr ++ c_colon :: T) with ((c_colon :: E2r ++ z ++ Wr) ++ c_colon :: T)
            by (cbn; rewrite <- !app_assoc; reflexivity).
          rewrite rstrip_mid by apply edge_colon. cbn. rewrite <- !app_assoc. reflexivity. }
        rewrite Hstrip. cbn [squeeze]. cbn [N.eqb c_colon c_space Pos.eqb andb].
        rewrite squeeze_app by (rewrite hd32_app_ne by exact Hzne; rewrite (ends_ok_hd32 _ Hz); apply andb_false_r).
        rewrite HB1. fold X. cbn [length]. cbn [Model.drop_colons]. rewrite N.eqb_refl.
        rewrite strip_edge_prefix by (try apply squeeze_subseq_Forall; assumption).
        rewrite (drop_colons_step_id _ X HXh). cbn [fst snd]. exists 0%Z. reflexivity.
      - cbn [repl_us map app].
        assert (Hstrip : strip_edges (E1r ++ z ++ Wr ++ c_colon :: T) = z ++ Wr ++ c_colon :: T').
        { unfold Model.strip_edges, strip. rewrite lstrip_app_all by exact HE1r.
          destruct z as [|z0 z']; [congruence|]. cbn [app]. rewrite lstrip_stop by exact (proj1 Hz).
          replace (z0 :: z' ++ Wr ++ c_colon :: T) with ((z0 :: z' ++ Wr) ++ c_colon :: T) by (cbn; rewrite <- !app_assoc; reflexivity).
          rewrite rstrip_mid by apply edge_colon. cbn. rewrite <- !app_assoc. reflexivity. }
        rewrite Hstrip, HB1. fold X. rewrite drop_colons_id by exact HXh. cbn [fst snd]. exists dns. reflexivity. }
    destruct Hpre as [d1 Hpre]. rewrite splitname_core, Hpre. cbn [fst snd].
    unfold X. rewrite cap_app by exact Hsne. rewrite app_assoc.
    destruct (lookup_variant st k L n s (squeeze Wr) d1 Hok Hne HL Hcv HW2) as [_ [Hnc Hfind]].
    unfold core. rewrite split1_app by exact Hnc. rewrite Hfind. unfold Model.finish. rewrite HU.
    unfold prefix_of. reflexivity.
  Qed.

  (* titles without a namespace prefix: they land in the default namespace (the main namespace after a leading colon) *)
  Theorem splitname_spelling_plain st p P' E1 C E4 dns d Ld :
    Forall edge' E1 -> Forall edge' (match C with Some E2 => E2 | None => [] end) -> Forall edge' E4 ->
    tidy p -> ~ In c_colon p -> squeeze (repl_us P') = p ->
    d = (match C with Some _ => 0%Z | None => dns end) -> star_of st d = Some Ld ->
    splitname st (E1 ++ lead C ++ P' ++ E4) dns
    = Ok (d, maybe_capitalize (s_capitalize st) p, prefix_of Ld ++ maybe_capitalize (s_capitalize st) p).
  Proof.
    intros HE1 HC HE4 Htp Hnc Ezp Hd HLd.
    pose proof (repl_edge' _ HE1) as HE1r. pose proof (repl_edge' _ HE4) as HE4r. pose proof (repl_edge' _ HC) as HCr.
    set (zp := repl_us P') in *. set (E1r := repl_us E1) in *. set (E4r := repl_us E4) in *.
    assert (Hzp : ends_ok is_edge zp) by (destruct Htp as [_ [_ Hp]]; exact (proj1 (squeeze_ends_inv is_edge zp p Ezp Hp))).
    assert (Hph : head_not_colon p) by (destruct p as [|p0 p']; [exact I | cbn; intros ->; apply Hnc; left; reflexivity]).
    assert (Hpre : pre_name st (E1 ++ lead C ++ P' ++ E4) dns = (maybe_capitalize (s_capitalize st) p, d)).
    { unfold pre_name. rewrite !repl_us_app. fold zp E1r E4r. destruct C as [E2|]; cbn [lead].
      - assert (Hc2 : repl_us (c_colon :: E2) = c_colon :: repl_us E2) by reflexivity. rewrite Hc2. clear Hc2. cbn [app].
        set (E2r := repl_us E2) in *.
        destruct (tail_norm E2r zp E4r p HCr HE4r Ezp Htp) as [HU HUl].
        assert (Hstrip : strip_edges (E1r ++ c_colon :: E2r ++ zp ++ E4r) = c_colon :: rstrip is_edge (E2r ++ zp ++ E4r)).
        { unfold Model.strip_edges, strip. rewrite lstrip_app_all by exact HE1r. rewrite lstrip_stop by apply edge_colon.
          change (c_colon :: E2r ++ zp ++ E4r) with ([] ++ c_colon :: E2r ++ zp ++ E4r). rewrite rstrip_mid by apply edge_colon. reflexivity. }
        rewrite Hstrip. cbn [squeeze]. cbn [N.eqb c_colon c_space Pos.eqb andb]. cbn [length]. cbn [Model.drop_colons]. rewrite N.eqb_refl.
        rewrite HU. rewrite (drop_colons_step_id _ p Hph). cbn [fst snd]. rewrite Hd. reflexivity.
      - change (repl_us []) with (@nil N). cbn [app].
        assert (Hstrip : strip_edges (E1r ++ zp ++ E4r) = zp).
        { unfold Model.strip_edges, strip. rewrite lstrip_app_all by exact HE1r. exact (strip_app_all_r is_edge zp E4r Hzp HE4r). }
        rewrite Hstrip, Ezp. rewrite drop_colons_id by exact Hph. cbn [fst snd]. rewrite Hd. reflexivity. }
    rewrite splitname_core, Hpre. cbn [fst snd]. unfold core.
    destruct (cap_tidy (s_capitalize st) p Htp) as [Tc [Fc _]].
    rewrite split1_none by (apply no_colon_cap; assumption). rewrite HLd. unfold Model.finish.
    assert (Hfix : maybe_capitalize (s_capitalize st) (maybe_capitalize (s_capitalize st) p) = maybe_capitalize (s_capitalize st) p).
    { destruct (s_capitalize st) eqn:E; [apply Fc; reflexivity | reflexivity]. }
    rewrite Hfix. unfold prefix_of. reflexivity.
  Qed.

  (* titles whose text before the first colon is NOT a name of the site (for instance a namespace name that only another
     wiki defines: "Portal:x" on a wiki without portal namespace): the whole text is an ordinary page name of the default
     namespace (the main namespace after a leading colon).  not_a_name: no local name, canonical name or alias of the
     site equals the prefix the way _find_namespace compares (lower-cased, stripped). *)
  Definition not_a_name (st : site) (a : str) : Prop :=
    let key := py_strip (lower a) in
    find (fun e => str_eqb (lower (ns_star e)) key || str_eqb (lower (canon_or_empty e)) key) (s_namespaces st) = None /\
    find (fun al => str_eqb (lower (snd al)) key) (s_aliases st) = None.

  Lemma find_namespace_not_a_name st a d Ld : not_a_name st a -> star_of st d = Some Ld ->
    find_namespace st a d = Ok (false, d, Ld).
  Proof. intros [H1 H2] HL. unfold Model.find_namespace. rewrite H1, H2, HL. reflexivity. Qed.

  Theorem splitname_spelling_foreign st p P' E1 C E4 dns d Ld a b :
    Forall edge' E1 -> Forall edge' (match C with Some E2 => E2 | None => [] end) -> Forall edge' E4 ->
    tidy p -> head_not_colon p -> squeeze (repl_us P') = p ->
    d = (match C with Some _ => 0%Z | None => dns end) -> star_of st d = Some Ld ->
    split1 c_colon (maybe_capitalize (s_capitalize st) p) = Some (a, b) -> not_a_name st a ->
    splitname st (E1 ++ lead C ++ P' ++ E4) dns
    = Ok (d, maybe_capitalize (s_capitalize st) p, prefix_of Ld ++ maybe_capitalize (s_capitalize st) p).
  Proof.
    intros HE1 HC HE4 Htp Hph Ezp Hd HLd Hsplit Hnot.
    pose proof (repl_edge' _ HE1) as HE1r. pose proof (repl_edge' _ HE4) as HE4r. pose proof (repl_edge' _ HC) as HCr.
    set (zp := repl_us P') in *. set (E1r := repl_us E1) in *. set (E4r := repl_us E4) in *.
    assert (Hzp : ends_ok is_edge zp) by (destruct Htp as [_ [_ Hp]]; exact (proj1 (squeeze_ends_inv is_edge zp p Ezp Hp))).
    assert (Hpre : pre_name st (E1 ++ lead C ++ P' ++ E4) dns = (maybe_capitalize (s_capitalize st) p, d)).
    { unfold pre_name. rewrite !repl_us_app. fold zp E1r E4r. destruct C as [E2|]; cbn [lead].
      - assert (Hc2 : repl_us (c_colon :: E2) = c_colon :: repl_us E2) by reflexivity. rewrite Hc2. clear Hc2. cbn [app].
        set (E2r := repl_us E2) in *.
        destruct (tail_norm E2r zp E4r p HCr HE4r Ezp Htp) as [HU HUl].
        assert (Hstrip : strip_edges (E1r ++ c_colon :: E2r ++ zp ++ E4r) = c_colon :: rstrip is_edge (E2r ++ zp ++ E4r)).
        { unfold Model.strip_edges, strip. rewrite lstrip_app_all by exact HE1r. rewrite lstrip_stop by apply edge_colon.
          change (c_colon :: E2r ++ zp ++ E4r) with ([] ++ c_colon :: E2r ++ zp ++ E4r). rewrite rstrip_mid by apply edge_colon. reflexivity. }
        rewrite Hstrip. cbn [squeeze]. cbn [N.eqb c_colon c_space Pos.eqb andb]. cbn [length]. cbn [Model.drop_colons]. rewrite N.eqb_refl.
        rewrite HU. rewrite (drop_colons_step_id _ p Hph). cbn [fst snd]. rewrite Hd. reflexivity.
      - change (repl_us []) with (@nil N). cbn [app].
        assert (Hstrip : strip_edges (E1r ++ zp ++ E4r) = zp).
        { unfold Model.strip_edges, strip. rewrite lstrip_app_all by exact HE1r. exact (strip_app_all_r is_edge zp E4r Hzp HE4r). }
        rewrite Hstrip, Ezp. rewrite drop_colons_id by exact Hph. cbn [fst snd]. rewrite Hd. reflexivity. }
    rewrite splitname_core, Hpre. cbn [fst snd]. unfold core.
    destruct (cap_tidy (s_capitalize st) p Htp) as [Tc [Fc _]].
    rewrite Hsplit. rewrite (find_namespace_not_a_name st a d Ld Hnot HLd). unfold Model.finish.
    assert (Hfix : maybe_capitalize (s_capitalize st) (maybe_capitalize (s_capitalize st) p) = maybe_capitalize (s_capitalize st) p).
    { destruct (s_capitalize st) eqn:E; [apply Fc; reflexivity | reflexivity]. }
    rewrite Hfix. unfold prefix_of. reflexivity.
  Qed.

  (* the constructive reading of "underscores or runs of spaces": y spells x when every space of x is written as a
     non-empty run of ' ' / '_' and every other character is kept *)
  Inductive expands : str -> str -> Prop :=
  | ex_nil : expands [] []
  | ex_char c a b : c <> c_space -> c <> c_underscore -> expands a b -> expands (c :: a) (c :: b)
  | ex_space a b run : run <> [] -> Forall (fun x => x = c_space \/ x = c_underscore) run -> expands a b ->
      expands (c_space :: a) (run ++ b).

  Lemma squeeze_spaces run z : run <> [] -> Forall (fun x => x = c_space) run -> hd32 z = false ->
    squeeze (run ++ z) = c_space :: squeeze z.
  Proof.
    intros Hne Hall Hz. induction run as [|x run IH]; [congruence|]. inversion Hall; subst.
    destruct run as [|y run'].
    - cbn [app squeeze]. fold (hd32 z). rewrite Hz. cbn. reflexivity.
    - cbn [app squeeze]. inversion H2; subst. cbn [N.eqb c_space Pos.eqb andb].
      change (c_space :: run' ++ z) with ((c_space :: run') ++ z). apply IH; [discriminate | assumption].
  Qed.

  Lemma expands_squeeze x y : expands x y -> sq x = true -> squeeze (repl_us y) = x.
  Proof.
    induction 1 as [|c a b Hc1 Hc2 _ IH|a b run Hne Hall _ IH]; intros Hsq; [reflexivity| |].
    - cbn [sq] in Hsq. apply andb_true_iff in Hsq as [_ Hsq]. specialize (IH Hsq).
      unfold repl_us in *. cbn [map]. apply N.eqb_neq in Hc2. rewrite Hc2. cbn [squeeze]. apply N.eqb_neq in Hc1. rewrite Hc1. cbn.
      rewrite IH. reflexivity.
    - cbn [sq] in Hsq. apply andb_true_iff in Hsq as [Hh Hsq]. specialize (IH Hsq).
      rewrite repl_us_app. rewrite squeeze_spaces.
      + rewrite IH. reflexivity.
      + destruct run; [congruence | discriminate].
      + unfold repl_us. apply Forall_forall. intros x Hx. apply in_map_iff in Hx as [y0 [<- Hy]].
        rewrite Forall_forall in Hall. destruct (Hall _ Hy) as [->| ->]; reflexivity.
      + rewrite <- (squeeze_hd32 (repl_us b)), IH. rewrite N.eqb_refl in Hh. cbn in Hh. apply negb_true_iff in Hh. exact Hh.
  Qed.
End Proofs.
