From Coq Require Import Extraction ExtrOcamlBasic.
From MW Require Import Common.Str C12.Model C12.Inst.
Extraction "../ocaml/c12/c12_model.ml" py_splitname py_lower py_strip_edges py_upper_char site_by_name all_sites.
