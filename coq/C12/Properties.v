(* C12 — property theorems only.  Each is closed by `exact <lemma>` and followed by Print Assumptions; the check
   re-compiles this file on every run.  `py_splitname` is the model of NsHandler.splitname (Model.v) instantiated with
   the tables generated from the running CPython (Gen_unicode.v); `all_sites` are the bundled siteinfo files
   (Gen_sites.v), both regenerated on every run. *)
From Coq Require Import List NArith ZArith Bool.
From MW Require Import Common.Str C12.Model C12.ListLemmas C12.Proofs C12.Inst C12.ProofsInst C12.ProofsFq.
Import ListNotations.
Open Scope N_scope.

(* The translator found exactly the 12 bundled sites. *)
Theorem C12_sites : length all_sites = 12%nat.
Proof. exact twelve_sites. Qed.
Print Assumptions C12_sites.

(* SHAPE.  For every bundled site, every title (any code points) and every default namespace: if splitname returns
   (k, P, F) then the site defines namespace k with local name L, F is L ++ ":" ++ P (just P when L is empty, i.e.
   the main namespace), P is a fixed point of first-letter capitalisation, and k is the default namespace, 0 (after a
   leading colon) or a namespace with a non-empty name found by lookup. *)
Theorem C12_shape : forall nm st t dns k P F,
  In (nm, st) all_sites -> py_splitname st t dns = Ok (k, P, F) ->
  exists L, star_of st k = Some L /\ F = prefix_of L ++ P /\
            maybe_capitalize py_upper_char (s_capitalize st) P = P /\
            (k = dns \/ k = 0%Z \/ L <> []).
Proof. exact py_shape. Qed.
Print Assumptions C12_shape.

(* IDEMPOTENCE.  The canonical full name F of ANY title normalises to the same triple again, in its own namespace k
   as default namespace (for main-namespace names that is default namespace 0: an unprefixed name is by definition read
   in the default namespace), and — whenever the namespace has a non-empty local name — under EVERY default namespace. *)
Theorem C12_idempotent : forall nm st t dns k P F,
  In (nm, st) all_sites -> py_splitname st t dns = Ok (k, P, F) ->
  py_splitname st F k = Ok (k, P, F) /\
  (star_of st k <> Some [] -> forall dns', py_splitname st F dns' = Ok (k, P, F)).
Proof. exact py_idempotent. Qed.
Print Assumptions C12_idempotent.

(* THE KEY get_fqname (what NuWiki, the fetcher and the expander store and look pages up under) of ANY title is a fixed
   point of get_fqname: in its own namespace as default namespace, and under EVERY default namespace when that namespace
   has a non-empty local name.  (get_fqname is the third component of splitname.) *)
Theorem C12_fqname_fixed_point : forall nm st t dns F,
  In (nm, st) all_sites -> py_get_fqname st t dns = Ok F ->
  exists k P, py_splitname st t dns = Ok (k, P, F)
    /\ py_get_fqname st F k = Ok F
    /\ (star_of st k <> Some [] -> forall dns', py_get_fqname st F dns' = Ok F).
Proof. exact py_fqname_fixed_point. Qed.
Print Assumptions C12_fqname_fixed_point.

(* ... and the key determines (namespace, remainder): two titles (whatever their spelling and default namespace) that get
   the same key, one of them outside the main namespace, have the same namespace id and the same remainder. *)
Theorem C12_fqname_determines_triple : forall nm st t1 d1 t2 d2 k1 P1 F1 k2 P2 F2,
  In (nm, st) all_sites ->
  py_splitname st t1 d1 = Ok (k1, P1, F1) -> py_splitname st t2 d2 = Ok (k2, P2, F2) ->
  F1 = F2 -> star_of st k1 <> Some [] -> (k1, P1) = (k2, P2).
Proof. exact py_fqname_determines_triple. Qed.
Print Assumptions C12_fqname_determines_triple.

(* SPELLING INVARIANCE, titles with a namespace prefix.  n is any name the site gives to namespace k (local "*",
   canonical, or alias; names_of), s any per-letter case variant of n (cv: each letter x as x, x.upper() or x.lower()
   when that is one character), NS' and P' spell s and the remainder p with every space written as a non-empty run of
   ' ' / '_' (expands); E1, E3, E4 (and E2 after an optional leading colon) are strings of edge characters (white
   space, U+200E, U+200F, '_'), W white space or '_' before the colon.  The result is always
   (k, capitalised p, local name ++ ":" ++ capitalised p): it depends on none of the spelling choices and k is the id
   the site defines for the name.  p is any tidy remainder (no '_', no double space, no edge character at either end),
   possibly empty, possibly containing ':'. *)
Theorem C12_spelling_invariant : forall nm st k L n s NS' W p P' E1 C E3 E4 dns,
  In (nm, st) all_sites -> In n (names_of st k) -> n <> [] -> star_of st k = Some L ->
  cv py_upper_char py_lower_char s n -> expands s NS' ->
  Forall (ws' py_is_ws) W -> Forall (edge' py_is_ws) E1 ->
  Forall (edge' py_is_ws) (match C with Some E2 => E2 | None => [] end) ->
  Forall (edge' py_is_ws) E3 -> Forall (edge' py_is_ws) E4 ->
  tidy py_is_ws p -> expands p P' ->
  py_splitname st (E1 ++ lead C ++ NS' ++ W ++ c_colon :: E3 ++ P' ++ E4) dns
  = Ok (k, maybe_capitalize py_upper_char (s_capitalize st) p,
        prefix_of L ++ maybe_capitalize py_upper_char (s_capitalize st) p).
Proof. exact py_spelling. Qed.
Print Assumptions C12_spelling_invariant.

(* SPELLING INVARIANCE, titles without prefix (p contains no ':'): the namespace is the default namespace, or 0 after
   a leading colon; the result depends on the decorations in no other way. Two remainders that differ in the case of
   the first letter give the same result because only `capitalise p` occurs in it. *)
Theorem C12_spelling_invariant_plain : forall nm st p P' E1 C E4 dns d Ld,
  In (nm, st) all_sites ->
  Forall (edge' py_is_ws) E1 -> Forall (edge' py_is_ws) (match C with Some E2 => E2 | None => [] end) ->
  Forall (edge' py_is_ws) E4 ->
  tidy py_is_ws p -> ~ In c_colon p -> expands p P' ->
  d = (match C with Some _ => 0%Z | None => dns end) -> star_of st d = Some Ld ->
  py_splitname st (E1 ++ lead C ++ P' ++ E4) dns
  = Ok (d, maybe_capitalize py_upper_char (s_capitalize st) p,
        prefix_of Ld ++ maybe_capitalize py_upper_char (s_capitalize st) p).
Proof. exact py_spelling_plain. Qed.
Print Assumptions C12_spelling_invariant_plain.

(* SPELLING INVARIANCE, titles whose text before the first colon is NOT a namespace name of the site — e.g. a name only
   ANOTHER wiki defines ("Portal:x" on a wiki without portal namespace).  p is the tidy title (it may contain colons but
   does not start with one), a the text before the first colon of the capitalised p, not_a_name: no local name, canonical
   name or alias of THIS site equals a the way _find_namespace compares (lower-cased, stripped).  The title is then an
   ordinary page name of the default namespace (main namespace after a leading colon), whatever the decorations. *)
Theorem C12_spelling_invariant_foreign_prefix : forall nm st p P' E1 C E4 dns d Ld a b,
  In (nm, st) all_sites ->
  Forall (edge' py_is_ws) E1 -> Forall (edge' py_is_ws) (match C with Some E2 => E2 | None => [] end) ->
  Forall (edge' py_is_ws) E4 ->
  tidy py_is_ws p -> head_not_colon p -> expands p P' ->
  d = (match C with Some _ => 0%Z | None => dns end) -> star_of st d = Some Ld ->
  split1 c_colon (maybe_capitalize py_upper_char (s_capitalize st) p) = Some (a, b) ->
  not_a_name py_is_ws py_lower_char py_cased py_ignorable st a ->
  py_splitname st (E1 ++ lead C ++ P' ++ E4) dns
  = Ok (d, maybe_capitalize py_upper_char (s_capitalize st) p,
        prefix_of Ld ++ maybe_capitalize py_upper_char (s_capitalize st) p).
Proof. exact py_spelling_foreign. Qed.
Print Assumptions C12_spelling_invariant_foreign_prefix.

(* Each site answers from ITS OWN table: en.wikipedia.org and simple.wikipedia.org both call themselves ("Wikipedia", "en"),
   yet "portal:x" is page X of namespace 100 on the former and the main-namespace page "Portal:x" on the latter. *)
Example C12_same_sitename_different_namespaces :
  exists en simple, In ([101; 110], en) all_sites /\ In ([115; 105; 109; 112; 108; 101], simple) all_sites /\
  py_splitname en [112; 111; 114; 116; 97; 108; 58; 120] 0%Z = Ok (100%Z, [88], [80; 111; 114; 116; 97; 108; 58; 88]) /\
  py_splitname simple [112; 111; 114; 116; 97; 108; 58; 120] 0%Z = Ok (0%Z, [80; 111; 114; 116; 97; 108; 58; 120], [80; 111; 114; 116; 97; 108; 58; 120]) /\
  not_a_name py_is_ws py_lower_char py_cased py_ignorable simple [80; 111; 114; 116; 97; 108].
Proof. exact portal_en_simple. Qed.
Print Assumptions C12_same_sitename_different_namespaces.

(* Non-vacuity: concrete runs on the site "de".
   "_ :bENUTZER__diskussion \t: <LRM>ßx_y " and "User talk:ßx y" both give (3, "SSx y", "Benutzer Diskussion:SSx y"),
   and that name is a fixed point under default namespaces 0 and 6. *)
Example C12_example :
  exists st, In ([100; 101], st) all_sites /\
  let r := Ok (3%Z, [83; 83; 120; 32; 121],
               [66; 101; 110; 117; 116; 122; 101; 114; 32; 68; 105; 115; 107; 117; 115; 115; 105; 111; 110; 58; 83; 83; 120; 32; 121]) in
  py_splitname st [95; 32; 58; 98; 69; 78; 85; 84; 90; 69; 82; 95; 95; 100; 105; 115; 107; 117; 115; 115; 105; 111; 110; 32; 9; 58; 32; 8206; 223; 120; 95; 121; 32] 6%Z = r /\
  py_splitname st [85; 115; 101; 114; 32; 116; 97; 108; 107; 58; 223; 120; 32; 121] 0%Z = r /\
  py_splitname st [66; 101; 110; 117; 116; 122; 101; 114; 32; 68; 105; 115; 107; 117; 115; 115; 105; 111; 110; 58; 83; 83; 120; 32; 121] 0%Z = r /\
  py_splitname st [66; 101; 110; 117; 116; 122; 101; 114; 32; 68; 105; 115; 107; 117; 115; 115; 105; 111; 110; 58; 83; 83; 120; 32; 121] 6%Z = r.
Proof. eexists. split; [left; reflexivity|]. vm_compute. repeat split. Qed.
Print Assumptions C12_example.

(* Why idempotence of main-namespace names is stated under default namespace 0: ":x" read with default namespace 6
   (File) is page "X" of the main namespace; "X" itself, read with default namespace 6, is "Datei:X". *)
Example C12_main_namespace_under_other_default :
  exists st, In ([100; 101], st) all_sites /\
  py_splitname st [58; 120] 6%Z = Ok (0%Z, [88], [88]) /\
  py_splitname st [88] 0%Z = Ok (0%Z, [88], [88]) /\
  py_splitname st [88] 6%Z = Ok (6%Z, [88], [68; 97; 116; 101; 105; 58; 88]).
Proof. eexists. split; [left; reflexivity|]. vm_compute. repeat split. Qed.
Print Assumptions C12_main_namespace_under_other_default.
